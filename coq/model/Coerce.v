(* Model of the way flow.record converts a value on its way into a record slot: the constructors of the
   field-type classes (flow/record/fieldtypes/__init__.py, fieldtypes/net/ip.py), typedlist, and
   Record.__setattr__ / the generated __init__ / Record._replace (flow/record/base.py).

   The model is FAITHFUL to the code as it is, defects included (text with a lone surrogate is accepted).
   Three former defects are repaired in the code; the model follows the generated facts, so with the facts
   of the unrepaired code (f_uint_integral = false and f_uint_keeps_arg = true, f_bool_integral = false,
   f_digest_else_empty = true) it shows the old behaviour: uint16(5.7) keeps 5.7 as packed value,
   boolean(0.5) is accepted, digest(<text>) is silently empty.

   Two parameters:
   * [facts]  -- shapes and constants read from the source on every run (GENERATED: gen/Gen_coerce.v);
   * [env]    -- answers of the Python runtime / standard library that the constructors delegate to
                 (str(), int(), float() of foreign kinds, ipaddress parsing, fromisoformat/fromtimestamp,
                 urlparse, pathlib normalisation, shlex splitting, iteration of str/bytes).  The theorems
                 quantify over every env; the correspondence check instantiates it with the answers of
                 the real runtime for the values of each case.
   Definitions only; proofs are in proofs/Coerce_proofs.v. *)
From Coq Require Import List Bool ZArith NArith String.
From Coq Require Import Init.Byte.
From FR Require Import Bytes.
Import ListNotations.
Open Scope Z_scope.

(* ------------------------------------------------------------------------------------------ *)
(* 1. field types, candidate values, stored values                                             *)

Inductive ftype :=
| TString            (* string, wstring *)
| TUri
| TVarint            (* varint, filesize, unix_file_mode: same constructor (int.__new__) *)
| TUint16            (* uint16, net.tcp.Port, net.udp.Port *)
| TUint32
| TBoolean
| TFloat
| TBytes
| TDatetime
| TPath
| TCommand
| TDigest
| TIpAddress         (* net.ipaddress, net.IPAddress *)
| TIpNetwork         (* net.ipnetwork, net.IPNetwork *)
| TRecord            (* documented pass-through *)
| TStringlist
| TDictlist
| TDynamic
| TList (elt : ftype).   (* T[] *)

Fixpoint ftype_eqb (a b : ftype) : bool :=
  match a, b with
  | TString, TString | TUri, TUri | TVarint, TVarint | TUint16, TUint16 | TUint32, TUint32
  | TBoolean, TBoolean | TFloat, TFloat | TBytes, TBytes | TDatetime, TDatetime | TPath, TPath
  | TCommand, TCommand | TDigest, TDigest | TIpAddress, TIpAddress | TIpNetwork, TIpNetwork
  | TRecord, TRecord | TStringlist, TStringlist | TDictlist, TDictlist | TDynamic, TDynamic => true
  | TList x, TList y => ftype_eqb x y
  | _, _ => false
  end.

(* a float as the harness describes it: its 64 bits and, for comparisons with integers and for int(),
   floor(value) and whether value is integral *)
Inductive fcls := FFinite (floor : Z) (integral : bool) | FNan | FInf (neg : bool).

(* wall-clock fields of a datetime *)
Record wall := Wall { w_y : Z; w_mo : Z; w_d : Z; w_h : Z; w_mi : Z; w_s : Z; w_us : Z }.

(* candidate input values.  Text is carried as its UTF-8/surrogateescape encoding; [lone] says that it
   contains a surrogate that is not such an escape (then [enc] is the surrogatepass encoding). *)
Inductive pv :=
| PNone
| PBool (b : bool)
| PInt (z : Z)
| PFloat (bits : N) (c : fcls)
| PStr (enc : bytes) (lone : bool)
| PBytes (b : bytes)
| PList (l : list pv)
| PTuple (l : list pv)
| PDict (kvs : list (pv * pv))
| PDatetime (w : wall) (off : option Z)      (* off = utcoffset in microseconds; None = naive *)
| PPath (windows : bool) (text : bytes)      (* a pathlib.PurePath: flavour and str() *)
| PRecord (id : N)
| POther (id : N)                            (* object(), bytearray, set, ... *)
| PTyped (c : ftype) (p : pv).               (* an instance of the class of field type c, built as c(p) *)

(* what uint16/uint32 keep in .value (the packed form) *)
Inductive uval := UInt (z : Z) | UBool (b : bool) | UFloat (bits : N).

Inductive sval :=
| SNone
| SStr (enc : bytes) (lone : bool)
| SInt (z : Z)
| SUInt (obj : Z) (value : uval)             (* the int object and its .value *)
| SBool (obj : Z) (value : bool)             (* boolean: the int object and its .value *)
| SFloat (bits : N)
| SBytes (b : bytes)
| SDt (w : wall) (off : option Z)
| SPath (windows : bool) (text : bytes) (lone : bool)
| SCmd (windows : bool) (lone : bool)
| SDigest (md5 sha1 sha256 : option bytes)   (* the binary digests *)
| SIp (version : Z) (n : Z)
| SNet (text : bytes)
| SList (l : list sval)
| SPass (v : pv).                            (* stored exactly as given *)

Inductive exc := ETypeError | EValueError | EOverflowError | EAttributeError | ENotImplementedError
               | EUnboundLocalError.
Inductive result (A : Type) := Ok (a : A) | Raise (e : exc).
Arguments Ok {A} a.
Arguments Raise {A} e.

Definition bind {A B} (r : result A) (f : A -> result B) : result B :=
  match r with Ok a => f a | Raise e => Raise e end.

Section MapRes.
  Context {A B : Type}.
  Variable f : A -> result B.
  Fixpoint map_res (l : list A) : result (list B) :=
    match l with
    | [] => Ok []
    | x :: r => match f x with
                | Raise e => Raise e
                | Ok y => match map_res r with Raise e => Raise e | Ok ys => Ok (y :: ys) end
                end
    end.
End MapRes.

(* ------------------------------------------------------------------------------------------ *)
(* 2. generated facts and the runtime environment                                              *)

Inductive cmp_lo := LoLt | LoLe.     (* value <  k   |  value <= k   raises *)
Inductive cmp_hi := HiGt | HiGe.     (* value >  k   |  value >= k   raises *)
Record bound := { b_lo : Z; b_lo_op : cmp_lo; b_hi : Z; b_hi_op : cmp_hi }.

Record facts := {
  f_uint16 : bound;                (* uint16.__init__: `value < 0 or value > 0xFFFF` *)
  f_uint32 : bound;
  f_boolean : bound;               (* boolean.__init__: `value < 0 or value > 1` *)
  f_uint_integral : bool;          (* uint16/uint32: `if value != int(self): raise` after the range test *)
  f_bool_integral : bool;          (* boolean: `... or value != int(self)` in the range test *)
  f_uint_keeps_arg : bool;         (* uint16/uint32: `self.value = value` (the argument itself); false: int(self) *)
  f_bytes_isinstance : bool;       (* bytes.__init__ raises unless isinstance(value, bytes_type) *)
  f_str_decodes_bytes : bool;      (* string.__new__ decodes bytes with errors="surrogateescape" *)
  f_digest_len : Z * Z * Z;        (* lengths demanded by the md5 / sha1 / sha256 setters *)
  f_digest_else_empty : bool;      (* digest.__init__ has no branch for other kinds: they give an empty digest;
                                      false: `elif value is not None: raise TypeError` *)
  f_sa_guard_none : bool;          (* Record.__setattr__: None is stored without conversion *)
  f_sa_convert_before_store : bool;(* the only store is the final super().__setattr__, after the conversion *)
  f_tl_convert : bool;             (* typedlist._convert applies the element type to every element ... *)
  f_tl_falsy_empty : bool;         (* typedlist.__init__: `if not values: values = []` *)
  f_dt_arg_utc : bool;             (* datetime.__new__: `tzinfo = arg.tzinfo or UTC` *)
  f_dt_final_utc : bool;           (* datetime.__new__: `if obj.tzinfo is None: obj = obj.replace(tzinfo=UTC)` *)
  f_tl_elem_class : bool;          (* behavioural: for EVERY whitelist entry T, fieldtype(T + "[]") is a list class
                                      whose element class is fieldtype(T) -- after all entries have been resolved, in
                                      forward and in reverse order (fresh interpreters).  This is what lets the model
                                      write the list type of T as [TList T]. *)
  f_grouped_delegates : bool       (* GroupedRecord.__setattr__ hands a member's field to setattr(member, attr, val),
                                      i.e. to Record.__setattr__; false: it stores with object.__setattr__ *)
}.

Record env := {
  e_str : pv -> bytes * bool;              (* str(v): text, lone-surrogate flag *)
  e_int : pv -> option Z;                  (* int(v) for str / bytes *)
  e_float : pv -> option N;                (* float(v) for str / bytes / int: the 64 bits *)
  e_ip : pv -> option (Z * Z);             (* ipaddress.ip_address(v) for kinds other than int / bytes *)
  e_net : pv -> option bytes;              (* ipaddress.ip_network(v).compressed *)
  e_dt : pv -> option (wall * option Z);   (* datetime.fromisoformat(text) | fromtimestamp(number, UTC) *)
  e_uri : pv -> bool;                      (* urllib.parse.urlparse(v) returns *)
  e_path : pv -> bytes * bool;             (* str(PurePosixPath(text)), lone flag *)
  e_cmd : pv -> option (bool * bool);      (* the command line splits: (windows flavour, lone flag) *)
  e_iter : pv -> option (list pv)          (* list(v) for str / bytes *)
}.

(* ------------------------------------------------------------------------------------------ *)
(* 3. Python's number protocol on the candidate kinds                                          *)

Inductive numv := NZ (z : Z) | NF (c : fcls).

Definition num_lt (v : numv) (k : Z) : bool :=
  match v with NZ z => z <? k | NF (FFinite fl _) => fl <? k | NF FNan => false | NF (FInf neg) => neg end.
Definition num_le (v : numv) (k : Z) : bool :=
  match v with
  | NZ z => z <=? k
  | NF (FFinite fl i) => (fl <? k) || ((fl =? k) && i)
  | NF FNan => false | NF (FInf neg) => neg
  end.
Definition num_gt (v : numv) (k : Z) : bool :=
  match v with
  | NZ z => k <? z
  | NF (FFinite fl i) => (k <? fl) || ((fl =? k) && negb i)
  | NF FNan => false | NF (FInf neg) => negb neg
  end.
Definition num_ge (v : numv) (k : Z) : bool :=
  match v with NZ z => k <=? z | NF (FFinite fl _) => k <=? fl | NF FNan => false | NF (FInf neg) => negb neg end.

(* the `value < lo or value > hi` test of uint16 / uint32 / boolean *)
Definition out_of_range (b : bound) (v : numv) : bool :=
  (match b_lo_op b with LoLt => num_lt v (b_lo b) | LoLe => num_le v (b_lo b) end)
  || (match b_hi_op b with HiGt => num_gt v (b_hi b) | HiGe => num_ge v (b_hi b) end).

Definition Z_of_bool (b : bool) : Z := if b then 1 else 0.

(* the value as a number, for the comparison with an int; None = `<` is not supported (TypeError) *)
Definition num_of (v : pv) : option numv :=
  match v with
  | PBool b => Some (NZ (Z_of_bool b))
  | PInt z => Some (NZ z)
  | PFloat _ c => Some (NF c)
  | _ => None
  end.

Definition trunc (fl : Z) (integral : bool) : Z := if (fl <? 0) && negb integral then fl + 1 else fl.

(* bool(v) for numbers *)
Definition truthy_num (v : numv) : bool :=
  match v with
  | NZ z => negb (z =? 0)
  | NF (FFinite fl i) => negb ((fl =? 0) && i)
  | NF _ => true
  end.

(* value == int(self) for a number that int() accepted *)
Definition num_integral (v : numv) : bool :=
  match v with NZ _ => true | NF (FFinite _ i) => i | NF _ => false end.

Definition bits_of_bool (b : bool) : N := if b then 4607182418800017408%N else 0%N.   (* 1.0 / 0.0 *)

(* `not values` of typedlist.__init__ *)
Definition falsy (v : pv) : bool :=
  match v with
  | PNone => true
  | PBool b => negb b
  | PInt z => z =? 0
  | PFloat _ (FFinite fl i) => (fl =? 0) && i
  | PStr [] _ | PBytes [] | PList [] | PTuple [] | PDict [] => true
  | _ => false
  end.

Definition is_none (v : pv) : bool := match v with PNone => true | _ => false end.

(* binascii.a2b_hex on ASCII text / bytes *)
Definition hexdigit (b : byte) : option N :=
  let n := b2n b in
  if (48 <=? n)%N && (n <=? 57)%N then Some (n - 48)%N
  else if (97 <=? n)%N && (n <=? 102)%N then Some (n - 87)%N
  else if (65 <=? n)%N && (n <=? 70)%N then Some (n - 55)%N
  else None.

Fixpoint a2b_hex (s : bytes) : option bytes :=
  match s with
  | [] => Some []
  | a :: b :: r =>
      match hexdigit a, hexdigit b, a2b_hex r with
      | Some x, Some y, Some t => Some (n2b (x * 16 + y) :: t)
      | _, _, _ => None
      end
  | _ => None
  end.

Definition is_ascii (s : bytes) : bool := forallb (fun b => (b2n b <? 128)%N) s.

Definition zlen {A} (l : list A) : Z := Z.of_nat (List.length l).

Definition key_is (k : pv) (name : string) : bool :=
  match k with PStr s false => bytes_eqb s (bytes_of_string name) | _ => false end.

Fixpoint dict_get (kvs : list (pv * pv)) (name : string) : pv :=
  match kvs with
  | [] => PNone
  | (k, v) :: r => if key_is k name then v else dict_get r name
  end.

(* which class's instances pass isinstance(v, <class of t>) *)
Definition instance_of (c t : ftype) : bool :=
  ftype_eqb c t || (match c, t with TUri, TString => true | _, _ => false end).

(* ------------------------------------------------------------------------------------------ *)
(* 4. the constructors                                                                         *)

Section WithFacts.
Variable F : facts.
Variable E : env.

(* int.__new__(cls, v) *)
Definition int_new (v : pv) : result Z :=
  match v with
  | PBool b => Ok (Z_of_bool b)
  | PInt z => Ok z
  | PFloat _ (FFinite fl i) => Ok (trunc fl i)
  | PFloat _ FNan => Raise EValueError
  | PFloat _ (FInf _) => Raise EOverflowError
  | PStr _ _ | PBytes _ => match e_int E v with Some z => Ok z | None => Raise EValueError end
  | _ => Raise ETypeError
  end.

Definition float_new (v : pv) : result N :=
  match v with
  | PBool b => Ok (bits_of_bool b)
  | PFloat bits _ => Ok bits
  | PInt _ => match e_float E v with Some b => Ok b | None => Raise EOverflowError end
  | PStr _ _ | PBytes _ => match e_float E v with Some b => Ok b | None => Raise EValueError end
  | _ => Raise ETypeError
  end.

Definition uval_of (v : pv) (obj : Z) : uval :=
  if f_uint_keeps_arg F then
    match v with PBool b => UBool b | PFloat bits _ => UFloat bits | _ => UInt obj end
  else UInt obj.

(* uint16(v) / uint32(v): int.__new__ first, then __init__'s range test on the ARGUMENT *)
Definition co_uint (b : bound) (v : pv) : result sval :=
  bind (int_new v) (fun obj =>
    match num_of v with
    | None => Raise ETypeError
    | Some n =>
        if out_of_range b n then Raise EValueError
        else if f_uint_integral F && negb (num_integral n) then Raise EValueError
        else Ok (SUInt obj (uval_of v obj))
    end).

Definition co_boolean (v : pv) : result sval :=
  bind (int_new v) (fun obj =>
    match num_of v with
    | None => Raise ETypeError
    | Some n =>
        if out_of_range (f_boolean F) n || (f_bool_integral F && negb (num_integral n)) then Raise EValueError
        else Ok (SBool obj (truthy_num n))
    end).

(* string(v): bytes are decoded with surrogateescape, everything else goes through str() *)
Definition str_conv (v : pv) : bytes * bool :=
  match v with
  | PStr s l => (s, l)
  | PBytes b => if f_str_decodes_bytes F then (b, false) else e_str E v
  | _ => e_str E v
  end.

Definition co_string (v : pv) : result sval := let (s, l) := str_conv v in Ok (SStr s l).

Definition co_uri (v : pv) : result sval :=
  if e_uri E v then co_string v else Raise EAttributeError.

(* bytes(v): bytes.__new__ must succeed, then __init__ checks the kind *)
Definition bytes_new (v : pv) : result bytes :=
  match v with
  | PBytes b => Ok b
  | PInt z => if z <? 0 then Raise EValueError else Ok (repeat x00 (Z.to_nat z))
  | PBool b => Ok (repeat x00 (Z.to_nat (Z_of_bool b)))
  | PList l | PTuple l =>
      map_res (fun x => match x with
                        | PInt z => if (0 <=? z) && (z <? 256) then Ok (n2b (Z.to_N z)) else Raise EValueError
                        | PBool b => Ok (n2b (Z.to_N (Z_of_bool b)))
                        | _ => Raise ETypeError
                        end) l
  | _ => Raise ETypeError
  end.

Definition co_bytes (v : pv) : result sval :=
  bind (bytes_new v) (fun b =>
    if f_bytes_isinstance F then
      match v with PBytes _ => Ok (SBytes b) | _ => Raise ETypeError end
    else Ok (SBytes b)).

(* datetime(v) (Python >= 3.11 path) *)
Definition dt_final (off : option Z) : option Z :=
  match off with Some o => Some o | None => if f_dt_final_utc F then Some 0 else None end.

Definition co_datetime (v : pv) : result sval :=
  match v with
  | PDatetime w off =>
      let tz := match off with Some o => Some o | None => if f_dt_arg_utc F then Some 0 else None end in
      Ok (SDt w (dt_final tz))
  | PStr _ _ | PBytes _ | PInt _ | PBool _ | PFloat _ _ =>
      match e_dt E v with
      | Some (w, off) => Ok (SDt w (dt_final off))
      | None => Raise EValueError
      end
  | _ => Raise EUnboundLocalError
  end.

Definition co_path (v : pv) : result sval :=
  match v with
  | PStr _ _ => let (t, l) := e_path E v in Ok (SPath false t l)
  | PPath w t => Ok (SPath w t false)
  | _ => Raise ETypeError
  end.

Definition co_command (v : pv) : result sval :=
  match v with
  | PStr _ _ => match e_cmd E v with Some (w, l) => Ok (SCmd w l) | None => Raise EValueError end
  | _ => Raise EValueError
  end.

(* one of the md5 / sha1 / sha256 setters *)
Definition digest_field (len : Z) (v : pv) : result (option bytes) :=
  match v with
  | PNone => Ok None
  | PStr s false =>
      if is_ascii s then
        match a2b_hex s with
        | Some b => if zlen b =? len then Ok (Some b) else Raise ETypeError
        | None => Raise ETypeError
        end
      else Raise EValueError
  | PStr _ true => Raise EValueError
  | PBytes s =>
      match a2b_hex s with
      | Some b => if zlen b =? len then Ok (Some b) else Raise ETypeError
      | None => Raise ETypeError
      end
  | _ => Raise ETypeError
  end.

Definition digest3 (a b c : pv) : result sval :=
  let '(l1, l2, l3) := f_digest_len F in
  bind (digest_field l1 a) (fun x =>
  bind (digest_field l2 b) (fun y =>
  bind (digest_field l3 c) (fun z => Ok (SDigest x y z)))).

Definition co_digest (v : pv) : result sval :=
  match v with
  | PList [a; b; c] | PTuple [a; b; c] => digest3 a b c
  | PList _ | PTuple _ => Raise EValueError
  | PDict kvs => digest3 (dict_get kvs "md5") (dict_get kvs "sha1") (dict_get kvs "sha256")
  | PNone => Ok (SDigest None None None)
  | _ => if f_digest_else_empty F then Ok (SDigest None None None) else Raise ETypeError
  end.

(* ipaddress.ip_address on an int: the family follows from the magnitude *)
Definition ip_of_int (z : Z) : result sval :=
  if (0 <=? z) && (z <? 2 ^ 32) then Ok (SIp 4 z)
  else if (0 <=? z) && (z <? 2 ^ 128) then Ok (SIp 6 z)
  else Raise EValueError.

Definition co_ipaddress (v : pv) : result sval :=
  match v with
  | PInt z => ip_of_int z
  | PBool b => ip_of_int (Z_of_bool b)
  | PBytes b =>
      if zlen b =? 4 then Ok (SIp 4 (Z.of_N (unbe b)))
      else if zlen b =? 16 then Ok (SIp 6 (Z.of_N (unbe b)))
      else Raise EValueError
  | _ => match e_ip E v with Some (f, n) => Ok (SIp f n) | None => Raise EValueError end
  end.

Definition co_ipnetwork (v : pv) : result sval :=
  match e_net E v with Some t => Ok (SNet t) | None => Raise EValueError end.

(* list(v) *)
Definition iter_of (v : pv) : option (list pv) :=
  match v with
  | PList l | PTuple l => Some l
  | PDict kvs => Some (map fst kvs)
  | PStr _ _ | PBytes _ => e_iter E v
  | _ => None
  end.

Definition co_rawlist (v : pv) : result sval :=
  match iter_of v with Some l => Ok (SList (map SPass l)) | None => Raise ETypeError end.

(* every scalar type except dynamic, on a value that is not an instance of a field-type class *)
Definition coerce_base (t : ftype) (v : pv) : result sval :=
  match t with
  | TString => co_string v
  | TUri => co_uri v
  | TVarint => bind (int_new v) (fun z => Ok (SInt z))
  | TUint16 => co_uint (f_uint16 F) v
  | TUint32 => co_uint (f_uint32 F) v
  | TBoolean => co_boolean v
  | TFloat => bind (float_new v) (fun b => Ok (SFloat b))
  | TBytes => co_bytes v
  | TDatetime => co_datetime v
  | TPath => co_path v
  | TCommand => co_command v
  | TDigest => co_digest v
  | TIpAddress => co_ipaddress v
  | TIpNetwork => co_ipnetwork v
  | TRecord => Ok (SPass v)
  | TStringlist | TDictlist => co_rawlist v
  | TDynamic | TList _ => Raise ENotImplementedError      (* handled by [coerce] *)
  end.

(* dynamic(v) dispatches on the kind *)
Definition dyn_target (v : pv) : option ftype :=
  match v with
  | PBytes _ => Some TBytes
  | PStr _ _ => Some TString
  | PBool _ => Some TBoolean
  | PInt _ => Some TVarint
  | PDatetime _ _ => Some TDatetime
  | PList _ | PTuple _ => Some TStringlist
  | PPath _ _ => Some TPath
  | _ => None
  end.

Definition co_dynamic (v : pv) : result sval :=
  match dyn_target v with Some t => coerce_base t v | None => Raise ENotImplementedError end.

(* an element produced by iterating a str / bytes (never a container, never a field-type instance) *)
Definition coerce_flat (t : ftype) (v : pv) : result sval :=
  match t with
  | TList _ => Raise ETypeError
  | TDynamic => co_dynamic v
  | _ => coerce_base t v
  end.

(* an instance of ANOTHER field-type class handed to the constructor of t behaves as the builtin value it
   extends (string -> str, varint / uint16 / uint32 / boolean -> int, bytes -> bytes, datetime, path); only
   str() sees the instance's own __str__ / __repr__ (boolean prints True, filesize a human-readable size), so
   that answer is asked of the runtime for the instance itself.  Other classes (digest, addresses, commands,
   floats, lists) are not covered: the model refuses them. *)
Definition lower (s : sval) : option pv :=
  match s with
  | SStr e l => Some (PStr e l)
  | SInt z => Some (PInt z)
  | SUInt obj _ => Some (PInt obj)
  | SBool obj _ => Some (PInt obj)
  | SBytes b => Some (PBytes b)
  | SDt w off => Some (PDatetime w off)
  | SPath w t _ => Some (PPath w t)
  | _ => None
  end.

Definition is_text_or_bytes (v : pv) : bool := match v with PStr _ _ | PBytes _ => true | _ => false end.

Definition coerce_cross (t : ftype) (orig low : pv) : result sval :=
  match t with
  | TString => if is_text_or_bytes low then co_string low else let (s, l) := e_str E orig in Ok (SStr s l)
  | TUri =>
      if is_text_or_bytes low then co_uri low
      else if e_uri E low then (let (s, l) := e_str E orig in Ok (SStr s l)) else Raise EAttributeError
  | TRecord => Ok (SPass orig)
  | _ => coerce_flat t low
  end.

Definition is_nil {A} (l : list A) : bool := match l with [] => true | _ => false end.

(* <class of t>(v) as Record.__setattr__ / typedlist._convert apply it: an instance of the class is kept.
   A list object of ANOTHER flow.record list type (a T'[] list, a stringlist, a dictlist -- e.g. the value of
   another record's list field) handed to a T[] slot is iterated like any other sequence: its elements are
   instances of T' (resp. raw values) and each goes through the element rule. *)
Fixpoint coerce (t : ftype) (v : pv) {struct v} : result sval :=
  match v with
  | PTyped c p =>
      if instance_of c t || ftype_eqb t TDynamic then coerce c p
      else match coerce c p with
           | Raise e => Raise e
           | Ok s0 =>
               match t, c, p with
               | TList e, TList e', (PList l | PTuple l) =>
                   if f_tl_falsy_empty F && is_nil l then Ok (SList []) else
                   bind (map_res (fun x =>
                           if f_tl_convert F then
                             (if instance_of e' e || ftype_eqb e TDynamic then coerce e' x
                              else match coerce e' x with
                                   | Raise e1 => Raise e1
                                   | Ok s1 => match lower s1 with
                                              | Some low => coerce_cross e (PTyped e' x) low
                                              | None => Raise ETypeError
                                              end
                                   end)
                           else Ok (SPass (PTyped e' x))) l) (fun ss => Ok (SList ss))
               | TList e, (TStringlist | TDictlist), (PList l | PTuple l) =>
                   if f_tl_falsy_empty F && is_nil l then Ok (SList []) else
                   bind (map_res (fun x => if f_tl_convert F then coerce e x else Ok (SPass x)) l)
                        (fun ss => Ok (SList ss))
               | _, _, _ => match lower s0 with Some low => coerce_cross t v low | None => Raise ETypeError end
               end
           end
  | _ =>
    match t with
    | TList e =>
        let elt := fun x => if f_tl_convert F then coerce e x else Ok (SPass x) in
        if f_tl_falsy_empty F && falsy v then Ok (SList []) else
        match v with
        | PList l | PTuple l => bind (map_res elt l) (fun ss => Ok (SList ss))
        | PDict kvs => bind (map_res (fun kv => elt (fst kv)) kvs) (fun ss => Ok (SList ss))
        | PStr _ _ | PBytes _ =>
            match e_iter E v with
            | Some l => bind (map_res (fun x => if f_tl_convert F then coerce_flat e x else Ok (SPass x)) l)
                             (fun ss => Ok (SList ss))
            | None => Raise ETypeError
            end
        | _ => Raise ETypeError
        end
    | TDynamic => co_dynamic v
    | _ => coerce_base t v
    end
  end.

(* ------------------------------------------------------------------------------------------ *)
(* 5. records and the operations on them                                                       *)

Definition slot := (ftype * sval)%type.
Definition record := list slot.

Definition default (t : ftype) : sval :=
  match t with TList _ => SList [] | TDigest => SDigest None None None | _ => SNone end.

(* the conversion part of Record.__setattr__ for a slot of type t *)
Definition set_slot (t : ftype) (v : pv) : result sval :=
  if f_sa_guard_none F && is_none v then Ok SNone else coerce t v.

Inductive outcome := Accepted | Raised (e : exc).

(* setattr(r, <i-th slot name>, v); an index past the end = a name that is not a slot *)
Fixpoint setattr (r : record) (i : nat) (v : pv) : record * outcome :=
  match r, i with
  | [], _ => ([], Raised EAttributeError)
  | (t, s) :: r', O =>
      match set_slot t v with
      | Ok s' => ((t, s') :: r', Accepted)
      | Raise e =>
          if f_sa_convert_before_store F then ((t, s) :: r', Raised e)
          else ((t, SPass v) :: r', Raised e)       (* the raw value was stored before the conversion raised *)
      end
  | sl :: r', S i' => let (r'', o) := setattr r' i' v in (sl :: r'', o)
  end.

(* the generated __init__.  kw = the descriptor has a keyword-named field: the `setattr` loop, which has
   no defaults; otherwise `self.f = f if f is not None else <default>` per field *)
Definition init_slot (kw : bool) (t : ftype) (a : pv) : result sval :=
  if is_none a then Ok (if kw then SNone else default t) else set_slot t a.

Fixpoint construct (kw : bool) (ts : list ftype) (args : list pv) : result record :=
  match ts with
  | [] => Ok []
  | t :: ts' =>
      let a := match args with [] => PNone | a :: _ => a end in
      match init_slot kw t a with
      | Raise e => Raise e
      | Ok s => match construct kw ts' (tl args) with Raise e => Raise e | Ok r => Ok ((t, s) :: r) end
      end
  end.

Fixpoint lookup_kw (kvs : list (nat * pv)) (i : nat) : option pv :=
  match kvs with
  | [] => None
  | (j, v) :: r => if Nat.eqb i j then Some v else lookup_kw r i
  end.

(* Record._replace with keyword arguments: every slot goes through __init__ again, the untouched ones with their own value *)
Fixpoint replace_from (kw : bool) (i : nat) (r : record) (kvs : list (nat * pv)) : result record :=
  match r with
  | [] => Ok []
  | (t, s) :: r' =>
      let rs := match lookup_kw kvs i with
                | Some a => init_slot kw t a
                | None => Ok (match s with SNone => if kw then SNone else default t | _ => s end)
                end in
      match rs with
      | Raise e => Raise e
      | Ok s' => match replace_from kw (S i) r' kvs with Raise e => Raise e | Ok r'' => Ok ((t, s') :: r'') end
      end
  end.

Definition replace (kw : bool) (r : record) (kvs : list (nat * pv)) : result record :=
  match replace_from kw O r kvs with
  | Raise e => Raise e
  | Ok r' => if forallb (fun kv => Nat.ltb (fst kv) (List.length r)) kvs then Ok r' else Raise EValueError
  end.

(* assignment through a GroupedRecord view when the view does NOT delegate to the member's own setter *)
Fixpoint setattr_raw (r : record) (i : nat) (v : pv) : record * outcome :=
  match r, i with
  | [], _ => ([], Accepted)
  | (t, s) :: r', O => ((t, if is_none v then SNone else SPass v) :: r', Accepted)
  | sl :: r', S i' => let (r'', o) := setattr_raw r' i' v in (sl :: r'', o)
  end.

Inductive op :=
| OSet (i : nat) (v : pv)
| OSetGrouped (i : nat) (v : pv)             (* GroupedRecord(..., [r, ...]).<i-th slot name> = v *)
| OConstruct (args : list pv)                (* build a new record of the same descriptor; replaces the current one *)
| OReplace (kvs : list (nat * pv)).          (* r = r._replace(...) *)

Definition types (r : record) : list ftype := map fst r.

Definition step (kw : bool) (r : record) (o : op) : record * outcome :=
  match o with
  | OSet i v => setattr r i v
  | OSetGrouped i v => if f_grouped_delegates F then setattr r i v else setattr_raw r i v
  | OConstruct args => match construct kw (types r) args with Ok r' => (r', Accepted) | Raise e => (r, Raised e) end
  | OReplace kvs => match replace kw r kvs with Ok r' => (r', Accepted) | Raise e => (r, Raised e) end
  end.

Fixpoint run_ops (kw : bool) (r : record) (ops : list op) : record * list outcome :=
  match ops with
  | [] => (r, [])
  | o :: ops' =>
      let (r1, oc) := step kw r o in
      let (r2, ocs) := run_ops kw r1 ops' in (r2, oc :: ocs)
  end.

(* the record a descriptor gives when every argument is omitted *)
Definition blank (kw : bool) (ts : list ftype) : record :=
  map (fun t => (t, if kw then SNone else default t)) ts.

(* ---- several records of one type, and in-place mutation of the values they hold ----
   Python lists and digests are mutable: `a.tags.append(x)`, `a.tags += [x]`, `a.digest.md5 = h` change the object a
   slot holds without going through Record.__setattr__.  The model keeps every record's values to itself: the
   constructor is a function of its arguments only (a slot that gets no value holds a NEW default(T)), so nothing
   done to one record shows in another.  (Record._replace hands the untouched values of the source on to the copy
   as the same objects; the histories of the correspondence do not mutate a value after it has been handed on.) *)
Definition world := list record.

Definition mutate_val (s : sval) (x : pv) : sval :=
  match s with
  | SList l => SList (l ++ [SPass x])                 (* list.append / += [x]: no conversion *)
  | SDigest m b c =>                                  (* digest.md5 = x: the setter's own check *)
      match digest_field (fst (fst (f_digest_len F))) x with Ok m' => SDigest m' b c | Raise _ => s end
  | _ => s
  end.

Fixpoint mutate (r : record) (i : nat) (x : pv) : record :=
  match r, i with
  | [], _ => []
  | (t, s) :: r', O => (t, mutate_val s x) :: r'
  | sl :: r', S i' => sl :: mutate r' i' x
  end.

Definition set_nth {A} (l : list A) (j : nat) (a : A) : list A := firstn j l ++ a :: skipn (S j) l.

Inductive wop :=
| WNew (args : list pv)                      (* D(args): one more record of the type *)
| WMutate (j i : nat) (x : pv)               (* in-place mutation of the value in slot i of record j *)
| WOp (j : nat) (o : op)                     (* an operation of section 5 on record j (its result takes j's place) *)
| WReplaceNew (j : nat) (kvs : list (nat * pv)).   (* records[j]._replace(kvs) as one more record *)

Definition wstep (kw : bool) (ts : list ftype) (w : world) (o : wop) : world * outcome :=
  match o with
  | WNew args =>
      match construct kw ts args with Ok r => (w ++ [r], Accepted) | Raise e => (w, Raised e) end
  | WMutate j i x =>
      match nth_error w j with Some r => (set_nth w j (mutate r i x), Accepted) | None => (w, Raised EAttributeError) end
  | WOp j o =>
      match nth_error w j with
      | Some r => let (r', oc) := step kw r o in (set_nth w j r', oc)
      | None => (w, Raised EAttributeError)
      end
  | WReplaceNew j kvs =>
      match nth_error w j with
      | Some r => match replace kw r kvs with Ok r' => (w ++ [r'], Accepted) | Raise e => (w, Raised e) end
      | None => (w, Raised EAttributeError)
      end
  end.

(* the record(s) an operation works on *)
Definition targets (o : wop) (k : nat) : bool :=
  match o with
  | WNew _ | WReplaceNew _ _ => false
  | WMutate j _ _ | WOp j _ => Nat.eqb j k
  end.

End WithFacts.

(* ------------------------------------------------------------------------------------------ *)
(* 6. what the property demands (written against the SPECIFICATION's constants, not the generated ones) *)

Definition is_record (v : pv) : bool := match v with PRecord _ => true | _ => false end.
Definition is_raw (s : sval) : bool := match s with SNone | SPass _ => true | _ => false end.
Definition opt_len_ok (n : Z) (o : option bytes) : bool := match o with None => true | Some b => zlen b =? n end.

Definition uint_ok (max : Z) (obj : Z) (u : uval) : bool :=
  match u with
  | UInt z => (obj =? z) && (0 <=? z) && (z <=? max)
  | UBool b => obj =? Z_of_bool b               (* bool is an int in Python: True is 1 *)
  | UFloat _ => false                           (* the packed value is not an integer *)
  end.

Fixpoint has_type (t : ftype) (s : sval) {struct t} : bool :=
  match t, s with
  | (TString | TUri), SStr _ _ => true
  | TVarint, SInt _ => true
  | TUint16, SUInt obj u => uint_ok 65535 obj u
  | TUint32, SUInt obj u => uint_ok 4294967295 obj u
  | TBoolean, SBool obj b => obj =? Z_of_bool b
  | TFloat, SFloat _ => true
  | TBytes, SBytes _ => true
  | TDatetime, SDt _ (Some _) => true            (* timezone-aware *)
  | TPath, SPath _ _ _ => true
  | TCommand, SCmd _ _ => true
  | TDigest, SDigest a b c => opt_len_ok 16 a && opt_len_ok 20 b && opt_len_ok 32 c
  | TIpAddress, SIp v n => ((v =? 4) && (0 <=? n) && (n <? 2 ^ 32)) || ((v =? 6) && (0 <=? n) && (n <? 2 ^ 128))
  | TIpNetwork, SNet _ => true
  | TRecord, SPass v => is_record v
  | (TStringlist | TDictlist), SList _ => true
  | TDynamic, s => negb (is_raw s)               (* any field-type instance *)
  | TList e, SList l => forallb (has_type e) l
  | _, _ => false
  end.

Definition slot_ok (sl : slot) : bool :=
  match snd sl with SNone => true | s => has_type (fst sl) s end.

Definition well_typed (r : record) : bool := forallb slot_ok r.

Definition no_record (t : ftype) : bool :=
  match t with TRecord | TList TRecord => false | _ => true end.

(* the property's quantifier for the pass-through type `record`: the candidates are records (None is handled
   by setattr / the constructor); for every other type ALL values pass *)
Fixpoint cand_ok (t : ftype) (v : pv) {struct v} : bool :=
  match v with
  | PTyped c p =>
      cand_ok c p && no_record c && no_record t
      && match t, c, p with
         | TList e, (TStringlist | TDictlist), (PList l | PTuple l) => forallb (cand_ok e) l
         | _, _, _ => true
         end
  | _ =>
    match t with
    | TRecord => is_record v
    | TList e =>
        match v with
        | PList l | PTuple l => forallb (cand_ok e) l
        | PDict kvs => forallb (fun kv => cand_ok e (fst kv)) kvs
        | PStr _ _ | PBytes _ => match e with TRecord => false | _ => true end
        | _ => true
        end
    | _ => true
    end
  end.

(* "a value the type cannot represent": the property's own list *)
Definition spec_in_range (lo hi : Z) (n : numv) : bool := num_ge n lo && num_le n hi.

Definition hex_ok (len : Z) (v : pv) : bool :=
  match v with
  | PNone => true
  | PStr s false => is_ascii s && match a2b_hex s with Some b => zlen b =? len | None => false end
  | PBytes s => match a2b_hex s with Some b => zlen b =? len | None => false end
  | _ => false
  end.

Definition digest_wellformed (v : pv) : bool :=
  match v with
  | PNone => true                                      (* None = the empty digest *)
  | PList [a; b; c] | PTuple [a; b; c] => hex_ok 16 a && hex_ok 20 b && hex_ok 32 c
  | PDict kvs => hex_ok 16 (dict_get kvs "md5") && hex_ok 20 (dict_get kvs "sha1") && hex_ok 32 (dict_get kvs "sha256")
  | _ => false
  end.

Section Unrepresentable.
Variable E : env.
Fixpoint unrepresentable (t : ftype) (v : pv) {struct v} : bool :=
  match v with
  | PTyped _ _ => false
  | _ =>
    match t with
    | TUint16 => match num_of v with Some n => negb (spec_in_range 0 65535 n && num_integral n) | None => false end
    | TUint32 => match num_of v with Some n => negb (spec_in_range 0 4294967295 n && num_integral n) | None => false end
    | TBoolean =>                                         (* a number other than 0 / 1 *)
        match num_of v with
        | Some (NZ z) => negb ((z =? 0) || (z =? 1))
        | Some (NF (FFinite fl i)) => negb (i && ((fl =? 0) || (fl =? 1)))
        | Some (NF _) => true
        | None => false
        end
    | TDigest => negb (digest_wellformed v)
    | TIpAddress =>
        match v with
        | PInt z => (z <? 0) || (2 ^ 128 <=? z)
        | PBool _ => false
        | PBytes b => negb ((zlen b =? 4) || (zlen b =? 16))
        | _ => match e_ip E v with None => true | Some _ => false end
        end
    | TIpNetwork => match e_net E v with None => true | Some _ => false end
    | TBytes => match v with PBytes _ => false | _ => true end
    | TList e =>
        match v with
        | PList l | PTuple l => existsb (unrepresentable e) l
        | _ => false
        end
    | _ => false
    end
  end.
End Unrepresentable.

(* serialisation: what the record packer (msgpack) and the JSON packer can encode *)
Fixpoint packable (v : pv) : bool :=
  match v with
  | PNone | PBool _ | PInt _ | PFloat _ _ | PBytes _ | PRecord _ => true
  | PStr _ lone => negb lone
  | PList l | PTuple l => forallb packable l
  | PDict kvs => forallb (fun kv => packable (fst kv) && packable (snd kv)) kvs
  | _ => false
  end.

Fixpoint serialisable_val (s : sval) : bool :=
  match s with
  | SStr _ lone | SPath _ _ lone | SCmd _ lone => negb lone
  | SList l => forallb serialisable_val l
  | SPass v => packable v
  | _ => true
  end.

Definition serialisable (r : record) : bool := forallb (fun sl => serialisable_val (snd sl)) r.

(* hypotheses of the serialisation theorem: no text with a lone surrogate anywhere, and no untyped legacy
   container type (their payload is whatever the caller supplied) *)
Fixpoint no_lone_pv (v : pv) : bool :=
  match v with
  | PStr _ lone => negb lone
  | PList l | PTuple l => forallb no_lone_pv l
  | PDict kvs => forallb (fun kv => no_lone_pv (fst kv) && no_lone_pv (snd kv)) kvs
  | PTyped _ p => no_lone_pv p
  | _ => true
  end.

Fixpoint no_lone (s : sval) : bool :=
  match s with
  | SStr _ lone | SPath _ _ lone | SCmd _ lone => negb lone
  | SList l => forallb no_lone l
  | SPass v => no_lone_pv v
  | _ => true
  end.

Fixpoint typed_only (t : ftype) : bool :=
  match t with
  | TStringlist | TDictlist | TDynamic => false
  | TList e => typed_only e
  | _ => true
  end.
