(* Model of flow.record's JSON output (jsonpacker.py, adapter/jsonfile.py) at the level of JSON TREES:
   the per-type value mapping of JsonRecordPacker.pack_obj together with what json.dumps serialises
   natively, base64 and the ISO-8601 text of timestamps as executable functions, the record / descriptor
   documents, the writer (descriptor documents before first use) and the reader (descriptor registry,
   record documents, fallback for plain documents).  The text level (json.dumps / json.loads, `indent`)
   is outside the model and validated by execution.  Definitions only; proofs are in
   proofs/Json_proofs.v.

   Text is a list of CODE POINTS (N): a JSON string can carry any code point sequence (json.dumps
   escapes with ensure_ascii; lone surrogates such as the surrogate escapes U+DC80..U+DCFF survive). *)
From Coq Require Import List Bool NArith ZArith String Ascii.
From Coq Require Import Init.Byte.
From FR Require Import Bytes.
Import ListNotations.
Open Scope N_scope.

Definition text := list N.

Fixpoint T (s : string) : text :=
  match s with
  | EmptyString => []
  | String a r => N_of_ascii a :: T r
  end.

Fixpoint text_eqb (a b : text) : bool :=
  match a, b with
  | [], [] => true
  | x :: a', y :: b' => N.eqb x y && text_eqb a' b'
  | _, _ => false
  end.

Definition mem (x : text) (l : list text) : bool := existsb (text_eqb x) l.

Fixpoint all_some {A} (l : list (option A)) : option (list A) :=
  match l with
  | [] => Some []
  | Some a :: t => match all_some t with Some r => Some (a :: r) | None => None end
  | None :: _ => None
  end.

(* ------------------------------------------------------------------------------------------ *)
(* 1. JSON trees                                                                                *)

Inductive nonfinite := NFNan | NFPosInf | NFNegInf.   (* the tokens NaN / Infinity / -Infinity: NOT JSON *)

Inductive json :=
| JNull
| JBool (b : bool)
| JInt (z : Z)                 (* a number token without fraction / exponent: any size *)
| JFloat (bits : N)            (* a finite double, by its 64-bit pattern *)
| JNonFinite (k : nonfinite)
| JStr (s : text)
| JArr (l : list json)
| JObj (kv : list (text * json)).   (* members in document order *)

Definition nf_eqb (a b : nonfinite) : bool :=
  match a, b with NFNan, NFNan | NFPosInf, NFPosInf | NFNegInf, NFNegInf => true | _, _ => false end.

Fixpoint json_eqb (a b : json) {struct a} : bool :=
  match a, b with
  | JNull, JNull => true
  | JBool x, JBool y => Bool.eqb x y
  | JInt x, JInt y => Z.eqb x y
  | JFloat x, JFloat y => N.eqb x y
  | JNonFinite x, JNonFinite y => nf_eqb x y
  | JStr x, JStr y => text_eqb x y
  | JArr x, JArr y =>
      (fix go (x y : list json) : bool :=
         match x, y with
         | [], [] => true
         | p :: x', q :: y' => json_eqb p q && go x' y'
         | _, _ => false
         end) x y
  | JObj x, JObj y =>
      (fix go (x y : list (text * json)) : bool :=
         match x, y with
         | [], [] => true
         | (k, p) :: x', (k', q) :: y' => text_eqb k k' && json_eqb p q && go x' y'
         | _, _ => false
         end) x y
  | _, _ => false
  end.

(* a document conforms to the JSON grammar iff it holds none of the three non-finite tokens *)
Fixpoint plain_json (j : json) : bool :=
  match j with
  | JNonFinite _ => false
  | JArr l => (fix go (l : list json) := match l with [] => true | a :: t => plain_json a && go t end) l
  | JObj kv => (fix go (l : list (text * json)) := match l with [] => true | (_, a) :: t => plain_json a && go t end) kv
  | _ => true
  end.

Definition is_scalar (j : json) : bool := match j with JArr _ | JObj _ => false | _ => true end.

Fixpoint lookup (k : text) (kv : list (text * json)) : option json :=
  match kv with
  | [] => None
  | (k', v) :: t => if text_eqb k k' then Some v else lookup k t
  end.

Fixpoint remove_key (k : text) (kv : list (text * json)) : list (text * json) :=
  match kv with
  | [] => []
  | (k', v) :: t => if text_eqb k k' then remove_key k t else (k', v) :: remove_key k t
  end.

(* ------------------------------------------------------------------------------------------ *)
(* 2. base64 (RFC 4648 standard alphabet with padding): base64.b64encode / b64decode            *)

Definition b64_char (i : N) : N :=
  if i <? 26 then 65 + i            (* A..Z *)
  else if i <? 52 then 97 + (i - 26)  (* a..z *)
  else if i <? 62 then 48 + (i - 52)  (* 0..9 *)
  else if i =? 62 then 43 (* + *) else 47 (* / *).

Definition b64_val (c : N) : option N :=
  if (65 <=? c) && (c <=? 90) then Some (c - 65)
  else if (97 <=? c) && (c <=? 122) then Some (c - 97 + 26)
  else if (48 <=? c) && (c <=? 57) then Some (c - 48 + 52)
  else if c =? 43 then Some 62
  else if c =? 47 then Some 63
  else None.

Definition PAD : N := 61.   (* '=' *)

Fixpoint b64_encode (bs : bytes) : text :=
  match bs with
  | [] => []
  | [a] =>
      let a := b2n a in
      [b64_char (a / 4); b64_char ((a mod 4) * 16); PAD; PAD]
  | [a; b] =>
      let a := b2n a in let b := b2n b in
      [b64_char (a / 4); b64_char ((a mod 4) * 16 + b / 16); b64_char ((b mod 16) * 4); PAD]
  | a :: b :: c :: rest =>
      let a := b2n a in let b := b2n b in let c := b2n c in
      b64_char (a / 4) :: b64_char ((a mod 4) * 16 + b / 16) :: b64_char ((b mod 16) * 4 + c / 64)
        :: b64_char (c mod 64) :: b64_encode rest
  end.

(* strict decoder for the padded form (b64decode additionally skips foreign characters; the reader only
   ever meets what b64encode wrote) *)
Fixpoint b64_decode (t : text) : option bytes :=
  match t with
  | [] => Some []
  | c0 :: c1 :: c2 :: c3 :: rest =>
      if c3 =? PAD then
        match rest with
        | [] =>
            if c2 =? PAD then
              match b64_val c0, b64_val c1 with
              | Some s0, Some s1 => Some [n2b (s0 * 4 + s1 / 16)]
              | _, _ => None
              end
            else
              match b64_val c0, b64_val c1, b64_val c2 with
              | Some s0, Some s1, Some s2 => Some [n2b (s0 * 4 + s1 / 16); n2b ((s1 mod 16) * 16 + s2 / 4)]
              | _, _, _ => None
              end
        | _ => None
        end
      else
        match b64_val c0, b64_val c1, b64_val c2, b64_val c3 with
        | Some s0, Some s1, Some s2, Some s3 =>
            match b64_decode rest with
            | Some r => Some (n2b (s0 * 4 + s1 / 16) :: n2b ((s1 mod 16) * 16 + s2 / 4) :: n2b ((s2 mod 4) * 64 + s3) :: r)
            | None => None
            end
        | _, _, _, _ => None
        end
  | _ => None
  end.

(* ------------------------------------------------------------------------------------------ *)
(* 3. timestamps: aware datetimes and their isoformat() text                                     *)

Record dtm := Dt { dy : N; dmo : N; dd : N; dh : N; dmi : N; ds : N; dus : N;
                   doff : Z (* utcoffset() in microseconds *) }.

Definition dtm_eqb (a b : dtm) : bool :=
  N.eqb (dy a) (dy b) && N.eqb (dmo a) (dmo b) && N.eqb (dd a) (dd b) && N.eqb (dh a) (dh b)
  && N.eqb (dmi a) (dmi b) && N.eqb (ds a) (ds b) && N.eqb (dus a) (dus b) && Z.eqb (doff a) (doff b).

Definition DAY_US : Z := 86400000000%Z.

Definition dtm_wf (d : dtm) : bool :=
  (dy d <? 10000) && (dmo d <? 100) && (dd d <? 100) && (dh d <? 100) && (dmi d <? 100) && (ds d <? 100)
  && (dus d <? 1000000) && (Z.ltb (- DAY_US) (doff d)) && (Z.ltb (doff d) DAY_US).

Definition digit (n : N) : N := 48 + n mod 10.

(* k decimal digits of n, zero padded, most significant first *)
Fixpoint digits (k : nat) (n : N) : text :=
  match k with
  | O => []
  | S k' => digits k' (n / 10) ++ [digit n]
  end.

Definition iso_offset (off : Z) : text :=
  let a := Z.abs_N off in
  let us := a mod 1000000 in
  let secs := a / 1000000 in
  let hh := secs / 3600 in
  let mm := (secs / 60) mod 60 in
  let ss := secs mod 60 in
  (if Z.ltb off 0 then 45 else 43) :: digits 2 hh ++ 58 :: digits 2 mm
  ++ (if (ss =? 0) && (us =? 0) then []
      else 58 :: digits 2 ss ++ (if us =? 0 then [] else 46 :: digits 6 us)).

Definition iso_format (d : dtm) : text :=
  digits 4 (dy d) ++ 45 :: digits 2 (dmo d) ++ 45 :: digits 2 (dd d) ++ 84 (* T *) :: digits 2 (dh d)
  ++ 58 :: digits 2 (dmi d) ++ 58 :: digits 2 (ds d)
  ++ (if dus d =? 0 then [] else 46 :: digits 6 (dus d))
  ++ iso_offset (doff d).

Fixpoint num_acc (acc : N) (s : text) : option N :=
  match s with
  | [] => Some acc
  | c :: s' => if (48 <=? c) && (c <=? 57) then num_acc (acc * 10 + (c - 48)) s' else None
  end.

(* exactly k digits *)
Definition take_num (k : nat) (s : text) : option (N * text) :=
  if Nat.ltb (List.length s) k then None
  else match num_acc 0 (firstn k s) with
       | Some n => Some (n, skipn k s)
       | None => None
       end.

Definition expect (c : N) (s : text) : option text :=
  match s with
  | x :: r => if x =? c then Some r else None
  | [] => None
  end.

Definition obind {A B} (o : option A) (f : A -> option B) : option B :=
  match o with Some a => f a | None => None end.

Notation "'dlet' x := o 'in' f" := (obind o (fun x => f)) (at level 200, x pattern, o at level 100, f at level 200).

(* optional ".ffffff" *)
Definition take_frac (s : text) : option (N * text) :=
  match s with
  | 46 :: s' => take_num 6 s'
  | _ => Some (0, s)
  end.

(* the offset part  (+|-)HH:MM[:SS[.ffffff]]  up to the end of the text *)
Definition parse_offset_tail (neg : bool) (s : text) : option Z :=
  dlet (hh, s) := take_num 2 s in
  dlet s := expect 58 s in
  dlet (mm, s) := take_num 2 s in
  dlet (ss, us) := match s with
                  | [] => Some (0, 0)
                  | 58 :: r =>
                      dlet (ss, r) := take_num 2 r in
                      dlet (us, r) := take_frac r in
                      match r with [] => Some (ss, us) | _ => None end
                  | _ => None
                  end in
  let a := Z.of_N (((hh * 3600 + mm * 60 + ss) * 1000000) + us) in
  Some (if neg then (- a)%Z else a).

Definition parse_offset (s : text) : option Z :=
  match s with
  | 43 :: r => parse_offset_tail false r
  | 45 :: r => parse_offset_tail true r
  | _ => None
  end.

(* the inverse of iso_format on the texts iso_format produces (datetime.fromisoformat accepts more) *)
Definition iso_parse (s : text) : option dtm :=
  dlet (y, s) := take_num 4 s in
  dlet s := expect 45 s in
  dlet (mo, s) := take_num 2 s in
  dlet s := expect 45 s in
  dlet (d, s) := take_num 2 s in
  dlet s := expect 84 s in
  dlet (h, s) := take_num 2 s in
  dlet s := expect 58 s in
  dlet (mi, s) := take_num 2 s in
  dlet s := expect 58 s in
  dlet (sec, s) := take_num 2 s in
  dlet (us, s) := take_frac s in
  dlet off := parse_offset s in
  Some (Dt y mo d h mi sec us off).

(* ------------------------------------------------------------------------------------------ *)
(* 4. typed field values (by the Python class of the object in the record's slot)               *)

Inductive jval :=
| VNone
| VStr (s : text)              (* string / wstring / uri: str subclasses *)
| VInt (z : Z)                 (* varint filesize unix_file_mode uint16 uint32: int subclasses *)
| VBool (b : bool)             (* fieldtypes.boolean: an int subclass holding 0 / 1 *)
| VFloat (bits : N)
| VDt (d : dtm)
| VBytes (bs : bytes)
| VDigest (md5 sha1 sha256 : option text)    (* the hex texts the object holds *)
| VIp (t : text)               (* net.ipaddress, by its text form str(obj) *)
| VNet (t : text)              (* net.ipnetwork, by its text form *)
| VPath (t : text)             (* POSIX flavoured path, by its text form *)
| VList (l : list jval)        (* typed list *)
| VOpaque (j : json).          (* produced by the plain-document fallback: a string field holding Python's str() of
                                  a parsed list / dict (text not modelled).  In a record handed to the WRITER it
                                  stands for a value json.dumps refuses: pack_value is None *)

Definition opt_text_eqb (a b : option text) : bool :=
  match a, b with
  | None, None => true
  | Some x, Some y => text_eqb x y
  | _, _ => false
  end.

Fixpoint jval_eqb (a b : jval) {struct a} : bool :=
  match a, b with
  | VNone, VNone => true
  | VStr x, VStr y => text_eqb x y
  | VInt x, VInt y => Z.eqb x y
  | VBool x, VBool y => Bool.eqb x y
  | VFloat x, VFloat y => N.eqb x y
  | VDt x, VDt y => dtm_eqb x y
  | VBytes x, VBytes y => bytes_eqb x y
  | VDigest a1 a2 a3, VDigest b1 b2 b3 => opt_text_eqb a1 b1 && opt_text_eqb a2 b2 && opt_text_eqb a3 b3
  | VIp x, VIp y => text_eqb x y
  | VNet x, VNet y => text_eqb x y
  | VPath x, VPath y => text_eqb x y
  | VList x, VList y =>
      (fix go (x y : list jval) : bool :=
         match x, y with
         | [], [] => true
         | p :: x', q :: y' => jval_eqb p q && go x' y'
         | _, _ => false
         end) x y
  | VOpaque x, VOpaque y => json_eqb x y
  | _, _ => false
  end.

(* ---- floats ---- *)
Definition float_exp (bits : N) : N := (bits / 4503599627370496) mod 2048.      (* 2^52, 2^11 *)
Definition float_mant (bits : N) : N := bits mod 4503599627370496.
Definition float_neg (bits : N) : bool := 9223372036854775808 <=? bits.        (* 2^63 *)
Definition float_finite (bits : N) : bool := negb (float_exp bits =? 2047).

Definition float_json (bits : N) : json :=
  if float_finite bits then JFloat bits
  else if float_mant bits =? 0 then JNonFinite (if float_neg bits then NFNegInf else NFPosInf)
  else JNonFinite NFNan.

(* what json.loads builds for the three tokens: float('nan'), float('inf'), float('-inf') *)
Definition nonfinite_bits (k : nonfinite) : N :=
  match k with
  | NFNan => 9221120237041090560       (* 0x7FF8000000000000 *)
  | NFPosInf => 9218868437227405312    (* 0x7FF0000000000000 *)
  | NFNegInf => 18442240474082181120   (* 0xFFF0000000000000 *)
  end.

(* ------------------------------------------------------------------------------------------ *)
(* 5. configuration: the facts read from the code (GENERATED instance: gen/Gen_json.v)           *)

(* the Python classes whose instances json.dumps hands to pack_obj (default=) *)
Inductive vclass := CDatetime | CDigest | CIpAddress | CIpNetwork | CBytes | CPath.

Definition vclass_eqb (a b : vclass) : bool :=
  match a, b with
  | CDatetime, CDatetime | CDigest, CDigest | CIpAddress, CIpAddress | CIpNetwork, CIpNetwork
  | CBytes, CBytes | CPath, CPath => true
  | _, _ => false
  end.

(* what a pack_obj branch returns *)
Inductive action :=
| AIsoformat        (* obj.isoformat() *)
| ADigestDict       (* {"md5": obj.md5, "sha1": obj.sha1, "sha256": obj.sha256} *)
| AStr              (* str(obj) *)
| ABase64           (* base64.b64encode(obj).decode() *)
| ACommandDict.     (* {"executable": ..., "args": ...} (command: not a JSON-supported type) *)

Definition action_eqb (a b : action) : bool :=
  match a, b with
  | AIsoformat, AIsoformat | ADigestDict, ADigestDict | AStr, AStr | ABase64, ABase64
  | ACommandDict, ACommandDict => true
  | _, _ => false
  end.

(* the value kinds of the field types (what the type's constructor accepts / produces) *)
Inductive kind := KStr | KInt | KU16 | KU32 | KFloat | KBool | KDt | KBytes | KDigest | KIp | KNet | KPath.

(* Python classes of parsed JSON values, as fieldtype_for_value tests them *)
Record jcfg := {
  (* pack_obj: the isinstance chain after Record / RecordDescriptor, in source order *)
  pack_branches : list (list text * action);
  (* for each class of value: the branch class names it is an instance of (live issubclass) *)
  instance_table : list (vclass * list text);
  type_key : text; desc_key : text; data_key : text;     (* "_type" "_recorddescriptor" "_data" *)
  record_marker : text; descriptor_marker : text;        (* "record" "recorddescriptor" *)
  markers_guarded : bool;               (* the two markers are written only `if self.pack_descriptors` *)
  bool_cast_types : list text;          (* declared types whose int values pack_obj casts to bool *)
  b64_scalar_types : list text;         (* declared types the reader base64-decodes *)
  b64_list_types : list text;           (* declared types whose elements the reader base64-decodes *)
  skip_none : bool;                     (* the reader leaves a field whose JSON value is null alone *)
  pack_guard_compares_desc : bool;      (* pack_obj registers unless descriptors.get(identifier) == desc *)
  register_guard_compares_desc : bool;  (* register returns early only if descriptors.get(identifier) == desc *)
  reader_registers : bool;              (* unpack registers a descriptor document *)
  reader_removes_markers : bool;        (* unpack_obj deletes both marker keys before building the record *)
  fallback_name : text;                 (* "json/record" *)
  ftv_branches : list (text * text);    (* fieldtype_for_value: (python class, type name) in source order *)
  ftv_default : text;                   (* the default the reader passes *)
  type_kinds : list (text * kind);      (* scalar field type name -> kind (live classes) *)
  reserved : list (text * text);        (* RESERVED_FIELDS as (type name, field name), in slot order *)
  version : Z;                          (* RECORD_VERSION *)
  version_key : text; generated_key : text; (* "_version" "_generated": set by the record constructor *)
  py_keywords : list text;              (* keyword.kwlist *)
  kw_skip_defaults : bool               (* the constructor generated for a descriptor with a keyword-named field
                                           leaves None in unset slots (no [] / digest() defaults) *)
}.

Section WithCfg.
Variable cfg : jcfg.

(* ---- dispatch of json.dumps(default=pack_obj) ---- *)
Definition class_of (v : jval) : option vclass :=
  match v with
  | VDt _ => Some CDatetime | VDigest _ _ _ => Some CDigest | VIp _ => Some CIpAddress
  | VNet _ => Some CIpNetwork | VBytes _ => Some CBytes | VPath _ => Some CPath
  | _ => None
  end.

Fixpoint instance_names (tbl : list (vclass * list text)) (c : vclass) : list text :=
  match tbl with
  | [] => []
  | (c', ns) :: t => if vclass_eqb c c' then ns else instance_names t c
  end.

Fixpoint first_branch (brs : list (list text * action)) (names : list text) : option action :=
  match brs with
  | [] => None
  | (cls, a) :: t => if existsb (fun c => mem c names) cls then Some a else first_branch t names
  end.

Definition dispatch (c : vclass) : option action := first_branch (pack_branches cfg) (instance_names (instance_table cfg) c).

Definition opt_json (o : option text) : json := match o with Some t => JStr t | None => JNull end.

Definition apply_action (a : action) (v : jval) : option json :=
  match a, v with
  | AIsoformat, VDt d => Some (JStr (iso_format d))
  | ADigestDict, VDigest a b c => Some (JObj [(T "md5", opt_json a); (T "sha1", opt_json b); (T "sha256", opt_json c)])
  | AStr, VIp t | AStr, VNet t | AStr, VPath t => Some (JStr t)
  | ABase64, VBytes bs => Some (JStr (b64_encode bs))
  | _, _ => None       (* AttributeError / a text form that is not modelled *)
  end.

(* json.dumps(value, default=pack_obj).  [cast]: the slot's declared type is in bool_cast_types. *)
Fixpoint pack_value (cast : bool) (v : jval) {struct v} : option json :=
  match v with
  | VNone => Some JNull
  | VStr s => Some (JStr s)
  | VInt z => Some (JInt z)
  | VBool b => Some (if cast then JBool b else JInt (if b then 1 else 0)%Z)
  | VFloat bits => Some (float_json bits)
  | VList l => match all_some (map (pack_value false) l) with Some js => Some (JArr js) | None => None end
  | VOpaque _ => None
  | _ => match class_of v with
         | Some c => match dispatch c with Some a => apply_action a v | None => None end
         | None => None
         end
  end.

(* the property's per-type mapping, stated directly (no dispatch): what pack_value yields for the values the
   field types hold (proofs/Json_proofs.v: pack_value_spec) *)
Fixpoint json_of_value (cast : bool) (v : jval) {struct v} : json :=
  match v with
  | VNone => JNull
  | VStr s => JStr s
  | VInt z => JInt z
  | VBool b => if cast then JBool b else JInt (if b then 1 else 0)%Z
  | VFloat bits => float_json bits
  | VDt d => JStr (iso_format d)
  | VBytes bs => JStr (b64_encode bs)
  | VDigest a b c => JObj [(T "md5", opt_json a); (T "sha1", opt_json b); (T "sha256", opt_json c)]
  | VIp t | VNet t | VPath t => JStr t
  | VList l => JArr (map (json_of_value false) l)
  | VOpaque j => j
  end.

(* ---- descriptors and records ---- *)
Record descriptor := Desc { d_name : text; d_fields : list (text * text) (* (type name, field name) *) }.

Fixpoint fields_eqb (a b : list (text * text)) : bool :=
  match a, b with
  | [], [] => true
  | (t, n) :: a', (t', n') :: b' => text_eqb t t' && text_eqb n n' && fields_eqb a' b'
  | _, _ => false
  end.
Definition desc_eqb (a b : descriptor) : bool := text_eqb (d_name a) (d_name b) && fields_eqb (d_fields a) (d_fields b).

(* values of the declared fields followed by the values of the reserved fields *)
Record record := Rec { r_desc : descriptor; r_vals : list jval }.

Fixpoint vals_eqb (a b : list jval) : bool :=
  match a, b with
  | [], [] => true
  | x :: a', y :: b' => jval_eqb x y && vals_eqb a' b'
  | _, _ => false
  end.
Definition record_eqb (a b : record) : bool := desc_eqb (r_desc a) (r_desc b) && vals_eqb (r_vals a) (r_vals b).

Definition all_fields (d : descriptor) : list (text * text) := d_fields d ++ reserved cfg.

(* does the record constructor of this descriptor replace None by the type's default? *)
Definition uses_defaults (d : descriptor) : bool :=
  negb (kw_skip_defaults cfg && existsb (fun f => mem (snd f) (py_keywords cfg)) (d_fields d)).

Fixpoint pack_fields (fs : list (text * text)) (vs : list jval) : option (list (text * json)) :=
  match fs, vs with
  | [], [] => Some []
  | (t, n) :: fs', v :: vs' =>
      match pack_value (mem t (bool_cast_types cfg)) v, pack_fields fs' vs' with
      | Some j, Some r => Some ((n, j) :: r)
      | _, _ => None
      end
  | _, _ => None
  end.

Section WithHash.
Variable HASH : descriptor -> Z.     (* descriptor_hash: a parameter; nothing below needs it injective *)

Definition ident_json (d : descriptor) : json := JArr [JStr (d_name d); JInt (HASH d)].

Definition markers (d : descriptor) : list (text * json) :=
  [(type_key cfg, JStr (record_marker cfg)); (desc_key cfg, ident_json d)].

(* JsonRecordPacker.pack_obj(record): fields in slot order, then the two markers when enabled *)
Definition pack_record (descriptors_on : bool) (r : record) : option json :=
  match pack_fields (all_fields (r_desc r)) (r_vals r) with
  | Some kv => Some (JObj (kv ++ (if descriptors_on || negb (markers_guarded cfg) then markers (r_desc r) else [])))
  | None => None
  end.

Definition pack_descriptor (d : descriptor) : json :=
  JObj [(type_key cfg, JStr (descriptor_marker cfg));
        (data_key cfg, JArr [JStr (d_name d); JArr (map (fun f => JArr [JStr (fst f); JStr (snd f)]) (d_fields d))])].

(* ---- the registry shared by writer and reader: identifier -> descriptor, newest binding first ---- *)
Definition ident := (text * Z)%type.
Definition ident_of (d : descriptor) : ident := (d_name d, HASH d).
Definition ident_eqb (a b : ident) : bool := text_eqb (fst a) (fst b) && Z.eqb (snd a) (snd b).
Definition registry := list (ident * descriptor).

Fixpoint reg_get (reg : registry) (i : ident) : option descriptor :=
  match reg with
  | [] => None
  | (i', d) :: t => if ident_eqb i i' then Some d else reg_get t i
  end.

(* `self.descriptors.get(identifier) == desc`  vs the older `identifier in self.descriptors` *)
Definition known (compares : bool) (reg : registry) (d : descriptor) : bool :=
  match reg_get reg (ident_of d) with
  | Some d' => if compares then desc_eqb d' d else true
  | None => false
  end.

(* register(desc): (new registry, did on_descriptor fire) *)
Definition register (reg : registry) (d : descriptor) : registry * bool :=
  if known (register_guard_compares_desc cfg) reg d then (reg, false) else ((ident_of d, d) :: reg, true).

(* ---- writer: JsonfileWriter.write -> packer.pack -> pack_obj (-> register -> on_descriptor -> _write) ---- *)
Definition write_one (descriptors_on : bool) (reg : registry) (r : record) : option (registry * list json) :=
  match pack_record descriptors_on r with
  | None => None
  | Some doc =>
      if known (pack_guard_compares_desc cfg) reg (r_desc r) then Some (reg, [doc])
      else
        let (reg', fired) := register reg (r_desc r) in
        Some (reg', (if fired && descriptors_on then [pack_descriptor (r_desc r)] else []) ++ [doc])
  end.

Fixpoint write_from (descriptors_on : bool) (reg : registry) (rs : list record) : option (list json) :=
  match rs with
  | [] => Some []
  | r :: rs' =>
      match write_one descriptors_on reg r with
      | Some (reg', docs) =>
          match write_from descriptors_on reg' rs' with
          | Some more => Some (docs ++ more)
          | None => None
          end
      | None => None
      end
  end.

Definition write_json (descriptors_on : bool) (rs : list record) : option (list json) := write_from descriptors_on [] rs.

(* ---- the same writer when the application catches the exception of a refused write() and carries on.
   pack_obj registers the record's descriptor (and the writer emits its document) BEFORE json.dumps meets the value it
   refuses (an integer beyond the interpreter's int/str limit, a raw object smuggled into a typed list, ...: here any
   record whose pack_record is None, e.g. one holding VOpaque).  A refused write therefore emits no record document,
   and at most the descriptor document, which the registry then holds. ---- *)
Definition write_step (descriptors_on : bool) (reg : registry) (r : record) : registry * list json :=
  let (reg', dd) :=
    if known (pack_guard_compares_desc cfg) reg (r_desc r) then (reg, [])
    else let (reg', fired) := register reg (r_desc r) in
         (reg', if fired && descriptors_on then [pack_descriptor (r_desc r)] else []) in
  match pack_record descriptors_on r with
  | Some doc => (reg', dd ++ [doc])
  | None => (reg', dd)                       (* write() raised *)
  end.

Fixpoint write_tolerant (descriptors_on : bool) (reg : registry) (rs : list record) : list json :=
  match rs with
  | [] => []
  | r :: rs' => let (reg', docs) := write_step descriptors_on reg r in docs ++ write_tolerant descriptors_on reg' rs'
  end.

Definition accepted (descriptors_on : bool) (r : record) : bool :=
  match pack_record descriptors_on r with Some _ => true | None => false end.

(* ---- reading values by declared type (the record constructor's conversions) ---- *)
Fixpoint kind_lookup (tbl : list (text * kind)) (t : text) : option kind :=
  match tbl with
  | [] => None
  | (t', k) :: r => if text_eqb t t' then Some k else kind_lookup r t
  end.

(* "T[]" is the typed list of T *)
Definition type_shape (t : text) : option (kind * bool) :=
  match rev t with
  | 93 :: 91 :: r => match kind_lookup (type_kinds cfg) (rev r) with Some k => Some (k, true) | None => None end
  | _ => match kind_lookup (type_kinds cfg) t with Some k => Some (k, false) | None => None end
  end.

Definition is_hex (c : N) : bool :=
  ((48 <=? c) && (c <=? 57)) || ((97 <=? c) && (c <=? 102)) || ((65 <=? c) && (c <=? 70)).
Definition hex_ok (nbytes : nat) (t : text) : bool := Nat.eqb (List.length t) (2 * nbytes) && forallb is_hex t.
Definition opt_hex_ok (nbytes : nat) (o : option text) : bool := match o with Some t => hex_ok nbytes t | None => true end.

Definition digest_member (nbytes : nat) (k : text) (kv : list (text * json)) : option (option text) :=
  match lookup k kv with
  | None | Some JNull => Some None
  | Some (JStr t) => if hex_ok nbytes t then Some (Some t) else None
  | Some _ => None
  end.

(* the scalar conversion  field_type(value)  for a non-null parsed JSON value;
   [b64]: the reader base64-decodes this slot first.  None = raises / not modelled. *)
Definition unpack_scalar (k : kind) (b64 : bool) (j : json) : option jval :=
  match k, j with
  | KStr, JStr s => Some (VStr s)
  | KInt, JInt z => Some (VInt z)
  | KU16, JInt z => if (0 <=? z)%Z && (z <=? 65535)%Z then Some (VInt z) else None
  | KU32, JInt z => if (0 <=? z)%Z && (z <=? 4294967295)%Z then Some (VInt z) else None
  | KFloat, JFloat bits => Some (VFloat bits)
  | KFloat, JNonFinite nf => Some (VFloat (nonfinite_bits nf))
  | KBool, JBool b => Some (VBool b)
  | KBool, JInt z => if (z =? 0)%Z then Some (VBool false) else if (z =? 1)%Z then Some (VBool true) else None
  | KDt, JStr s => match iso_parse s with Some d => Some (VDt d) | None => None end
  | KBytes, JStr s => if b64 then match b64_decode s with Some bs => Some (VBytes bs) | None => None end else None
  | KDigest, JObj kv =>
      match digest_member 16 (T "md5") kv, digest_member 20 (T "sha1") kv, digest_member 32 (T "sha256") kv with
      | Some a, Some b, Some c => Some (VDigest a b c)
      | _, _, _ => None
      end
  | KIp, JStr s => Some (VIp s)
  | KNet, JStr s => Some (VNet s)
  | KPath, JStr s => Some (VPath s)
  | _, _ => None
  end.

(* one slot: the reader's base64 step (skipped for null), then the constructor: null -> the type's
   default ([] for typed lists, digest() for digest, None otherwise) when [dflt] *)
Definition unpack_value (dflt : bool) (t : text) (j : json) : option jval :=
  match type_shape t with
  | None => None
  | Some (k, false) =>
      match j with
      | JNull => if skip_none cfg then Some (match k with KDigest => if dflt then VDigest None None None else VNone | _ => VNone end) else None
      | _ => unpack_scalar k (mem t (b64_scalar_types cfg)) j
      end
  | Some (k, true) =>
      match j with
      | JNull => if skip_none cfg then Some (if dflt then VList [] else VNone) else None
      | JArr l =>
          match all_some (map (unpack_scalar k (mem t (b64_list_types cfg))) l) with
          | Some vs => Some (VList vs)
          | None => None
          end
      | _ => None
      end
  end.

(* the record constructor called with the members as keywords: every keyword must be a slot; a missing slot is None; _version is always
   RECORD_VERSION; a null _generated becomes "now" (not a value: None) *)
Definition unpack_field (dflt : bool) (kv : list (text * json)) (f : text * text) : option jval :=
  let (t, n) := f in
  let j := match lookup n kv with Some j => j | None => JNull end in
  if text_eqb n (version_key cfg) then Some (VInt (version cfg))
  else if text_eqb n (generated_key cfg) && (match j with JNull => true | _ => false end) then None
  else unpack_value dflt t j.

Definition build_record (d : descriptor) (kv : list (text * json)) : option record :=
  if forallb (fun p => mem (fst p) (map snd (all_fields d))) kv then
    match all_some (map (unpack_field (uses_defaults d) kv) (all_fields d)) with
    | Some vs => Some (Rec d vs)
    | None => None
    end
  else None.

(* ---- the fallback for plain documents: fieldtype_for_value on every key not starting with "_" ---- *)
Definition json_classes (j : json) : list text :=
  match j with
  | JStr _ => [T "str"]
  | JFloat _ | JNonFinite _ => [T "float"]
  | JBool _ => [T "bool"; T "int"]         (* bool is a subclass of int *)
  | JInt _ => [T "int"]
  | _ => []                                 (* None, list, dict: no branch *)
  end.

Fixpoint ftv_first (brs : list (text * text)) (classes : list text) : option text :=
  match brs with
  | [] => None
  | (c, t) :: r => if mem c classes then Some t else ftv_first r classes
  end.

Definition fieldtype_for_value (j : json) : text :=
  match ftv_first (ftv_branches cfg) (json_classes j) with Some t => t | None => ftv_default cfg end.

Definition starts_underscore (k : text) : bool := match k with 95 :: _ => true | _ => false end.

(* field_type(value) in the fallback record: strings of lists / dicts are opaque *)
Definition plain_value (dflt : bool) (t : text) (j : json) : option jval :=
  match j with
  | JArr _ | JObj _ => if text_eqb t (T "string") then Some (VOpaque j) else None
  | _ => unpack_value dflt t j
  end.

Definition plain_unpack_field (dflt : bool) (kv : list (text * json)) (f : text * text) : option jval :=
  let (t, n) := f in
  let j := match lookup n kv with Some j => j | None => JNull end in
  if text_eqb n (version_key cfg) then Some (VInt (version cfg))
  else if text_eqb n (generated_key cfg) && (match j with JNull => true | _ => false end) then None
  else plain_value dflt t j.

Definition read_plain (kv : list (text * json)) : option record :=
  let fields := map (fun p => (fieldtype_for_value (snd p), fst p)) (filter (fun p => negb (starts_underscore (fst p))) kv) in
  let d := Desc (fallback_name cfg) fields in
  if forallb (fun p => mem (fst p) (map snd (all_fields d))) kv then
    match all_some (map (plain_unpack_field (uses_defaults d) kv) (all_fields d)) with
    | Some vs => Some (Rec d vs)
    | None => None
    end
  else None.

(* ---- reader: JsonfileReader.__iter__ over the documents ---- *)
Definition parse_field (j : json) : option (text * text) :=
  match j with JArr [JStr t; JStr n] => Some (t, n) | _ => None end.

Definition parse_descriptor (kv : list (text * json)) : option descriptor :=
  match lookup (data_key cfg) kv with
  | Some (JArr [JStr name; JArr fs]) =>
      match all_some (map parse_field fs) with
      | Some fields => Some (Desc name fields)
      | None => None
      end
  | _ => None
  end.

Definition parse_ident (j : json) : option ident :=
  match j with JArr [JStr n; JInt h] => Some (n, h) | _ => None end.

Inductive read_step := RSkip (reg : registry) | RYield (r : record) | RFail.

Definition read_one (reg : registry) (doc : json) : read_step :=
  match doc with
  | JObj kv =>
      match lookup (type_key cfg) kv with
      | Some (JStr m) =>
          if text_eqb m (record_marker cfg) then
            match lookup (desc_key cfg) kv with
            | Some idj =>
                match parse_ident idj with
                | Some i =>
                    match reg_get reg i with
                    | Some d =>
                        let kv' := if reader_removes_markers cfg then remove_key (type_key cfg) (remove_key (desc_key cfg) kv) else kv in
                        match build_record d kv' with Some r => RYield r | None => RFail end
                    | None => RFail            (* RecordDescriptorNotFound *)
                    end
                | None => RFail
                end
            | None => RFail                    (* KeyError *)
            end
          else if text_eqb m (descriptor_marker cfg) then
            match parse_descriptor kv with
            | Some d => RSkip (if reader_registers cfg then fst (register reg d) else reg)
            | None => RFail
            end
          else match read_plain kv with Some r => RYield r | None => RFail end
      | _ => match read_plain kv with Some r => RYield r | None => RFail end
      end
  | _ => RFail
  end.

Fixpoint read_from (reg : registry) (docs : list json) : option (list record) :=
  match docs with
  | [] => Some []
  | doc :: rest =>
      match read_one reg doc with
      | RSkip reg' => read_from reg' rest
      | RYield r => match read_from reg rest with Some more => Some (r :: more) | None => None end
      | RFail => None
      end
  end.

Definition read_json (docs : list json) : option (list record) := read_from [] docs.

End WithHash.

(* ---- which values the field types hold (the record constructor's invariant) ---- *)
Definition val_of_kind (k : kind) (v : jval) : bool :=
  match k, v with
  | KStr, VStr _ => true
  | KInt, VInt _ => true
  | KU16, VInt z => (0 <=? z)%Z && (z <=? 65535)%Z
  | KU32, VInt z => (0 <=? z)%Z && (z <=? 4294967295)%Z
  | KFloat, VFloat bits => bits <? 18446744073709551616
  | KBool, VBool _ => true
  | KDt, VDt d => dtm_wf d
  | KBytes, VBytes _ => true
  | KDigest, VDigest a b c => opt_hex_ok 16 a && opt_hex_ok 20 b && opt_hex_ok 32 c
  | KIp, VIp _ => true
  | KNet, VNet _ => true
  | KPath, VPath _ => true
  | _, _ => false
  end.

Definition has_type (dflt : bool) (t : text) (v : jval) : bool :=
  match type_shape t with
  | None => false
  | Some (k, false) => match v with VNone => negb (dflt && match k with KDigest => true | _ => false end) | _ => val_of_kind k v end
  | Some (k, true) => match v with VList l => forallb (val_of_kind k) l | VNone => negb dflt | _ => false end
  end.

(* one slot of a constructed record *)
Definition slot_ok (dflt : bool) (f : text * text) (v : jval) : bool :=
  let (t, n) := f in
  has_type dflt t v
  && (if text_eqb n (version_key cfg) then jval_eqb v (VInt (version cfg)) else true)
  && (if text_eqb n (generated_key cfg) then negb (jval_eqb v VNone) else true).

Fixpoint slots_ok (dflt : bool) (fs : list (text * text)) (vs : list jval) : bool :=
  match fs, vs with
  | [], [] => true
  | f :: fs', v :: vs' => slot_ok dflt f v && slots_ok dflt fs' vs'
  | _, _ => false
  end.

Fixpoint nodup_text (l : list text) : bool :=
  match l with
  | [] => true
  | x :: t => negb (mem x t) && nodup_text t
  end.

(* a record over the JSON-supported types as the record constructor builds it: every slot holds a value
   of its declared type, slot names are distinct and differ from the marker keys, declared field names do
   not start with an underscore *)
Definition record_ok (r : record) : bool :=
  slots_ok (uses_defaults (r_desc r)) (all_fields (r_desc r)) (r_vals r)
  && nodup_text (map snd (all_fields (r_desc r)) ++ [type_key cfg; desc_key cfg])
  && forallb (fun f => negb (starts_underscore (snd f))) (d_fields (r_desc r)).   (* is_valid_field_name *)

(* ... and holds no non-finite float (those are written as the non-JSON tokens) *)
Fixpoint val_finite (v : jval) : bool :=
  match v with
  | VFloat bits => float_finite bits
  | VList l => forallb val_finite l
  | _ => true
  end.

Definition record_finite (r : record) : bool := forallb val_finite (r_vals r).

(* non-finite floats that survive reading (NaN comes back as the one quiet NaN json.loads builds) *)
Fixpoint val_float_canonical (v : jval) : bool :=
  match v with
  | VFloat bits => float_finite bits || (float_mant bits =? 0) || (bits =? nonfinite_bits NFNan)
  | VList l => forallb val_float_canonical l
  | _ => true
  end.

(* ---- observations used by the statements about documents ---- *)
Definition doc_keys (j : json) : option (list text) := match j with JObj kv => Some (map fst kv) | _ => None end.

Definition is_record_doc (j : json) : bool :=
  match j with
  | JObj kv => match lookup (type_key cfg) kv with Some (JStr m) => text_eqb m (record_marker cfg) | _ => false end
  | _ => false
  end.

Definition is_descriptor_doc (j : json) : bool :=
  match j with
  | JObj kv => match lookup (type_key cfg) kv with Some (JStr m) => text_eqb m (descriptor_marker cfg) | _ => false end
  | _ => false
  end.

Definition slot_names (r : record) : list text := map snd (all_fields (r_desc r)).

(* the JSON scalar a value of a fallback record stands for *)
Definition scalar_json_of (v : jval) : option json :=
  match v with
  | VNone => Some JNull
  | VStr s => Some (JStr s)
  | VInt z => Some (JInt z)
  | VBool b => Some (JBool b)
  | VFloat bits => Some (float_json bits)
  | _ => None
  end.

(* (field name, type name, the JSON scalar its value stands for) of the declared fields of a record *)
Definition scalar_view_record (p : record) : list (text * text * option json) :=
  map (fun fv => (snd (fst fv), fst (fst fv), scalar_json_of (snd fv))) (combine (d_fields (r_desc p)) (r_vals p)).

(* the same for the members of a document whose key does not start with "_" *)
Definition scalar_view_doc (doc : json) : list (text * text * option json) :=
  match doc with
  | JObj kv => map (fun p => (fst p, fieldtype_for_value (snd p), if is_scalar (snd p) then Some (snd p) else None))
                   (filter (fun p => negb (starts_underscore (fst p))) kv)
  | _ => []
  end.

End WithCfg.

(* the shape the proofs need of a configuration; checked by computation on the GENERATED instance *)
Definition cfg_ok (c : jcfg) : bool :=
  (match dispatch c CDatetime with Some AIsoformat => true | _ => false end)
  && (match dispatch c CDigest with Some ADigestDict => true | _ => false end)
  && (match dispatch c CIpAddress with Some AStr => true | _ => false end)
  && (match dispatch c CIpNetwork with Some AStr => true | _ => false end)
  && (match dispatch c CBytes with Some ABase64 => true | _ => false end)
  && (match dispatch c CPath with Some AStr => true | _ => false end)
  && forallb (fun p => match snd p with
                       | KBool => mem (fst p) (bool_cast_types c)
                       | KBytes => mem (fst p) (b64_scalar_types c) && mem (fst p ++ [91; 93]) (b64_list_types c)
                       | _ => true
                       end) (type_kinds c)
  && skip_none c && markers_guarded c
  && pack_guard_compares_desc c && register_guard_compares_desc c
  && reader_registers c && reader_removes_markers c
  && negb (text_eqb (record_marker c) (descriptor_marker c))
  && negb (text_eqb (type_key c) (desc_key c))
  && negb (text_eqb (type_key c) (data_key c))
  (* the fallback for plain documents *)
  && text_eqb (ftv_default c) (T "string")
  && opt_text_eqb (ftv_first (ftv_branches c) [T "str"]) (Some (T "string"))
  && opt_text_eqb (ftv_first (ftv_branches c) [T "float"]) (Some (T "float"))
  && opt_text_eqb (ftv_first (ftv_branches c) [T "bool"; T "int"]) (Some (T "boolean"))
  && opt_text_eqb (ftv_first (ftv_branches c) [T "int"]) (Some (T "varint"))
  && (match type_shape c (T "string") with Some (KStr, false) => true | _ => false end)
  && (match type_shape c (T "float") with Some (KFloat, false) => true | _ => false end)
  && (match type_shape c (T "boolean") with Some (KBool, false) => true | _ => false end)
  && (match type_shape c (T "varint") with Some (KInt, false) => true | _ => false end)
  && forallb (fun f => starts_underscore (snd f)) (reserved c)
  && starts_underscore (version_key c) && starts_underscore (generated_key c)
  && forallb (fun f => match type_shape c (fst f) with Some (KDigest, _) => false | Some (_, false) => true | _ => false end) (reserved c).

(* ------------------------------------------------------------------------------------------ *)
(* 6. writer options given as TEXT (constructor argument or URL query): indent=                  *)

(* what the writer makes of an `indent` text, as observed: no indentation, an indentation LEVEL (json.dumps
   inserts newlines and that many blanks: JSON white space), an indentation TEXT inserted literally before every
   member, or a refusal (exception at construction) *)
Inductive indent_obs := IndNone | IndLevel (z : Z) | IndText (t : text) | IndRejected.

Definition is_blank (c : N) : bool := (c =? 32) || ((9 <=? c) && (c <=? 13)) || ((28 <=? c) && (c <=? 31)).
Fixpoint strip_l (s : text) : text := match s with c :: r => if is_blank c then strip_l r else s | [] => [] end.
Definition strip (s : text) : text := rev (strip_l (rev (strip_l s))).
Definition is_digit (c : N) : bool := (48 <=? c) && (c <=? 57).

(* digits with single underscores between them *)
Fixpoint int_digits (acc : Z) (s : text) : option Z :=
  match s with
  | [] => Some acc
  | c :: r =>
      if is_digit c then int_digits (acc * 10 + Z.of_N (c - 48)) r
      else if c =? 95 then
        match r with
        | d :: r' => if is_digit d then int_digits (acc * 10 + Z.of_N (d - 48)) r' else None
        | [] => None
        end
      else None
  end.

Definition int_unsigned (s : text) : option Z :=
  match s with
  | c :: r => if is_digit c then int_digits (Z.of_N (c - 48)) r else None
  | [] => None
  end.

(* Python's int(text) for ASCII decimal literals: blanks stripped, optional sign, digits / underscores *)
Definition py_int_of_text (s : text) : option Z :=
  match strip s with
  | 43 :: r => int_unsigned r
  | 45 :: r => match int_unsigned r with Some z => Some (- z)%Z | None => None end
  | r => int_unsigned r
  end.

Definition is_json_ws (c : N) : bool := (c =? 32) || (c =? 9) || (c =? 10) || (c =? 13).

Definition opt_Z_eqb (a b : option Z) : bool :=
  match a, b with Some x, Some y => Z.eqb x y | None, None => true | _, _ => false end.

(* an indentation text is harmless only if it is JSON white space; a level must be the number the text denotes; a
   refusal is for texts that denote no number *)
Definition indent_entry_ok (e : text * indent_obs) : bool :=
  match snd e with
  | IndNone => false
  | IndLevel z => opt_Z_eqb (py_int_of_text (fst e)) (Some z)
  | IndText t => forallb is_json_ws t
  | IndRejected => opt_Z_eqb (py_int_of_text (fst e)) None
  end.

Record jopts := {
  indent_table : list (text * indent_obs);      (* OBSERVED: spelling -> what JsonfileWriter did with it *)
  descriptors_table : list (text * bool)        (* OBSERVED: spelling of descriptors= -> descriptor documents written? *)
}.

Definition options_ok (o : jopts) : bool := forallb indent_entry_ok (indent_table o).
