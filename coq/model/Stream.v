(* Model of the record stream: framing, RecordStreamWriter (with the packer's descriptor registry and the
   re-entrant descriptor emission), RecordStreamReader.  Definitions only. *)
From Coq Require Import List Bool NArith ZArith Lia.
From Coq Require Import Init.Byte.
From FR Require Import Bytes Msgpack Packer.
Import ListNotations.
Open Scope Z_scope.

Definition frame (body : bytes) : bytes := be 4 (blen body) ++ body.

Definition is_suffix (p bs : bytes) : bool := is_prefix (rev p) (rev bs).

Definition desc_eqb (a b : desc) : bool :=
  bytes_eqb (d_name a) (d_name b) &&
  (fix go (x y : list (bytes * bytes)) : bool :=
     match x, y with
     | [], [] => true
     | (t1, n1) :: x', (t2, n2) :: y' => bytes_eqb t1 t2 && bytes_eqb n1 n2 && go x' y'
     | _, _ => false
     end) (d_fields a) (d_fields b).

Section Stream.
Variable c : cfg.
Variable HASH : desc -> Z.

Definition body_of (x : xv) : bytes := enc (lower c x).
Definition header_body : bytes := body_of (XBin (MAGIC c)).

Notation pack_item' := (pack_item c HASH).
Notation pack_desc' := (pack_desc c).

(* ---------------- writer ---------------- *)
Record wstate := { w_header : bool; w_reg : registry }.
Definition w_init : wstate := {| w_header := false; w_reg := [] |}.

Definition known (reg : registry) (d : desc) : bool :=
  match reg_find reg (d_name d) (HASH d) with
  | Some d' => if GUARD_COMPARES_DESC c then desc_eqb d' d else true
  | None => false
  end.

(* descriptors registered (hence emitted) while packing, in emission order *)
Definition visit_desc (acc : list desc * registry) (d : desc) : list desc * registry :=
  let '(out, reg) := acc in
  if known reg d then (out, reg) else (out ++ [d], reg_add HASH reg d).

Fixpoint visit_f (acc : list desc * registry) (v : fval) {struct v} : list desc * registry :=
  match v with
  | FRec r => visit_rec acc r
  | FList l => (fix go (acc : list desc * registry) (l : list fval) :=
                  match l with [] => acc | a :: t => go (visit_f acc a) t end) acc l
  | _ => acc
  end
with visit_rec (acc : list desc * registry) (r : rec) {struct r} : list desc * registry :=
  match r with
  | Rec d vals =>
      (fix go (acc : list desc * registry) (l : list fval) :=
         match l with [] => acc | a :: t => go (visit_f acc a) t end) (visit_desc acc d) vals
  end.

Definition rec_desc (r : rec) : desc := match r with Rec d _ => d end.
Definition rec_vals (r : rec) : list fval := match r with Rec _ v => v end.

Definition visit_item (reg : registry) (it : item) : list desc * registry :=
  match it with
  | IRec r => visit_rec ([], reg) r
  | IGroup _ members =>
      (* pack_obj first registers every member's descriptor, then packing the members' values meets
         nested records *)
      let acc := fold_left visit_desc (map rec_desc members) ([], reg) in
      fold_left (fun acc r => fold_left visit_f (rec_vals r) acc) members acc
  end.

(* the chunks handed to fp.write for one write(item): [header] ++ descriptor frames ++ record frame;
   each frame is two write calls (length, body) *)
Definition write_bodies (st : wstate) (it : item) : wstate * list bytes :=
  let hdr := if w_header st then [] else [header_body] in
  let '(descs, reg') := visit_item (w_reg st) it in
  ({| w_header := true; w_reg := reg' |},
   hdr ++ map (fun d => body_of (pack_desc' d)) descs ++ [body_of (pack_item' it)]).

Fixpoint write_all_bodies (st : wstate) (its : list item) : list bytes :=
  match its with
  | [] => []
  | it :: t => let '(st', b) := write_bodies st it in b ++ write_all_bodies st' t
  end.

Definition frames (bodies : list bytes) : bytes := concat (map frame bodies).

(* a stream as RecordWriter leaves it after flush/close: the header is written even without records *)
Definition write_stream (its : list item) : bytes :=
  match its with
  | [] => frame header_body
  | _ => frames (write_all_bodies w_init its)
  end.

(* ---------------- reader ---------------- *)
Inductive outcome := CleanEOF | Raised.
Inductive robj := RItem (it : item) | RForeign.

Definition DEPTH : nat := 12.      (* nesting bound used when running the model; theorems quantify it *)

Definition decode_body (depth : nat) (reg : registry) (body : bytes) : frame_obj :=
  match unpackb body with
  | UOk m =>
      match raise_ c depth m with
      | Some x => interpret c depth reg x
      | None => OError
      end
  | _ => OError
  end.

(* RecordStreamReader.readheader: the first 4+2+len(MAGIC) bytes must END with the magic *)
Definition header_len : nat := 4 + 2 + List.length (MAGIC c).
Definition read_header (bs : bytes) : option bytes :=
  if is_suffix (MAGIC c) (firstn header_len bs) then Some (skipn header_len bs) else None.

Fixpoint read_loop (fuel : nat) (depth : nat) (reg : registry) (bs : bytes) : list robj * outcome :=
  match fuel with
  | O => ([], Raised)
  | S f =>
      if Nat.ltb (List.length bs) 4 then ([], CleanEOF)           (* len(d) != 4 -> EOFError, swallowed *)
      else
        let size := unbe (firstn 4 bs) in
        let rest := skipn 4 bs in
        let body := firstn (N.to_nat (N.min size (blen rest))) rest in      (* fp.read(size) may be short *)
        let rest' := skipn (N.to_nat (N.min size (blen rest))) rest in
        match decode_body depth reg body with
        | OHeader => read_loop f depth reg rest'
        | ODesc d => read_loop f depth (reg_add HASH reg d) rest'
        | OItem it => let '(out, oc) := read_loop f depth reg rest' in (RItem it :: out, oc)
        | OForeign => let '(out, oc) := read_loop f depth reg rest' in (RForeign :: out, oc)
        | OError => ([], Raised)
        end
  end.

Inductive read_result := NotAStream | Read (objs : list robj) (oc : outcome).

Definition read_stream (depth : nat) (bs : bytes) : read_result :=
  match read_header bs with
  | None => NotAStream
  | Some rest => let '(o, oc) := read_loop (S (List.length rest)) depth [] rest in Read o oc
  end.

End Stream.

(* the byte string the descriptor hash is computed over: name, then per field its name and type in the
   GENERATED order (gen/Gen_packer.v hash_field_order) *)
Definition hash_input (name_first : bool) (d : desc) : bytes :=
  d_name d ++ concat (map (fun f => if name_first then snd f ++ fst f else fst f ++ snd f) (d_fields d)).

(* two writers open at the same time: a history of (which writer, item) *)
Section TwoWriters.
Variable c : cfg.
Variable HASH : desc -> Z.
Fixpoint run_two (s1 s2 : wstate) (h : list (bool * item)) : list bytes * list bytes :=
  match h with
  | [] => ([], [])
  | (true, it) :: t => let '(s1', b) := write_bodies c HASH s1 it in
                       let '(o1, o2) := run_two s1' s2 t in (b ++ o1, o2)
  | (false, it) :: t => let '(s2', b) := write_bodies c HASH s2 it in
                        let '(o1, o2) := run_two s1 s2' t in (o1, b ++ o2)
  end.
End TwoWriters.
