(* Symbolic model of RecordContextMatcher._eval (flow/record/selector.py) for the sandbox property C09:
   evaluation over symbolic objects returns a result AND the trace of what it did to objects (attribute reads,
   calls, operator applications).  Definitions only. *)
From Coq Require Import List Bool String Ascii.
Import ListNotations.
Open Scope string_scope.
Open Scope list_scope.

(* ---------- AST (every kind of node the Python parser can hand to _eval) ---------- *)
Inductive node :=
| NConst (truthy : bool)                       (* ast.Constant; only its truth value matters here *)
| NList (l : list node) | NTuple (l : list node)
| NName (id : string)
| NAttr (value : node) (attr : string)
| NBoolOp (vals : list node)
| NBinOp (known_op : bool) (l r : node)        (* known_op: the operator is a key of AST_OPERATORS *)
| NUnary (known_op : bool) (operand : node)
| NCompare (lft : node) (comps : list (bool * node))   (* per link: is it `in`/`not in`?, the comparator; all comparison
                                                          operators are keys of AST_COMPARATORS *)
| NCall (func : node) (args : list node) (kwargs : list (string * node))
| NGen (elt : node) (gens : list (string * node * list node))   (* (target variable, iter, ifs) per `for` *)
| NOther.                                      (* IfExp, Subscript, Lambda, Dict, Set, ListComp, JoinedStr, Starred ... *)

(* ---------- symbolic objects ---------- *)
Inductive obj :=
| OConst (truthy : bool)
| ORec                                  (* the record under test *)
| OFun (name : string)                  (* one of the callables placed in the namespace by matches() *)
| OPlain (name : string)                (* a non-callable namespace entry: None True False Type *)
| OMod (path : list string)             (* DynamicFieldtypeModule(path) *)
| OAttr (o : obj) (name : string)       (* what getattr(o, name, NONE_OBJECT) returned *)
| OElem (o : obj) (i : nat)             (* i-th value obtained by iterating o *)
| OCall (f : obj) (args : list obj)     (* what an allowed call returned *)
| OOp (args : list obj)                 (* result of applying an operator / comparison *)
| OSeq (l : list obj)                   (* list / tuple display *)
| OGenObj                               (* an unconsumed generator object *)
| OMissing.                             (* NONE_OBJECT *)

Inductive event :=
| EvGetattr (o : obj) (name : string)   (* getattr(o, name, NONE_OBJECT) executed for an ast.Attribute node *)
| EvCall (callee : obj) (nargs : nat)   (* the callee was invoked *)
| EvOp (args : list obj)                (* an AST_OPERATORS / AST_COMPARATORS function or bool() applied *)
| EvHelperGetattr (name : string).      (* a whitelisted field_* helper reads getattr(r, <its string argument>) *)

Inductive err := InvalidOperation | TypeErr | KeyErr | AttrErr.
Inductive res := Ok (v : obj) | Err (e : err).

(* ---------- facts about the code (GENERATED: gen/Gen_sandbox.v) ---------- *)
Record facts := {
  exposed_callables : list string;      (* names of the callables matches() puts into self.data *)
  plain_names : list string;            (* the other names in self.data: None True False r Type *)
  whitelist : list (list string);       (* WHITELIST entries split at '.' *)
  guard_by_identity : bool;             (* the Call guard tests the evaluated callee (true) or the resolved name (false) *)
  helper_names : list string;           (* helpers that read fields named by a user string: field_regex field_equals field_contains *)
  helpers_refuse_dunder : bool          (* they read through _field_value, which refuses a double-underscore name with
                                           InvalidOperation before touching the record (true), or getattr(r, <user string>)
                                           directly (false, the code before fix cdcae2a) *)
}.

Section Eval.
Variable F : facts.
(* environment oracles: how arbitrary objects behave.  The theorems hold for EVERY choice. *)
Variable truthy : obj -> bool.
Variable elems : obj -> list obj.             (* the values iterating the object yields *)
Variable helper_fields : obj -> list string.  (* the field-name strings a helper finds in its second argument *)

Definition starts_dunder (s : string) : bool := prefix "__" s.

Fixpoint list_eqb (a b : list string) : bool :=
  match a, b with
  | [], [] => true
  | x :: a', y :: b' => String.eqb x y && list_eqb a' b'
  | _, _ => false
  end.
Definition in_whitelist (p : list string) : bool := existsb (list_eqb p) (whitelist F).
Fixpoint is_prefix_list (p l : list string) : bool :=
  match p, l with
  | [], _ => true
  | x :: p', y :: l' => String.eqb x y && is_prefix_list p' l'
  | _, [] => false
  end.
(* DynamicFieldtypeModule.__getattr__ succeeds iff the extended path is a path in WHITELIST_TREE *)
Definition in_tree (p : list string) : bool := existsb (is_prefix_list p) (whitelist F).
Definition mem (s : string) (l : list string) : bool := existsb (String.eqb s) l.

(* the namespace self.data: the initial names plus generator variables (most recent first) *)
Definition ns := list (string * obj).
Fixpoint ns_get (d : ns) (k : string) : option obj :=
  match d with [] => None | (k', v) :: t => if String.eqb k k' then Some v else ns_get t k end.
(* generator variables go out of scope with their generator (fix 4e3ad9e): self.data.pop(name, None) *)
Definition ns_del (d : ns) (names : list string) : ns :=
  filter (fun kv => negb (existsb (String.eqb (fst kv)) names)) d.
Definition ns0 : ns :=
  map (fun n => (n, OFun n)) (exposed_callables F) ++
  map (fun n => (n, if String.eqb n "r" then ORec else OPlain n)) (plain_names F).

(* the callee test of the Call branch *)
Definition allowed (o : obj) : bool :=
  match o with
  | OFun n => mem n (exposed_callables F)
  | OMod p => in_whitelist p
  | _ => false
  end.

(* resolve_attr_path: the dotted name of the Attribute/Name links of the call target *)
Fixpoint resolve_path (n : node) : list string :=
  match n with
  | NAttr v a => resolve_path v ++ [a]
  | NName id => [id]
  | _ => []
  end.
Definition joined (p : list string) : string := String.concat "." p.
Definition callable_obj (o : obj) : bool :=
  match o with OFun _ | OMod _ => true | _ => false end.
(* the pre-fix guard: by resolved name *)
Definition name_guard (d : ns) (fn : node) : bool :=
  let p := resolve_path fn in
  match ns_get d (joined p) with
  | Some o => callable_obj o || in_whitelist p     (* generator variables holding callables are modelled as not callable here *)
  | None => in_whitelist p
  end.

Definition getattr_obj (o : obj) (a : string) : obj :=
  match o with
  | OMod p => if in_tree (p ++ [a]) then OMod (p ++ [a]) else OMissing
  | OMissing => OMissing
  | OPlain "Type" => OAttr o a
  | _ => OAttr o a
  end.

(* evaluation state: namespace + trace (oldest first) *)
Definition st := (ns * list event)%type.
Definition emit (s : st) (e : event) : st := (fst s, snd s ++ [e]).

Fixpoint eval_list (ev : st -> node -> res * st) (s : st) (l : list node) : option (list obj) * option err * st :=
  match l with
  | [] => (Some [], None, s)
  | n :: t =>
      match ev s n with
      | (Ok v, s1) =>
          match eval_list ev s1 t with
          | (Some vs, _, s2) => (Some (v :: vs), None, s2)
          | r => r
          end
      | (Err e, s1) => (None, Some e, s1)
      end
  end.

(* what a whitelisted helper does to the record with its field-name argument *)
(* the names read before the first double-underscore name, and whether there is one *)
Fixpoint until_dunder (l : list string) : list string * bool :=
  match l with
  | [] => ([], false)
  | n :: t => if starts_dunder n then ([], true) else let (a, b) := until_dunder t in (n :: a, b)
  end.

(* the reads, and whether the helper stops with InvalidOperation at a double-underscore name *)
Definition helper_events (f : obj) (args : list obj) : list event * bool :=
  match f, args with
  | OFun n, _ :: fields :: _ =>
      if mem n (helper_names F) then
        if helpers_refuse_dunder F
        then let (ok, hit) := until_dunder (helper_fields fields) in (map EvHelperGetattr ok, hit)
        else (map EvHelperGetattr (helper_fields fields), false)
      else ([], false)
  | _, _ => ([], false)
  end.

(* ---- consumption of a generator expression by any()/all(), parametrised by the evaluator ---- *)
Section Consume.
Variable ev : st -> node -> res * st.

(* all(self.eval(condition) for condition in gen.ifs) *)
Fixpoint conds (cs : list node) (s : st) {struct cs} : option err * bool * st :=
  match cs with
  | [] => (None, true, s)
  | cnd :: cs' =>
      match ev s cnd with
      | (Ok b, s1) => if truthy b then conds cs' s1 else (None, false, s1)
      | (Err e, s1) => (Some e, false, s1)
      end
  end.

(* for val in resolved_gen: self.data[var] = val; conditions; inner generators / yield.  Result: (error, stop?, state) *)
Fixpoint loop (var : string) (ifs : list node) (k : st -> option err * bool * st) (vals : list obj) (s : st)
         {struct vals} : option err * bool * st :=
  match vals with
  | [] => (None, false, s)
  | v :: vals' =>
      let s' : st := ((var, v) :: fst s, snd s) in
      match conds ifs s' with
      | (Some e, _, s2) => (Some e, true, s2)
      | (None, false, s2) => loop var ifs k vals' s2
      | (None, true, s2) =>
          match k s2 with
          | (None, false, s3) => loop var ifs k vals' s3
          | r => r
          end
      end
  end.

Fixpoint level (elt : node) (stop_on : obj -> bool) (gens : list (string * node * list node)) (s : st)
         {struct gens} : option err * bool * st :=
  match gens with
  | [] =>
      match ev s elt with
      | (Ok v, s1) => (None, stop_on v, s1)
      | (Err e, s1) => (Some e, true, s1)
      end
  | (var, it, ifs) :: gens' =>
      match ev s it with
      | (Err e, s1) => (Some e, true, s1)
      | (Ok OMissing, s1) => (None, false, s1)
      | (Ok o, s1) => loop var ifs (level elt stop_on gens') (elems o) s1
      end
  end.

(* iterating a generator expression object until [stop_on] holds for a yielded value: first the "overwrites existing
   variable" test of generator_expr, then the nested loops *)
Definition gen_vars (gens : list (string * node * list node)) : list string := map (fun g => fst (fst g)) gens.

(* [keep]: the consumer keeps the generator object alive after it stopped early (the comparison chain of `in`); any()/all()
   drop it when they return.  An exhausted generator has run its `finally` and removed its variables in any case. *)
Definition consume (elt : node) (gens : list (string * node * list node)) (stop_on : obj -> bool) (keep : bool) (s0 : st)
  : option err * bool * st :=
  if existsb (fun g => match ns_get (fst s0) (fst (fst g)) with Some _ => true | None => false end) gens
  then (Some InvalidOperation, true, s0)
  else match level elt stop_on gens s0 with
       | (None, stopped, s1) =>
           if stopped && keep then (None, stopped, s1) else (None, stopped, (ns_del (fst s1) (gen_vars gens), snd s1))
       | r => r
       end.

(* callee( args, kwargs ): the call event, what a field_* helper reads, and -- when the callee is any/all over a
   generator expression -- the lazy consumption of that generator *)
Definition do_call (args : list node) (c : obj) (vs : list obj) (nk : nat) (s : st) : res * st :=
  let s0 : st := (fst s, snd s ++ [EvCall c (List.length vs + nk)] ++ fst (helper_events c vs)) in
  if snd (helper_events c vs) then (Err InvalidOperation, s0) else
  match c, args with
  | OFun cname, [NGen elt gens] =>
      if String.eqb cname "any" || String.eqb cname "all" then
        let stop_on (v : obj) : bool := if String.eqb cname "any" then truthy v else negb (truthy v) in
        match consume elt gens stop_on false s0 with
        | (Some e, _, s1) => (Err e, s1)
        | (None, _, s1) => (Ok (OCall c vs), s1)
        end
      else (Ok (OCall c vs), s0)
  | _, _ => (Ok (OCall c vs), s0)
  end.
End Consume.

Fixpoint eval (fuel : nat) (s : st) (n : node) {struct fuel} : res * st :=
  match fuel with
  | O => (Err TypeErr, s)
  | S f =>
    let ev := eval f in
    match n with
    | NConst t => (Ok (OConst t), s)
    | NList l | NTuple l =>
        match eval_list ev s l with
        | (Some vs, _, s1) => (Ok (OSeq vs), s1)
        | (None, Some e, s1) => (Err e, s1)
        | (None, None, s1) => (Err TypeErr, s1)
        end
    | NName id =>
        match ns_get (fst s) id with
        | Some o => (Ok o, s)
        | None => if in_tree [id] then (Ok (OMod [id]), s) else (Err AttrErr, s)
        end
    | NAttr v a =>
        if starts_dunder a then (Err InvalidOperation, s)
        else match ev s v with
             | (Ok o, s1) => (Ok (getattr_obj o a), emit s1 (EvGetattr o a))
             | r => r
             end
    | NBoolOp vals =>
        (* every operand is evaluated, converted with bool(), folded with the operator *)
        match eval_list ev s vals with
        | (Some vs, _, s1) => (Ok (OOp vs), (fst s1, snd s1 ++ map (fun v => EvOp [v]) vs ++ [EvOp vs]))
        | (None, Some e, s1) => (Err e, s1)
        | (None, None, s1) => (Err TypeErr, s1)
        end
    | NBinOp known l r =>
        (* AST_OPERATORS[type(node.op)] is looked up before the operands are evaluated (fix da067e7) *)
        if known then
          match ev s l with
          | (Ok a, s1) =>
              match ev s1 r with
              | (Ok b, s2) =>
                  match a, b with
                  | OMissing, _ | _, OMissing => (Ok (OConst false), s2)
                  | _, _ => (Ok (OOp [a; b]), emit s2 (EvOp [a; b]))
                  end
              | r' => r'
              end
          | r' => r'
          end
        else (Err KeyErr, s)
    | NUnary known o =>
        if known then
          match ev s o with
          | (Ok a, s1) => (Ok (OOp [a]), emit s1 (EvOp [a]))
          | r' => r'
          end
        else (Err KeyErr, s)         (* AST_OPERATORS[type(node.op)] is looked up before the operand is evaluated *)
    | NCompare lft comps =>
        match ev s lft with
        | (Ok a, s1) =>
            (* [pend]: variables of generators this chain consumed that stopped early; the generator objects stay
               referenced by the chain's operands until the comparison returns, then their variables go *)
            (fix chain (a : obj) (s : st) (cs : list (bool * node)) (last : obj) (pend : list string) : res * st :=
               match cs with
               | [] => (Ok last, (ns_del (fst s) pend, snd s))
               | (is_in, c) :: cs' =>
                   match ev s c with
                   | (Ok b, s2) =>
                       (* `a in <generator expression>`: operator.contains iterates the generator, comparing each
                          yielded value with a, until one compares equal *)
                       match (match is_in, c, a with
                              | true, NGen elt gens, OMissing => (None, false, s2)
                              | true, NGen elt gens, _ => consume ev elt gens (fun v => truthy (OOp [v; a])) true s2
                              | _, _, _ => (None, false, s2)
                              end) with
                       | (Some e, _, s2') => (Err e, (ns_del (fst s2') pend, snd s2'))
                       | (None, stopped, s2') =>
                           let pend' := match is_in, c, a with
                                        | true, NGen _ _, OMissing => pend
                                        | true, NGen _ gens, _ => if stopped then gen_vars gens ++ pend else pend
                                        | _, _, _ => pend
                                        end in
                           let r := OOp [a; b] in
                           let s3 := emit s2' (EvOp [a; b]) in
                           if truthy r then chain b s3 cs' r pend' else (Ok r, (ns_del (fst s3) pend', snd s3))
                       end
                   | (r', s2) => (r', (ns_del (fst s2) pend, snd s2))
                   end
               end) a s1 comps (OConst true) []
        | r' => r'
        end
    | NCall fn args kwargs =>
        match fn with
        | NAttr _ _ | NName _ =>
            if guard_by_identity F then
              (* callee evaluated first; AttributeError while resolving it counts as "not allowed" *)
              match ev s fn with
              | (Ok c, s1) =>
                  if allowed c then
                    match eval_list ev s1 args with
                    | (Some vs, _, s2) =>
                        match eval_list ev s2 (map snd kwargs) with
                        | (Some ks, _, s3) =>
                            do_call ev args c vs (List.length ks) s3
                        | (None, Some e, s3) => (Err e, s3)
                        | (None, None, s3) => (Err TypeErr, s3)
                        end
                    | (None, Some e, s2) => (Err e, s2)
                    | (None, None, s2) => (Err TypeErr, s2)
                    end
                  else (Err InvalidOperation, s1)
              | (Err AttrErr, s1) => (Err InvalidOperation, s1)
              | r' => r'
              end
            else
              (* pre-fix: the resolved NAME decides, then the callee is evaluated and invoked whatever it is *)
              if name_guard (fst s) fn then
                match ev s fn with
                | (Ok c, s1) =>
                    match eval_list ev s1 args with
                    | (Some vs, _, s2) =>
                        match eval_list ev s2 (map snd kwargs) with
                        | (Some ks, _, s3) => do_call ev args c vs (List.length ks) s3
                        | (None, Some e, s3) => (Err e, s3)
                        | (None, None, s3) => (Err TypeErr, s3)
                        end
                    | (None, Some e, s2) => (Err e, s2)
                    | (None, None, s2) => (Err TypeErr, s2)
                    end
                | r' => r'
                end
              else (Err InvalidOperation, s)
        | _ => (Err InvalidOperation, s)
        end
    | NGen _ _ => (Ok OGenObj, s)        (* a generator object; nothing runs until it is consumed *)
    | NOther => (Err TypeErr, s)
    end
  end.

End Eval.
