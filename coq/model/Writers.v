(* Model of the record writers of flow.record (adapter/__init__.py AbstractWriter, adapter/stream.py,
   adapter/jsonfile.py (+ csvfile/line/text), adapter/avro.py, adapter/sqlite.py writer part, adapter/split.py,
   stream.py RecordStreamWriter / PathTemplateWriter / RecordArchiver) as state machines over an abstract
   filesystem.  Definitions only; the proofs are in proofs/Writers_proofs.v.

   What is abstracted: a record is (descriptor id, payload id); a stream file is its list of frames
   (magic header | descriptor | record) -- compression is the identity at this level; a JSON-lines / CSV / line /
   text file is the list of records it holds (descriptor lines, CSV header lines are not modelled); an Avro file is
   (which schema its header carries, the records of the flushed blocks); a SQLite database is its committed tables
   in creation order.  OS buffering is not modelled: a file's content is what is on disk once the file object is
   closed (the check observes the disk after close, while the writer object is still alive, and again after del). *)
From Coq Require Import List Bool String Ascii NArith Arith DecimalString.
Import ListNotations.
Open Scope list_scope.

(* ------------------------------------------------------------------------------------------------ *)
(* records, frames, the reader side                                                                   *)

Definition desc := N.
Record rec := mkRec { r_desc : desc; r_id : N }.

Definition rec_eqb (a b : rec) : bool := N.eqb (r_desc a) (r_desc b) && N.eqb (r_id a) (r_id b).

Definition mem_desc (d : desc) (l : list desc) : bool := existsb (N.eqb d) l.
Definition add_desc (d : desc) (l : list desc) : list desc := if mem_desc d l then l else l ++ [d].

Inductive frame := FHdr | FDesc (d : desc) | FRec (r : rec).

(* RecordStreamReader.__iter__: a magic frame is skipped wherever it occurs, a descriptor frame is registered,
   a record frame needs its descriptor to be registered (else the packer raises).  Returns the final registry too. *)
Fixpoint read_frames (reg : list desc) (fs : list frame) : option (list desc * list rec) :=
  match fs with
  | [] => Some (reg, [])
  | FHdr :: t => read_frames reg t
  | FDesc d :: t => read_frames (add_desc d reg) t
  | FRec r :: t =>
      if mem_desc (r_desc r) reg then
        match read_frames reg t with
        | Some (reg', rs) => Some (reg', r :: rs)
        | None => None
        end
      else None
  end.

(* RecordStreamReader.readheader: the first frame must be the magic; a 0-byte file is not a record stream *)
Definition read_stream (fs : list frame) : option (list rec) :=
  match fs with
  | FHdr :: t => option_map snd (read_frames [] t)
  | _ => None
  end.

(* which schema an Avro header / an fastavro Writer object carries *)
Inductive akind := KNone | KEmpty | KRec.

Definition table := (desc * list rec)%type.

Inductive file :=
| FileStream (frames : list frame)
| FilePlain (recs : list rec)                    (* jsonfile / csvfile / line / text: no header, empty file is valid *)
| FileAvro (hdr : akind) (data : list rec)       (* hdr = KNone: 0 bytes; KEmpty: header of the fallback schema "empty" *)
| FileSqlite (tables : list table).              (* committed tables, creation order *)

Definition readable (f : file) : option (list rec) :=
  match f with
  | FileStream fr => read_stream fr
  | FilePlain rs => Some rs
  | FileAvro KNone _ => None
  | FileAvro KRec d => Some d
  | FileAvro KEmpty [] => Some []
  | FileAvro KEmpty (_ :: _) => None        (* data written under the field-less schema "empty": not the records *)
  | FileSqlite ts => Some (flat_map snd ts)
  end.

(* SQLite: one table per descriptor, created at the first record of that descriptor *)
Fixpoint tbl_insert (r : rec) (ts : list table) : list table :=
  match ts with
  | [] => [(r_desc r, [r])]
  | (d, rows) :: t => if N.eqb d (r_desc r) then (d, rows ++ [r]) :: t else (d, rows) :: tbl_insert r t
  end.
Definition tbl_insert_all (rs : list rec) (ts : list table) : list table :=
  fold_left (fun ts r => tbl_insert r ts) rs ts.
Definition sqlite_order (rs : list rec) : list rec := flat_map snd (tbl_insert_all rs []).

Inductive adapter := AStream | APlain | AAvro | ASqlite.

(* what a reader returns for the records [rs] written through adapter k *)
Definition expected (k : adapter) (rs : list rec) : list rec :=
  match k with ASqlite => sqlite_order rs | _ => rs end.

(* ------------------------------------------------------------------------------------------------ *)
(* shape facts (GENERATED from the code: gen/Gen_writers.v)                                          *)

Inductive mcall := MFlush | MClose.
Inductive rollstep := RFlush | RClose | RReset | RNew.

Record shapes := mkShapes {
  sh_exit : list mcall;              (* AbstractWriter.__exit__: the self.<m>() calls of its body, in order *)
  sh_del : list mcall;               (* AbstractWriter.__del__ *)
  sh_avro_flush_placeholder : bool;  (* AvroWriter.flush installs the writer on the placeholder schema "empty" when there is none *)
  sh_avro_close_placeholder : bool;  (* AvroWriter.close installs it (when there is none) before flushing *)
  sh_avro_close_flushes : bool;      (* AvroWriter.close calls self.flush() before closing self.fp *)
  sh_stream_close_flushes : bool;    (* StreamWriter.close calls a flush before closing *)
  sh_split_ge : bool;                (* SplitWriter.write: true = `written >= count`, false = `written > count` *)
  sh_split_roll : list rollstep;     (* the statements of that `if`, in order *)
  sh_rotate_counter : bool;          (* rotate_existing_file appends a counter to the rotated name until it is free *)
  (* SplitWriter.__init__: `self.is_stdout = parsed.netloc in (...) and parsed.path == ...`: the values each part of
     urlparse(self.path) is tested against (None: that part is not tested) *)
  sh_split_stdout_netloc : option (list string);
  sh_split_stdout_path : option (list string);
  sh_exit_exc : list mcall           (* AbstractWriter.__exit__ when the block is left by an exception *)
}.

(* ------------------------------------------------------------------------------------------------ *)
(* one writer on one file                                                                             *)

(* WithExit: the with-block is left normally; WithExitExc: it is left by an exception (__exit__ gets the exception) *)
Inductive op := Write (r : rec) | Flush | Close | WithExit | WithExitExc | Del.
Inductive outcome := Ok | Raised.

Record wstate := mkW {
  w_open : bool;              (* self.fp / self.con is not None *)
  w_hdr : bool;               (* RecordStreamWriter.header_written *)
  w_seen : list desc;         (* RecordPacker's registered descriptors / SqliteWriter.descriptors_seen *)
  w_adesc : option desc;      (* AvroWriter.desc *)
  w_awr : akind;              (* AvroWriter.writer: None / fastavro Writer on schema "empty" / on the record schema *)
  w_buf : list rec;           (* fastavro's in-memory block / the rows of the open SQLite transaction *)
  w_count : nat;              (* SqliteWriter.count *)
  w_file : file }.

Definition empty_file (k : adapter) : file :=
  match k with
  | AStream => FileStream []
  | APlain => FilePlain []
  | AAvro => FileAvro KNone []
  | ASqlite => FileSqlite []
  end.

Definition w_init (k : adapter) : wstate := mkW true false [] None KNone [] 0 (empty_file k).

Definition set_open (st : wstate) (b : bool) :=
  mkW b (w_hdr st) (w_seen st) (w_adesc st) (w_awr st) (w_buf st) (w_count st) (w_file st).
Definition set_file (st : wstate) (f : file) :=
  mkW (w_open st) (w_hdr st) (w_seen st) (w_adesc st) (w_awr st) (w_buf st) (w_count st) f.
Definition set_buf (st : wstate) (b : list rec) :=
  mkW (w_open st) (w_hdr st) (w_seen st) (w_adesc st) (w_awr st) b (w_count st) (w_file st).

Definition frames_of (st : wstate) : list frame := match w_file st with FileStream f => f | _ => [] end.

(* RecordStreamWriter.writeheader (when not yet written) *)
Definition stream_header (st : wstate) : wstate :=
  if w_hdr st then st
  else mkW (w_open st) true (w_seen st) (w_adesc st) (w_awr st) (w_buf st) (w_count st)
           (FileStream (frames_of st ++ [FHdr])).

(* RecordStreamWriter.write(record): header first; a new descriptor is emitted (on_new_descriptor) before the record *)
Definition stream_write (st : wstate) (r : rec) : wstate :=
  let st1 := stream_header st in
  let d := r_desc r in
  let pre := if mem_desc d (w_seen st1) then [] else [FDesc d] in
  mkW (w_open st1) (w_hdr st1) (add_desc d (w_seen st1)) (w_adesc st1) (w_awr st1) (w_buf st1) (w_count st1)
      (FileStream (frames_of st1 ++ pre ++ [FRec r])).

Definition avro_hdr (st : wstate) : akind := match w_file st with FileAvro h _ => h | _ => KNone end.
Definition avro_data (st : wstate) : list rec := match w_file st with FileAvro _ d => d | _ => [] end.

(* self.writer = fastavro.write.Writer(self.fp, <schema "empty">) when there is no writer: its constructor writes the header *)
Definition avro_install_placeholder (st : wstate) : wstate :=
  match w_awr st with
  | KNone => mkW (w_open st) (w_hdr st) (w_seen st) (w_adesc st) KEmpty (w_buf st) (w_count st)
                 (FileAvro (match avro_hdr st with KNone => KEmpty | h => h end) (avro_data st))
  | _ => st
  end.
(* fastavro's Writer.flush: the buffered block goes to the file *)
Definition avro_writer_flush (st : wstate) : wstate :=
  mkW (w_open st) (w_hdr st) (w_seen st) (w_adesc st) (w_awr st) [] (w_count st)
      (FileAvro (avro_hdr st) (avro_data st ++ w_buf st)).
Definition avro_flush_open (st : wstate) : wstate := avro_writer_flush (avro_install_placeholder st).

Definition tables_of (st : wstate) : list table := match w_file st with FileSqlite t => t | _ => [] end.

(* SqliteWriter.flush = tx_cycle: COMMIT the open transaction, BEGIN a new one *)
Definition sqlite_commit (st : wstate) : wstate :=
  mkW (w_open st) (w_hdr st) (w_seen st) (w_adesc st) (w_awr st) [] (w_count st)
      (FileSqlite (tbl_insert_all (w_buf st) (tables_of st))).

(* the stdout target *)
Inductive okind := OStream | OPrinter | OJson | OCsv | OLine | OText | OAvro.
   (* OStream: the stream adapter on a stdout that is not a terminal; OPrinter: on a terminal (RecordPrinter) *)
Record oshape := mkOShape {
  o_write_delivers : bool;     (* write() leaves nothing in sys.stdout's buffer (it flushes after every record) *)
  o_flush_delivers : bool;     (* flush() empties the buffer *)
  o_close_delivers : bool;     (* close() empties the buffer *)
  o_write_after_close : bool }.  (* write() on a closed writer still puts the record into sys.stdout's buffer (no error) *)
Record ostate := mkO { o_open : bool; o_pending : list rec; o_delivered : list rec }.
Definition o_init : ostate := mkO true [] [].

Section OneWriter.
Variable sh : shapes.
Variable batch : nat.       (* SqliteWriter.batch_size *)

Definition do_write (k : adapter) (st : wstate) (r : rec) : wstate * outcome :=
  if negb (w_open st) then (st, Raised)       (* self.fp / self.stream / self.con is None: AttributeError *)
  else
    match k with
    | AStream => (stream_write st r, Ok)
    | APlain =>
        (set_file st (FilePlain (match w_file st with FilePlain rs => rs ++ [r] | _ => [r] end)), Ok)
    | AAvro =>
        match w_adesc st with
        | None =>
            (* self.desc = r._desc ...; self.writer = fastavro.write.Writer(self.fp, ...) *)
            let st1 := mkW (w_open st) (w_hdr st) (w_seen st) (Some (r_desc r)) (w_awr st) (w_buf st) (w_count st)
                           (w_file st) in
            match avro_hdr st with
            | KNone =>
                (mkW (w_open st1) (w_hdr st1) (w_seen st1) (w_adesc st1) KRec (w_buf st1 ++ [r]) (w_count st1)
                     (FileAvro KRec (avro_data st1)), Ok)
            | _ => (st1, Raised)       (* fastavro: file position is not 0 -> "must use the 'a+' mode" ValueError *)
            end
        | Some d0 =>
            if N.eqb d0 (r_desc r) then
              match w_awr st with
              | KNone => (st, Raised)
              | _ => (set_buf st (w_buf st ++ [r]), Ok)   (* KEmpty: datum encoded against schema "empty" *)
              end
            else (st, Raised)          (* Exception("Mixed record types") *)
        end
    | ASqlite =>
        let d := r_desc r in
        let st1 :=
          if mem_desc d (w_seen st) then st
          else (* create table; self.flush() commits what is pending *)
            let c := sqlite_commit st in
            mkW (w_open c) (w_hdr c) (w_seen c ++ [d]) (w_adesc c) (w_awr c) (w_buf c) (w_count c) (w_file c) in
        let st2 := mkW (w_open st1) (w_hdr st1) (w_seen st1) (w_adesc st1) (w_awr st1) (w_buf st1 ++ [r])
                       (S (w_count st1)) (w_file st1) in
        ((if Nat.eqb (Nat.modulo (w_count st2) batch) 0 then sqlite_commit st2 else st2), Ok)
    end.

(* AvroWriter.flush, in either of its two shapes *)
Definition avro_flush (st : wstate) : wstate * outcome :=
  if sh_avro_flush_placeholder sh then
    (* `if not self.writer: self.writer = Writer(self.fp, ...)`; `self.writer.flush()` *)
    if w_open st then (avro_flush_open st, Ok)
    else (st, Raised)                      (* self.fp is None -> Writer(None, ...) raises *)
  else
    (* `if self.writer: self.writer.flush()`  (a closed writer has self.writer = None) *)
    if w_open st then match w_awr st with KNone => (st, Ok) | _ => (avro_writer_flush st, Ok) end
    else (st, Ok).

Definition do_flush (k : adapter) (st : wstate) : wstate * outcome :=
  match k with
  | AStream => ((if w_open st then stream_header st else st), Ok)
  | APlain => (st, Ok)
  | AAvro => avro_flush st
  | ASqlite => ((if w_open st then sqlite_commit st else st), Ok)
  end.

Definition do_close (k : adapter) (st : wstate) : wstate * outcome :=
  if negb (w_open st) then (st, Ok)
  else
    match k with
    | AStream => (set_open (if sh_stream_close_flushes sh then stream_header st else st) false, Ok)
    | APlain => (set_open st false, Ok)
    | AAvro =>
        let st0 := if sh_avro_close_placeholder sh then avro_install_placeholder st else st in
        let st1 := if sh_avro_close_flushes sh then fst (avro_flush st0) else st0 in
        (mkW false (w_hdr st1) (w_seen st1) (w_adesc st1) KNone [] (w_count st1) (w_file st1), Ok)
    | ASqlite => (set_open (sqlite_commit st) false, Ok)
    end.

Definition do_call (k : adapter) (st : wstate) (c : mcall) : wstate * outcome :=
  match c with MFlush => do_flush k st | MClose => do_close k st end.

(* a method body that is a sequence of self.<m>() calls: an exception ends it *)
Fixpoint do_calls (k : adapter) (st : wstate) (cs : list mcall) : wstate * outcome :=
  match cs with
  | [] => (st, Ok)
  | c :: cs' =>
      match do_call k st c with
      | (st', Ok) => do_calls k st' cs'
      | (st', Raised) => (st', Raised)
      end
  end.

Definition step (k : adapter) (st : wstate) (o : op) : wstate * outcome :=
  match o with
  | Write r => do_write k st r
  | Flush => do_flush k st
  | Close => do_close k st
  | WithExit => do_calls k st (sh_exit sh)
  | WithExitExc => do_calls k st (sh_exit_exc sh)
  | Del => do_calls k st (sh_del sh)
  end.

(* final state and the records whose write() returned normally, in order *)
Fixpoint run (k : adapter) (st : wstate) (h : list op) : wstate * list rec :=
  match h with
  | [] => (st, [])
  | o :: h' =>
      let (st', out) := step k st o in
      let (st'', acc) := run k st' h' in
      (st'', match o, out with Write r, Ok => r :: acc | _, _ => acc end)
  end.

Fixpoint outcomes (k : adapter) (st : wstate) (h : list op) : list outcome :=
  match h with
  | [] => []
  | o :: h' => let (st', out) := step k st o in out :: outcomes k st' h'
  end.

(* ------------------------------------------------------------------------------------------------ *)
(* SplitWriter: parts are keyed by the value of file_count their name was built from                 *)

Section Fs.
Context {K V : Type}.
Variable keqb : K -> K -> bool.
Fixpoint fs_get (k : K) (fs : list (K * V)) : option V :=
  match fs with [] => None | (k', v) :: t => if keqb k k' then Some v else fs_get k t end.
Fixpoint fs_remove (k : K) (fs : list (K * V)) : list (K * V) :=
  match fs with [] => [] | (k', v) :: t => if keqb k k' then fs_remove k t else (k', v) :: fs_remove k t end.
Definition fs_mem (k : K) (fs : list (K * V)) : bool := existsb (fun kv => keqb k (fst kv)) fs.
(* create / truncate / replace: the entry is (re)placed at the end *)
Definition fs_put (k : K) (v : V) (fs : list (K * V)) : list (K * V) := fs_remove k fs ++ [(k, v)].
(* os.rename(src, dst): an existing dst is REPLACED *)
Definition fs_rename (src dst : K) (fs : list (K * V)) : list (K * V) :=
  match fs_get src fs with
  | None => fs
  | Some v => fs_put dst v (fs_remove src fs)
  end.
End Fs.

Record sstate := mkS {
  s_cur : option (nat * wstate);     (* self.writer, with the index its path was built from *)
  s_written : nat;
  s_fc : nat;                        (* self.file_count *)
  s_done : list (nat * file) }.      (* parts no writer is open on any more *)

(* the files on disk: finished parts, then the part being written *)
Definition split_files (st : sstate) : list (nat * file) :=
  s_done st ++ match s_cur st with Some (i, w) => [(i, w_file w)] | None => [] end.

(* self.writer = RecordWriter(self._next_path(), **kwargs): the path is built from file_count, which is then
   incremented; opening truncates a file of that name *)
Definition split_new (k : adapter) (st : sstate) : sstate :=
  mkS (Some (s_fc st, w_init k)) (s_written st) (S (s_fc st)) (fs_remove Nat.eqb (s_fc st) (s_done st)).

Definition split_init (k : adapter) : sstate := split_new k (mkS None 0 0 []).

Definition split_flush (k : adapter) (st : sstate) : sstate * outcome :=
  match s_cur st with
  | None => (st, Ok)
  | Some (i, w) => let (w', o) := do_flush k w in (mkS (Some (i, w')) (s_written st) (s_fc st) (s_done st), o)
  end.

Definition split_close (k : adapter) (st : sstate) : sstate * outcome :=
  match s_cur st with
  | None => (st, Ok)
  | Some (i, w) =>
      let (w', o) := do_close k w in
      match o with
      | Ok => (mkS None (s_written st) (s_fc st) (fs_put Nat.eqb i (w_file w') (s_done st)), Ok)
      | Raised => (mkS (Some (i, w')) (s_written st) (s_fc st) (s_done st), Raised)
      end
  end.

Fixpoint split_roll (k : adapter) (st : sstate) (steps : list rollstep) : sstate * outcome :=
  match steps with
  | [] => (st, Ok)
  | s :: steps' =>
      let (st', o) :=
        match s with
        | RFlush => split_flush k st
        | RClose => split_close k st
        | RReset => (mkS (s_cur st) 0 (s_fc st) (s_done st), Ok)
        | RNew =>
            (* a writer that is replaced without having been closed is finalised by __del__ *)
            let st0 := match s_cur st with
                       | Some (i, w) => mkS None (s_written st) (s_fc st)
                                            (fs_put Nat.eqb i (w_file (fst (do_calls k w (sh_del sh)))) (s_done st))
                       | None => st end in
            (split_new k st0, Ok)
        end in
      match o with Ok => split_roll k st' steps' | Raised => (st', Raised) end
  end.

(* SplitWriter.__init__: is the target stdout?  (netloc, path) = urlparse(self.path) *)
Definition part_test (vals : option (list string)) (x : string) : bool :=
  match vals with None => true | Some vs => existsb (String.eqb x) vs end.
Definition split_is_stdout (netloc path : string) : bool :=
  part_test (sh_split_stdout_netloc sh) netloc && part_test (sh_split_stdout_path sh) path.

(* [stdout]: self.is_stdout -- write() then returns right after the inner write: nothing is counted, nothing rolls over,
   and _next_path returned self.path unchanged (one unsuffixed output) *)
Definition split_write (k : adapter) (count : nat) (stdout : bool) (st : sstate) (r : rec) : sstate * outcome :=
  match s_cur st with
  | None => (st, Raised)
  | Some (i, w) =>
      let (w', o) := do_write k w r in
      let st1 := mkS (Some (i, w')) (s_written st) (s_fc st) (s_done st) in
      match o with
      | Raised => (st1, Raised)
      | Ok =>
          if stdout then (st1, Ok) else
          let st2 := mkS (s_cur st1) (S (s_written st1)) (s_fc st1) (s_done st1) in
          if (if sh_split_ge sh then Nat.leb count (s_written st2) else Nat.ltb count (s_written st2))
          then split_roll k st2 (sh_split_roll sh)
          else (st2, Ok)
      end
  end.

Fixpoint split_calls (k : adapter) (st : sstate) (cs : list mcall) : sstate * outcome :=
  match cs with
  | [] => (st, Ok)
  | c :: cs' =>
      match (match c with MFlush => split_flush k st | MClose => split_close k st end) with
      | (st', Ok) => split_calls k st' cs'
      | (st', Raised) => (st', Raised)
      end
  end.

Definition split_step (k : adapter) (count : nat) (stdout : bool) (st : sstate) (o : op) : sstate * outcome :=
  match o with
  | Write r => split_write k count stdout st r
  | Flush => split_flush k st
  | Close => split_close k st
  | WithExit => split_calls k st (sh_exit sh)
  | WithExitExc => split_calls k st (sh_exit_exc sh)
  | Del => split_calls k st (sh_del sh)
  end.

Fixpoint split_run (k : adapter) (count : nat) (stdout : bool) (st : sstate) (h : list op) : sstate * list rec :=
  match h with
  | [] => (st, [])
  | o :: h' =>
      let (st', out) := split_step k count stdout st o in
      let (st'', acc) := split_run k count stdout st' h' in
      (st'', match o, out with Write r, Ok => r :: acc | _, _ => acc end)
  end.

Fixpoint split_outcomes (k : adapter) (count : nat) (stdout : bool) (st : sstate) (h : list op) : list outcome :=
  match h with
  | [] => []
  | o :: h' => let (st', out) := split_step k count stdout st o in out :: split_outcomes k count stdout st' h'
  end.

(* ------------------------------------------------------------------------------------------------ *)
(* PathTemplateWriter / RecordArchiver: the template evaluation is an input (each write comes with the path
   the template yields for that record); the clock is the list of "now" stamps still to be consumed        *)

Definition path := string.
Definition stamp := string.

Record rename_event := mkRen { ren_src : path; ren_stamp : stamp; ren_dst : path; ren_dst_existed : bool }.

Record pstate := mkP {
  p_current : option path;        (* self.current_path *)
  p_writer : option wstate;       (* self.writer (the file it is open on is p_current) *)
  p_fs : list (path * file);      (* every other file *)
  p_clock : list stamp;
  p_log : list rename_event }.    (* the RENAME lines, in order *)

Variable rot_name : path -> stamp -> nat -> path.   (* the rotated name for a counter value (0: no counter) *)

(* `counter = 0; while os.path.exists(dst): counter += 1; dst = <name with counter>`: the first free name.  The
   search is bounded by the number of files (one of that many + 1 distinct names is free). *)
Fixpoint pick_name (files : list (path * file)) (p : path) (s : stamp) (fuel n : nat) : path :=
  let c := rot_name p s n in
  if fs_mem String.eqb c files then
    match fuel with O => c | S f => pick_name files p s f (S n) end
  else c.

Definition pt_files (st : pstate) : list (path * file) :=
  p_fs st ++ match p_current st, p_writer st with Some p, Some w => [(p, w_file w)] | _, _ => [] end.

Definition pt_init (pre : list (path * file)) (clock : list stamp) : pstate := mkP None None pre clock [].

(* rotate_existing_file(path): only when the path exists; consumes one "now".  [others] = the file the old writer
   is still open on (it is not in p_fs); it only matters for recording whether the destination existed. *)
Definition pt_rotate (st : pstate) (p : path) : pstate :=
  if fs_mem String.eqb p (p_fs st) then
    let s := hd EmptyString (p_clock st) in
    let dst := if sh_rotate_counter sh then pick_name (pt_files st) p s (List.length (pt_files st)) 0
               else rot_name p s 0 in
    mkP (p_current st) (p_writer st) (fs_rename String.eqb p dst (p_fs st)) (tl (p_clock st))
        (p_log st ++ [mkRen p s dst (fs_mem String.eqb dst (pt_files st))])
  else st.

(* record_stream_for_path(path) when current_path != path:
     self.current_path = path; self.rotate_existing_file(path); rs = RecordWriter(path); self.close(); self.writer = rs
   The old writer's file is not touched by the rotation (its path differs from [p]); it is filed under its own
   path when the writer is replaced. *)
Definition pt_switch (k : adapter) (st : pstate) (p : path) : pstate :=
  let st1 := pt_rotate st p in
  let fs' :=
    match p_current st, p_writer st with
    | Some p0, Some w0 => fs_put String.eqb p0 (w_file (fst (do_close k w0))) (p_fs st1)
    | _, _ => p_fs st1
    end in
  mkP (Some p) (Some (w_init k)) (fs_remove String.eqb p fs') (p_clock st1) (p_log st1).

Definition pt_write (k : adapter) (st : pstate) (p : path) (r : rec) : pstate * outcome :=
  let st1 := match p_current st with
             | Some p0 => if String.eqb p0 p then st else pt_switch k st p
             | None => pt_switch k st p
             end in
  match p_writer st1 with
  | None => (st1, Raised)
  | Some w => let (w', o) := do_write k w r in
              (mkP (p_current st1) (Some w') (p_fs st1) (p_clock st1) (p_log st1), o)
  end.

Definition pt_close (k : adapter) (st : pstate) : pstate :=
  match p_writer st with
  | None => st
  | Some w => mkP (p_current st) (Some (fst (do_close k w))) (p_fs st) (p_clock st) (p_log st)
  end.

Inductive pop := PWrite (p : path) (r : rec) | PClose.

Fixpoint pt_run (k : adapter) (st : pstate) (h : list pop) : pstate * list outcome :=
  match h with
  | [] => (st, [])
  | PWrite p r :: h' => let (st', o) := pt_write k st p r in
                        let (st'', os) := pt_run k st' h' in (st'', o :: os)
  | PClose :: h' => let (st'', os) := pt_run k (pt_close k st) h' in (st'', Ok :: os)
  end.

(* ------------------------------------------------------------------------------------------------ *)
(* a writer on the STDOUT target ("-"): sys.stdout is a buffered file object the writer never closes.  What has
   been DELIVERED (has left the buffer) and what is still PENDING in the buffer.  Framing (stream header, Avro header)
   is not modelled here: only which records are out.  Per writer kind three observed facts (GENERATED):             *)

Definition o_deliver (st : ostate) : ostate := mkO (o_open st) [] (o_delivered st ++ o_pending st).

Section StdoutKind.
Variable os : oshape.

Definition o_write (st : ostate) (r : rec) : ostate * outcome :=
  if o_open st then
    let st1 := mkO true (o_pending st ++ [r]) (o_delivered st) in
    ((if o_write_delivers os then o_deliver st1 else st1), Ok)
  else if o_write_after_close os && negb (match o_delivered st ++ o_pending st with [] => true | _ => false end)
       then (mkO false (o_pending st ++ [r]) (o_delivered st), Ok)   (* the csv.DictWriter of the earlier records keeps sys.stdout *)
  else (st, Raised).
Definition o_flush (st : ostate) : ostate * outcome :=
  ((if o_open st && o_flush_delivers os then o_deliver st else st), Ok).      (* closed: self.fp is None, nothing *)
Definition o_close (st : ostate) : ostate * outcome :=
  if o_open st then
    let st1 := if o_close_delivers os then o_deliver st else st in
    (mkO false (o_pending st1) (o_delivered st1), Ok)                         (* stdout itself is not closed *)
  else (st, Ok).
Fixpoint o_calls (st : ostate) (cs : list mcall) : ostate * outcome :=
  match cs with
  | [] => (st, Ok)
  | c :: cs' =>
      match (match c with MFlush => o_flush st | MClose => o_close st end) with
      | (st', Ok) => o_calls st' cs'
      | (st', Raised) => (st', Raised)
      end
  end.
Definition o_step (st : ostate) (o : op) : ostate * outcome :=
  match o with
  | Write r => o_write st r
  | Flush => o_flush st
  | Close => o_close st
  | WithExit => o_calls st (sh_exit sh)
  | WithExitExc => o_calls st (sh_exit_exc sh)
  | Del => o_calls st (sh_del sh)
  end.
(* final state, the records whose write() returned normally, the outcomes, the delivered records after each operation *)
Fixpoint o_run (st : ostate) (h : list op) : ostate * list rec :=
  match h with
  | [] => (st, [])
  | o :: h' =>
      let (st', out) := o_step st o in
      let (st'', acc) := o_run st' h' in
      (st'', match o, out with Write r, Ok => r :: acc | _, _ => acc end)
  end.
Fixpoint o_trace (st : ostate) (h : list op) : list (outcome * list rec) :=
  match h with
  | [] => []
  | o :: h' => let (st', out) := o_step st o in (out, o_delivered st') :: o_trace st' h'
  end.
End StdoutKind.

End OneWriter.

(* ------------------------------------------------------------------------------------------------ *)
(* names                                                                                              *)

Open Scope string_scope.

(* str(n).rjust(w, "0") *)
Fixpoint zeros (n : nat) : string := match n with O => "" | S m => String "0"%char (zeros m) end.
Definition dec (n : N) : string := NilEmpty.string_of_uint (N.to_uint n).
Definition suffix_text (w : nat) (n : N) : string :=
  let s := dec n in zeros (w - String.length s) ++ s.

Definition la := list_ascii_of_string.
Definition sl := string_of_list_ascii.
Definition dot : ascii := "."%char.
Definition slash : ascii := "/"%char.

(* index-free helpers on reversed character lists: split at the LAST occurrence of c:
   rsplit_last c s = Some (before, after) with s = before ++ c :: after, c not in after *)
Fixpoint split_first (c : ascii) (l : list ascii) : option (list ascii * list ascii) :=
  match l with
  | [] => None
  | x :: t => if Ascii.eqb x c then Some ([], t)
              else match split_first c t with Some (a, b) => Some (x :: a, b) | None => None end
  end.
Definition rsplit_last (c : ascii) (l : list ascii) : option (list ascii * list ascii) :=
  match split_first c (rev l) with
  | Some (a, b) => Some (rev b, rev a)
  | None => None
  end.

(* pathlib (3.12) PurePath.suffix of a file NAME: from the last dot, unless that dot is first or last *)
Definition py_suffix_split (name : string) : string * string :=
  match rsplit_last dot (la name) with
  | Some (before, after) =>
      match before, after with
      | [], _ | _, [] => (name, "")
      | _, _ => (sl before, sl (dot :: after))
      end
  | None => (name, "")
  end.

(* SplitWriter._next_path on a file name: Path(name).with_suffix(f".{suffix}{path.suffix}") *)
Definition part_name (name : string) (suffix_length : nat) (i : N) : string :=
  let (stem, ext) := py_suffix_split name in
  stem ++ "." ++ suffix_text suffix_length i ++ ext.

Fixpoint is_prefix_l (a l : list ascii) : bool :=
  match a, l with
  | [], _ => true
  | x :: a', y :: l' => Ascii.eqb x y && is_prefix_l a' l'
  | _ :: _, [] => false
  end.
Definition ends_with_l (suf l : list ascii) : bool := is_prefix_l (rev suf) (rev l).
Definition ends_with (suf s : string) : bool := ends_with_l (la suf) (la s).

(* os.path.splitext on a file name *)
Definition py_splitext (name : string) : string * string :=
  match rsplit_last dot (la name) with
  | Some (before, after) =>
      if forallb (fun c => Ascii.eqb c dot) before then (name, "")
      else (sl before, sl (dot :: after))
  | None => (name, "")
  end.

(* rotate_existing_file's destination for a path "dir/fname" (dir kept as is; realpath is the identity on the
   paths the check uses): "{fname}.{stamp}.{ext}", or "{fname}.{stamp}-{counter}.{ext}" for a counter > 0, with ext = "records.gz" for that naming convention, else
   os.path.splitext's extension INCLUDING its dot *)
Definition stamp_n (s : stamp) (n : nat) : string :=
  match n with O => s | S _ => s ++ "-" ++ dec (N.of_nat n) end.
Definition rot_name_py (p : path) (s0 : stamp) (n : nat) : path :=
  let s := stamp_n s0 n in
  let (dir, fname) :=
    match rsplit_last slash (la p) with
    | Some (d, f) => (sl d ++ "/", sl f)
    | None => ("", p)
    end in
  let gz := ".records.gz" in
  if ends_with gz fname then
    dir ++ sl (firstn (String.length fname - String.length gz) (la fname)) ++ "." ++ s ++ ".records.gz"
  else
    let (f, e) := py_splitext fname in dir ++ f ++ "." ++ s ++ "." ++ e.
