From Coq Require Import List Bool String Ascii Lia.
From FR Require Import Sandbox.
Import ListNotations.
Open Scope string_scope.
Open Scope list_scope.

Section SandboxP.
Variable F : facts.
Variable truthy : obj -> bool.
Variable elems : obj -> list obj.
Variable helper_fields : obj -> list string.

(* what the sandbox permits an evaluation to do *)
Definition ev_ok (e : event) : bool :=
  match e with
  | EvCall c _ => allowed F c                    (* only exposed functions / whitelisted field-type constructors *)
  | EvGetattr _ n => negb (starts_dunder n)      (* no double-underscore attribute read *)
  | EvOp _ => true
  | EvHelperGetattr n => negb (starts_dunder n)  (* field reads done BY a whitelisted helper: no double-underscore name either *)
  end.

Definition Inv (s : st) : Prop := Forall (fun e => ev_ok e = true) (snd s).
Definition preserves (ev : st -> node -> res * st) : Prop := forall s n, Inv s -> Inv (snd (ev s n)).

Lemma Inv_emit s e : Inv s -> ev_ok e = true -> Inv (emit s e).
Proof. unfold Inv, emit. cbn [snd]. intros H He. apply Forall_app. split; [exact H|constructor; [exact He|constructor]]. Qed.

Lemma Inv_app s es : Inv s -> Forall (fun e => ev_ok e = true) es -> Inv (fst s, snd s ++ es).
Proof. unfold Inv. cbn [snd]. intros H He. apply Forall_app. split; assumption. Qed.

Lemma Inv_bind (s : st) var v : Inv s -> Inv ((var, v) :: fst s, snd s).
Proof. unfold Inv. cbn [snd]. auto. Qed.

Lemma eval_list_inv ev : preserves ev -> forall l s, Inv s -> Inv (snd (eval_list ev s l)).
Proof.
  intros Hev. induction l as [|n t IH]; intros s Hs; cbn [eval_list snd]; [exact Hs|].
  specialize (Hev s n Hs). destruct (ev s n) as [[v|e] s1]; cbn [snd] in *; [|exact Hev].
  specialize (IH s1 Hev). destruct (eval_list ev s1 t) as [[[vs|] oe] s2]; cbn [snd] in *; exact IH.
Qed.

Lemma conds_inv ev : preserves ev -> forall cs s, Inv s -> Inv (snd (conds truthy ev cs s)).
Proof.
  intros Hev. induction cs as [|c cs IH]; intros s Hs; cbn [conds snd]; [exact Hs|].
  specialize (Hev s c Hs). destruct (ev s c) as [[b|e] s1]; cbn [snd] in *; [|exact Hev].
  destruct (truthy b); [apply IH; exact Hev|exact Hev].
Qed.

Lemma loop_inv ev var ifs k : preserves ev -> (forall s, Inv s -> Inv (snd (k s))) ->
  forall vals s, Inv s -> Inv (snd (loop truthy ev var ifs k vals s)).
Proof.
  intros Hev Hk. induction vals as [|v vals IH]; intros s Hs; cbn [loop snd]; [exact Hs|].
  pose proof (conds_inv ev Hev ifs _ (Inv_bind s var v Hs)) as Hc.
  destruct (conds truthy ev ifs ((var, v) :: fst s, snd s)) as [[[e|] b] s2]; cbn [snd] in *; [exact Hc|].
  destruct b.
  - specialize (Hk s2 Hc). destruct (k s2) as [[[e|] b'] s3]; cbn [snd] in *; [exact Hk|].
    destruct b'; [exact Hk|apply IH; exact Hk].
  - apply IH. exact Hc.
Qed.

Lemma level_inv ev elt stop_on : preserves ev -> forall gens s, Inv s -> Inv (snd (level truthy elems ev elt stop_on gens s)).
Proof.
  intros Hev. induction gens as [|[[var it] ifs] gens IH]; intros s Hs; cbn [level].
  - pose proof (Hev s elt Hs) as H1. destruct (ev s elt) as [[v|e] s1]; cbn [snd] in *; exact H1.
  - pose proof (Hev s it Hs) as H1. destruct (ev s it) as [[o|e] s1]; cbn [snd] in *; [|exact H1].
    destruct o; try (apply (loop_inv ev var ifs _ Hev IH); exact H1). exact H1.
Qed.

Lemma consume_inv ev elt gens stop_on keep s : preserves ev -> Inv s -> Inv (snd (consume truthy elems ev elt gens stop_on keep s)).
Proof.
  intros Hev Hs. unfold consume. destruct (existsb _ gens); [exact Hs|].
  pose proof (level_inv ev elt stop_on Hev gens s Hs) as HL.
  destruct (level truthy elems ev elt stop_on gens s) as [[[e|] stopped] s1]; cbn [snd] in *; [exact HL|].
  destruct (stopped && keep); exact HL.
Qed.

Lemma until_dunder_ok l : Forall (fun n => starts_dunder n = false) (fst (until_dunder l)).
Proof.
  induction l as [|n t IH]; cbn [until_dunder]; [constructor|].
  destruct (starts_dunder n) eqn:D; [constructor|].
  destruct (until_dunder t) as [a b]. cbn [fst] in *. constructor; assumption.
Qed.

Lemma helper_events_ok c vs : helpers_refuse_dunder F = true ->
  Forall (fun e => ev_ok e = true) (fst (helper_events F helper_fields c vs)).
Proof.
  intros HR. unfold helper_events. destruct c; try constructor. destruct vs as [|a [|b t]]; try constructor.
  destruct (mem name (helper_names F)); [|constructor]. rewrite HR.
  pose proof (until_dunder_ok (helper_fields b)) as HU.
  destruct (until_dunder (helper_fields b)) as [ok hit]. cbn [fst] in *.
  apply Forall_forall. intros e He. apply in_map_iff in He. destruct He as (x & <- & Hx).
  cbn [ev_ok]. rewrite Forall_forall in HU. rewrite (HU x Hx). reflexivity.
Qed.

Lemma do_call_inv ev args c vs nk s : helpers_refuse_dunder F = true -> preserves ev -> allowed F c = true -> Inv s ->
  Inv (snd (do_call F truthy elems helper_fields ev args c vs nk s)).
Proof.
  intros HR Hev Hal Hs. unfold do_call.
  set (s0 := (fst s, snd s ++ [EvCall c (List.length vs + nk)] ++ fst (helper_events F helper_fields c vs))).
  assert (H0 : Inv s0).
  { apply Inv_app; [exact Hs|]. constructor; [exact Hal|apply helper_events_ok; exact HR]. }
  destruct (snd (helper_events F helper_fields c vs)); [exact H0|].
  destruct c; try exact H0.
  destruct args as [|a [|a2 args]]; try exact H0.
  2: { destruct a; exact H0. }
  destruct a; try exact H0.
  destruct (String.eqb name "any" || String.eqb name "all"); [|exact H0].
  match goal with |- context [consume ?t ?e ?v ?el ?g ?so ?k ?s] =>
    pose proof (consume_inv ev el g so k s Hev H0) as HL; destruct (consume t e v el g so k s) as [[[e'|] b] s1] end;
    cbn [snd] in *; exact HL.
Qed.

(* the evaluator (with the identity guard) never does anything the sandbox forbids, whatever the expression *)
Theorem eval_preserves : guard_by_identity F = true -> helpers_refuse_dunder F = true ->
  forall fuel, preserves (eval F truthy elems helper_fields fuel).
Proof.
  intros G HR. induction fuel as [|f IH]; intros s n Hs; [exact Hs|].
  cbn [eval]. set (ev := eval F truthy elems helper_fields f) in *.
  destruct n.
  - exact Hs.
  - pose proof (eval_list_inv ev IH l s Hs) as H. destruct (eval_list ev s l) as [[[vs|] [e|]] s1]; cbn [snd] in *; exact H.
  - pose proof (eval_list_inv ev IH l s Hs) as H. destruct (eval_list ev s l) as [[[vs|] [e|]] s1]; cbn [snd] in *; exact H.
  - destruct (ns_get (fst s) id); [exact Hs|]. destruct (in_tree F [id]); exact Hs.
  - destruct (starts_dunder attr) eqn:D; [exact Hs|].
    specialize (IH s n Hs). destruct (ev s n) as [[o|e] s1]; cbn [snd] in *; [|exact IH].
    apply Inv_emit; [exact IH|]. cbn [ev_ok]. rewrite D. reflexivity.
  - pose proof (eval_list_inv ev IH vals s Hs) as H. destruct (eval_list ev s vals) as [[[vs|] [e|]] s1]; cbn [snd] in *; try exact H;
    (apply Inv_app; [exact H|]; apply Forall_app; split; [|constructor; [reflexivity|constructor]];
     apply Forall_forall; intros e0 He; apply in_map_iff in He; destruct He as (x & <- & _); reflexivity).
  - destruct known_op; [|exact Hs].
    pose proof (IH s n1 Hs) as H1. destruct (ev s n1) as [[a|e] s1]; cbn [snd] in *; [|exact H1].
    pose proof (IH s1 n2 H1) as H2. destruct (ev s1 n2) as [[b|e] s2]; cbn [snd] in *; [|exact H2].
    destruct a; destruct b; try exact H2; (apply Inv_emit; [exact H2|reflexivity]).
  - destruct known_op; [|exact Hs].
    pose proof (IH s n Hs) as H1. destruct (ev s n) as [[a|e] s1]; cbn [snd] in *; [|exact H1].
    apply Inv_emit; [exact H1|reflexivity].
  - pose proof (IH s n Hs) as H1. destruct (ev s n) as [[a|e] s1]; cbn [snd] in *; [|exact H1].
    generalize (OConst true) as last. generalize (@nil string) as pend. revert a s1 H1.
    induction comps as [|[is_in cn] comps IHc]; intros a s1 H1 pend last; [exact H1|].
    pose proof (IH s1 cn H1) as H2. destruct (ev s1 cn) as [[b|e] s2]; cbn [snd] in *; [|exact H2].
    assert (HC : Inv (snd (match is_in, cn, a with
                           | true, NGen elt gens, OMissing => (None, false, s2)
                           | true, NGen elt gens, _ => consume truthy elems ev elt gens (fun v => truthy (OOp [v; a])) true s2
                           | _, _, _ => (None, false, s2)
                           end))).
    { destruct is_in; [|exact H2]. destruct cn; try exact H2. destruct a; try exact H2; apply consume_inv; assumption. }
    destruct (match is_in, cn, a with
              | true, NGen elt gens, OMissing => (None, false, s2)
              | true, NGen elt gens, _ => consume truthy elems ev elt gens (fun v => truthy (OOp [v; a])) true s2
              | _, _, _ => (None, false, s2)
              end) as [[[e'|] b'] s2']; cbn [snd] in HC; [exact HC|].
    assert (H3 : Inv (emit s2' (EvOp [a; b]))) by (apply Inv_emit; [exact HC|reflexivity]).
    destruct (truthy (OOp [a; b])); [apply IHc; exact H3|exact H3].
  - (* NCall *)
    destruct n; try exact Hs; rewrite G.
    + (* NName callee *)
      pose proof (IH s (NName id) Hs) as H1.
      destruct (ev s (NName id)) as [[c|e] s1]; cbn [snd] in *; [|destruct e; exact H1].
      destruct (allowed F c) eqn:Al; [|exact H1].
      pose proof (eval_list_inv ev IH args s1 H1) as H2.
      destruct (eval_list ev s1 args) as [[[vs|] [e|]] s2]; cbn [snd] in *; try exact H2;
      pose proof (eval_list_inv ev IH (map snd kwargs) s2 H2) as H3;
      destruct (eval_list ev s2 (map snd kwargs)) as [[[ks|] [e'|]] s3]; cbn [snd] in *; try exact H3;
      apply do_call_inv; assumption.
    + pose proof (IH s (NAttr n attr) Hs) as H1.
      destruct (ev s (NAttr n attr)) as [[c|e] s1]; cbn [snd] in *; [|destruct e; exact H1].
      destruct (allowed F c) eqn:Al; [|exact H1].
      pose proof (eval_list_inv ev IH args s1 H1) as H2.
      destruct (eval_list ev s1 args) as [[[vs|] [e|]] s2]; cbn [snd] in *; try exact H2;
      pose proof (eval_list_inv ev IH (map snd kwargs) s2 H2) as H3;
      destruct (eval_list ev s2 (map snd kwargs)) as [[[ks|] [e'|]] s3]; cbn [snd] in *; try exact H3;
      apply do_call_inv; assumption.
  - exact Hs.
  - exact Hs.
Qed.

End SandboxP.

Lemma mem_In s l : mem s l = true -> In s l.
Proof.
  unfold mem. rewrite existsb_exists. intros (x & Hx & E). apply String.eqb_eq in E. subst. exact Hx.
Qed.

Lemma list_eqb_eq a : forall b, list_eqb a b = true -> a = b.
Proof.
  induction a as [|x a IH]; intros [|y b] H; try discriminate; [reflexivity|].
  cbn in H. apply andb_prop in H. destruct H as [H1 H2]. apply String.eqb_eq in H1. subst. f_equal. apply IH. exact H2.
Qed.

Lemma allowed_spec (F : facts) o : allowed F o = true ->
  (exists n, o = OFun n /\ In n (exposed_callables F)) \/ (exists p, o = OMod p /\ In p (whitelist F)).
Proof.
  destruct o; cbn [allowed]; try discriminate.
  - intros H. left. exists name. split; [reflexivity|apply mem_In; exact H].
  - intros H. right. exists path. split; [reflexivity|]. unfold in_whitelist in H. rewrite existsb_exists in H.
    destruct H as (x & Hx & E). apply list_eqb_eq in E. subst. exact Hx.
Qed.
