From Coq Require Import List Bool NArith ZArith Lia.
From Coq Require Import Init.Byte.
From FR Require Import Bytes Msgpack Packer Stream Values_proofs Roundtrip_proofs.
Import ListNotations.
Open Scope Z_scope.

Section Registry.
Variable c : cfg.
Variable HASH : desc -> Z.

Lemma write_bodies_shape st it :
  let v := visit_item c HASH (w_reg st) it in
  snd (write_bodies c HASH st it) =
    (if w_header st then [] else [header_body c]) ++
    map (fun d => body_of c (pack_desc c d)) (fst v) ++ [body_of c (pack_item c HASH it)]
  /\ w_reg (fst (write_bodies c HASH st it)) = fold_left (reg_add HASH) (fst v) (w_reg st).
Proof.
  cbn zeta. unfold write_bodies.
  pose proof (visit_item_reg c HASH (w_reg st) it) as E.
  destruct (visit_item c HASH (w_reg st) it) as [ds reg']. cbn [fst snd w_reg] in *.
  split; [reflexivity|exact E].
Qed.

Lemma desc_eqb_refl d : desc_eqb d d = true.
Proof.
  destruct d as [n fs]. unfold desc_eqb. cbn [d_name d_fields]. rewrite (proj2 (bytes_eqb_eq n n) eq_refl). cbn [andb].
  induction fs as [|[t nm] fs IH]; [reflexivity|].
  rewrite (proj2 (bytes_eqb_eq t t) eq_refl), (proj2 (bytes_eqb_eq nm nm) eq_refl). cbn [andb]. exact IH.
Qed.

Lemma known_after_visit acc d : GUARD_COMPARES_DESC c = true ->
  known c HASH (snd (visit_desc c HASH acc d)) d = true.
Proof.
  intros G. destruct acc as [out reg]. unfold visit_desc.
  destruct (known c HASH reg d) eqn:K; cbn [snd]; [exact K|].
  unfold known, reg_add. cbn [reg_find].
  rewrite (proj2 (bytes_eqb_eq _ _) eq_refl), Z.eqb_refl. cbn [andb]. rewrite G. apply desc_eqb_refl.
Qed.

Lemma run_two_projections s1 s2 (h : list (bool * item)) :
  fst (run_two c HASH s1 s2 h) = write_all_bodies c HASH s1 (map snd (filter (fun x => fst x) h)) /\
  snd (run_two c HASH s1 s2 h) = write_all_bodies c HASH s2 (map snd (filter (fun x => negb (fst x)) h)).
Proof.
  revert s1 s2. induction h as [|[[|] it] t IH]; intros s1 s2; [split; reflexivity| |].
  - cbn [run_two filter fst snd negb map write_all_bodies].
    destruct (write_bodies c HASH s1 it) as [s1' b]. specialize (IH s1' s2).
    destruct (run_two c HASH s1' s2 t) as [o1 o2]. cbn [fst snd] in *. destruct IH as [I1 I2]. rewrite I1, I2. split; reflexivity.
  - cbn [run_two filter fst snd negb map write_all_bodies].
    destruct (write_bodies c HASH s2 it) as [s2' b]. specialize (IH s1 s2').
    destruct (run_two c HASH s1 s2' t) as [o1 o2]. cbn [fst snd] in *. destruct IH as [I1 I2]. rewrite I1, I2. split; reflexivity.
Qed.

End Registry.

(* compatibility rules of the reader for record payloads *)
Lemma fit_trims n (vals extras : list xv) v : List.length vals = (n - 1)%nat -> (1 <= n)%nat -> extras <> [] ->
  fit true n (vals ++ extras ++ [v]) = Some (vals ++ [v]).
Proof.
  intros Hl Hn He. unfold fit. rewrite !app_length. cbn [List.length].
  destruct extras as [|e es]; [contradiction|]. cbn [List.length].
  destruct (Nat.ltb_spec n (List.length vals + (S (List.length es) + 1))) as [_|H]; [|lia].
  rewrite <- Hl. rewrite firstn_app, Nat.sub_diag, firstn_O, app_nil_r, firstn_all.
  rewrite app_assoc, last_last. reflexivity.
Qed.

Lemma fit_pads n (vs : list xv) : (List.length vs <= n)%nat ->
  fit true n vs = Some (vs ++ repeat XNil (n - List.length vs)).
Proof. intros H. unfold fit. destruct (Nat.ltb_spec n (List.length vs)); [lia|reflexivity]. Qed.
