(* Proofs about model/Coerce.v.  The generated facts enter through [facts_ok] (a computed side condition),
   the runtime through [env_ok]. *)
From Coq Require Import List Bool ZArith NArith String Lia ZifyBool.
From Coq Require Import Init.Byte.
From FR Require Import Bytes Coerce.
Import ListNotations.
Open Scope Z_scope.

(* ------------------------------------------------------------------------------------------ *)
(* what the proofs need from the generated facts                                               *)

Definition bound_is (b : bound) (lo hi : Z) : bool :=
  match b_lo_op b, b_hi_op b with
  | LoLt, HiGt => (b_lo b =? lo) && (b_hi b =? hi)
  | _, _ => false
  end.

Definition digest_len_ok (F : facts) : bool :=
  let '(a, b, c) := f_digest_len F in (a =? 16) && (b =? 20) && (c =? 32).

Definition facts_ok (F : facts) : bool :=
  bound_is (f_uint16 F) 0 65535 && bound_is (f_uint32 F) 0 4294967295 && bound_is (f_boolean F) 0 1
  && f_bytes_isinstance F && f_str_decodes_bytes F && digest_len_ok F
  && f_sa_guard_none F && f_sa_convert_before_store F && f_tl_convert F && f_dt_final_utc F
  && f_uint_integral F && negb (f_uint_keeps_arg F) && f_bool_integral F && negb (f_digest_else_empty F)
  && f_grouped_delegates F && f_tl_elem_class F.

(* the facts of the code before the three repairs (used to show that each repaired test is load-bearing) *)
Definition without_uint_fix (F : facts) : facts :=
  {| f_uint16 := f_uint16 F; f_uint32 := f_uint32 F; f_boolean := f_boolean F; f_uint_integral := false;
     f_bool_integral := f_bool_integral F; f_uint_keeps_arg := true; f_bytes_isinstance := f_bytes_isinstance F;
     f_str_decodes_bytes := f_str_decodes_bytes F; f_digest_len := f_digest_len F;
     f_digest_else_empty := f_digest_else_empty F; f_sa_guard_none := f_sa_guard_none F;
     f_sa_convert_before_store := f_sa_convert_before_store F; f_tl_convert := f_tl_convert F;
     f_tl_falsy_empty := f_tl_falsy_empty F; f_dt_arg_utc := f_dt_arg_utc F; f_dt_final_utc := f_dt_final_utc F;
     f_grouped_delegates := f_grouped_delegates F; f_tl_elem_class := f_tl_elem_class F |}.
Definition without_boolean_fix (F : facts) : facts :=
  {| f_uint16 := f_uint16 F; f_uint32 := f_uint32 F; f_boolean := f_boolean F; f_uint_integral := f_uint_integral F;
     f_bool_integral := false; f_uint_keeps_arg := f_uint_keeps_arg F; f_bytes_isinstance := f_bytes_isinstance F;
     f_str_decodes_bytes := f_str_decodes_bytes F; f_digest_len := f_digest_len F;
     f_digest_else_empty := f_digest_else_empty F; f_sa_guard_none := f_sa_guard_none F;
     f_sa_convert_before_store := f_sa_convert_before_store F; f_tl_convert := f_tl_convert F;
     f_tl_falsy_empty := f_tl_falsy_empty F; f_dt_arg_utc := f_dt_arg_utc F; f_dt_final_utc := f_dt_final_utc F;
     f_grouped_delegates := f_grouped_delegates F; f_tl_elem_class := f_tl_elem_class F |}.
Definition without_digest_fix (F : facts) : facts :=
  {| f_uint16 := f_uint16 F; f_uint32 := f_uint32 F; f_boolean := f_boolean F; f_uint_integral := f_uint_integral F;
     f_bool_integral := f_bool_integral F; f_uint_keeps_arg := f_uint_keeps_arg F; f_bytes_isinstance := f_bytes_isinstance F;
     f_str_decodes_bytes := f_str_decodes_bytes F; f_digest_len := f_digest_len F;
     f_digest_else_empty := true; f_sa_guard_none := f_sa_guard_none F;
     f_sa_convert_before_store := f_sa_convert_before_store F; f_tl_convert := f_tl_convert F;
     f_tl_falsy_empty := f_tl_falsy_empty F; f_dt_arg_utc := f_dt_arg_utc F; f_dt_final_utc := f_dt_final_utc F;
     f_grouped_delegates := f_grouped_delegates F; f_tl_elem_class := f_tl_elem_class F |}.

Definition is_container (v : pv) : bool := match v with PList _ | PTuple _ | PDict _ => true | _ => false end.

(* what the proofs need from the runtime: ip_address answers an address of a known family in range, and
   iterating text / bytes yields characters / integers *)
Definition is_flat (v : pv) : bool := match v with PStr _ _ | PInt _ => true | _ => false end.

Definition ip_wf (a : Z * Z) : bool :=
  let (v, n) := a in ((v =? 4) && (0 <=? n) && (n <? 2 ^ 32)) || ((v =? 6) && (0 <=? n) && (n <? 2 ^ 128)).

Definition env_ok (E : env) : Prop :=
  (forall v a, e_ip E v = Some a -> ip_wf a = true) /\
  (forall v l, e_iter E v = Some l -> forallb is_flat l = true).

Definition env0 : env :=
  {| e_str := fun _ => ([], false); e_int := fun _ => None; e_float := fun _ => None; e_ip := fun _ => None;
     e_net := fun _ => None; e_dt := fun _ => None; e_uri := fun _ => true; e_path := fun _ => ([], false);
     e_cmd := fun _ => None; e_iter := fun _ => None |}.

Lemma env0_ok : env_ok env0.
Proof. split; intros; discriminate. Qed.

(* hypotheses on the values handed to the operations: outside the known-finding classes (cand_ok), None always *)
Definition arg_ok (t : ftype) (v : pv) : bool := is_none v || cand_ok t v.

Fixpoint args_ok (ts : list ftype) (args : list pv) : bool :=
  match ts, args with
  | t :: ts', a :: args' => arg_ok t a && args_ok ts' args'
  | _, _ => true
  end.

Definition op_ok (ts : list ftype) (o : op) : bool :=
  match o with
  | OSet i v | OSetGrouped i v => match nth_error ts i with Some t => arg_ok t v | None => true end
  | OConstruct args => args_ok ts args
  | OReplace kvs => forallb (fun kv => match nth_error ts (fst kv) with Some t => arg_ok t (snd kv) | None => true end) kvs
  end.

(* ------------------------------------------------------------------------------------------ *)
(* induction over candidate values                                                             *)

Section PvInd.
  Variable P : pv -> Prop.
  Hypothesis HNone : P PNone.
  Hypothesis HBool : forall b, P (PBool b).
  Hypothesis HInt : forall z, P (PInt z).
  Hypothesis HFloat : forall b c, P (PFloat b c).
  Hypothesis HStr : forall s l, P (PStr s l).
  Hypothesis HBytes : forall b, P (PBytes b).
  Hypothesis HList : forall l, Forall P l -> P (PList l).
  Hypothesis HTuple : forall l, Forall P l -> P (PTuple l).
  Hypothesis HDict : forall kvs, Forall (fun kv => P (fst kv)) kvs -> P (PDict kvs).
  Hypothesis HDt : forall w o, P (PDatetime w o).
  Hypothesis HPath : forall w t, P (PPath w t).
  Hypothesis HRec : forall i, P (PRecord i).
  Hypothesis HOther : forall i, P (POther i).
  Definition elems_P (p : pv) : Prop := match p with PList l | PTuple l => Forall P l | _ => True end.
  Hypothesis HTyped : forall c p, P p -> elems_P p -> P (PTyped c p).

  Fixpoint pv_ind2 (v : pv) : P v :=
    match v with
    | PNone => HNone | PBool b => HBool b | PInt z => HInt z | PFloat b c => HFloat b c
    | PStr s l => HStr s l | PBytes b => HBytes b
    | PList l => HList l ((fix go (l : list pv) : Forall P l :=
                             match l with [] => Forall_nil _ | x :: r => Forall_cons _ (pv_ind2 x) (go r) end) l)
    | PTuple l => HTuple l ((fix go (l : list pv) : Forall P l :=
                               match l with [] => Forall_nil _ | x :: r => Forall_cons _ (pv_ind2 x) (go r) end) l)
    | PDict kvs => HDict kvs ((fix go (l : list (pv * pv)) : Forall (fun kv => P (fst kv)) l :=
                                 match l with
                                 | [] => Forall_nil _
                                 | kv :: r => Forall_cons _ (pv_ind2 (fst kv)) (go r)
                                 end) kvs)
    | PDatetime w o => HDt w o | PPath w t => HPath w t | PRecord i => HRec i | POther i => HOther i
    | PTyped c p =>
        HTyped c p (pv_ind2 p)
          (match p as p0 return elems_P p0 with
           | PList l => (fix go (l : list pv) : Forall P l :=
                           match l with [] => Forall_nil _ | x :: r => Forall_cons _ (pv_ind2 x) (go r) end) l
           | PTuple l => (fix go (l : list pv) : Forall P l :=
                            match l with [] => Forall_nil _ | x :: r => Forall_cons _ (pv_ind2 x) (go r) end) l
           | _ => I
           end)
    end.
End PvInd.

(* ------------------------------------------------------------------------------------------ *)
(* small facts                                                                                 *)

Lemma ftype_eqb_eq a : forall b, ftype_eqb a b = true -> a = b.
Proof.
  induction a; intros b H; destruct b; cbn in H; try discriminate; try reflexivity.
  f_equal. apply IHa. exact H.
Qed.

Lemma ftype_eqb_refl a : ftype_eqb a a = true.
Proof. induction a; cbn; auto. Qed.

Section MapResP.
  Context {A B : Type}.
  Variable f : A -> result B.

  Lemma map_res_Forall2 l : forall ss, map_res f l = Ok ss -> Forall2 (fun x s => f x = Ok s) l ss.
  Proof.
    induction l as [|x l IH]; intros ss H; cbn in H.
    - inversion H. constructor.
    - destruct (f x) as [y|e] eqn:Ex; [|discriminate].
      destruct (map_res f l) as [ys|e] eqn:El; [|discriminate].
      inversion H; subst. constructor; [exact Ex|apply IH; reflexivity].
  Qed.

  Lemma map_res_raises l x e : In x l -> f x = Raise e -> exists e', map_res f l = Raise e'.
  Proof.
    induction l as [|y l IH]; intros Hin Hx; [destruct Hin|].
    cbn. destruct Hin as [->|Hin].
    - rewrite Hx. eauto.
    - destruct (f y) as [b|e1]; [|eauto]. destruct (IH Hin Hx) as [e' ->]. eauto.
  Qed.
End MapResP.

Lemma bound_is_inv b lo hi : bound_is b lo hi = true ->
  forall n, out_of_range b n = num_lt n lo || num_gt n hi.
Proof.
  unfold bound_is, out_of_range. destruct (b_lo_op b), (b_hi_op b); try discriminate.
  intros H n. apply andb_prop in H. destruct H as [H1 H2].
  apply Z.eqb_eq in H1. apply Z.eqb_eq in H2. rewrite H1, H2. reflexivity.
Qed.

Lemma out_of_range_Z b lo hi z : bound_is b lo hi = true ->
  out_of_range b (NZ z) = negb ((lo <=? z) && (z <=? hi)).
Proof. intros H. rewrite (bound_is_inv _ _ _ H). cbn. lia. Qed.

(* out of the specification's range = the code's test fires, for every number that is not NaN *)
Lemma out_of_range_spec b lo hi n : bound_is b lo hi = true -> n <> NF FNan ->
  out_of_range b n = negb (spec_in_range lo hi n).
Proof.
  intros H Hn. rewrite (bound_is_inv _ _ _ H). unfold spec_in_range.
  destruct n as [z|[fl i| |neg]]; cbn; try lia; try congruence.
Qed.

Lemma facts_ok_inv F : facts_ok F = true ->
  bound_is (f_uint16 F) 0 65535 = true /\ bound_is (f_uint32 F) 0 4294967295 = true /\
  bound_is (f_boolean F) 0 1 = true /\ f_bytes_isinstance F = true /\ f_str_decodes_bytes F = true /\
  digest_len_ok F = true /\ f_sa_guard_none F = true /\ f_sa_convert_before_store F = true /\
  f_tl_convert F = true /\ f_dt_final_utc F = true /\ f_uint_integral F = true /\ f_uint_keeps_arg F = false /\
  f_bool_integral F = true /\ f_digest_else_empty F = false /\ f_grouped_delegates F = true /\
  f_tl_elem_class F = true.
Proof.
  unfold facts_ok. intros H.
  repeat (apply andb_prop in H; destruct H as [H ?]).
  repeat match goal with X : negb _ = true |- _ => apply negb_true_iff in X end.
  repeat split; assumption.
Qed.

Lemma unbe_lt_Z (b : bytes) (k : nat) : List.length b = k -> Z.of_N (unbe b) < 256 ^ Z.of_nat k.
Proof.
  intros <-. pose proof (unbe_bound b) as H.
  assert (E : (256 ^ N.of_nat (List.length b))%N = Z.to_N (256 ^ Z.of_nat (List.length b))).
  { rewrite Z2N.inj_pow by lia. f_equal. lia. }
  rewrite E in H. lia.
Qed.

(* ------------------------------------------------------------------------------------------ *)
(* the main development, for facts and a runtime that satisfy the side conditions              *)

Section Main.
Variable F : facts.
Variable E : env.
Hypothesis HF : facts_ok F = true.
Hypothesis HE : env_ok E.

Lemma H16 : bound_is (f_uint16 F) 0 65535 = true.      Proof. apply (facts_ok_inv F HF). Qed.
Lemma H32 : bound_is (f_uint32 F) 0 4294967295 = true. Proof. apply (facts_ok_inv F HF). Qed.
Lemma HB : bound_is (f_boolean F) 0 1 = true.          Proof. apply (facts_ok_inv F HF). Qed.

Lemma F_bytes : f_bytes_isinstance F = true.   Proof. apply (facts_ok_inv F HF). Qed.
Lemma F_str : f_str_decodes_bytes F = true.     Proof. apply (facts_ok_inv F HF). Qed.
Lemma F_digest : f_digest_len F = (16, 20, 32).
Proof.
  pose proof (facts_ok_inv F HF) as (_ & _ & _ & _ & _ & H & _). unfold digest_len_ok in H.
  destruct (f_digest_len F) as [[a b] c]. repeat (apply andb_prop in H; destruct H as [H ?]).
  f_equal; [f_equal|]; lia.
Qed.
Lemma F_none : f_sa_guard_none F = true.        Proof. apply (facts_ok_inv F HF). Qed.
Lemma F_store : f_sa_convert_before_store F = true. Proof. apply (facts_ok_inv F HF). Qed.
Lemma F_tl : f_tl_convert F = true.             Proof. apply (facts_ok_inv F HF). Qed.
Lemma F_dt : f_dt_final_utc F = true.           Proof. apply (facts_ok_inv F HF). Qed.
Lemma F_uint_int : f_uint_integral F = true.    Proof. apply (facts_ok_inv F HF). Qed.
Lemma F_keeps : f_uint_keeps_arg F = false.     Proof. apply (facts_ok_inv F HF). Qed.
Lemma F_bool_int : f_bool_integral F = true.    Proof. apply (facts_ok_inv F HF). Qed.
Lemma F_digest_else : f_digest_else_empty F = false. Proof. apply (facts_ok_inv F HF). Qed.
Lemma F_grouped : f_grouped_delegates F = true. Proof. apply (facts_ok_inv F HF). Qed.

(* ---- unsigned integers and booleans ---- *)

Lemma co_uint_int b max z : bound_is b 0 max = true ->
  co_uint F E b (PInt z) = if (0 <=? z) && (z <=? max) then Ok (SUInt z (UInt z)) else Raise EValueError.
Proof.
  intros Hb. unfold co_uint. cbn. rewrite (out_of_range_Z _ _ _ z Hb). rewrite andb_false_r.
  unfold uval_of. destruct ((0 <=? z) && (z <=? max)); cbn; [|reflexivity].
  destruct (f_uint_keeps_arg F); reflexivity.
Qed.

Lemma co_uint_sound b max v s : bound_is b 0 max = true ->
  co_uint F E b v = Ok s -> exists obj, s = SUInt obj (UInt obj) /\ 0 <= obj <= max.
Proof.
  intros Hb H. unfold co_uint, uval_of in H. rewrite F_keeps, F_uint_int in H.
  destruct v; cbn in H; try discriminate; try (destruct (e_int E _); cbn in H; discriminate).
  - rewrite (out_of_range_Z _ _ _ _ Hb) in H.
    destruct ((0 <=? Z_of_bool b0) && (Z_of_bool b0 <=? max)) eqn:R; cbn in H; [|discriminate].
    inversion H; subst. eexists. split; [reflexivity|lia].
  - rewrite (out_of_range_Z _ _ _ _ Hb) in H.
    destruct ((0 <=? z) && (z <=? max)) eqn:R; cbn in H; [|discriminate].
    inversion H; subst. eexists. split; [reflexivity|lia].
  - destruct c as [fl i| |neg]; cbn in H; try discriminate.
    rewrite (bound_is_inv _ _ _ Hb) in H. cbn in H.
    destruct ((fl <? 0) || ((max <? fl) || (fl =? max) && negb i)) eqn:R; [discriminate|].
    destruct i; cbn in H; [|discriminate]. inversion H; subst. eexists. split; [reflexivity|].
    unfold trunc. rewrite andb_false_r. cbn in R. lia.
Qed.

Lemma co_boolean_sound v s : co_boolean F E v = Ok s -> exists obj b, s = SBool obj b /\ obj = Z_of_bool b.
Proof.
  intros H. unfold co_boolean in H. rewrite F_bool_int in H.
  destruct v; cbn in H; try discriminate; try (destruct (e_int E _); cbn in H; discriminate).
  - rewrite (bound_is_inv _ _ _ HB) in H. cbn in H. rewrite orb_false_r in H.
    destruct ((Z_of_bool b <? 0) || (1 <? Z_of_bool b)) eqn:R; [discriminate|].
    inversion H; subst. eexists _, _. split; [reflexivity|]. destruct b; reflexivity.
  - rewrite (bound_is_inv _ _ _ HB) in H. cbn in H. rewrite orb_false_r in H.
    destruct ((z <? 0) || (1 <? z)) eqn:R; [discriminate|].
    inversion H; subst. eexists _, _. split; [reflexivity|].
    assert (z = 0 \/ z = 1) as [-> | ->] by lia; reflexivity.
  - destruct c as [fl i| |neg]; cbn in H; try discriminate.
    rewrite (bound_is_inv _ _ _ HB) in H. cbn in H.
    destruct i; cbn in H; [|rewrite orb_true_r in H; discriminate]. rewrite orb_false_r in H.
    destruct ((fl <? 0) || ((1 <? fl) || (fl =? 1) && false)) eqn:R; [discriminate|].
    inversion H; subst. eexists _, _. split; [reflexivity|].
    unfold trunc. rewrite andb_false_r.
    assert (fl = 0 \/ fl = 1) as [-> | ->] by lia; reflexivity.
Qed.

(* ---- digests ---- *)

Lemma digest_field_ok len v o : digest_field len v = Ok o -> opt_len_ok len o = true /\ hex_ok len v = true.
Proof.
  unfold digest_field, hex_ok. destruct v; try discriminate.
  - intros H; inversion H; split; reflexivity.
  - destruct lone; [discriminate|]. destruct (is_ascii enc); [|discriminate].
    destruct (a2b_hex enc) as [b|]; [|discriminate].
    destruct (zlen b =? len) eqn:L; [|discriminate]. intros H; inversion H; subst. cbn. rewrite L. split; reflexivity.
  - destruct (a2b_hex b) as [x|]; [|discriminate].
    destruct (zlen x =? len) eqn:L; [|discriminate]. intros H; inversion H; subst. cbn. rewrite L. split; reflexivity.
Qed.

Lemma digest_field_bad len v : hex_ok len v = false -> exists e, digest_field len v = Raise e.
Proof.
  unfold digest_field, hex_ok. destruct v; try discriminate; eauto.
  - destruct lone; [eauto|]. destruct (is_ascii enc); [|eauto].
    destruct (a2b_hex enc) as [b|]; [|eauto]. destruct (zlen b =? len); [discriminate|eauto].
  - destruct (a2b_hex b) as [x|]; [|eauto]. destruct (zlen x =? len); [discriminate|eauto].
Qed.

Lemma digest3_sound a b c s : digest3 F a b c = Ok s ->
  exists x y z, s = SDigest x y z /\ opt_len_ok 16 x = true /\ opt_len_ok 20 y = true /\ opt_len_ok 32 z = true.
Proof.
  unfold digest3. rewrite F_digest. unfold bind.
  destruct (digest_field 16 a) as [x|] eqn:Ea; [|discriminate].
  destruct (digest_field 20 b) as [y|] eqn:Eb; [|discriminate].
  destruct (digest_field 32 c) as [z|] eqn:Ec; [|discriminate].
  intros H; inversion H; subst. exists x, y, z.
  repeat split; [apply (digest_field_ok _ _ _ Ea)|apply (digest_field_ok _ _ _ Eb)|apply (digest_field_ok _ _ _ Ec)].
Qed.

Lemma digest3_bad a b c : hex_ok 16 a && hex_ok 20 b && hex_ok 32 c = false -> exists e, digest3 F a b c = Raise e.
Proof.
  intros H. unfold digest3. rewrite F_digest. unfold bind.
  destruct (digest_field 16 a) as [x|] eqn:Ea; [|eauto].
  destruct (digest_field 20 b) as [y|] eqn:Eb; [|eauto].
  destruct (digest_field 32 c) as [z|] eqn:Ec; [|eauto].
  apply digest_field_ok in Ea, Eb, Ec. destruct Ea as [_ Ha], Eb as [_ Hb], Ec as [_ Hc].
  rewrite Ha, Hb, Hc in H. discriminate.
Qed.

Lemma co_digest_sound v s : co_digest F v = Ok s -> has_type TDigest s = true.
Proof.
  assert (G : forall a b c, digest3 F a b c = Ok s -> has_type TDigest s = true).
  { intros a b c H. apply digest3_sound in H. destruct H as (x & y & z & -> & Hx & Hy & Hz). cbn. rewrite Hx, Hy, Hz. reflexivity. }
  unfold co_digest. destruct v; try (destruct (f_digest_else_empty F); intros H; inversion H; reflexivity).
  - destruct l as [|a [|b [|c [|]]]]; try discriminate. apply G.
  - destruct l as [|a [|b [|c [|]]]]; try discriminate. apply G.
  - apply G.
Qed.

(* ---- addresses ---- *)

Lemma ip_of_int_sound z s : ip_of_int z = Ok s -> has_type TIpAddress s = true.
Proof.
  unfold ip_of_int. destruct ((0 <=? z) && (z <? 2 ^ 32)) eqn:A.
  - intros H; inversion H; subst. cbn [has_type]. lia.
  - destruct ((0 <=? z) && (z <? 2 ^ 128)) eqn:B; [|discriminate].
    intros H; inversion H; subst. cbn [has_type]. lia.
Qed.

Lemma co_ipaddress_sound v s : co_ipaddress E v = Ok s -> has_type TIpAddress s = true.
Proof.
  assert (G : forall v, match e_ip E v with Some (f, n) => Ok (SIp f n) | None => Raise EValueError end = Ok s ->
                        has_type TIpAddress s = true).
  { intros v0 H. destruct (e_ip E v0) as [[f n]|] eqn:Ei; [|discriminate]. inversion H; subst.
    apply (proj1 HE) in Ei. exact Ei. }
  unfold co_ipaddress. destruct v; try apply G.
  - apply ip_of_int_sound.
  - apply ip_of_int_sound.
  - destruct (zlen b =? 4) eqn:L4.
    + intros H; inversion H; subst. cbn [has_type].
      pose proof (unbe_lt_Z b 4) as Hb. unfold zlen in L4.
      assert (Hl : List.length b = 4%nat) by lia. specialize (Hb Hl).
      change (256 ^ Z.of_nat 4) with (2 ^ 32) in Hb.
      assert (0 <= Z.of_N (unbe b)) by lia.
      replace (4 =? 4) with true by reflexivity.
      assert ((0 <=? Z.of_N (unbe b)) = true) as -> by lia.
      assert ((Z.of_N (unbe b) <? 2 ^ 32) = true) as -> by lia. reflexivity.
    + destruct (zlen b =? 16) eqn:L16; [|discriminate].
      intros H; inversion H; subst. cbn [has_type].
      pose proof (unbe_lt_Z b 16) as Hb. unfold zlen in L16.
      assert (Hl : List.length b = 16%nat) by lia. specialize (Hb Hl).
      change (256 ^ Z.of_nat 16) with (2 ^ 128) in Hb.
      replace (6 =? 4) with false by reflexivity. replace (6 =? 6) with true by reflexivity.
      assert ((0 <=? Z.of_N (unbe b)) = true) as -> by lia.
      assert ((Z.of_N (unbe b) <? 2 ^ 128) = true) as -> by lia. reflexivity.
Qed.

(* ---- every scalar type ---- *)

Definition plain (v : pv) : bool := match v with PTyped _ _ => false | _ => true end.
Definition scalar_t (t : ftype) : bool := match t with TList _ | TDynamic => false | _ => true end.

Lemma cand_ok_plain t v : plain v = true -> scalar_t t = true ->
  cand_ok t v = match t with TRecord => is_record v | _ => true end.
Proof. destruct v; try discriminate; destruct t; try discriminate; reflexivity. Qed.

Lemma coerce_base_sound t v s : scalar_t t = true -> plain v = true -> cand_ok t v = true ->
  coerce_base F E t v = Ok s -> has_type t s = true.
Proof.
  intros Ht Hp Hc H. rewrite (cand_ok_plain _ _ Hp Ht) in Hc.
  destruct t; try discriminate Ht; cbn [coerce_base] in H.
  - (* string *) unfold co_string in H. destruct (str_conv F E v). inversion H. reflexivity.
  - (* uri *) unfold co_uri, co_string in H. destruct (e_uri E v); [|discriminate]. destruct (str_conv F E v). inversion H. reflexivity.
  - (* varint *) unfold bind in H. destruct (int_new E v); [|discriminate]. inversion H. reflexivity.
  - destruct (co_uint_sound _ 65535 _ _ H16 H) as (obj & -> & Hu). cbn. lia.
  - destruct (co_uint_sound _ 4294967295 _ _ H32 H) as (obj & -> & Hu). cbn. lia.
  - destruct (co_boolean_sound _ _ H) as (obj & b & -> & ->). cbn. apply Z.eqb_refl.
  - unfold bind in H. destruct (float_new E v); [|discriminate]. inversion H. reflexivity.
  - unfold co_bytes, bind in H. destruct (bytes_new v); [|discriminate]. rewrite F_bytes in H.
    destruct v; try discriminate. inversion H. reflexivity.
  - (* datetime *) unfold co_datetime in H.
    assert (G : forall w o, has_type TDatetime (SDt w (dt_final F o)) = true).
    { intros w o. unfold dt_final. rewrite F_dt. destruct o; reflexivity. }
    destruct v; try discriminate; try (destruct (e_dt E _) as [[w o]|]; [|discriminate]; inversion H; apply G).
    inversion H. apply G.
  - (* path *) unfold co_path in H. destruct v; try discriminate.
    + destruct (e_path E _). inversion H. reflexivity.
    + inversion H. reflexivity.
  - unfold co_command in H. destruct v; try discriminate. destruct (e_cmd E _) as [[w l]|]; [|discriminate]. inversion H. reflexivity.
  - apply (co_digest_sound _ _ H).
  - apply (co_ipaddress_sound _ _ H).
  - unfold co_ipnetwork in H. destruct (e_net E v); [|discriminate]. inversion H. reflexivity.
  - inversion H. cbn. exact Hc.
  - unfold co_rawlist in H. destruct (iter_of E v); [|discriminate]. inversion H. reflexivity.
  - unfold co_rawlist in H. destruct (iter_of E v); [|discriminate]. inversion H. reflexivity.
Qed.

Lemma has_type_not_raw t s : has_type t s = true -> t <> TRecord -> is_raw s = false.
Proof. intros H Ht. destruct t, s; cbn in *; try discriminate; try reflexivity; congruence. Qed.

Lemma co_dynamic_sound v s : plain v = true -> co_dynamic F E v = Ok s -> has_type TDynamic s = true.
Proof.
  intros Hp H. unfold co_dynamic in H. destruct (dyn_target v) as [t|] eqn:Et; [|discriminate].
  assert (Ht : scalar_t t = true /\ t <> TRecord /\ cand_ok t v = true).
  { destruct v; cbn in Et; inversion Et; subst; repeat split; try discriminate; reflexivity. }
  destruct Ht as (Hs & Hr & Hc).
  pose proof (coerce_base_sound _ _ _ Hs Hp Hc H) as Hty.
  cbn. rewrite (has_type_not_raw _ _ Hty Hr). reflexivity.
Qed.

Lemma flat_plain x : is_flat x = true -> plain x = true.
Proof. destruct x; try discriminate; reflexivity. Qed.

Lemma coerce_plain_flat_sound e x s : plain x = true -> (match e with TRecord => false | _ => true end) = true ->
  coerce_flat F E e x = Ok s -> has_type e s = true.
Proof.
  intros Hp He H.
  destruct e; try discriminate He; cbn [coerce_flat] in H; try discriminate H;
    try (apply (coerce_base_sound _ x); [reflexivity|exact Hp| |exact H]; destruct x; try discriminate Hp; reflexivity).
  apply (co_dynamic_sound x); assumption.
Qed.

Lemma lower_plain s v : lower s = Some v -> plain v = true.
Proof. destruct s; cbn; intros H; inversion H; reflexivity. Qed.

Lemma coerce_cross_sound t orig low s : plain low = true -> ftype_eqb t TRecord = false ->
  coerce_cross F E t orig low = Ok s -> has_type t s = true.
Proof.
  intros Hp Ht H.
  destruct t; try discriminate Ht; unfold coerce_cross in H;
    try (refine (coerce_plain_flat_sound _ _ _ Hp _ H); reflexivity).
  - destruct (is_text_or_bytes low).
    + unfold co_string in H. destruct (str_conv F E low). inversion H. reflexivity.
    + destruct (e_str E orig). inversion H. reflexivity.
  - destruct (is_text_or_bytes low).
    + unfold co_uri, co_string in H. destruct (e_uri E low); [|discriminate]. destruct (str_conv F E low). inversion H. reflexivity.
    + destruct (e_uri E low); [|discriminate]. destruct (e_str E orig). inversion H. reflexivity.
Qed.

Lemma coerce_flat_sound e x s : is_flat x = true -> (match e with TRecord => false | _ => true end) = true ->
  coerce_flat F E e x = Ok s -> has_type e s = true.
Proof.
  intros Hx He H. pose proof (flat_plain _ Hx) as Hp.
  destruct e; try discriminate He; cbn [coerce_flat] in H; try discriminate H;
    try (apply (coerce_base_sound _ x); [reflexivity|exact Hp| |exact H]; destruct x; try discriminate Hx; reflexivity).
  apply (co_dynamic_sound x); assumption.
Qed.

Lemma instance_of_has_type c t s : instance_of c t = true -> has_type c s = true -> has_type t s = true.
Proof.
  unfold instance_of. intros H Hs. apply orb_prop in H. destruct H as [H|H].
  - apply ftype_eqb_eq in H. subst. exact Hs.
  - destruct c, t; try discriminate. destruct s; cbn in *; try discriminate; reflexivity.
Qed.

(* the elements of a converted list *)
Lemma list_elems_sound (e : ftype) (l : list pv) (ss : list sval) :
  Forall (fun x => forall t s, cand_ok t x = true -> coerce F E t x = Ok s -> has_type t s = true) l ->
  forallb (cand_ok e) l = true ->
  Forall2 (fun x s => coerce F E e x = Ok s) l ss -> forallb (has_type e) ss = true.
Proof.
  intros HI Hc H2. induction H2 as [|x s l ss Hx _ IH]; [reflexivity|].
  cbn in Hc. apply andb_prop in Hc. destruct Hc as [Hcx Hcl]. inversion HI; subst.
  cbn. rewrite (H1 _ _ Hcx Hx). apply IH; assumption.
Qed.

Lemma coerce_plain t v : plain v = true ->
  coerce F E t v =
  match t with
  | TList e =>
      let elt := fun x => if f_tl_convert F then coerce F E e x else Ok (SPass x) in
      if f_tl_falsy_empty F && falsy v then Ok (SList []) else
      match v with
      | PList l | PTuple l => bind (map_res elt l) (fun ss => Ok (SList ss))
      | PDict kvs => bind (map_res (fun kv => elt (fst kv)) kvs) (fun ss => Ok (SList ss))
      | PStr _ _ | PBytes _ =>
          match e_iter E v with
          | Some l => bind (map_res (fun x => if f_tl_convert F then coerce_flat F E e x else Ok (SPass x)) l)
                           (fun ss => Ok (SList ss))
          | None => Raise ETypeError
          end
      | _ => Raise ETypeError
      end
  | TDynamic => co_dynamic F E v
  | _ => coerce_base F E t v
  end.
Proof. destruct v; try discriminate; reflexivity. Qed.

Ltac tl_trivial H :=
  lazy beta iota zeta in H;
  match type of H with (if ?c then _ else _) = _ => destruct c end;
  [inversion H; reflexivity|discriminate H].

Ltac scalar_or_dyn t Hc H :=
  destruct t;
  try (refine (coerce_base_sound _ _ _ _ _ Hc H); reflexivity);
  try (refine (co_dynamic_sound _ _ _ H); reflexivity).

Lemma flat_items_sound e items ss :
  (match e with TRecord => false | _ => true end) = true ->
  forallb is_flat items = true ->
  Forall2 (fun x s => (if f_tl_convert F then coerce_flat F E e x else Ok (SPass x)) = Ok s) items ss ->
  forallb (has_type e) ss = true.
Proof.
  intros He Hf H2. rewrite F_tl in H2. induction H2 as [|x y items ss Hx _ IH]; [reflexivity|].
  cbn in Hf. apply andb_prop in Hf. destruct Hf as [Ex El]. cbn.
  rewrite (coerce_flat_sound _ _ _ Ex He Hx). apply IH. exact El.
Qed.

Lemma typed_elems_sound (e e' : ftype) (l : list pv) (ss : list sval) :
  ftype_eqb e TRecord = false -> e' <> TRecord ->
  Forall (fun x => forall t s, cand_ok t x = true -> coerce F E t x = Ok s -> has_type t s = true) l ->
  forallb (cand_ok e') l = true ->
  Forall2 (fun x s =>
             (if instance_of e' e || ftype_eqb e TDynamic then coerce F E e' x
              else match coerce F E e' x with
                   | Raise e1 => Raise e1
                   | Ok s1 => match lower s1 with
                              | Some low => coerce_cross F E e (PTyped e' x) low
                              | None => Raise ETypeError
                              end
                   end) = Ok s) l ss ->
  forallb (has_type e) ss = true.
Proof.
  intros He He' HI Hc H2. induction H2 as [|x y l ss Hxy _ IH]; [reflexivity|].
  cbn in Hc. apply andb_prop in Hc. destruct Hc as [Hcx Hcl].
  pose proof (Forall_inv HI) as Hx. pose proof (Forall_inv_tail HI) as Hl.
  cbn. rewrite (IH Hl Hcl), andb_true_r.
  destruct (instance_of e' e || ftype_eqb e TDynamic) eqn:Ee.
  - pose proof (Hx _ _ Hcx Hxy) as Hty. apply orb_prop in Ee. destruct Ee as [Ee|Ee].
    + apply (instance_of_has_type _ _ _ Ee Hty).
    + apply ftype_eqb_eq in Ee. subst e. cbn. rewrite (has_type_not_raw _ _ Hty He'). reflexivity.
  - destruct (coerce F E e' x) as [s1|]; [|discriminate].
    destruct (lower s1) as [low|] eqn:El; [|discriminate].
    apply (coerce_cross_sound e (PTyped e' x) low y (lower_plain _ _ El) He Hxy).
Qed.

Theorem coerce_sound : forall v ft sv, cand_ok ft v = true -> coerce F E ft v = Ok sv -> has_type ft sv = true.
Proof.
  induction v using pv_ind2; intros ft sv Hc Hco.
  - rewrite coerce_plain in Hco by reflexivity. scalar_or_dyn ft Hc Hco. tl_trivial Hco.
  - rewrite coerce_plain in Hco by reflexivity. scalar_or_dyn ft Hc Hco. tl_trivial Hco.
  - rewrite coerce_plain in Hco by reflexivity. scalar_or_dyn ft Hc Hco. tl_trivial Hco.
  - rewrite coerce_plain in Hco by reflexivity. scalar_or_dyn ft Hc Hco. tl_trivial Hco.
  - (* text *)
    rewrite coerce_plain in Hco by reflexivity. scalar_or_dyn ft Hc Hco.
    lazy beta iota zeta in Hco.
    destruct (f_tl_falsy_empty F && falsy (PStr s l)); [inversion Hco; reflexivity|].
    destruct (e_iter E (PStr s l)) as [items|] eqn:Ei; [|discriminate].
    unfold bind in Hco. destruct (map_res _ items) as [ss|] eqn:Em; [|discriminate]. inversion Hco; subst.
    apply map_res_Forall2 in Em. apply (proj2 HE) in Ei. cbn [cand_ok] in Hc. cbn [has_type].
    apply (flat_items_sound _ _ _ Hc Ei Em).
  - (* bytes *)
    rewrite coerce_plain in Hco by reflexivity. scalar_or_dyn ft Hc Hco.
    lazy beta iota zeta in Hco.
    destruct (f_tl_falsy_empty F && falsy (PBytes b)); [inversion Hco; reflexivity|].
    destruct (e_iter E (PBytes b)) as [items|] eqn:Ei; [|discriminate].
    unfold bind in Hco. destruct (map_res _ items) as [ss|] eqn:Em; [|discriminate]. inversion Hco; subst.
    apply map_res_Forall2 in Em. apply (proj2 HE) in Ei. cbn [cand_ok] in Hc. cbn [has_type].
    apply (flat_items_sound _ _ _ Hc Ei Em).
  - (* list *)
    rewrite coerce_plain in Hco by reflexivity. scalar_or_dyn ft Hc Hco.
    lazy beta iota zeta in Hco.
    destruct (f_tl_falsy_empty F && falsy (PList l)); [inversion Hco; reflexivity|].
    rewrite F_tl in Hco. unfold bind in Hco. destruct (map_res _ l) as [ss|] eqn:Em; [|discriminate]. inversion Hco; subst.
    apply map_res_Forall2 in Em. cbn [cand_ok] in Hc. cbn [has_type].
    apply (list_elems_sound _ _ _ H Hc Em).
  - (* tuple *)
    rewrite coerce_plain in Hco by reflexivity. scalar_or_dyn ft Hc Hco.
    lazy beta iota zeta in Hco.
    destruct (f_tl_falsy_empty F && falsy (PTuple l)); [inversion Hco; reflexivity|].
    rewrite F_tl in Hco. unfold bind in Hco. destruct (map_res _ l) as [ss|] eqn:Em; [|discriminate]. inversion Hco; subst.
    apply map_res_Forall2 in Em. cbn [cand_ok] in Hc. cbn [has_type].
    apply (list_elems_sound _ _ _ H Hc Em).
  - (* dict: the keys *)
    rewrite coerce_plain in Hco by reflexivity. scalar_or_dyn ft Hc Hco.
    lazy beta iota zeta in Hco.
    destruct (f_tl_falsy_empty F && falsy (PDict kvs)); [inversion Hco; reflexivity|].
    rewrite F_tl in Hco. unfold bind in Hco. destruct (map_res _ kvs) as [ss|] eqn:Em; [|discriminate]. inversion Hco; subst.
    apply map_res_Forall2 in Em. cbn [cand_ok] in Hc. cbn [has_type].
    clear Hco. revert Hc H. induction Em as [|kv y kvs ss Hx _ IH]; intros Hc HI; [reflexivity|].
    cbn in Hc. apply andb_prop in Hc. destruct Hc as [Hck Hcl]. inversion HI; subst.
    cbn. rewrite (H1 _ _ Hck Hx). apply IH; assumption.
  - rewrite coerce_plain in Hco by reflexivity. scalar_or_dyn ft Hc Hco. tl_trivial Hco.
  - rewrite coerce_plain in Hco by reflexivity. scalar_or_dyn ft Hc Hco. tl_trivial Hco.
  - rewrite coerce_plain in Hco by reflexivity. scalar_or_dyn ft Hc Hco. tl_trivial Hco.
  - rewrite coerce_plain in Hco by reflexivity. scalar_or_dyn ft Hc Hco. tl_trivial Hco.
  - (* an instance of a field-type class *)
    cbn [coerce] in Hco. cbn [cand_ok] in Hc. apply andb_prop in Hc. destruct Hc as [Hc Hx].
    apply andb_prop in Hc. destruct Hc as [Hc Hnt]. apply andb_prop in Hc. destruct Hc as [Hc Hnc].
    destruct (instance_of c ft || ftype_eqb ft TDynamic) eqn:Ei.
    + pose proof (IHv _ _ Hc Hco) as Hty.
      apply orb_prop in Ei. destruct Ei as [Ei|Ei].
      * apply (instance_of_has_type _ _ _ Ei Hty).
      * apply ftype_eqb_eq in Ei. subst ft. cbn.
        rewrite (has_type_not_raw _ _ Hty); [reflexivity|].
        intros ->. discriminate.
    + destruct (coerce F E c v) as [s0|] eqn:E0; [|discriminate].
      assert (Hdefault : (match lower s0 with Some low => coerce_cross F E ft (PTyped c v) low | None => Raise ETypeError end) = Ok sv ->
                         has_type ft sv = true).
      { intros Hd. destruct (lower s0) as [low|] eqn:El; [|discriminate].
        apply (coerce_cross_sound ft (PTyped c v) low sv (lower_plain _ _ El)); [|exact Hd].
        destruct ft; try reflexivity. discriminate Hnt. }
      destruct ft as [| | | | | | | | | | | | | | | | | |e]; try (apply Hdefault; exact Hco).
      destruct c as [| | | | | | | | | | | | | | | | | |e']; try (apply Hdefault; exact Hco).
      * (* a stringlist handed to T[] *)
        destruct v as [| | | | | |l|l| | | | | |]; try (apply Hdefault; exact Hco);
          (destruct (f_tl_falsy_empty F && is_nil l); [inversion Hco; reflexivity|];
           rewrite F_tl in Hco; unfold bind in Hco; destruct (map_res _ l) as [ss|] eqn:Em; [|discriminate]; inversion Hco; subst;
           apply map_res_Forall2 in Em; cbn [has_type]; apply (list_elems_sound _ _ _ H Hx Em)).
      * (* a dictlist handed to T[] *)
        destruct v as [| | | | | |l|l| | | | | |]; try (apply Hdefault; exact Hco);
          (destruct (f_tl_falsy_empty F && is_nil l); [inversion Hco; reflexivity|];
           rewrite F_tl in Hco; unfold bind in Hco; destruct (map_res _ l) as [ss|] eqn:Em; [|discriminate]; inversion Hco; subst;
           apply map_res_Forall2 in Em; cbn [has_type]; apply (list_elems_sound _ _ _ H Hx Em)).
      * (* a T'[] list handed to T[] *)
        assert (He : ftype_eqb e TRecord = false) by (destruct e; try reflexivity; discriminate Hnt).
        assert (He' : e' <> TRecord) by (intros ->; discriminate Hnc).
        destruct v as [| | | | | |l|l| | | | | |]; try (apply Hdefault; exact Hco);
          (destruct (f_tl_falsy_empty F && is_nil l); [inversion Hco; reflexivity|];
           rewrite F_tl in Hco; unfold bind in Hco; destruct (map_res _ l) as [ss|] eqn:Em; [|discriminate]; inversion Hco; subst;
           apply map_res_Forall2 in Em; cbn [has_type]; cbn [cand_ok] in Hc;
           apply (typed_elems_sound e e' l ss He He' H Hc Em)).
Qed.

(* ---- records ---- *)

Lemma default_ok t : slot_ok (t, default t) = true.
Proof. destruct t; reflexivity. Qed.

Lemma set_slot_sound t v s : arg_ok t v = true -> set_slot F E t v = Ok s -> slot_ok (t, s) = true.
Proof.
  unfold set_slot, arg_ok. rewrite F_none. cbn [andb]. destruct (is_none v) eqn:N.
  - intros _ H. inversion H. reflexivity.
  - cbn [orb]. intros Hc H. unfold slot_ok. cbn [fst snd].
    pose proof (coerce_sound _ _ _ Hc H) as Hty. destruct s; try exact Hty. reflexivity.
Qed.

Lemma init_slot_sound kw t a s : arg_ok t a = true -> init_slot F E kw t a = Ok s -> slot_ok (t, s) = true.
Proof.
  unfold init_slot. destruct (is_none a).
  - intros _ H. inversion H. destruct kw; [reflexivity|apply default_ok].
  - apply set_slot_sound.
Qed.

Lemma setattr_types r : forall i v, types (fst (setattr F E r i v)) = types r.
Proof.
  induction r as [|[t s] r IH]; intros i v; [reflexivity|].
  destruct i as [|i]; cbn [setattr].
  - destruct (set_slot F E t v); [reflexivity|]. rewrite F_store. reflexivity.
  - specialize (IH i v). destruct (setattr F E r i v) as [r' o]. cbn in *. rewrite IH. reflexivity.
Qed.

Lemma setattr_noop r : forall i v r' e, setattr F E r i v = (r', Raised e) -> r' = r.
Proof.
  induction r as [|[t s] r IH]; intros i v r' e H.
  - cbn in H. inversion H. reflexivity.
  - destruct i as [|i]; cbn [setattr] in H.
    + destruct (set_slot F E t v); [inversion H|]. rewrite F_store in H. inversion H. reflexivity.
    + destruct (setattr F E r i v) as [r1 o] eqn:Es. inversion H; subst. f_equal. apply (IH _ _ _ _ Es).
Qed.

Lemma setattr_wt r : forall i v, well_typed r = true ->
  (forall t, nth_error (types r) i = Some t -> arg_ok t v = true) ->
  well_typed (fst (setattr F E r i v)) = true.
Proof.
  induction r as [|[t s] r IH]; intros i v Hw Ha; [reflexivity|].
  cbn in Hw. apply andb_prop in Hw. destruct Hw as [Hs Hr].
  destruct i as [|i]; cbn [setattr].
  - destruct (set_slot F E t v) as [s'|e] eqn:Es.
    + cbn. rewrite Hr, (set_slot_sound _ _ _ (Ha t eq_refl) Es). reflexivity.
    + rewrite F_store. cbn. rewrite Hs, Hr. reflexivity.
  - specialize (IH i v Hr (fun t H => Ha t H)).
    destruct (setattr F E r i v) as [r' o]. cbn in *. rewrite Hs, IH. reflexivity.
Qed.

Lemma construct_sound kw : forall ts args r, construct F E kw ts args = Ok r ->
  types r = ts /\ (args_ok ts args = true -> well_typed r = true).
Proof.
  induction ts as [|t ts IH]; intros args r H; cbn in H.
  - inversion H. split; reflexivity.
  - destruct (init_slot F E kw t _) as [s|] eqn:Es; [|discriminate].
    destruct (construct F E kw ts (tl args)) as [r1|] eqn:Er; [|discriminate].
    inversion H; subst. destruct (IH _ _ Er) as [Ht Hw]. split.
    + unfold types in *. cbn. rewrite Ht. reflexivity.
    + intros Ha. cbn. destruct args as [|a args]; cbn in *.
      * rewrite (init_slot_sound kw t PNone s eq_refl Es). apply Hw. destruct ts; reflexivity.
      * apply andb_prop in Ha. destruct Ha as [Ha1 Ha2].
        rewrite (init_slot_sound kw t a s Ha1 Es). apply Hw. exact Ha2.
Qed.

Lemma lookup_kw_In kvs i v : lookup_kw kvs i = Some v -> In (i, v) kvs.
Proof.
  induction kvs as [|[j w] kvs IH]; cbn; [discriminate|].
  destruct (Nat.eqb i j) eqn:Eij.
  - intros H; inversion H; subst. apply Nat.eqb_eq in Eij. subst. left. reflexivity.
  - intros H. right. apply IH. exact H.
Qed.

Lemma replace_from_sound kw kvs : forall r i r', replace_from F E kw i r kvs = Ok r' ->
  types r' = types r /\
  (well_typed r = true ->
   (forall j t v, nth_error (types r) j = Some t -> lookup_kw kvs (i + j) = Some v -> arg_ok t v = true) ->
   well_typed r' = true).
Proof.
  induction r as [|[t s] r IH]; intros i r' H; cbn in H.
  - inversion H. split; reflexivity.
  - match type of H with context [match ?X with Ok _ => _ | Raise _ => _ end] => destruct X as [s'|] eqn:Es; [|discriminate] end.
    destruct (replace_from F E kw (S i) r kvs) as [r1|] eqn:Er; [|discriminate].
    inversion H; subst. destruct (IH _ _ Er) as [Ht Hw]. split.
    + unfold types in *. cbn. rewrite Ht. reflexivity.
    + intros Hwr Ha. cbn in Hwr. apply andb_prop in Hwr. destruct Hwr as [Hs Hr]. cbn.
      assert (Hs' : slot_ok (t, s') = true).
      { destruct (lookup_kw kvs i) as [a|] eqn:El.
        - apply (init_slot_sound kw t a s'); [|exact Es].
          apply (Ha 0%nat t a eq_refl). rewrite Nat.add_0_r. exact El.
        - inversion Es; subst. destruct s; try exact Hs. destruct kw; [reflexivity|apply default_ok]. }
      rewrite Hs'. apply Hw; [exact Hr|].
      intros j t0 v Hn Hl. apply (Ha (S j) t0 v Hn). rewrite Nat.add_succ_r. exact Hl.
Qed.

Lemma step_types kw r o : types (fst (step F E kw r o)) = types r.
Proof.
  destruct o as [i v|i v|args|kvs]; cbn [step].
  - apply setattr_types.
  - rewrite F_grouped. apply setattr_types.
  - destruct (construct F E kw (types r) args) as [r'|] eqn:Ec; [|reflexivity]. apply (construct_sound _ _ _ _ Ec).
  - unfold replace. destruct (replace_from F E kw 0 r kvs) as [r'|] eqn:Er; [|reflexivity].
    destruct (forallb _ kvs); [|reflexivity]. apply (replace_from_sound _ _ _ _ _ Er).
Qed.

Lemma step_wt kw r o : op_ok (types r) o = true -> well_typed r = true -> well_typed (fst (step F E kw r o)) = true.
Proof.
  intros Ho Hw. destruct o as [i v|i v|args|kvs]; cbn [step].
  - apply setattr_wt; [exact Hw|]. intros t Hn. cbn in Ho. rewrite Hn in Ho. exact Ho.
  - rewrite F_grouped. apply setattr_wt; [exact Hw|]. intros t Hn. cbn in Ho. rewrite Hn in Ho. exact Ho.
  - destruct (construct F E kw (types r) args) as [r'|] eqn:Ec; [|exact Hw]. apply (construct_sound _ _ _ _ Ec). exact Ho.
  - unfold replace. destruct (replace_from F E kw 0 r kvs) as [r'|] eqn:Er; [|exact Hw].
    destruct (forallb _ kvs); [|exact Hw]. cbn.
    apply (replace_from_sound _ _ _ _ _ Er); [exact Hw|].
    intros j t v Hn Hl. cbn in Hl. apply lookup_kw_In in Hl. cbn in Ho.
    rewrite forallb_forall in Ho. specialize (Ho _ Hl). cbn in Ho. rewrite Hn in Ho. exact Ho.
Qed.

Theorem step_noop kw r o r' e : step F E kw r o = (r', Raised e) -> r' = r.
Proof.
  destruct o as [i v|i v|args|kvs]; cbn [step].
  - apply setattr_noop.
  - rewrite F_grouped. apply setattr_noop.
  - destruct (construct F E kw (types r) args); intros H; inversion H. reflexivity.
  - destruct (replace F E kw r kvs); intros H; inversion H. reflexivity.
Qed.

(* every mutation path funnels into the coercing setter: assignment through a grouped view IS member assignment *)
Lemma step_grouped kw r i v : step F E kw r (OSetGrouped i v) = step F E kw r (OSet i v).
Proof. cbn [step]. rewrite F_grouped. reflexivity. Qed.

Theorem run_ops_invariant kw : forall ops r, forallb (op_ok (types r)) ops = true -> well_typed r = true ->
  well_typed (fst (run_ops F E kw r ops)) = true.
Proof.
  induction ops as [|o ops IH]; intros r Ho Hw; [exact Hw|].
  cbn in Ho. apply andb_prop in Ho. destruct Ho as [Ho1 Ho2]. cbn [run_ops].
  pose proof (step_types kw r o) as Ht. pose proof (step_wt kw r o Ho1 Hw) as Hw1.
  destruct (step F E kw r o) as [r1 oc]. cbn in Ht, Hw1.
  rewrite <- Ht in Ho2. specialize (IH r1 Ho2 Hw1).
  destruct (run_ops F E kw r1 ops) as [r2 ocs]. exact IH.
Qed.

Lemma blank_wt kw ts : well_typed (blank kw ts) = true.
Proof.
  unfold well_typed, blank. induction ts as [|t ts IH]; [reflexivity|].
  cbn [map forallb]. rewrite IH, andb_true_r. destruct kw; [reflexivity|apply default_ok].
Qed.

Lemma blank_types kw ts : types (blank kw ts) = ts.
Proof. unfold types, blank. induction ts as [|t ts IH]; [reflexivity|]. cbn [map fst]. rewrite IH. reflexivity. Qed.

Lemma setattr_none r : forall i sl, nth_error r i = Some sl ->
  setattr F E r i PNone = (firstn i r ++ (fst sl, SNone) :: skipn (S i) r, Accepted).
Proof.
  induction r as [|[t s] r IH]; intros i sl H; [destruct i; discriminate|].
  destruct i as [|i]; cbn [setattr].
  - inversion H; subst. unfold set_slot. rewrite F_none. reflexivity.
  - cbn in H. rewrite (IH _ _ H). reflexivity.
Qed.

(* ---- the property's rejection list ---- *)

Lemma uint_rejects b max v : bound_is b 0 max = true ->
  match num_of v with Some n => negb (spec_in_range 0 max n && num_integral n) | None => false end = true ->
  exists e, co_uint F E b v = Raise e.
Proof.
  intros Hb Hu. unfold co_uint. rewrite F_uint_int.
  destruct v; cbn in Hu; try discriminate; cbn [int_new bind num_of].
  - rewrite (out_of_range_spec _ _ _ _ Hb) by discriminate. cbn [num_integral] in Hu. rewrite andb_true_r in Hu. rewrite Hu. eauto.
  - rewrite (out_of_range_spec _ _ _ _ Hb) by discriminate. cbn [num_integral] in Hu. rewrite andb_true_r in Hu. rewrite Hu. eauto.
  - destruct c as [fl i| |neg]; cbn [int_new bind]; eauto.
    rewrite (out_of_range_spec _ _ _ _ Hb) by discriminate. cbn [num_integral andb] in *.
    destruct (spec_in_range 0 max (NF (FFinite fl i))); cbn in *; [|eauto]. rewrite Hu. eauto.
Qed.

Lemma co_bytes_rejects v : plain v = true -> (match v with PBytes _ => false | _ => true end) = true ->
  exists e, co_bytes F v = Raise e.
Proof.
  intros Hp Hv. unfold co_bytes, bind. rewrite F_bytes.
  destruct (bytes_new v); [|eauto]. destruct v; try discriminate; eauto.
Qed.

Lemma boolean_rejects v :
  match num_of v with
  | Some (NZ z) => negb ((z =? 0) || (z =? 1))
  | Some (NF (FFinite fl i)) => negb (i && ((fl =? 0) || (fl =? 1)))
  | Some (NF _) => true
  | None => false
  end = true -> exists e, co_boolean F E v = Raise e.
Proof.
  intros Hu. unfold co_boolean. rewrite F_bool_int.
  destruct v; cbn in Hu; try discriminate; cbn [int_new bind num_of].
  - destruct b; discriminate.
  - rewrite (bound_is_inv _ _ _ HB). cbn.
    destruct ((z <? 0) || (1 <? z)) eqn:R; cbn; [eauto|]. exfalso. lia.
  - destruct c as [fl i| |neg]; cbn [int_new bind]; eauto.
    rewrite (bound_is_inv _ _ _ HB). cbn.
    destruct i; cbn in *; [|rewrite orb_true_r; eauto]. rewrite orb_false_r.
    destruct ((fl <? 0) || ((1 <? fl) || (fl =? 1) && false)) eqn:R; cbn; [eauto|]. exfalso. lia.
Qed.

Lemma digest_rejects v : plain v = true -> negb (digest_wellformed v) = true -> exists e, co_digest F v = Raise e.
Proof.
  intros Hp Hu. apply negb_true_iff in Hu. unfold co_digest. rewrite F_digest_else.
  destruct v; try discriminate Hp; try discriminate Hu; cbn in Hu; eauto.
  - destruct l as [|a [|b [|c [|]]]]; eauto. apply digest3_bad. exact Hu.
  - destruct l as [|a [|b [|c [|]]]]; eauto. apply digest3_bad. exact Hu.
  - apply digest3_bad. exact Hu.
Qed.

Lemma ip_rejects v :
  match v with
  | PInt z => (z <? 0) || (2 ^ 128 <=? z)
  | PBool _ => false
  | PBytes b => negb ((zlen b =? 4) || (zlen b =? 16))
  | _ => match e_ip E v with None => true | Some _ => false end
  end = true -> exists e, co_ipaddress E v = Raise e.
Proof.
  intros Hu. unfold co_ipaddress.
  destruct v; try discriminate Hu; try (destruct (e_ip E _) as [[? ?]|]; [discriminate Hu|eauto]).
  - unfold ip_of_int.
    destruct ((0 <=? z) && (z <? 2 ^ 32)) eqn:A; [exfalso; lia|].
    destruct ((0 <=? z) && (z <? 2 ^ 128)) eqn:B; [exfalso; lia|eauto].
  - apply negb_true_iff in Hu. apply orb_false_elim in Hu. destruct Hu as [-> ->]. eauto.
Qed.

Lemma unrep_plain t v : plain v = true ->
  unrepresentable E t v =
  match t with
  | TUint16 => match num_of v with Some n => negb (spec_in_range 0 65535 n && num_integral n) | None => false end
  | TUint32 => match num_of v with Some n => negb (spec_in_range 0 4294967295 n && num_integral n) | None => false end
  | TBoolean =>
      match num_of v with
      | Some (NZ z) => negb ((z =? 0) || (z =? 1))
      | Some (NF (FFinite fl i)) => negb (i && ((fl =? 0) || (fl =? 1)))
      | Some (NF _) => true
      | None => false
      end
  | TDigest => negb (digest_wellformed v)
  | TIpAddress =>
      match v with
      | PInt z => (z <? 0) || (2 ^ 128 <=? z)
      | PBool _ => false
      | PBytes b => negb ((zlen b =? 4) || (zlen b =? 16))
      | _ => match e_ip E v with None => true | Some _ => false end
      end
  | TIpNetwork => match e_net E v with None => true | Some _ => false end
  | TBytes => match v with PBytes _ => false | _ => true end
  | TList e => match v with PList l | PTuple l => existsb (unrepresentable E e) l | _ => false end
  | _ => false
  end.
Proof. destruct v; try discriminate; reflexivity. Qed.

Lemma rejects_scalar t v : plain v = true -> scalar_t t = true ->
  unrepresentable E t v = true -> exists e, coerce_base F E t v = Raise e.
Proof.
  intros Hp Hs Hu. rewrite (unrep_plain _ _ Hp) in Hu.
  destruct t; try discriminate Hu; try discriminate Hs; cbn [coerce_base].
  - apply (uint_rejects _ 65535 _ H16 Hu).
  - apply (uint_rejects _ 4294967295 _ H32 Hu).
  - apply (boolean_rejects _ Hu).
  - apply (co_bytes_rejects _ Hp Hu).
  - apply (digest_rejects _ Hp Hu).
  - apply (ip_rejects _ Hu).
  - unfold co_ipnetwork. destruct (e_net E v); [discriminate Hu|eauto].
Qed.

Lemma rejects_seq e l :
  Forall (fun x => forall t, unrepresentable E t x = true -> exists e, coerce F E t x = Raise e) l ->
  existsb (unrepresentable E e) l = true ->
  exists e1, (if f_tl_falsy_empty F && (match l with [] => true | _ => false end) then Ok (SList [])
              else bind (map_res (fun x => if f_tl_convert F then coerce F E e x else Ok (SPass x)) l)
                        (fun ss => Ok (SList ss))) = Raise e1.
Proof.
  intros HI Hu. apply existsb_exists in Hu. destruct Hu as (x & Hin & Hx).
  rewrite Forall_forall in HI.
  destruct (HI x Hin _ Hx) as [e0 He].
  destruct l as [|y l]; [destruct Hin|]. rewrite andb_false_r. rewrite F_tl. unfold bind.
  destruct (map_res_raises (fun x => coerce F E e x) (y :: l) x e0 Hin He) as [e' ->]. eauto.
Qed.

Ltac rej_plain ft Hu :=
  rewrite coerce_plain by reflexivity;
  destruct ft;
  try (refine (rejects_scalar _ _ _ _ Hu); reflexivity);
  try (cbn in Hu; discriminate Hu).

(* FULL statement: no hypothesis beyond "the property calls the value unrepresentable" *)
Theorem rejects_unrepresentable : forall v ft, unrepresentable E ft v = true -> exists e, coerce F E ft v = Raise e.
Proof.
  induction v using pv_ind2; intros ft Hu.
  - rej_plain ft Hu.
  - rej_plain ft Hu.
  - rej_plain ft Hu.
  - rej_plain ft Hu.
  - rej_plain ft Hu.
  - rej_plain ft Hu.
  - rej_plain ft Hu. cbn in Hu. apply (rejects_seq _ _ H Hu).
  - rej_plain ft Hu. cbn in Hu. apply (rejects_seq _ _ H Hu).
  - rej_plain ft Hu.
  - rej_plain ft Hu.
  - rej_plain ft Hu.
  - rej_plain ft Hu.
  - rej_plain ft Hu.
  - cbn in Hu. discriminate Hu.
Qed.

(* ---- acceptance and conversions ---- *)

Lemma coerce_uint16_int z : coerce F E TUint16 (PInt z) =
  if (0 <=? z) && (z <=? 65535) then Ok (SUInt z (UInt z)) else Raise EValueError.
Proof. apply (co_uint_int _ 65535 z H16). Qed.

Lemma coerce_uint32_int z : coerce F E TUint32 (PInt z) =
  if (0 <=? z) && (z <=? 4294967295) then Ok (SUInt z (UInt z)) else Raise EValueError.
Proof. apply (co_uint_int _ 4294967295 z H32). Qed.

Lemma coerce_boolean_bool b : coerce F E TBoolean (PBool b) = Ok (SBool (Z_of_bool b) b).
Proof.
  cbn. unfold co_boolean. cbn. rewrite (bound_is_inv _ _ _ HB), andb_false_r. destruct b; reflexivity.
Qed.

Lemma coerce_boolean_int z : coerce F E TBoolean (PInt z) =
  if (z =? 0) || (z =? 1) then Ok (SBool z (z =? 1)) else Raise EValueError.
Proof.
  cbn. unfold co_boolean. cbn. rewrite (bound_is_inv _ _ _ HB). cbn. rewrite andb_false_r, orb_false_r.
  destruct ((z <? 0) || (1 <? z)) eqn:R.
  - assert ((z =? 0) || (z =? 1) = false) as -> by lia. reflexivity.
  - assert (z = 0 \/ z = 1) as [-> | ->] by lia; reflexivity.
Qed.

Lemma coerce_bytes_bytes b : coerce F E TBytes (PBytes b) = Ok (SBytes b).
Proof. cbn. unfold co_bytes. cbn. rewrite F_bytes. reflexivity. Qed.

Lemma coerce_string_bytes b : coerce F E TString (PBytes b) = Ok (SStr b false).
Proof. cbn. unfold co_string, str_conv. rewrite F_str. reflexivity. Qed.

Lemma coerce_string_text s l : coerce F E TString (PStr s l) = Ok (SStr s l).
Proof. reflexivity. Qed.

Lemma coerce_datetime_naive w : coerce F E TDatetime (PDatetime w None) = Ok (SDt w (Some 0)).
Proof. cbn. unfold dt_final. rewrite F_dt. destruct (f_dt_arg_utc F); reflexivity. Qed.

Lemma coerce_datetime_aware w o : coerce F E TDatetime (PDatetime w (Some o)) = Ok (SDt w (Some o)).
Proof. reflexivity. Qed.

(* ---- typed lists ---- *)

Lemma coerce_list_elements e l s : coerce F E (TList e) (PList l) = Ok s ->
  exists ss, s = SList ss /\ Forall2 (fun x s' => coerce F E e x = Ok s') l ss.
Proof.
  rewrite coerce_plain by reflexivity. cbn zeta. rewrite F_tl.
  destruct l as [|x l].
  - destruct (f_tl_falsy_empty F); cbn; intros H; inversion H; exists []; split; constructor.
  - cbn [falsy]. rewrite andb_false_r. unfold bind.
    destruct (map_res _ (x :: l)) as [ss|] eqn:Em; [|discriminate].
    intros H; inversion H; subst. exists ss. split; [reflexivity|]. apply (map_res_Forall2 _ _ _ Em).
Qed.

Lemma coerce_list_bad_element e l x e0 : In x l -> coerce F E e x = Raise e0 ->
  exists e1, coerce F E (TList e) (PList l) = Raise e1.
Proof.
  intros Hin Hx. rewrite coerce_plain by reflexivity. cbn zeta. rewrite F_tl.
  destruct l as [|y l]; [destruct Hin|]. cbn [falsy]. rewrite andb_false_r. unfold bind.
  destruct (map_res_raises (fun x => coerce F E e x) (y :: l) x e0 Hin Hx) as [e' ->]. eauto.
Qed.

(* ---- the per-class forms used by props/C05.v ---- *)

Lemma uint16_out_of_range z : z < 0 \/ z > 65535 -> coerce F E TUint16 (PInt z) = Raise EValueError.
Proof. intros H. rewrite coerce_uint16_int. destruct ((0 <=? z) && (z <=? 65535)) eqn:R; [exfalso; lia|reflexivity]. Qed.

Lemma uint32_out_of_range z : z < 0 \/ z > 4294967295 -> coerce F E TUint32 (PInt z) = Raise EValueError.
Proof. intros H. rewrite coerce_uint32_int. destruct ((0 <=? z) && (z <=? 4294967295)) eqn:R; [exfalso; lia|reflexivity]. Qed.

Lemma boolean_other_integer z : z <> 0 -> z <> 1 -> coerce F E TBoolean (PInt z) = Raise EValueError.
Proof. intros H0 H1. rewrite coerce_boolean_int. destruct ((z =? 0) || (z =? 1)) eqn:R; [exfalso; lia|reflexivity]. Qed.

Lemma non_bytes_rejected v : plain v = true -> (forall b, v <> PBytes b) -> exists e, coerce F E TBytes v = Raise e.
Proof.
  intros Hp Hv. apply rejects_unrepresentable.
  rewrite (unrep_plain _ _ Hp). destruct v; try reflexivity. exfalso. apply (Hv b). reflexivity.
Qed.

(* every value that is not an instance of the digest class, not None and not a well-formed tuple / list / dict *)
Lemma malformed_digest_rejected v : plain v = true -> digest_wellformed v = false ->
  exists e, coerce F E TDigest v = Raise e.
Proof.
  intros Hp Hw. apply rejects_unrepresentable. rewrite (unrep_plain _ _ Hp), Hw. reflexivity.
Qed.

(* every non-integral float is rejected by the unsigned types, every float other than 0.0 / 1.0 by boolean *)
Lemma uint_fraction_rejected bits fl : exists e, coerce F E TUint16 (PFloat bits (FFinite fl false)) = Raise e.
Proof. apply rejects_unrepresentable. cbn. rewrite andb_false_r. reflexivity. Qed.

Lemma uint32_fraction_rejected bits fl : exists e, coerce F E TUint32 (PFloat bits (FFinite fl false)) = Raise e.
Proof. apply rejects_unrepresentable. cbn. rewrite andb_false_r. reflexivity. Qed.

Lemma boolean_fraction_rejected bits fl : exists e, coerce F E TBoolean (PFloat bits (FFinite fl false)) = Raise e.
Proof. apply rejects_unrepresentable. reflexivity. Qed.

Lemma address_out_of_range z : z < 0 \/ z >= 2 ^ 128 -> exists e, coerce F E TIpAddress (PInt z) = Raise e.
Proof. intros H. apply rejects_unrepresentable. cbn. lia. Qed.

Lemma accepts_representable :
  (forall z, 0 <= z <= 65535 -> coerce F E TUint16 (PInt z) = Ok (SUInt z (UInt z)))
  /\ (forall z, 0 <= z <= 4294967295 -> coerce F E TUint32 (PInt z) = Ok (SUInt z (UInt z)))
  /\ (forall b, coerce F E TBoolean (PBool b) = Ok (SBool (Z_of_bool b) b))
  /\ coerce F E TBoolean (PInt 0) = Ok (SBool 0 false)
  /\ coerce F E TBoolean (PInt 1) = Ok (SBool 1 true)
  /\ (forall b, coerce F E TBytes (PBytes b) = Ok (SBytes b)).
Proof.
  repeat split.
  - intros z H. rewrite coerce_uint16_int. destruct ((0 <=? z) && (z <=? 65535)) eqn:R; [reflexivity|exfalso; lia].
  - intros z H. rewrite coerce_uint32_int. destruct ((0 <=? z) && (z <=? 4294967295)) eqn:R; [reflexivity|exfalso; lia].
  - apply coerce_boolean_bool.
  - rewrite coerce_boolean_int. reflexivity.
  - rewrite coerce_boolean_int. reflexivity.
  - apply coerce_bytes_bytes.
Qed.

Lemma conversions :
  (forall w, coerce F E TDatetime (PDatetime w None) = Ok (SDt w (Some 0)))
  /\ (forall w o, coerce F E TDatetime (PDatetime w (Some o)) = Ok (SDt w (Some o)))
  /\ (forall b, coerce F E TString (PBytes b) = Ok (SStr b false))
  /\ (forall s l, coerce F E TString (PStr s l) = Ok (SStr s l)).
Proof.
  repeat split; [apply coerce_datetime_naive|apply coerce_string_bytes].
Qed.

Lemma list_elements e l s : coerce F E (TList e) (PList l) = Ok s ->
  exists ss, s = SList ss /\ Forall2 (fun x s' => coerce F E e x = Ok s') l ss
             /\ (forallb (cand_ok e) l = true -> forallb (has_type e) ss = true).
Proof.
  intros H. destruct (coerce_list_elements _ _ _ H) as (ss & -> & H2). exists ss. repeat split; [exact H2|].
  intros Hc. exact (coerce_sound (PList l) (TList e) (SList ss) Hc H).
Qed.

Lemma invariant_blank kw ts ops : forallb (op_ok ts) ops = true ->
  well_typed (fst (run_ops F E kw (blank kw ts) ops)) = true.
Proof.
  intros H. apply run_ops_invariant; [rewrite blank_types; exact H|apply blank_wt].
Qed.

(* ---- several records: the constructor is state free, operations on one record leave the others alone ---- *)

Lemma construct_no_args kw ts : construct F E kw ts [] = Ok (blank kw ts).
Proof.
  induction ts as [|t ts IH]; [reflexivity|]. cbn [construct tl]. unfold init_slot at 1. cbn [is_none].
  rewrite IH. reflexivity.
Qed.

Lemma nth_error_set_nth_other {A} (l : list A) : forall j k a, j <> k ->
  nth_error (set_nth l j a) k = nth_error l k \/ (List.length l <= j)%nat.
Proof.
  induction l as [|x l IH]; intros j k a Hjk; [right; cbn; lia|].
  destruct j as [|j].
  - left. destruct k as [|k]; [congruence|reflexivity].
  - destruct k as [|k]; [left; reflexivity|].
    destruct (IH j k a (fun H => Hjk (f_equal S H))) as [H|H]; [left|right; cbn; lia].
    unfold set_nth in *. cbn [firstn skipn app nth_error]. exact H.
Qed.

Lemma set_nth_keeps {A} (l : list A) j k a r : nth_error l j <> None -> j <> k -> nth_error l k = Some r ->
  nth_error (set_nth l j a) k = Some r.
Proof.
  intros Hj Hjk Hk. destruct (nth_error_set_nth_other l j k a Hjk) as [H|H]; [rewrite H; exact Hk|].
  exfalso. apply Hj. apply nth_error_None. exact H.
Qed.

(* frame: whatever is done to record j (in-place mutation included) or appended, every OTHER record stays as it is *)
Theorem wstep_frame kw ts w o k r : nth_error w k = Some r -> targets o k = false ->
  nth_error (fst (wstep F E kw ts w o)) k = Some r.
Proof.
  intros Hk Ht. assert (Hlt : (k < List.length w)%nat) by (apply nth_error_Some; congruence).
  destruct o as [args|j i x|j o|j kvs]; cbn [wstep targets] in *.
  - destruct (construct F E kw ts args); cbn [fst]; [rewrite nth_error_app1 by exact Hlt|]; exact Hk.
  - apply Nat.eqb_neq in Ht. destruct (nth_error w j) eqn:Hj; cbn [fst]; [|exact Hk].
    apply set_nth_keeps; [congruence|exact Ht|exact Hk].
  - apply Nat.eqb_neq in Ht. destruct (nth_error w j) eqn:Hj; cbn [fst]; [|exact Hk].
    destruct (step F E kw r0 o) as [r' oc]. cbn [fst]. apply set_nth_keeps; [congruence|exact Ht|exact Hk].
  - destruct (nth_error w j); cbn [fst]; [|exact Hk].
    destruct (replace F E kw r0 kvs); cbn [fst]; [rewrite nth_error_app1 by exact Hlt|]; exact Hk.
Qed.

(* the record D(args) does not depend on what happened before *)
Theorem new_record_state_free kw ts w w' args :
  match construct F E kw ts args with
  | Ok r => wstep F E kw ts w (WNew args) = (w ++ [r], Accepted) /\ wstep F E kw ts w' (WNew args) = (w' ++ [r], Accepted)
  | Raise e => wstep F E kw ts w (WNew args) = (w, Raised e) /\ wstep F E kw ts w' (WNew args) = (w', Raised e)
  end.
Proof. cbn [wstep]. destruct (construct F E kw ts args); split; reflexivity. Qed.

(* ... and built without values it holds the documented defaults, every time *)
Theorem new_without_values_is_default kw ts w : wstep F E kw ts w (WNew []) = (w ++ [blank kw ts], Accepted).
Proof. cbn [wstep]. rewrite construct_no_args. reflexivity. Qed.

(* so an in-place mutation of one record can never make ANOTHER record ill typed *)
Corollary mutation_is_local kw ts w j i x k r : nth_error w k = Some r -> j <> k -> well_typed r = true ->
  exists r', nth_error (fst (wstep F E kw ts w (WMutate j i x))) k = Some r' /\ well_typed r' = true.
Proof.
  intros Hk Hjk Hw. exists r. split; [|exact Hw]. apply wstep_frame; [exact Hk|]. cbn. apply Nat.eqb_neq. exact Hjk.
Qed.

End Main.

(* ------------------------------------------------------------------------------------------ *)
(* serialisation                                                                               *)

Lemma is_record_packable v : is_record v = true -> packable v = true.
Proof. destruct v; try discriminate; reflexivity. Qed.

Lemma has_type_serialisable : forall t s, has_type t s = true -> typed_only t = true -> no_lone s = true ->
  serialisable_val s = true.
Proof.
  induction t; intros s Hty Hto Hnl; try discriminate Hto;
    try (destruct s; cbn in Hty; try discriminate Hty; try reflexivity; exact Hnl).
  - (* record *) destruct s; cbn in Hty; try discriminate Hty. cbn. apply is_record_packable. exact Hty.
  - (* T[] *) destruct s; cbn in Hty; try discriminate Hty. cbn in *.
    induction l as [|x l IHl]; [reflexivity|]. cbn in *.
    apply andb_prop in Hty. destruct Hty as [Hx Hl]. apply andb_prop in Hnl. destruct Hnl as [Nx Nl].
    rewrite (IHt x Hx Hto Nx). apply IHl; assumption.
Qed.

Theorem well_typed_serialisable r : well_typed r = true -> forallb (fun sl => no_lone (snd sl)) r = true ->
  forallb typed_only (types r) = true -> serialisable r = true.
Proof.
  unfold well_typed, serialisable, types.
  induction r as [|[t s] r IH]; intros Hw Hn Ht; [reflexivity|].
  cbn [forallb map fst snd] in *.
  apply andb_prop in Hw. destruct Hw as [Hs Hw]. apply andb_prop in Hn. destruct Hn as [Ns Nr].
  apply andb_prop in Ht. destruct Ht as [Ts Tr]. rewrite (IH Hw Nr Tr), andb_true_r.
  unfold slot_ok in Hs. cbn [fst snd] in Hs.
  destruct s; try reflexivity; apply (has_type_serialisable t _ Hs Ts Ns).
Qed.
