From Coq Require Import List Bool String.
Import ListNotations.
From FR Require Import Cmp.

Definition ok_mres (m : mres) : bool := match m with NotImpl | Ret false => true | _ => false end.

(* the other operand's own comparison methods, given the sentinel, return NotImplemented or False *)
Definition wellbehaved (o : other) : bool :=
  ok_mres (o_eq_of o) && ok_mres (o_ne_of o) && ok_mres (o_ord_of o).

Definition wb_operand (a : operand) : bool := match a with OSent => true | OOth o => wellbehaved o end.

Definition all_false (S : sentinel) : bool :=
  match s_eq S, s_ne S, s_lt S, s_le S, s_gt S, s_ge S, s_contains S with
  | Some false, Some false, Some false, Some false, Some false, Some false, Some false => true
  | _, _, _, _, _, _, _ => false
  end.

Definition guard_ok (g : in_guard) : bool := g_left g && g_right g && negb (g_value g).

Lemma all_false_inv S : all_false S = true ->
  s_eq S = Some false /\ s_ne S = Some false /\ s_lt S = Some false /\ s_le S = Some false /\
  s_gt S = Some false /\ s_ge S = Some false /\ s_contains S = Some false.
Proof.
  unfold all_false. destruct (s_eq S) as [[|]|], (s_ne S) as [[|]|], (s_lt S) as [[|]|], (s_le S) as [[|]|],
    (s_gt S) as [[|]|], (s_ge S) as [[|]|], (s_contains S) as [[|]|]; intros H; try discriminate H; repeat split.
Qed.

Lemma sent_method_false S op same : all_false S = true ->
  op <> In_ -> op <> NotIn -> sent_method S op same = Ret false.
Proof.
  intros H Hi Hn. apply all_false_inv in H. destruct H as (He & Hne & Hlt & Hle & Hgt & Hge & _).
  destruct op; cbn; rewrite ?He, ?Hne, ?Hlt, ?Hle, ?Hgt, ?Hge; try reflexivity; contradiction.
Qed.

Lemma ok_mres_cases m : ok_mres m = true -> m = NotImpl \/ m = Ret false.
Proof. destruct m as [|[|]|]; cbn; intros H; try discriminate; auto. Qed.

Lemma oth_method_ok o op : wellbehaved o = true -> op <> In_ -> op <> NotIn ->
  oth_method o op = NotImpl \/ oth_method o op = Ret false.
Proof.
  unfold wellbehaved. intros H Hi Hn.
  apply andb_prop in H. destruct H as [H Ho]. apply andb_prop in H. destruct H as [He Hne].
  destruct op; cbn; try contradiction; apply ok_mres_cases; assumption.
Qed.

(* the six rich operators, sentinel on either side, any well-behaved other operand *)
Lemma rich_missing_false S op sd a :
  all_false S = true -> wb_operand a = true -> op <> In_ -> op <> NotIn ->
  rich S op (fst (place sd a)) (snd (place sd a)) = RVal false.
Proof.
  intros HS Hwb Hi Hn.
  assert (Hsw_i : swap op <> In_) by (destruct op; cbn; congruence).
  assert (Hsw_n : swap op <> NotIn) by (destruct op; cbn; congruence).
  destruct sd; cbn [place fst snd].
  - (* sentinel on the left: its own method answers *)
    unfold rich. cbn [method]. rewrite (sent_method_false S op _ HS Hi Hn). reflexivity.
  - (* sentinel on the right *)
    destruct a as [|o].
    + unfold rich. cbn [method]. rewrite (sent_method_false S op _ HS Hi Hn). reflexivity.
    + unfold rich. cbn [method].
      destruct (oth_method_ok o op Hwb Hi Hn) as [E|E]; rewrite E.
      * rewrite (sent_method_false S (swap op) _ HS Hsw_i Hsw_n). reflexivity.
      * reflexivity.
Qed.

(* ------------ interpreted engine: every operator ------------ *)
Theorem interp_missing_false S Gi Gn op sd a :
  all_false S = true -> guard_ok Gi = true -> guard_ok Gn = true -> wb_operand a = true ->
  interp_cmp S Gi Gn op (fst (place sd a)) (snd (place sd a)) = RVal false.
Proof.
  intros HS HGi HGn Hwb.
  unfold guard_ok in *.
  apply andb_prop in HGi. destruct HGi as [HGi HGiv]. apply andb_prop in HGi. destruct HGi as [HGil HGir].
  apply andb_prop in HGn. destruct HGn as [HGn HGnv]. apply andb_prop in HGn. destruct HGn as [HGnl HGnr].
  apply negb_true_iff in HGiv. apply negb_true_iff in HGnv.
  destruct op; try (unfold interp_cmp; apply rich_missing_false; (assumption || discriminate)).
  - unfold interp_cmp, guarded. rewrite HGil, HGir, HGiv. destruct sd; cbn [place fst snd is_sent];
      rewrite ?orb_true_r, ?andb_true_r; cbn; reflexivity.
  - unfold interp_cmp, guarded. rewrite HGnl, HGnr, HGnv. destruct sd; cbn [place fst snd is_sent];
      rewrite ?orb_true_r, ?andb_true_r; cbn; reflexivity.
Qed.

(* ------------ compiled engine ------------ *)
(* element of a list/tuple container that can be compared with the sentinel without matching it *)
Definition elem_ok (e : elem) : bool :=
  match e with ESent => false | EOther o => ok_mres (o_eq_of o) end.

(* the shapes on which plain Python evaluation gives False; everything else is a known finding *)
Definition compiled_ok (op : cmpop) (sd : side) (a : operand) : bool :=
  match op with
  | NotIn => false
  | In_ =>
      match sd with
      | SRight => true                      (* x in <missing> : sentinel.__contains__ *)
      | SLeft =>                            (* <missing> in x *)
          match a with
          | OSent => true
          | OOth o =>
              match o_cont_of o with
              | CSeq es => forallb elem_ok es
              | CRes (Ret false) => true
              | CRes _ => false
              end
          end
      end
  | _ => wb_operand a
  end.

Lemma seq_contains_false S es : all_false S = true -> forallb elem_ok es = true -> seq_contains S es = RVal false.
Proof.
  intros HS. induction es as [|e es IH]; cbn [forallb seq_contains]; intros H; [reflexivity|].
  apply andb_prop in H. destruct H as [He Hes].
  destruct e as [|o]; cbn in He; [discriminate|].
  assert (Hm : elem_matches S (EOther o) = RVal false).
  { unfold elem_matches, rich. cbn [method oth_method].
    destruct (ok_mres_cases _ He) as [E|E]; rewrite E; [|reflexivity].
    cbn [swap method is_sent]. rewrite (sent_method_false S Eq _ HS); [reflexivity|discriminate|discriminate]. }
  rewrite Hm. apply IH. exact Hes.
Qed.

Theorem compiled_missing_false S op sd a :
  all_false S = true -> compiled_ok op sd a = true ->
  compiled_cmp S op (fst (place sd a)) (snd (place sd a)) = RVal false.
Proof.
  intros HS Hok.
  destruct op; try (unfold compiled_cmp; cbn in Hok; apply rich_missing_false; (assumption || discriminate)).
  - (* In_ *)
    pose proof (all_false_inv S HS) as (_ & _ & _ & _ & _ & _ & Hc).
    destruct sd; cbn [place fst snd compiled_cmp].
    + destruct a as [|o]; cbn [contains].
      * rewrite Hc. reflexivity.
      * cbn in Hok. destruct (o_cont_of o) as [es|[|[|]|]]; try discriminate Hok.
        -- apply seq_contains_false; assumption.
        -- reflexivity.
    + cbn [contains]. rewrite Hc. reflexivity.
  - cbn in Hok. discriminate.
Qed.

(* ------------ boolean contexts keep "no error" and the comparison's falsity ------------ *)
Lemma in_ctx_false interpreted c :
  in_ctx interpreted c (RVal false) = RVal (match c with CNot => true | _ => false end).
Proof. destruct c; reflexivity. Qed.

(* ------------ helpers skip missing fields ------------ *)
Section HelpersP.
Context {V : Type}.
Variable getf : string -> option V.
Variable test : V -> bool.
Definition has (f : string) : bool := match getf f with Some _ => true | None => false end.

Lemma helper_loop_skips fs : helper_loop getf test fs = helper_loop getf test (filter has fs).
Proof.
  induction fs as [|f fs IH]; [reflexivity|].
  cbn [filter]. unfold has at 1. cbn [helper_loop].
  destruct (getf f) as [v|] eqn:E.
  - cbn [helper_loop]. rewrite E. rewrite IH. reflexivity.
  - exact IH.
Qed.

Lemma helper_loop_spec fs :
  helper_loop getf test fs = existsb (fun f => match getf f with Some v => test v | None => false end) fs.
Proof.
  induction fs as [|f fs IH]; [reflexivity|]. cbn [helper_loop existsb].
  destruct (getf f) as [v|]; [destruct (test v); [reflexivity|exact IH]|exact IH].
Qed.
End HelpersP.

(* ------------ filtering a heterogeneous source ------------ *)
Section FilteringP.
Context {R : Type}.
Variable sel : R -> res.
Definition truth (r : R) : bool := match sel r with RVal true => true | _ => false end.

Lemma read_with_no_error rs :
  Forall (fun r => exists b, sel r = RVal b) rs ->
  read_with sel rs = (filter truth rs, false).
Proof.
  induction 1 as [|r rs [b Hb] _ IH]; [reflexivity|].
  cbn [read_with filter]. unfold truth at 1. rewrite Hb. destruct b.
  - rewrite IH. reflexivity.
  - exact IH.
Qed.
End FilteringP.
