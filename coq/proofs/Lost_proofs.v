(* C04: a DESCRIPTOR frame lost as a whole (its write failed, the application carried on).
   The reader then runs the later frames with a registry that lacks one definition.  Decoding is monotone in the
   registry: whatever decodes with fewer definitions decodes to the same object with more, as long as the added
   definition does not shadow an existing one.  Hence the run without the definition yields a PREFIX of the objects
   of the complete run (and then raises at the first record that needs the lost definition). *)
From Coq Require Import List Bool NArith ZArith Lia.
From Coq Require Import Init.Byte.
From FR Require Import Bytes Msgpack Msgpack_proofs Packer Stream Stream_proofs Cut_proofs.
Import ListNotations.

Section Lost.
Variable c : cfg.
Variable HASH : desc -> Z.

(* every identifier r1 resolves, r2 resolves to the same definition *)
Definition reg_le (r1 r2 : registry) : Prop :=
  (forall n h d, reg_find r1 n h = Some d -> reg_find r2 n h = Some d) /\
  (forall n d, reg_find_name r1 n = Some d -> reg_find_name r2 n = Some d).

Lemma reg_le_refl r : reg_le r r.
Proof. split; intros; assumption. Qed.

Lemma reg_le_add r1 r2 d : reg_le r1 r2 -> reg_le (reg_add HASH r1 d) (reg_add HASH r2 d).
Proof.
  intros [H1 H2]. unfold reg_add. split.
  - intros n h d0. cbn [reg_find]. destruct (bytes_eqb (d_name d) n && Z.eqb (HASH d) h); [auto|apply H1].
  - intros n d0. cbn [reg_find_name]. destruct (bytes_eqb (d_name d) n); [auto|apply H2].
Qed.

(* the lost definition shadows nothing the registry already resolves *)
Definition fresh (r : registry) (d : desc) : Prop :=
  reg_find r (d_name d) (HASH d) = None /\ reg_find_name r (d_name d) = None.

Lemma reg_le_fresh r d : fresh r d -> reg_le r (reg_add HASH r d).
Proof.
  intros [F1 F2]. unfold reg_add. split.
  - intros n h d0 H. cbn [reg_find].
    destruct (bytes_eqb (d_name d) n && Z.eqb (HASH d) h) eqn:E; [|exact H].
    apply andb_prop in E. destruct E as [E1 E2]. apply bytes_eqb_eq in E1. apply Z.eqb_eq in E2. subst.
    rewrite F1 in H. discriminate.
  - intros n d0 H. cbn [reg_find_name].
    destruct (bytes_eqb (d_name d) n) eqn:E; [|exact H].
    apply bytes_eqb_eq in E. subst. rewrite F2 in H. discriminate.
Qed.

Lemma lookup_le r1 r2 id d : reg_le r1 r2 -> lookup_ident r1 id = Some d -> lookup_ident r2 id = Some d.
Proof.
  intros [H1 H2] H. unfold lookup_ident in *.
  destruct id as [| | | | | | | |]; try discriminate; try (apply H2; exact H).
  all: repeat match goal with
       | H : match ?l with _ => _ end = Some _ |- _ => destruct l; try discriminate
       | x : xv |- _ => destruct x; try discriminate
       end; try (apply H1; exact H); try (apply H2; exact H).
Qed.

Lemma all_some_map_mono {A B} (f1 f2 : A -> option B) (l : list A) r :
  (forall x v, f1 x = Some v -> f2 x = Some v) ->
  all_some (map f1 l) = Some r -> all_some (map f2 l) = Some r.
Proof.
  intros Hf. revert r. induction l as [|x l IH]; intros r H; cbn [map all_some] in *; [exact H|].
  destruct (f1 x) as [v|] eqn:E; [|discriminate]. rewrite (Hf _ _ E).
  destruct (all_some (map f1 l)) as [r'|] eqn:E2; [|discriminate]. rewrite (IH r' eq_refl). exact H.
Qed.

Lemma all_some_zip_mono {A B C} (f1 f2 : A -> B -> option C) ts vs r :
  (forall t x v, f1 t x = Some v -> f2 t x = Some v) ->
  all_some (zip_opt f1 ts vs) = Some r -> all_some (zip_opt f2 ts vs) = Some r.
Proof.
  intros Hf. revert vs r. induction ts as [|t ts IH]; intros vs r H; [exact H|].
  destruct vs as [|x vs]; [exact H|]. cbn [zip_opt all_some] in *.
  destruct (f1 t x) as [v|] eqn:E; [|discriminate]. rewrite (Hf _ _ _ E).
  destruct (all_some (zip_opt f1 ts vs)) as [r'|] eqn:E2; [|discriminate]. rewrite (IH vs r' E2). exact H.
Qed.

(* decoding a value of a declared type is monotone in the registry *)
Lemma unpack_f_mono : forall depth r1 r2 t x v, reg_le r1 r2 ->
  unpack_f c depth r1 t x = Some v -> unpack_f c depth r2 t x = Some v.
Proof.
  induction depth as [|dp IH]; intros r1 r2 t x v Hle H; [discriminate|].
  cbn [unpack_f] in *.
  destruct x as [| b | z | n | s | s | l | l | sub p]; try exact H;
    destruct t; try exact H.
  - (* TList over XArr *)
    destruct (all_some (map (unpack_f c dp r1 t) l)) as [r|] eqn:E; [|discriminate].
    rewrite (all_some_map_mono _ (unpack_f c dp r2 t) l r (fun x v0 => IH r1 r2 t x v0 Hle) E). exact H.
  - (* TRecord over XExt *)
    destruct p as [| | | | | | pl | |]; try exact H.
    destruct pl as [|ident [|vv [|? ?]]]; try exact H.
    destruct vv as [| | | | | | vals | |]; try exact H.
    destruct (negb (Z.eqb sub (SUB_RECORD c))); [exact H|].
    destruct (lookup_ident r1 ident) as [d|] eqn:EL; [|discriminate].
    rewrite (lookup_le r1 r2 ident d Hle EL).
    destruct vals as [|v0 vals]; [exact H|].
    destruct (fit true (List.length (field_types d)) (v0 :: vals)) as [vals'|]; [|exact H].
    destruct (all_some (zip_opt (unpack_f c dp r1) (field_types d) vals')) as [r|] eqn:E; [|discriminate].
    rewrite (all_some_zip_mono _ (unpack_f c dp r2) _ _ r (fun t0 x v1 => IH r1 r2 t0 x v1 Hle) E). exact H.
Qed.

Lemma unpack_member_mono depth r1 r2 x m : reg_le r1 r2 ->
  unpack_member c depth r1 x = Some m -> unpack_member c depth r2 x = Some m.
Proof.
  intros Hle H. unfold unpack_member in *.
  destruct x as [| | | | | | l | |]; try (cbn in H; discriminate).
  destruct l as [|ident [|vv [|w ws]]]; try (cbn in H; discriminate).
  - destruct vv as [| | | | | | vals | |]; try (cbn in H; discriminate).
    destruct (lookup_ident r1 ident) as [d|] eqn:EL; [|discriminate].
    rewrite (lookup_le r1 r2 ident d Hle EL).
    destruct (fit false (List.length (field_types d)) vals) as [vals'|]; [|exact H].
    destruct (all_some (zip_opt (unpack_f c depth r1) (field_types d) vals')) as [r|] eqn:E; [|discriminate].
    rewrite (all_some_zip_mono _ (unpack_f c depth r2) _ _ r (fun t0 x v1 => unpack_f_mono depth r1 r2 t0 x v1 Hle) E). exact H.
  - destruct vv; cbn in H; discriminate.
Qed.

(* what one frame body decodes to: with more definitions, the same object - unless it did not decode at all *)
Lemma interpret_mono depth r1 r2 x : reg_le r1 r2 ->
  interpret c depth r1 x = OError \/ interpret c depth r2 x = interpret c depth r1 x.
Proof.
  intros Hle. unfold interpret.
  destruct x as [| | | | | s | | | sub p]; try (right; reflexivity).
  destruct (Z.eqb sub (SUB_DESC c)); [right; reflexivity|].
  destruct (Z.eqb sub (SUB_RECORD c)).
  - unfold unpack_rec.
    destruct (unpack_f c depth r1 TRecord (XExt sub p)) as [v|] eqn:E; [|left; reflexivity].
    rewrite (unpack_f_mono depth r1 r2 TRecord _ v Hle E). right. reflexivity.
  - destruct (Z.eqb sub (SUB_GROUPED c)); [|right; reflexivity].
    destruct p as [| | | | | | pl | |]; try (right; reflexivity).
    destruct pl as [|nm [|mm [|? ?]]]; try (right; reflexivity).
    destruct nm; try (right; reflexivity).
    destruct mm as [| | | | | | ms | |]; try (right; reflexivity).
    destruct (all_some (map (unpack_member c depth r1) ms)) as [rs|] eqn:E; [|left; reflexivity].
    rewrite (all_some_map_mono _ (unpack_member c depth r2) ms rs (fun x m => unpack_member_mono depth r1 r2 x m Hle) E).
    right. reflexivity.
Qed.

Lemma decode_body_mono depth r1 r2 b : reg_le r1 r2 ->
  decode_body c depth r1 b = OError \/ decode_body c depth r2 b = decode_body c depth r1 b.
Proof.
  intros Hle. unfold decode_body. destruct (unpackb b) as [m| | | |]; try (left; reflexivity).
  destruct (raise_ c depth m) as [x|]; [|left; reflexivity]. apply interpret_mono. exact Hle.
Qed.

(* THE RUN: with fewer definitions the reader yields a prefix of what it yields with more *)
Lemma run_bodies_mono depth : forall post r1 r2 oc1 oc2, reg_le r1 r2 ->
  exists rest,
    fst (run_bodies c HASH depth r2 post (fun _ => ([], oc2))) =
    fst (run_bodies c HASH depth r1 post (fun _ => ([], oc1))) ++ rest.
Proof.
  induction post as [|b t IH]; intros r1 r2 oc1 oc2 Hle; cbn [run_bodies].
  - exists []. reflexivity.
  - destruct (decode_body_mono depth r1 r2 b Hle) as [E|E].
    + rewrite E. cbn [fst app]. eexists. reflexivity.
    + rewrite E. destruct (decode_body c depth r1 b) as [|d|it| |].
      * apply IH. exact Hle.
      * apply IH. apply reg_le_add. exact Hle.
      * destruct (IH r1 r2 oc1 oc2 Hle) as (rest & Hr).
        destruct (run_bodies c HASH depth r2 t (fun _ => ([], oc2))) as [o2 c2].
        destruct (run_bodies c HASH depth r1 t (fun _ => ([], oc1))) as [o1 c1].
        cbn [fst] in *. exists rest. rewrite Hr. reflexivity.
      * destruct (IH r1 r2 oc1 oc2 Hle) as (rest & Hr).
        destruct (run_bodies c HASH depth r2 t (fun _ => ([], oc2))) as [o2 c2].
        destruct (run_bodies c HASH depth r1 t (fun _ => ([], oc1))) as [o1 c1].
        cbn [fst] in *. exists rest. rewrite Hr. reflexivity.
      * cbn [fst app]. eexists. reflexivity.
Qed.

(* A lost descriptor frame.  [pre ++ b :: post] are the bodies of the complete stream, b decodes (in the registry reached
   after pre) to the definition d, and d shadows nothing that registry resolves.  Then what the reader yields without b
   is a PREFIX of what it yields on the complete stream: no record is altered or invented; the run stops (raises) at the
   first record that needs d. *)
Theorem lost_descriptor_frame depth : forall pre b post reg d r out oc1 oc2,
  run_pre c HASH depth reg pre = (out, Some r) ->
  decode_body c depth r b = ODesc d -> fresh r d ->
  exists rest,
    fst (run_bodies c HASH depth reg (pre ++ b :: post) (fun _ => ([], oc2))) =
    fst (run_bodies c HASH depth reg (pre ++ post) (fun _ => ([], oc1))) ++ rest.
Proof.
  intros pre b post reg d r out oc1 oc2 Hpre Hb Hf.
  rewrite !(run_bodies_app c HASH depth). rewrite !(run_bodies_pre c HASH depth pre). rewrite Hpre.
  cbn [run_bodies]. rewrite Hb.
  destruct (run_bodies_mono depth post r (reg_add HASH r d) oc1 oc2 (reg_le_fresh r d Hf)) as (rest & Hr).
  destruct (run_bodies c HASH depth (reg_add HASH r d) post (fun _ => ([], oc2))) as [o2 c2].
  destruct (run_bodies c HASH depth r post (fun _ => ([], oc1))) as [o1 c1].
  cbn [fst] in *. exists rest. rewrite Hr. rewrite app_assoc. reflexivity.
Qed.

End Lost.
