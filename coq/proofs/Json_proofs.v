(* Proofs about model/Json.v: base64, ISO timestamps, value / record / stream round trips, document shapes,
   the plain-document fallback. *)
From Coq Require Import List Bool NArith ZArith Lia ZifyBool String Ascii.
From Coq Require Import Init.Byte.
From FR Require Import Bytes Json.
Import ListNotations.
Open Scope N_scope.

Ltac Zify.zify_post_hook ::= Z.to_euclidean_division_equations.

(* ------------------------------------------------------------------------------------------ *)
(* 0. small facts                                                                               *)

Lemma text_eqb_eq a b : text_eqb a b = true <-> a = b.
Proof.
  revert b; induction a as [|x a IH]; intros [|y b]; cbn; split; intros H; try reflexivity; try discriminate.
  - apply andb_prop in H. destruct H as [H1 H2]. apply N.eqb_eq in H1. apply IH in H2. congruence.
  - inversion H; subst. rewrite N.eqb_refl. cbn. apply IH. reflexivity.
Qed.
Lemma text_eqb_refl a : text_eqb a a = true.
Proof. apply text_eqb_eq. reflexivity. Qed.
Lemma text_eqb_neq a b : text_eqb a b = false <-> a <> b.
Proof.
  split.
  - intros H E. apply text_eqb_eq in E. congruence.
  - intros H. destruct (text_eqb a b) eqn:E; [apply text_eqb_eq in E; contradiction|reflexivity].
Qed.
Lemma text_eqb_sym a b : text_eqb a b = text_eqb b a.
Proof.
  destruct (text_eqb a b) eqn:E.
  - apply text_eqb_eq in E. subst. symmetry. apply text_eqb_refl.
  - symmetry. apply text_eqb_neq. apply text_eqb_neq in E. congruence.
Qed.

Lemma mem_In x l : mem x l = true <-> In x l.
Proof.
  unfold mem. rewrite existsb_exists. split.
  - intros [y [Hy E]]. apply text_eqb_eq in E. subst. exact Hy.
  - intros H. exists x. split; [exact H|apply text_eqb_refl].
Qed.
Lemma mem_not_In x l : mem x l = false <-> ~ In x l.
Proof.
  split.
  - intros H HI. apply mem_In in HI. congruence.
  - intros H. destruct (mem x l) eqn:E; [apply mem_In in E; contradiction|reflexivity].
Qed.

Lemma nodup_text_NoDup l : nodup_text l = true -> NoDup l.
Proof.
  induction l as [|x l IH]; cbn; intros H; [constructor|].
  apply andb_prop in H. destruct H as [H1 H2]. constructor.
  - apply negb_true_iff in H1. apply mem_not_In in H1. exact H1.
  - apply IH. exact H2.
Qed.

Lemma all_some_map_Some {A B} (f : A -> option B) (g : A -> B) l :
  (forall x, In x l -> f x = Some (g x)) -> all_some (map f l) = Some (map g l).
Proof.
  induction l as [|x l IH]; intros H; cbn; [reflexivity|].
  rewrite (H x (or_introl eq_refl)). rewrite IH; [reflexivity|]. intros y Hy. apply H. right. exact Hy.
Qed.

(* a finite check over 0..n-1 lifts to all i < n *)
Lemma forall_below (P : N -> bool) (n : nat) :
  forallb P (map N.of_nat (seq 0 n)) = true -> forall i, i < N.of_nat n -> P i = true.
Proof.
  intros H i Hi. rewrite forallb_forall in H. apply H. apply in_map_iff. exists (N.to_nat i). split; [lia|].
  apply in_seq. lia.
Qed.

(* ------------------------------------------------------------------------------------------ *)
(* 1. base64                                                                                    *)

(* the 64 alphabet characters decode to their index and none is the padding character: finite check *)
Lemma b64_val_char i : i < 64 -> b64_val (b64_char i) = Some i.
Proof.
  intros H.
  pose (P := fun i => match b64_val (b64_char i) with Some j => j =? i | None => false end).
  assert (G : P i = true).
  { apply (forall_below P 64); [vm_compute; reflexivity|exact H]. }
  unfold P in G. destruct (b64_val (b64_char i)) as [j|]; [|discriminate]. apply N.eqb_eq in G. congruence.
Qed.

Lemma b64_char_not_pad i : i < 64 -> (b64_char i =? PAD) = false.
Proof.
  intros H.
  pose (P := fun i => negb (b64_char i =? PAD)).
  assert (G : P i = true).
  { apply (forall_below P 64); [vm_compute; reflexivity|exact H]. }
  unfold P in G. apply negb_true_iff in G. exact G.
Qed.

Lemma list3_ind {A} (P : list A -> Prop) :
  P [] -> (forall a, P [a]) -> (forall a b, P [a; b]) -> (forall a b c r, P r -> P (a :: b :: c :: r)) -> forall l, P l.
Proof.
  intros H0 H1 H2 H3. fix IH 1. intros [|a [|b [|c r]]].
  - exact H0. - apply H1. - apply H2. - apply H3. apply IH.
Qed.

Lemma b64_decode_full c0 c1 c2 c3 rest :
  (c3 =? PAD) = false ->
  b64_decode (c0 :: c1 :: c2 :: c3 :: rest) =
  match b64_val c0, b64_val c1, b64_val c2, b64_val c3 with
  | Some s0, Some s1, Some s2, Some s3 =>
      match b64_decode rest with
      | Some r => Some (n2b (s0 * 4 + s1 / 16) :: n2b ((s1 mod 16) * 16 + s2 / 4) :: n2b ((s2 mod 4) * 64 + s3) :: r)
      | None => None
      end
  | _, _, _, _ => None
  end.
Proof. intros H. cbn [b64_decode]. rewrite H. reflexivity. Qed.

Lemma n2b_of (x : byte) n : n = b2n x -> n2b n = x.
Proof. intros ->. apply n2b_b2n. Qed.

(* base64.b64decode(base64.b64encode(bs)) == bs for ALL byte strings: induction over 3-byte groups, the
   group identities by linear arithmetic over div / mod (lia), the alphabet facts by finite computation *)
Theorem b64_roundtrip bs : b64_decode (b64_encode bs) = Some bs.
Proof.
  induction bs as [|a|a b|a b c r IH] using list3_ind.
  - reflexivity.
  - pose proof (b2n_lt a) as Ha. cbn [b64_encode].
    cbn [b64_decode]. rewrite N.eqb_refl.
    rewrite !b64_val_char by lia. f_equal. f_equal. apply n2b_of. lia.
  - pose proof (b2n_lt a) as Ha. pose proof (b2n_lt b) as Hb. cbn [b64_encode].
    cbn [b64_decode]. rewrite N.eqb_refl. rewrite (b64_char_not_pad ((b2n b mod 16) * 4)) by lia.
    rewrite !b64_val_char by lia. f_equal. f_equal; [|f_equal]; apply n2b_of; lia.
  - pose proof (b2n_lt a) as Ha. pose proof (b2n_lt b) as Hb. pose proof (b2n_lt c) as Hc. cbn [b64_encode].
    rewrite b64_decode_full by (apply b64_char_not_pad; lia).
    rewrite !b64_val_char by lia. rewrite IH. f_equal. f_equal; [|f_equal; [|f_equal]]; apply n2b_of; lia.
Qed.

(* ------------------------------------------------------------------------------------------ *)
(* 2. ISO timestamps                                                                            *)

Lemma digits_length k : forall n, List.length (digits k n) = k.
Proof. induction k as [|k IH]; intros n; cbn; [reflexivity|]. rewrite app_length, IH. cbn. lia. Qed.

Lemma num_acc_app a b : forall acc, num_acc acc (a ++ b) = match num_acc acc a with Some x => num_acc x b | None => None end.
Proof.
  induction a as [|c a IH]; intros acc; cbn; [reflexivity|].
  destruct ((48 <=? c) && (c <=? 57)); [apply IH|reflexivity].
Qed.

Lemma num_acc_digits k : forall n acc, num_acc acc (digits k n) = Some (acc * 10 ^ N.of_nat k + n mod 10 ^ N.of_nat k).
Proof.
  induction k as [|k IH]; intros n acc.
  - cbn. f_equal. rewrite N.mod_1_r. lia.
  - cbn [digits]. rewrite num_acc_app, IH. cbn [num_acc]. unfold digit.
    assert (D : n mod 10 < 10) by (apply N.mod_lt; lia).
    replace ((48 <=? 48 + n mod 10) && (48 + n mod 10 <=? 57)) with true by (symmetry; apply andb_true_iff; split; apply N.leb_le; lia).
    f_equal. rewrite Nat2N.inj_succ, N.pow_succ_r by lia.
    set (p := 10 ^ N.of_nat k) in *.
    assert (Hp : p <> 0) by (unfold p; apply N.pow_nonzero; lia).
    rewrite (N.mod_mul_r n 10 p) by lia.
    replace (48 + n mod 10 - 48) with (n mod 10) by lia. lia.
Qed.

Lemma take_num_digits k n r : n < 10 ^ N.of_nat k -> take_num k (digits k n ++ r) = Some (n, r).
Proof.
  intros H. unfold take_num. rewrite app_length, digits_length.
  replace (Nat.ltb (k + List.length r) k) with false by (symmetry; apply Nat.ltb_ge; lia).
  rewrite firstn_app, digits_length, Nat.sub_diag. cbn [firstn]. rewrite app_nil_r.
  rewrite <- (digits_length k n) at 1. rewrite firstn_all.
  rewrite num_acc_digits. rewrite N.mod_small by exact H. cbn [N.mul N.add].
  rewrite skipn_app, digits_length, Nat.sub_diag. cbn [skipn].
  rewrite <- (digits_length k n) at 1. rewrite skipn_all. reflexivity.
Qed.

Lemma take_num_digits_end k n : n < 10 ^ N.of_nat k -> take_num k (digits k n) = Some (n, []).
Proof. intros H. rewrite <- (app_nil_r (digits k n)). apply take_num_digits. exact H. Qed.

Lemma pow10_2 : 10 ^ N.of_nat 2 = 100. Proof. reflexivity. Qed.
Lemma pow10_4 : 10 ^ N.of_nat 4 = 10000. Proof. reflexivity. Qed.
Lemma pow10_6 : 10 ^ N.of_nat 6 = 1000000. Proof. reflexivity. Qed.

Lemma take_frac_none c r : c <> 46 -> take_frac (c :: r) = Some (0, c :: r).
Proof.
  intros H. unfold take_frac.
  destruct c as [|p]; [reflexivity|].
  do 6 (destruct p as [p|p|]; try reflexivity). exfalso. apply H. reflexivity.
Qed.

Local Opaque digits take_num.

Lemma parse_offset_format off : (- DAY_US < off < DAY_US)%Z -> parse_offset (iso_offset off) = Some off.
Proof.
  intros H. unfold DAY_US in H. unfold iso_offset.
  set (a := Z.abs_N off).
  assert (Ha : a < 86400000000) by (unfold a; lia).
  set (us := a mod 1000000). set (secs := a / 1000000).
  set (hh := secs / 3600). set (mm := (secs / 60) mod 60). set (ss := secs mod 60).
  assert (Hus : us < 1000000) by (unfold us; lia).
  assert (Hhh : hh < 100) by (unfold hh, secs; lia).
  assert (Hmm : mm < 100) by (unfold mm; lia).
  assert (Hss : ss < 100) by (unfold ss; lia).
  assert (Hsum : (hh * 3600 + mm * 60 + ss) * 1000000 + us = a) by (unfold hh, mm, ss, us, secs; lia).
  assert (Hsign : (if Z.ltb off 0 then (- Z.of_N a)%Z else Z.of_N a) = off).
  { unfold a. destruct (Z.ltb off 0) eqn:E; lia. }
  assert (Hrest : forall neg : bool, (if neg then (- Z.of_N a)%Z else Z.of_N a) = off ->
    parse_offset_tail neg (digits 2 hh ++ 58 :: digits 2 mm ++
          (if (ss =? 0) && (us =? 0) then [] else 58 :: digits 2 ss ++ (if us =? 0 then [] else 46 :: digits 6 us))) = Some off).
  { intros neg Hneg. unfold parse_offset_tail.
    rewrite take_num_digits by (rewrite pow10_2; exact Hhh). cbn [obind expect N.eqb Pos.eqb].
    rewrite take_num_digits by (rewrite pow10_2; exact Hmm). cbn [obind].
    destruct ((ss =? 0) && (us =? 0)) eqn:E.
    - apply andb_prop in E. destruct E as [E1 E2]. apply N.eqb_eq in E1, E2.
      cbn [obind]. cbv zeta. f_equal. rewrite <- Hneg. rewrite <- Hsum, E1, E2. reflexivity.
    - rewrite take_num_digits by (rewrite pow10_2; exact Hss). cbn [obind].
      destruct (us =? 0) eqn:E2.
      + apply N.eqb_eq in E2. cbn [take_frac obind]. cbv zeta. f_equal. rewrite <- Hneg. rewrite <- Hsum, E2. reflexivity.
      + cbn [take_frac]. rewrite take_num_digits_end by (rewrite pow10_6; exact Hus). cbn [obind]. cbv zeta.
        f_equal. rewrite <- Hneg. rewrite <- Hsum. reflexivity. }
  unfold parse_offset.
  destruct (Z.ltb off 0) eqn:E; apply Hrest; exact Hsign.
Qed.

Lemma iso_offset_head off : exists c r, iso_offset off = c :: r /\ c <> 46.
Proof.
  unfold iso_offset. destruct (Z.ltb off 0); eexists; eexists; (split; [reflexivity|discriminate]).
Qed.

(* datetime.fromisoformat(dt.isoformat()) gives back every field and the offset *)
Theorem iso_roundtrip d : dtm_wf d = true -> iso_parse (iso_format d) = Some d.
Proof.
  intros H. unfold dtm_wf in H.
  repeat (apply andb_prop in H; let H' := fresh "W" in destruct H as [H H']).
  repeat match goal with
         | X : N.ltb _ _ = true |- _ => apply N.ltb_lt in X
         | X : Z.ltb _ _ = true |- _ => apply Z.ltb_lt in X
         end.
  destruct d as [y mo dd h mi s us off]. cbn [dy dmo Json.dd dh dmi ds dus doff] in *.
  unfold iso_format, iso_parse. cbn [dy dmo Json.dd dh dmi ds dus doff].
  rewrite take_num_digits by (rewrite pow10_4; assumption). cbn [obind expect N.eqb Pos.eqb].
  rewrite take_num_digits by (rewrite pow10_2; assumption). cbn [obind expect N.eqb Pos.eqb].
  rewrite take_num_digits by (rewrite pow10_2; assumption). cbn [obind expect N.eqb Pos.eqb].
  rewrite take_num_digits by (rewrite pow10_2; assumption). cbn [obind expect N.eqb Pos.eqb].
  rewrite take_num_digits by (rewrite pow10_2; assumption). cbn [obind expect N.eqb Pos.eqb].
  rewrite take_num_digits by (rewrite pow10_2; assumption). cbn [obind].
  destruct (us =? 0) eqn:E.
  - apply N.eqb_eq in E. subst us. cbn [app].
    destruct (iso_offset_head off) as [c [r [Ho Hc]]]. rewrite Ho.
    rewrite take_frac_none by exact Hc. cbn [obind]. rewrite <- Ho.
    rewrite parse_offset_format by lia. reflexivity.
  - cbn [app take_frac]. rewrite take_num_digits by (rewrite pow10_6; assumption). cbn [obind].
    rewrite parse_offset_format by lia. reflexivity.
Qed.

(* ------------------------------------------------------------------------------------------ *)
(* 3. what cfg_ok gives                                                                         *)

Record cfg_facts (c : jcfg) : Prop := {
  f_dt : dispatch c CDatetime = Some AIsoformat;
  f_dg : dispatch c CDigest = Some ADigestDict;
  f_ip : dispatch c CIpAddress = Some AStr;
  f_net : dispatch c CIpNetwork = Some AStr;
  f_bytes : dispatch c CBytes = Some ABase64;
  f_path : dispatch c CPath = Some AStr;
  f_kinds : forall t k, In (t, k) (type_kinds c) ->
            match k with
            | KBool => mem t (bool_cast_types c) = true
            | KBytes => mem t (b64_scalar_types c) = true /\ mem (t ++ [91; 93]) (b64_list_types c) = true
            | _ => True
            end;
  f_skip : skip_none c = true;
  f_mg : markers_guarded c = true;
  f_pg : pack_guard_compares_desc c = true;
  f_rg : register_guard_compares_desc c = true;
  f_rr : reader_registers c = true;
  f_rm : reader_removes_markers c = true;
  f_m_ne : record_marker c <> descriptor_marker c;
  f_k_ne : type_key c <> desc_key c;
  f_d_ne : type_key c <> data_key c;
  f_dflt : ftv_default c = T "string";
  f_ftv_str : ftv_first (ftv_branches c) [T "str"] = Some (T "string");
  f_ftv_float : ftv_first (ftv_branches c) [T "float"] = Some (T "float");
  f_ftv_bool : ftv_first (ftv_branches c) [T "bool"; T "int"] = Some (T "boolean");
  f_ftv_int : ftv_first (ftv_branches c) [T "int"] = Some (T "varint");
  f_ts_str : type_shape c (T "string") = Some (KStr, false);
  f_ts_float : type_shape c (T "float") = Some (KFloat, false);
  f_ts_bool : type_shape c (T "boolean") = Some (KBool, false);
  f_ts_int : type_shape c (T "varint") = Some (KInt, false);
  f_res_us : forall f, In f (reserved c) -> starts_underscore (snd f) = true;
  f_vk_us : starts_underscore (version_key c) = true;
  f_gk_us : starts_underscore (generated_key c) = true;
  f_res_ty : forall f, In f (reserved c) -> exists k, type_shape c (fst f) = Some (k, false) /\ k <> KDigest
}.

Lemma opt_text_eqb_eq a b : opt_text_eqb a b = true -> a = b.
Proof.
  destruct a as [x|], b as [y|]; cbn; intros H; try discriminate; [|reflexivity].
  apply text_eqb_eq in H. congruence.
Qed.

Lemma cfg_ok_facts c : cfg_ok c = true -> cfg_facts c.
Proof.
  intros H. unfold cfg_ok in H.
  repeat match goal with
         | X : _ && _ = true |- _ => let X' := fresh "Q" in apply andb_prop in X; destruct X as [X X']
         end.
  constructor.
  - destruct (dispatch c CDatetime) as [[]|]; try discriminate; reflexivity.
  - destruct (dispatch c CDigest) as [[]|]; try discriminate; reflexivity.
  - destruct (dispatch c CIpAddress) as [[]|]; try discriminate; reflexivity.
  - destruct (dispatch c CIpNetwork) as [[]|]; try discriminate; reflexivity.
  - destruct (dispatch c CBytes) as [[]|]; try discriminate; reflexivity.
  - destruct (dispatch c CPath) as [[]|]; try discriminate; reflexivity.
  - intros t k Hin.
    match goal with X : forallb _ (type_kinds c) = true |- _ => rewrite forallb_forall in X; specialize (X _ Hin); cbn [fst snd] in X end.
    destruct k; try exact I; try assumption.
    match goal with X : _ && _ = true |- _ => apply andb_prop in X; exact X end.
  - assumption. - assumption. - assumption. - assumption. - assumption. - assumption.
  - match goal with X : negb (text_eqb (record_marker c) _) = true |- _ => apply negb_true_iff, text_eqb_neq in X; exact X end.
  - match goal with X : negb (text_eqb (type_key c) (desc_key c)) = true |- _ => apply negb_true_iff, text_eqb_neq in X; exact X end.
  - match goal with X : negb (text_eqb (type_key c) (data_key c)) = true |- _ => apply negb_true_iff, text_eqb_neq in X; exact X end.
  - match goal with X : text_eqb (ftv_default c) _ = true |- _ => apply text_eqb_eq in X; exact X end.
  - match goal with X : opt_text_eqb (ftv_first _ [T "str"]) _ = true |- _ => apply opt_text_eqb_eq in X; exact X end.
  - match goal with X : opt_text_eqb (ftv_first _ [T "float"]) _ = true |- _ => apply opt_text_eqb_eq in X; exact X end.
  - match goal with X : opt_text_eqb (ftv_first _ [T "bool"; T "int"]) _ = true |- _ => apply opt_text_eqb_eq in X; exact X end.
  - match goal with X : opt_text_eqb (ftv_first _ [T "int"]) _ = true |- _ => apply opt_text_eqb_eq in X; exact X end.
  - destruct (type_shape c (T "string")) as [[[] []]|]; try discriminate; reflexivity.
  - destruct (type_shape c (T "float")) as [[[] []]|]; try discriminate; reflexivity.
  - destruct (type_shape c (T "boolean")) as [[[] []]|]; try discriminate; reflexivity.
  - destruct (type_shape c (T "varint")) as [[[] []]|]; try discriminate; reflexivity.
  - intros f Hin.
    match goal with X : forallb (fun f => starts_underscore (snd f)) _ = true |- _ => rewrite forallb_forall in X; exact (X _ Hin) end.
  - assumption.
  - assumption.
  - intros f Hin.
    match goal with X : forallb (fun f => match type_shape c (fst f) with _ => _ end) _ = true |- _ =>
      rewrite forallb_forall in X; specialize (X _ Hin); cbv beta in X end.
    destruct (type_shape c (fst f)) as [[k []]|]; try discriminate; destruct k; try discriminate;
      eexists; (split; [reflexivity|discriminate]).
Qed.

(* ------------------------------------------------------------------------------------------ *)
(* 4. values                                                                                    *)

Lemma jval_eqb_VInt v z : jval_eqb v (VInt z) = true -> v = VInt z.
Proof. destruct v; cbn; intros H; try discriminate. apply Z.eqb_eq in H. congruence. Qed.

Lemma float_roundtrip bits b64 :
  bits < 18446744073709551616 ->
  (float_finite bits || (float_mant bits =? 0) || (bits =? nonfinite_bits NFNan)) = true ->
  unpack_scalar KFloat b64 (float_json bits) = Some (VFloat bits).
Proof.
  intros Hb Hc. unfold float_json.
  destruct (float_finite bits) eqn:F; [reflexivity|].
  unfold float_finite in F. apply negb_false_iff, N.eqb_eq in F. unfold float_exp in F.
  destruct (float_mant bits =? 0) eqn:M.
  - apply N.eqb_eq in M. unfold float_mant in M. unfold float_neg.
    destruct (9223372036854775808 <=? bits) eqn:S; cbn [unpack_scalar nonfinite_bits]; f_equal; f_equal.
    + apply N.leb_le in S. lia.
    + apply N.leb_gt in S. lia.
  - cbn [orb] in Hc. apply N.eqb_eq in Hc. cbn [unpack_scalar]. f_equal. f_equal. symmetry. exact Hc.
Qed.

Section Values.
Variable c : jcfg.
Hypothesis OK : cfg_facts c.

Lemma pack_scalar_spec k v cast : val_of_kind k v = true -> pack_value c cast v = Some (json_of_value cast v).
Proof.
  destruct k, v; cbn [val_of_kind]; intros H; try discriminate; cbn [pack_value class_of json_of_value]; try reflexivity.
  - rewrite (f_dt c OK). reflexivity.
  - rewrite (f_bytes c OK). reflexivity.
  - rewrite (f_dg c OK). reflexivity.
  - rewrite (f_ip c OK). reflexivity.
  - rewrite (f_net c OK). reflexivity.
  - rewrite (f_path c OK). reflexivity.
Qed.

Lemma digest_member_md5 a b d n : opt_hex_ok n a = true ->
  digest_member n (T "md5") [(T "md5", opt_json a); (T "sha1", opt_json b); (T "sha256", opt_json d)] = Some a.
Proof.
  intros H. unfold digest_member. cbn [lookup]. change (text_eqb (T "md5") (T "md5")) with true. cbv iota.
  destruct a as [t|]; cbn [opt_json]; [|reflexivity]. cbn [opt_hex_ok] in H. rewrite H. reflexivity.
Qed.
Lemma digest_member_sha1 a b d n : opt_hex_ok n b = true ->
  digest_member n (T "sha1") [(T "md5", opt_json a); (T "sha1", opt_json b); (T "sha256", opt_json d)] = Some b.
Proof.
  intros H. unfold digest_member. cbn [lookup]. change (text_eqb (T "sha1") (T "md5")) with false.
  change (text_eqb (T "sha1") (T "sha1")) with true. cbv iota.
  destruct b as [t|]; cbn [opt_json]; [|reflexivity]. cbn [opt_hex_ok] in H. rewrite H. reflexivity.
Qed.
Lemma digest_member_sha256 a b d n : opt_hex_ok n d = true ->
  digest_member n (T "sha256") [(T "md5", opt_json a); (T "sha1", opt_json b); (T "sha256", opt_json d)] = Some d.
Proof.
  intros H. unfold digest_member. cbn [lookup]. change (text_eqb (T "sha256") (T "md5")) with false.
  change (text_eqb (T "sha256") (T "sha1")) with false. change (text_eqb (T "sha256") (T "sha256")) with true. cbv iota.
  destruct d as [t|]; cbn [opt_json]; [|reflexivity]. cbn [opt_hex_ok] in H. rewrite H. reflexivity.
Qed.

(* field_type(parsed JSON) gives back the value, for every kind *)
Lemma unpack_scalar_spec k v cast b64 :
  val_of_kind k v = true -> val_float_canonical v = true -> (k = KBytes -> b64 = true) ->
  unpack_scalar k b64 (json_of_value cast v) = Some v.
Proof.
  destruct k, v; cbn [val_of_kind]; intros H Hc Hb; try discriminate; cbn [json_of_value].
  - reflexivity.
  - reflexivity.
  - cbn [unpack_scalar]. rewrite H. reflexivity.
  - cbn [unpack_scalar]. rewrite H. reflexivity.
  - apply N.ltb_lt in H. apply float_roundtrip; assumption.
  - destruct cast; [reflexivity|]. destruct b; reflexivity.
  - cbn [unpack_scalar]. rewrite iso_roundtrip by exact H. reflexivity.
  - cbn [unpack_scalar]. rewrite (Hb eq_refl). rewrite b64_roundtrip. reflexivity.
  - apply andb_prop in H. destruct H as [H H3]. apply andb_prop in H. destruct H as [H1 H2].
    cbn [unpack_scalar]. rewrite digest_member_md5, digest_member_sha1, digest_member_sha256 by assumption. reflexivity.
  - reflexivity.
  - reflexivity.
  - reflexivity.
Qed.

Lemma json_of_scalar_not_null k v cast : val_of_kind k v = true -> json_of_value cast v <> JNull.
Proof.
  destruct k, v; cbn [val_of_kind json_of_value]; intros H; try discriminate.
  - unfold float_json. destruct (float_finite bits); [discriminate|]. destruct (float_mant bits =? 0); discriminate.
  - destruct cast; discriminate.
Qed.

Lemma pack_list_spec k l : forallb (val_of_kind k) l = true ->
  all_some (map (pack_value c false) l) = Some (map (json_of_value false) l).
Proof.
  intros H. apply all_some_map_Some. intros x Hx. rewrite forallb_forall in H. apply (pack_scalar_spec k). apply H. exact Hx.
Qed.

Lemma unpack_list_spec k b64 l :
  forallb (val_of_kind k) l = true -> forallb val_float_canonical l = true -> (k = KBytes -> b64 = true) ->
  all_some (map (unpack_scalar k b64) (map (json_of_value false) l)) = Some l.
Proof.
  intros H Hc Hb. rewrite map_map. rewrite <- (map_id l) at 2. apply all_some_map_Some.
  intros x Hx. rewrite forallb_forall in H, Hc. apply unpack_scalar_spec; auto.
Qed.

Lemma kind_lookup_In tbl t k : kind_lookup tbl t = Some k -> In (t, k) tbl.
Proof.
  induction tbl as [|[t' k'] tbl IH]; cbn; intros H; [discriminate|].
  destruct (text_eqb t t') eqn:E.
  - apply text_eqb_eq in E. inversion H; subst. left. reflexivity.
  - right. apply IH. exact H.
Qed.

(* how a type name decomposes, with the reader's / writer's per-type switches that cfg_ok guarantees *)
Lemma type_shape_facts t k islist : type_shape c t = Some (k, islist) ->
  (k = KBool -> islist = false -> mem t (bool_cast_types c) = true) /\
  (k = KBytes -> islist = false -> mem t (b64_scalar_types c) = true) /\
  (k = KBytes -> islist = true -> mem t (b64_list_types c) = true).
Proof.
  unfold type_shape. intros H.
  destruct (rev t) as [|x1 [|x2 r]] eqn:R.
  - destruct (kind_lookup (type_kinds c) t) as [k'|] eqn:L; [|discriminate]. inversion H; subst.
    apply kind_lookup_In in L. pose proof (f_kinds c OK _ _ L) as F.
    repeat split; intros -> E; try discriminate; try (destruct F; assumption); exact F.
  - assert (H' : match kind_lookup (type_kinds c) t with Some k => Some (k, false) | None => None end = Some (k, islist)).
    { destruct x1 as [|p]; [exact H|]. repeat (destruct p as [p|p|]; try exact H). }
    destruct (kind_lookup (type_kinds c) t) as [k'|] eqn:L; [|discriminate]. inversion H'; subst.
    apply kind_lookup_In in L. pose proof (f_kinds c OK _ _ L) as F.
    repeat split; intros -> E; try discriminate; try (destruct F; assumption); exact F.
  - destruct (N.eq_dec x1 93) as [->|N1]; [destruct (N.eq_dec x2 91) as [->|N2]|].
    + destruct (kind_lookup (type_kinds c) (rev r)) as [k'|] eqn:L; [|discriminate]. inversion H; subst.
      apply kind_lookup_In in L. pose proof (f_kinds c OK _ _ L) as F.
      assert (Et : t = rev r ++ [91; 93]).
      { rewrite <- (rev_involutive t), R. cbn [rev]. rewrite <- app_assoc. reflexivity. }
      repeat split; intros -> E; try discriminate. destruct F as [_ F]. rewrite Et. exact F.
    + assert (H' : match kind_lookup (type_kinds c) t with Some k => Some (k, false) | None => None end = Some (k, islist)).
      { destruct x2 as [|p]; [exact H|]. repeat (destruct p as [p|p|]; try exact H). exfalso. apply N2. reflexivity. }
      destruct (kind_lookup (type_kinds c) t) as [k'|] eqn:L; [|discriminate]. inversion H'; subst.
      apply kind_lookup_In in L. pose proof (f_kinds c OK _ _ L) as F.
      repeat split; intros -> E; try discriminate; try (destruct F; assumption); exact F.
    + assert (H' : match kind_lookup (type_kinds c) t with Some k => Some (k, false) | None => None end = Some (k, islist)).
      { destruct x1 as [|p]; [exact H|]. repeat (destruct p as [p|p|]; try exact H). exfalso. apply N1. reflexivity. }
      destruct (kind_lookup (type_kinds c) t) as [k'|] eqn:L; [|discriminate]. inversion H'; subst.
      apply kind_lookup_In in L. pose proof (f_kinds c OK _ _ L) as F.
      repeat split; intros -> E; try discriminate; try (destruct F; assumption); exact F.
Qed.

(* one slot: what is written is the per-type mapping, and reading it by the declared type gives the value back *)
Theorem value_roundtrip dflt t v :
  has_type c dflt t v = true -> val_float_canonical v = true ->
  pack_value c (mem t (bool_cast_types c)) v = Some (json_of_value (mem t (bool_cast_types c)) v)
  /\ unpack_value c dflt t (json_of_value (mem t (bool_cast_types c)) v) = Some v
  /\ (v <> VNone -> json_of_value (mem t (bool_cast_types c)) v <> JNull).
Proof.
  unfold has_type, unpack_value. intros H Hc.
  destruct (type_shape c t) as [[k islist]|] eqn:TS; [|discriminate].
  destruct (type_shape_facts _ _ _ TS) as [Fb [Fs Fl]].
  set (cast := mem t (bool_cast_types c)) in *.
  destruct islist.
  - (* typed list *)
    destruct v; try discriminate.
    + (* unset slot of a keyword descriptor *)
      apply negb_true_iff in H. subst dflt. cbn [pack_value json_of_value]. rewrite (f_skip c OK).
      repeat split; try reflexivity. intros N; contradiction.
    + cbn [pack_value json_of_value]. rewrite (pack_list_spec k l H). cbn [val_float_canonical] in Hc.
      rewrite unpack_list_spec; auto. repeat split; try reflexivity. discriminate.
  - destruct v.
    + cbn [pack_value json_of_value]. rewrite (f_skip c OK). repeat split; try reflexivity.
      * destruct k; try reflexivity. cbn [andb negb] in H. destruct dflt; [discriminate|reflexivity].
      * intros N; contradiction.
    + split; [exact (pack_scalar_spec k _ cast H)|]. split; [|intros _; exact (json_of_scalar_not_null k _ cast H)].
      pose proof (json_of_scalar_not_null k _ cast H) as NN. pose proof (unpack_scalar_spec k _ cast (mem t (b64_scalar_types c)) H Hc) as U.
      destruct (json_of_value cast (VStr s)); try (apply U; intros ->; apply Fs; reflexivity). contradiction.
    + split; [exact (pack_scalar_spec k _ cast H)|]. split; [|intros _; exact (json_of_scalar_not_null k _ cast H)].
      pose proof (json_of_scalar_not_null k _ cast H) as NN. pose proof (unpack_scalar_spec k _ cast (mem t (b64_scalar_types c)) H Hc) as U.
      destruct (json_of_value cast (VInt z)); try (apply U; intros ->; apply Fs; reflexivity). contradiction.
    + split; [exact (pack_scalar_spec k _ cast H)|]. split; [|intros _; exact (json_of_scalar_not_null k _ cast H)].
      pose proof (json_of_scalar_not_null k _ cast H) as NN. pose proof (unpack_scalar_spec k _ cast (mem t (b64_scalar_types c)) H Hc) as U.
      destruct (json_of_value cast (VBool b)); try (apply U; intros ->; apply Fs; reflexivity). contradiction.
    + split; [exact (pack_scalar_spec k _ cast H)|]. split; [|intros _; exact (json_of_scalar_not_null k _ cast H)].
      pose proof (json_of_scalar_not_null k _ cast H) as NN. pose proof (unpack_scalar_spec k _ cast (mem t (b64_scalar_types c)) H Hc) as U.
      destruct (json_of_value cast (VFloat bits)); try (apply U; intros ->; apply Fs; reflexivity). contradiction.
    + split; [exact (pack_scalar_spec k _ cast H)|]. split; [|intros _; exact (json_of_scalar_not_null k _ cast H)].
      pose proof (json_of_scalar_not_null k _ cast H) as NN. pose proof (unpack_scalar_spec k _ cast (mem t (b64_scalar_types c)) H Hc) as U.
      destruct (json_of_value cast (VDt d)); try (apply U; intros ->; apply Fs; reflexivity). contradiction.
    + split; [exact (pack_scalar_spec k _ cast H)|]. split; [|intros _; exact (json_of_scalar_not_null k _ cast H)].
      pose proof (json_of_scalar_not_null k _ cast H) as NN. pose proof (unpack_scalar_spec k _ cast (mem t (b64_scalar_types c)) H Hc) as U.
      destruct (json_of_value cast (VBytes bs)); try (apply U; intros ->; apply Fs; reflexivity). contradiction.
    + split; [exact (pack_scalar_spec k _ cast H)|]. split; [|intros _; exact (json_of_scalar_not_null k _ cast H)].
      pose proof (json_of_scalar_not_null k _ cast H) as NN. pose proof (unpack_scalar_spec k _ cast (mem t (b64_scalar_types c)) H Hc) as U.
      destruct (json_of_value cast (VDigest md5 sha1 sha256)); try (apply U; intros ->; apply Fs; reflexivity). contradiction.
    + split; [exact (pack_scalar_spec k _ cast H)|]. split; [|intros _; exact (json_of_scalar_not_null k _ cast H)].
      pose proof (json_of_scalar_not_null k _ cast H) as NN. pose proof (unpack_scalar_spec k _ cast (mem t (b64_scalar_types c)) H Hc) as U.
      destruct (json_of_value cast (VIp t0)); try (apply U; intros ->; apply Fs; reflexivity). contradiction.
    + split; [exact (pack_scalar_spec k _ cast H)|]. split; [|intros _; exact (json_of_scalar_not_null k _ cast H)].
      pose proof (json_of_scalar_not_null k _ cast H) as NN. pose proof (unpack_scalar_spec k _ cast (mem t (b64_scalar_types c)) H Hc) as U.
      destruct (json_of_value cast (VNet t0)); try (apply U; intros ->; apply Fs; reflexivity). contradiction.
    + split; [exact (pack_scalar_spec k _ cast H)|]. split; [|intros _; exact (json_of_scalar_not_null k _ cast H)].
      pose proof (json_of_scalar_not_null k _ cast H) as NN. pose proof (unpack_scalar_spec k _ cast (mem t (b64_scalar_types c)) H Hc) as U.
      destruct (json_of_value cast (VPath t0)); try (apply U; intros ->; apply Fs; reflexivity). contradiction.
    + destruct k; discriminate.
    + destruct k; discriminate.
Qed.

End Values.

(* ------------------------------------------------------------------------------------------ *)
(* 5. records                                                                                   *)

Lemma lookup_app_notin k a b : ~ In k (map fst a) -> lookup k (a ++ b) = lookup k b.
Proof.
  induction a as [|[k' v] a IH]; cbn; intros H; [reflexivity|].
  destruct (text_eqb k k') eqn:E.
  - apply text_eqb_eq in E. exfalso. apply H. left. congruence.
  - apply IH. intros HI. apply H. right. exact HI.
Qed.

Lemma lookup_head k v rest : lookup k ((k, v) :: rest) = Some v.
Proof. cbn. rewrite text_eqb_refl. reflexivity. Qed.

Lemma lookup_skip k k' v rest : k <> k' -> lookup k ((k', v) :: rest) = lookup k rest.
Proof. intros H. cbn. apply text_eqb_neq in H. rewrite H. reflexivity. Qed.

Lemma lookup_notin k kv : ~ In k (map fst kv) -> lookup k kv = None.
Proof. intros H. rewrite <- (app_nil_r kv). rewrite lookup_app_notin by exact H. reflexivity. Qed.

Lemma remove_key_notin k kv : ~ In k (map fst kv) -> remove_key k kv = kv.
Proof.
  induction kv as [|[k' v] kv IH]; cbn; intros H; [reflexivity|].
  destruct (text_eqb k k') eqn:E.
  - apply text_eqb_eq in E. exfalso. apply H. left. congruence.
  - f_equal. apply IH. intros HI. apply H. right. exact HI.
Qed.

Lemma remove_key_app k a b : remove_key k (a ++ b) = remove_key k a ++ remove_key k b.
Proof.
  induction a as [|[k' v] a IH]; cbn; [reflexivity|].
  destruct (text_eqb k k'); [exact IH|cbn; f_equal; exact IH].
Qed.

Lemma nodup_tail2 l a b : nodup_text (l ++ [a; b]) = true -> NoDup l /\ ~ In a l /\ ~ In b l /\ a <> b.
Proof.
  induction l as [|x l IH]; cbn [app nodup_text]; intros H.
  - apply andb_prop in H. destruct H as [H _]. apply negb_true_iff, mem_not_In in H.
    split; [constructor|]. split; [intros []|]. split; [intros []|]. intros ->. apply H. left. reflexivity.
  - apply andb_prop in H. destruct H as [H1 H2]. apply negb_true_iff, mem_not_In in H1.
    destruct (IH H2) as [N [Na [Nb Nab]]].
    assert (Hx : ~ In x l /\ x <> a /\ x <> b).
    { repeat split; intros E; apply H1; apply in_or_app; [left; exact E|right; left; congruence|right; right; left; congruence]. }
    destruct Hx as [X1 [X2 X3]].
    repeat split.
    + constructor; assumption.
    + intros [E|E]; [congruence|contradiction].
    + intros [E|E]; [congruence|contradiction].
    + exact Nab.
Qed.

Section Records.
Variable c : jcfg.
Hypothesis OK : cfg_facts c.

(* the members of a record document, stated directly *)
Definition fields_spec (fs : list (text * text)) (vs : list jval) : list (text * json) :=
  map (fun fv => (snd (fst fv), json_of_value (mem (fst (fst fv)) (bool_cast_types c)) (snd fv))) (combine fs vs).

Lemma slots_ok_length dflt fs : forall vs, slots_ok c dflt fs vs = true -> List.length vs = List.length fs.
Proof.
  induction fs as [|f fs IH]; intros [|v vs]; cbn; intros H; try discriminate; [reflexivity|].
  apply andb_prop in H. destruct H as [_ H]. f_equal. apply IH. exact H.
Qed.

Lemma fields_spec_keys dflt fs : forall vs, slots_ok c dflt fs vs = true -> map fst (fields_spec fs vs) = map snd fs.
Proof.
  induction fs as [|[t n] fs IH]; intros [|v vs]; cbn; intros H; try discriminate; [reflexivity|].
  apply andb_prop in H. destruct H as [_ H]. f_equal. apply IH. exact H.
Qed.

Lemma slot_ok_inv dflt t n v : slot_ok c dflt (t, n) v = true ->
  has_type c dflt t v = true
  /\ (text_eqb n (version_key c) = true -> v = VInt (version c))
  /\ (text_eqb n (generated_key c) = true -> v <> VNone).
Proof.
  unfold slot_ok. intros H. apply andb_prop in H. destruct H as [H H3]. apply andb_prop in H. destruct H as [H1 H2].
  split; [exact H1|]. split.
  - intros E. rewrite E in H2. apply jval_eqb_VInt. exact H2.
  - intros E. rewrite E in H3. apply negb_true_iff in H3. intros ->. discriminate.
Qed.

Lemma pack_fields_spec dflt fs : forall vs,
  slots_ok c dflt fs vs = true -> forallb val_float_canonical vs = true ->
  pack_fields c fs vs = Some (fields_spec fs vs).
Proof.
  induction fs as [|[t n] fs IH]; intros [|v vs]; cbn [slots_ok forallb]; intros H Hc; try discriminate; [reflexivity|].
  apply andb_prop in H. destruct H as [H1 H2]. apply andb_prop in Hc. destruct Hc as [C1 C2].
  apply slot_ok_inv in H1. destruct H1 as [HT _].
  destruct (value_roundtrip c OK dflt t v HT C1) as [P _].
  cbn [pack_fields]. rewrite P. rewrite (IH vs H2 C2). reflexivity.
Qed.

Lemma unpack_field_head dflt t n v pre rest :
  slot_ok c dflt (t, n) v = true -> val_float_canonical v = true -> ~ In n (map fst pre) ->
  unpack_field c dflt (pre ++ (n, json_of_value (mem t (bool_cast_types c)) v) :: rest) (t, n) = Some v.
Proof.
  intros H1 C1 Hpre.
  apply slot_ok_inv in H1. destruct H1 as [HT [HV HG]].
  destruct (value_roundtrip c OK dflt t v HT C1) as [_ [U NN]].
  set (j := json_of_value (mem t (bool_cast_types c)) v) in *.
  unfold unpack_field. rewrite lookup_app_notin by exact Hpre. rewrite lookup_head.
  destruct (text_eqb n (version_key c)) eqn:EV; [rewrite (HV eq_refl); reflexivity|].
  destruct (text_eqb n (generated_key c)) eqn:EG.
  - specialize (NN (HG eq_refl)). destruct j; try contradiction; exact U.
  - cbn [andb]. exact U.
Qed.

Lemma unpack_fields_spec dflt fs : forall vs pre,
  slots_ok c dflt fs vs = true -> forallb val_float_canonical vs = true -> NoDup (map snd fs) ->
  (forall n, In n (map snd fs) -> ~ In n (map fst pre)) ->
  all_some (map (unpack_field c dflt (pre ++ fields_spec fs vs)) fs) = Some vs.
Proof.
  induction fs as [|[t n] fs IH]; intros [|v vs] pre; cbn [slots_ok forallb]; intros H Hc ND Hpre; try discriminate; [reflexivity|].
  apply andb_prop in H. destruct H as [H1 H2]. apply andb_prop in Hc. destruct Hc as [C1 C2].
  cbn [map fst snd] in ND. inversion ND as [|? ? Nn ND']; subst.
  unfold fields_spec. cbn [combine map fst snd]. fold (fields_spec fs vs).
  cbn [all_some].
  rewrite (unpack_field_head dflt t n v pre (fields_spec fs vs) H1 C1) by (apply Hpre; left; reflexivity).
  set (j := json_of_value (mem t (bool_cast_types c)) v) in *.
  replace (pre ++ (n, j) :: fields_spec fs vs) with ((pre ++ [(n, j)]) ++ fields_spec fs vs) by (rewrite <- app_assoc; reflexivity).
  rewrite (IH vs (pre ++ [(n, j)]) H2 C2 ND'); [reflexivity|].
  intros m Hm. rewrite map_app. cbn [map fst]. intros HI. apply in_app_or in HI. destruct HI as [HI|[HI|[]]].
  - apply (Hpre m); [right; exact Hm|exact HI].
  - subst m. contradiction.
Qed.

Section WithHash.
Variable H : descriptor -> Z.

Definition record_spec (on : bool) (r : record) : json :=
  JObj (fields_spec (all_fields c (r_desc r)) (r_vals r) ++ (if on then markers c H (r_desc r) else [])).

Definition rec_good (r : record) : Prop := record_ok c r = true /\ forallb val_float_canonical (r_vals r) = true.

Lemma record_ok_inv r : record_ok c r = true ->
  slots_ok c (uses_defaults c (r_desc r)) (all_fields c (r_desc r)) (r_vals r) = true
  /\ NoDup (map snd (all_fields c (r_desc r)))
  /\ ~ In (type_key c) (map snd (all_fields c (r_desc r)))
  /\ ~ In (desc_key c) (map snd (all_fields c (r_desc r)))
  /\ forallb (fun f => negb (starts_underscore (snd f))) (d_fields (r_desc r)) = true.
Proof.
  unfold record_ok. intros G. apply andb_prop in G. destruct G as [G G3]. apply andb_prop in G. destruct G as [G1 G2].
  apply nodup_tail2 in G2. destruct G2 as [N1 [N2 [N3 _]]]. auto.
Qed.

Lemma pack_record_spec on r : rec_good r -> pack_record c H on r = Some (record_spec on r).
Proof.
  intros [G Hc]. apply record_ok_inv in G. destruct G as [G1 _].
  unfold pack_record. rewrite (pack_fields_spec _ _ _ G1 Hc). rewrite (f_mg c OK). rewrite orb_false_r. reflexivity.
Qed.

Lemma build_record_spec r : rec_good r ->
  build_record c (r_desc r) (fields_spec (all_fields c (r_desc r)) (r_vals r)) = Some r.
Proof.
  intros [G Hc]. apply record_ok_inv in G. destruct G as [G1 [ND _]].
  unfold build_record.
  assert (F : forallb (fun p : text * json => mem (fst p) (map snd (all_fields c (r_desc r))))
                (fields_spec (all_fields c (r_desc r)) (r_vals r)) = true).
  { apply forallb_forall. intros p Hp. apply mem_In. rewrite <- (fields_spec_keys _ _ _ G1). apply in_map. exact Hp. }
  rewrite F.
  pose proof (unpack_fields_spec _ _ _ [] G1 Hc ND (fun _ _ HI => HI)) as U. cbn [app] in U. rewrite U.
  destruct r; reflexivity.
Qed.

(* ------------------------------------------------------------------------------------------ *)
(* 6. the reader on the writer's documents                                                      *)

Lemma ident_eqb_refl i : ident_eqb i i = true.
Proof. unfold ident_eqb. rewrite text_eqb_refl, Z.eqb_refl. reflexivity. Qed.

Lemma fields_eqb_eq a : forall b, fields_eqb a b = true -> a = b.
Proof.
  induction a as [|[t n] a IH]; intros [|[t' n'] b]; cbn; intros E; try discriminate; [reflexivity|].
  apply andb_prop in E. destruct E as [E E3]. apply andb_prop in E. destruct E as [E1 E2].
  apply text_eqb_eq in E1, E2. subst. f_equal. apply IH. exact E3.
Qed.

Lemma desc_eqb_eq a b : desc_eqb a b = true -> a = b.
Proof.
  unfold desc_eqb. intros E. apply andb_prop in E. destruct E as [E1 E2].
  apply text_eqb_eq in E1. apply fields_eqb_eq in E2. destruct a, b; cbn in *; congruence.
Qed.

Lemma known_true_get reg d : known H true reg d = true -> reg_get reg (ident_of H d) = Some d.
Proof.
  unfold known. destruct (reg_get reg (ident_of H d)) as [d'|]; [|discriminate].
  intros E. apply desc_eqb_eq in E. congruence.
Qed.

Lemma read_record_doc reg r :
  rec_good r -> reg_get reg (ident_of H (r_desc r)) = Some (r_desc r) ->
  read_one c H reg (record_spec true r) = RYield r.
Proof.
  intros G Hreg. pose proof G as [G0 _]. apply record_ok_inv in G0. destruct G0 as [G1 [ND [N1 [N2 _]]]].
  pose proof (fields_spec_keys _ _ _ G1) as K.
  unfold record_spec, read_one. set (kv := fields_spec (all_fields c (r_desc r)) (r_vals r)) in *.
  unfold markers.
  rewrite lookup_app_notin by (rewrite K; exact N1). rewrite lookup_head. rewrite text_eqb_refl.
  rewrite lookup_app_notin by (rewrite K; exact N2).
  rewrite lookup_skip by (intros E; apply (f_k_ne c OK); symmetry; exact E). rewrite lookup_head.
  unfold ident_json, parse_ident. change (d_name (r_desc r), H (r_desc r)) with (ident_of H (r_desc r)). rewrite Hreg.
  rewrite (f_rm c OK).
  rewrite !remove_key_app.
  rewrite (remove_key_notin (desc_key c) kv) by (rewrite K; exact N2).
  rewrite (remove_key_notin (type_key c) kv) by (rewrite K; exact N1).
  cbn [remove_key]. rewrite text_eqb_refl.
  replace (text_eqb (desc_key c) (type_key c)) with false
    by (symmetry; apply text_eqb_neq; intros E; apply (f_k_ne c OK); symmetry; exact E).
  cbn [remove_key]. rewrite text_eqb_refl. rewrite app_nil_r.
  unfold kv. rewrite (build_record_spec r G). reflexivity.
Qed.

Lemma parse_fields_spec fs : all_some (map parse_field (map (fun f : text * text => JArr [JStr (fst f); JStr (snd f)]) fs)) = Some fs.
Proof.
  rewrite map_map. rewrite <- (map_id fs) at 2. apply all_some_map_Some. intros [t n] _. reflexivity.
Qed.

Lemma read_descriptor_doc reg d :
  read_one c H reg (pack_descriptor c d) = RSkip (fst (register c H reg d)).
Proof.
  unfold pack_descriptor, read_one. rewrite lookup_head.
  replace (text_eqb (descriptor_marker c) (record_marker c)) with false
    by (symmetry; apply text_eqb_neq; intros E; apply (f_m_ne c OK); symmetry; exact E).
  rewrite text_eqb_refl.
  unfold parse_descriptor.
  rewrite lookup_skip by (intros E; apply (f_d_ne c OK); symmetry; exact E). rewrite lookup_head.
  rewrite parse_fields_spec. rewrite (f_rr c OK). destruct d; reflexivity.
Qed.

(* what the writer emits for a history, stated directly: the descriptor document before the first record of
   a descriptor the registry does not hold under its identifier *)
Fixpoint docs_spec (on : bool) (reg : registry) (rs : list record) : list json :=
  match rs with
  | [] => []
  | r :: rs' =>
      if known H true reg (r_desc r) then record_spec on r :: docs_spec on reg rs'
      else (if on then [pack_descriptor c (r_desc r)] else []) ++ record_spec on r
           :: docs_spec on ((ident_of H (r_desc r), r_desc r) :: reg) rs'
  end.

Lemma write_from_spec on rs : forall reg, Forall rec_good rs -> write_from c H on reg rs = Some (docs_spec on reg rs).
Proof.
  induction rs as [|r rs IH]; intros reg G; [reflexivity|].
  inversion G as [|? ? G1 G2]; subst.
  cbn [write_from docs_spec]. unfold write_one. rewrite (pack_record_spec on r G1).
  rewrite (f_pg c OK).
  destruct (known H true reg (r_desc r)) eqn:K.
  - rewrite (IH reg G2). reflexivity.
  - unfold register. rewrite (f_rg c OK), K. rewrite (IH _ G2). cbn [andb]. rewrite <- app_assoc. reflexivity.
Qed.

Lemma read_from_spec rs : forall reg, Forall rec_good rs -> read_from c H reg (docs_spec true reg rs) = Some rs.
Proof.
  induction rs as [|r rs IH]; intros reg G; [reflexivity|].
  inversion G as [|? ? G1 G2]; subst.
  cbn [docs_spec].
  destruct (known H true reg (r_desc r)) eqn:K.
  - cbn [read_from]. rewrite (read_record_doc reg r G1 (known_true_get _ _ K)). rewrite (IH reg G2). reflexivity.
  - cbn [app read_from]. rewrite read_descriptor_doc. unfold register. rewrite (f_rg c OK), K. cbn [fst].
    rewrite read_record_doc; [|exact G1|cbn [reg_get]; rewrite ident_eqb_refl; reflexivity].
    rewrite (IH _ G2). reflexivity.
Qed.

(* read_json (write_json rs) = rs *)
Theorem stream_roundtrip rs : Forall rec_good rs ->
  exists docs, write_json c H true rs = Some docs /\ read_json c H docs = Some rs.
Proof.
  intros G. exists (docs_spec true [] rs). split.
  - apply write_from_spec. exact G.
  - apply read_from_spec. exact G.
Qed.

End WithHash.
End Records.

(* ------------------------------------------------------------------------------------------ *)
(* 7. document shapes                                                                           *)

Lemma forallb_map {A B} (f : A -> B) (P : B -> bool) l : forallb P (map f l) = forallb (fun x => P (f x)) l.
Proof. induction l as [|a l IH]; [reflexivity|]. cbn. rewrite IH. reflexivity. Qed.

Lemma plain_json_arr l : plain_json (JArr l) = forallb plain_json l.
Proof. induction l as [|a l IH]; [reflexivity|]. cbn [forallb]. rewrite <- IH. reflexivity. Qed.
Lemma plain_json_obj kv : plain_json (JObj kv) = forallb (fun p => plain_json (snd p)) kv.
Proof. induction kv as [|[k a] kv IH]; [reflexivity|]. cbn [forallb snd]. rewrite <- IH. reflexivity. Qed.

Lemma plain_scalar k v cast : val_of_kind k v = true -> val_finite v = true -> plain_json (json_of_value cast v) = true.
Proof.
  destruct k, v; cbn [val_of_kind]; intros H F; try discriminate; cbn [json_of_value]; try reflexivity.
  - cbn [val_finite] in F. unfold float_json. rewrite F. reflexivity.
  - destruct cast; reflexivity.
  - destruct md5, sha1, sha256; reflexivity.
Qed.

Section Shapes.
Variable c : jcfg.
Hypothesis OK : cfg_facts c.

Lemma plain_value_json dflt t v cast : has_type c dflt t v = true -> val_finite v = true -> plain_json (json_of_value cast v) = true.
Proof.
  unfold has_type. destruct (type_shape c t) as [[k []]|]; [| |discriminate].
  - destruct v; try discriminate; [reflexivity|]. intros H F. cbn [json_of_value val_finite] in *.
    rewrite plain_json_arr, forallb_map. apply forallb_forall. intros x Hx.
    rewrite forallb_forall in H, F. apply (plain_scalar k); auto.
  - destruct v; intros H F; try reflexivity; apply (plain_scalar k); assumption.
Qed.

Lemma plain_fields dflt fs : forall vs, slots_ok c dflt fs vs = true -> forallb val_finite vs = true ->
  forallb (fun p => plain_json (snd p)) (fields_spec c fs vs) = true.
Proof.
  induction fs as [|[t n] fs IH]; intros [|v vs]; cbn [slots_ok forallb]; intros H F; try discriminate; [reflexivity|].
  apply andb_prop in H. destruct H as [H1 H2]. apply andb_prop in F. destruct F as [F1 F2].
  apply slot_ok_inv in H1. destruct H1 as [HT _].
  unfold fields_spec. cbn [combine map forallb fst snd]. fold (fields_spec c fs vs).
  rewrite (plain_value_json dflt t v _ HT F1). cbn [andb]. apply IH; assumption.
Qed.

Section WithHash.
Variable H : descriptor -> Z.

Lemma record_spec_plain on r : rec_good c r -> record_finite r = true -> plain_json (record_spec c H on r) = true.
Proof.
  intros [G _] F. apply record_ok_inv in G. destruct G as [G1 _].
  unfold record_spec. rewrite plain_json_obj, forallb_app. rewrite (plain_fields _ _ _ G1 F). cbn [andb].
  destruct on; reflexivity.
Qed.

Lemma descriptor_doc_plain d : plain_json (pack_descriptor c d) = true.
Proof.
  unfold pack_descriptor. rewrite plain_json_obj. cbn [forallb snd].
  rewrite plain_json_arr. cbn [forallb]. rewrite plain_json_arr, forallb_map.
  replace (forallb (fun x : text * text => plain_json (JArr [JStr (fst x); JStr (snd x)])) (d_fields d)) with true
    by (symmetry; apply forallb_forall; intros f _; reflexivity).
  reflexivity.
Qed.

(* with finite floats every document the writer emits conforms to the JSON grammar *)
Lemma docs_plain on rs : forall reg, Forall (rec_good c) rs -> forallb record_finite rs = true ->
  forallb plain_json (docs_spec c H on reg rs) = true.
Proof.
  induction rs as [|r rs IH]; intros reg G F; [reflexivity|].
  inversion G as [|? ? G1 G2]; subst. cbn [forallb] in F. apply andb_prop in F. destruct F as [F1 F2].
  cbn [docs_spec]. destruct (known H true reg (r_desc r)).
  - cbn [forallb]. rewrite (record_spec_plain on r G1 F1). apply IH; assumption.
  - rewrite forallb_app. cbn [forallb]. rewrite (record_spec_plain on r G1 F1). rewrite IH by assumption.
    destruct on; cbn [forallb]; [rewrite descriptor_doc_plain|]; reflexivity.
Qed.

Lemma record_doc_kind on r : rec_good c r ->
  is_descriptor_doc c (record_spec c H on r) = false
  /\ is_record_doc c (record_spec c H on r) = on
  /\ doc_keys (record_spec c H on r) = Some (slot_names c r ++ (if on then [type_key c; desc_key c] else [])).
Proof.
  intros [G _]. apply record_ok_inv in G. destruct G as [G1 [ND [N1 [N2 _]]]].
  pose proof (fields_spec_keys c _ _ _ G1) as K.
  unfold record_spec, is_descriptor_doc, is_record_doc, doc_keys, slot_names. rewrite map_app, K.
  rewrite lookup_app_notin by (rewrite K; exact N1).
  destruct on.
  - unfold markers. rewrite lookup_head. rewrite text_eqb_refl.
    replace (text_eqb (record_marker c) (descriptor_marker c)) with false by (symmetry; apply text_eqb_neq; exact (f_m_ne c OK)).
    repeat split.
  - cbn [lookup map app]. repeat split.
Qed.

Lemma descriptor_doc_kind d :
  is_descriptor_doc c (pack_descriptor c d) = true /\ doc_keys (pack_descriptor c d) = Some [type_key c; data_key c].
Proof.
  unfold is_descriptor_doc, pack_descriptor, doc_keys. rewrite lookup_head, text_eqb_refl. split; reflexivity.
Qed.

(* the record documents are, in order, one per record, with exactly the slot names (+ the two markers); every other
   document is a descriptor document with the keys [_type; _data]; without descriptors there is nothing else *)
Lemma docs_shape on rs : forall reg, Forall (rec_good c) rs ->
  map doc_keys (filter (fun d => negb (is_descriptor_doc c d)) (docs_spec c H on reg rs))
    = map (fun r => Some (slot_names c r ++ (if on then [type_key c; desc_key c] else []))) rs
  /\ Forall (fun d => is_descriptor_doc c d = true -> doc_keys d = Some [type_key c; data_key c]) (docs_spec c H on reg rs)
  /\ Forall (fun d => exists kv, d = JObj kv) (docs_spec c H on reg rs)
  /\ (on = false -> docs_spec c H on reg rs = map (record_spec c H false) rs).
Proof.
  induction rs as [|r rs IH]; intros reg G.
  - cbn. repeat split; constructor.
  - inversion G as [|? ? G1 G2]; subst.
    destruct (record_doc_kind on r G1) as [K1 [K2 K3]].
    cbn [docs_spec]. destruct (known H true reg (r_desc r)).
    + destruct (IH reg G2) as [I1 [I2 [I3 I4]]].
      cbn [filter map]. rewrite K1. cbn [negb map]. rewrite K3, I1.
      repeat split.
      * constructor; [rewrite K1; discriminate|exact I2].
      * constructor; [eexists; reflexivity|exact I3].
      * intros ->. cbn [map]. rewrite I4; reflexivity.
    + destruct (IH ((ident_of H (r_desc r), r_desc r) :: reg) G2) as [I1 [I2 [I3 I4]]].
      destruct (descriptor_doc_kind (r_desc r)) as [D1 D2].
      destruct on.
      * cbn [app filter map]. rewrite D1, K1. cbn [negb map]. rewrite K3, I1.
        repeat split.
        -- constructor; [intros _; exact D2|]. constructor; [rewrite K1; discriminate|exact I2].
        -- constructor; [eexists; reflexivity|]. constructor; [eexists; reflexivity|exact I3].
        -- discriminate.
      * cbn [app filter map]. rewrite K1. cbn [negb map]. rewrite K3, I1.
        repeat split.
        -- constructor; [rewrite K1; discriminate|exact I2].
        -- constructor; [eexists; reflexivity|exact I3].
        -- intros _. cbn [map]. rewrite I4; reflexivity.
Qed.

End WithHash.
End Shapes.

(* ------------------------------------------------------------------------------------------ *)
(* 8. descriptors disabled: the fallback reader                                                 *)

(* what the fallback record holds for a parsed JSON value *)
Definition plain_of_json (j : json) : jval :=
  match j with
  | JNull => VNone | JStr s => VStr s | JInt z => VInt z | JBool b => VBool b
  | JFloat bits => VFloat bits | JNonFinite k => VFloat (nonfinite_bits k)
  | JArr _ | JObj _ => VOpaque j
  end.

(* JFloat only ever carries a finite pattern *)
Definition scalar_wf (j : json) : bool := match j with JFloat bits => float_finite bits | _ => true end.

Lemma scalar_json_of_plain j : scalar_wf j = true ->
  scalar_json_of (plain_of_json j) = if is_scalar j then Some j else None.
Proof.
  destruct j; cbn; intros W; try reflexivity.
  - unfold float_json. rewrite W. reflexivity.
  - destruct k; vm_compute; reflexivity.
Qed.

Lemma json_of_value_wf k v cast : val_of_kind k v = true -> scalar_wf (json_of_value cast v) = true.
Proof.
  destruct k, v; cbn [val_of_kind json_of_value]; intros W; try discriminate; try reflexivity.
  - unfold float_json. destruct (float_finite bits) eqn:F; [exact F|]. destruct (float_mant bits =? 0); reflexivity.
  - destruct cast; reflexivity.
Qed.

Lemma json_of_value_scalar k v cast : val_of_kind k v = true -> k <> KDigest -> is_scalar (json_of_value cast v) = true.
Proof.
  destruct k, v; cbn [val_of_kind json_of_value]; intros W N; try discriminate; try reflexivity; try contradiction.
  - unfold float_json. destruct (float_finite bits); [reflexivity|]. destruct (float_mant bits =? 0); reflexivity.
  - destruct cast; reflexivity.
Qed.

Lemma slots_ok_app c dflt a : forall b vs, slots_ok c dflt (a ++ b) vs = true ->
  exists va vb, vs = va ++ vb /\ slots_ok c dflt a va = true /\ slots_ok c dflt b vb = true.
Proof.
  induction a as [|f a IH]; intros b vs W.
  - exists [], vs. repeat split; assumption.
  - destruct vs as [|v vs]; [discriminate|]. cbn [app slots_ok] in W. apply andb_prop in W. destruct W as [W1 W2].
    destruct (IH b vs W2) as [va [vb [E [A B]]]]. exists (v :: va), vb. subst vs. repeat split; [|exact B].
    cbn [slots_ok]. rewrite W1, A. reflexivity.
Qed.

Lemma combine_app_l {A B} (a : list A) (va vb : list B) : List.length va = List.length a -> combine a (va ++ vb) = combine a va.
Proof.
  revert va; induction a as [|x a IH]; intros [|v va] L; cbn in *; try discriminate; try reflexivity.
  f_equal. apply IH. lia.
Qed.

Lemma combine_app_both {A B} (a b : list A) (va vb : list B) :
  List.length va = List.length a -> combine (a ++ b) (va ++ vb) = combine a va ++ combine b vb.
Proof.
  revert va; induction a as [|x a IH]; intros [|v va] L; cbn in *; try discriminate; try reflexivity.
  f_equal. apply IH. lia.
Qed.

Lemma filter_app_split {A} (P : A -> bool) a b :
  forallb P a = true -> forallb (fun x => negb (P x)) b = true -> filter P (a ++ b) = a.
Proof.
  intros Ha Hb. rewrite filter_app.
  assert (E1 : filter P a = a).
  { induction a as [|x a IH]; [reflexivity|]. cbn in *. apply andb_prop in Ha. destruct Ha as [H1 H2]. rewrite H1. f_equal. apply IH. exact H2. }
  assert (E2 : filter P b = []).
  { induction b as [|x b IH]; [reflexivity|]. cbn in *. apply andb_prop in Hb. destruct Hb as [H1 H2].
    apply negb_true_iff in H1. rewrite H1. apply IH. exact H2. }
  rewrite E1, E2. apply app_nil_r.
Qed.

Lemma starts_underscore_neq a b : starts_underscore a = false -> starts_underscore b = true -> a <> b.
Proof. intros Ha Hb ->. congruence. Qed.

Section Plain.
Variable c : jcfg.
Hypothesis OK : cfg_facts c.

Lemma ftv_first_nil brs : ftv_first brs [] = None.
Proof. induction brs as [|[a b] brs IH]; [reflexivity|]. cbn. exact IH. Qed.

Lemma ftv_cases j :
  fieldtype_for_value c j = match j with
                            | JStr _ => T "string" | JFloat _ | JNonFinite _ => T "float" | JBool _ => T "boolean"
                            | JInt _ => T "varint" | _ => T "string"
                            end.
Proof.
  unfold fieldtype_for_value. destruct j; cbn [json_classes].
  - rewrite ftv_first_nil. apply (f_dflt c OK).
  - rewrite (f_ftv_bool c OK). reflexivity.
  - rewrite (f_ftv_int c OK). reflexivity.
  - rewrite (f_ftv_float c OK). reflexivity.
  - rewrite (f_ftv_float c OK). reflexivity.
  - rewrite (f_ftv_str c OK). reflexivity.
  - rewrite ftv_first_nil. apply (f_dflt c OK).
  - rewrite ftv_first_nil. apply (f_dflt c OK).
Qed.

Lemma plain_value_spec dflt j : plain_value c dflt (fieldtype_for_value c j) j = Some (plain_of_json j).
Proof.
  rewrite ftv_cases. unfold plain_value, unpack_value.
  destruct j; cbn [plain_of_json];
    rewrite ?(f_ts_str c OK), ?(f_ts_float c OK), ?(f_ts_bool c OK), ?(f_ts_int c OK), ?(f_skip c OK); try reflexivity.
Qed.

Section WithHash.
Variable H : descriptor -> Z.

Lemma has_type_dflt_indep t k v d1 d2 : type_shape c t = Some (k, false) -> k <> KDigest ->
  has_type c d1 t v = has_type c d2 t v.
Proof.
  unfold has_type. intros -> N. destruct v; try reflexivity.
  destruct k; rewrite ?andb_false_r; try reflexivity. exfalso. apply N. reflexivity.
Qed.

Lemma unpack_value_dflt_indep t k j d1 d2 : type_shape c t = Some (k, false) -> k <> KDigest ->
  unpack_value c d1 t j = unpack_value c d2 t j.
Proof.
  unfold unpack_value. intros -> N. destruct j; try reflexivity.
  destruct k; try reflexivity. exfalso. apply N. reflexivity.
Qed.

(* the reserved slots read through the fallback exactly as through the typed reader *)
Lemma plain_reserved_field d1 d2 kv f v :
  In f (reserved c) -> slot_ok c d1 f v = true ->
  lookup (snd f) kv = Some (json_of_value (mem (fst f) (bool_cast_types c)) v) ->
  plain_unpack_field c d2 kv f = unpack_field c d1 kv f.
Proof.
  intros Hin S L. destruct f as [t n]. cbn [fst snd] in *.
  destruct (f_res_ty c OK _ Hin) as [k [TS NK]]. cbn [fst] in TS.
  apply slot_ok_inv in S. destruct S as [HT _].
  unfold plain_unpack_field, unpack_field. rewrite L.
  destruct (text_eqb n (version_key c)); [reflexivity|].
  destruct (text_eqb n (generated_key c) && _); [reflexivity|].
  set (j := json_of_value (mem t (bool_cast_types c)) v).
  assert (SC : is_scalar j = true).
  { unfold j. unfold has_type in HT. rewrite TS in HT. destruct v; try reflexivity;
      try (apply (json_of_value_scalar k); [exact HT|exact NK]). }
  unfold plain_value. rewrite (unpack_value_dflt_indep t k j d2 d1 TS NK).
  destruct j; try reflexivity; discriminate.
Qed.

Lemma plain_reserved_spec d1 d2 fs : forall vs pre,
  (forall f, In f fs -> In f (reserved c)) ->
  slots_ok c d1 fs vs = true -> forallb val_float_canonical vs = true -> NoDup (map snd fs) ->
  (forall n, In n (map snd fs) -> ~ In n (map fst pre)) ->
  all_some (map (plain_unpack_field c d2 (pre ++ fields_spec c fs vs)) fs) = Some vs.
Proof.
  induction fs as [|[t n] fs IH]; intros [|v vs] pre Hres; cbn [slots_ok forallb]; intros W Hc ND Hpre; try discriminate; [reflexivity|].
  apply andb_prop in W. destruct W as [H1 H2]. apply andb_prop in Hc. destruct Hc as [C1 C2].
  cbn [map fst snd] in ND. inversion ND as [|? ? Nn ND']; subst.
  unfold fields_spec. cbn [combine map fst snd]. fold (fields_spec c fs vs).
  cbn [all_some].
  rewrite (plain_reserved_field d1 d2 _ (t, n) v (Hres _ (or_introl eq_refl)) H1).
  2:{ cbn [fst snd]. rewrite lookup_app_notin by (apply Hpre; left; reflexivity). apply lookup_head. }
  rewrite (unpack_field_head c OK d1 t n v pre (fields_spec c fs vs) H1 C1) by (apply Hpre; left; reflexivity).
  set (j := json_of_value (mem t (bool_cast_types c)) v) in *.
  replace (pre ++ (n, j) :: fields_spec c fs vs) with ((pre ++ [(n, j)]) ++ fields_spec c fs vs) by (rewrite <- app_assoc; reflexivity).
  rewrite (IH vs (pre ++ [(n, j)]) (fun f Hf => Hres f (or_intror Hf)) H2 C2 ND'); [reflexivity|].
  intros m Hm. rewrite map_app. cbn [map fst]. intros HI. apply in_app_or in HI. destruct HI as [HI|[HI|[]]].
  - apply (Hpre m); [right; exact Hm|exact HI].
  - subst m. contradiction.
Qed.

Lemma fields_spec_wf dflt fs : forall vs, slots_ok c dflt fs vs = true ->
  forallb (fun p => scalar_wf (snd p)) (fields_spec c fs vs) = true.
Proof.
  induction fs as [|[t n] fs IH]; intros [|v vs]; cbn [slots_ok]; intros W; try discriminate; [reflexivity|].
  apply andb_prop in W. destruct W as [H1 H2]. apply slot_ok_inv in H1. destruct H1 as [HT _].
  unfold fields_spec. cbn [combine map forallb fst snd]. fold (fields_spec c fs vs). rewrite (IH vs H2), andb_true_r.
  unfold has_type in HT. destruct (type_shape c t) as [[k []]|]; [| |discriminate].
  - destruct v; try discriminate; reflexivity.
  - destruct v; try reflexivity; apply (json_of_value_wf k); exact HT.
Qed.

Lemma lookup_In_nodup kv : NoDup (map fst kv) -> forall k v, In (k, v) kv -> lookup k kv = Some v.
Proof.
  induction kv as [|[k' v'] kv IH]; intros ND k v Hin; [destruct Hin|].
  cbn [map fst] in ND. inversion ND as [|? ? Nn ND']; subst.
  destruct Hin as [E|Hin].
  - inversion E; subst. apply lookup_head.
  - rewrite lookup_skip; [apply IH; assumption|]. intros ->. apply Nn. change k' with (fst (k', v)). apply in_map. exact Hin.
Qed.

Lemma lookup_app_found k v a b : lookup k a = Some v -> lookup k (a ++ b) = Some v.
Proof.
  induction a as [|[k' v'] a IH]; cbn; intros L; [discriminate|].
  destruct (text_eqb k k'); [exact L|apply IH; exact L].
Qed.

Lemma all_some_app {A} (a b : list (option A)) :
  all_some (a ++ b) = match all_some a, all_some b with Some x, Some y => Some (x ++ y) | _, _ => None end.
Proof.
  induction a as [|[x|] a IH]; cbn.
  - destruct (all_some b); reflexivity.
  - rewrite IH. destruct (all_some a), (all_some b); reflexivity.
  - reflexivity.
Qed.

Lemma combine_map_map {A B C} (g : A -> B) (h : A -> C) l : combine (map g l) (map h l) = map (fun x => (g x, h x)) l.
Proof. induction l as [|x l IH]; [reflexivity|]. cbn. rewrite IH. reflexivity. Qed.

Lemma NoDup_app_l {A} (a b : list A) : NoDup (a ++ b) -> NoDup a.
Proof. induction a as [|x a IH]; cbn; intros N; [constructor|]. inversion N as [|? ? Nx N']; subst. constructor; [|apply IH; exact N']. intros HI. apply Nx. apply in_or_app. left. exact HI. Qed.
Lemma NoDup_app_r {A} (a b : list A) : NoDup (a ++ b) -> NoDup b.
Proof. induction a as [|x a IH]; cbn; intros N; [exact N|]. inversion N; subst. apply IH. assumption. Qed.
Lemma NoDup_app_disj {A} (a b : list A) x : NoDup (a ++ b) -> In x a -> In x b -> False.
Proof.
  induction a as [|y a IH]; cbn; intros N Ha Hb; [destruct Ha|]. inversion N as [|? ? Ny N']; subst.
  destruct Ha as [->|Ha]; [apply Ny; apply in_or_app; right; exact Hb|exact (IH N' Ha Hb)].
Qed.

(* descriptors disabled: a line of a supported record reads as a record of type json/record whose declared fields
   are the line's non-underscore members, typed by fieldtype_for_value, each holding the member's scalar JSON value *)
Lemma read_plain_spec r : rec_good c r ->
  exists p, read_plain c (fields_spec c (all_fields c (r_desc r)) (r_vals r)) = Some p
            /\ d_name (r_desc p) = fallback_name c
            /\ scalar_view_record p = scalar_view_doc c (record_spec c H false r).
Proof.
  intros [G Hc]. apply record_ok_inv in G. destruct G as [G1 [ND [N1 [N2 NU]]]].
  destruct r as [d vals]. cbn [r_desc r_vals] in *. unfold record_spec. cbn [r_desc r_vals]. unfold all_fields in *.
  destruct (slots_ok_app c _ _ _ _ G1) as [uv [rv [E [SU SR]]]]. subst vals.
  pose proof (slots_ok_length c _ _ _ SU) as LU.
  rewrite forallb_app in Hc. apply andb_prop in Hc. destruct Hc as [CU CR].
  set (dflt := uses_defaults c d) in *.
  set (ukv := fields_spec c (d_fields d) uv).
  set (rkv := fields_spec c (reserved c) rv).
  assert (EKV : fields_spec c (d_fields d ++ reserved c) (uv ++ rv) = ukv ++ rkv).
  { unfold fields_spec. rewrite combine_app_both by exact LU. apply map_app. }
  rewrite EKV.
  pose proof (fields_spec_keys c _ _ _ SU) as KU. fold ukv in KU.
  pose proof (fields_spec_keys c _ _ _ SR) as KR. fold rkv in KR.
  rewrite map_app in ND.
  pose proof (NoDup_app_l _ _ ND) as NDU. pose proof (NoDup_app_r _ _ ND) as NDR.
  (* keys of the user part do not start with an underscore, keys of the reserved part do *)
  assert (FU : forallb (fun p : text * json => negb (starts_underscore (fst p))) ukv = true).
  { apply forallb_forall. intros p Hp. assert (HI : In (fst p) (map snd (d_fields d))) by (rewrite <- KU; apply in_map; exact Hp).
    apply in_map_iff in HI. destruct HI as [f [Ef Hf]]. rewrite forallb_forall in NU. rewrite <- Ef. apply NU. exact Hf. }
  assert (FR : forallb (fun p : text * json => negb (negb (starts_underscore (fst p)))) rkv = true).
  { apply forallb_forall. intros p Hp. assert (HI : In (fst p) (map snd (reserved c))) by (rewrite <- KR; apply in_map; exact Hp).
    apply in_map_iff in HI. destruct HI as [f [Ef Hf]]. rewrite negb_involutive. rewrite <- Ef. apply (f_res_us c OK). exact Hf. }
  unfold read_plain. rewrite (filter_app_split _ ukv rkv FU FR).
  set (fields' := map (fun p : text * json => (fieldtype_for_value c (snd p), fst p)) ukv).
  set (d' := Desc (fallback_name c) fields').
  assert (EN : map snd fields' = map fst ukv) by (unfold fields'; rewrite map_map; reflexivity).
  unfold all_fields. cbn [d_fields]. fold fields'.
  assert (CHK : forallb (fun p : text * json => mem (fst p) (map snd (fields' ++ reserved c))) (ukv ++ rkv) = true).
  { apply forallb_forall. intros p Hp. apply mem_In. rewrite map_app, EN, <- KR, <- map_app. apply in_map. exact Hp. }
  change (d_fields d') with fields'.
  rewrite CHK.
  set (dflt' := uses_defaults c d').
  rewrite map_app, all_some_app.
  (* declared fields of the fallback descriptor *)
  assert (UP : all_some (map (plain_unpack_field c dflt' (ukv ++ rkv)) fields') = Some (map (fun p => plain_of_json (snd p)) ukv)).
  { unfold fields'. rewrite map_map. apply all_some_map_Some. intros [k j] Hp. cbn [fst snd].
    unfold plain_unpack_field.
    rewrite (lookup_app_found k j ukv rkv) by (apply lookup_In_nodup; [rewrite KU; exact NDU|exact Hp]).
    rewrite forallb_forall in FU. specialize (FU _ Hp). cbn [fst] in FU. apply negb_true_iff in FU.
    replace (text_eqb k (version_key c)) with false
      by (symmetry; apply text_eqb_neq; apply starts_underscore_neq; [exact FU|exact (f_vk_us c OK)]).
    replace (text_eqb k (generated_key c)) with false
      by (symmetry; apply text_eqb_neq; apply starts_underscore_neq; [exact FU|exact (f_gk_us c OK)]).
    cbn [andb]. apply plain_value_spec. }
  rewrite UP.
  (* reserved fields *)
  assert (RP : all_some (map (plain_unpack_field c dflt' (ukv ++ rkv)) (reserved c)) = Some rv).
  { unfold rkv. apply (plain_reserved_spec dflt dflt' (reserved c) rv ukv); auto.
    intros n Hn HI. rewrite KU in HI. exact (NoDup_app_disj _ _ n ND HI Hn). }
  rewrite RP.
  eexists. split; [reflexivity|]. split; [reflexivity|].
  unfold scalar_view_record, scalar_view_doc. cbn [r_desc r_vals]. change (d_fields d') with fields'.
  rewrite app_nil_r. rewrite (filter_app_split _ ukv rkv FU FR).
  rewrite combine_app_l by (unfold fields'; rewrite !map_length; reflexivity).
  unfold fields'. rewrite combine_map_map, map_map.
  apply map_ext_in. intros [k j] Hp. cbn [fst snd]. f_equal.
  apply scalar_json_of_plain.
  pose proof (fields_spec_wf _ _ _ SU) as WF. fold ukv in WF. rewrite forallb_forall in WF. exact (WF _ Hp).
Qed.

End WithHash.
End Plain.

(* ------------------------------------------------------------------------------------------ *)
(* 10. the boolean equalities the correspondence check evaluates are sound                       *)

Fixpoint json_eqb_eq (a : json) {struct a} : forall b, json_eqb a b = true -> a = b.
Proof.
  destruct a; intros [] E; cbn [json_eqb] in E; try discriminate; try reflexivity.
  - apply eqb_prop in E. congruence.
  - apply Z.eqb_eq in E. congruence.
  - apply N.eqb_eq in E. congruence.
  - destruct k, k0; try discriminate; reflexivity.
  - apply text_eqb_eq in E. congruence.
  - f_equal. revert l0 E. induction l as [|x l IHl]; intros [|y l0] E; try discriminate; [reflexivity|].
    apply andb_prop in E. destruct E as [E1 E2]. f_equal; [apply json_eqb_eq; exact E1|apply IHl; exact E2].
  - f_equal. revert kv0 E. induction kv as [|[k x] kv IHl]; intros [|[k' y] kv0] E; try discriminate; [reflexivity|].
    apply andb_prop in E. destruct E as [E E3]. apply andb_prop in E. destruct E as [E1 E2].
    apply text_eqb_eq in E1. subst k'. f_equal; [f_equal; apply json_eqb_eq; exact E2|apply IHl; exact E3].
Qed.

Lemma opt_text_eqb_eq' a b : opt_text_eqb a b = true -> a = b.
Proof. apply opt_text_eqb_eq. Qed.

Lemma dtm_eqb_eq a b : dtm_eqb a b = true -> a = b.
Proof.
  unfold dtm_eqb. intros E.
  repeat match goal with X : _ && _ = true |- _ => let X' := fresh "Q" in apply andb_prop in X; destruct X as [X X'] end.
  repeat match goal with X : N.eqb _ _ = true |- _ => apply N.eqb_eq in X | X : Z.eqb _ _ = true |- _ => apply Z.eqb_eq in X end.
  destruct a, b; cbn in *; congruence.
Qed.

Fixpoint jval_eqb_eq (a : jval) {struct a} : forall b, jval_eqb a b = true -> a = b.
Proof.
  destruct a; intros [] E; cbn [jval_eqb] in E; try discriminate; try reflexivity.
  - apply text_eqb_eq in E. congruence.
  - apply Z.eqb_eq in E. congruence.
  - apply eqb_prop in E. congruence.
  - apply N.eqb_eq in E. congruence.
  - apply dtm_eqb_eq in E. congruence.
  - apply bytes_eqb_eq in E. congruence.
  - apply andb_prop in E. destruct E as [E E3]. apply andb_prop in E. destruct E as [E1 E2].
    apply opt_text_eqb_eq in E1, E2, E3. congruence.
  - apply text_eqb_eq in E. congruence.
  - apply text_eqb_eq in E. congruence.
  - apply text_eqb_eq in E. congruence.
  - f_equal. revert l0 E. induction l as [|x l IHl]; intros [|y l0] E; try discriminate; [reflexivity|].
    apply andb_prop in E. destruct E as [E1 E2]. f_equal; [apply jval_eqb_eq; exact E1|apply IHl; exact E2].
  - apply json_eqb_eq in E. congruence.
Qed.

Lemma vals_eqb_eq a : forall b, vals_eqb a b = true -> a = b.
Proof.
  induction a as [|x a IH]; intros [|y b] E; try discriminate; [reflexivity|]. cbn in E.
  apply andb_prop in E. destruct E as [E1 E2]. f_equal; [apply jval_eqb_eq; exact E1|apply IH; exact E2].
Qed.

Theorem record_eqb_eq a b : record_eqb a b = true -> a = b.
Proof.
  unfold record_eqb. intros E. apply andb_prop in E. destruct E as [E1 E2].
  apply desc_eqb_eq in E1. apply vals_eqb_eq in E2. destruct a, b; cbn in *; congruence.
Qed.

(* ------------------------------------------------------------------------------------------ *)
(* 11. refused writes: the application catches the exception of write() and carries on          *)

Section Tolerant.
Variable c : jcfg.
Hypothesis OK : cfg_facts c.
Variable H : descriptor -> Z.

(* a refused write emits no record document; it registers the descriptor and emits its document exactly when the
   registry did not hold it -- so the file and the registry stay in step *)
Lemma write_step_refused on reg r : pack_record c H on r = None ->
  write_step c H on reg r =
  if known H true reg (r_desc r) then (reg, [])
  else ((ident_of H (r_desc r), r_desc r) :: reg, if on then [pack_descriptor c (r_desc r)] else []).
Proof.
  intros P. unfold write_step. rewrite P, (f_pg c OK).
  destruct (known H true reg (r_desc r)) eqn:K; [reflexivity|].
  unfold register. rewrite (f_rg c OK), K. reflexivity.
Qed.

Lemma write_step_good on reg r : rec_good c r ->
  write_step c H on reg r =
  if known H true reg (r_desc r) then (reg, [record_spec c H on r])
  else ((ident_of H (r_desc r), r_desc r) :: reg, (if on then [pack_descriptor c (r_desc r)] else []) ++ [record_spec c H on r]).
Proof.
  intros G. unfold write_step. rewrite (pack_record_spec c OK H on r G), (f_pg c OK).
  destruct (known H true reg (r_desc r)) eqn:K; [reflexivity|].
  unfold register. rewrite (f_rg c OK), K. reflexivity.
Qed.

(* when nothing is refused the tolerant writer is the writer *)
Lemma write_tolerant_all_good on rs : forall reg, Forall (rec_good c) rs ->
  write_from c H on reg rs = Some (write_tolerant c H on reg rs).
Proof.
  intros reg G. rewrite (write_from_spec c OK H on rs reg G). f_equal. revert reg.
  induction G as [|r rs G1 G2 IH]; intros reg; [reflexivity|].
  cbn [docs_spec write_tolerant]. rewrite (write_step_good on reg r G1).
  destruct (known H true reg (r_desc r)); rewrite IH; [reflexivity|]. rewrite <- app_assoc. reflexivity.
Qed.

Lemma accepted_good r : rec_good c r -> accepted c H true r = true.
Proof. intros G. unfold accepted. rewrite (pack_record_spec c OK H true r G). reflexivity. Qed.
Lemma accepted_refused r : pack_record c H true r = None -> accepted c H true r = false.
Proof. intros P. unfold accepted. rewrite P. reflexivity. Qed.

(* every record whose write succeeded reads back, in order -- whatever was refused in between, also as the first
   record of its type *)
Theorem tolerant_roundtrip rs : forall reg,
  Forall (fun r => rec_good c r \/ pack_record c H true r = None) rs ->
  read_from c H reg (write_tolerant c H true reg rs) = Some (filter (accepted c H true) rs).
Proof.
  induction rs as [|r rs IH]; intros reg G; [reflexivity|].
  inversion G as [|? ? G1 G2]; subst. cbn [write_tolerant filter].
  destruct G1 as [G1|G1].
  - rewrite (write_step_good true reg r G1), (accepted_good r G1).
    destruct (known H true reg (r_desc r)) eqn:K.
    + cbn [app read_from]. rewrite (read_record_doc c OK H reg r G1 (known_true_get H reg _ K)). rewrite (IH reg G2). reflexivity.
    + cbn [app read_from]. rewrite (read_descriptor_doc c OK H). unfold register. rewrite (f_rg c OK), K. cbn [fst].
      rewrite (read_record_doc c OK H); [|exact G1|cbn [reg_get]; rewrite ident_eqb_refl; reflexivity].
      rewrite (IH _ G2). reflexivity.
  - rewrite (write_step_refused true reg r G1), (accepted_refused r G1).
    destruct (known H true reg (r_desc r)) eqn:K.
    + cbn [app]. apply IH. exact G2.
    + cbn [app read_from]. rewrite (read_descriptor_doc c OK H). unfold register. rewrite (f_rg c OK), K. cbn [fst].
      apply IH. exact G2.
Qed.

End Tolerant.

(* ------------------------------------------------------------------------------------------ *)
(* 9. the statements used by props/C14.v, under the computed side condition cfg_ok               *)

Section Top.
Variable c : jcfg.
Hypothesis CFG : cfg_ok c = true.
Variable H : descriptor -> Z.

Let OK : cfg_facts c := cfg_ok_facts c CFG.

(* a record over the supported types whose floats survive the NaN / Infinity tokens *)
Definition supported (r : record) : Prop := record_ok c r = true /\ forallb val_float_canonical (r_vals r) = true.

Fixpoint finite_canonical (v : jval) {struct v} : val_finite v = true -> val_float_canonical v = true.
Proof.
  destruct v; cbn [val_finite val_float_canonical]; intros F; try reflexivity.
  - rewrite F. reflexivity.
  - induction l as [|x l IHl]; [reflexivity|]. cbn [forallb] in *. apply andb_prop in F. destruct F as [F1 F2].
    rewrite (finite_canonical x F1). cbn [andb]. apply IHl. exact F2.
Qed.

Lemma finite_supported r : record_ok c r = true -> record_finite r = true -> supported r.
Proof.
  intros G F. split; [exact G|]. unfold record_finite in F. apply forallb_forall. intros v Hv.
  rewrite forallb_forall in F. apply finite_canonical. apply F. exact Hv.
Qed.

Theorem top_value_roundtrip dflt t v : has_type c dflt t v = true -> val_float_canonical v = true ->
  exists j, pack_value c (mem t (bool_cast_types c)) v = Some j /\ unpack_value c dflt t j = Some v.
Proof.
  intros HT C. destruct (value_roundtrip c OK dflt t v HT C) as [P [U _]]. eexists. split; [exact P|exact U].
Qed.

Theorem top_value_mapping dflt t v : has_type c dflt t v = true -> val_float_canonical v = true ->
  pack_value c (mem t (bool_cast_types c)) v = Some (json_of_value (mem t (bool_cast_types c)) v).
Proof. intros HT C. destruct (value_roundtrip c OK dflt t v HT C) as [P _]. exact P. Qed.

Theorem top_roundtrip rs : Forall supported rs ->
  exists docs, write_json c H true rs = Some docs /\ read_json c H docs = Some rs.
Proof. intros G. apply (stream_roundtrip c OK H rs). exact G. Qed.

Theorem top_documents on rs : Forall supported rs ->
  exists docs, write_json c H on rs = Some docs
  /\ Forall (fun d => exists kv, d = JObj kv) docs
  /\ map doc_keys (filter (fun d => negb (is_descriptor_doc c d)) docs)
       = map (fun r => Some (slot_names c r ++ (if on then [type_key c; desc_key c] else []))) rs
  /\ Forall (fun d => is_descriptor_doc c d = true -> doc_keys d = Some [type_key c; data_key c]) docs
  /\ (on = false -> List.length docs = List.length rs /\ Forall (fun d => is_descriptor_doc c d = false) docs).
Proof.
  intros G. exists (docs_spec c H on [] rs). split; [apply (write_from_spec c OK H on rs []); exact G|].
  destruct (docs_shape c OK H on rs [] G) as [S1 [S2 [S3 S4]]].
  split; [exact S3|]. split; [exact S1|]. split; [exact S2|].
  intros E. rewrite (S4 E). split; [apply map_length|].
  apply Forall_forall. intros d Hd. apply in_map_iff in Hd. destruct Hd as [r [<- Hr]].
  rewrite Forall_forall in G. destruct (record_doc_kind c OK H false r (G r Hr)) as [K _]. exact K.
Qed.

Theorem top_plain_json on rs : Forall (fun r => record_ok c r = true /\ record_finite r = true) rs ->
  exists docs, write_json c H on rs = Some docs /\ forallb plain_json docs = true.
Proof.
  intros G.
  assert (G' : Forall supported rs).
  { apply Forall_forall. intros r Hr. rewrite Forall_forall in G. destruct (G r Hr). apply finite_supported; assumption. }
  exists (docs_spec c H on [] rs). split; [apply (write_from_spec c OK H on rs []); exact G'|].
  apply (docs_plain c H on rs []); [exact G'|].
  apply forallb_forall. intros r Hr. rewrite Forall_forall in G. destruct (G r Hr). assumption.
Qed.

Lemma read_plain_docs rs : forall reg, Forall supported rs ->
  exists ps, read_from c H reg (map (record_spec c H false) rs) = Some ps
  /\ Forall2 (fun doc p => d_name (r_desc p) = fallback_name c /\ scalar_view_record p = scalar_view_doc c doc)
             (map (record_spec c H false) rs) ps.
Proof.
  induction rs as [|r rs IH]; intros reg G.
  - exists []. split; [reflexivity|constructor].
  - inversion G as [|? ? G1 G2]; subst.
    destruct (IH reg G2) as [ps [R F]].
    destruct (read_plain_spec c OK H r G1) as [p [P [Pn Pv]]].
    exists (p :: ps). split; [|constructor; [split; assumption|exact F]].
    cbn [map read_from]. unfold record_spec at 1. unfold read_one.
    pose proof G1 as [G0 _]. apply record_ok_inv in G0. destruct G0 as [S [_ [N1 _]]].
    rewrite app_nil_r. rewrite lookup_notin by (rewrite (fields_spec_keys c _ _ _ S); exact N1).
    rewrite P, R. reflexivity.
Qed.

Theorem top_no_descriptors rs : Forall supported rs ->
  exists docs ps, write_json c H false rs = Some docs /\ read_json c H docs = Some ps
  /\ Forall2 (fun doc p => d_name (r_desc p) = fallback_name c /\ scalar_view_record p = scalar_view_doc c doc) docs ps.
Proof.
  intros G. destruct (docs_shape c OK H false rs [] G) as [_ [_ [_ S4]]].
  destruct (read_plain_docs rs [] G) as [ps [R F]].
  exists (map (record_spec c H false) rs), ps. split; [|split; assumption].
  rewrite <- (S4 eq_refl). apply (write_from_spec c OK H false rs []). exact G.
Qed.

(* the same for records whose floats are all finite (the property's json_supported) *)
Definition json_ok (r : record) : Prop := record_ok c r = true /\ record_finite r = true.

Lemma ok_supported rs : Forall json_ok rs -> Forall supported rs.
Proof.
  intros G. apply Forall_forall. intros r Hr. rewrite Forall_forall in G. destruct (G r Hr) as [A B].
  exact (finite_supported r A B).
Qed.

Theorem top_value dflt t v : has_type c dflt t v = true -> val_float_canonical v = true ->
  pack_value c (mem t (bool_cast_types c)) v = Some (json_of_value (mem t (bool_cast_types c)) v)
  /\ exists j, pack_value c (mem t (bool_cast_types c)) v = Some j /\ unpack_value c dflt t j = Some v.
Proof. intros HT C. split; [exact (top_value_mapping dflt t v HT C)|exact (top_value_roundtrip dflt t v HT C)]. Qed.

Theorem top_roundtrip_finite rs : Forall json_ok rs ->
  exists docs, write_json c H true rs = Some docs /\ read_json c H docs = Some rs.
Proof. intros G. exact (top_roundtrip rs (ok_supported rs G)). Qed.

Theorem top_documents_finite on rs : Forall json_ok rs ->
  exists docs, write_json c H on rs = Some docs
  /\ Forall (fun d => exists kv, d = JObj kv) docs
  /\ map doc_keys (filter (fun d => negb (is_descriptor_doc c d)) docs)
       = map (fun r => Some (slot_names c r ++ (if on then [type_key c; desc_key c] else []))) rs
  /\ Forall (fun d => is_descriptor_doc c d = true -> doc_keys d = Some [type_key c; data_key c]) docs
  /\ (on = false -> List.length docs = List.length rs /\ Forall (fun d => is_descriptor_doc c d = false) docs).
Proof. intros G. exact (top_documents on rs (ok_supported rs G)). Qed.

Theorem top_no_descriptors_finite rs : Forall json_ok rs ->
  exists docs ps, write_json c H false rs = Some docs /\ read_json c H docs = Some ps
  /\ Forall2 (fun doc p => d_name (r_desc p) = fallback_name c /\ scalar_view_record p = scalar_view_doc c doc) docs ps.
Proof. intros G. exact (top_no_descriptors rs (ok_supported rs G)). Qed.

(* refused writes *)
Theorem top_refused_step on reg r : pack_record c H on r = None ->
  write_step c H on reg r =
  if known H true reg (r_desc r) then (reg, [])
  else ((ident_of H (r_desc r), r_desc r) :: reg, if on then [pack_descriptor c (r_desc r)] else []).
Proof. exact (write_step_refused c OK H on reg r). Qed.

Theorem top_refused_writes rs : Forall (fun r => json_ok r \/ pack_record c H true r = None) rs ->
  read_json c H (write_tolerant c H true [] rs) = Some (filter (accepted c H true) rs).
Proof.
  intros G. apply (tolerant_roundtrip c OK H rs []).
  apply Forall_forall. intros r Hr. rewrite Forall_forall in G. destruct (G r Hr) as [[A B]|P]; [left|right; exact P].
  exact (finite_supported r A B).
Qed.

Theorem top_tolerant_agrees on rs : Forall json_ok rs -> write_json c H on rs = Some (write_tolerant c H on [] rs).
Proof. intros G. exact (write_tolerant_all_good c OK H on rs [] (ok_supported rs G)). Qed.

End Top.

(* a fallback value stands for exactly the JSON scalar it was read from *)
Theorem scalars_preserved j : scalar_wf j = true -> is_scalar j = true -> scalar_json_of (plain_of_json j) = Some j.
Proof. intros W S. rewrite scalar_json_of_plain by exact W. rewrite S. reflexivity. Qed.
