(* Lemmas about model/Detect.v.  All statements quantify over arbitrary byte strings; the generated facts
   enter only through the computed side condition [facts_ok F = true]. *)
From Coq Require Import List Bool Arith NArith String Lia.
From Coq Require Import Strings.Byte.
Import ListNotations.
From FR Require Import Detect.
Open Scope list_scope.

(* ---------- byte strings ---------- *)

Lemma byte_eqb_refl b : Byte.eqb b b = true.
Proof. apply Byte.byte_dec_lb. reflexivity. Qed.

Lemma beqb_eq a b : beqb a b = true <-> a = b.
Proof.
  revert b; induction a as [|x a IH]; intros [|y b]; cbn; split; intros H; try reflexivity; try discriminate.
  - apply andb_prop in H. destruct H as [H1 H2]. apply Byte.byte_dec_bl in H1. apply IH in H2. congruence.
  - inversion H; subst. rewrite byte_eqb_refl. cbn. apply IH. reflexivity.
Qed.

Lemma beqb_refl a : beqb a a = true.
Proof. apply beqb_eq. reflexivity. Qed.

Lemma starts_with_app p r : starts_with p (p ++ r) = true.
Proof. induction p as [|x p IH]; cbn; [reflexivity|]. rewrite byte_eqb_refl, IH. reflexivity. Qed.

Lemma starts_with_refl p : starts_with p p = true.
Proof. rewrite <- (app_nil_r p) at 2. apply starts_with_app. Qed.

Lemma starts_with_spec p s : starts_with p s = true <-> exists r, s = p ++ r.
Proof.
  split.
  - revert s; induction p as [|x p IH]; intros s H; cbn in *.
    + exists s. reflexivity.
    + destruct s as [|y s]; [discriminate|]. apply andb_prop in H. destruct H as [H1 H2].
      apply Byte.byte_dec_bl in H1. subst y. destruct (IH s H2) as [r ->]. exists r. reflexivity.
  - intros [r ->]. apply starts_with_app.
Qed.

(* s[:len(m)] == m  is  s.startswith(m) *)
Lemma slice_eq_starts_with m s : slice_eq (List.length m) s m = starts_with m s.
Proof.
  unfold slice_eq. revert s; induction m as [|x m IH]; intros s; cbn.
  - reflexivity.
  - destruct s as [|y s]; cbn; [reflexivity|]. rewrite IH.
    destruct (Byte.eqb y x) eqn:E1, (Byte.eqb x y) eqn:E2; try reflexivity.
    + apply Byte.byte_dec_bl in E1. subst. rewrite byte_eqb_refl in E2. discriminate.
    + apply Byte.byte_dec_bl in E2. subst. rewrite byte_eqb_refl in E1. discriminate.
Qed.

(* a prefix test on h ++ r is decided by h alone when the two are incomparable *)
Lemma starts_with_app_cases m h r :
  starts_with m (h ++ r) = true -> starts_with m h = true \/ starts_with h m = true.
Proof.
  revert h; induction m as [|x m IH]; intros h H; cbn in *.
  - left. reflexivity.
  - destruct h as [|y h]; cbn in *.
    + right. reflexivity.
    + apply andb_prop in H. destruct H as [H1 H2]. apply Byte.byte_dec_bl in H1. subst y.
      rewrite byte_eqb_refl. cbn. apply IH. exact H2.
Qed.

Lemma incomparable_app m h r : incomparable m h = true -> starts_with m (h ++ r) = false.
Proof.
  unfold incomparable. intros H. apply andb_prop in H. destruct H as [H1 H2].
  destruct (starts_with m (h ++ r)) eqn:E; [|reflexivity].
  apply starts_with_app_cases in E. destruct E as [E|E]; rewrite E in *; discriminate.
Qed.

Lemma firstn_le_agree (n k : nat) (a b : bytes) :
  k <= n -> firstn n a = firstn n b -> firstn k a = firstn k b.
Proof.
  intros Hk H. rewrite <- (Nat.min_l k n Hk). rewrite <- !firstn_firstn. rewrite H. reflexivity.
Qed.

Lemma ends_with_app s stem : ends_with s (stem ++ s) = true.
Proof. unfold ends_with. rewrite rev_app_distr. apply starts_with_app. Qed.

Lemma ends_with_spec p s : ends_with p s = true <-> exists l, s = l ++ p.
Proof.
  unfold ends_with. rewrite starts_with_spec. split.
  - intros [r H]. exists (rev r). rewrite <- (rev_involutive s), H, rev_app_distr, rev_involutive. reflexivity.
  - intros [l ->]. exists (rev l). apply rev_app_distr.
Qed.

Lemma is_infix_self p : is_infix p p = true.
Proof. destruct p as [|x p]; cbn; [reflexivity|]. rewrite byte_eqb_refl, starts_with_refl. reflexivity. Qed.

Lemma is_infix_app_l l p : is_infix p (l ++ p) = true.
Proof.
  induction l as [|x l IH]; cbn [app].
  - apply is_infix_self.
  - cbn [is_infix]. rewrite IH. apply orb_true_r.
Qed.

Lemma is_infix_app_r p s r : is_infix p s = true -> is_infix p (s ++ r) = true.
Proof.
  induction s as [|x s IH]; intros H.
  - cbn in H. destruct p; [|discriminate]. cbn. destruct r; reflexivity.
  - cbn [is_infix] in H. apply orb_true_iff in H.
    change ((x :: s) ++ r) with (x :: (s ++ r)). cbn [is_infix]. apply orb_true_iff. destruct H as [H|H].
    + left. apply starts_with_spec in H. destruct H as [q H].
      change (x :: s ++ r) with ((x :: s) ++ r). rewrite H, <- app_assoc. apply starts_with_app.
    + right. apply IH. exact H.
Qed.

Lemma ends_with_is_infix p s : ends_with p s = true -> is_infix p s = true.
Proof. intros H. apply ends_with_spec in H. destruct H as [l ->]. apply is_infix_app_l. Qed.

Lemma firstn_length_app (h r : bytes) : firstn (List.length h) (h ++ r) = h.
Proof. rewrite firstn_app, Nat.sub_diag, firstn_all. cbn. apply app_nil_r. Qed.

(* ---------- codecs ---------- *)

Lemma codec_eqb_eq a b : codec_eqb a b = true <-> a = b.
Proof. destruct a, b; cbn; split; intros H; try reflexivity; try discriminate. Qed.

Lemma oflag_eqb_eq a b : oflag_eqb a b = true -> a = b.
Proof. destruct a as [[]|], b as [[]|]; cbn; intros H; try reflexivity; discriminate. Qed.

(* the four signatures are pairwise incomparable (they differ in the first byte) *)
Lemma std_magic_excl c c' r :
  c <> Plain -> c' <> Plain -> starts_with (std_magic c') (std_magic c ++ r) = true -> c' = c.
Proof. destruct c, c'; cbn; intros H1 H2 H; try reflexivity; try discriminate; congruence. Qed.

Lemma sniff_branch_ok_inv b : sniff_branch_ok b = true ->
  sb_codec b <> Plain /\ sb_magic b = std_magic (sb_codec b) /\ sb_len b = List.length (sb_magic b)
  /\ sb_guard b = flag_of (sb_codec b).
Proof.
  unfold sniff_branch_ok. intros H.
  apply andb_prop in H. destruct H as [H H4]. apply andb_prop in H. destruct H as [H H3].
  apply andb_prop in H. destruct H as [H1 H2].
  repeat split.
  - intros E. rewrite E in H1. discriminate.
  - apply beqb_eq. exact H2.
  - apply Nat.eqb_eq. exact H3.
  - apply oflag_eqb_eq. exact H4.
Qed.

Lemma sniff_fires_ok e b pk : sniff_branch_ok b = true ->
  sniff_fires e b pk = avail e (sb_codec b) && starts_with (std_magic (sb_codec b)) pk.
Proof.
  intros H. apply sniff_branch_ok_inv in H. destruct H as (_ & Hm & Hl & Hg).
  unfold sniff_fires, avail. rewrite Hg, Hl, slice_eq_starts_with, Hm. reflexivity.
Qed.

Definition has_codec (c : codec) (ch : list sniff_branch) : bool :=
  existsb (fun b => codec_eqb (sb_codec b) c) ch.

Lemma sniff_eval_magic e ch c r :
  forallb sniff_branch_ok ch = true -> c <> Plain ->
  sniff_eval e ch (std_magic c ++ r) = if avail e c && has_codec c ch then c else Plain.
Proof.
  intros Hok Hc. unfold has_codec. induction ch as [|b ch IH]; cbn [sniff_eval existsb].
  - rewrite andb_false_r. reflexivity.
  - cbn [forallb] in Hok. apply andb_prop in Hok. destruct Hok as [Hb Hch].
    rewrite (sniff_fires_ok e b _ Hb). specialize (IH Hch).
    destruct (codec_eqb (sb_codec b) c) eqn:E.
    + apply codec_eqb_eq in E. rewrite E, starts_with_app, andb_true_r. cbn [orb].
      destruct (avail e c) eqn:A; cbn [andb]; [reflexivity|]. rewrite IH. reflexivity.
    + cbn [orb]. destruct (starts_with (std_magic (sb_codec b)) (std_magic c ++ r)) eqn:S.
      * apply std_magic_excl in S; [|exact Hc|apply (sniff_branch_ok_inv b Hb)].
        rewrite S in E. destruct c; discriminate.
      * rewrite andb_false_r. exact IH.
Qed.

Lemma sniff_eval_sound e ch pk c :
  forallb sniff_branch_ok ch = true -> sniff_eval e ch pk = c -> c <> Plain ->
  starts_with (std_magic c) pk = true /\ avail e c = true /\ has_codec c ch = true.
Proof.
  intros Hok. unfold has_codec. induction ch as [|b ch IH]; cbn [sniff_eval existsb]; intros H Hc.
  - congruence.
  - cbn [forallb] in Hok. apply andb_prop in Hok. destruct Hok as [Hb Hch].
    rewrite (sniff_fires_ok e b _ Hb) in H.
    destruct (avail e (sb_codec b) && starts_with (std_magic (sb_codec b)) pk) eqn:E.
    + subst c. apply andb_prop in E. destruct E as [E1 E2]. repeat split; try assumption.
      replace (codec_eqb (sb_codec b) (sb_codec b)) with true by (symmetry; apply codec_eqb_eq; reflexivity).
      reflexivity.
    + destruct (IH Hch H Hc) as (A & B0 & C). repeat split; try assumption. rewrite C. apply orb_true_r.
Qed.

Lemma sniff_eval_plain e ch pk :
  forallb sniff_branch_ok ch = true ->
  (forall c, c <> Plain -> avail e c = true -> starts_with (std_magic c) pk = false) ->
  sniff_eval e ch pk = Plain.
Proof.
  intros Hok H. destruct (sniff_eval e ch pk) eqn:E; try reflexivity;
    (destruct (sniff_eval_sound e ch pk _ Hok E) as (A & B0 & _); [discriminate|];
     rewrite H in A; [discriminate|discriminate|exact B0]).
Qed.

Lemma sniff_eval_peek e ch n pk bs :
  forallb (fun b => Nat.leb (sb_len b) n) ch = true -> firstn n pk = firstn n bs ->
  sniff_eval e ch pk = sniff_eval e ch bs.
Proof.
  intros Hl Hp. induction ch as [|b ch IH]; cbn; [reflexivity|].
  cbn in Hl. apply andb_prop in Hl. destruct Hl as [Hb Hch]. apply Nat.leb_le in Hb.
  unfold sniff_fires, slice_eq. rewrite (firstn_le_agree n (sb_len b) pk bs Hb Hp), (IH Hch). reflexivity.
Qed.

Lemma covers_has c ch : covers sb_codec ch = true -> c <> Plain -> has_codec c ch = true.
Proof.
  unfold covers, real_codecs, has_codec. cbn. intros H Hc.
  repeat (apply andb_prop in H; destruct H as [?H H]).
  destruct c; try congruence; assumption.
Qed.

(* ---------- extensions ---------- *)

Lemma list_sub_in a b x : list_sub a b = true -> In x a -> In x b.
Proof.
  induction a as [|y a IH]; cbn; intros H Hin; [contradiction|].
  apply andb_prop in H. destruct H as [H1 H2]. destruct Hin as [->|Hin]; [|apply IH; assumption].
  apply existsb_exists in H1. destruct H1 as [z [Hz E]]. apply beqb_eq in E. subst z. exact Hz.
Qed.

(* the conventional extensions end in pairwise different characters *)
Lemma std_ext_excl c c' x x' stem :
  In x (std_ext c) -> In x' (std_ext c') -> ends_with x' (stem ++ x) = true -> c' = c.
Proof.
  unfold ends_with. rewrite rev_app_distr.
  destruct c, c'; cbn [std_ext In]; intros H1 H2;
    repeat match goal with H : _ \/ _ |- _ => destruct H end; try contradiction; subst;
    try reflexivity; cbn; intros H; discriminate H.
Qed.

Lemma ext_branch_ok_inv b : ext_branch_ok b = true ->
  eb_codec b <> Plain /\ (forall x, In x (eb_suffixes b) <-> In x (std_ext (eb_codec b)))
  /\ eb_guard b = flag_of (eb_codec b).
Proof.
  unfold ext_branch_ok. intros H.
  apply andb_prop in H. destruct H as [H H4]. apply andb_prop in H. destruct H as [H H3].
  apply andb_prop in H. destruct H as [H1 H2].
  repeat split.
  - intros E. rewrite E in H1. discriminate.
  - apply list_sub_in. exact H2.
  - apply list_sub_in. exact H3.
  - apply oflag_eqb_eq. exact H4.
Qed.

Definition has_ext_codec (c : codec) (ch : list ext_branch) : bool :=
  existsb (fun b => codec_eqb (eb_codec b) c) ch.

Lemma ext_eval_ext e ch c x stem :
  forallb ext_branch_ok ch = true -> In x (std_ext c) ->
  ext_eval e ch (stem ++ x) =
    if has_ext_codec c ch then (if avail e c then ExtCodec c else ExtUnavailable c) else ExtNone.
Proof.
  intros Hok Hx. unfold has_ext_codec. induction ch as [|b ch IH]; cbn [ext_eval existsb]; [reflexivity|].
  cbn [forallb] in Hok. apply andb_prop in Hok. destruct Hok as [Hb Hch]. specialize (IH Hch).
  destruct (ext_branch_ok_inv b Hb) as (Hn & Hs & Hg).
  destruct (codec_eqb (eb_codec b) c) eqn:E.
  - apply codec_eqb_eq in E. cbn [orb].
    assert (M : ext_matches b (stem ++ x) = true).
    { unfold ext_matches. apply existsb_exists. exists x. split; [apply Hs; rewrite E; exact Hx|apply ends_with_app]. }
    rewrite M, Hg, E. reflexivity.
  - cbn [orb].
    assert (M : ext_matches b (stem ++ x) = false).
    { unfold ext_matches. destruct (existsb (fun s => ends_with s (stem ++ x)) (eb_suffixes b)) eqn:X; [|reflexivity].
      apply existsb_exists in X. destruct X as [s [Hs1 Hs2]]. apply Hs in Hs1.
      rewrite (std_ext_excl c (eb_codec b) x s stem Hx Hs1 Hs2) in E.
      destruct c; discriminate. }
    rewrite M. exact IH.
Qed.

Lemma ext_eval_sound e ch path c :
  forallb ext_branch_ok ch = true ->
  (ext_eval e ch path = ExtCodec c \/ ext_eval e ch path = ExtUnavailable c) ->
  c <> Plain /\ exists x, In x (std_ext c) /\ ends_with x path = true.
Proof.
  intros Hok. induction ch as [|b ch IH]; cbn [ext_eval]; intros H.
  - destruct H; discriminate.
  - cbn [forallb] in Hok. apply andb_prop in Hok. destruct Hok as [Hb Hch].
    destruct (ext_branch_ok_inv b Hb) as (Hn & Hs & Hg).
    destruct (ext_matches b path) eqn:M.
    + assert (E : eb_codec b = c) by (destruct (guard_on e (eb_guard b)); destruct H as [H|H]; congruence).
      subst c. split; [exact Hn|].
      unfold ext_matches in M. apply existsb_exists in M. destruct M as [s [Hs1 Hs2]].
      exists s. split; [apply Hs; exact Hs1|exact Hs2].
    + apply IH; assumption.
Qed.

Lemma ext_eval_none e ch path :
  forallb ext_branch_ok ch = true ->
  (forall c x, In x (std_ext c) -> ends_with x path = false) -> ext_eval e ch path = ExtNone.
Proof.
  intros Hok H. destruct (ext_eval e ch path) eqn:E; [reflexivity| |];
    (destruct (ext_eval_sound e ch path c Hok) as (_ & x & Hx1 & Hx2); [auto|]; rewrite (H c x Hx1) in Hx2; discriminate).
Qed.

Lemma covers_has_ext c ch : covers eb_codec ch = true -> c <> Plain -> has_ext_codec c ch = true.
Proof.
  unfold covers, real_codecs, has_ext_codec. cbn. intros H Hc.
  repeat (apply andb_prop in H; destruct H as [?H H]).
  destruct c; try congruence; assumption.
Qed.

(* ---------- unpacking facts_ok ---------- *)

Lemma facts_ok_inv F : facts_ok F = true ->
  sniff_chain_ok F = true /\ ext_chain_ok F = true /\ cont_chain_ok F = true /\ containers_vs_codecs_ok F = true
  /\ adapters_ok F = true /\ f_writer_passthrough F = true /\ f_path_fallback_sniffs F = true
  /\ f_stdin_fallback_sniffs F = true /\ f_private_codec_state F = true /\ header_ok F = true /\ flag_deps_ok F = true
  /\ f_position_preserved F = true /\ spellings_ok F = true.
Proof.
  unfold facts_ok. intros H. do 12 (apply andb_prop in H; destruct H as [H ?H]). repeat split; assumption.
Qed.

Lemma sniff_chain_ok_inv F : sniff_chain_ok F = true ->
  forallb sniff_branch_ok (f_sniff_chain F) = true /\ covers sb_codec (f_sniff_chain F) = true
  /\ forallb (fun b => Nat.leb (sb_len b) (f_sniff_peek F)) (f_sniff_chain F) = true.
Proof. unfold sniff_chain_ok. intros H. do 2 (apply andb_prop in H; destruct H as [H ?H]). repeat split; assumption. Qed.

Lemma ext_chain_ok_inv F : ext_chain_ok F = true ->
  forallb ext_branch_ok (f_ext_chain F) = true /\ covers eb_codec (f_ext_chain F) = true.
Proof. unfold ext_chain_ok. intros H. apply andb_prop in H. exact H. Qed.

(* ---------- the spelling of "no url" ---------- *)

Lemma ourl_eqb_eq a b : ourl_eqb a b = true <-> a = b.
Proof.
  destruct a as [x|], b as [y|]; cbn; split; intros H; try reflexivity; try discriminate.
  - apply beqb_eq in H. subst. reflexivity.
  - inversion H. apply beqb_refl.
Qed.

Lemma ourl_list_eqb_eq a b : ourl_list_eqb a b = true -> a = b.
Proof.
  revert b; induction a as [|x a IH]; intros [|y b]; cbn; intros H; try reflexivity; try discriminate.
  apply andb_prop in H. destruct H as [H1 H2]. apply ourl_eqb_eq in H1. rewrite H1, (IH b H2). reflexivity.
Qed.

Lemma spellings_exact F : facts_ok F = true -> f_no_url_spellings F = std_no_url.
Proof.
  intros HF. destruct (facts_ok_inv F HF) as (_ & _ & _ & _ & _ & _ & _ & _ & _ & _ & _ & _ & Hs).
  apply ourl_list_eqb_eq. exact Hs.
Qed.

(* omitted / None, "" and "-" all normalise to the same source; every other url stays a url *)
Lemma normalise_no_url F : facts_ok F = true -> forall u, In u std_no_url -> normalise_source F u = SrcStream.
Proof.
  intros HF u Hu. unfold normalise_source. rewrite (spellings_exact F HF).
  replace (existsb (ourl_eqb u) std_no_url) with true; [reflexivity|].
  symmetry. apply existsb_exists. exists u. split; [exact Hu|apply ourl_eqb_eq; reflexivity].
Qed.

Lemma normalise_url F : facts_ok F = true -> forall x, x <> [] -> x <> B "-" -> normalise_source F (Some x) = SrcUrl x.
Proof.
  intros HF x H1 H2. unfold normalise_source. rewrite (spellings_exact F HF).
  replace (existsb (ourl_eqb (Some x)) std_no_url) with false; [reflexivity|].
  symmetry. unfold std_no_url. cbn [existsb ourl_eqb]. destruct (beqb x []) eqn:E1; [apply beqb_eq in E1; contradiction|].
  destruct (beqb x (B "-")) eqn:E2; [apply beqb_eq in E2; contradiction|]. reflexivity.
Qed.

(* ---------- open_stream ---------- *)

Section Sniffing.
Variable F : facts.
Hypothesis HF : facts_ok F = true.
Variable e : env.

(* a byte string that begins with the signature of codec c is given to c's decompressor -- or, when c's optional
   module is missing, is treated as plain data *)
Lemma sniff_correct c payload : c <> Plain ->
  sniff_codec F e (std_magic c ++ payload) = if avail e c then c else Plain.
Proof.
  intros Hc. destruct (facts_ok_inv F HF) as (Hs & _). destruct (sniff_chain_ok_inv F Hs) as (H1 & H2 & _).
  unfold sniff_codec. rewrite (sniff_eval_magic e _ c payload H1 Hc), (covers_has c _ H2 Hc), andb_true_r. reflexivity.
Qed.

Lemma sniff_sound pk c : sniff_codec F e pk = c -> c <> Plain ->
  starts_with (std_magic c) pk = true /\ avail e c = true.
Proof.
  intros H Hc. destruct (facts_ok_inv F HF) as (Hs & _). destruct (sniff_chain_ok_inv F Hs) as (H1 & _).
  destruct (sniff_eval_sound e _ pk c H1 H Hc) as (A & B0 & _). split; assumption.
Qed.

Lemma sniff_plain pk :
  (forall c, c <> Plain -> avail e c = true -> starts_with (std_magic c) pk = false) -> sniff_codec F e pk = Plain.
Proof.
  intros H. destruct (facts_ok_inv F HF) as (Hs & _). destruct (sniff_chain_ok_inv F Hs) as (H1 & _).
  apply sniff_eval_plain; assumption.
Qed.

(* only the first [peek_depth] bytes matter *)
Lemma sniff_peek pk bs : firstn (peek_depth F) pk = firstn (peek_depth F) bs -> sniff_codec F e pk = sniff_codec F e bs.
Proof.
  intros H. destruct (facts_ok_inv F HF) as (Hs & _). destruct (sniff_chain_ok_inv F Hs) as (_ & _ & H3).
  unfold sniff_codec. apply (sniff_eval_peek e _ (f_sniff_peek F)); [exact H3|].
  apply (firstn_le_agree (peek_depth F)); [apply Nat.le_max_l|exact H].
Qed.

(* ---------- open_path ---------- *)

Lemma ext_correct c x stem : In x (std_ext c) ->
  ext_codec F e (stem ++ x) = if avail e c then ExtCodec c else ExtUnavailable c.
Proof.
  intros Hx. destruct (facts_ok_inv F HF) as (_ & He & _). destruct (ext_chain_ok_inv F He) as (H1 & H2).
  unfold ext_codec. rewrite (ext_eval_ext e _ c x stem H1 Hx), (covers_has_ext c _ H2); [reflexivity|].
  destruct c; cbn in Hx; try contradiction; discriminate.
Qed.

Lemma ext_sound path c : (ext_codec F e path = ExtCodec c \/ ext_codec F e path = ExtUnavailable c) ->
  c <> Plain /\ exists x, In x (std_ext c) /\ ends_with x path = true.
Proof.
  destruct (facts_ok_inv F HF) as (_ & He & _). destruct (ext_chain_ok_inv F He) as (H1 & _).
  apply ext_eval_sound. exact H1.
Qed.

Lemma ext_none path : (forall c x, In x (std_ext c) -> ends_with x path = false) -> ext_codec F e path = ExtNone.
Proof.
  destruct (facts_ok_inv F HF) as (_ & He & _). destruct (ext_chain_ok_inv F He) as (H1 & _).
  apply ext_eval_none. exact H1.
Qed.

(* ---------- find_adapter_for_stream ---------- *)

Lemma cont_shape :
  f_cont_chain F =
    [ {| cb_guard := Some FAvro; cb_test := CPrefix 3 (B "Obj"); cb_adapter := B "avro" |};
      {| cb_guard := None; cb_test := CWithin (List.length (f_header_frame F)) (f_rs_magic F); cb_adapter := B "stream" |} ]
    /\ ends_with (f_rs_magic F) (f_header_frame F) = true
    /\ List.length (f_header_frame F) <= f_cont_peek F /\ 3 <= f_cont_peek F
    /\ incomparable (B "Obj") (f_header_frame F) = true.
Proof.
  destruct (facts_ok_inv F HF) as (_ & _ & Hc & _). unfold cont_chain_ok in Hc.
  destruct (f_cont_chain F) as [|[g1 t1 a1] [|[g2 t2 a2] [|? ?]]]; try discriminate Hc;
    (destruct g1 as [[]|]; try discriminate Hc); (destruct t1 as [k m|? ?]; try discriminate Hc);
    (destruct g2; try discriminate Hc); (destruct t2 as [? ?|d rs]; try discriminate Hc).
  repeat (apply andb_prop in Hc; destruct Hc as [Hc ?H]).
  apply beqb_eq in Hc. subst m. apply Nat.eqb_eq in H7. apply beqb_eq in H6, H5, H4. apply Nat.eqb_eq in H3.
  apply Nat.leb_le in H1, H0. subst. repeat split; assumption.
Qed.

Lemma container_stream rest : sniff_container F e (f_header_frame F ++ rest) = Some (B "stream").
Proof.
  destruct cont_shape as (Hch & Hrs & _ & _ & Hinc). unfold sniff_container. rewrite Hch.
  cbn [cont_eval cb_guard cb_test cb_adapter ctest_holds guard_on].
  change 3 with (List.length (B "Obj")). rewrite slice_eq_starts_with, (incomparable_app _ _ rest Hinc), andb_false_r.
  rewrite firstn_length_app, (ends_with_is_infix _ _ Hrs). reflexivity.
Qed.

Lemma container_avro rest : e FAvro = true -> sniff_container F e (B "Obj" ++ rest) = Some (B "avro").
Proof.
  intros He. destruct cont_shape as (Hch & _). unfold sniff_container. rewrite Hch.
  cbn [cont_eval cb_guard cb_test cb_adapter ctest_holds guard_on]. rewrite He.
  change 3 with (List.length (B "Obj")). rewrite slice_eq_starts_with, starts_with_app. reflexivity.
Qed.

(* exact characterisation of the container decision *)
Lemma container_spec pk :
  sniff_container F e pk =
    if e FAvro && starts_with (B "Obj") pk then Some (B "avro")
    else if is_infix (f_rs_magic F) (firstn (List.length (f_header_frame F)) pk) then Some (B "stream") else None.
Proof.
  destruct cont_shape as (Hch & _). unfold sniff_container. rewrite Hch.
  cbn [cont_eval cb_guard cb_test cb_adapter ctest_holds guard_on].
  change 3 with (List.length (B "Obj")). rewrite slice_eq_starts_with. reflexivity.
Qed.

Lemma container_peek pk bs :
  firstn (peek_depth F) pk = firstn (peek_depth F) bs -> sniff_container F e pk = sniff_container F e bs.
Proof.
  intros H. destruct cont_shape as (Hch & _ & Hl1 & Hl2 & _). unfold sniff_container. rewrite Hch.
  cbn [cont_eval cb_guard cb_test cb_adapter ctest_holds guard_on]. unfold slice_eq.
  assert (Hp : f_cont_peek F <= peek_depth F) by apply Nat.le_max_r.
  rewrite (firstn_le_agree (peek_depth F) 3 pk bs) by (try lia; exact H).
  rewrite (firstn_le_agree (peek_depth F) (List.length (f_header_frame F)) pk bs) by (try lia; exact H).
  reflexivity.
Qed.

(* a plain container is never taken for compressed data *)
Lemma frame_not_codec rest : sniff_codec F e (f_header_frame F ++ rest) = Plain.
Proof.
  apply sniff_plain. intros c Hc _. destruct (facts_ok_inv F HF) as (_ & _ & _ & Hv & _).
  unfold containers_vs_codecs_ok, real_codecs in Hv. cbn [forallb] in Hv.
  repeat match goal with H : _ && _ = true |- _ => apply andb_prop in H; destruct H end.
  destruct c; try congruence; apply incomparable_app; assumption.
Qed.

Lemma avro_not_codec rest : sniff_codec F e (B "Obj" ++ rest) = Plain.
Proof.
  apply sniff_plain. intros c Hc _. destruct (facts_ok_inv F HF) as (_ & _ & _ & Hv & _).
  unfold containers_vs_codecs_ok, real_codecs in Hv. cbn [forallb] in Hv.
  repeat match goal with H : _ && _ = true |- _ => apply andb_prop in H; destruct H end.
  destruct c; try congruence; apply incomparable_app; assumption.
Qed.

(* ---------- RecordStreamReader.readheader (second stage of the stream decision) ---------- *)

Lemma header_exact d :
  stream_header_ok F d = ends_with (f_rs_magic F) (firstn (List.length (f_header_frame F)) d).
Proof.
  destruct (facts_ok_inv F HF) as (_ & _ & _ & _ & _ & _ & _ & _ & _ & Hh & _ & _). unfold header_ok in Hh.
  apply andb_prop in Hh. destruct Hh as [H1 H2]. apply Nat.eqb_eq in H1.
  unfold stream_header_ok. rewrite H1. destruct (f_header_test F) as [m|m]; [|discriminate].
  apply beqb_eq in H2. subst m. reflexivity.
Qed.

Lemma header_frame_accepted rest : stream_header_ok F (f_header_frame F ++ rest) = true.
Proof.
  rewrite header_exact, firstn_length_app. destruct cont_shape as (_ & Hrs & _). exact Hrs.
Qed.

(* content at least one header long is accepted exactly when it is <6 arbitrary bytes> ++ magic ++ rest *)
Lemma header_framed d : List.length (f_header_frame F) <= List.length d ->
  (stream_header_ok F d = true <->
   exists pre rest, List.length pre + List.length (f_rs_magic F) = List.length (f_header_frame F) /\ d = pre ++ f_rs_magic F ++ rest).
Proof.
  intros Hl. rewrite header_exact. split.
  - intros H. apply ends_with_spec in H. destruct H as [l Hl2].
    exists l, (skipn (List.length (f_header_frame F)) d). split.
    + rewrite <- app_length, <- Hl2. apply firstn_length_le. exact Hl.
    + rewrite app_assoc, <- Hl2. symmetry. apply firstn_skipn.
  - intros (pre & rest & Hn & ->). rewrite app_assoc, <- Hn, <- app_length, firstn_length_app. apply ends_with_app.
Qed.

End Sniffing.

(* ---------- the ways of reading agree ---------- *)

Section Agreement.
Variable F : facts.
Hypothesis HF : facts_ok F = true.
Variable e : env.
Variable peek : bytes -> bytes.
Variable compress : codec -> bytes -> bytes.
Variable decompress : codec -> bytes -> option bytes.
Variable R : Type.
Variable parse : bytes -> bytes -> R.

(* environment hypotheses (NOT verified; exercised by the harness on every written file) *)
Hypothesis peek_ok : forall bs, firstn (peek_depth F) (peek bs) = firstn (peek_depth F) bs.
Hypothesis compress_magic : forall c p, c <> Plain -> starts_with (std_magic c) (compress c p) = true.
Hypothesis compress_plain : forall p, compress Plain p = p.
Hypothesis roundtrip : forall c p, c <> Plain -> decompress c (compress c p) = Some p.

Lemma container_is_plain k p : is_container F e k p ->
  sniff_codec F e p = Plain /\ sniff_container F e p = Some k.
Proof.
  intros [(-> & rest & ->)|(-> & He & rest & ->)].
  - split; [apply frame_not_codec|apply container_stream]; exact HF.
  - split; [apply avro_not_codec|apply container_avro]; assumption.
Qed.

Lemma sniff_compressed c k p : avail e c = true -> is_container F e k p ->
  sniff_codec F e (peek (compress c p)) = c.
Proof.
  intros Ha Hk. rewrite (sniff_peek F HF e _ _ (peek_ok _)).
  destruct (codec_eqb c Plain) eqn:E.
  - apply codec_eqb_eq in E. subst c. rewrite compress_plain. apply (container_is_plain k p Hk).
  - assert (Hc : c <> Plain) by (intros ->; discriminate).
    pose proof (compress_magic c p Hc) as Hm. apply starts_with_spec in Hm. destruct Hm as [r ->].
    rewrite (sniff_correct F HF e c r Hc), Ha. reflexivity.
Qed.

Lemma unwrap_compress c p : unwrap decompress c (compress c p) = Some p.
Proof.
  destruct c; cbn [unwrap]; try (apply roundtrip; discriminate). rewrite compress_plain. reflexivity.
Qed.

Lemma open_stream_compressed c k p : avail e c = true -> is_container F e k p ->
  open_stream_rd F e peek decompress (compress c p) = Some p.
Proof.
  intros Ha Hk. unfold open_stream_rd. rewrite (sniff_compressed c k p Ha Hk). apply unwrap_compress.
Qed.

Lemma open_stream_plain k p : is_container F e k p -> open_stream_rd F e peek decompress p = Some p.
Proof.
  intros Hk. unfold open_stream_rd. rewrite (sniff_peek F HF e _ _ (peek_ok _)).
  destruct (container_is_plain k p Hk) as [-> _]. reflexivity.
Qed.

(* adapter class handed an open file object *)
Lemma read_fileobj_as_ok c k p : avail e c = true -> is_container F e k p ->
  read_fileobj_as F e peek decompress R parse k (compress c p) = Read k (parse k p).
Proof.
  intros Ha Hk. unfold read_fileobj_as. rewrite (open_stream_compressed c k p Ha Hk). reflexivity.
Qed.

(* RecordReader(fileobj=...) / stdin: codec AND container from the leading bytes *)
Lemma read_fileobj_ok c k p : avail e c = true -> is_container F e k p ->
  read_fileobj F e peek decompress R parse (compress c p) = Read k (parse k p).
Proof.
  intros Ha Hk. unfold read_fileobj. rewrite (open_stream_compressed c k p Ha Hk).
  rewrite (container_peek F HF e _ _ (peek_ok _)). destruct (container_is_plain k p Hk) as [_ ->].
  unfold read_fileobj_as. rewrite (open_stream_plain k p Hk). reflexivity.
Qed.

(* a path whose name does not reveal the codec *)
Lemma read_path_neutral_ok c k p path : avail e c = true -> is_container F e k p ->
  ext_codec F e path = ExtNone ->
  read_path F e peek decompress R parse k path (compress c p) = Read k (parse k p).
Proof.
  intros Ha Hk Hx. unfold read_path, open_path_read. rewrite Hx.
  destruct (facts_ok_inv F HF) as (_ & _ & _ & _ & _ & _ & -> & _).
  rewrite (sniff_compressed c k p Ha Hk), unwrap_compress. reflexivity.
Qed.

(* standard input named through an explicit adapter scheme ("stream://-", "avro://") *)
Lemma read_stdin_as_ok c k p : avail e c = true -> is_container F e k p ->
  read_stdin_as F e peek decompress R parse k (compress c p) = Read k (parse k p).
Proof.
  intros Ha Hk. unfold read_stdin_as, open_stdin_read.
  destruct (facts_ok_inv F HF) as (_ & _ & _ & _ & _ & _ & _ & -> & _).
  rewrite (sniff_compressed c k p Ha Hk), unwrap_compress. reflexivity.
Qed.

(* a path with the codec's extension *)
Lemma read_path_ext_ok c k p stem x : avail e c = true -> In x (std_ext c) ->
  read_path F e peek decompress R parse k (stem ++ x) (compress c p) = Read k (parse k p).
Proof.
  intros Ha Hx. unfold read_path, open_path_read. rewrite (ext_correct F HF e c x stem Hx), Ha.
  rewrite unwrap_compress. reflexivity.
Qed.

(* the writer compresses with the codec of the extension; a reader given the same name uses the same codec *)
Lemma write_ext c stem x : In x (std_ext c) ->
  open_path_write F e (stem ++ x) = if avail e c then OCodec c else ONotAvailable c.
Proof.
  intros Hx. unfold open_path_write. rewrite (ext_correct F HF e c x stem Hx). destruct (avail e c); reflexivity.
Qed.

Lemma write_plain path : (forall c x, In x (std_ext c) -> ends_with x path = false) ->
  open_path_write F e path = OCodec Plain.
Proof. intros H. unfold open_path_write. rewrite (ext_none F HF e path H). reflexivity. Qed.

(* extension and sniffing pick the same decompressor *)
Lemma ext_sniff_agree c k p stem x path : avail e c = true -> c <> Plain -> In x (std_ext c) -> is_container F e k p ->
  ext_codec F e path = ExtNone ->
  open_path_read F e (stem ++ x) (peek (compress c p)) = OCodec c /\
  open_path_read F e path (peek (compress c p)) = OCodec c.
Proof.
  intros Ha Hc Hx Hk Hn. unfold open_path_read. rewrite (ext_correct F HF e c x stem Hx), Ha, Hn.
  destruct (facts_ok_inv F HF) as (_ & _ & _ & _ & _ & _ & -> & _).
  rewrite (sniff_compressed c k p Ha Hk). split; reflexivity.
Qed.

(* ---------- refusal ---------- *)

Lemma refuses_other bs :
  sniff_codec F e (peek bs) = Plain -> sniff_container F e (peek bs) = None ->
  read_fileobj F e peek decompress R parse bs = AdapterNotFound.
Proof.
  intros H1 H2. unfold read_fileobj, open_stream_rd. rewrite H1. cbn [unwrap]. rewrite H2. reflexivity.
Qed.

Lemma refuses_bytes bs :
  (forall c, c <> Plain -> avail e c = true -> starts_with (std_magic c) bs = false) ->
  e FAvro && starts_with (B "Obj") bs = false ->
  is_infix (f_rs_magic F) (firstn (List.length (f_header_frame F)) bs) = false ->
  read_fileobj F e peek decompress R parse bs = AdapterNotFound.
Proof.
  intros H1 H2 H3. apply refuses_other.
  - rewrite (sniff_peek F HF e _ _ (peek_ok _)). apply (sniff_plain F HF). exact H1.
  - rewrite (container_peek F HF e _ _ (peek_ok _)), (container_spec F HF), H2, H3. reflexivity.
Qed.

(* nothing is handed to an adapter unless the (decompressed) leading bytes look like that adapter's container *)
Lemma read_fileobj_sound bs k r :
  read_fileobj F e peek decompress R parse bs = Read k r ->
  exists d, open_stream_rd F e peek decompress bs = Some d /\
    ((k = B "avro" /\ e FAvro = true /\ starts_with (B "Obj") d = true) \/
     (k = B "stream" /\ is_infix (f_rs_magic F) (firstn (List.length (f_header_frame F)) d) = true)).
Proof.
  unfold read_fileobj. destruct (open_stream_rd F e peek decompress bs) as [d|] eqn:E; [|discriminate].
  rewrite (container_peek F HF e _ _ (peek_ok _)), (container_spec F HF).
  destruct (e FAvro && starts_with (B "Obj") d) eqn:A.
  - unfold read_fileobj_as, run_adapter. destruct (open_stream_rd F e peek decompress d); [|discriminate].
    intros H. inversion H; subst. exists d. split; [reflexivity|]. left.
    apply andb_prop in A. destruct A. repeat split; assumption.
  - destruct (is_infix (f_rs_magic F) (firstn (List.length (f_header_frame F)) d)) eqn:I; [|discriminate].
    unfold read_fileobj_as, run_adapter. destruct (open_stream_rd F e peek decompress d); [|discriminate].
    intros H. inversion H; subst. exists d. split; [reflexivity|]. right. split; [reflexivity|exact I].
Qed.

End Agreement.

(* ---------- RecordAdapter: which adapter a path / URL names ---------- *)

Lemma split_first_app c a r :
  forallb (fun x => negb (Byte.eqb x c)) a = true -> split_first c (a ++ c :: r) = Some (a, r).
Proof.
  induction a as [|y a IH]; cbn; intros H.
  - rewrite byte_eqb_refl. reflexivity.
  - apply andb_prop in H. destruct H as [H1 H2]. apply negb_true_iff in H1. rewrite H1, (IH H2). reflexivity.
Qed.

Lemma split_first_none c a :
  forallb (fun x => negb (Byte.eqb x c)) a = true -> split_first c a = None.
Proof.
  induction a as [|y a IH]; cbn; intros H; [reflexivity|].
  apply andb_prop in H. destruct H as [H1 H2]. apply negb_true_iff in H1. rewrite H1, (IH H2). reflexivity.
Qed.

Lemma forallb_impl {A} (f g : A -> bool) l :
  (forall x, f x = true -> g x = true) -> forallb f l = true -> forallb g l = true.
Proof.
  intros H. induction l as [|x l IH]; cbn; [reflexivity|]. intros H1. apply andb_prop in H1. destruct H1 as [H1 H2].
  rewrite (H x H1), (IH H2). reflexivity.
Qed.

Definition name_char (b : byte) : bool := is_lower b || is_digit b.

Lemma name_char_props b : name_char b = true ->
  Byte.eqb b b_colon = false /\ Byte.eqb b b_plus = false /\ is_upper b = false /\ scheme_char b = true.
Proof. destruct b; vm_compute; intros H; try discriminate H; repeat split. Qed.

Lemma scheme_char_not_colon b : scheme_char b = true -> Byte.eqb b b_colon = false.
Proof. destruct b; vm_compute; intros H; try discriminate H; reflexivity. Qed.

Lemma is_lower_alpha b : is_lower b = true -> is_alpha b = true.
Proof. unfold is_alpha. intros ->. apply orb_true_r. Qed.

Lemma lower_name n : forallb name_char n = true -> lower n = n.
Proof.
  unfold lower. induction n as [|x n IH]; cbn [map forallb]; intros H; [reflexivity|].
  apply andb_prop in H. destruct H as [H1 H2].
  destruct (name_char_props x H1) as (_ & _ & U & _). unfold lower_byte at 1. rewrite U, (IH H2). reflexivity.
Qed.

Lemma assoc_cases k t d : assoc k t d = d \/ In (assoc k t d) (map snd t).
Proof.
  induction t as [|[k' v] t IH]; cbn; [left; reflexivity|].
  destruct (beqb k k'); [right; left; reflexivity|]. destruct IH as [IH|IH]; [left|right; right]; exact IH.
Qed.

Lemma adapter_name_ok F ext : adapters_ok F = true ->
  exists x t, assoc ext (f_ext_to_adapter F) (f_default_adapter F) = x :: t /\ is_lower x = true
              /\ forallb name_char (x :: t) = true.
Proof.
  unfold adapters_ok. intros H. rewrite forallb_forall in H.
  specialize (H (assoc ext (f_ext_to_adapter F) (f_default_adapter F))).
  assert (Hin : In (assoc ext (f_ext_to_adapter F) (f_default_adapter F))
                   (f_default_adapter F :: map snd (f_ext_to_adapter F))).
  { destruct (assoc_cases ext (f_ext_to_adapter F) (f_default_adapter F)) as [->|Hi]; [left; reflexivity|right; exact Hi]. }
  specialize (H Hin). destruct (assoc ext (f_ext_to_adapter F) (f_default_adapter F)) as [|x t]; [discriminate|].
  apply andb_prop in H. destruct H as [H1 H2]. exists x, t. repeat split; assumption.
Qed.

Lemma B_sep : B "://" = [b_colon; b_slash; b_slash].
Proof. reflexivity. Qed.

(* a plain path (no "://" in it): the adapter is the one the extension table gives for os.path.splitext(path)[1],
   "stream" by default; the adapter class receives the path itself (up to a '#' or '?') *)
Lemma url_plain_path F p : facts_ok F = true -> is_infix (B "://") p = false ->
  adapter_for_url F p =
    {| d_adapter := assoc (splitext_ext p) (f_ext_to_adapter F) (f_default_adapter F);
       d_sub := []; d_cls_url := cut_query p |}.
Proof.
  intros HF Hp. destruct (facts_ok_inv F HF) as (_ & _ & _ & _ & Ha & _).
  unfold adapter_for_url. rewrite Hp.
  destruct (adapter_name_ok F (splitext_ext p) Ha) as (x & t & Hn & Hx & Hall). rewrite Hn.
  rewrite B_sep. unfold url_scheme.
  change ((x :: t) ++ [b_colon; b_slash; b_slash] ++ p) with ((x :: t) ++ b_colon :: (b_slash :: b_slash :: p)).
  rewrite split_first_app
    by (apply (forallb_impl name_char); [intros b Hb; destruct (name_char_props b Hb) as (-> & _); reflexivity|exact Hall]).
  rewrite (is_lower_alpha x Hx).
  rewrite (forallb_impl name_char scheme_char (x :: t)) by (try exact Hall; intros b Hb; apply (name_char_props b Hb)).
  cbn [andb]. rewrite (lower_name _ Hall).
  rewrite split_first_none
    by (apply (forallb_impl name_char); [intros b Hb; destruct (name_char_props b Hb) as (_ & -> & _); reflexivity|exact Hall]).
  unfold url_netloc_path. rewrite byte_eqb_refl. reflexivity.
Qed.

(* an explicit scheme: "<scheme>://<rest>" selects the adapter named by the (lower-cased) scheme, the part after a
   '+' becoming the sub-adapter; the extension plays no role for the container *)
Lemma url_with_scheme F x t rest :
  is_alpha x = true -> forallb scheme_char (x :: t) = true ->
  adapter_for_url F ((x :: t) ++ B "://" ++ rest) =
    let sc := lower (x :: t) in
    let '(ad, sub) := match split_first b_plus sc with Some (a, s) => (a, s) | None => (sc, []) end in
    {| d_adapter := ad; d_sub := sub;
       d_cls_url := match sub with [] => cut_query rest | _ => sub ++ B "://" ++ cut_query rest end |}.
Proof.
  intros Hx Hall. unfold adapter_for_url.
  assert (Hi : is_infix (B "://") ((x :: t) ++ B "://" ++ rest) = true).
  { rewrite app_assoc. apply is_infix_app_r. apply is_infix_app_l. }
  rewrite Hi. rewrite B_sep. unfold url_scheme.
  change ((x :: t) ++ [b_colon; b_slash; b_slash] ++ rest) with ((x :: t) ++ b_colon :: (b_slash :: b_slash :: rest)).
  rewrite split_first_app
    by (apply (forallb_impl scheme_char); [intros b Hb; rewrite (scheme_char_not_colon b Hb); reflexivity|exact Hall]).
  rewrite Hx, Hall. cbn [andb]. cbv zeta.
  destruct (split_first b_plus (lower (x :: t))) as [[a s]|]; unfold url_netloc_path; rewrite byte_eqb_refl; reflexivity.
Qed.

(* ---------- packaged statements used by props/C11.v ---------- *)

Section Packaged.
Variable F : facts.
Hypothesis HF : facts_ok F = true.
Variable e : env.
Variable peek : bytes -> bytes.
Variable compress : codec -> bytes -> bytes.
Variable decompress : codec -> bytes -> option bytes.
Variable R : Type.
Variable parse : bytes -> bytes -> R.
Hypothesis HE : codec_hyps F peek compress decompress.

Lemma access_paths_agree c k p : avail e c = true -> is_container F e k p ->
  (forall stem x, In x (std_ext c) ->
     read_path F e peek decompress R parse k (stem ++ x) (compress c p) = Read k (parse k p)) /\
  (forall path, ext_codec F e path = ExtNone ->
     read_path F e peek decompress R parse k path (compress c p) = Read k (parse k p)) /\
  read_fileobj_as F e peek decompress R parse k (compress c p) = Read k (parse k p) /\
  read_fileobj F e peek decompress R parse (compress c p) = Read k (parse k p) /\
  read_stdin_as F e peek decompress R parse k (compress c p) = Read k (parse k p).
Proof.
  destruct HE as (H1 & H2 & H3 & H4). intros Ha Hk. repeat split.
  - intros stem x Hx. apply (read_path_ext_ok F HF e peek compress decompress R parse H3 H4); assumption.
  - intros path Hp. apply (read_path_neutral_ok F HF e peek compress decompress R parse H1 H2 H3 H4); assumption.
  - apply (read_fileobj_as_ok F HF e peek compress decompress R parse H1 H2 H3 H4); assumption.
  - apply (read_fileobj_ok F HF e peek compress decompress R parse H1 H2 H3 H4); assumption.
  - apply (read_stdin_as_ok F HF e peek compress decompress R parse H1 H2 H3 H4); assumption.
Qed.

Lemma ext_sniff_agree_pk c k p stem x path :
  avail e c = true -> c <> Plain -> In x (std_ext c) -> is_container F e k p -> ext_codec F e path = ExtNone ->
  open_path_write F e (stem ++ x) = OCodec c /\
  open_path_read F e (stem ++ x) (peek (compress c p)) = OCodec c /\
  open_path_read F e path (peek (compress c p)) = OCodec c.
Proof.
  destruct HE as (H1 & H2 & H3 & H4). intros Ha Hc Hx Hk Hn. split.
  - rewrite (write_ext F HF e c stem x Hx), Ha. reflexivity.
  - apply (ext_sniff_agree F HF e peek compress H1 H2 H3 c k p stem x path); assumption.
Qed.

Lemma refuses_bytes_pk bs :
  (forall c, c <> Plain -> avail e c = true -> starts_with (std_magic c) bs = false) ->
  e FAvro && starts_with (B "Obj") bs = false ->
  is_infix (f_rs_magic F) (firstn (List.length (f_header_frame F)) bs) = false ->
  read_fileobj F e peek decompress R parse bs = AdapterNotFound.
Proof. destruct HE as (H1 & _). apply (refuses_bytes F HF e peek decompress R parse H1). Qed.

Lemma read_fileobj_sound_pk bs k r :
  read_fileobj F e peek decompress R parse bs = Read k r ->
  exists d, open_stream_rd F e peek decompress bs = Some d /\
    ((k = B "avro" /\ e FAvro = true /\ starts_with (B "Obj") d = true) \/
     (k = B "stream" /\ is_infix (f_rs_magic F) (firstn (List.length (f_header_frame F)) d) = true)).
Proof. destruct HE as (H1 & _). apply (read_fileobj_sound F HF e peek decompress R parse H1). Qed.

End Packaged.

Lemma container_facts F : facts_ok F = true ->
  (forall e rest, sniff_container F e (f_header_frame F ++ rest) = Some (B "stream")) /\
  (forall e rest, e FAvro = true -> sniff_container F e (B "Obj" ++ rest) = Some (B "avro")) /\
  (forall e pk, sniff_container F e pk =
     if e FAvro && starts_with (B "Obj") pk then Some (B "avro")
     else if is_infix (f_rs_magic F) (firstn (List.length (f_header_frame F)) pk) then Some (B "stream") else None) /\
  (forall e rest, sniff_codec F e (f_header_frame F ++ rest) = Plain /\ sniff_codec F e (B "Obj" ++ rest) = Plain).
Proof.
  intros HF. repeat split; intros.
  - apply container_stream; exact HF.
  - apply container_avro; assumption.
  - apply container_spec; exact HF.
  - apply frame_not_codec; exact HF.
  - apply avro_not_codec; exact HF.
Qed.

Lemma leading_bytes_only F : facts_ok F = true -> forall e pk bs,
  firstn (peek_depth F) pk = firstn (peek_depth F) bs ->
  sniff_codec F e pk = sniff_codec F e bs /\ sniff_container F e pk = sniff_container F e bs.
Proof. intros HF e pk bs H. split; [apply sniff_peek|apply container_peek]; assumption. Qed.

(* the hypotheses are satisfiable *)
Definition toy_compress (c : codec) (p : bytes) : bytes := std_magic c ++ p.
Definition toy_decompress (c : codec) (bs : bytes) : option bytes := Some (skipn (List.length (std_magic c)) bs).

Lemma toy_hyps F : codec_hyps F (fun bs => bs) toy_compress toy_decompress.
Proof.
  repeat split.
  - intros c p _. apply starts_with_app.
  - intros c p _. unfold toy_decompress, toy_compress. rewrite skipn_app, skipn_all, Nat.sub_diag. reflexivity.
Qed.

Lemma firstn_weak_peek n : 0 < n -> weak_peek (firstn n).
Proof.
  intros Hn. split.
  - intros bs. exists (skipn n bs). symmetry. apply firstn_skipn.
  - intros [|x bs] H; [congruence|]. destruct n; [lia|]. discriminate.
Qed.
