From Coq Require Import List Bool NArith ZArith Lia.
From Coq Require Import Init.Byte.
From FR Require Import Bytes Msgpack Msgpack_proofs Packer Stream.
Import ListNotations.

Lemma firstn_app_len {A} (a b : list A) n : List.length a = n -> firstn n (a ++ b) = a.
Proof. intros <-. induction a as [|x a IH]; cbn; [destruct b; reflexivity|rewrite IH; reflexivity]. Qed.
Lemma skipn_app_len {A} (a b : list A) n : List.length a = n -> skipn n (a ++ b) = b.
Proof. intros <-. induction a as [|x a IH]; cbn; [reflexivity|exact IH]. Qed.

Section StreamP.
Variable c : cfg.
Variable HASH : desc -> Z.

Notation decode_body' := (decode_body c).
Notation read_loop' := (read_loop c HASH).

(* the reader's loop on a list of complete frame bodies, continuing with [k] on what follows *)
Fixpoint run_bodies (depth : nat) (reg : registry) (bodies : list bytes)
         (k : registry -> list robj * outcome) : list robj * outcome :=
  match bodies with
  | [] => k reg
  | b :: t =>
      match decode_body' depth reg b with
      | OHeader => run_bodies depth reg t k
      | ODesc d => run_bodies depth (reg_add HASH reg d) t k
      | OItem it => let '(out, oc) := run_bodies depth reg t k in (RItem it :: out, oc)
      | OForeign => let '(out, oc) := run_bodies depth reg t k in (RForeign :: out, oc)
      | OError => ([], Raised)
      end
  end.

Definition small (b : bytes) : Prop := (blen b < 2 ^ 32)%N.

Lemma frame_split body rest : small body ->
  (4 <= List.length (frame body ++ rest))%nat /\
  unbe (firstn 4 (frame body ++ rest)) = blen body /\
  skipn 4 (frame body ++ rest) = body ++ rest.
Proof.
  intros Hs. unfold frame. rewrite <- app_assoc.
  pose proof (be_length 4 (blen body)) as L.
  split; [rewrite app_length; lia|]. split.
  - rewrite (firstn_app_len _ _ 4 L). apply unbe_be. exact Hs.
  - apply skipn_app_len. exact L.
Qed.

Lemma read_loop_frames depth : forall bodies reg tail fuel fuel',
  Forall small bodies -> (List.length bodies + fuel' <= fuel)%nat ->
  (forall reg', read_loop' fuel' depth reg' tail = read_loop' (fuel - List.length bodies) depth reg' tail) ->
  read_loop' fuel depth reg (frames bodies ++ tail) =
  run_bodies depth reg bodies (fun reg' => read_loop' (fuel - List.length bodies) depth reg' tail).
Proof.
  induction bodies as [|b t IH]; intros reg tail fuel fuel' Hsm Hf Hk.
  - cbn [frames map concat app run_bodies List.length]. rewrite Nat.sub_0_r. reflexivity.
  - inversion Hsm as [|? ? Hb Ht]; subst.
    cbn [List.length] in *. destruct fuel as [|fuel]; [lia|].
    unfold frames. cbn [map concat]. rewrite <- app_assoc. fold (frames t).
    destruct (frame_split b (frames t ++ tail) Hb) as (L4 & Hsz & Hrest).
    cbn [read_loop run_bodies].
    destruct (Nat.ltb_spec (List.length (frame b ++ frames t ++ tail)) 4) as [Hlt|_]; [lia|].
    rewrite Hsz, Hrest.
    assert (Hmin : N.min (blen b) (blen (b ++ frames t ++ tail)) = blen b).
    { unfold blen. rewrite app_length. lia. }
    assert (E1 : N.to_nat (blen b) = List.length b) by (unfold blen; apply Nat2N.id).
    rewrite Hmin, !E1.
    rewrite (firstn_app_len b _ _ eq_refl), !(skipn_app_len b _ _ eq_refl).
    replace (S fuel - S (List.length t))%nat with (fuel - List.length t)%nat by lia.
    assert (Hk' : forall reg', read_loop' fuel' depth reg' tail = read_loop' (fuel - List.length t) depth reg' tail).
    { intros reg'. apply Hk. }
    destruct (decode_body' depth reg b) as [|d|it| |]; try reflexivity;
      rewrite (IH _ tail fuel fuel' Ht ltac:(lia) Hk'); reflexivity.
Qed.

(* what the reader does with the remains of a cut frame *)
Lemma read_loop_short_tail fuel depth reg tail :
  (List.length tail < 4)%nat -> read_loop' (S fuel) depth reg tail = ([], CleanEOF).
Proof. intros H. cbn [read_loop]. destruct (Nat.ltb_spec (List.length tail) 4); [reflexivity|lia]. Qed.

Lemma read_loop_truncated_body fuel depth reg m p s :
  mv_wf m = true -> enc m = p ++ s -> s <> [] -> small (enc m) ->
  read_loop' (S fuel) depth reg (be 4 (blen (enc m)) ++ p) = ([], Raised).
Proof.
  intros Hwf E Hs Hsm.
  pose proof (be_length 4 (blen (enc m))) as L.
  cbn [read_loop]. destruct (Nat.ltb_spec (List.length (be 4 (blen (enc m)) ++ p)) 4) as [H|_]; [rewrite app_length in H; lia|].
  rewrite (firstn_app_len _ p 4 L), (skipn_app_len _ p 4 L).
  rewrite unbe_be by exact Hsm.
  assert (Hlen : (List.length p < List.length (enc m))%nat).
  { rewrite E, app_length. destruct s; [contradiction|cbn; lia]. }
  assert (Hmin : N.min (blen (enc m)) (blen p) = blen p) by (unfold blen; lia).
  assert (E1 : N.to_nat (blen p) = List.length p) by (unfold blen; apply Nat2N.id).
  rewrite Hmin, !E1, firstn_all, skipn_all.
  unfold decode_body. destruct (unpackb p) as [w| | | |] eqn:U; try reflexivity.
  exfalso. exact (unpackb_truncated m p s Hwf E Hs w U).
Qed.

End StreamP.

(* ---------- every prefix of a framed stream = some complete frames + a (possibly empty) piece of the next ---------- *)
Lemma frames_cons b t : frames (b :: t) = frame b ++ frames t.
Proof. reflexivity. Qed.

Lemma prefix_of_frames : forall bodies k,
  exists j tail,
    firstn k (frames bodies) = frames (firstn j bodies) ++ tail /\
    (tail = [] \/ exists b rest, nth_error bodies j = Some b /\ frame b = tail ++ rest /\ rest <> []).
Proof.
  induction bodies as [|b t IH]; intros k.
  - exists O, []. split; [destruct k; reflexivity|left; reflexivity].
  - rewrite frames_cons, firstn_app.
    destruct (Nat.le_gt_cases (List.length (frame b)) k) as [Hge|Hlt].
    + rewrite firstn_all2 by exact Hge.
      destruct (IH (k - List.length (frame b))%nat) as (j & tail & E & Ht).
      exists (S j), tail. split.
      * rewrite E. cbn [firstn]. rewrite frames_cons, app_assoc. reflexivity.
      * destruct Ht as [->|(b' & rest & Hn & Hf & Hr)]; [left; reflexivity|right].
        exists b', rest. repeat split; assumption.
    + replace (k - List.length (frame b))%nat with O by lia. rewrite firstn_O, app_nil_r.
      exists O, (firstn k (frame b)). split; [reflexivity|].
      right. exists b, (skipn k (frame b)). split; [reflexivity|]. split.
      * symmetry. apply firstn_skipn.
      * intros E. pose proof (firstn_skipn k (frame b)) as F. rewrite E, app_nil_r in F.
        pose proof (f_equal (@List.length byte) F) as L. rewrite firstn_length in L. lia.
Qed.

Lemma frames_length bodies : (List.length bodies <= List.length (frames bodies))%nat.
Proof.
  induction bodies as [|b t IH]; [cbn; lia|]. rewrite frames_cons, app_length. unfold frame. rewrite app_length, be_length.
  cbn [List.length]. lia.
Qed.

Section Cut.
Variable c : cfg.
Variable HASH : desc -> Z.

(* the objects a run yields are a prefix-closed function of the bodies: stopping early yields a prefix *)
Lemma run_bodies_prefix depth : forall bodies reg j oc,
  exists rest,
    fst (run_bodies c HASH depth reg bodies (fun _ => ([], CleanEOF))) =
    fst (run_bodies c HASH depth reg (firstn j bodies) (fun _ => ([], oc))) ++ rest
    \/ snd (run_bodies c HASH depth reg (firstn j bodies) (fun _ => ([], oc))) = Raised /\
       fst (run_bodies c HASH depth reg bodies (fun _ => ([], CleanEOF))) =
       fst (run_bodies c HASH depth reg (firstn j bodies) (fun _ => ([], oc))) ++ rest.
Proof.
  induction bodies as [|b t IH]; intros reg j oc.
  - exists []. left. destruct j; reflexivity.
  - destruct j as [|j].
    + cbn [firstn run_bodies fst app]. eexists. left. reflexivity.
    + cbn [firstn run_bodies].
      destruct (decode_body c depth reg b) as [|d|it| |].
      * apply IH.
      * apply IH.
      * destruct (IH reg j oc) as [rest H]. exists rest.
        destruct (run_bodies c HASH depth reg t _) as [o1 oc1].
        destruct (run_bodies c HASH depth reg (firstn j t) _) as [o2 oc2]. cbn [fst snd] in *.
        destruct H as [H|[H1 H2]]; [left|right; split; [exact H1|]]; cbn [app]; f_equal; assumption.
      * destruct (IH reg j oc) as [rest H]. exists rest.
        destruct (run_bodies c HASH depth reg t _) as [o1 oc1].
        destruct (run_bodies c HASH depth reg (firstn j t) _) as [o2 oc2]. cbn [fst snd] in *.
        destruct H as [H|[H1 H2]]; [left|right; split; [exact H1|]]; cbn [app]; f_equal; assumption.
      * exists []. left. reflexivity.
Qed.

Lemma run_bodies_ext depth : forall bodies reg k1 k2,
  (forall reg', k1 reg' = k2 reg') ->
  run_bodies c HASH depth reg bodies k1 = run_bodies c HASH depth reg bodies k2.
Proof.
  induction bodies as [|b t IH]; intros reg k1 k2 H; cbn [run_bodies]; [apply H|].
  destruct (decode_body c depth reg b); try reflexivity; rewrite (IH _ k1 k2 H); reflexivity.
Qed.

Lemma Forall_firstn' {A} (P : A -> Prop) (l : list A) n : Forall P l -> Forall P (firstn n l).
Proof. revert n; induction l as [|x l IH]; intros [|n] H; cbn; try constructor; inversion H; subst; auto. Qed.

(* C04 at the frame level: a stream of frames whose bodies are msgpack encodings, cut at ANY byte position k.
   The reader processes exactly the complete frames before the cut (same registry evolution as on the uncut
   stream), then ends cleanly (cut on a frame boundary or inside a 4-byte length prefix) or raises (cut inside
   a body).  It never sees a body other than the written ones. *)
Definition is_encoding (b : bytes) : Prop := exists m, b = enc m /\ mv_wf m = true /\ small (enc m).

Theorem cut_stream depth (bodies : list bytes) (reg : registry) (k : nat) (fuel : nat) :
  Forall is_encoding bodies ->
  (List.length (firstn k (frames bodies)) < fuel)%nat ->
  exists j oc,
    read_loop c HASH fuel depth reg (firstn k (frames bodies)) =
    run_bodies c HASH depth reg (firstn j bodies) (fun _ => ([], oc)).
Proof.
  intros Hms Hfuel.
  assert (Hsmall : Forall small bodies).
  { eapply Forall_impl; [|exact Hms]. intros b (m & -> & _ & H). exact H. }
  destruct (prefix_of_frames bodies k) as (j & tail & E & Ht).
  assert (Hj : Forall small (firstn j bodies)) by (apply Forall_firstn'; exact Hsmall).
  rewrite E in Hfuel |- *.
  assert (Lj : (List.length (firstn j bodies) < fuel)%nat).
  { pose proof (frames_length (firstn j bodies)). rewrite app_length in Hfuel. lia. }
  set (F := (fuel - List.length (firstn j bodies))%nat).
  assert (HF : exists F', F = S F') by (exists (fuel - List.length (firstn j bodies) - 1)%nat; unfold F; lia).
  destruct HF as [F' HF].
  rewrite (read_loop_frames c HASH depth (firstn j bodies) reg tail fuel F Hj
             ltac:(unfold F; lia) ltac:(intros; reflexivity)).
  fold F. rewrite HF.
  destruct Ht as [->|(b & rest & Hn & Hf & Hr)].
  - exists j, CleanEOF. apply run_bodies_ext. intros reg'. reflexivity.
  - assert (Hb : exists m, b = enc m /\ mv_wf m = true /\ small (enc m)).
    { apply nth_error_In in Hn. rewrite Forall_forall in Hms. exact (Hms b Hn). }
    destruct Hb as (m & -> & Hwf & Hsm).
    destruct (Nat.lt_ge_cases (List.length tail) 4) as [Hshort|Hlong].
    + exists j, CleanEOF. apply run_bodies_ext. intros reg'. apply read_loop_short_tail. exact Hshort.
    + exists j, Raised. apply run_bodies_ext. intros reg'.
      unfold frame in Hf.
      pose proof (be_length 4 (blen (enc m))) as L.
      assert (T4 : firstn 4 tail = be 4 (blen (enc m))).
      { pose proof (f_equal (firstn 4) Hf) as Q. rewrite (firstn_app_len _ _ 4 L) in Q.
        rewrite firstn_app in Q. replace (4 - List.length tail)%nat with O in Q by lia.
        rewrite firstn_O, app_nil_r in Q. symmetry. exact Q. }
      assert (Ep : enc m = skipn 4 tail ++ rest).
      { pose proof (f_equal (skipn 4) Hf) as Q. rewrite (skipn_app_len _ _ 4 L) in Q.
        rewrite skipn_app in Q. replace (4 - List.length tail)%nat with O in Q by lia. exact Q. }
      rewrite <- (firstn_skipn 4 tail), T4.
      exact (read_loop_truncated_body c HASH F' depth reg' m (skipn 4 tail) rest Hwf Ep Hr Hsm).
Qed.

End Cut.
