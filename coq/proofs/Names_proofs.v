(* C06 proofs: the generated validation regexes denote exactly the identifier grammars; what passes the validators is
   the grammar or the grammar plus one trailing newline; field types resolve inside the whitelist; slots; the
   rendered class source contains definition text only as runs of identifier characters. *)
From Coq Require Import List Bool NArith String Ascii Lia ZifyBool.
Import ListNotations.
From FR Require Import Regex Regex_proofs Names.
Open Scope N_scope.
Open Scope list_scope.

(* ---------------------------------------------------------------- basics *)
Lemma str_eqb_eq a : forall b, str_eqb a b = true <-> a = b.
Proof.
  induction a as [|x a IH]; intros [|y b]; simpl; split; intros H; try discriminate H; auto.
  - apply andb_true_iff in H. destruct H as [H1 H2]. apply N.eqb_eq in H1. apply IH in H2. subst. reflexivity.
  - injection H as Hx Hb. subst. rewrite N.eqb_refl. simpl. apply IH. reflexivity.
Qed.

Lemma str_eqb_refl a : str_eqb a a = true.
Proof. apply str_eqb_eq. reflexivity. Qed.

Lemma mem_In x l : mem x l = true <-> In x l.
Proof.
  unfold mem. rewrite existsb_exists. split.
  - intros (y & Hy & E). apply str_eqb_eq in E. subst. exact Hy.
  - intros H. exists x. split; [exact H|apply str_eqb_refl].
Qed.

Lemma mem_false_not_In x l : mem x l = false <-> ~ In x l.
Proof.
  split.
  - intros H Hin. apply mem_In in Hin. congruence.
  - intros H. destruct (mem x l) eqn:E; auto. apply mem_In in E. contradiction.
Qed.

Lemma mem_app x a b : mem x (a ++ b) = mem x a || mem x b.
Proof. unfold mem. apply existsb_app. Qed.

Lemma forallb_eq_ext {A} (f g : A -> bool) l : (forall x, f x = g x) -> forallb f l = forallb g l.
Proof. intros H. induction l as [|x l IH]; simpl; auto. rewrite H, IH. reflexivity. Qed.

(* ---------------------------------------------------------------- character classes *)
Definition codes256 : list N := map N.of_nat (seq 0 256).

(* the class (a list of ranges) denotes exactly the predicate f: compared on all code points below 256, and no
   range reaches 256 *)
Definition class_is (cs : cclass) (f : N -> bool) : bool :=
  forallb (fun r => snd r <? 256) cs && forallb (fun c => Bool.eqb (cc_mem cs c) (f c)) codes256.

Lemma class_is_spec cs f :
  class_is cs f = true -> (forall c, 256 <= c -> f c = false) -> forall c, cc_mem cs c = f c.
Proof.
  unfold class_is. intros H Hhi c. apply andb_true_iff in H. destruct H as [Hr Hc].
  destruct (N.ltb_spec c 256) as [Lt|Ge].
  - rewrite forallb_forall in Hc. apply eqb_prop. apply Hc.
    unfold codes256. apply in_map_iff. exists (N.to_nat c). split; [apply N2Nat.id|].
    apply in_seq. lia.
  - rewrite (Hhi c Ge). apply not_true_is_false. intros H.
    unfold cc_mem in H. apply existsb_exists in H. destruct H as (r & Hin & Hm).
    rewrite forallb_forall in Hr. specialize (Hr r Hin). unfold in_range in Hm.
    apply andb_true_iff in Hm. destruct Hm as [_ Hm]. apply N.leb_le in Hm. apply N.ltb_lt in Hr. lia.
Qed.

Lemma is_alpha_hi c : 256 <= c -> is_alpha c = false.
Proof. unfold is_alpha. intros H. lia. Qed.
Lemma is_word_hi c : 256 <= c -> is_word c = false.
Proof. unfold is_word, is_alpha, is_digit, is_underscore, UNDERSCORE. intros H. lia. Qed.
Lemma is_underscore_hi c : 256 <= c -> is_underscore c = false.
Proof. unfold is_underscore, UNDERSCORE. intros H. lia. Qed.
Lemma is_slash_hi c : 256 <= c -> is_slash c = false.
Proof. unfold is_slash, SLASH. intros H. lia. Qed.

Lemma slash_not_word c : is_slash c = true -> is_word c = false.
Proof. unfold is_slash, SLASH. intros H. apply N.eqb_eq in H. subst. reflexivity. Qed.
Lemma slash_not_alpha c : is_slash c = true -> is_alpha c = false.
Proof. unfold is_slash, SLASH. intros H. apply N.eqb_eq in H. subst. reflexivity. Qed.
Lemma alpha_word c : is_alpha c = true -> is_word c = true.
Proof. unfold is_word. intros H. rewrite H. reflexivity. Qed.
Lemma alpha_not_underscore c : is_alpha c = true -> is_underscore c = false.
Proof. unfold is_alpha, is_underscore, UNDERSCORE. intros H. lia. Qed.

(* ---------------------------------------------------------------- specification lemmas *)
Lemma split_on_nonnil d s : split_on d s <> [].
Proof.
  destruct s as [|c t]; simpl; [discriminate|].
  destruct (c =? d); [discriminate|]. destruct (split_on d t); discriminate.
Qed.

(* in the middle of a segment: the rest of the segment is word characters, then segments *)
Definition acc_mid (s : str) : bool :=
  match split_on SLASH s with
  | p :: ps => forallb is_word p && forallb ident_no_underscore ps
  | [] => false
  end.

Lemma tng_cons c t : type_name_grammar (c :: t) = is_alpha c && acc_mid t.
Proof.
  unfold type_name_grammar, acc_mid. simpl.
  destruct (c =? SLASH) eqn:E.
  - simpl. symmetry. apply andb_false_iff. left. apply slash_not_alpha. exact E.
  - destruct (split_on SLASH t) as [|p ps] eqn:Es; [destruct (split_on_nonnil _ _ Es)|].
    simpl. rewrite andb_assoc. reflexivity.
Qed.

Lemma acc_mid_cons c t :
  acc_mid (c :: t) = if is_slash c then type_name_grammar t else is_word c && acc_mid t.
Proof.
  unfold acc_mid, type_name_grammar, is_slash. simpl.
  destruct (c =? SLASH) eqn:E.
  - simpl. reflexivity.
  - destruct (split_on SLASH t) as [|p ps] eqn:Es; [destruct (split_on_nonnil _ _ Es)|].
    simpl. rewrite andb_assoc. reflexivity.
Qed.

Lemma acc_mid_nil : acc_mid [] = true.
Proof. reflexivity. Qed.
Lemma tng_nil : type_name_grammar [] = false.
Proof. reflexivity. Qed.

(* ---------------------------------------------------------------- regex shapes *)
Section Shapes.
Variables a1 w1 u sl a2 w2 : cclass.
Hypothesis Ha1 : forall c, cc_mem a1 c = is_alpha c.
Hypothesis Hw1 : forall c, cc_mem w1 c = is_word c.
Hypothesis Hu : forall c, cc_mem u c = is_underscore c.
Hypothesis Hsl : forall c, cc_mem sl c = is_slash c.
Hypothesis Ha2 : forall c, cc_mem a2 c = is_alpha c.
Hypothesis Hw2 : forall c, cc_mem w2 c = is_word c.

(* a letter followed by word characters *)
Lemma fm_ident s : re_fullmatch (Seq (CC a1) (Star (CC w1))) s = ident_no_underscore s.
Proof.
  destruct s as [|c t]; [reflexivity|].
  cbn [re_fullmatch deriv nullable ident_no_underscore]. rewrite Ha1.
  destruct (is_alpha c); cbn [mkSeq andb].
  - rewrite fullmatch_star_class. apply forallb_eq_ext. exact Hw1.
  - apply fullmatch_Emp.
Qed.

(* optional underscore, letter, word characters -- on strings that do not start with an underscore *)
Lemma fm_opt_us_ident s : starts_underscore s = false ->
  re_fullmatch (Seq (Opt (CC u)) (Seq (CC a1) (Star (CC w1)))) s = ident_no_underscore s.
Proof.
  intros Hs. destruct s as [|c t]; [reflexivity|].
  simpl in Hs.
  rewrite <- fm_ident.
  cbn [re_fullmatch deriv nullable andb]. rewrite Hu, Hs. cbn [mkSeq mkAlt].
  destruct (cc_mem a1 c); reflexivity.
Qed.

Let G := Seq (CC sl) (Seq (CC a2) (Star (CC w2))).
Let S2 := Seq (Seq (CC a2) (Star (CC w2))) (Star G).

Lemma fm_S1_S2 : forall s,
  (forall w, (forall c, cc_mem w c = is_word c) -> re_fullmatch (Seq (Star (CC w)) (Star G)) s = acc_mid s)
  /\ re_fullmatch S2 s = type_name_grammar s.
Proof.
  induction s as [|c t [IH1 IH2]].
  - split; [intros w Hw|]; reflexivity.
  - split.
    + intros w Hw. rewrite acc_mid_cons.
      unfold G at 1. cbn [re_fullmatch deriv nullable andb]. rewrite Hw, Hsl.
      destruct (is_slash c) eqn:Es.
      * rewrite (slash_not_word c Es). cbn [mkSeq mkAlt]. exact IH2.
      * destruct (is_word c); cbn [mkSeq mkAlt andb].
        -- exact (IH1 w Hw).
        -- apply fullmatch_Emp.
    + rewrite tng_cons.
      unfold S2 at 1. cbn [re_fullmatch deriv nullable andb]. rewrite Ha2.
      destruct (is_alpha c); cbn [mkSeq andb].
      * exact (IH1 w2 Hw2).
      * apply fullmatch_Emp.
Qed.

(* letter word-chars, then any number of: slash letter word-chars *)
Lemma fm_type_name s :
  re_fullmatch (Seq (CC a1) (Seq (Star (CC w1)) (Star G))) s = type_name_grammar s.
Proof.
  destruct s as [|c t]; [reflexivity|].
  rewrite tng_cons. cbn [re_fullmatch deriv nullable]. rewrite Ha1.
  destruct (is_alpha c); cbn [mkSeq andb].
  - apply (proj1 (fm_S1_S2 t) w1 Hw1).
  - apply fullmatch_Emp.
Qed.
End Shapes.

(* ---------------------------------------------------------------- shape recognisers (computed on generated facts) *)
Definition end_ok (e : end_anchor) : bool := match e with EndDollar | EndZ => true | EndNone => false end.

Definition field_shape_ok (r : re_fact) : bool :=
  end_ok (re_end r) &&
  match re_body r with
  | Seq (Opt (CC u)) (Seq (CC a) (Star (CC w))) =>
      class_is u is_underscore && class_is a is_alpha && class_is w is_word
  | Seq (CC a) (Star (CC w)) => class_is a is_alpha && class_is w is_word
  | _ => false
  end.

Definition type_shape_ok (r : re_fact) : bool :=
  end_ok (re_end r) &&
  match re_body r with
  | Seq (CC a1) (Seq (Star (CC w1)) (Star (Seq (CC sl) (Seq (CC a2) (Star (CC w2)))))) =>
      class_is a1 is_alpha && class_is w1 is_word && class_is sl is_slash
      && class_is a2 is_alpha && class_is w2 is_word
  | _ => false
  end.

Ltac split_andb H :=
  repeat match type of H with
         | (_ && _) = true => let H1 := fresh H in apply andb_true_iff in H; destruct H as [H H1]
         end.

Lemma field_shape_body r : field_shape_ok r = true ->
  forall s, starts_underscore s = false -> re_fullmatch (re_body r) s = ident_no_underscore s.
Proof.
  unfold field_shape_ok. intros H. apply andb_true_iff in H. destruct H as [_ H].
  destruct (re_body r) as [| |cs|x y|x y|x|x]; try discriminate H.
  destruct x as [| |a|x1 x2|x1 x2|x1|x1]; try discriminate H.
  - (* no optional underscore *)
    destruct y as [| |cs|y1 y2|y1 y2|y1|y1]; try discriminate H.
    destruct y1 as [| |w|z1 z2|z1 z2|z1|z1]; try discriminate H.
    apply andb_true_iff in H. destruct H as [Ha Hw].
    intros s _. apply fm_ident.
    + apply class_is_spec; [exact Ha|exact is_alpha_hi].
    + apply class_is_spec; [exact Hw|exact is_word_hi].
  - destruct x1 as [| |u|z1 z2|z1 z2|z1|z1]; try discriminate H.
    destruct y as [| |cs|y1 y2|y1 y2|y1|y1]; try discriminate H.
    destruct y1 as [| |a|z1 z2|z1 z2|z1|z1]; try discriminate H.
    destruct y2 as [| |cs|z1 z2|z1 z2|z1|z1]; try discriminate H.
    destruct z1 as [| |w|q1 q2|q1 q2|q1|q1]; try discriminate H.
    apply andb_true_iff in H. destruct H as [H Hw]. apply andb_true_iff in H. destruct H as [Hu Ha].
    intros s Hs. apply fm_opt_us_ident; auto.
    + apply class_is_spec; [exact Ha|exact is_alpha_hi].
    + apply class_is_spec; [exact Hw|exact is_word_hi].
    + apply class_is_spec; [exact Hu|exact is_underscore_hi].
Qed.

Lemma type_shape_body r : type_shape_ok r = true ->
  forall s, re_fullmatch (re_body r) s = type_name_grammar s.
Proof.
  unfold type_shape_ok. intros H. apply andb_true_iff in H. destruct H as [_ H].
  destruct (re_body r) as [| |cs|x y|x y|x|x]; try discriminate H.
  destruct x as [| |a1|x1 x2|x1 x2|x1|x1]; try discriminate H.
  destruct y as [| |cs|y1 y2|y1 y2|y1|y1]; try discriminate H.
  destruct y1 as [| |cs|z1 z2|z1 z2|z1|z1]; try discriminate H.
  destruct z1 as [| |w1|q1 q2|q1 q2|q1|q1]; try discriminate H.
  destruct y2 as [| |cs|z1 z2|z1 z2|z1|z1]; try discriminate H.
  destruct z1 as [| |cs|g1 g2|g1 g2|g1|g1]; try discriminate H.
  destruct g1 as [| |sl|q1 q2|q1 q2|q1|q1]; try discriminate H.
  destruct g2 as [| |cs|h1 h2|h1 h2|h1|h1]; try discriminate H.
  destruct h1 as [| |a2|q1 q2|q1 q2|q1|q1]; try discriminate H.
  destruct h2 as [| |cs|q1 q2|q1 q2|q1|q1]; try discriminate H.
  destruct q1 as [| |w2|p1 p2|p1 p2|p1|p1]; try discriminate H.
  apply andb_true_iff in H. destruct H as [H Hw2]. apply andb_true_iff in H. destruct H as [H Ha2].
  apply andb_true_iff in H. destruct H as [H Hsl]. apply andb_true_iff in H. destruct H as [Ha1 Hw1].
  intros s. apply fm_type_name.
  - apply class_is_spec; [exact Ha1|exact is_alpha_hi].
  - apply class_is_spec; [exact Hw1|exact is_word_hi].
  - apply class_is_spec; [exact Hsl|exact is_slash_hi].
  - apply class_is_spec; [exact Ha2|exact is_alpha_hi].
  - apply class_is_spec; [exact Hw2|exact is_word_hi].
Qed.

(* "$" and "\Z": what a successful match says about the string *)
Lemma py_match_end_slack r e s : end_ok e = true -> py_match r e s = true ->
  re_fullmatch r s = true \/ exists i, s = i ++ [NL] /\ re_fullmatch r i = true.
Proof.
  destruct e; simpl; intros He H; try discriminate He.
  - apply py_match_dollar_spec. exact H.
  - left. exact H.
Qed.

Lemma py_match_end_full r e s : end_ok e = true -> re_fullmatch r s = true -> py_match r e s = true.
Proof.
  destruct e; simpl; intros He H; try discriminate He; auto.
  apply py_match_dollar_spec. left. exact H.
Qed.

(* ---------------------------------------------------------------- is_valid_field_name *)
Definition ref_valid (v : valuation) : bool :=
  if v_reserved v then negb (v_check v) else negb (v_underscore v) && v_match v.

Definition all_valuations : list valuation :=
  flat_map (fun a => flat_map (fun b => flat_map (fun c => map (fun d =>
    {| v_check := a; v_reserved := b; v_underscore := c; v_match := d |}) [true; false]) [true; false]) [true; false]) [true; false].

Definition dtree_ok (t : dtree) : bool :=
  forallb (fun v => Bool.eqb (eval_dtree t v) (ref_valid v)) all_valuations.

Lemma dtree_ok_spec t : dtree_ok t = true -> forall v, eval_dtree t v = ref_valid v.
Proof.
  unfold dtree_ok. intros H v. rewrite forallb_forall in H. apply eqb_prop. apply H.
  destruct v as [[|] [|] [|] [|]]; simpl; tauto.
Qed.

(* ---------------------------------------------------------------- steps of _generate_record_class *)
Definition gstep_eqb (a b : gstep) : bool :=
  match a, b with
  | GCheckFieldNames, GCheckFieldNames | GBuildRecordFields, GBuildRecordFields
  | GCheckTypeName, GCheckTypeName | GExec, GExec => true
  | _, _ => false
  end.

(* step s occurs before the first GExec *)
Fixpoint step_before (s : gstep) (steps : list gstep) : bool :=
  match steps with
  | [] => false
  | GExec :: _ => false
  | x :: r => gstep_eqb s x || step_before s r
  end.

Definition steps_ok (steps : list gstep) : bool :=
  step_before GCheckFieldNames steps && step_before GBuildRecordFields steps
  && step_before GCheckTypeName steps && existsb (gstep_eqb GExec) steps.

Section Steps.
Variable F : name_facts.

Lemma reaches_fieldnames steps n d : reaches_exec F steps n d = true -> step_before GCheckFieldNames steps = true ->
  forallb (field_valid F (nf_grc_check_reserved F)) (map snd d) = true.
Proof.
  induction steps as [|x r IH]; simpl; intros H B; [discriminate B|].
  destruct x; simpl in B; try discriminate B.
  - apply andb_true_iff in H. tauto.
  - apply andb_true_iff in H. destruct H as [_ H]. auto.
  - apply andb_true_iff in H. destruct H as [_ H]. auto.
Qed.

Lemma reaches_types steps n d : reaches_exec F steps n d = true -> step_before GBuildRecordFields steps = true ->
  forallb (type_ok F) (map fst d) = true.
Proof.
  induction steps as [|x r IH]; simpl; intros H B; [discriminate B|].
  destruct x; simpl in B; try discriminate B.
  - apply andb_true_iff in H. destruct H as [_ H]. auto.
  - apply andb_true_iff in H. destruct H as [H _]. apply andb_true_iff in H. tauto.
  - apply andb_true_iff in H. destruct H as [_ H]. auto.
Qed.

Lemma reaches_typename steps n d : reaches_exec F steps n d = true -> step_before GCheckTypeName steps = true ->
  re_match (nf_type_re F) n = true.
Proof.
  induction steps as [|x r IH]; simpl; intros H B; [discriminate B|].
  destruct x; simpl in B; try discriminate B.
  - apply andb_true_iff in H. destruct H as [_ H]. auto.
  - apply andb_true_iff in H. destruct H as [_ H]. auto.
  - apply andb_true_iff in H. tauto.
Qed.

Lemma reaches_complete steps n d :
  (forall cr, forallb (field_valid F cr) (map snd d) = true) ->
  forallb (type_ok F) (map fst d) = true ->
  re_match (nf_type_re F) n = true ->
  existsb (gstep_eqb GExec) steps = true ->
  reaches_exec F steps n d = true.
Proof.
  intros Hf Ht Hn. induction steps as [|x r IH]; simpl; intros E; [discriminate E|].
  destruct x; simpl in E.
  - rewrite Hf, IH; auto.
  - rewrite Hf, Ht, IH; auto.
  - rewrite Hn, IH; auto.
  - reflexivity.
Qed.
End Steps.

(* ---------------------------------------------------------------- the facts the proofs need *)
Definition reserved_ok (F : name_facts) : bool :=
  forallb starts_underscore (reserved_names F) && nodupb (reserved_names F).

Definition facts_ok (F : name_facts) : bool :=
  field_shape_ok (nf_field_re F) && type_shape_ok (nf_type_re F) && dtree_ok (nf_field_valid F)
  && steps_ok (nf_gsteps F) && nf_grc_check_reserved F && reserved_ok F.

Section Exact.
Variable F : name_facts.
Hypothesis OK : facts_ok F = true.

Let ok_parts : field_shape_ok (nf_field_re F) = true /\ type_shape_ok (nf_type_re F) = true /\
  dtree_ok (nf_field_valid F) = true /\ steps_ok (nf_gsteps F) = true /\ nf_grc_check_reserved F = true /\
  reserved_ok F = true.
Proof.
  pose proof OK as H. unfold facts_ok in H.
  do 5 (apply andb_true_iff in H; let H' := fresh "P" in destruct H as [H H']). tauto.
Qed.

Lemma field_valid_ref cr f : field_valid F cr f =
  if mem f (reserved_names F) then negb cr else negb (starts_underscore f) && re_match (nf_field_re F) f.
Proof.
  destruct ok_parts as (_ & _ & D & _). unfold field_valid. rewrite (dtree_ok_spec _ D). reflexivity.
Qed.

Lemma ident_not_underscore f : ident_no_underscore f = true -> starts_underscore f = false.
Proof.
  destruct f as [|c t]; simpl; intros H; [discriminate H|].
  apply andb_true_iff in H. destruct H as [H _]. apply alpha_not_underscore. exact H.
Qed.

Lemma ident_not_reserved f : ident_no_underscore f = true -> mem f (reserved_names F) = false.
Proof.
  intros H. apply mem_false_not_In. intros Hin.
  destruct ok_parts as (_ & _ & _ & _ & _ & R). unfold reserved_ok in R. apply andb_true_iff in R.
  destruct R as [R _]. rewrite forallb_forall in R. specialize (R f Hin).
  rewrite (ident_not_underscore f H) in R. discriminate R.
Qed.

(* a field name that passes the check used by _generate_record_class *)
Lemma field_valid_slack f : field_valid F true f = true ->
  mem f (reserved_names F) = false /\ slack ident_no_underscore f.
Proof.
  rewrite field_valid_ref. destruct (mem f (reserved_names F)); [discriminate|].
  intros H. split; [reflexivity|]. apply andb_true_iff in H. destruct H as [Hu Hm].
  apply negb_true_iff in Hu.
  destruct ok_parts as (S & _). pose proof (field_shape_body _ S) as B.
  unfold field_shape_ok in S. apply andb_true_iff in S. destruct S as [E _].
  destruct (py_match_end_slack _ _ _ E Hm) as [Hf|(i & Hi & Hf)].
  - left. rewrite <- B; auto.
  - right. exists i. split; [exact Hi|]. rewrite <- B; [exact Hf|].
    subst f. destruct i as [|c i]; [reflexivity|exact Hu].
Qed.

Lemma field_valid_complete cr f : ident_no_underscore f = true -> field_valid F cr f = true.
Proof.
  intros H. rewrite field_valid_ref, (ident_not_reserved f H), (ident_not_underscore f H). simpl.
  destruct ok_parts as (S & _). pose proof (field_shape_body _ S) as B.
  unfold field_shape_ok in S. apply andb_true_iff in S. destruct S as [E _].
  apply py_match_end_full; [exact E|]. rewrite B; [exact H|]. apply ident_not_underscore. exact H.
Qed.

Lemma type_name_slack n : re_match (nf_type_re F) n = true -> slack type_name_grammar n.
Proof.
  intros Hm. destruct ok_parts as (_ & S & _). pose proof (type_shape_body _ S) as B.
  unfold type_shape_ok in S. apply andb_true_iff in S. destruct S as [E _].
  destruct (py_match_end_slack _ _ _ E Hm) as [Hf|(i & Hi & Hf)].
  - left. rewrite <- B. exact Hf.
  - right. exists i. split; [exact Hi|]. rewrite <- B. exact Hf.
Qed.

Lemma type_name_complete n : type_name_grammar n = true -> re_match (nf_type_re F) n = true.
Proof.
  intros H. destruct ok_parts as (_ & S & _). pose proof (type_shape_body _ S) as B.
  unfold type_shape_ok in S. apply andb_true_iff in S. destruct S as [E _].
  apply py_match_end_full; [exact E|]. rewrite B. exact H.
Qed.

Lemma steps_parts : step_before GCheckFieldNames (nf_gsteps F) = true /\
  step_before GBuildRecordFields (nf_gsteps F) = true /\ step_before GCheckTypeName (nf_gsteps F) = true /\
  existsb (gstep_eqb GExec) (nf_gsteps F) = true.
Proof.
  destruct ok_parts as (_ & _ & _ & S & _). unfold steps_ok in S.
  do 3 (apply andb_true_iff in S; let H' := fresh "P" in destruct S as [S H']). tauto.
Qed.

(* what the validators let through to exec -- exactly the grammar, or the grammar plus one trailing newline *)
Theorem validators_exact n d : validators_pass F n d = true ->
  slack type_name_grammar n
  /\ Forall (fun f => slack ident_no_underscore f /\ mem f (reserved_names F) = false) (map snd d)
  /\ Forall (fun t => whitelisted_opt_list (nf_whitelist F) t = true) (map fst d).
Proof.
  unfold validators_pass. intros H. destruct steps_parts as (B1 & B2 & B3 & _).
  destruct ok_parts as (_ & _ & _ & _ & G & _).
  split; [|split].
  - apply type_name_slack. eapply reaches_typename; eauto.
  - pose proof (reaches_fieldnames F _ _ _ H B1) as Hf. rewrite G in Hf.
    apply Forall_forall. intros f Hin. rewrite forallb_forall in Hf.
    destruct (field_valid_slack f (Hf f Hin)). auto.
  - pose proof (reaches_types F _ _ _ H B2) as Ht.
    apply Forall_forall. intros t Hin. rewrite forallb_forall in Ht. apply (Ht t Hin).
Qed.

(* conversely every definition in the grammar passes *)
Theorem validators_complete n d :
  type_name_grammar n = true ->
  Forall (fun f => ident_no_underscore f = true) (map snd d) ->
  Forall (fun t => whitelisted_opt_list (nf_whitelist F) t = true) (map fst d) ->
  validators_pass F n d = true.
Proof.
  intros Hn Hf Ht. unfold validators_pass. destruct steps_parts as (_ & _ & _ & E).
  apply reaches_complete; auto.
  - intros cr. apply forallb_forall. intros f Hin. rewrite Forall_forall in Hf.
    apply field_valid_complete. auto.
  - apply forallb_forall. intros t Hin. rewrite Forall_forall in Ht. apply (Ht t Hin).
  - apply type_name_complete. exact Hn.
Qed.
End Exact.

Lemma type_regex_exact F : facts_ok F = true ->
  forall s, re_fullmatch (re_body (nf_type_re F)) s = type_name_grammar s.
Proof.
  intros OK. apply type_shape_body. unfold facts_ok in OK.
  do 5 (apply andb_true_iff in OK; let H' := fresh "P" in destruct OK as [OK H']). exact P3.
Qed.

Lemma field_regex_exact F : facts_ok F = true ->
  forall s, starts_underscore s = false -> re_fullmatch (re_body (nf_field_re F)) s = ident_no_underscore s.
Proof.
  intros OK. apply field_shape_body. unfold facts_ok in OK.
  do 5 (apply andb_true_iff in OK; let H' := fresh "P" in destruct OK as [OK H']). exact OK.
Qed.

(* ---- regexes that end in \Z (or fullmatch): the validators are the grammar, with no slack ---- *)
Definition ends_Z (F : name_facts) : bool :=
  match re_end (nf_type_re F), re_end (nf_field_re F) with EndZ, EndZ => true | _, _ => false end.

Lemma validators_exact_strict F : facts_ok F = true -> ends_Z F = true -> forall n d,
  validators_pass F n d = true ->
  type_name_grammar n = true
  /\ Forall (fun f => ident_no_underscore f = true /\ mem f (reserved_names F) = false) (map snd d)
  /\ Forall (fun t => whitelisted_opt_list (nf_whitelist F) t = true) (map fst d).
Proof.
  intros OK Z n d H. unfold ends_Z in Z.
  destruct (re_end (nf_type_re F)) eqn:Et; try discriminate Z.
  destruct (re_end (nf_field_re F)) eqn:Ef; try discriminate Z.
  pose proof (type_regex_exact F OK) as Bt. pose proof (field_regex_exact F OK) as Bf.
  pose proof OK as OK'. unfold facts_ok in OK'.
  do 5 (apply andb_true_iff in OK'; let H' := fresh "P" in destruct OK' as [OK' H']).
  unfold steps_ok in P1. do 3 (apply andb_true_iff in P1; let H' := fresh "Q" in destruct P1 as [P1 H']).
  unfold validators_pass in H. split; [|split].
  - pose proof (reaches_typename F _ _ _ H Q0) as Hm. unfold re_match in Hm. rewrite Et in Hm. simpl in Hm.
    rewrite <- Bt. exact Hm.
  - pose proof (reaches_fieldnames F _ _ _ H P1) as Hf. rewrite P0 in Hf.
    apply Forall_forall. intros f Hin. rewrite forallb_forall in Hf. specialize (Hf f Hin).
    rewrite (field_valid_ref F OK) in Hf. destruct (mem f (reserved_names F)); [discriminate Hf|].
    split; [|reflexivity]. apply andb_true_iff in Hf. destruct Hf as [Hu Hm]. apply negb_true_iff in Hu.
    unfold re_match in Hm. rewrite Ef in Hm. simpl in Hm. rewrite <- Bf; auto.
  - pose proof (reaches_types F _ _ _ H Q1) as Ht.
    apply Forall_forall. intros t Hin. rewrite forallb_forall in Ht. apply (Ht t Hin).
Qed.

Lemma validators_iff F : facts_ok F = true -> ends_Z F = true -> forall n d,
  validators_pass F n d = true <->
  (type_name_grammar n = true
   /\ Forall (fun f => ident_no_underscore f = true) (map snd d)
   /\ Forall (fun t => whitelisted_opt_list (nf_whitelist F) t = true) (map fst d)).
Proof.
  intros OK Z n d. split.
  - intros H. destruct (validators_exact_strict F OK Z n d H) as (A & B & C). split; [exact A|split; [|exact C]].
    eapply Forall_impl; [|exact B]. simpl. tauto.
  - intros (A & B & C). apply validators_complete; auto.
Qed.

(* ---- names that arrive as bytes ---- *)
Lemma word_ascii c : is_word c = true -> is_ascii c = true.
Proof. unfold is_word, is_alpha, is_digit, is_underscore, UNDERSCORE, is_ascii. intros H. lia. Qed.

Lemma ident_ascii s : ident_no_underscore s = true -> forallb is_ascii s = true.
Proof.
  destruct s as [|c t]; simpl; intros H; [reflexivity|].
  apply andb_true_iff in H. destruct H as [Hc Ht]. rewrite (word_ascii c (alpha_word c Hc)). simpl.
  apply forallb_forall. intros x Hx. rewrite forallb_forall in Ht. apply word_ascii. auto.
Qed.

Lemma segments_ascii s : forallb (forallb is_ascii) (split_on SLASH s) = true -> forallb is_ascii s = true.
Proof.
  induction s as [|c t IH]; simpl; [reflexivity|].
  destruct (c =? SLASH) eqn:E; simpl.
  - intros H. apply N.eqb_eq in E. subst c. simpl. apply IH. exact H.
  - destruct (split_on SLASH t) as [|p ps] eqn:Es; [destruct (split_on_nonnil _ _ Es)|].
    simpl. intros H. apply andb_true_iff in H. destruct H as [H Hps].
    apply andb_true_iff in H. destruct H as [Hc Hp]. rewrite Hc. simpl. apply IH. simpl. rewrite Hp, Hps. reflexivity.
Qed.

Lemma type_name_ascii s : type_name_grammar s = true -> forallb is_ascii s = true.
Proof.
  intros H. apply segments_ascii. unfold type_name_grammar in H. rewrite forallb_forall in H.
  apply forallb_forall. intros p Hp. apply ident_ascii. auto.
Qed.

Lemma whitelisted_cases wl t : whitelisted_opt_list wl t = true -> In (strip_list t) wl.
Proof. unfold whitelisted_opt_list. apply mem_In. Qed.

(* A decoder that keeps ASCII bytes and turns every other input into text with a non-ASCII code point (what
   bytes.decode("utf-8", "surrogateescape") does: an invalid byte b becomes U+DC00+b, a valid sequence a code point
   >= 128) cannot make a name acceptable that was not already the ASCII spelling of an acceptable name. *)
Section Decode.
Variable dec : list N -> str.
Hypothesis dec_ascii : forall b, forallb is_ascii b = true -> dec b = b.
Hypothesis dec_nonascii : forall b, forallb is_ascii b = false -> forallb is_ascii (dec b) = false.

Lemma decoded_name_valid (P : str -> bool) :
  (forall s, P s = true -> forallb is_ascii s = true) ->
  forall b, P (dec b) = true -> dec b = b /\ P b = true.
Proof.
  intros PA b H. pose proof (PA _ H) as A.
  destruct (forallb is_ascii b) eqn:E.
  - rewrite (dec_ascii b E) in *. auto.
  - rewrite (dec_nonascii b E) in A. discriminate A.
Qed.
End Decode.

(* ---------------------------------------------------------------- field types *)
Lemma strip_brackets_spec s b : strip_brackets s = Some b -> s = b ++ [91; 93].
Proof.
  unfold strip_brackets. intros H.
  destruct (rev s) as [|x [|y r]] eqn:E; try discriminate H.
  destruct ((x =? 93) && (y =? 91)) eqn:C; [|discriminate H].
  injection H as Hb. subst b. apply andb_true_iff in C. destruct C as [Cx Cy].
  apply N.eqb_eq in Cx. apply N.eqb_eq in Cy. subst x y.
  rewrite <- (rev_involutive s), E. simpl. rewrite <- app_assoc. reflexivity.
Qed.

Lemma strip_list_cases t : strip_list t = t \/ t = strip_list t ++ [91; 93].
Proof.
  unfold strip_list. destruct (strip_brackets t) as [b|] eqn:E; [right|left; reflexivity].
  apply strip_brackets_spec. exact E.
Qed.

(* the class path that reaches importlib / getattr is a whitelist entry, and the requested type is that entry or its
   list form *)
Lemma fieldtype_in_whitelist F p c : nf_ft_strips_one_list_suffix F = true -> fieldtype F p = Some c ->
  In c (nf_whitelist F) /\ (p = c \/ p = c ++ [91; 93]) /\ whitelisted_opt_list (nf_whitelist F) p = true.
Proof.
  unfold fieldtype, whitelisted_opt_list. intros S. rewrite S.
  destruct (mem (strip_list p) (nf_whitelist F)) eqn:M; intros H; [|discriminate H].
  injection H as Hc. subst c. split; [apply mem_In; exact M|]. split; [|reflexivity].
  destruct (strip_list_cases p) as [E|E]; [left; symmetry; exact E|right; exact E].
Qed.

Lemma fieldtype_none F p : nf_ft_strips_one_list_suffix F = true ->
  whitelisted_opt_list (nf_whitelist F) p = false -> fieldtype F p = None.
Proof.
  unfold fieldtype, whitelisted_opt_list. intros S H. rewrite S, H. reflexivity.
Qed.

(* ---------------------------------------------------------------- OrderedDict / slots *)
Lemma od_set_keys k v l :
  map fst (od_set k v l) = if mem k (map fst l) then map fst l else map fst l ++ [k].
Proof.
  induction l as [|[k' v'] t IH]; simpl; [reflexivity|].
  destruct (str_eqb k k') eqn:E; simpl.
  - reflexivity.
  - rewrite IH. destruct (mem k (map fst t)); reflexivity.
Qed.

Lemma od_update_keys kvs : forall acc,
  map fst (od_update acc kvs) = map fst acc ++ dedup_seen (map fst acc) (map fst kvs).
Proof.
  unfold od_update. induction kvs as [|[k v] t IH]; intros acc; simpl.
  - rewrite app_nil_r. reflexivity.
  - rewrite IH, od_set_keys. simpl.
    destruct (mem k (map fst acc)); [reflexivity|]. rewrite <- app_assoc. reflexivity.
Qed.

Lemma dedup_seen_subset seen xs x : In x (dedup_seen seen xs) -> In x xs.
Proof.
  revert seen. induction xs as [|y t IH]; intros seen; simpl; [tauto|].
  destruct (mem y seen); simpl; intros H.
  - right. eapply IH; eauto.
  - destruct H as [H|H]; [left; exact H|right; eapply IH; eauto].
Qed.

Lemma dedup_seen_id xs : forall seen,
  (forall x, In x xs -> mem x seen = false) -> nodupb xs = true -> dedup_seen seen xs = xs.
Proof.
  induction xs as [|y t IH]; intros seen Hs Hn; simpl; [reflexivity|].
  simpl in Hn. apply andb_true_iff in Hn. destruct Hn as [Hy Hn]. apply negb_true_iff in Hy.
  rewrite (Hs y (or_introl eq_refl)). f_equal. apply IH; [|exact Hn].
  intros x Hx. rewrite mem_app. rewrite (Hs x (or_intror Hx)). simpl.
  unfold mem. simpl. rewrite orb_false_r.
  destruct (str_eqb x y) eqn:E; [|reflexivity].
  apply str_eqb_eq in E. subst x. apply mem_In in Hx. congruence.
Qed.

Lemma map_fst_swap (d : decl) : map fst (map (fun tn => (snd tn, fst tn)) d) = map snd d.
Proof. rewrite map_map. reflexivity. Qed.

Lemma slots_general F d :
  slots F d = dedup (map snd d) ++ dedup_seen (dedup (map snd d)) (reserved_names F).
Proof.
  unfold slots, all_fields. rewrite od_update_keys, od_update_keys. simpl.
  rewrite map_fst_swap. reflexivity.
Qed.

(* declared names (first occurrences, in order) followed by the reserved names *)
Lemma slots_spec F d : reserved_ok F = true ->
  Forall (fun f => mem f (reserved_names F) = false) (map snd d) ->
  slots F d = dedup (map snd d) ++ reserved_names F.
Proof.
  intros R Hd. rewrite slots_general. f_equal.
  unfold reserved_ok in R. apply andb_true_iff in R. destruct R as [_ Rn].
  apply dedup_seen_id; [|exact Rn].
  intros x Hx. apply mem_false_not_In. intros Hin.
  apply dedup_seen_subset in Hin. rewrite Forall_forall in Hd. specialize (Hd x Hin).
  apply mem_In in Hx. congruence.
Qed.

Lemma dedup_nodup xs : nodupb xs = true -> dedup xs = xs.
Proof. intros H. apply dedup_seen_id; auto. Qed.

Lemma slots_accepted F n d : facts_ok F = true -> validators_pass F n d = true ->
  slots F d = dedup (map snd d) ++ reserved_names F.
Proof.
  intros OK H. destruct (validators_exact F OK n d H) as (_ & Hf & _).
  apply slots_spec.
  - unfold facts_ok in OK. apply andb_true_iff in OK. tauto.
  - eapply Forall_impl; [|exact Hf]. simpl. tauto.
Qed.

Lemma slots_accepted_nodup F n d : facts_ok F = true -> validators_pass F n d = true ->
  nodupb (map snd d) = true -> slots F d = map snd d ++ reserved_names F.
Proof.
  intros OK H N. rewrite (slots_accepted F n d OK H), (dedup_nodup _ N). reflexivity.
Qed.

(* ---------------------------------------------------------------- rendering *)
Definition okfrag (P : str -> Prop) (f : frag) : Prop := match f with Fix _ => True | Dyn s => P s end.

Lemma Forall_concat_map {A B} (Q : B -> Prop) (f : A -> list B) xs :
  (forall x, In x xs -> Forall Q (f x)) -> Forall Q (List.concat (map f xs)).
Proof.
  induction xs as [|x t IH]; simpl; intros H; [constructor|].
  apply Forall_app. split; [apply H; left; reflexivity|apply IH; intros y Hy; apply H; right; exact Hy].
Qed.

Lemma Forall_join (Q : frag -> Prop) sep xs :
  Forall Q sep -> (forall x, In x xs -> Forall Q x) -> Forall Q (join sep xs).
Proof.
  intros Hs. induction xs as [|x t IH]; simpl; intros H; [constructor|].
  destruct t as [|y t']; [apply H; left; reflexivity|].
  apply Forall_app. split; [apply H; left; reflexivity|].
  apply Forall_app. split; [exact Hs|]. apply IH. intros z Hz. apply H. right. exact Hz.
Qed.

Section Render.
Variable F : name_facts.
Variable P : str -> Prop.
Variable d : decl.
Hypothesis Pdecl : forall f, In f (map snd d) -> P f.

Lemma keys_origin k : In k (map fst (all_fields F d)) -> In k (map snd d) \/ mem k (reserved_names F) = true.
Proof.
  change (map fst (all_fields F d)) with (slots F d). rewrite slots_general. intros H.
  apply in_app_or in H. destruct H as [H|H].
  - left. eapply dedup_seen_subset. exact H.
  - right. apply mem_In. eapply dedup_seen_subset. exact H.
Qed.

Lemma nm_ok k : In k (map fst (all_fields F d)) -> okfrag P (nm F k).
Proof.
  intros H. unfold nm. destruct (mem k (reserved_names F)) eqn:E; simpl; [exact I|].
  destruct (keys_origin k H) as [Hd|Hr]; [apply Pdecl; exact Hd|congruence].
Qed.

Lemma default_ok k t : In k (map fst (all_fields F d)) -> Forall (okfrag P) (default_of F k t).
Proof.
  intros H. unfold default_of. destruct (mem t (nf_plain_default_types F)).
  - repeat constructor.
  - repeat constructor. apply nm_ok. exact H.
Qed.

Lemma quoted_ok k : In k (map fst (all_fields F d)) -> Forall (okfrag P) (quoted F k).
Proof. intros H. unfold quoted. repeat constructor. apply nm_ok. exact H. Qed.

Lemma render_hole_ok h n : P (sanitize n) -> Forall (okfrag P) (render_hole F h n d).
Proof.
  intros Pn.
  assert (Kin : forall kt, In kt (all_fields F d) -> In (fst kt) (map fst (all_fields F d))).
  { intros kt H. apply in_map. exact H. }
  destruct h; unfold render_hole.
  - repeat constructor. exact Pn.
  - apply Forall_app. split; [repeat constructor|]. apply Forall_app. split; [|repeat constructor].
    apply Forall_concat_map. intros k Hk.
    apply Forall_app. split; [repeat constructor|]. apply Forall_app. split; [apply quoted_ok; exact Hk|].
    repeat constructor. apply nm_ok. exact Hk.
  - apply Forall_app. split; [repeat constructor|]. apply Forall_app. split.
    + apply Forall_join; [repeat constructor|]. intros x Hx. apply in_map_iff in Hx.
      destruct Hx as (k & Ek & Hk). subst x. apply quoted_ok. exact Hk.
    + apply Forall_app. split; [|repeat constructor].
      destruct (map fst (all_fields F d)) as [|? [|? ?]]; repeat constructor.
  - destruct (contains_keyword F d); [repeat constructor|].
    apply Forall_join; [repeat constructor|]. intros x Hx. apply in_map_iff in Hx.
    destruct Hx as (k & Ek & Hk). subst x. repeat constructor. apply nm_ok. exact Hk.
  - apply Forall_app. split; [|repeat constructor].
    destruct (contains_keyword F d); [repeat constructor|].
    apply Forall_concat_map. intros kt Hkt. pose proof (Kin kt Hkt) as Hk.
    apply Forall_app. split; [repeat constructor; apply nm_ok; exact Hk|].
    apply Forall_app. split; [apply default_ok; exact Hk|repeat constructor].
  - destruct (contains_keyword F d); [repeat constructor|].
    apply Forall_app. split; [repeat constructor|]. apply Forall_app. split; [|repeat constructor].
    apply Forall_concat_map. intros kt Hkt. pose proof (Kin kt Hkt) as Hk.
    apply Forall_app. split; [repeat constructor; apply nm_ok; exact Hk|].
    apply Forall_app. split; [apply default_ok; exact Hk|repeat constructor].
Qed.

Lemma render_ok n : P (sanitize n) -> Forall (okfrag P) (render F n d).
Proof.
  intros Pn. unfold render. apply Forall_concat_map. intros p _.
  destruct p as [s|h]; [repeat constructor|apply render_hole_ok; exact Pn].
Qed.
End Render.

Definition word_text (s : str) : Prop := s <> [] /\ forallb is_word s = true.

Lemma ident_word_text f : ident_no_underscore f = true -> word_text f.
Proof.
  destruct f as [|c t]; simpl; intros H; [discriminate H|].
  apply andb_true_iff in H. destruct H as [Hc Ht]. split; [discriminate|].
  simpl. rewrite (alpha_word c Hc), Ht. reflexivity.
Qed.

Lemma grammar_chars s : forallb (fun p => forallb is_word p) (split_on SLASH s) = true ->
  forallb is_word (sanitize s) = true.
Proof.
  induction s as [|c t IH]; simpl; [reflexivity|].
  destruct (c =? SLASH) eqn:E; simpl.
  - intros H. rewrite IH; auto.
  - destruct (split_on SLASH t) as [|p ps] eqn:Es; [destruct (split_on_nonnil _ _ Es)|].
    simpl. intros H. apply andb_true_iff in H. destruct H as [H Hps].
    apply andb_true_iff in H. destruct H as [Hc Hp]. rewrite Hc. simpl. apply IH. simpl. rewrite Hp, Hps. reflexivity.
Qed.

Lemma type_name_word_text n : type_name_grammar n = true -> word_text (sanitize n).
Proof.
  intros H. split.
  - destruct n; [discriminate H|discriminate].
  - apply grammar_chars. unfold type_name_grammar in H.
    rewrite forallb_forall in H. apply forallb_forall. intros p Hp. specialize (H p Hp).
    destruct (ident_word_text p H) as [_ W]. exact W.
Qed.

(* every fragment of the rendered source that comes from the definition is a non-empty run of [A-Za-z0-9_] *)
Theorem no_injection F n d :
  type_name_grammar n = true -> Forall (fun f => ident_no_underscore f = true) (map snd d) ->
  forallb frag_clean (render F n d) = true.
Proof.
  intros Hn Hd.
  assert (R : Forall (okfrag word_text) (render F n d)).
  { apply render_ok; [|apply type_name_word_text; exact Hn].
    intros f Hf. rewrite Forall_forall in Hd. apply ident_word_text. auto. }
  apply forallb_forall. intros fr Hfr. rewrite Forall_forall in R. specialize (R fr Hfr).
  destruct fr as [s|s]; simpl; [reflexivity|].
  destruct R as [Ne W]. destruct s; [congruence|exact W].
Qed.
