(* Proofs about model/Sqlite.v (property C18).  The clean writer refines the interpreter of the generated
   statement lists; the writer with batches and transactions against the transaction-free semantics; the
   transaction-free semantics against the declarative description of tables, columns and rows; commit points;
   value mapping. *)
From Coq Require Import List Bool String Ascii ZArith NArith Lia.
Import ListNotations.
From FR Require Import Sqlite.
Open Scope list_scope.

(* ================= part 1 ================= *)
Definition canonical_code : code := {|
  code_write := [When CNewDesc [SeenAdd; CreateTable; UpdateColumns; CallFlush]; Do InsertRecord; Do IncrCount; When CBatchFull [CallFlush]];
  code_tx_cycle := [When CInTx [ExecCommit]; Do ExecBegin];
  code_flush := [When CHasCon [CallTxCycle]];
  code_close := [When CHasCon [CallFlush; ConClose]; SetConNone];
  code_init_autocommit := true; code_init_count_zero := true; code_init_tx_cycle := true |}.

Section Proofs.
Variable C : config.

Lemma bind_ok {A B} (a : A) (f : A -> res B) : (Ok a >>= f) = f a.
Proof. reflexivity. Qed.
Lemma bind_err {A B} e (f : A -> res B) : (Err e >>= f) = Err e.
Proof. reflexivity. Qed.
Lemma bind_ret {A} (r : res A) : (r >>= fun x => Ok x) = r.
Proof. destruct r; reflexivity. Qed.
Lemma bind_assoc {A B D} (r : res A) (f : A -> res B) (g : B -> res D) :
  (r >>= f >>= g) = (r >>= fun x => f x >>= g).
Proof. destruct r; reflexivity. Qed.

Lemma code_tx_refines w : code_tx C canonical_code w = tx_cycle C w.
Proof.
  unfold code_tx, tx_cycle. cbn [canonical_code code_tx_cycle exec_stmts exec_stmt eval_cond exec_simples exec_simple].
  destruct (in_tx w) as [b|e]; cbn [bind]; [|reflexivity].
  destruct b.
  - rewrite bind_ret. destruct (on_con w (exec_commit C)); cbn [bind]; [|reflexivity]. apply bind_ret.
  - cbn [bind]. apply bind_ret.
Qed.

Lemma code_flush_refines w : code_flush_fn C canonical_code w = flush C w.
Proof.
  unfold code_flush_fn, flush. cbn [canonical_code code_flush exec_stmts exec_stmt eval_cond exec_simples exec_simple bind].
  destruct (w_open w).
  - rewrite bind_ret. unfold calls1. rewrite bind_ret. apply code_tx_refines.
  - reflexivity.
Qed.

Opaque code_flush_fn code_tx.
Lemma code_write_refines w r : code_write_fn C canonical_code w r = write C w r.
Proof.
  unfold code_write_fn, write.
  cbn [canonical_code code_write exec_stmts exec_stmt eval_cond exec_simples exec_simple bind calls2].
  assert (Tail : forall w0,
    (sql C w0 (OInsert r) >>= (fun w1 => batch_full (incr_count w1) >>=
       (fun b : bool => if b then code_flush_fn C canonical_code (incr_count w1) >>= (fun w2 => Ok w2) else Ok (incr_count w1))
       >>= (fun w2 => Ok w2))) =
    (sql C w0 (OInsert r) >>= (fun w3 => batch_full (incr_count w3) >>=
       (fun full : bool => if full then flush C (incr_count w3) else Ok (incr_count w3))))).
  { intros w0. destruct (sql C w0 (OInsert r)) as [w3|e]; cbn [bind]; [|reflexivity].
    destruct (batch_full (incr_count w3)) as [[|]|e]; cbn [bind]; rewrite ?bind_ret, ?code_flush_refines; reflexivity. }
  destruct (seen w (r_desc r)); cbn [negb bind].
  - apply Tail.
  - destruct (sql C (add_seen w (r_desc r)) (OCreate (r_desc r))) as [w1|e]; cbn [bind]; [|reflexivity].
    destruct (sql C w1 (OAddCols (r_desc r))) as [w2|e]; cbn [bind]; [|reflexivity].
    rewrite bind_ret, code_flush_refines.
    destruct (flush C w2) as [w2'|e]; cbn [bind]; [|reflexivity].
    apply Tail.
Qed.

Lemma code_close_refines w : code_close_fn C canonical_code w = close C w.
Proof.
  unfold code_close_fn, close.
  cbn [canonical_code code_close exec_stmts exec_stmt eval_cond exec_simples exec_simple bind calls2].
  destruct (w_open w); cbn [bind].
  - rewrite code_flush_refines. destruct (flush C w) as [w1|e]; cbn [bind]; [|reflexivity].
    rewrite bind_ret. destruct (on_con w1 (fun c => Ok (con_close c))); cbn [bind]; rewrite ?bind_ret; reflexivity.
  - reflexivity.
Qed.

Transparent code_flush_fn code_tx.
Lemma code_init_on_refines db b : code_init_on C canonical_code db b = init_on C db b.
Proof. unfold code_init_on, init_on. cbn [canonical_code code_init_autocommit code_init_count_zero code_init_tx_cycle andb]. apply code_tx_refines. Qed.
Lemma code_init_refines b : code_init C canonical_code b = init C b.
Proof. apply code_init_on_refines. Qed.
Lemma code_reopen_refines w : code_reopen C canonical_code w = reopen C w.
Proof.
  unfold code_reopen, reopen. rewrite code_close_refines. destruct (close C w) as [w1|e]; cbn [bind]; [|reflexivity].
  apply code_init_on_refines.
Qed.

End Proofs.

(* ================= part 2 ================= *)
Section Proofs.
Variable C : config.

(* ---------- the store ---------- *)
Lemma fold_err {A B} (f : A -> B -> res A) l e :
  fold_left (fun acc o => acc >>= fun t => f t o) l (Err e) = Err e.
Proof. induction l as [|x l IH]; cbn; [reflexivity|exact IH]. Qed.

Lemma apply_ops_snoc os o ts : apply_ops C (os ++ [o]) ts = apply_ops C os ts >>= fun t => apply_op C t o.
Proof. unfold apply_ops. rewrite fold_left_app. reflexivity. Qed.

(* ---------- writer steps while a transaction is open ---------- *)
Definition good (w : wstate) (ts : tables) : Prop :=
  w_open w = true /\ c_in_tx (w_con w) = true /\ view C (w_con w) = Ok ts.

Definition same_meta (w w' : wstate) : Prop :=
  w_count w' = w_count w /\ w_batch w' = w_batch w /\ w_seen w' = w_seen w.

Lemma sql_good w ts o ts' : good w ts -> apply_op C ts o = Ok ts' ->
  exists w', sql C w o = Ok w' /\ good w' ts' /\ same_meta w w' /\ visible w' = visible w.
Proof.
  intros (Ho & Ht & Hv) Ha. unfold sql, exec_sql. rewrite Ho, Hv. cbn [bind]. rewrite Ha. cbn [bind]. rewrite Ht.
  cbn [bind]. eexists. split; [reflexivity|].
  split; [|split; [repeat split|reflexivity]].
  unfold good, set_con; cbn [w_open w_con c_in_tx]. repeat split; try assumption.
  unfold view; cbn [c_pending c_committed]. rewrite apply_ops_snoc. unfold view in Hv. rewrite Hv. cbn [bind]. exact Ha.
Qed.

Lemma sql_bad w ts o e : good w ts -> apply_op C ts o = Err e -> sql C w o = Err e.
Proof.
  intros (Ho & Ht & Hv) Ha. unfold sql, exec_sql. rewrite Ho, Hv. cbn [bind]. rewrite Ha. reflexivity.
Qed.

Lemma flush_good w ts : good w ts ->
  exists w', flush C w = Ok w' /\ good w' ts /\ same_meta w w' /\ visible w' = ts.
Proof.
  intros (Ho & Ht & Hv). unfold flush, tx_cycle, in_tx, on_con. rewrite Ho. cbn [bind]. rewrite Ht.
  unfold exec_commit. rewrite Ht, Hv. cbn [bind set_con w_open w_con exec_begin c_in_tx].
  rewrite Ho. cbn [bind]. eexists. split; [reflexivity|].
  unfold good, same_meta, visible, set_con, view; cbn. repeat split; assumption.
Qed.

Lemma good_add_seen w ts d : good w ts -> good (add_seen w d) ts.
Proof. intros H. exact H. Qed.

Lemma good_incr w ts : good w ts -> good (incr_count w) ts.
Proof. intros H. exact H. Qed.

(* one write, against the transaction-free semantics *)
Lemma write_step w st r : good w (snd st) -> w_seen w = fst st -> w_batch w <> 0%N ->
  match seq_write C st r with
  | Err e => write C w r = Err e
  | Ok st' =>
      exists w', write C w r = Ok w' /\ good w' (snd st') /\ w_seen w' = fst st' /\ w_batch w' = w_batch w /\
        w_count w' = (w_count w + 1)%N /\
        visible w' =
          (if (((w_count w + 1) mod w_batch w) =? 0)%N then snd st'
           else if existsb (desc_eqb (r_desc r)) (fst st) then visible w
           else match ddl C (r_desc r) (snd st) with Ok t2 => t2 | Err _ => [] end)
  end.
Proof.
  intros Hg Hs Hb. unfold seq_write, write, seen. rewrite Hs.
  set (d := r_desc r).
  (* the part after the new-descriptor block *)
  assert (Tail : forall w2 st1 vis, good w2 (snd st1) -> w_seen w2 = fst st1 -> w_batch w2 = w_batch w ->
            w_count w2 = w_count w -> visible w2 = vis ->
    match insert_record C r (snd st1) >>= (fun t3 => Ok (fst st1, t3)) with
    | Err e => (sql C w2 (OInsert r) >>= fun w3 => batch_full (incr_count w3) >>= fun full =>
                  if full then flush C (incr_count w3) else Ok (incr_count w3)) = Err e
    | Ok st' => exists w', (sql C w2 (OInsert r) >>= fun w3 => batch_full (incr_count w3) >>= fun full =>
                  if full then flush C (incr_count w3) else Ok (incr_count w3)) = Ok w' /\
                good w' (snd st') /\ w_seen w' = fst st' /\ w_batch w' = w_batch w /\ w_count w' = (w_count w + 1)%N /\
                visible w' = (if (((w_count w + 1) mod w_batch w) =? 0)%N then snd st' else vis)
    end).
  { intros w2 st1 vis Hg2 Hs2 Hb2 Hc2 Hv2.
    destruct (insert_record C r (snd st1)) as [t3|e] eqn:Hi; cbn [bind].
    - destruct (sql_good w2 (snd st1) (OInsert r) t3 Hg2 Hi) as (w3 & E3 & G3 & (M3c & M3b & M3s) & V3).
      rewrite E3. cbn [bind]. unfold batch_full. cbn [incr_count w_batch w_count].
      rewrite M3b, Hb2. destruct (w_batch w =? 0)%N eqn:Eb; [apply N.eqb_eq in Eb; contradiction|].
      cbn [bind]. rewrite M3c, Hc2.
      destruct (((w_count w + 1) mod w_batch w) =? 0)%N.
      + destruct (flush_good (incr_count w3) t3 (good_incr _ _ G3)) as (w5 & E5 & G5 & (M5c & M5b & M5s) & V5).
        exists w5. rewrite E5. repeat split; try apply G5; cbn [snd fst].
        * rewrite M5s. cbn. rewrite M3s. exact Hs2.
        * rewrite M5b. cbn. rewrite M3b. exact Hb2.
        * rewrite M5c. cbn. rewrite M3c, Hc2. reflexivity.
        * exact V5.
      + exists (incr_count w3). repeat split; try apply G3; cbn [snd fst incr_count w_seen w_batch w_count].
        * rewrite M3s. exact Hs2.
        * rewrite M3b. exact Hb2.
        * rewrite M3c, Hc2. reflexivity.
        * unfold visible in *. cbn. rewrite V3. exact Hv2.
    - rewrite (sql_bad w2 (snd st1) (OInsert r) e Hg2 Hi). reflexivity. }
  destruct (existsb (desc_eqb d) (fst st)) eqn:Hseen; cbn [bind].
  - apply (Tail w st (visible w)); auto.
  - unfold ddl.
    destruct (create_table_if_absent C d (snd st)) as [t1|e] eqn:Hc; cbn [bind].
    + destruct (sql_good (add_seen w d) (snd st) (OCreate d) t1 (good_add_seen _ _ d Hg) Hc)
        as (w1 & E1 & G1 & (M1c & M1b & M1s) & V1).
      rewrite E1. cbn [bind].
      destruct (add_missing_columns C d t1) as [t2|e] eqn:Ha; cbn [bind].
      * destruct (sql_good w1 t1 (OAddCols d) t2 G1 Ha) as (w2 & E2 & G2 & (M2c & M2b & M2s) & V2).
        rewrite E2. cbn [bind].
        destruct (flush_good w2 t2 G2) as (w2' & E2' & G2' & (M2c' & M2b' & M2s') & V2').
        rewrite E2'. cbn [bind].
        apply (Tail w2' (fst st ++ [d], t2) t2); cbn [fst snd]; auto.
        -- rewrite M2s', M2s, M1s. cbn. rewrite Hs. reflexivity.
        -- rewrite M2b', M2b, M1b. reflexivity.
        -- rewrite M2c', M2c, M1c. reflexivity.
      * rewrite (sql_bad w1 t1 (OAddCols d) e G1 Ha). reflexivity.
    + rewrite (sql_bad (add_seen w d) (snd st) (OCreate d) e (good_add_seen _ _ d Hg) Hc). reflexivity.
Qed.

End Proofs.

(* ================= part 3 ================= *)
Section Proofs.
Variable C : config.

(* ---------- finding tables ---------- *)
Lemma find_app {A} (f : A -> bool) l1 l2 :
  find f (l1 ++ l2) = match find f l1 with Some x => Some x | None => find f l2 end.
Proof. induction l1 as [|x l1 IH]; cbn; [reflexivity|]. destruct (f x); [reflexivity|exact IH]. Qed.

Lemma find_update k n f ts : (forall t, t_name (f t) = t_name t) ->
  find_table k (update_table n f ts) =
  match find_table k ts with Some t => Some (if is_table n t then f t else t) | None => None end.
Proof.
  intros Hf. unfold find_table, update_table. induction ts as [|t ts IH]; cbn; [reflexivity|].
  assert (E : is_table k (if is_table n t then f t else t) = is_table k t).
  { destruct (is_table n t); [|reflexivity]. unfold is_table. rewrite Hf. reflexivity. }
  rewrite E. destruct (is_table k t); [reflexivity|exact IH].
Qed.

Lemma raw_rows_create d ts t1 k : create_table_if_absent C d ts = Ok t1 -> raw_rows t1 k = raw_rows ts k.
Proof.
  unfold create_table_if_absent. destruct (find_table (d_name d) ts).
  - intros H; inversion H; reflexivity.
  - destruct (reserved_name (d_name d)); [discriminate|].
    destruct (ident_nodup (field_names C d)); [|discriminate]. intros H; inversion H; subst t1.
    unfold raw_rows, find_table. rewrite find_app. fold (find_table k ts).
    destruct (find_table k ts); [reflexivity|]. cbn [find]. match goal with |- context [is_table k ?t] => destruct (is_table k t) end; reflexivity.
Qed.

Lemma raw_rows_add d ts t2 k : add_missing_columns C d ts = Ok t2 -> raw_rows t2 k = raw_rows ts k.
Proof.
  unfold add_missing_columns. destruct (find_table (d_name d) ts) as [t|].
  - destruct (add_columns _ _ _) as [cols'|e]; cbn [bind]; [|discriminate].
    intros H; inversion H; subst t2. unfold raw_rows. rewrite find_update by reflexivity.
    destruct (find_table k ts) as [t0|]; [|reflexivity]. destruct (is_table (d_name d) t0); reflexivity.
  - intros H; inversion H; reflexivity.
Qed.

Lemma raw_rows_ddl d ts t2 k : ddl C d ts = Ok t2 -> raw_rows t2 k = raw_rows ts k.
Proof.
  unfold ddl. destruct (create_table_if_absent C d ts) as [t1|e] eqn:Hc; cbn [bind]; [|discriminate].
  intros Ha. rewrite (raw_rows_add _ _ _ _ Ha). exact (raw_rows_create _ _ _ _ Hc).
Qed.

(* ---------- histories ---------- *)

Lemma writes_app a b : writes (a ++ b) = writes a ++ writes b.
Proof. unfold writes. apply flat_map_app. Qed.

Lemma n_writes_snoc_w evs r : n_writes (evs ++ [EWrite r]) = (n_writes evs + 1)%N.
Proof. unfold n_writes. rewrite writes_app, app_length. cbn. lia. Qed.
Lemma n_writes_snoc_f evs : n_writes (evs ++ [EFlush]) = n_writes evs.
Proof. unfold n_writes. rewrite writes_app, app_length. cbn. f_equal. lia. Qed.

Lemma run_snoc b evs e : run C b (evs ++ [e]) = run C b evs >>= fun w => step C w e.
Proof. unfold run, run_from. rewrite fold_left_app. reflexivity. Qed.
Lemma seq_run_snoc evs e : seq_run C (evs ++ [e]) = seq_run C evs >>= fun st => seq_step C st e.
Proof. unfold seq_run. rewrite fold_left_app. reflexivity. Qed.
Lemma scan_snoc b evs e : scan_all b (evs ++ [e]) = scan_step b (scan_all b evs) e.
Proof. unfold scan_all. rewrite fold_left_app. reflexivity. Qed.

Lemma init_on_good db b : exists w, init_on C db b = Ok w /\ good C w db /\ w_seen w = [] /\ w_batch w = b /\ w_count w = 0%N /\ visible w = db.
Proof.
  unfold init_on, tx_cycle, in_tx, on_con. cbn. eexists. split; [reflexivity|].
  unfold good, visible, view; cbn. repeat split.
Qed.
Lemma init_good b : exists w, init C b = Ok w /\ good C w [] /\ w_seen w = [] /\ w_batch w = b /\ w_count w = 0%N /\ visible w = [].
Proof. apply init_on_good. Qed.

Lemma close_good w ts : good C w ts ->
  exists w', close C w = Ok w' /\ visible w' = ts /\ w_open w' = false /\ c_pending (w_con w') = [] /\ c_in_tx (w_con w') = false /\
             w_batch w' = w_batch w.
Proof.
  intros G. pose proof G as (Ho & _ & _). unfold close. rewrite Ho.
  destruct (flush_good C w ts G) as (w1 & E1 & (Ho1 & _ & _) & (_ & Mb & _) & V1). rewrite E1. cbn [bind]. unfold on_con. rewrite Ho1. cbn [bind].
  eexists. split; [reflexivity|]. unfold visible in *. cbn. auto.
Qed.

(* a new writer on the same file: the database persists, the writer-local state starts afresh *)
Lemma reopen_good w ts : good C w ts ->
  exists w', reopen C w = Ok w' /\ good C w' ts /\ w_seen w' = [] /\ w_batch w' = w_batch w /\ w_count w' = 0%N /\ visible w' = ts.
Proof.
  intros G. destruct (close_good w ts G) as (w1 & E1 & V1 & _ & _ & _ & B1). unfold reopen. rewrite E1. cbn [bind].
  unfold visible in V1. rewrite V1, B1. apply init_on_good.
Qed.

Lemma firstn_snoc_le {A} n (l : list A) x : n <= List.length l -> firstn n (l ++ [x]) = firstn n l.
Proof.
  intros H. rewrite firstn_app. replace (n - List.length l) with 0 by lia. cbn. apply app_nil_r.
Qed.
Lemma firstn_snoc_all {A} (l : list A) x : firstn (S (List.length l)) (l ++ [x]) = l ++ [x].
Proof. apply firstn_all2. rewrite app_length. cbn. lia. Qed.

(* the state of the model after a history, against the transaction-free semantics and the positional
   description of commit points *)
Definition run_post (b : N) (evs : list event) (st : seq_state) (w : wstate) : Prop :=
  good C w (snd st) /\ w_seen w = fst st /\ w_batch w = b /\ w_count w = sc_cnt (scan_all b evs) /\
  sc_pos (scan_all b evs) = List.length evs /\
  sc_seen (scan_all b evs) = fst st /\ last_commit b evs <= List.length evs /\
  exists tc, content C (firstn (last_commit b evs) evs) = Ok tc /\ forall k, raw_rows (visible w) k = raw_rows tc k.

Theorem run_inv b evs : b <> 0%N ->
  match seq_run C evs with
  | Err e => run C b evs = Err e
  | Ok st => exists w, run C b evs = Ok w /\ run_post b evs st w
  end.
Proof.
  intros Hb. induction evs as [|e evs IH] using rev_ind.
  - cbn [seq_run fold_left]. destruct (init_good b) as (w & E & G & Hs & Hbt & Hc & Hv).
    exists w. split; [exact E|]. unfold run_post, last_commit. cbn [scan_all fold_left sc_pos sc_cnt sc_seen sc_lc firstn List.length fst snd].
    split; [exact G|]. split; [exact Hs|]. split; [exact Hbt|]. split; [exact Hc|].
    split; [reflexivity|]. split; [reflexivity|]. split; [lia|].
    exists []. split; [reflexivity|]. intros k. rewrite Hv. reflexivity.
  - rewrite seq_run_snoc, run_snoc.
    destruct (seq_run C evs) as [st|e0] eqn:Hsr; cbn [bind].
    2:{ rewrite IH. reflexivity. }
    destruct IH as (w & E & G & Hs & Hbt & Hc & Hp & Hss & Hle & tc & Htc & Hrows).
    rewrite E. cbn [bind]. unfold last_commit in *. destruct e as [r| |]; cbn [step seq_step].
    + (* write *)
      assert (Hbw : w_batch w <> 0%N) by (rewrite Hbt; exact Hb).
      pose proof (write_step C w st r G Hs Hbw) as W.
      destruct (seq_write C st r) as [st'|e1] eqn:Hsw; [|exact W].
      destruct W as (w' & E' & G' & Hs' & Hbt' & Hc' & Hv').
      exists w'. split; [exact E'|]. unfold run_post, last_commit. rewrite scan_snoc. cbn [scan_step sc_pos sc_cnt sc_seen sc_lc].
      rewrite Hp, Hss, app_length. cbn [List.length].
      (* the seen set after the write, and the committed schema statements of a new descriptor *)
      assert (Hfst : fst st' = if existsb (desc_eqb (r_desc r)) (fst st) then fst st else fst st ++ [r_desc r]).
      { unfold seq_write in Hsw. destruct (existsb (desc_eqb (r_desc r)) (fst st)); cbn [bind] in Hsw.
        - destruct (insert_record C r (snd st)); cbn [bind] in Hsw; inversion Hsw; reflexivity.
        - destruct (ddl C (r_desc r) (snd st)) as [t2|]; cbn [bind] in Hsw; [|discriminate].
          cbn [fst snd] in Hsw. destruct (insert_record C r t2); cbn [bind] in Hsw; inversion Hsw; reflexivity. }
      assert (Hddl : existsb (desc_eqb (r_desc r)) (fst st) = false -> exists t2, ddl C (r_desc r) (snd st) = Ok t2).
      { intros Hnew. unfold seq_write in Hsw. rewrite Hnew in Hsw.
        destruct (ddl C (r_desc r) (snd st)) as [t2|]; cbn [bind] in Hsw; [|discriminate]. exists t2; reflexivity. }
      rewrite Hc, Hbt in Hv'.
      split; [exact G'|]. split; [exact Hs'|]. split; [rewrite Hbt'; exact Hbt|]. split; [rewrite Hc', Hc; reflexivity|].
      split; [lia|].
      split. { rewrite Hfst. destruct (existsb (desc_eqb (r_desc r)) (fst st)); reflexivity. }
      destruct (((sc_cnt (scan_all b evs) + 1) mod b) =? 0)%N.
      * (* the batch is full: everything including this record is committed *)
        split; [lia|]. exists (snd st'). split.
        -- rewrite firstn_snoc_all. unfold content. rewrite seq_run_snoc, Hsr. cbn [bind seq_step]. rewrite Hsw. reflexivity.
        -- intros k. rewrite Hv'. reflexivity.
      * destruct (existsb (desc_eqb (r_desc r)) (fst st)) eqn:Hseen; cbn [negb].
        -- (* nothing committed by this write *)
           split; [lia|]. exists tc. rewrite firstn_snoc_le by exact Hle. split; [exact Htc|].
           intros k. rewrite Hv'. apply Hrows.
        -- (* new descriptor: everything before this record is committed, with the new schema *)
           split; [lia|]. exists (snd st). split.
           ++ rewrite firstn_snoc_le by lia. rewrite firstn_all. unfold content. rewrite Hsr. reflexivity.
           ++ intros k. rewrite Hv'. destruct (Hddl eq_refl) as (t2 & Ht2). rewrite Ht2. exact (raw_rows_ddl _ _ _ k Ht2).
    + (* explicit flush *)
      destruct (flush_good C w (snd st) G) as (w' & E' & G' & (Mc & Mb & Ms) & V').
      exists w'. split; [exact E'|]. unfold run_post, last_commit. rewrite scan_snoc. cbn [scan_step sc_pos sc_cnt sc_seen sc_lc].
      rewrite Hp, Hss, app_length. cbn [List.length].
      split; [exact G'|]. split; [rewrite Ms; exact Hs|]. split; [rewrite Mb; exact Hbt|]. split; [rewrite Mc; exact Hc|].
      split; [lia|]. split; [reflexivity|]. split; [lia|].
      exists (snd st). split.
      * rewrite firstn_snoc_all. unfold content. rewrite seq_run_snoc, Hsr. reflexivity.
      * intros k. rewrite V'. reflexivity.
    + (* the writer is closed and a new one opened on the same file *)
      destruct (reopen_good w (snd st) G) as (w' & E' & G' & Hs' & Hbt' & Hc' & V').
      exists w'. split; [exact E'|]. unfold run_post, last_commit. rewrite scan_snoc. cbn [scan_step sc_pos sc_cnt sc_seen sc_lc fst snd].
      rewrite Hp, app_length. cbn [List.length].
      split; [exact G'|]. split; [exact Hs'|]. split; [rewrite Hbt'; exact Hbt|]. split; [exact Hc'|].
      split; [lia|]. split; [reflexivity|]. split; [lia|].
      exists (snd st). split.
      * rewrite firstn_snoc_all. unfold content. rewrite seq_run_snoc, Hsr. reflexivity.
      * intros k. rewrite V'. reflexivity.
Qed.

End Proofs.

(* ================= part 4 ================= *)
(* ---------- strings, membership ---------- *)
Lemma mem_str_In x l : mem_str x l = true <-> In x l.
Proof.
  unfold mem_str. rewrite existsb_exists. split.
  - intros (y & Hy & E). apply String.eqb_eq in E. subst y. exact Hy.
  - intros H. exists x. split; [exact H|apply String.eqb_refl].
Qed.
Lemma mem_str_false x l : mem_str x l = false <-> ~ In x l.
Proof. rewrite <- mem_str_In. destruct (mem_str x l); split; congruence. Qed.

Lemma same_ident_refl a : same_ident a a = true.
Proof. apply String.eqb_refl. Qed.
Lemma same_ident_sym a b : same_ident a b = same_ident b a.
Proof. unfold same_ident. apply String.eqb_sym. Qed.

Lemma case_inj_incl l l' : incl l' l -> case_inj l -> case_inj l'.
Proof. intros Hi H a b Ha Hb. apply H; apply Hi; assumption. Qed.

Lemma same_ident_eqb l a b : case_inj l -> In a l -> In b l -> same_ident a b = String.eqb a b.
Proof.
  intros H Ha Hb. unfold same_ident. destruct (String.eqb_spec a b) as [E|N].
  - subst. apply String.eqb_refl.
  - apply String.eqb_neq. intros E. apply N. apply H; assumption.
Qed.

Lemma mem_ident_str l x xs : case_inj l -> In x l -> incl xs l -> mem_ident x xs = mem_str x xs.
Proof.
  intros H Hx Hi. unfold mem_ident, mem_str. induction xs as [|y ys IH]; cbn; [reflexivity|].
  rewrite (same_ident_eqb l x y H Hx) by (apply Hi; left; reflexivity).
  rewrite IH; [reflexivity|]. intros z Hz. apply Hi. right. exact Hz.
Qed.

Lemma ident_nodup_ok l : case_inj l -> NoDup l -> ident_nodup l = true.
Proof.
  intros H Hn. induction Hn as [|x xs Hx Hn IH]; cbn; [reflexivity|].
  rewrite (mem_ident_str (x :: xs) x xs H) by (try (left; reflexivity); apply incl_tl, incl_refl).
  apply mem_str_false in Hx. rewrite Hx. cbn. apply IH. eapply case_inj_incl; [|exact H]. apply incl_tl, incl_refl.
Qed.

Lemma NoDup_snoc {A} (l : list A) x : NoDup l -> ~ In x l -> NoDup (l ++ [x]).
Proof.
  induction l as [|y l IH]; cbn; intros Hn Hx.
  - constructor; [intros []|constructor].
  - inversion Hn as [|? ? Hy Hn']; subst. constructor.
    + rewrite in_app_iff. cbn. intros [H|[H|[]]]; [apply Hy, H|apply Hx; left; symmetry; exact H].
    + apply IH; [exact Hn'|]. intros H. apply Hx. right. exact H.
Qed.

(* ---------- dedup_by ---------- *)
Section Dedup.
Context {A : Type}.
Variable key : A -> string.

Definition add_new (acc l : list A) : list A := fold_left (dedup_step key) l acc.

Lemma dedup_by_app l1 l2 : dedup_by key (l1 ++ l2) = add_new (dedup_by key l1) l2.
Proof. unfold dedup_by, add_new. apply fold_left_app. Qed.

Lemma add_new_keys acc l k : In k (map key (add_new acc l)) <-> In k (map key acc) \/ In k (map key l).
Proof.
  revert acc. induction l as [|x l IH]; intros acc; cbn [add_new fold_left map In].
  - tauto.
  - fold (add_new (dedup_step key acc x) l). rewrite IH. unfold dedup_step.
    destruct (mem_str (key x) (map key acc)) eqn:E.
    + apply mem_str_In in E. split; [intros [H|H]; auto|intros [H|[H|H]]; subst; auto].
    + rewrite map_app, in_app_iff. cbn. tauto.
Qed.

Lemma dedup_keys l k : In k (map key (dedup_by key l)) <-> In k (map key l).
Proof. unfold dedup_by. fold (add_new [] l). rewrite add_new_keys. cbn. tauto. Qed.

Lemma add_new_incl acc l x : In x (add_new acc l) -> In x acc \/ In x l.
Proof.
  revert acc. induction l as [|y l IH]; intros acc; cbn [add_new fold_left]; [auto|].
  fold (add_new (dedup_step key acc y) l). intros H. apply IH in H. unfold dedup_step in H.
  destruct (mem_str (key y) (map key acc)).
  - destruct H; [auto|right; right; assumption].
  - destruct H as [H|H]; [|right; right; assumption]. apply in_app_or in H. destruct H as [H|[H|[]]]; [auto|subst; right; left; reflexivity].
Qed.

Lemma add_new_nodup acc l : NoDup (map key acc) -> NoDup (map key (add_new acc l)).
Proof.
  revert acc. induction l as [|x l IH]; intros acc Hn; cbn [add_new fold_left]; [exact Hn|].
  fold (add_new (dedup_step key acc x) l). apply IH. unfold dedup_step.
  destruct (mem_str (key x) (map key acc)) eqn:E; [exact Hn|].
  rewrite map_app. cbn. apply mem_str_false in E. apply NoDup_snoc; assumption.
Qed.

Lemma dedup_nodup l : NoDup (map key (dedup_by key l)).
Proof. apply (add_new_nodup [] l). constructor. Qed.

(* adding a list whose keys are pairwise distinct: exactly those not yet present, in order *)
Lemma add_new_filter acc l : NoDup (map key l) ->
  add_new acc l = acc ++ filter (fun x => negb (mem_str (key x) (map key acc))) l.
Proof.
  revert acc. induction l as [|x l IH]; intros acc Hn; cbn [add_new fold_left filter].
  - symmetry. apply app_nil_r.
  - fold (add_new (dedup_step key acc x) l). inversion Hn as [|? ? Hx Hn']; subst.
    rewrite IH by exact Hn'. unfold dedup_step. destruct (mem_str (key x) (map key acc)) eqn:E; cbn [negb].
    + reflexivity.
    + rewrite <- app_assoc. cbn [app]. f_equal. f_equal.
      apply filter_ext_in. intros y Hy. f_equal. rewrite map_app. cbn [map].
      unfold mem_str. rewrite existsb_app. cbn. rewrite orb_false_r.
      replace (key y =? key x)%string with false; [apply orb_false_r|].
      symmetry. apply String.eqb_neq. intros Ek. apply Hx. rewrite <- Ek. apply in_map. exact Hy.
Qed.

Lemma add_new_absorb acc l : (forall x, In x l -> In (key x) (map key acc)) -> add_new acc l = acc.
Proof.
  revert acc. induction l as [|x l IH]; intros acc H; cbn [add_new fold_left]; [reflexivity|].
  fold (add_new (dedup_step key acc x) l). unfold dedup_step.
  assert (E : mem_str (key x) (map key acc) = true) by (apply mem_str_In, H; left; reflexivity).
  rewrite E. apply IH. intros y Hy. apply H. right. exact Hy.
Qed.

Lemma dedup_nodup_id l : NoDup (map key l) -> dedup_by key l = l.
Proof.
  intros Hn. unfold dedup_by. fold (add_new [] l). rewrite add_new_filter by exact Hn. cbn [app map].
  induction l as [|x l IH]; cbn; [reflexivity|]. f_equal. apply IH. inversion Hn; assumption.
Qed.
End Dedup.

(* ---------- lookup ---------- *)
Lemma lookup_app {A} k (l1 l2 : list (string * A)) :
  lookup k (l1 ++ l2) = match lookup k l1 with Some v => Some v | None => lookup k l2 end.
Proof.
  unfold lookup. induction l1 as [|p l1 IH]; cbn; [reflexivity|].
  destruct (fst p =? k)%string; [reflexivity|exact IH].
Qed.

Lemma lookup_in_keys {A} k (l : list (string * A)) : In k (map fst l) -> exists v, lookup k l = Some v.
Proof.
  unfold lookup. induction l as [|p l IH]; cbn; [intros []|].
  intros [E|H].
  - rewrite E, String.eqb_refl. eexists; reflexivity.
  - destruct (fst p =? k)%string; [eexists; reflexivity|apply IH, H].
Qed.

Lemma lookup_none {A} k (l : list (string * A)) : ~ In k (map fst l) -> lookup k l = None.
Proof.
  unfold lookup. induction l as [|p l IH]; cbn; [reflexivity|]. intros H.
  destruct (String.eqb_spec (fst p) k) as [E|N]; [exfalso; apply H; left; exact E|].
  apply IH. intros H'. apply H. right. exact H'.
Qed.

Lemma lookup_nodup_in {A} (l : list (string * A)) c : NoDup (map fst l) -> In c l -> lookup (fst c) l = Some (snd c).
Proof.
  unfold lookup. induction l as [|p l IH]; cbn; [intros _ []|].
  intros Hn [E|H].
  - subst p. rewrite String.eqb_refl. reflexivity.
  - inversion Hn as [|? ? Hp Hn']; subst.
    destruct (String.eqb_spec (fst p) (fst c)) as [E|N].
    + exfalso. apply Hp. rewrite E. apply in_map. exact H.
    + apply IH; assumption.
Qed.

Lemma lookup_map_snd {A B} k (g : string * A -> B) (l : list (string * A)) :
  lookup k (map (fun fv => (fst fv, g fv)) l) =
  match find (fun p => String.eqb (fst p) k) l with Some fv => Some (g fv) | None => None end.
Proof.
  unfold lookup. induction l as [|p l IH]; cbn; [reflexivity|].
  destruct (fst p =? k)%string; [reflexivity|exact IH].
Qed.

(* ================= part 5 ================= *)
Section Proofs.
Variable C : config.

Lemma field_names_cols d : field_names C d = map fst (cols_of C d).
Proof. unfold field_names, cols_of. rewrite map_map. reflexivity. Qed.

(* ---------- ALTER TABLE ADD COLUMN for the missing fields ---------- *)
Lemma add_columns_ok existing new cols :
  case_inj (map fst cols ++ map fst new) -> NoDup (map fst new) ->
  (forall c, In c new -> In (fst c) (map fst cols) -> In (fst c) existing) ->
  add_columns existing new cols = Ok (cols ++ filter (fun c => negb (mem_str (fst c) existing)) new).
Proof.
  revert cols. induction new as [|c rest IH]; intros cols Hci Hnd H3; cbn [add_columns filter].
  - rewrite app_nil_r. reflexivity.
  - inversion Hnd as [|? ? Hc Hnd']; subst.
    destruct (mem_str (fst c) existing) eqn:E; cbn [negb].
    + apply IH; [|exact Hnd'|].
      * eapply case_inj_incl; [|exact Hci]. intros x Hx. apply in_app_or in Hx. apply in_or_app.
        destruct Hx; [left; assumption|right; right; assumption].
      * intros c' Hc'. apply H3. right. exact Hc'.
    + assert (Hm : mem_ident (fst c) (map fst cols) = false).
      { rewrite (mem_ident_str _ (fst c) (map fst cols) Hci).
        - apply mem_str_false. intros Hin. apply mem_str_false in E. apply E. apply H3; [left; reflexivity|exact Hin].
        - apply in_or_app. right. left. reflexivity.
        - apply incl_appl, incl_refl. }
      rewrite Hm. rewrite IH; [rewrite <- app_assoc; reflexivity| |exact Hnd'|].
      * eapply case_inj_incl; [|exact Hci]. intros x Hx. rewrite map_app in Hx. cbn in Hx.
        apply in_app_or in Hx. apply in_or_app. destruct Hx as [Hx|Hx].
        -- apply in_app_or in Hx. destruct Hx as [Hx|[Hx|[]]]; [left; exact Hx|right; left; exact Hx].
        -- right. right. exact Hx.
      * intros c' Hc' Hin. rewrite map_app in Hin. cbn in Hin. apply in_app_or in Hin. destruct Hin as [Hin|[Hin|[]]].
        -- apply H3; [right; exact Hc'|exact Hin].
        -- exfalso. apply Hc. rewrite Hin. apply in_map. exact Hc'.
Qed.

(* ---------- tables given as  map g names  with  t_name (g m) = m ---------- *)
Section Named.
Variable g : string -> table.
Hypothesis g_name : forall m, t_name (g m) = m.

Lemma find_named n names : case_inj (n :: names) ->
  find_table n (map g names) = if mem_str n names then Some (g n) else None.
Proof.
  intros Hci. unfold find_table. induction names as [|m names IH]; cbn [map find mem_str existsb]; [reflexivity|].
  unfold is_table at 1. rewrite g_name.
  rewrite (same_ident_eqb (n :: m :: names) m n Hci) by (cbn; auto).
  rewrite (String.eqb_sym n m). destruct (String.eqb_spec m n) as [E|N]; cbn [orb].
  - subst m. reflexivity.
  - fold (mem_str n names). apply IH. eapply case_inj_incl; [|exact Hci]. intros x [Hx|Hx]; [left; exact Hx|right; right; exact Hx].
Qed.

Lemma update_named n f names : case_inj (n :: names) ->
  update_table n f (map g names) = map (fun m => if String.eqb m n then f (g m) else g m) names.
Proof.
  intros Hci. unfold update_table. rewrite map_map. apply map_ext_in. intros m Hm.
  unfold is_table. rewrite g_name. rewrite (same_ident_eqb (n :: names) m n Hci) by (cbn; auto). reflexivity.
Qed.
End Named.

(* ---------- values ---------- *)
Lemma db_value_storable v : storable v -> exists sv, db_value v = Ok sv.
Proof. destruct v; cbn; intros H; try (eexists; reflexivity). rewrite H. eexists; reflexivity. Qed.

Lemma find_col_exact cols f : case_inj (f :: map fst cols) ->
  find_col f cols = find (fun c => String.eqb (fst c) f) cols.
Proof.
  intros Hci. unfold find_col. induction cols as [|c cols IH]; cbn [find]; [reflexivity|].
  rewrite (same_ident_eqb _ (fst c) f Hci) by (cbn; auto).
  destruct (fst c =? f)%string; [reflexivity|]. apply IH.
  eapply case_inj_incl; [|exact Hci]. intros x [Hx|Hx]; [left; exact Hx|right; right; exact Hx].
Qed.

Lemma build_row_ok cols fvs :
  case_inj (map fst cols) -> (forall fv, In fv fvs -> In (fst fv) (map fst cols)) ->
  Forall storable (map snd fvs) ->
  build_row cols fvs = Ok (map (fun fv => (fst fv, stored (decl_in cols (fst fv)) (snd fv))) fvs).
Proof.
  intros Hci. induction fvs as [|[f v] fvs IH]; intros Hin Hst; cbn [build_row map]; [reflexivity|].
  assert (Hf : In f (map fst cols)) by (apply (Hin (f, v)); left; reflexivity).
  rewrite find_col_exact.
  2:{ eapply case_inj_incl; [|exact Hci]. intros x [Hx|Hx]; [subst; exact Hf|exact Hx]. }
  inversion Hst as [|? ? Hv Hst']; subst. cbn [snd] in Hv. destruct (db_value_storable v Hv) as (sv & Hsv).
  cbn [fst snd]. unfold stored at 1, decl_in at 1, lookup at 1. rewrite Hsv.
  destruct (find (fun c => (fst c =? f)%string) cols) as [c|] eqn:Hfind.
  - cbn [bind]. rewrite IH; [|intros fv Hfv; apply Hin; right; exact Hfv|exact Hst']. cbn [bind].
    apply find_some in Hfind. destruct Hfind as (_ & Hfc). apply String.eqb_eq in Hfc. rewrite Hfc. reflexivity.
  - exfalso. apply in_map_iff in Hf. destruct Hf as (c & Hc1 & Hc2).
    apply find_none with (x := c) in Hfind; [|exact Hc2]. cbn in Hfind. rewrite Hc1, String.eqb_refl in Hfind. discriminate.
Qed.

End Proofs.

(* ================= part 6 ================= *)
Lemma map_self l : map self l = l.
Proof. induction l as [|x l IH]; cbn; [reflexivity|]. unfold self at 1. f_equal. exact IH. Qed.

Lemma in_dedup_self l x : In x (dedup_by self l) <-> In x l.
Proof.
  split.
  - intros Hx. apply (in_map self) in Hx. apply (proj1 (dedup_keys self _ _)) in Hx. rewrite map_self in Hx. exact Hx.
  - intros H. rewrite <- (map_self (dedup_by self l)). apply (proj2 (dedup_keys self _ x)). rewrite map_self. exact H.
Qed.

Lemma map_flat_map {A B D} (f : B -> D) (g : A -> list B) l : map f (flat_map g l) = flat_map (fun x => map f (g x)) l.
Proof. induction l as [|x l IH]; cbn; [reflexivity|]. rewrite map_app, IH. reflexivity. Qed.

Lemma pair_eqb_eq a b : pair_eqb a b = true <-> a = b.
Proof.
  unfold pair_eqb. destruct a as [a1 a2], b as [b1 b2]; cbn. rewrite andb_true_iff, !String.eqb_eq.
  split; [intros [-> ->]; reflexivity|intros H; inversion H; auto].
Qed.
Lemma list_eqb_eq {A} (eqb : A -> A -> bool) : (forall a b, eqb a b = true <-> a = b) ->
  forall l1 l2, list_eqb eqb l1 l2 = true <-> l1 = l2.
Proof.
  intros H. induction l1 as [|x l1 IH]; destruct l2 as [|y l2]; cbn; try (split; [discriminate|discriminate]); [tauto|].
  rewrite andb_true_iff, H, IH. split; [intros [-> ->]; reflexivity|intros E; inversion E; auto].
Qed.
Lemma desc_eqb_eq a b : desc_eqb a b = true <-> a = b.
Proof.
  unfold desc_eqb. rewrite andb_true_iff, String.eqb_eq, (list_eqb_eq pair_eqb pair_eqb_eq).
  destruct a, b; cbn. split; [intros [-> ->]; reflexivity|intros E; inversion E; auto].
Qed.
Lemma seen_In d l : existsb (desc_eqb d) l = true <-> In d l.
Proof.
  rewrite existsb_exists. split.
  - intros (x & Hx & E). apply desc_eqb_eq in E. subst. exact Hx.
  - intros H. exists d. split; [exact H|apply desc_eqb_eq; reflexivity].
Qed.

Section Proofs.
Variable C : config.

(* ---------- histories grow on the right ---------- *)
Lemma descs_of_snoc_w evs r : descs_of (evs ++ [EWrite r]) = descs_of evs ++ [r_desc r].
Proof. unfold descs_of. rewrite writes_app, map_app. reflexivity. Qed.
Lemma writes_snoc_f evs : writes (evs ++ [EFlush]) = writes evs.
Proof. rewrite writes_app. cbn. apply app_nil_r. Qed.
Lemma writes_snoc_r evs : writes (evs ++ [EReopen]) = writes evs.
Proof. rewrite writes_app. cbn. apply app_nil_r. Qed.
Lemma type_names_snoc_w evs r : type_names (evs ++ [EWrite r]) = type_names evs ++ [d_name (r_desc r)].
Proof. unfold type_names. rewrite descs_of_snoc_w, map_app. reflexivity. Qed.
Lemma descs_named_snoc_w n evs r :
  descs_named n (evs ++ [EWrite r]) = descs_named n evs ++ (if String.eqb (d_name (r_desc r)) n then [r_desc r] else []).
Proof. unfold descs_named. rewrite descs_of_snoc_w, filter_app. cbn. destruct (d_name (r_desc r) =? n)%string; reflexivity. Qed.
Lemma records_named_snoc_w n evs r :
  records_named n (evs ++ [EWrite r]) = records_named n evs ++ (if String.eqb (d_name (r_desc r)) n then [r] else []).
Proof. unfold records_named. rewrite writes_app, filter_app. cbn. destruct (d_name (r_desc r) =? n)%string; reflexivity. Qed.

Lemma spec_tables_snoc_f evs : spec_tables C (evs ++ [EFlush]) = spec_tables C evs.
Proof.
  unfold spec_tables, spec_table, type_names, descs_named, records_named, descs_of. rewrite writes_snoc_f. reflexivity.
Qed.

Lemma spec_tables_snoc_r evs : spec_tables C (evs ++ [EReopen]) = spec_tables C evs.
Proof.
  unfold spec_tables, spec_table, type_names, descs_named, records_named, descs_of. rewrite writes_snoc_r. reflexivity.
Qed.

Definition hyps (evs : list event) : Prop :=
  wf_history C evs /\ case_distinct C evs /\ ints_in_range evs /\ no_reserved_names evs.

Lemma hyps_prefix evs e : hyps (evs ++ [e]) -> hyps evs.
Proof.
  intros (Hw & (Hc1 & Hc2) & Hi & Hr). destruct e as [r| |].
  - split; [|split; [split|split]].
    + intros d Hd. apply Hw. rewrite descs_of_snoc_w. apply in_or_app. left. exact Hd.
    + eapply case_inj_incl; [|exact Hc1]. rewrite type_names_snoc_w. apply incl_appl, incl_refl.
    + intros n. eapply case_inj_incl; [|exact (Hc2 n)]. rewrite descs_named_snoc_w, flat_map_app. apply incl_appl, incl_refl.
    + intros r' Hr'. apply Hi. rewrite writes_app. apply in_or_app. left. exact Hr'.
    + intros n Hn. apply Hr. rewrite type_names_snoc_w. apply in_or_app. left. exact Hn.
  - unfold hyps, wf_history, case_distinct, ints_in_range, no_reserved_names, type_names, descs_named, descs_of in *.
    rewrite writes_snoc_f in *. repeat split; assumption.
  - unfold hyps, wf_history, case_distinct, ints_in_range, no_reserved_names, type_names, descs_named, descs_of in *.
    rewrite writes_snoc_r in *. repeat split; assumption.
Qed.

Lemma names_of_cols ds k : In k (map fst (dedup_by fst (flat_map (cols_of C) ds))) <-> In k (flat_map (field_names C) ds).
Proof.
  rewrite dedup_keys, map_flat_map. 
  assert (E : flat_map (fun x => map fst (cols_of C x)) ds = flat_map (field_names C) ds).
  { induction ds as [|d ds IH]; cbn; [reflexivity|]. rewrite IH, field_names_cols. reflexivity. }
  rewrite E. tauto.
Qed.

(* a record's row does not change when columns are appended to a table that has all its fields *)
Lemma raw_row_stable cols extra r : (forall f, In f (field_names C (r_desc r)) -> In f (map fst cols)) ->
  raw_row C (cols ++ extra) r = raw_row C cols r.
Proof.
  intros H. unfold raw_row. apply map_ext_in. intros [f v] Hfv. cbn [fst snd]. f_equal. f_equal.
  unfold decl_in. rewrite lookup_app.
  assert (Hf : In f (map fst cols)). { apply H. unfold field_values in Hfv. apply in_combine_l in Hfv. exact Hfv. }
  destruct (lookup_in_keys f cols Hf) as (dcl & ->). reflexivity.
Qed.

(* ---------- the ALTER TABLE step on named tables ---------- *)
Lemma add_missing_named (g : string -> table) names n d :
  (forall m, t_name (g m) = m) -> d_name d = n -> In n names -> case_inj (n :: names) ->
  case_inj (map fst (t_cols (g n)) ++ field_names C d) -> NoDup (field_names C d) ->
  add_missing_columns C d (map g names) =
  Ok (map (fun m => if String.eqb m n
                    then {| t_name := n; t_cols := add_new fst (t_cols (g n)) (cols_of C d); t_rows := t_rows (g n) |}
                    else g m) names).
Proof.
  intros Hg Hn Hin Hci Hcf Hnd. unfold add_missing_columns. rewrite Hn.
  rewrite (find_named g Hg n names Hci). apply mem_str_In in Hin. rewrite Hin.
  rewrite add_columns_ok.
  - cbn [bind]. rewrite (update_named g Hg n _ names Hci). f_equal. apply map_ext. intros m.
    destruct (String.eqb_spec m n) as [->|]; [|reflexivity]. cbn [t_name t_cols t_rows]. rewrite Hg.
    rewrite add_new_filter; [reflexivity|]. rewrite <- field_names_cols. exact Hnd.
  - rewrite <- field_names_cols. exact Hcf.
  - rewrite <- field_names_cols. exact Hnd.
  - intros c _ H. exact H.
Qed.

(* ---------- the INSERT step on named tables ---------- *)
Lemma insert_named (g : string -> table) names r :
  let n := d_name (r_desc r) in
  (forall m, t_name (g m) = m) -> In n names -> case_inj (n :: names) ->
  case_inj (map fst (t_cols (g n))) ->
  (forall f, In f (field_names C (r_desc r)) -> In f (map fst (t_cols (g n)))) ->
  Forall storable (r_vals r) ->
  insert_record C r (map g names) =
  Ok (map (fun m => if String.eqb m n
                    then {| t_name := n; t_cols := t_cols (g n); t_rows := t_rows (g n) ++ [raw_row C (t_cols (g n)) r] |}
                    else g m) names).
Proof.
  intros n Hg Hin Hci Hcc Hall Hst. unfold insert_record. fold n.
  rewrite (find_named g Hg n names Hci). apply mem_str_In in Hin. rewrite Hin.
  rewrite build_row_ok.
  - cbn [bind]. rewrite (update_named g Hg n _ names Hci). f_equal. apply map_ext. intros m.
    destruct (String.eqb_spec m n) as [->|]; [|reflexivity]. rewrite Hg. reflexivity.
  - exact Hcc.
  - intros [f v] Hfv. apply Hall. unfold field_values in Hfv. apply in_combine_l in Hfv. exact Hfv.
  - clear - Hst. unfold field_values. generalize (field_names C (r_desc r)). induction Hst as [|v vs Hv Hst IH]; intros l.
    + destruct l; constructor.
    + destruct l as [|f l]; cbn; constructor; [exact Hv|apply IH].
Qed.

End Proofs.

(* ================= part 7 ================= *)
Section Proofs.
Variable C : config.

Lemma spec_table_name evs m : t_name (spec_table C evs m) = m.
Proof. reflexivity. Qed.

Lemma names_incl evs : incl (dedup_by self (type_names evs)) (type_names evs).
Proof. intros x Hx. apply (in_map self) in Hx. apply (proj1 (dedup_keys self _ _)) in Hx. rewrite map_self in Hx. exact Hx. Qed.

Lemma in_names evs n : In n (dedup_by self (type_names evs)) <-> In n (type_names evs).
Proof.
  split; [apply names_incl|]. intros H. rewrite <- (map_self (dedup_by self (type_names evs))).
  apply (proj2 (dedup_keys self _ n)). rewrite map_self. exact H.
Qed.

Lemma descs_named_nil n evs : ~ In n (type_names evs) -> descs_named n evs = [] /\ records_named n evs = [].
Proof.
  intros H. unfold descs_named, records_named, type_names, descs_of in *. split.
  - induction (writes evs) as [|r l IH]; cbn; [reflexivity|]. cbn in H.
    destruct (String.eqb_spec (d_name (r_desc r)) n) as [E|N]; [exfalso; apply H; left; exact E|]. apply IH. intros H'. apply H. right. exact H'.
  - induction (writes evs) as [|r l IH]; cbn; [reflexivity|]. cbn in H.
    destruct (String.eqb_spec (d_name (r_desc r)) n) as [E|N]; [exfalso; apply H; left; exact E|]. apply IH. intros H'. apply H. right. exact H'.
Qed.

Lemma records_named_desc n evs r : In r (records_named n evs) -> In (r_desc r) (descs_named n evs).
Proof.
  unfold records_named, descs_named, descs_of. rewrite !filter_In. intros (H1 & H2). split; [apply in_map; exact H1|exact H2].
Qed.

(* one write of the transaction-free semantics produces exactly the declaratively described tables *)
Lemma seq_write_spec evs r sn :
  hyps C (evs ++ [EWrite r]) ->
  (forall d, existsb (desc_eqb d) sn = true -> In d (descs_of evs)) ->
  exists sn', seq_write C (sn, spec_tables C evs) r = Ok (sn', spec_tables C (evs ++ [EWrite r])) /\
              (forall d, existsb (desc_eqb d) sn' = true -> In d (descs_of (evs ++ [EWrite r]))).
Proof.
  intros (Hw & (Hc1 & Hc2) & Hi & Hres) Hsn.
  set (d := r_desc r). set (n := d_name d).
  set (names := dedup_by self (type_names evs)).
  set (ds := descs_named n evs). set (rs := records_named n evs).
  set (names1 := dedup_by self (type_names evs ++ [n])).
  set (T1 := mk_table C n (ds ++ [d]) rs).
  set (g1 := fun m => if String.eqb m n then T1 else spec_table C evs m).
  assert (Hg1 : forall m, t_name (g1 m) = m).
  { intros m. unfold g1. destruct (String.eqb_spec m n) as [->|]; reflexivity. }
  assert (Hn1 : In n names1).
  { unfold names1, n, d. rewrite <- type_names_snoc_w. apply in_names. rewrite type_names_snoc_w. apply in_or_app. right. left. reflexivity. }
  assert (Hci1 : case_inj (n :: names1)).
  { eapply case_inj_incl; [|exact Hc1]. rewrite type_names_snoc_w. intros x [Hx|Hx].
    - subst x. apply in_or_app. right. left. reflexivity.
    - unfold names1, n, d in Hx. rewrite <- type_names_snoc_w in Hx. apply names_incl in Hx. rewrite type_names_snoc_w in Hx. exact Hx. }
  assert (Hci0 : case_inj (n :: names)).
  { eapply case_inj_incl; [|exact Hc1]. rewrite type_names_snoc_w. intros x [Hx|Hx].
    - subst x. apply in_or_app. right. left. reflexivity.
    - apply names_incl in Hx. apply in_or_app. left. exact Hx. }
  assert (Hnd : NoDup (field_names C d)).
  { apply Hw. rewrite descs_of_snoc_w. apply in_or_app. right. left. reflexivity. }
  assert (Hcf : case_inj (flat_map (field_names C) (ds ++ [d]))).
  { pose proof (Hc2 n) as H. rewrite descs_named_snoc_w in H. fold d in H. fold n in H. rewrite String.eqb_refl in H. exact H. }
  assert (Hst : Forall storable (r_vals r)).
  { apply Hi. rewrite writes_app. apply in_or_app. right. left. reflexivity. }
  (* the columns of the table after the schema statements *)
  set (cols0 := dedup_by fst (flat_map (cols_of C) ds)).
  assert (Hcols1 : t_cols T1 = add_new fst cols0 (cols_of C d)).
  { unfold T1, mk_table. cbn [t_cols]. rewrite flat_map_app, dedup_by_app. cbn [flat_map]. rewrite app_nil_r. reflexivity. }
  assert (Hcols1' : t_cols T1 = cols0 ++ filter (fun x => negb (mem_str (fst x) (map fst cols0))) (cols_of C d)).
  { rewrite Hcols1. apply add_new_filter. rewrite <- field_names_cols. exact Hnd. }
  assert (Hall : forall f, In f (field_names C d) -> In f (map fst (t_cols T1))).
  { intros f Hf. unfold T1, mk_table. cbn [t_cols]. apply names_of_cols. rewrite flat_map_app. apply in_or_app. right. cbn. rewrite app_nil_r. exact Hf. }
  assert (Hcc1 : case_inj (map fst (t_cols T1))).
  { eapply case_inj_incl; [|exact Hcf]. intros x Hx. unfold T1, mk_table in Hx. cbn [t_cols] in Hx. apply names_of_cols in Hx. exact Hx. }
  (* old rows keep their shape under the new columns *)
  assert (Hrows : map (raw_row C (t_cols T1)) rs = map (raw_row C cols0) rs).
  { apply map_ext_in. intros r0 Hr0. rewrite Hcols1'. apply raw_row_stable. intros f Hf.
    unfold cols0. apply names_of_cols. apply in_flat_map. exists (r_desc r0). split; [|exact Hf].
    apply records_named_desc. exact Hr0. }
  (* step 1: the tables after the schema statements (or unchanged when the descriptor was seen) are  map g1 names1 *)
  assert (Hstep1 :
    (if existsb (desc_eqb d) sn then Ok (sn, spec_tables C evs)
     else ddl C d (spec_tables C evs) >>= fun t2 => Ok (sn ++ [d], t2)) =
    Ok (if existsb (desc_eqb d) sn then sn else sn ++ [d], map g1 names1)).
  { destruct (mem_str n (type_names evs)) eqn:Hmem.
    - (* a table of that name exists *)
      apply mem_str_In in Hmem.
      assert (Hnames : names1 = names).
      { unfold names1. rewrite dedup_by_app. apply add_new_absorb. intros x [<-|[]]. unfold self at 1. rewrite map_self. apply in_names. exact Hmem. }
      assert (Hn0 : In n names) by (apply in_names; exact Hmem).
      destruct (existsb (desc_eqb d) sn) eqn:Hseen.
      + (* seen: no statement; the description does not change either *)
        f_equal. f_equal. rewrite Hnames. unfold spec_tables. fold names. apply map_ext_in. intros m Hm.
        unfold g1. destruct (String.eqb_spec m n) as [->|]; [|reflexivity].
        unfold spec_table, T1, mk_table. fold ds. fold rs. fold cols0.
        assert (Habs : dedup_by fst (flat_map (cols_of C) (ds ++ [d])) = cols0).
        { rewrite flat_map_app, dedup_by_app. cbn [flat_map]. rewrite app_nil_r. apply add_new_absorb.
          intros c Hc. apply names_of_cols. apply in_flat_map. exists d. split.
          - apply Hsn in Hseen. unfold ds, descs_named. apply filter_In. split; [exact Hseen|apply String.eqb_refl].
          - rewrite field_names_cols. apply in_map. exact Hc. }
        rewrite Habs. reflexivity.
      + (* not seen: CREATE does nothing, ALTER adds the missing columns *)
        unfold ddl, create_table_if_absent. fold n. unfold spec_tables. fold names.
        rewrite (find_named (spec_table C evs) (spec_table_name evs) n names Hci0).
        apply mem_str_In in Hn0. rewrite Hn0. apply mem_str_In in Hn0. cbn [bind].
        rewrite (add_missing_named C (spec_table C evs) names n d (spec_table_name evs) eq_refl Hn0 Hci0).
        * cbn [bind]. f_equal. f_equal. rewrite Hnames. apply map_ext. intros m. unfold g1.
          destruct (String.eqb_spec m n) as [->|]; [|reflexivity].
          unfold spec_table at 1 2. unfold mk_table at 1 2. cbn [t_cols t_rows]. fold ds. fold rs. fold cols0.
          unfold T1 at 1. unfold mk_table. rewrite <- Hrows. unfold T1, mk_table. cbn [t_cols].
          rewrite flat_map_app, dedup_by_app. cbn [flat_map]. rewrite app_nil_r. reflexivity.
        * eapply case_inj_incl; [|exact Hcf]. intros x Hx. rewrite flat_map_app. cbn [flat_map]. rewrite app_nil_r.
          apply in_app_or in Hx. apply in_or_app. destruct Hx as [Hx|Hx]; [left|right; exact Hx].
          unfold spec_table, mk_table in Hx. cbn [t_cols] in Hx. apply names_of_cols in Hx. exact Hx.
        * exact Hnd.
    - (* no table of that name yet *)
      apply mem_str_false in Hmem.
      destruct (descs_named_nil n evs Hmem) as (Hds & Hrs). fold ds in Hds. fold rs in Hrs.
      assert (Hn0 : ~ In n names) by (intros H; apply Hmem; apply in_names; exact H).
      assert (Hnames : names1 = names ++ [n]).
      { unfold names1. rewrite dedup_by_app. fold names. cbn. unfold dedup_step. rewrite map_self. unfold self at 1.
        apply mem_str_false in Hn0. rewrite Hn0. reflexivity. }
      assert (Hseen : existsb (desc_eqb d) sn = false).
      { destruct (existsb (desc_eqb d) sn) eqn:E; [|reflexivity]. exfalso. apply Hsn in E. apply Hmem.
        unfold type_names. apply in_map. exact E. }
      rewrite Hseen.
      assert (HT1 : T1 = {| t_name := n; t_cols := cols_of C d; t_rows := [] |}).
      { unfold T1, mk_table. rewrite Hds, Hrs. cbn [app flat_map map]. rewrite app_nil_r.
        rewrite dedup_nodup_id; [reflexivity|]. rewrite <- field_names_cols. exact Hnd. }
      unfold ddl, create_table_if_absent. fold n. unfold spec_tables. fold names.
      rewrite (find_named (spec_table C evs) (spec_table_name evs) n names Hci0).
      apply mem_str_false in Hn0. rewrite Hn0. apply mem_str_false in Hn0.
      assert (Hrn : reserved_name n = false).
      { apply Hres. rewrite type_names_snoc_w. apply in_or_app. right. left. reflexivity. }
      rewrite Hrn.
      rewrite ident_nodup_ok; [|eapply case_inj_incl; [|exact Hcf]; intros x Hx; rewrite flat_map_app; apply in_or_app; right; cbn; rewrite app_nil_r; exact Hx|exact Hnd].
      cbn [bind].
      assert (Hcreated : map (spec_table C evs) names ++ [{| t_name := n; t_cols := cols_of C d; t_rows := [] |}] = map g1 names1).
      { rewrite Hnames, map_app. cbn [map]. f_equal.
        - apply map_ext_in. intros m Hm. unfold g1. destruct (String.eqb_spec m n) as [->|]; [contradiction|reflexivity].
        - unfold g1. rewrite String.eqb_refl, HT1. reflexivity. }
      rewrite Hcreated.
      rewrite (add_missing_named C g1 names1 n d Hg1 eq_refl Hn1 Hci1).
      * cbn [bind]. f_equal. f_equal. apply map_ext. intros m. destruct (String.eqb_spec m n) as [->|]; [|reflexivity].
        unfold g1. rewrite String.eqb_refl. rewrite HT1. cbn [t_cols t_rows]. f_equal.
        apply add_new_absorb. intros c Hc. apply in_map. exact Hc.
      * unfold g1. rewrite String.eqb_refl. eapply case_inj_incl; [|exact Hcf]. intros x Hx.
        rewrite flat_map_app. apply in_or_app. right. cbn. rewrite app_nil_r.
        apply in_app_or in Hx. destruct Hx as [Hx|Hx]; [|exact Hx].
        rewrite HT1 in Hx. cbn [t_cols] in Hx. rewrite field_names_cols. exact Hx.
      * exact Hnd. }
  (* step 2: the INSERT *)
  exists (if existsb (desc_eqb d) sn then sn else sn ++ [d]). split.
  - unfold seq_write, seq_state. cbv zeta. cbn [fst snd]. fold d. rewrite Hstep1. cbn [bind fst snd].
  pose proof (insert_named C g1 names1 r) as Hins. cbn zeta in Hins. fold d in Hins. fold n in Hins.
  rewrite Hins; clear Hins; try assumption.
  2:{ unfold g1. rewrite String.eqb_refl. exact Hcc1. }
  2:{ unfold g1. rewrite String.eqb_refl. exact Hall. }
  cbn [bind].
    f_equal. f_equal. unfold spec_tables. rewrite type_names_snoc_w. fold d. fold n. fold names1.
    apply map_ext. intros m. unfold g1. destruct (String.eqb_spec m n) as [->|Hmn].
    + rewrite String.eqb_refl. unfold spec_table. rewrite descs_named_snoc_w, records_named_snoc_w. fold d. fold n.
      rewrite String.eqb_refl. fold ds. fold rs. unfold T1, mk_table. cbn [t_cols t_rows]. rewrite map_app. reflexivity.
    + unfold spec_table. rewrite descs_named_snoc_w, records_named_snoc_w. fold d. fold n.
      assert (E : (n =? m)%string = false) by (apply String.eqb_neq; intros E; apply Hmn; symmetry; exact E).
      rewrite E, !app_nil_r. reflexivity.
  - intros d'. rewrite descs_of_snoc_w. fold d. rewrite in_app_iff. cbn [In].
    destruct (existsb (desc_eqb d) sn) eqn:Hseen.
    + intros H. left. apply Hsn. exact H.
    + rewrite existsb_app, orb_true_iff. cbn [existsb]. rewrite orb_false_r, desc_eqb_eq.
      intros [H|H]; [left; apply Hsn; exact H|right; left; symmetry; exact H].
Qed.

End Proofs.

(* ================= part 8 ================= *)
Section Proofs.
Variable C : config.

(* ---------- the transaction-free semantics equals the declarative description ---------- *)
Theorem seq_run_spec evs : hyps C evs ->
  exists sn, seq_run C evs = Ok (sn, spec_tables C evs) /\
             (forall d, existsb (desc_eqb d) sn = true -> In d (descs_of evs)).
Proof.
  induction evs as [|e evs IH] using rev_ind; intros H.
  - exists []. split; [reflexivity|]. intros d. cbn. discriminate.
  - destruct (IH (hyps_prefix C evs e H)) as (sn & Hrun & Hsn). rewrite seq_run_snoc, Hrun. cbn [bind].
    destruct e as [r| |]; cbn [seq_step].
    + destruct (seq_write_spec C evs r sn H Hsn) as (sn' & Hw & Hsn'). exists sn'. split; assumption.
    + exists sn. rewrite spec_tables_snoc_f. split; [reflexivity|].
      intros d Hd. unfold descs_of. rewrite writes_snoc_f. apply Hsn. exact Hd.
    + exists []. cbn [snd]. rewrite spec_tables_snoc_r. split; [reflexivity|]. intros d. cbn. discriminate.
Qed.

Corollary content_spec evs : hyps C evs -> content C evs = Ok (spec_tables C evs).
Proof. intros H. destruct (seq_run_spec evs H) as (sn & Hrun & _). unfold content. rewrite Hrun. reflexivity. Qed.

(* ---------- what a reader of the tables sees ---------- *)
Lemma cell_raw_row cols r c : NoDup (map fst cols) -> In c cols ->
  cell (raw_row C cols r) c =
  match lookup (fst c) (field_values C r) with Some v => stored (snd c) v | None => SNull end.
Proof.
  intros Hn Hc. unfold cell, raw_row. rewrite lookup_map_snd. unfold lookup.
  destruct (find (fun p => (fst p =? fst c)%string) (field_values C r)) as [fv|] eqn:Hf; [|reflexivity].
  apply find_some in Hf. destruct Hf as (_ & E). apply String.eqb_eq in E. rewrite E.
  unfold decl_in. rewrite (lookup_nodup_in cols c Hn Hc). reflexivity.
Qed.

Lemma observe_spec evs : observe (spec_tables C evs) = spec_db C evs.
Proof.
  unfold observe, spec_tables, spec_db. rewrite map_map. apply map_ext. intros n.
  unfold spec_table, mk_table, spec_cols, select_all. cbn [t_name t_cols t_rows].
  f_equal. rewrite map_map. apply map_ext. intros r. unfold spec_row. apply map_ext_in. intros c Hc.
  apply cell_raw_row; [apply dedup_nodup|exact Hc].
Qed.

(* ---------- close ---------- *)

Theorem final_db_content b evs : b <> 0%N -> final_db C b evs = content C evs.
Proof.
  intros Hb. pose proof (run_inv C b evs Hb) as H. unfold final_db, finish, content.
  destruct (seq_run C evs) as [st|e].
  - destruct H as (w & E & G & _). rewrite E. cbn [bind].
    destruct (close_good C w (snd st) G) as (w' & E' & V & _). rewrite E'. cbn [bind]. rewrite V. reflexivity.
  - rewrite H. reflexivity.
Qed.

Theorem batch_independent b1 b2 evs : b1 <> 0%N -> b2 <> 0%N -> final_db C b1 evs = final_db C b2 evs.
Proof. intros H1 H2. rewrite !final_db_content by assumption. reflexivity. Qed.

Theorem close_commits_all b evs w : b <> 0%N -> finish C b evs = Ok w ->
  Ok (visible w) = content C evs /\ w_open w = false /\ c_pending (w_con w) = [] /\ c_in_tx (w_con w) = false.
Proof.
  intros Hb Hf. pose proof (run_inv C b evs Hb) as H. unfold finish, content in *.
  destruct (seq_run C evs) as [st|e].
  - destruct H as (w0 & E & G & _). rewrite E in Hf. cbn [bind] in Hf.
    destruct (close_good C w0 (snd st) G) as (w' & E' & V & R1 & R2 & R3 & _). rewrite E' in Hf. inversion Hf; subst w'.
    cbn [bind]. rewrite V. auto.
  - rewrite H in Hf. discriminate.
Qed.

Theorem commit_points b evs w : b <> 0%N -> run C b evs = Ok w ->
  last_commit b evs <= List.length evs /\
  exists tc, content C (firstn (last_commit b evs) evs) = Ok tc /\ forall name, raw_rows (visible w) name = raw_rows tc name.
Proof.
  intros Hb Hr. pose proof (run_inv C b evs Hb) as H. destruct (seq_run C evs) as [st|e].
  - destruct H as (w0 & E & P). rewrite E in Hr. inversion Hr; subst w0.
    destruct P as (_ & _ & _ & _ & _ & _ & Hle & Hex). split; assumption.
  - rewrite H in Hr. discriminate.
Qed.

Theorem no_error b evs : b <> 0%N -> hyps C evs -> exists w, run C b evs = Ok w /\ final_db C b evs = Ok (spec_tables C evs).
Proof.
  intros Hb H. pose proof (run_inv C b evs Hb) as R. destruct (seq_run_spec evs H) as (sn & Hs & _). rewrite Hs in R.
  destruct R as (w & E & _). exists w. split; [exact E|]. rewrite final_db_content by exact Hb. apply content_spec. exact H.
Qed.

Theorem final_observed b evs : b <> 0%N -> hyps C evs ->
  exists ts, final_db C b evs = Ok ts /\ observe ts = spec_db C evs.
Proof.
  intros Hb H. destruct (no_error b evs Hb H) as (_ & _ & E). exists (spec_tables C evs). split; [exact E|apply observe_spec].
Qed.

End Proofs.

(* ================= part 9 ================= *)
Lemma case_injb_sound l : case_injb l = true -> case_inj l.
Proof.
  unfold case_injb. intros H a b Ha Hb E. cbv zeta in H. rewrite forallb_forall in H.
  specialize (H a (proj2 (in_dedup_self l a) Ha)).
  rewrite forallb_forall in H. specialize (H b (proj2 (in_dedup_self l b) Hb)). unfold same_ident in H. rewrite E, String.eqb_refl in H.
  cbn in H. apply String.eqb_eq. exact H.
Qed.

Lemma nodupb_sound l : nodupb l = true -> NoDup l.
Proof.
  induction l as [|x l IH]; cbn; intros H; [constructor|]. apply andb_true_iff in H. destruct H as (H1 & H2).
  constructor; [|apply IH, H2]. apply mem_str_false. destruct (mem_str x l); [discriminate|reflexivity].
Qed.

Section Proofs.
Variable C : config.

Lemma wf_historyb_sound evs : wf_historyb C evs = true -> wf_history C evs.
Proof. unfold wf_historyb, wf_history. rewrite forallb_forall. intros H d Hd. apply nodupb_sound, H, Hd. Qed.

Lemma case_distinctb_sound evs : case_distinctb C evs = true -> case_distinct C evs.
Proof.
  unfold case_distinctb, case_distinct. rewrite andb_true_iff, forallb_forall. intros (H1 & H2). split.
  - apply case_injb_sound, H1.
  - intros n. destruct (mem_str n (type_names evs)) eqn:E.
    + apply mem_str_In in E. apply case_injb_sound, H2, in_dedup_self, E.
    + apply mem_str_false in E. destruct (descs_named_nil n evs E) as (-> & _). intros a b [].
Qed.

Lemma ints_in_rangeb_sound evs : ints_in_rangeb evs = true -> ints_in_range evs.
Proof.
  unfold ints_in_rangeb, ints_in_range. rewrite forallb_forall. intros H r Hr. specialize (H r Hr).
  rewrite forallb_forall in H. apply Forall_forall. intros v Hv. specialize (H v Hv). destruct v; cbn in *; auto.
Qed.

(* ---------- per-table readings of the declarative description ---------- *)
Lemma spec_db_tables evs ts : observe ts = spec_db C evs ->
  map t_name ts = dedup_by self (type_names evs) /\
  (forall t, In t ts -> t_cols t = spec_cols C (t_name t) evs /\
                         select_all t = map (spec_row C (t_cols t)) (records_named (t_name t) evs)).
Proof.
  unfold observe, spec_db. generalize (dedup_by self (type_names evs)) as names. 
  induction ts as [|t ts IH]; intros [|n names] H; cbn in H; try discriminate.
  - split; [reflexivity|intros t []].
  - inversion H as [[Hn Hc Hr Hrest]]. destruct (IH names Hrest) as (IH1 & IH2). split.
    + cbn. rewrite IH1. reflexivity.
    + intros t' [<-|Ht']; [|apply IH2, Ht']. rewrite Hc. split; [reflexivity|]. rewrite Hr, <- Hc. reflexivity.
Qed.

(* ---------- values: what comes back for a value of each kind ---------- *)
Lemma back_none ty : 
  (let ft := ftype_of C (decl_of C ty) in existsb (String.eqb ft) ["varint"; "bytes"; "float"; "datetime"; "string"]%string = true) ->
  expected_back C ty PNone = Some PNone.
Proof.
  cbn zeta. unfold expected_back, read_cell. cbn [db_value store_cell].
  assert (E : forall a, store_cell a SNull = SNull) by (intros []; reflexivity). rewrite E.
  cbn [existsb]. 
  destruct (String.eqb_spec (ftype_of C (decl_of C ty)) "varint"); [reflexivity|].
  destruct (String.eqb_spec (ftype_of C (decl_of C ty)) "bytes"); [reflexivity|].
  destruct (String.eqb_spec (ftype_of C (decl_of C ty)) "float"); [reflexivity|].
  destruct (String.eqb_spec (ftype_of C (decl_of C ty)) "datetime"); [reflexivity|].
  destruct (String.eqb_spec (ftype_of C (decl_of C ty)) "string"); [reflexivity|]. cbn. discriminate.
Qed.

Lemma back_text ty s : affinity_of (decl_of C ty) = AffText -> ftype_of C (decl_of C ty) = "string"%string ->
  expected_back C ty (PText s) = Some (PText s) /\ affinity_exact AffText (SText s) = true.
Proof. intros Ha Hf. unfold expected_back, read_cell. cbn [db_value]. rewrite Ha, Hf. split; reflexivity. Qed.

Lemma back_other ty t : affinity_of (decl_of C ty) = AffText -> ftype_of C (decl_of C ty) = "string"%string ->
  expected_back C ty (POther t) = Some (PText t).
Proof. intros Ha Hf. unfold expected_back, read_cell. cbn [db_value]. rewrite Ha, Hf. reflexivity. Qed.

Lemma back_int ty z : affinity_of (decl_of C ty) = AffInteger -> ftype_of C (decl_of C ty) = "varint"%string ->
  int64_ok z = true -> expected_back C ty (PInt z) = Some (PInt z) /\ affinity_exact AffInteger (SInt z) = true.
Proof. intros Ha Hf Hz. unfold expected_back, read_cell. cbn [db_value]. rewrite Hz, Ha, Hf. split; reflexivity. Qed.

Lemma back_int_as_text ty z : affinity_of (decl_of C ty) = AffText -> ftype_of C (decl_of C ty) = "string"%string ->
  int64_ok z = true -> expected_back C ty (PInt z) = Some (PText (dec z)).
Proof. intros Ha Hf Hz. unfold expected_back, read_cell. cbn [db_value]. rewrite Hz, Ha, Hf. reflexivity. Qed.

Lemma back_bool ty b : affinity_of (decl_of C ty) = AffInteger -> ftype_of C (decl_of C ty) = "varint"%string ->
  expected_back C ty (PBool b) = Some (PInt (if b then 1 else 0)%Z).
Proof. intros Ha Hf. unfold expected_back, read_cell. cbn [db_value]. rewrite Ha, Hf. reflexivity. Qed.

Lemma finite_not_nan bits : is_finite bits = true -> is_nan bits = false.
Proof.
  unfold is_finite, is_nan. intros H. apply andb_true_iff in H. destruct H as (_ & H).
  destruct (exp_bits bits =? 2047)%N; [discriminate|reflexivity].
Qed.

Lemma back_float ty bits : affinity_of (decl_of C ty) = AffReal -> ftype_of C (decl_of C ty) = "float"%string ->
  is_finite bits = true ->
  expected_back C ty (PFloat bits) = Some (PFloat (if (bits =? neg_zero)%N then 0%N else bits)).
Proof.
  intros Ha Hf Hb. unfold expected_back, read_cell. cbn [db_value]. rewrite (finite_not_nan bits Hb), Ha, Hf.
  cbn [store_cell]. destruct (bits =? neg_zero)%N; reflexivity.
Qed.

Lemma back_bytes ty b : affinity_of (decl_of C ty) = AffBlob -> ftype_of C (decl_of C ty) = "bytes"%string ->
  expected_back C ty (PBytes b) = Some (PBytes b).
Proof. intros Ha Hf. unfold expected_back, read_cell. cbn [db_value]. rewrite Ha, Hf. reflexivity. Qed.

Lemma back_time ty iso : affinity_of (decl_of C ty) = AffNumeric -> ftype_of C (decl_of C ty) = "datetime"%string ->
  maybe_numeric iso = false ->
  expected_back C ty (PTime iso) = Some (PTime iso) /\ affinity_exact AffNumeric (SText iso) = true.
Proof. intros Ha Hf Hn. unfold expected_back, read_cell. cbn [db_value]. rewrite Ha, Hf. cbn. rewrite Hn. split; reflexivity. Qed.

(* isoformat() always contains a ':' -- such a text is never numeric *)
Lemma colon_not_numeric s : In ":"%char (list_ascii_of_string s) -> maybe_numeric s = false.
Proof.
  induction s as [|c s IH]; cbn; [intros []|]. intros [E|H].
  - subst c. reflexivity.
  - rewrite (IH H). apply andb_false_r.
Qed.

End Proofs.

(* ================= part 10 ================= *)
Lemma session_snoc evs e : session (evs ++ [e]) = session_step (session evs) e.
Proof. unfold session. rewrite fold_left_app. reflexivity. Qed.

Lemma scan_facts b evs :
  sc_pos (scan_all b evs) = List.length evs /\ sc_cnt (scan_all b evs) = n_writes (session evs) /\
  (forall d, existsb (desc_eqb d) (sc_seen (scan_all b evs)) = true <-> In d (descs_of (session evs))) /\
  sc_lc (scan_all b evs) <= List.length evs.
Proof.
  induction evs as [|e evs IH] using rev_ind.
  - cbn. split; [reflexivity|]. split; [reflexivity|]. split; [|lia]. intros d. split; [discriminate|intros []].
  - destruct IH as (Hp & Hc & Hs & Hl). rewrite scan_snoc, session_snoc, app_length. cbn [List.length].
    destruct e as [r| |]; cbn [scan_step session_step sc_pos sc_cnt sc_seen sc_lc].
    + rewrite Hp, Hc, n_writes_snoc_w. split; [lia|]. split; [reflexivity|]. split.
      * intros d. rewrite descs_of_snoc_w, in_app_iff. cbn [In].
        destruct (existsb (desc_eqb (r_desc r)) (sc_seen (scan_all b evs))) eqn:E; cbn [negb].
        -- rewrite Hs. apply Hs in E. split; [auto|intros [H|[<-|[]]]; assumption].
        -- rewrite existsb_app, orb_true_iff, Hs. cbn [existsb]. rewrite orb_false_r, desc_eqb_eq.
           split; [intros [H|H]; [left; exact H|right; left; symmetry; exact H]
                  |intros [H|[H|[]]]; [left; exact H|right; symmetry; exact H]].
      * destruct (((n_writes (session evs) + 1) mod b) =? 0)%N; [lia|].
        destruct (negb (existsb (desc_eqb (r_desc r)) (sc_seen (scan_all b evs)))); lia.
    + rewrite Hp, Hc, n_writes_snoc_f. split; [lia|]. split; [reflexivity|]. split; [|lia].
      intros d. rewrite Hs. unfold descs_of. rewrite writes_snoc_f. tauto.
    + rewrite Hp. split; [lia|]. split; [reflexivity|]. split; [|lia].
      intros d. cbn. split; [discriminate|intros []].
Qed.

Lemma nth_error_snoc_lt {A} (l : list A) x c : c < List.length l -> nth_error (l ++ [x]) c = nth_error l c.
Proof. intros H. apply nth_error_app1. exact H. Qed.
Lemma nth_error_snoc_eq {A} (l : list A) x : nth_error (l ++ [x]) (List.length l) = Some x.
Proof. rewrite nth_error_app2 by lia. rewrite Nat.sub_diag. reflexivity. Qed.
Lemma nth_error_len {A} (l : list A) : nth_error l (List.length l) = None.
Proof. apply nth_error_None. lia. Qed.

Lemma cp_snoc_le b evs e c : c <= List.length evs ->
  (is_commit_point b (evs ++ [e]) c <->
   is_commit_point b evs c \/
   (c = List.length evs /\ exists r, e = EWrite r /\ ~ In (r_desc r) (descs_of (session evs)))).
Proof.
  intros Hc. unfold is_commit_point. rewrite (firstn_snoc_le c evs e Hc).
  split.
  - intros [H|[(c' & -> & H)|[(c' & r & -> & H1 & H2)|(r & H1 & H2)]]].
    + left. left. exact H.
    + left. right. left. exists c'. split; [reflexivity|]. rewrite !nth_error_snoc_lt in H by lia. exact H.
    + left. right. right. left. exists c', r. split; [reflexivity|]. rewrite nth_error_snoc_lt in H1 by lia. split; assumption.
    + destruct (Nat.eq_dec c (List.length evs)) as [->|Hne].
      * right. split; [reflexivity|]. rewrite nth_error_snoc_eq in H1. inversion H1; subst e. exists r. split; [reflexivity|].
        rewrite firstn_all in H2. exact H2.
      * left. right. right. right. exists r. rewrite nth_error_snoc_lt in H1 by lia. split; assumption.
  - intros [[H|[(c' & -> & H)|[(c' & r & -> & H1 & H2)|(r & H1 & H2)]]]|(-> & r & -> & H)].
    + left. exact H.
    + right. left. exists c'. split; [reflexivity|]. rewrite !nth_error_snoc_lt by lia. exact H.
    + right. right. left. exists c', r. split; [reflexivity|]. rewrite nth_error_snoc_lt by lia. split; assumption.
    + right. right. right. exists r. split; [|exact H2].
      assert (c < List.length evs). { apply nth_error_Some. rewrite H1. discriminate. }
      rewrite nth_error_snoc_lt by lia. exact H1.
    + right. right. right. exists r. rewrite nth_error_snoc_eq, firstn_all. split; [reflexivity|exact H].
Qed.

Lemma cp_snoc_last b evs e :
  is_commit_point b (evs ++ [e]) (S (List.length evs)) <->
  e = EFlush \/ e = EReopen \/ exists r, e = EWrite r /\ ((n_writes (session evs) + 1) mod b = 0)%N.
Proof.
  unfold is_commit_point. rewrite firstn_snoc_all. split.
  - intros [H|[(c' & Hc & H)|[(c' & r & Hc & H1 & H2)|(r & H1 & H2)]]].
    + discriminate.
    + inversion Hc; subst c'. rewrite !nth_error_snoc_eq in H. destruct H as [H|H]; inversion H; auto.
    + inversion Hc; subst c'. rewrite nth_error_snoc_eq in H1. inversion H1; subst e. right. right. exists r. split; [reflexivity|].
      rewrite session_snoc in H2. cbn [session_step] in H2. rewrite n_writes_snoc_w in H2. exact H2.
    + exfalso. assert (E : nth_error (evs ++ [e]) (S (List.length evs)) = None).
      { apply nth_error_None. rewrite app_length. cbn. lia. }
      rewrite E in H1. discriminate.
  - intros [->|[->|(r & -> & H)]].
    + right. left. exists (List.length evs). split; [reflexivity|]. left. apply nth_error_snoc_eq.
    + right. left. exists (List.length evs). split; [reflexivity|]. right. apply nth_error_snoc_eq.
    + right. right. left. exists (List.length evs), r. split; [reflexivity|]. split; [apply nth_error_snoc_eq|].
      rewrite session_snoc. cbn [session_step]. rewrite n_writes_snoc_w. exact H.
Qed.

(* the scanned position is the LAST commit point of the history *)
Theorem last_commit_greatest b evs :
  is_commit_point b evs (last_commit b evs) /\
  forall c, last_commit b evs < c <= List.length evs -> ~ is_commit_point b evs c.
Proof.
  unfold last_commit. induction evs as [|e evs IH] using rev_ind.
  - cbn. split; [left; reflexivity|]. intros c Hc. lia.
  - destruct IH as (IH1 & IH2). destruct (scan_facts b evs) as (Hp & Hc & Hs & Hl).
    rewrite scan_snoc, app_length. cbn [List.length]. replace (List.length evs + 1) with (S (List.length evs)) by lia.
    destruct e as [r| |]; cbn [scan_step sc_lc].
    + rewrite Hp, Hc. destruct (((n_writes (session evs) + 1) mod b) =? 0)%N eqn:Ef.
      * apply N.eqb_eq in Ef. split.
        -- apply cp_snoc_last. right. right. exists r. split; [reflexivity|exact Ef].
        -- intros c Hcc. lia.
      * apply N.eqb_neq in Ef.
        assert (Hlast : ~ is_commit_point b (evs ++ [EWrite r]) (S (List.length evs))).
        { intros H. apply cp_snoc_last in H. destruct H as [H|[H|(r' & _ & H)]]; [discriminate|discriminate|contradiction]. }
        destruct (existsb (desc_eqb (r_desc r)) (sc_seen (scan_all b evs))) eqn:Es; cbn [negb].
        -- assert (Hin : In (r_desc r) (descs_of (session evs))) by (apply Hs; exact Es). split.
           ++ apply cp_snoc_le; [exact Hl|]. left. exact IH1.
           ++ intros c Hcc. destruct (Nat.eq_dec c (S (List.length evs))) as [->|Hne]; [exact Hlast|].
              intros H. apply cp_snoc_le in H; [|lia]. destruct H as [H|(_ & r' & E & H)].
              ** apply (IH2 c); [lia|exact H].
              ** inversion E; subst r'. contradiction.
        -- assert (Hnin : ~ In (r_desc r) (descs_of (session evs))).
           { intros H. apply Hs in H. rewrite H in Es. discriminate. }
           split.
           ++ apply cp_snoc_le; [lia|]. right. split; [reflexivity|]. exists r. split; [reflexivity|exact Hnin].
           ++ intros c Hcc. assert (c = S (List.length evs)) as -> by lia. exact Hlast.
    + rewrite Hp. split.
      * apply cp_snoc_last. left. reflexivity.
      * intros c Hcc. lia.
    + rewrite Hp. split.
      * apply cp_snoc_last. right. left. reflexivity.
      * intros c Hcc. lia.
Qed.

(* ================= part 11 ================= *)
Lemma alphabet_excludes (alphabet : list ascii) (c : ascii) :
  existsb (Ascii.eqb c) alphabet = false ->
  forall s, forallb (fun x => existsb (Ascii.eqb x) alphabet) (list_ascii_of_string s) = true ->
  ~ In c (list_ascii_of_string s).
Proof.
  intros Hc s Hs Hin. rewrite forallb_forall in Hs. specialize (Hs c Hin). rewrite Hs in Hc. discriminate.
Qed.

Section Proofs.
Variable C : config.

Lemma code_refines cd : cd = canonical_code ->
  (forall b, code_init C cd b = init C b) /\
  (forall w r, code_write_fn C cd w r = write C w r) /\
  (forall w, code_tx C cd w = tx_cycle C w) /\
  (forall w, code_flush_fn C cd w = flush C w) /\
  (forall w, code_close_fn C cd w = close C w) /\
  (forall w, code_reopen C cd w = reopen C w).
Proof.
  intros ->. split; [apply code_init_refines|]. split; [apply code_write_refines|]. split; [apply code_tx_refines|].
  split; [apply code_flush_refines|]. split; [apply code_close_refines|apply code_reopen_refines].
Qed.

Lemma no_reserved_namesb_sound evs : no_reserved_namesb evs = true -> no_reserved_names evs.
Proof.
  unfold no_reserved_namesb, no_reserved_names. rewrite forallb_forall. intros H n Hn. specialize (H n Hn).
  destruct (reserved_name n); [discriminate|reflexivity].
Qed.

Lemma hypsb_sound evs : hypsb C evs = true ->
  wf_history C evs /\ case_distinct C evs /\ ints_in_range evs /\ no_reserved_names evs.
Proof.
  unfold hypsb. rewrite !andb_true_iff. intros (((H1 & H2) & H3) & H4).
  split; [apply wf_historyb_sound, H1|]. split; [apply case_distinctb_sound, H2|].
  split; [apply ints_in_rangeb_sound, H3|apply no_reserved_namesb_sound, H4].
Qed.

Lemma hypsb_sound_wf_ints evs : wf_historyb C evs && ints_in_rangeb evs = true -> wf_history C evs /\ ints_in_range evs.
Proof. rewrite andb_true_iff. intros (H1 & H2). split; [apply wf_historyb_sound, H1|apply ints_in_rangeb_sound, H2]. Qed.

Theorem every_write_succeeds b evs : b <> 0%N ->
  wf_history C evs -> case_distinct C evs -> ints_in_range evs -> no_reserved_names evs ->
  exists w, run C b evs = Ok w /\ final_db C b evs = Ok (spec_tables C evs).
Proof. intros Hb H1 H2 H3 H4. apply no_error; [exact Hb|]. exact (conj H1 (conj H2 (conj H3 H4))). Qed.

Theorem tables_and_columns b evs : b <> 0%N ->
  wf_history C evs -> case_distinct C evs -> ints_in_range evs -> no_reserved_names evs ->
  exists ts, final_db C b evs = Ok ts /\
    map t_name ts = dedup_by self (type_names evs) /\
    forall t, In t ts -> t_cols t = spec_cols C (t_name t) evs.
Proof.
  intros Hb H1 H2 H3 H4. destruct (final_observed C b evs Hb (conj H1 (conj H2 (conj H3 H4)))) as (ts & E & O).
  exists ts. split; [exact E|]. destruct (spec_db_tables C evs ts O) as (Hn & Ht). split; [exact Hn|].
  intros t Hin. apply Ht, Hin.
Qed.

Theorem rows_in_order b evs : b <> 0%N ->
  wf_history C evs -> case_distinct C evs -> ints_in_range evs -> no_reserved_names evs ->
  exists ts, final_db C b evs = Ok ts /\
    forall t, In t ts -> select_all t = map (spec_row C (t_cols t)) (records_named (t_name t) evs).
Proof.
  intros Hb H1 H2 H3 H4. destruct (final_observed C b evs Hb (conj H1 (conj H2 (conj H3 H4)))) as (ts & E & O).
  exists ts. split; [exact E|]. destruct (spec_db_tables C evs ts O) as (_ & Ht). intros t Hin. apply Ht, Hin.
Qed.

(* reading the database back: every table is read, with as many records as were written of that type *)
Theorem read_back_counts b evs : b <> 0%N ->
  wf_history C evs -> case_distinct C evs -> ints_in_range evs -> no_reserved_names evs ->
  exists ts, final_db C b evs = Ok ts /\
    map fst (read_db C ts) = dedup_by self (type_names evs) /\
    forall t, In t ts -> List.length (read_table C t) = List.length (records_named (t_name t) evs).
Proof.
  intros Hb H1 H2 H3 H4. destruct (final_observed C b evs Hb (conj H1 (conj H2 (conj H3 H4)))) as (ts & E & O).
  exists ts. split; [exact E|]. destruct (spec_db_tables C evs ts O) as (Hn & Ht). split.
  - unfold read_db. rewrite map_map. cbn [fst]. exact Hn.
  - intros t Hin. unfold read_table. rewrite map_length. destruct (Ht t Hin) as (_ & ->). apply map_length.
Qed.

Theorem other_connection b evs w : b <> 0%N -> run C b evs = Ok w ->
  let c := last_commit b evs in
  c <= List.length evs /\
  (exists tc, content C (firstn c evs) = Ok tc /\ forall name, raw_rows (visible w) name = raw_rows tc name) /\
  is_commit_point b evs c /\
  (forall c', c < c' <= List.length evs -> ~ is_commit_point b evs c').
Proof.
  intros Hb Hr. cbn zeta. destruct (commit_points C b evs w Hb Hr) as (H1 & H2).
  destruct (last_commit_greatest b evs) as (H3 & H4). repeat split; assumption.
Qed.

Lemma maps_as_true ty a back : maps_as C ty a back = true -> affinity_of (decl_of C ty) = a /\ ftype_of C (decl_of C ty) = back.
Proof.
  unfold maps_as. rewrite andb_true_iff, String.eqb_eq. intros (H1 & H2). split; [|exact H2].
  destruct (affinity_of (decl_of C ty)), a; cbn in H1; try discriminate; reflexivity.
Qed.

Theorem value_fidelity : value_side_ok C = true ->
  (forall s, expected_back C "string" (PText s) = Some (PText s)) /\
  (forall ty z, In ty int_types -> int64_ok z = true -> expected_back C ty (PInt z) = Some (PInt z)) /\
  (forall bits, is_finite bits = true ->
     expected_back C "float" (PFloat bits) = Some (PFloat (if (bits =? neg_zero)%N then 0%N else bits))) /\
  (forall b, expected_back C "bytes" (PBytes b) = Some (PBytes b)) /\
  (forall iso, In ":"%char (list_ascii_of_string iso) -> expected_back C "datetime" (PTime iso) = Some (PTime iso)) /\
  (forall ty, In ty ("string" :: "boolean" :: "float" :: "bytes" :: "datetime" :: int_types)%string ->
     expected_back C ty PNone = Some PNone) /\
  (forall b, expected_back C "boolean" (PBool b) = Some (PInt (if b then 1 else 0)%Z)) /\
  (forall ty txt, lookup ty (cfg_field_map C) = None -> expected_back C ty (POther txt) = Some (PText txt)) /\
  (forall ty z, lookup ty (cfg_field_map C) = None -> int64_ok z = true -> expected_back C ty (PInt z) = Some (PText (dec z))).
Proof.
  unfold value_side_ok. rewrite !andb_true_iff, forallb_forall, String.eqb_eq.
  intros ((((((Hs & Hi) & Hbo) & Hf) & Hby) & Hd) & Ht).
  destruct (maps_as_true _ _ _ Hs) as (Hs1 & Hs2). destruct (maps_as_true _ _ _ Hbo) as (Hbo1 & Hbo2).
  destruct (maps_as_true _ _ _ Hf) as (Hf1 & Hf2). destruct (maps_as_true _ _ _ Hby) as (Hby1 & Hby2).
  destruct (maps_as_true _ _ _ Hd) as (Hd1 & Hd2).
  assert (Hunm : forall ty, lookup ty (cfg_field_map C) = None ->
            affinity_of (decl_of C ty) = AffText /\ ftype_of C (decl_of C ty) = "string"%string).
  { intros ty Hl. unfold decl_of. rewrite Hl. split; [reflexivity|exact Ht]. }
  split; [intros s; apply (back_text C "string" s Hs1 Hs2)|].
  split. { intros ty z Hty Hz. destruct (maps_as_true _ _ _ (Hi ty Hty)) as (A & B). apply (back_int C ty z A B Hz). }
  split; [intros bits Hb; apply (back_float C "float" bits Hf1 Hf2 Hb)|].
  split; [intros b; apply (back_bytes C "bytes" b Hby1 Hby2)|].
  split. { intros iso Hc. apply (back_time C "datetime" iso Hd1 Hd2). apply colon_not_numeric. exact Hc. }
  split.
  { intros ty Hty. apply back_none. cbn zeta.
    assert (E : ftype_of C (decl_of C ty) = "string"%string \/ ftype_of C (decl_of C ty) = "varint"%string \/
                ftype_of C (decl_of C ty) = "float"%string \/ ftype_of C (decl_of C ty) = "bytes"%string \/
                ftype_of C (decl_of C ty) = "datetime"%string).
    { cbn [In] in Hty. destruct Hty as [<-|[<-|[<-|[<-|[<-|Hty]]]]]; auto.
      destruct (maps_as_true _ _ _ (Hi ty Hty)) as (_ & B). auto. }
    destruct E as [->|[->|[->|[->| ->]]]]; reflexivity. }
  split; [intros b; apply (back_bool C "boolean" b Hbo1 Hbo2)|].
  split.
  - intros ty txt Hl. destruct (Hunm ty Hl) as (A & B). apply (back_other C ty txt A B).
  - intros ty z Hl Hz. destruct (Hunm ty Hl) as (A & B). apply (back_int_as_text C ty z A B Hz).
Qed.

End Proofs.

