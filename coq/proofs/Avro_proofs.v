(* Proofs about model/Avro.v instantiated with the GENERATED facts (gen/Gen_avro.v):
   the descriptor JSON parses back, the doc-detection condition, field-less descriptors, one field / one record
   under the unions descriptor_to_schema builds, the writer's state machine, whole sessions. *)
From Coq Require Import List Bool String Ascii ZArith NArith Lia ZifyBool.
Import ListNotations.
From FR Require Import Avro Gen_avro.
Open Scope list_scope.
Open Scope string_scope.

(* ------------------------------------------------------------------------------------------ *)
(* strings *)

Lemma sapp_assoc (a b c : string) : (a ++ b) ++ c = a ++ (b ++ c).
Proof. induction a as [|x a IH]; cbn; [reflexivity|]. now rewrite IH. Qed.

Lemma sapp_nil_r (a : string) : a ++ "" = a.
Proof. induction a as [|x a IH]; cbn; [reflexivity|]. now rewrite IH. Qed.

Lemma slen_app (a b : string) : String.length (a ++ b) = String.length a + String.length b.
Proof. induction a as [|x a IH]; cbn; [reflexivity|]. now rewrite IH. Qed.

Lemma drop_prefix_app p r : drop_prefix p (p ++ r) = Some r.
Proof. induction p as [|a p IH]; cbn; [reflexivity|]. now rewrite Ascii.eqb_refl. Qed.

Lemma starts_with_app p r : starts_with p (p ++ r) = true.
Proof. induction p as [|a p IH]; cbn; [reflexivity|]. now rewrite Ascii.eqb_refl. Qed.

Lemma has_char_app c a b : has_char c (a ++ b) = has_char c a || has_char c b.
Proof. induction a as [|x a IH]; cbn; [reflexivity|]. rewrite IH. now rewrite orb_assoc. Qed.

Lemma take_until_app c a r : has_char c a = false -> take_until c (a ++ String c r) = Some (a, r).
Proof.
  induction a as [|x a IH]; cbn; intros H.
  - now rewrite Ascii.eqb_refl.
  - apply orb_false_iff in H. destruct H as [H1 H2]. rewrite H1. now rewrite IH.
Qed.

Lemma ends_with_app suf a : ends_with suf (a ++ suf) = true.
Proof.
  induction a as [|x a IH]; cbn [append ends_with].
  - destruct suf; cbn [ends_with]; rewrite String.eqb_refl; reflexivity.
  - rewrite IH. apply orb_true_r.
Qed.

Lemma ends_with_inv suf s : ends_with suf s = true -> exists a, s = a ++ suf.
Proof.
  induction s as [|x s IH]; cbn [ends_with]; intros H.
  - rewrite orb_false_r in H. apply String.eqb_eq in H. subst. exists "". reflexivity.
  - apply orb_true_iff in H. destruct H as [H|H].
    + apply String.eqb_eq in H. exists "". cbn. congruence.
    + destruct (IH H) as [a ->]. exists (String x a). reflexivity.
Qed.

Lemma sapp_inv_tail : forall a b x y, a ++ x = b ++ y -> String.length x = String.length y -> a = b /\ x = y.
Proof.
  induction a as [|c a IH]; intros b x y H L.
  - destruct b as [|d b]; cbn in *; [auto|].
    exfalso. subst x. cbn in L. rewrite slen_app in L. lia.
  - destruct b as [|d b]; cbn in *.
    + exfalso. subst y. cbn in L. rewrite slen_app in L. lia.
    + inversion H; subst. destruct (IH b x y H2 L) as [-> ->]. auto.
Qed.

Lemma replace_char_app a b x y : replace_char a b (x ++ y) = replace_char a b x ++ replace_char a b y.
Proof. induction x as [|c x IH]; cbn; [reflexivity|]. now rewrite IH. Qed.

Lemma replace_char_id a b x : has_char a x = false -> replace_char a b x = x.
Proof.
  induction x as [|c x IH]; cbn; intros H; [reflexivity|].
  apply orb_false_iff in H. destruct H as [H1 H2]. rewrite H1. now rewrite IH.
Qed.

Lemma rpart_spec c s a b : rpart c s = Some (a, b) -> s = a ++ String c b.
Proof.
  revert a b. induction s as [|x s IH]; cbn; intros a b H; [discriminate|].
  destruct (rpart c s) as [[u v]|] eqn:E.
  - inversion H; subst. cbn. now rewrite (IH u b eq_refl).
  - destruct (Ascii.eqb x c) eqn:X; [|discriminate]. inversion H; subst. apply Ascii.eqb_eq in X. subst. reflexivity.
Qed.

Lemma rstrip_id c s : ends_with (String c "") s = false -> rstrip_char c s = s.
Proof.
  induction s as [|x s IH]; cbn [ends_with rstrip_char]; intros H; [reflexivity|].
  apply orb_false_iff in H. destruct H as [H1 H2]. rewrite (IH H2).
  destruct (Ascii.eqb x c) eqn:X; cbn [andb]; [|reflexivity].
  destruct s; [|reflexivity]. apply Ascii.eqb_eq in X. subst.
  rewrite String.eqb_refl in H1. discriminate.
Qed.

Lemma lstrip_id c s : starts_with (String c "") s = false -> lstrip_char c s = s.
Proof.
  destruct s as [|x s]; cbn; [reflexivity|]. intros H. rewrite andb_true_r in H.
  rewrite Ascii.eqb_sym in H. now rewrite H.
Qed.

(* ------------------------------------------------------------------------------------------ *)
(* the descriptor JSON: parse (print d) = d *)

Lemma parse_jstr_jq s r : plain_name s = true -> parse_jstr (jq s ++ r) = Some (s, r).
Proof.
  unfold plain_name, parse_jstr, jq. intros H. apply negb_true_iff in H. cbn.
  rewrite sapp_assoc. cbn. now apply take_until_app.
Qed.

Definition plain_field (f : string * string) : bool := plain_name (fst f) && plain_name (snd f).

Lemma parse_field_json f r : plain_field f = true -> parse_field (json_field f ++ r) = Some (f, r).
Proof.
  destruct f as [t n]. unfold plain_field, json_field, parse_field. cbn [fst snd]. intros H.
  apply andb_true_iff in H. destruct H as [Ht Hn].
  cbn -[jq parse_jstr]. rewrite !sapp_assoc. rewrite (parse_jstr_jq t _ Ht).
  cbn -[jq parse_jstr]. rewrite !sapp_assoc. rewrite (parse_jstr_jq n _ Hn).
  cbn. reflexivity.
Qed.

Lemma json_field_head f r : exists rest, json_field f ++ r = String "["%char rest.
Proof. destruct f. unfold json_field. cbn. eexists. reflexivity. Qed.

Lemma join_cons2 sep (x y : string) l : join sep (x :: y :: l) = x ++ sep ++ join sep (y :: l).
Proof. reflexivity. Qed.

Lemma parse_fields_json : forall fs fuel r,
  fs <> [] -> forallb plain_field fs = true -> List.length fs <= fuel ->
  parse_fields fuel (join ", " (map json_field fs) ++ String "]"%char r) = Some (fs, r).
Proof.
  induction fs as [|f fs IH]; intros fuel r Hne Hp Hfuel; [congruence|].
  cbn [forallb] in Hp. apply andb_true_iff in Hp. destruct Hp as [Hf Hfs].
  destruct fuel as [|k]; [cbn in Hfuel; lia|]. cbn [List.length] in Hfuel.
  destruct fs as [|g fs'].
  - cbn [map join parse_fields]. rewrite (parse_field_json f _ Hf). cbn. reflexivity.
  - specialize (IH k r). cbn [map] in *. rewrite join_cons2. cbn [parse_fields].
    rewrite !sapp_assoc. rewrite (parse_field_json f _ Hf). cbn [obind].
    rewrite drop_prefix_app.
    rewrite IH; [reflexivity|congruence|exact Hfs|cbn [List.length] in *; lia].
Qed.

Lemma join_len_ge fs r : List.length fs <= String.length (join ", " (map json_field fs) ++ r).
Proof.
  induction fs as [|f fs IH]; cbn [List.length]; [lia|].
  destruct fs as [|g fs'].
  - cbn [map join]. destruct (json_field_head f r) as [x ->]. cbn [String.length List.length]. lia.
  - cbn [map] in *. rewrite join_cons2. rewrite !sapp_assoc.
    destruct (json_field_head f "") as [x Hx]. rewrite sapp_nil_r in Hx. rewrite Hx.
    cbn [append String.length]. rewrite slen_app. cbn [String.length List.length] in *. lia.
Qed.

Definition plain_desc (d : descriptor) : bool := plain_name (d_name d) && forallb plain_field (d_fields d).

Theorem parse_json_of_desc d : plain_desc d = true -> parse_desc (json_of_desc d) = Some d.
Proof.
  destruct d as [name fs]. unfold plain_desc, json_of_desc, parse_desc. cbn [d_name d_fields]. intros H.
  apply andb_true_iff in H. destruct H as [Hn Hf].
  rewrite drop_prefix_app. cbn [obind]. rewrite (parse_jstr_jq name _ Hn). cbn [obind].
  rewrite drop_prefix_app. cbn [obind].
  destruct fs as [|f fs'].
  - cbn. reflexivity.
  - destruct (json_field_head f "") as [x Hx]. rewrite sapp_nil_r in Hx.
    assert (E : exists y, join ", " (map json_field (f :: fs')) ++ "]]" = String "["%char y).
    { destruct fs' as [|g fs'']; cbn [map].
      - cbn [join]. rewrite Hx. eexists. reflexivity.
      - rewrite join_cons2. rewrite Hx. eexists. reflexivity. }
    destruct E as [y E]. rewrite E. cbn [drop_prefix]. replace (Ascii.eqb "]" "[") with false by reflexivity.
    rewrite <- E.
    change "]]" with (String "]"%char "]").
    rewrite parse_fields_json; [cbn; reflexivity|congruence|exact Hf|apply join_len_ge].
Qed.

(* ------------------------------------------------------------------------------------------ *)
(* the detection condition on the printed descriptor *)

Lemma join_last fs : fs <> [] -> exists x, join ", " (map json_field fs) = x ++ "]".
Proof.
  induction fs as [|f fs IH]; intros H; [congruence|].
  destruct fs as [|g fs'].
  - cbn [map join]. destruct f as [t n]. unfold json_field. cbn [fst snd]. exists ("[" ++ jq t ++ ", " ++ jq n).
    now rewrite !sapp_assoc.
  - destruct IH as [x Hx]; [congruence|]. cbn [map] in *. rewrite join_cons2. rewrite Hx.
    exists (json_field f ++ ", " ++ x). now rewrite !sapp_assoc.
Qed.

Lemma doc_detection_printed d :
  starts_with "[""" (json_of_desc d) = true
  /\ ends_with "]]]" (json_of_desc d) = negb (match d_fields d with [] => true | _ => false end)
  /\ String.eqb (json_of_desc d) "" = false.
Proof.
  destruct d as [name fs]. unfold json_of_desc. cbn [d_name d_fields]. split; [|split].
  - reflexivity.
  - destruct fs as [|f fs'].
    + cbn [map join negb]. destruct (ends_with "]]]" ("[" ++ jq name ++ ", [" ++ "" ++ "]]")) eqn:E; [|reflexivity].
      apply ends_with_inv in E. destruct E as [a E].
      replace ("[" ++ jq name ++ ", [" ++ "" ++ "]]") with (("[" ++ jq name ++ ", ") ++ "[]]") in E
        by (rewrite !sapp_assoc; reflexivity).
      apply sapp_inv_tail in E; [|reflexivity]. destruct E as [_ E]. discriminate.
    + destruct (join_last (f :: fs')) as [x Hx]; [congruence|]. rewrite Hx. cbn [negb].
      replace ("[" ++ jq name ++ ", [" ++ (x ++ "]") ++ "]]") with (("[" ++ jq name ++ ", [" ++ x) ++ "]]]")
        by (rewrite !sapp_assoc; reflexivity).
      apply ends_with_app.
  - reflexivity.
Qed.
(* ------------------------------------------------------------------------------------------ *)
(* field-less descriptors: the name survives namespace "." name -> "/"-path *)

Lemma name_rebuilt n : name_ok n = true ->
  strip_char slash (replace_char dot slash
     ("" ++ "/" ++ (if String.eqb (fst (split_name n)) "" then snd (split_name n)
                    else fst (split_name n) ++ "." ++ snd (split_name n)))) = n.
Proof.
  unfold name_ok. intros H. apply andb_true_iff in H. destruct H as [H H3].
  apply andb_true_iff in H. destruct H as [H1 H2].
  apply negb_true_iff in H1, H2, H3.
  assert (G : forall x, replace_char dot slash x = n -> strip_char slash (replace_char dot slash ("" ++ "/" ++ x)) = n).
  { intros x Hx. cbn [append]. cbn [replace_char]. replace (Ascii.eqb "/" dot) with false by reflexivity.
    rewrite Hx. unfold strip_char. cbn [lstrip_char]. replace (Ascii.eqb "/" slash) with true by reflexivity.
    rewrite (lstrip_id slash n H2). apply rstrip_id. exact H3. }
  apply G. unfold split_name. destruct (rpart slash n) as [[a b]|] eqn:E; cbn [fst snd].
  - apply rpart_spec in E. subst n. rewrite has_char_app in H1. apply orb_false_iff in H1. destruct H1 as [Ha Hb].
    cbn [has_char] in Hb. apply orb_false_iff in Hb. destruct Hb as [_ Hb].
    destruct a as [|c a].
    + cbn in H2. discriminate.
    + replace (String.eqb (String c a) "") with false by reflexivity.
      rewrite replace_char_app. rewrite (replace_char_id dot slash _ Ha).
      cbn [append replace_char]. replace (Ascii.eqb "." dot) with true by reflexivity.
      rewrite (replace_char_id dot slash _ Hb). reflexivity.
  - cbn. apply replace_char_id. exact H1.
Qed.
(* ------------------------------------------------------------------------------------------ *)
(* schema_to_descriptor (as the reader sees the schema) gives the written descriptor back *)

Lemma field_schemas_names cfg : forall fs fl, field_schemas cfg fs = Some fl -> map fst fl = map snd fs.
Proof.
  induction fs as [|[t n] fs IH]; cbn; intros fl H.
  - inversion H. reflexivity.
  - destruct (field_union cfg t); [|discriminate]. destruct (field_schemas cfg fs); [|discriminate].
    inversion H; subst. cbn. f_equal. apply IH. reflexivity.
Qed.

Lemma fallback_hidden cfg : forall fl, forallb (fun f => starts_with "_" (fst f)) fl = true -> fallback_fields cfg fl = Some [].
Proof.
  induction fl as [|[n u] fl IH]; cbn [forallb fallback_fields fst]; intros H; [reflexivity|].
  apply andb_true_iff in H. destruct H as [H1 H2]. rewrite H1. apply IH. exact H2.
Qed.

Lemma forallb_map_fst {A B} (p : A -> bool) (l : list (A * B)) :
  forallb (fun f => p (fst f)) l = forallb p (map fst l).
Proof. induction l as [|x l IH]; cbn; [reflexivity|]. now rewrite IH. Qed.
Lemma forallb_map_snd {A B} (p : B -> bool) (l : list (A * B)) :
  forallb (fun f => p (snd f)) l = forallb p (map snd l).
Proof. induction l as [|x l IH]; cbn; [reflexivity|]. now rewrite IH. Qed.

Definition cfg_doc_ok (cfg : config) : bool :=
  cfg_has_doc cfg && String.eqb (cfg_doc_prefix cfg) "[""" && String.eqb (cfg_doc_suffix cfg) "]]]"
  && forallb (fun f => starts_with "_" (snd f)) (cfg_reserved cfg).

Lemma wf_plain d : wf_descriptor d = true -> plain_desc d = true.
Proof.
  unfold wf_descriptor, plain_desc. intros H. apply andb_true_iff in H. destruct H as [H _]. exact H.
Qed.

Theorem descriptor_carried cfg d sch :
  cfg_doc_ok cfg = true -> wf_descriptor d = true -> descriptor_to_schema cfg d = Some sch ->
  schema_to_descriptor cfg (stored_schema sch) = Some d.
Proof.
  unfold cfg_doc_ok. intros C W S.
  apply andb_true_iff in C. destruct C as [C C4]. apply andb_true_iff in C. destruct C as [C C3].
  apply andb_true_iff in C. destruct C as [C1 C2]. apply String.eqb_eq in C2, C3.
  unfold descriptor_to_schema in S. destruct (field_schemas cfg (all_fields cfg d)) as [fl|] eqn:F; [|discriminate].
  rewrite C1 in S. inversion S; subst sch; clear S.
  unfold schema_to_descriptor, stored_schema. cbn [s_doc s_namespace s_name s_fields].
  unfold doc_detected. rewrite C2, C3.
  destruct (doc_detection_printed d) as [D1 [D2 D3]]. rewrite D1, D2, D3. cbn [negb andb].
  destruct d as [name fs]. cbn [d_fields d_name] in *. destruct fs as [|f fs'].
  - cbn [negb].
    unfold all_fields in F. cbn [d_fields app] in F.
    rewrite (fallback_hidden cfg fl).
    + cbn [option_map]. f_equal. f_equal. apply name_rebuilt.
      unfold wf_descriptor in W. cbn [d_fields d_name] in W. apply andb_true_iff in W. apply W.
    + rewrite forallb_map_fst. rewrite (field_schemas_names cfg _ _ F). rewrite <- forallb_map_snd. exact C4.
  - cbn [negb]. apply parse_json_of_desc. apply wf_plain. exact W.
Qed.
(* ------------------------------------------------------------------------------------------ *)
(* one field: what fastavro stores for a typed value under the union the adapter builds (GENERATED tables) *)

Lemma lookup_In {A} k (l : list (string * A)) v : lookup k l = Some v -> In (k, v) l.
Proof.
  induction l as [|[k' v'] l IH]; cbn; intros H; [discriminate|].
  destruct (String.eqb k k') eqn:E.
  - apply String.eqb_eq in E. inversion H; subst. now left.
  - right. now apply IH.
Qed.

Section Fields.
  Variable to_f32 : N -> N.
  Variable of_int : Z -> N.

  Definition field_spec (t : string) (u : list atype) : Prop :=
    forall v, well_typed t v = true ->
      match enc_field to_f32 of_int u v with
      | FOk s => representable avro_cfg t v = true
                 /\ load u s = (if time_ok v then Some (normalise to_f32 v) else None)
      | FBad e wi => representable avro_cfg t v = false
      end.

  Ltac unf := unfold time_ok, in_py_range, py_min_us, py_max_us, int32_ok, int64_ok, int_range_of in *.
  Ltac crush :=
    cbn in *; unf;
    repeat (match goal with
            | |- context [if ?b then _ else _] => destruct b eqn:?
            | |- _ /\ _ => split
            end; cbn in *; unf);
    try reflexivity; try discriminate; try lia.

  Lemma field_sound t u : field_union avro_cfg t = Some u -> field_spec t u.
  Proof.
    unfold field_union. destruct (String.eqb t "datetime") eqn:E.
    - apply String.eqb_eq in E. subst t. intros H. inversion H; subst u; clear H.
      intros v W. destruct v; cbn in W; try discriminate W.
      + cbn. auto.
      + unfold enc_field, enc_present, choose. crush.
    - destruct (lookup t (cfg_avro_map avro_cfg)) as [a|] eqn:L; [|discriminate].
      apply lookup_In in L. cbn in L.
      repeat (destruct L as [L|L]; [inversion L; subst t a; clear L|]); try contradiction;
        try discriminate E; cbn; intros H; inversion H; subst u; clear H;
        intros v W; destruct v; cbn in W; try discriminate W; unfold enc_field, enc_present, choose; crush.
  Qed.
End Fields.

Section Records.
  Variable to_f32 : N -> N.
  Variable of_int : Z -> N.

  Ltac unf := unfold time_ok, in_py_range, py_min_us, py_max_us, int32_ok, int64_ok, int_range_of in *.
  Ltac crush :=
    cbn in *; unf;
    repeat (match goal with
            | |- context [if ?b then _ else _] => destruct b eqn:?
            | |- _ /\ _ => split
            end; cbn in *; unf);
    try reflexivity; try discriminate; try lia.

  (* the schema of a mapped type parses, and what the reader hands to the record class converts to itself *)
  Lemma field_parses t u : field_union avro_cfg t = Some u -> forallb atype_parses u = true.
  Proof.
    unfold field_union. destruct (String.eqb t "datetime") eqn:E.
    - intros H. inversion H. reflexivity.
    - destruct (lookup t (cfg_avro_map avro_cfg)) as [a|] eqn:L; [|discriminate].
      apply lookup_In in L. cbn in L.
      repeat (destruct L as [L|L]; [inversion L; subst t a; clear L|]); try contradiction;
        cbn; intros H; inversion H; reflexivity.
  Qed.

  Lemma convert_sound t u v :
    field_union avro_cfg t = Some u -> well_typed t v = true -> representable avro_cfg t v = true ->
    flow_convert of_int avro_cfg t (normalise to_f32 v) = Some (normalise to_f32 v).
  Proof.
    unfold field_union. destruct (String.eqb t "datetime") eqn:E.
    - apply String.eqb_eq in E. subst t. intros _ W R. destruct v; cbn in W; try discriminate W; reflexivity.
    - destruct (lookup t (cfg_avro_map avro_cfg)) as [a|] eqn:L; [|discriminate].
      apply lookup_In in L. cbn in L.
      repeat (destruct L as [L|L]; [inversion L; subst t a; clear L|]); try contradiction;
        try discriminate E; intros _ W R; destruct v; cbn in W; try discriminate W; try discriminate R;
        unfold flow_convert; crush.
  Qed.

  Definition wt_f (f : string * string) (v : value) : bool := well_typed (fst f) v.
  Definition rp_f (f : string * string) (v : value) : bool := representable avro_cfg (fst f) v.

  Lemma rec_sound : forall fs fl vs w,
    field_schemas avro_cfg fs = Some fl -> all2 wt_f fs vs = true ->
    match enc_fields to_f32 of_int (map snd fl) vs w with
    | EncOk l => all2 rp_f fs vs = true
                 /\ load_fields (map snd fl) l = (if times_ok vs then Some (map (normalise to_f32) vs) else None)
    | EncFail e j => all2 rp_f fs vs = false
    end.
  Proof.
    induction fs as [|[t n] fs IH]; intros fl vs w F W.
    - cbn in F. inversion F; subst. destruct vs; cbn in W; [|discriminate]. cbn. auto.
    - cbn [field_schemas] in F. destruct (field_union avro_cfg t) as [u|] eqn:U; [|discriminate].
      destruct (field_schemas avro_cfg fs) as [fl'|] eqn:F'; [|discriminate]. inversion F; subst fl; clear F.
      destruct vs as [|v vs]; [cbn in W; discriminate|]. cbn [all2] in W. apply andb_true_iff in W. destruct W as [Wv Wvs].
      cbn [map snd enc_fields hd tl]. unfold wt_f in Wv. cbn [fst] in Wv.
      pose proof (field_sound to_f32 of_int t u U v Wv) as S.
      destruct (enc_field to_f32 of_int u v) as [s|e wi].
      + destruct S as [R Ld]. specialize (IH fl' vs true eq_refl Wvs).
        destruct (enc_fields to_f32 of_int (map snd fl') vs true) as [l|e j].
        * destruct IH as [Rs Lds]. cbn [all2 load_fields]. unfold rp_f at 1. cbn [fst]. rewrite R, Rs. split; [reflexivity|].
          rewrite Ld, Lds. unfold times_ok. cbn [forallb map]. destruct (time_ok v); [|reflexivity].
          cbn [andb]. fold (times_ok vs). destruct (times_ok vs); reflexivity.
        * cbn [all2]. rewrite IH. apply andb_false_r.
      + cbn [all2]. unfold rp_f at 1. cbn [fst]. rewrite S. reflexivity.
  Qed.

  Lemma conv_sound : forall fs fl vs,
    field_schemas avro_cfg fs = Some fl -> all2 wt_f fs vs = true -> all2 rp_f fs vs = true ->
    convert_fields of_int avro_cfg fs (map (normalise to_f32) vs) = Some (map (normalise to_f32) vs).
  Proof.
    induction fs as [|[t n] fs IH]; intros fl vs F W R.
    - destruct vs; cbn in W; [reflexivity|discriminate].
    - cbn [field_schemas] in F. destruct (field_union avro_cfg t) as [u|] eqn:U; [|discriminate].
      destruct (field_schemas avro_cfg fs) as [fl'|] eqn:F'; [|discriminate].
      destruct vs as [|v vs]; [cbn in W; discriminate|]. cbn [all2] in W, R.
      apply andb_true_iff in W. destruct W as [Wv Wvs]. apply andb_true_iff in R. destruct R as [Rv Rvs].
      cbn [map convert_fields hd tl]. unfold wt_f in Wv. unfold rp_f in Rv. cbn [fst] in *.
      rewrite (convert_sound t u v U Wv Rv). rewrite (IH fl' vs eq_refl Wvs Rvs). reflexivity.
  Qed.

  Lemma schema_of_mappable_parses : forall fs fl, field_schemas avro_cfg fs = Some fl ->
    forallb (fun f => forallb atype_parses (snd f)) fl = true.
  Proof.
    induction fs as [|[t n] fs IH]; intros fl F.
    - cbn in F. inversion F. reflexivity.
    - cbn [field_schemas] in F. destruct (field_union avro_cfg t) as [u|] eqn:U; [|discriminate].
      destruct (field_schemas avro_cfg fs) as [fl'|] eqn:F'; [|discriminate]. inversion F; subst.
      cbn [forallb snd]. rewrite (field_parses t u U). apply (IH fl' eq_refl).
  Qed.
End Records.

(* ------------------------------------------------------------------------------------------ *)
(* the container as the reader walks it *)

Fixpoint dirty_after (its : list item) (dirty : bool) : bool :=
  match its with
  | [] => dirty
  | IBlockEnd :: r => dirty_after r false
  | IJunk :: r => dirty_after r true
  | IRec _ :: r => dirty_after r false
  end.

Lemma dirty_after_app a : forall b d, dirty_after (a ++ b)%list d = dirty_after b (dirty_after a d).
Proof. induction a as [|[l| |] a IH]; intros b d; cbn; auto. Qed.

Lemma read_items_app us a : forall b dirty,
  read_items us (a ++ b)%list dirty =
  match read_items us a dirty with
  | (l, REnd) => let '(l', e) := read_items us b (dirty_after a dirty) in ((l ++ l')%list, e)
  | (l, e) => (l, e)
  end.
Proof.
  induction a as [|[ss| |] a IH]; intros b dirty; cbn [app read_items dirty_after].
  - destruct (read_items us b dirty). reflexivity.
  - destruct dirty; [reflexivity|]. destruct (load_fields us ss) as [vs|]; [|reflexivity].
    rewrite IH. destruct (read_items us a false) as [l e]. destruct e; try reflexivity.
    destruct (read_items us b (dirty_after a false)). reflexivity.
  - apply IH.
  - apply IH.
Qed.

Lemma fields_eqb_refl l : fields_eqb l l = true.
Proof. induction l as [|[a b] l IH]; cbn; [reflexivity|]. unfold pair_eqb. cbn. now rewrite !String.eqb_refl, IH. Qed.
Lemma desc_eqb_refl d : desc_eqb d d = true.
Proof. unfold desc_eqb. now rewrite String.eqb_refl, fields_eqb_refl. Qed.

Section Sessions.
  Variable to_f32 : N -> N.
  Variable of_int : Z -> N.
  Notation STEP := (step to_f32 of_int avro_cfg avro_code).
  Notation RUN := (run_ops to_f32 of_int avro_cfg avro_code).

  (* the writer holds a schema writer for descriptor d *)
  Definition est (d : descriptor) (sch : schema) (st : wstate) : Prop :=
    w_desc st = Some d /\ w_schema st = Some sch /\ w_writer st = WSchema sch /\ w_fp st = true /\ w_header st = Some sch
    /\ schema_parses sch = true.

  Lemma write_est d sch st r : est d sch st ->
    STEP st (OWrite r) =
    if desc_eqb d (r_desc r)
    then match enc_fields to_f32 of_int (map snd (s_fields sch)) (r_vals r) false with
         | EncOk l => (add_pending st (IRec l), Accepted)
         | EncFail e j => (st, Refused e)            (* refused by the dry run: nothing has changed *)
         end
    else (st, Refused EMixed).
  Proof.
    destruct st as [de sc wr fp hd co pe]. unfold est. cbn. intros (-> & -> & -> & -> & -> & P).
    unfold step, do_write. cbn. destruct (desc_eqb d (r_desc r)); cbn; [|reflexivity].
    rewrite P.
    destruct (enc_fields to_f32 of_int (map snd (s_fields sch)) (r_vals r) false) as [l|e j] eqn:En; cbn; [|reflexivity].
    rewrite En. reflexivity.
  Qed.

  Lemma flush_est d sch st : est d sch st -> STEP st OFlush = (commit st, Accepted).
  Proof.
    destruct st as [de sc wr fp hd co pe]. unfold est. cbn. intros (-> & -> & -> & -> & -> & P). reflexivity.
  Qed.

  Lemma est_add d sch st it : est d sch st -> est d sch (add_pending st it).
  Proof. destruct st. unfold est. cbn. auto. Qed.
  Lemma est_commit d sch st : est d sch st -> est d sch (commit st).
  Proof. destruct st as [de sc wr fp hd co pe]. unfold est, commit. cbn. destruct pe; cbn; auto. Qed.

  Definition st0 (d : descriptor) (sch : schema) : wstate := WState (Some d) (Some sch) (WSchema sch) true (Some sch) [] [].

  Lemma mappable_parses d sch : descriptor_to_schema avro_cfg d = Some sch -> schema_parses sch = true.
  Proof.
    intros S. unfold descriptor_to_schema in S.
    destruct (field_schemas avro_cfg (all_fields avro_cfg d)) as [fl|] eqn:F; [|discriminate].
    inversion S. unfold schema_parses. cbn [s_fields]. apply (schema_of_mappable_parses _ _ F).
  Qed.

  Lemma first_write r sch : descriptor_to_schema avro_cfg (r_desc r) = Some sch ->
    STEP w_init (OWrite r) = STEP (st0 (r_desc r) sch) (OWrite r).
  Proof.
    intros S. pose proof (mappable_parses _ _ S) as P.
    unfold step, do_write, st0. cbn. rewrite S. cbn. rewrite P. cbn. rewrite desc_eqb_refl. cbn. reflexivity.
  Qed.

  (* close on an established writer: flush, then the file is header + committed blocks *)
  Lemma close_est d sch st : est d sch st ->
    exists st', do_close to_f32 of_int avro_cfg avro_code st = WOk st'
                /\ file_of st' = File (Some sch) (w_committed (commit st)).
  Proof.
    destruct st as [de sc wr fp hd co pe]. unfold est. cbn. intros (-> & -> & -> & -> & -> & P).
    unfold do_close. cbn. destruct pe; cbn; eexists; split; reflexivity.
  Qed.

  Section OneDescriptor.
    Variable d : descriptor.
    Variable sch : schema.
    Hypothesis Hsch : descriptor_to_schema avro_cfg d = Some sch.
    Let us := map snd (s_fields sch).

    Lemma sch_fields : field_schemas avro_cfg (all_fields avro_cfg d) = Some (s_fields sch).
    Proof.
      unfold descriptor_to_schema in Hsch. destruct (field_schemas avro_cfg (all_fields avro_cfg d)); [|discriminate].
      inversion Hsch. reflexivity.
    Qed.

    Definition inv (st : wstate) (acc : list (list value)) : Prop :=
      est d sch st
      /\ read_items us (w_committed st ++ w_pending st)%list false = (acc, REnd)
      /\ dirty_after (w_committed st ++ w_pending st)%list false = false
      /\ dirty_after (w_committed st) false = false.

    Definition norm_rec (r : record) : list value := map (normalise to_f32) (r_vals r).

    Lemma add_pending_items st it : (w_committed (add_pending st it) ++ w_pending (add_pending st it) = (w_committed st ++ w_pending st) ++ [it])%list
                                    /\ w_committed (add_pending st it) = w_committed st.
    Proof. destruct st. cbn. split; [now rewrite app_assoc|reflexivity]. Qed.

    Lemma run_inv : forall ops st acc,
      inv st acc ->
      (forall r, In (OWrite r) ops -> desc_eqb d (r_desc r) = true -> well_typed_rec avro_cfg d (r_vals r) = true) ->
      forallb (fun r => times_ok (r_vals r)) (accepted avro_cfg d ops) = true ->
      exists st' outs,
        RUN st ops = (st', outs)
        /\ map is_accepted outs = map (expected_decision avro_cfg d) ops
        /\ inv st' (acc ++ map norm_rec (accepted avro_cfg d ops))%list.
    Proof.
      induction ops as [|o ops IH]; intros st acc I W T.
      - exists st, []. cbn. rewrite app_nil_r. auto.
      - destruct I as (E & R & Dn & Dc).
        destruct o as [r|].
        + (* write *)
          cbn [run_ops]. rewrite (write_est d sch st r E).
          cbn [accepted expected_decision] in *.
          destruct (desc_eqb d (r_desc r)) eqn:Q.
          * assert (Wr : well_typed_rec avro_cfg d (r_vals r) = true) by (apply W; [now left|exact Q]).
            pose proof (rec_sound to_f32 of_int _ _ (r_vals r) false sch_fields Wr) as RS. fold us in RS.
            fold us. destruct (enc_fields to_f32 of_int us (r_vals r) false) as [l|e j].
            -- destruct RS as [Rp Ld]. change (all2 (rp_f) (all_fields avro_cfg d) (r_vals r)) with (representable_rec avro_cfg d (r_vals r)) in Rp.
               rewrite Rp in *. cbn [andb] in *.
               cbn [forallb] in T. apply andb_true_iff in T. destruct T as [Tr T]. rewrite Tr in Ld.
               destruct (add_pending_items st (IRec l)) as [A1 A2].
               destruct (IH (add_pending st (IRec l)) (acc ++ [norm_rec r])%list) as (st' & outs & Hr & Ho & Hi).
               { split; [now apply est_add|]. split; [|split].
                 - rewrite A1. rewrite read_items_app, R, Dn. cbn. rewrite Ld. reflexivity.
                 - rewrite A1. rewrite dirty_after_app. reflexivity.
                 - rewrite A2. exact Dc. }
               { intros r' Hin. apply W. now right. }
               { exact T. }
               exists st', (Accepted :: outs). rewrite Hr. split; [reflexivity|]. split; [cbn [map expected_decision is_accepted]; now rewrite Q, Rp, Ho|].
               cbn [map]. rewrite <- app_assoc in Hi. exact Hi.
            -- change (all2 (rp_f) (all_fields avro_cfg d) (r_vals r)) with (representable_rec avro_cfg d (r_vals r)) in RS.
               rewrite RS in *. cbn [andb] in *.
               destruct (IH st acc) as (st' & outs & Hr & Ho & Hi).
               { split; [exact E|]. split; [exact R|]. split; [exact Dn|exact Dc]. }
               { intros r' Hin. apply W. now right. }
               { exact T. }
               exists st', (Refused e :: outs). rewrite Hr. split; [reflexivity|]. split; [cbn [map expected_decision is_accepted]; now rewrite Q, RS, Ho|exact Hi].
          * cbn [andb] in *.
            destruct (IH st acc) as (st' & outs & Hr & Ho & Hi).
            { split; [exact E|]. split; [exact R|]. split; [exact Dn|exact Dc]. }
            { intros r' Hin. apply W. now right. }
            { exact T. }
            exists st', (Refused EMixed :: outs). rewrite Hr. split; [reflexivity|]. split; [cbn [map expected_decision is_accepted]; now rewrite Q, Ho|exact Hi].
        + (* flush *)
          cbn [run_ops]. rewrite (flush_est d sch st E). cbn [accepted expected_decision] in *.
          destruct (IH (commit st) acc) as (st' & outs & Hr & Ho & Hi).
          { split; [now apply est_commit|]. destruct st as [de sc wr fp hd co pe]. cbn in *. unfold commit. cbn.
            destruct pe as [|p pe]; cbn [w_committed w_pending].
            - rewrite app_nil_r in *. split; [exact R|]. split; [exact Dc|exact Dc].
            - rewrite app_nil_r. change (co ++ p :: pe ++ [IBlockEnd])%list with (co ++ (p :: pe) ++ [IBlockEnd])%list.
              rewrite app_assoc. split; [|split].
              + rewrite read_items_app, R. cbn. now rewrite app_nil_r.
              + rewrite dirty_after_app. reflexivity.
              + rewrite dirty_after_app. reflexivity. }
          { intros r' Hin. apply W. now right. }
          { exact T. }
          exists st', (Accepted :: outs). rewrite Hr. split; [reflexivity|]. split; [cbn [map expected_decision is_accepted]; now rewrite Ho|exact Hi].
    Qed.

    Lemma commit_read st acc : read_items us (w_committed st ++ w_pending st)%list false = (acc, REnd) ->
      read_items us (w_committed (commit st)) false = (acc, REnd).
    Proof.
      destruct st as [de sc wr fp hd co pe]. unfold commit. cbn. destruct pe as [|p pe]; cbn [w_committed].
      - now rewrite app_nil_r.
      - intros R. change (co ++ p :: pe ++ [IBlockEnd])%list with (co ++ (p :: pe) ++ [IBlockEnd])%list.
        rewrite app_assoc. rewrite read_items_app, R. cbn. now rewrite app_nil_r.
    Qed.

    Lemma accepted_spec : forall ops r, In r (accepted avro_cfg d ops) ->
      In (OWrite r) ops /\ desc_eqb d (r_desc r) = true /\ representable_rec avro_cfg d (r_vals r) = true.
    Proof.
      induction ops as [|[r'|] ops IH]; intros r H; cbn in H; [contradiction| |].
      - destruct (desc_eqb d (r_desc r') && representable_rec avro_cfg d (r_vals r')) eqn:Q.
        + destruct H as [<-|H].
          * apply andb_true_iff in Q. split; [now left|exact Q].
          * destruct (IH r H) as (A & B & C). split; [now right|auto].
        + destruct (IH r H) as (A & B & C). split; [now right|auto].
      - destruct (IH r H) as (A & B & C). split; [now right|auto].
    Qed.

    Lemma convert_all : forall recs,
      (forall r, In r recs -> well_typed_rec avro_cfg d (r_vals r) = true /\ representable_rec avro_cfg d (r_vals r) = true) ->
      convert_records of_int avro_cfg (all_fields avro_cfg d) (map norm_rec recs) = (map norm_rec recs, true).
    Proof.
      induction recs as [|r recs IH]; intros H; [reflexivity|].
      cbn [map convert_records]. destruct (H r (or_introl eq_refl)) as [Wr Rr].
      unfold norm_rec at 1. rewrite (conv_sound to_f32 of_int _ _ _ sch_fields Wr Rr).
      rewrite IH; [reflexivity|]. intros r' Hin. apply H. now right.
    Qed.
  End OneDescriptor.

  (* sessions that begin with a write of a record of a mappable descriptor *)
  Theorem session_sound : forall r0 rest sch,
    let d := r_desc r0 in
    let ops := OWrite r0 :: rest in
    wf_descriptor d = true ->
    descriptor_to_schema avro_cfg d = Some sch ->
    (forall r, In (OWrite r) ops -> desc_eqb d (r_desc r) = true -> well_typed_rec avro_cfg d (r_vals r) = true) ->
    forallb (fun r => times_ok (r_vals r)) (accepted avro_cfg d ops) = true ->
    exists f outs,
      session to_f32 of_int avro_cfg avro_code ops = (f, outs, Accepted)
      /\ map is_accepted outs = map (expected_decision avro_cfg d) ops
      /\ read_flow of_int avro_cfg f = FlowRead d (map (fun r => map (normalise to_f32) (r_vals r)) (accepted avro_cfg d ops)) REnd
      /\ exists its, f = File (Some sch) its.
  Proof.
    intros r0 rest sch d ops Wf S W T.
    assert (I0 : inv d sch (st0 d sch) []).
    { unfold inv, st0, est. cbn. pose proof (mappable_parses d sch S). repeat split; auto. }
    destruct (run_inv d sch S ops (st0 d sch) [] I0 W T) as (st' & outs & Hr & Ho & (E & R & _ & _)).
    assert (Hr' : RUN w_init ops = (st', outs)).
    { unfold ops in *. cbn [run_ops] in *. rewrite (first_write r0 sch S). exact Hr. }
    destruct (close_est d sch st' E) as (st'' & Hc & Hf).
    exists (File (Some sch) (w_committed (commit st'))), outs.
    unfold session. rewrite Hr', Hc, Hf. split; [reflexivity|]. split; [exact Ho|]. split; [|eexists; reflexivity].
    unfold read_flow, read_raw. cbn [f_header f_items].
    rewrite (commit_read sch st' _ R). cbn [app].
    assert (C : cfg_doc_ok avro_cfg = true) by reflexivity.
    rewrite (descriptor_carried avro_cfg d sch C Wf S).
    rewrite (convert_all d sch S).
    - reflexivity.
    - intros r Hin. destruct (accepted_spec d ops r Hin) as (A & B & Rp). split; [apply W; assumption|exact Rp].
  Qed.
End Sessions.

(* ------------------------------------------------------------------------------------------ *)
(* single writes: refusals and "accepted means stored faithfully" *)
Section Writes.
  Variable to_f32 : N -> N.
  Variable of_int : Z -> N.
  Notation STEP := (step to_f32 of_int avro_cfg avro_code).
  Notation RUN := (run_ops to_f32 of_int avro_cfg avro_code).

  Lemma write_second_descriptor d sch st r : est d sch st -> desc_eqb d (r_desc r) = false ->
    STEP st (OWrite r) = (st, Refused EMixed).
  Proof. intros E Q. rewrite (write_est to_f32 of_int d sch st r E), Q. reflexivity. Qed.

  Lemma write_unrepresentable d sch st r :
    descriptor_to_schema avro_cfg d = Some sch -> est d sch st -> desc_eqb d (r_desc r) = true ->
    well_typed_rec avro_cfg d (r_vals r) = true -> representable_rec avro_cfg d (r_vals r) = false ->
    exists e, STEP st (OWrite r) = (st, Refused e).
  Proof.
    intros S E Q W R. rewrite (write_est to_f32 of_int d sch st r E), Q.
    pose proof (rec_sound to_f32 of_int _ _ (r_vals r) false (sch_fields d sch S) W) as RS.
    destruct (enc_fields to_f32 of_int (map snd (s_fields sch)) (r_vals r) false) as [l|e j].
    - destruct RS as [Rp _]. unfold representable_rec in R. unfold rp_f in Rp. rewrite Rp in R. discriminate.
    - exists e. reflexivity.
  Qed.

  (* a datum that lacks its values (GroupedRecord._packdict() is empty): the datetime union has no "null" STRING
     member, so fastavro finds "no value and no default" for _generated at the latest *)
  Lemma enc_all_missing : forall fs fl w,
    field_schemas avro_cfg fs = Some fl -> existsb (fun f => String.eqb (fst f) "datetime") fs = true ->
    exists e j, enc_fields to_f32 of_int (map snd fl) (map (fun _ => VMissing) fs) w = EncFail e j.
  Proof.
    induction fs as [|[t n] fs IH]; intros fl w F X; [discriminate|].
    cbn [field_schemas] in F. destruct (field_union avro_cfg t) as [u|] eqn:U; [|discriminate].
    destruct (field_schemas avro_cfg fs) as [fl'|] eqn:F'; [|discriminate]. inversion F; subst fl; clear F.
    cbn [map snd enc_fields hd tl]. cbn [existsb fst] in X.
    destruct (String.eqb t "datetime") eqn:Q.
    - unfold field_union in U. rewrite Q in U. inversion U; subst u. cbn. eauto.
    - cbn [orb] in X. destruct (enc_field to_f32 of_int u VMissing) as [s|e wi]; [|eauto].
      destruct (IH fl' true eq_refl X) as (e & j & ->). eauto.
  Qed.

  Lemma write_all_missing d sch st r :
    descriptor_to_schema avro_cfg d = Some sch -> est d sch st -> desc_eqb d (r_desc r) = true ->
    r_vals r = map (fun _ => VMissing) (all_fields avro_cfg d) ->
    exists e, STEP st (OWrite r) = (st, Refused e).
  Proof.
    intros S E Q V. rewrite (write_est to_f32 of_int d sch st r E), Q, V.
    destruct (enc_all_missing (all_fields avro_cfg d) (s_fields sch) false (sch_fields d sch S)) as (e & j & ->).
    - unfold all_fields. rewrite existsb_app. apply orb_true_iff. right. reflexivity.
    - eauto.
  Qed.

  Lemma write_representable d sch st r :
    descriptor_to_schema avro_cfg d = Some sch -> est d sch st -> desc_eqb d (r_desc r) = true ->
    well_typed_rec avro_cfg d (r_vals r) = true -> representable_rec avro_cfg d (r_vals r) = true ->
    exists l, STEP st (OWrite r) = (add_pending st (IRec l), Accepted)
              /\ load_fields (map snd (s_fields sch)) l
                 = (if times_ok (r_vals r) then Some (map (normalise to_f32) (r_vals r)) else None).
  Proof.
    intros S E Q W R. rewrite (write_est to_f32 of_int d sch st r E), Q.
    pose proof (rec_sound to_f32 of_int _ _ (r_vals r) false (sch_fields d sch S) W) as RS.
    destruct (enc_fields to_f32 of_int (map snd (s_fields sch)) (r_vals r) false) as [l|e j].
    - destruct RS as [_ Ld]. exists l. auto.
    - unfold representable_rec in R. unfold rp_f in RS. rewrite RS in R. discriminate.
  Qed.

  Lemma write_accepted_faithful d sch st st' r :
    descriptor_to_schema avro_cfg d = Some sch -> est d sch st ->
    well_typed_rec avro_cfg d (r_vals r) = true ->
    STEP st (OWrite r) = (st', Accepted) ->
    exists l, st' = add_pending st (IRec l)
              /\ desc_eqb d (r_desc r) = true /\ representable_rec avro_cfg d (r_vals r) = true
              /\ load_fields (map snd (s_fields sch)) l
                 = (if times_ok (r_vals r) then Some (map (normalise to_f32) (r_vals r)) else None).
  Proof.
    intros S E W H. rewrite (write_est to_f32 of_int d sch st r E) in H.
    destruct (desc_eqb d (r_desc r)) eqn:Q; [|inversion H].
    pose proof (rec_sound to_f32 of_int _ _ (r_vals r) false (sch_fields d sch S) W) as RS.
    destruct (enc_fields to_f32 of_int (map snd (s_fields sch)) (r_vals r) false) as [l|e j].
    - destruct RS as [Rp Ld]. inversion H; subst. exists l. auto.
    - inversion H.
  Qed.

  (* a descriptor with an unmapped field type: refused at schema creation, and the writer then refuses every
     further record; after close the file holds no record *)
  Definition stuck (d : descriptor) : wstate := WState (Some d) None WNone true None [] [].

  Lemma write_unmapped r : descriptor_to_schema avro_cfg (r_desc r) = None ->
    STEP w_init (OWrite r) = (stuck (r_desc r), Refused EUnsupported).
  Proof. intros S. unfold step, do_write, stuck. cbn. rewrite S. reflexivity. Qed.

  Lemma stuck_refuses d : forall ops, exists outs,
    RUN (stuck d) ops = (stuck d, outs)
    /\ map is_accepted outs = map (fun o => match o with OFlush => true | OWrite _ => false end) ops.
  Proof.
    induction ops as [|o ops [outs [IH1 IH2]]]; [exists []; auto|].
    cbn [run_ops]. destruct o as [r|].
    - unfold step at 1, do_write, stuck. cbn. fold (stuck d).
      destruct (desc_eqb d (r_desc r)); cbn; fold (stuck d); rewrite IH1; eexists; (split; [reflexivity|]); cbn; now rewrite IH2.
    - unfold step at 1, do_flush, stuck. cbn. fold (stuck d). rewrite IH1. eexists. split; [reflexivity|]. cbn. now rewrite IH2.
  Qed.

  Lemma session_unmapped r ops : descriptor_to_schema avro_cfg (r_desc r) = None ->
    exists outs, session to_f32 of_int avro_cfg avro_code (OWrite r :: ops) = (File (Some empty_schema) [], Refused EUnsupported :: outs, Accepted)
                 /\ map is_accepted outs = map (fun o => match o with OFlush => true | OWrite _ => false end) ops.
  Proof.
    intros S. destruct (stuck_refuses (r_desc r) ops) as [outs [H1 H2]].
    exists outs. unfold session. cbn [run_ops]. rewrite (write_unmapped r S), H1.
    split; [reflexivity|exact H2].
  Qed.

  (* flush() before the first write does nothing *)
  Lemma flush_before_write_noop : STEP w_init OFlush = (w_init, Accepted).
  Proof. reflexivity. Qed.

  Lemma session_leading_flush ops :
    session to_f32 of_int avro_cfg avro_code (OFlush :: ops)
    = (fst (fst (session to_f32 of_int avro_cfg avro_code ops)),
       Accepted :: snd (fst (session to_f32 of_int avro_cfg avro_code ops)),
       snd (session to_f32 of_int avro_cfg avro_code ops)).
  Proof.
    unfold session. cbn [run_ops]. rewrite flush_before_write_noop.
    destruct (RUN w_init ops) as [st outs]. destruct (do_close to_f32 of_int avro_cfg avro_code st); reflexivity.
  Qed.

  (* the reader's guard for integers in datetime columns *)
  Lemma reader_guard_seconds z : (0 <= z <= 4294967295)%Z ->
    flow_convert of_int avro_cfg "datetime" (VInt z) = Some (VTime (z * 1000000) 0).
  Proof.
    intros H. unfold flow_convert. cbn. unfold in_py_range, py_min_us, py_max_us.
    destruct (4294967295 <? z)%Z eqn:G; [lia|].
    destruct ((-62135596800000000 <=? z * 1000000)%Z && (z * 1000000 <=? 253402300799999999)%Z) eqn:Rg; [reflexivity|lia].
  Qed.
  Lemma reader_guard_micros z : (4294967295 < z <= py_max_us)%Z ->
    flow_convert of_int avro_cfg "datetime" (VInt z) = Some (VTime z 0).
  Proof.
    unfold py_max_us. intros H. unfold flow_convert. cbn. unfold in_py_range, py_min_us, py_max_us.
    destruct (4294967295 <? z)%Z eqn:G; [|lia].
    destruct ((-62135596800000000 <=? z)%Z && (z <=? 253402300799999999)%Z) eqn:Rg; [reflexivity|lia].
  Qed.

  Lemma normalise_idem : (forall x, to_f32 (to_f32 x) = to_f32 x) ->
    forall v, normalise to_f32 (normalise to_f32 v) = normalise to_f32 v.
  Proof. intros H v. destruct v; cbn; try reflexivity. now rewrite H. Qed.

  Lemma representable_int t a z : lookup t (cfg_avro_map avro_cfg) = Some a ->
    representable avro_cfg t (VInt z) = int_range_of a z.
  Proof. intros L. unfold representable. now rewrite L. Qed.
End Writes.

(* ------------------------------------------------------------------------------------------ *)
(* clean sessions: only representable records of one descriptor *)
Section Clean.
  Variable to_f32 : N -> N.
  Variable of_int : Z -> N.

  Definition good_rec (d : descriptor) (r : record) : Prop :=
    r_desc r = d /\ well_typed_rec avro_cfg d (r_vals r) = true
    /\ representable_rec avro_cfg d (r_vals r) = true /\ times_ok (r_vals r) = true.

  Lemma clean_facts d : forall rs, Forall (good_rec d) rs ->
    accepted avro_cfg d (map OWrite rs) = rs
    /\ map (expected_decision avro_cfg d) (map OWrite rs) = map (fun _ => true) rs.
  Proof.
    induction rs as [|r rs IH]; intros H; [cbn; auto|].
    pose proof (Forall_inv H) as (Hd & Hw & Hr & Ht). pose proof (Forall_inv_tail H) as Hrs. destruct (IH Hrs) as (B & C).
    cbn [map accepted expected_decision]. rewrite Hd, desc_eqb_refl, Hr. cbn [andb].
    rewrite B, C. auto.
  Qed.

  Lemma all_accepted : forall outs (rs : list record),
    map is_accepted outs = map (fun _ => true) rs -> outs = map (fun _ => Accepted) rs.
  Proof.
    induction outs as [|o outs IH]; intros [|r rs] H; cbn in H; try discriminate; [reflexivity|].
    inversion H. destruct o; [|discriminate]. cbn. f_equal. now apply IH.
  Qed.

  Theorem roundtrip_clean : forall r0 rs sch,
    let d := r_desc r0 in
    wf_descriptor d = true -> descriptor_to_schema avro_cfg d = Some sch ->
    Forall (fun r => r_desc r = d /\ well_typed_rec avro_cfg d (r_vals r) = true
                     /\ representable_rec avro_cfg d (r_vals r) = true /\ times_ok (r_vals r) = true) (r0 :: rs) ->
    exists f,
      session to_f32 of_int avro_cfg avro_code (map OWrite (r0 :: rs)) = (f, map (fun _ => Accepted) (r0 :: rs), Accepted)
      /\ read_flow of_int avro_cfg f = FlowRead d (map (fun r => map (normalise to_f32) (r_vals r)) (r0 :: rs)) REnd.
  Proof.
    intros r0 rs sch d Wf S G. subst d. set (d := r_desc r0) in *.
    destruct (clean_facts d (r0 :: rs) G) as (B & C). unfold d in *. clear d.
    assert (W : forall r, In (OWrite r) (OWrite r0 :: map OWrite rs) -> desc_eqb (r_desc r0) (r_desc r) = true ->
                          well_typed_rec avro_cfg (r_desc r0) (r_vals r) = true).
    { intros r Hin _. change (OWrite r0 :: map OWrite rs) with (map OWrite (r0 :: rs)) in Hin.
      apply in_map_iff in Hin. destruct Hin as [r' [Hr' Hin]]. inversion Hr'; subst r'.
      rewrite Forall_forall in G. apply (G r Hin). }
    assert (T : forallb (fun r => times_ok (r_vals r)) (accepted avro_cfg (r_desc r0) (OWrite r0 :: map OWrite rs)) = true).
    { change (OWrite r0 :: map OWrite rs) with (map OWrite (r0 :: rs)). rewrite B. apply forallb_forall.
      intros r Hin. rewrite Forall_forall in G. apply (G r Hin). }
    destruct (session_sound to_f32 of_int r0 (map OWrite rs) sch Wf S W T) as (f & outs & Hs & Ho & Hf & _).
    exists f. change (OWrite r0 :: map OWrite rs) with (map OWrite (r0 :: rs)) in *.
    rewrite C in Ho. rewrite (all_accepted outs (r0 :: rs) Ho) in Hs. rewrite B in Hf. auto.
  Qed.
End Clean.

(* ------------------------------------------------------------------------------------------ *)
(* witnesses of the known findings (the model evaluated on concrete sessions) *)
Definition w_id32 (x : N) : N := x.
Definition w_noint (z : Z) : N := 0%N.
Definition w_res : list value := [VNone; VNone; VTime 1588660193123456 19807000000; VInt 1].
Definition w_dab : descriptor := Desc "test/a" [("string", "a"); ("uint32", "b")].

(* AvroWriter.write as it was before the dry run was added (repository commit 15e4336) *)
Definition code_without_dry_run : wcode := {|
  code_write := [When CNoDesc [Do SetDesc; Do MakeSchema; Do ParseSchema; Do MakeWriter]; When CDescDiffers [Do RaiseMixed];
                 Do WriterWrite];
  code_flush := code_flush avro_code;
  code_close := code_close avro_code |}.

Definition w_ops_refused_then_accepted : list op :=
  [OWrite (Rec w_dab ([VText [116; 119; 111]%N; VInt 2147483648] ++ w_res)%list);
   OWrite (Rec w_dab ([VText [2; 2; 2; 2]%N; VInt 7] ++ w_res)%list)].

Lemma refuted_without_dry_run :
  let ops := w_ops_refused_then_accepted in
  (forall r, In (OWrite r) ops -> well_typed_rec avro_cfg w_dab (r_vals r) = true)
  /\ snd (fst (session w_id32 w_noint avro_cfg code_without_dry_run ops)) = [Refused EValue; Accepted]
  /\ read_flow w_noint avro_cfg (fst (fst (session w_id32 w_noint avro_cfg code_without_dry_run ops))) = FlowRead w_dab [] RCorrupt
  /\ snd (fst (session w_id32 w_noint avro_cfg avro_code ops)) = [Refused EValue; Accepted]
  /\ read_flow w_noint avro_cfg (fst (fst (session w_id32 w_noint avro_cfg avro_code ops)))
     = FlowRead w_dab [[VText [2; 2; 2; 2]%N; VInt 7; VNone; VNone; VTime 1588660193123456 0; VInt 1]] REnd.
Proof.
  cbv zeta. split; [|repeat split; vm_compute; reflexivity].
  intros r [H|[H|[]]]; inversion H; subst; vm_compute; reflexivity.
Qed.

Lemma initial_flush_session :
  let r := Rec w_dab ([VText [111; 110; 101]%N; VInt 1] ++ w_res)%list in
  let ops := [OFlush; OWrite r; OFlush; OWrite r] in
  snd (fst (session w_id32 w_noint avro_cfg avro_code ops)) = [Accepted; Accepted; Accepted; Accepted]
  /\ read_flow w_noint avro_cfg (fst (fst (session w_id32 w_noint avro_cfg avro_code ops)))
     = FlowRead w_dab [map (normalise w_id32) (r_vals r); map (normalise w_id32) (r_vals r)] REnd.
Proof. split; vm_compute; reflexivity. Qed.

Lemma refuted_timestamp :
  let d := Desc "test/t" [("datetime", "ts")] in
  let r := Rec d ([VTime (-62135647200000000) 50400000000] ++ w_res)%list in
  well_typed_rec avro_cfg d (r_vals r) = true /\ representable_rec avro_cfg d (r_vals r) = true
  /\ snd (fst (session w_id32 w_noint avro_cfg avro_code [OWrite r])) = [Accepted]
  /\ read_flow w_noint avro_cfg (fst (fst (session w_id32 w_noint avro_cfg avro_code [OWrite r]))) = FlowRead d [] RFail.
Proof. repeat split; vm_compute; reflexivity. Qed.

Lemma refuted_digest :
  let d := Desc "test/d" [("digest", "dg")] in
  let r := Rec d ([VDigest] ++ w_res)%list in
  mappable avro_cfg d = true /\ well_typed_rec avro_cfg d (r_vals r) = true
  /\ snd (fst (session w_id32 w_noint avro_cfg avro_code [OWrite r])) = [Refused EValue].
Proof. repeat split; vm_compute; reflexivity. Qed.
