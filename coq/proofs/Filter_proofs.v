(* Proofs for C10 (model/Filter.v). *)
From Coq Require Import List Bool String.
Import ListNotations.
From FR Require Import Filter.
Open Scope list_scope.

Section LoopProofs.
Variables (R S : Type) (ms : S -> R -> S * option bool).

(* the result of matching a record does not depend on the matcher's state (= on what was matched before) *)
Definition history_independent : Prop := forall s s' r, snd (ms s r) = snd (ms s' r).

Lemma site_of_ok sh (it : item R) s r :
  shape_ok sh = true -> site_of R sh it = Some (s, r) -> site_ok s = true.
Proof.
  unfold shape_ok. intros H E. apply andb_prop in H. destruct H as [H1 H2].
  destruct it as [r0| |r0]; cbn in E.
  - inversion E; subst; exact H1.
  - discriminate E.
  - destruct (on_plain sh) as [p|]; [|discriminate E]. inversion E; subst. exact H2.
Qed.

Lemma site_ok_inv s : site_ok s = true ->
  s_guard s = GSelOrMatch /\ s_tested_same s = true /\ s_nonmatch_stops s = false.
Proof.
  unfold site_ok. intros H. apply andb_prop in H. destruct H as [H H3]. apply andb_prop in H. destruct H as [H1 H2].
  destruct (s_guard s); [|discriminate H1]. destruct (s_nonmatch_stops s); [discriminate H3|]. auto.
Qed.

Lemma post_filter_ext (m m' : R -> option bool) l : (forall r, m r = m' r) -> post_filter m l = post_filter m' l.
Proof.
  intros E. induction l as [|r t IH]; [reflexivity|]. cbn. rewrite <- E, IH. reflexivity.
Qed.

(* without selector nothing raises, whatever the shape *)
Lemma run_loop_nosel_snd sh prev items : snd (run_loop ms sh None prev items) = false.
Proof.
  revert prev. induction items as [|it rest IH]; intros prev; [reflexivity|].
  cbn [run_loop]. destruct (site_of R sh it) as [[s r]|]; [|apply IH].
  destruct (s_guard s); cbn; apply IH.
Qed.

Lemma run_loop_nosel_recs sh prev l : run_loop ms sh None prev (map IRec l) = (l, false).
Proof.
  revert prev. induction l as [|r t IH]; intros prev; [reflexivity|].
  cbn [map run_loop site_of]. destruct (s_guard (on_record sh)); rewrite IH; reflexivity.
Qed.

(* THE FILTER LAW: for a well-shaped loop and a matcher whose result does not depend on its (reachable) state,
   iterating with the selector = iterating without it and testing each record afterwards (with the selector in
   its initial state); raising selectors included (both stop at the same record with the same records yielded
   before).  [Inv] is any invariant of the matcher's state that makes the result state-independent. *)
Lemma run_loop_filter_inv sh (Inv : S -> Prop) :
  shape_ok sh = true ->
  (forall s r, Inv s -> Inv (fst (ms s r))) ->
  (forall s s' r, Inv s -> Inv s' -> snd (ms s r) = snd (ms s' r)) ->
  forall items s0 prev, Inv s0 ->
    run_loop ms sh (Some s0) prev items
    = post_filter (fun r => snd (ms s0 r)) (fst (run_loop ms sh None prev items)).
Proof.
  intros Hok Hstep Hhi. induction items as [|it rest IH]; intros s0 prev Hinv; [reflexivity|].
  cbn [run_loop]. destruct (site_of R sh it) as [[s r]|] eqn:E.
  - pose proof (site_of_ok _ _ _ _ Hok E) as Hs. apply site_ok_inv in Hs. destruct Hs as (Hg & Ht & Hn).
    rewrite Hg, Ht, Hn. cbn [cons_out fst post_filter].
    pose proof (Hstep s0 r Hinv) as Hinv'.
    destruct (ms s0 r) as [st' o] eqn:Em. cbn [fst snd] in *.
    destruct o as [[|]|].
    + rewrite (IH st' (Some r) Hinv'). f_equal. apply post_filter_ext. intros x. apply Hhi; assumption.
    + rewrite (IH st' (Some r) Hinv'). apply post_filter_ext. intros x. apply Hhi; assumption.
    + reflexivity.
  - apply IH. exact Hinv.
Qed.

Lemma run_loop_filter sh : shape_ok sh = true -> history_independent ->
  forall items s0 prev,
    run_loop ms sh (Some s0) prev items
    = post_filter (fun r => snd (ms s0 r)) (fst (run_loop ms sh None prev items)).
Proof.
  intros Hok Hhi items s0 prev.
  apply (run_loop_filter_inv sh (fun _ => True) Hok); auto.
Qed.

Lemma post_filter_total (m : R -> option bool) l :
  (forall r, In r l -> exists b, m r = Some b) -> post_filter m l = (filter (truth m) l, false).
Proof.
  induction l as [|r t IH]; intros H; [reflexivity|].
  cbn. unfold truth at 1. destruct (H r (or_introl eq_refl)) as [b Hb]. rewrite Hb.
  rewrite IH by (intros x Hx; apply H; right; exact Hx). destruct b; reflexivity.
Qed.

Lemma post_filter_in (m : R -> option bool) l r : In r (fst (post_filter m l)) -> In r l /\ m r = Some true.
Proof.
  induction l as [|x t IH]; cbn; [intros []|].
  destruct (m x) as [[|]|] eqn:Ex; cbn.
  - intros [H|H]; [subst; auto|]. destruct (IH H); auto.
  - intros H. destruct (IH H); auto.
  - intros [].
Qed.

(* the records yielded before a raise are the matching ones among the records before the offending record *)
Lemma post_filter_prefix (m : R -> option bool) l :
  snd (post_filter m l) = true ->
  exists pre r post, l = pre ++ r :: post /\ m r = None /\ (forall x, In x pre -> m x <> None)
                     /\ fst (post_filter m l) = filter (truth m) pre.
Proof.
  induction l as [|x t IH]; cbn; [discriminate|].
  destruct (m x) as [[|]|] eqn:Ex; cbn.
  - intros H. destruct (IH H) as (pre & r & post & E & Hr & Hpre & Hf).
    exists (x :: pre), r, post. subst t. repeat split; auto.
    + intros y [Hy|Hy]; [subst; congruence|auto].
    + cbn. unfold truth at 1. rewrite Ex. f_equal. exact Hf.
  - intros H. destruct (IH H) as (pre & r & post & E & Hr & Hpre & Hf).
    exists (x :: pre), r, post. subst t. repeat split; auto.
    + intros y [Hy|Hy]; [subst; congruence|auto].
    + cbn. unfold truth at 1. rewrite Ex. exact Hf.
  - intros _. exists [], x, t. repeat split; auto; intros y Hy; destruct Hy.
Qed.

End LoopProofs.

(* ------------------------------------------------------------------------------------------------------------ *)
(* the interpreted engine *)
Section InterpretedProofs.
Variables (R V : Type) (base_ns : R -> ns V) (evalx : ns V -> ns V * option bool).

Lemma selector_match_result reuse fresh :
  fresh || negb reuse = true ->
  forall st r, snd (selector_match base_ns evalx reuse fresh st r) = snd (evalx (base_ns r)).
Proof.
  intros H st r. unfold selector_match, matches. cbn [snd].
  destruct fresh; [reflexivity|]. destruct reuse; [discriminate H|].
  rewrite andb_false_r. cbn. unfold ns_update. rewrite app_nil_r. reflexivity.
Qed.

Lemma selector_match_independent reuse fresh :
  fresh || negb reuse = true ->
  forall st1 st2 r, snd (selector_match base_ns evalx reuse fresh st1 r)
                  = snd (selector_match base_ns evalx reuse fresh st2 r).
Proof. intros H st1 st2 r. rewrite !(selector_match_result _ _ H). reflexivity. Qed.

Lemma interpreted_ok_inv f : interpreted_ok f = true ->
  data_fresh_of f || negb (mf_selector_reuses_matcher f) = true.
Proof. unfold interpreted_ok. intros H. apply andb_prop in H. exact (proj1 H). Qed.

End InterpretedProofs.

(* the compiled engine *)
Section CompiledProofs.
Variables (R V : Type) (call_ns : R -> ns V) (evalc : ns V -> ns V * option bool).

Lemma compiled_match_keeps_ns shared r : fst (compiled_match call_ns evalc true shared r) = shared.
Proof. reflexivity. Qed.

Lemma compiled_after_keeps_ns shared h : compiled_after call_ns evalc true shared h = shared.
Proof. induction h as [|r t IH]; [reflexivity|]. cbn. exact IH. Qed.

Lemma compiled_match_result copied shared r :
  snd (compiled_match call_ns evalc copied shared r) = snd (evalc (ns_update shared (call_ns r))).
Proof. reflexivity. Qed.

Lemma compiled_not_shared copied : copied = true -> forall shared h r,
  compiled_after call_ns evalc copied shared h = shared
  /\ snd (compiled_match call_ns evalc copied (compiled_after call_ns evalc copied shared h) r)
     = snd (evalc (ns_update shared (call_ns r))).
Proof.
  intros -> shared h r. rewrite compiled_after_keeps_ns. split; reflexivity.
Qed.

Lemma compiled_inv_step copied : copied = true ->
  forall shared s r, s = shared -> fst (compiled_match call_ns evalc copied s r) = shared.
Proof. intros -> shared s r H. exact H. Qed.

Lemma compiled_inv_result copied shared s s' r : s = shared -> s' = shared ->
  snd (compiled_match call_ns evalc copied s r) = snd (compiled_match call_ns evalc copied s' r).
Proof. intros -> ->. reflexivity. Qed.

End CompiledProofs.

(* make_selector *)
Lemma sel_output_eqb_eq a b : sel_output_eqb a b = true -> a = b.
Proof. destruct a, b; cbn; intros H; try discriminate H; reflexivity. Qed.

Lemma make_selector_from_table t : ms_table_ok t = true ->
  forall i f, ms_lookup t i f = Some (make_selector_spec i f).
Proof.
  unfold ms_table_ok. intros H i f. rewrite forallb_forall in H.
  assert (Hin : In (i, f) all_inputs) by (destruct i, f; cbn; tauto).
  specialize (H _ Hin). cbn [fst snd] in H.
  destruct (ms_lookup t i f) as [o|]; [|discriminate H].
  apply sel_output_eqb_eq in H. rewrite H. reflexivity.
Qed.

(* ------------------------------------------------------------------------------------------------------------ *)
(* the hypotheses are needed: each deviation of a shape / of the matcher facts has a counterexample *)
Definition ms_eq1 (s : unit) (r : nat) : unit * option bool := (s, Some (Nat.eqb r 1)).
Definition sh_of (s : site) : reader_shape := {| on_record := s; on_plain := None |}.

Lemma refuted_unguarded_site :
  run_loop ms_eq1 (sh_of {| s_guard := GNone; s_tested_same := true; s_nonmatch_stops := false |}) (Some tt) None [IRec 0]
  <> post_filter (fun r => snd (ms_eq1 tt r)) [0].
Proof. cbn. discriminate. Qed.

Lemma refuted_break_on_nonmatch :
  run_loop ms_eq1 (sh_of {| s_guard := GSelOrMatch; s_tested_same := true; s_nonmatch_stops := true |}) (Some tt) None
    [IRec 0; IRec 1]
  <> post_filter (fun r => snd (ms_eq1 tt r)) [0; 1].
Proof. cbn. discriminate. Qed.

Lemma refuted_tests_other_object :
  run_loop ms_eq1 (sh_of {| s_guard := GSelOrMatch; s_tested_same := false; s_nonmatch_stops := false |}) (Some tt) None
    [IRec 1; IRec 0]
  <> post_filter (fun r => snd (ms_eq1 tt r)) [1; 0].
Proof. cbn. discriminate. Qed.

Lemma refuted_unguarded_plain_site :
  run_loop ms_eq1 {| on_record := {| s_guard := GSelOrMatch; s_tested_same := true; s_nonmatch_stops := false |};
                     on_plain := Some {| s_guard := GNone; s_tested_same := true; s_nonmatch_stops := false |} |}
    (Some tt) None [IPlain 0]
  <> post_filter (fun r => snd (ms_eq1 tt r)) [0].
Proof. cbn. discriminate. Qed.

(* `any(x == 1 for x in r.il)` with a namespace that is updated in place instead of rebuilt: the generator
   variable of the first record is still there for the second one and the guard "Generator variable overwrites
   existing variable" raises *)
Definition genvar_base (r : nat) : ns nat := [("r"%string, r)].
Definition genvar_eval (d : ns nat) : ns nat * option bool :=
  match ns_get d "x"%string with
  | Some _ => (d, None)
  | None => (("x"%string, 0) :: d, Some true)
  end.

Lemma refuted_namespace_updated_in_place :
  snd (selector_match genvar_base genvar_eval true false no_matcher 7) = Some true
  /\ snd (selector_match genvar_base genvar_eval true false
            (after_history genvar_base genvar_eval true false no_matcher [3]) 7) = None.
Proof. split; reflexivity. Qed.

(* a compiled selector that binds a name (walrus) in a namespace shared between calls *)
Definition walrus_eval (d : ns nat) : ns nat * option bool :=
  match ns_get d "seen"%string with
  | Some _ => (d, Some true)
  | None => (("seen"%string, 1) :: d, Some false)
  end.

Lemma refuted_compiled_ns_shared :
  snd (compiled_match genvar_base walrus_eval false [] 7) = Some false
  /\ snd (compiled_match genvar_base walrus_eval false (compiled_after genvar_base walrus_eval false [] [3]) 7) = Some true.
Proof. split; reflexivity. Qed.
