(* C01: several record streams one after the other in ONE file (cat a.records b.records; a second writer appending to the
   file a first one left).  Every part starts with its own header and repeats the definitions it needs; the reader skips the
   later headers, takes the definitions as they come (the latest registration wins) and decodes the records of a later
   part exactly as it would on that part alone, because decoding is monotone in the registry (Lost_proofs) and every
   lookup a part needs is answered by the definitions the part itself carries.  Hence: reading the concatenation yields
   the concatenation of the records, in order, with a clean end. *)
From Coq Require Import List Bool NArith ZArith Lia.
From Coq Require Import Init.Byte.
From FR Require Import Bytes Msgpack Msgpack_proofs Packer Stream Packer_proofs Values_proofs Stream_proofs Roundtrip_proofs
                       Cut_proofs Lost_proofs.
Import ListNotations.

Section Append.
Variable c : cfg.
Variable HASH : desc -> Z.
Variable depth : nat.

Notation kclean := (fun _ : registry => (@nil robj, CleanEOF)).

(* with more definitions (none of them shadowing a resolved one) an error-free run yields the same objects and ends in a
   registry that again has more *)
Lemma run_pre_mono : forall bodies r1 r2 out r1', reg_le r1 r2 ->
  run_pre c HASH depth r1 bodies = (out, Some r1') ->
  exists r2', run_pre c HASH depth r2 bodies = (out, Some r2') /\ reg_le r1' r2'.
Proof.
  induction bodies as [|b t IH]; intros r1 r2 out r1' Hle H; cbn [run_pre] in *.
  - inversion H; subst. exists r2. split; [reflexivity|exact Hle].
  - destruct (decode_body_mono c depth r1 r2 b Hle) as [E|E].
    + rewrite E in H. discriminate.
    + rewrite E. destruct (decode_body c depth r1 b) as [|d|it| |].
      * exact (IH _ _ _ _ Hle H).
      * exact (IH _ _ _ _ (reg_le_add HASH _ _ d Hle) H).
      * destruct (run_pre c HASH depth r1 t) as [o1 [ra|]] eqn:E1; inversion H; subst.
        destruct (IH _ _ _ _ Hle E1) as (r2' & E2 & Hle'). rewrite E2. exists r2'. split; [reflexivity|exact Hle'].
      * destruct (run_pre c HASH depth r1 t) as [o1 [ra|]] eqn:E1; inversion H; subst.
        destruct (IH _ _ _ _ Hle E1) as (r2' & E2 & Hle'). rewrite E2. exists r2'. split; [reflexivity|exact Hle'].
      * discriminate.
Qed.

Lemma reg_le_nil r : reg_le [] r.
Proof. split; intros; discriminate. Qed.

(* what a fresh writer emits for [items] after its header, run from the empty registry: the items, no error *)
Lemma run_pre_written : cfg_good c = true -> forall items, stream_okb c HASH depth [] items = true ->
  exists r', run_pre c HASH depth [] (write_all_bodies c HASH (st_of []) items) = (map RItem items, Some r').
Proof.
  intros G items Hok.
  pose proof (run_written c HASH depth G items [] Hok) as H.
  rewrite (run_bodies_pre c HASH depth) in H.
  destruct (run_pre c HASH depth [] (write_all_bodies c HASH (st_of []) items)) as [out [r|]].
  - injection H as H1. rewrite app_nil_r in H1. rewrite H1. exists r. reflexivity.
  - discriminate H.
Qed.

(* ... and run from ANY registry the reader is in when the part begins *)
Lemma run_part_then : cfg_good c = true -> forall items reg rest k, stream_okb c HASH depth [] items = true ->
  exists r', run_bodies c HASH depth reg (write_all_bodies c HASH (st_of []) items ++ rest) k =
             let '(o, oc) := run_bodies c HASH depth r' rest k in (map RItem items ++ o, oc).
Proof.
  intros G items reg rest k Hok.
  destruct (run_pre_written G items Hok) as (r0 & H0).
  destruct (run_pre_mono _ [] reg _ _ (reg_le_nil reg) H0) as (r' & H1 & _).
  exists r'. rewrite (run_bodies_app c HASH depth). rewrite (run_bodies_pre c HASH depth). rewrite H1. reflexivity.
Qed.

(* the bodies of one complete stream: header, then what the writer emits *)
Definition bodies_of (its : list item) : list bytes := header_body c :: write_all_bodies c HASH (st_of []) its.

Lemma frames_app a b : frames (a ++ b) = frames a ++ frames b.
Proof. unfold frames. rewrite map_app, concat_app. reflexivity. Qed.

Lemma write_stream_bodies its : write_stream c HASH its = frames (bodies_of its).
Proof.
  unfold write_stream, bodies_of. destruct its as [|it t].
  - cbn [write_all_bodies]. unfold frames. cbn [map concat]. rewrite app_nil_r. reflexivity.
  - rewrite write_all_first. reflexivity.
Qed.

Lemma concat_streams parts : concat (map (write_stream c HASH) parts) = frames (concat (map bodies_of parts)).
Proof.
  induction parts as [|p ps IH]; [reflexivity|].
  cbn [map concat]. rewrite frames_app, write_stream_bodies, IH. reflexivity.
Qed.

(* the header body decodes to the header object in every registry *)
Hypothesis header_ok : body_ok c depth (XBin (MAGIC c)) = true.

Lemma decode_header reg : cfg_good c = true -> decode_body c depth reg (header_body c) = OHeader.
Proof.
  intros G. destruct (cfg_good_inv c G) as (Hc & _).
  unfold header_body. rewrite (decode_body_of c depth reg _ Hc header_ok).
  cbn [interpret]. assert (E : bytes_eqb (MAGIC c) (MAGIC c) = true) by (apply bytes_eqb_eq; reflexivity).
  rewrite E. reflexivity.
Qed.

Lemma run_parts : cfg_good c = true -> forall parts reg,
  Forall (fun its => stream_okb c HASH depth [] its = true) parts ->
  run_bodies c HASH depth reg (concat (map bodies_of parts)) kclean = (map RItem (concat parts), CleanEOF).
Proof.
  intros G. induction parts as [|p ps IH]; intros reg Hall; [reflexivity|].
  inversion Hall as [|? ? Hp Hps]; subst.
  cbn [map concat]. unfold bodies_of at 1. cbn [app run_bodies]. rewrite (decode_header reg G).
  destruct (run_part_then G p reg (concat (map bodies_of ps)) kclean Hp) as (r' & H). rewrite H.
  rewrite (IH r' Hps). rewrite map_app. reflexivity.
Qed.

Lemma parts_small : forall parts, Forall (fun its => stream_okb c HASH depth [] its = true) parts ->
  Forall small (concat (map bodies_of parts)).
Proof.
  induction parts as [|p ps IH]; intros Hall; [constructor|].
  inversion Hall as [|? ? Hp Hps]; subst.
  cbn [map concat]. apply Forall_app. split; [|exact (IH Hps)].
  unfold bodies_of. constructor.
  - unfold header_body. apply (body_small c depth). exact header_ok.
  - apply (bodies_small c HASH depth). exact Hp.
Qed.

(* C01 (appended streams): the concatenation of complete streams reads back as the concatenation of their records *)
Theorem appended_roundtrip parts : cfg_good c = true -> parts <> [] ->
  Forall (fun its => stream_okb c HASH depth [] its = true) parts ->
  read_stream c HASH depth (concat (map (write_stream c HASH) parts)) = Read (map RItem (concat parts)) CleanEOF.
Proof.
  intros G Hne Hall. rewrite concat_streams.
  destruct parts as [|p ps]; [contradiction|].
  cbn [map concat]. unfold bodies_of at 1. cbn [app]. rewrite frames_cons.
  unfold read_stream. rewrite (read_header_frame c _ G).
  set (bodies := write_all_bodies c HASH (st_of []) p ++ concat (map bodies_of ps)).
  assert (Hsm : Forall small bodies).
  { pose proof (parts_small (p :: ps) Hall) as H. cbn [map concat] in H. unfold bodies_of at 1 in H. cbn [app] in H.
    inversion H; subst. assumption. }
  pose proof (frames_length bodies) as HL.
  rewrite <- (app_nil_r (frames bodies)) at 2.
  rewrite (read_loop_frames c HASH depth bodies [] [] (S (List.length (frames bodies))) 1 Hsm ltac:(lia)).
  - rewrite (run_bodies_ext c HASH depth bodies [] _ kclean).
    + pose proof (run_parts G (p :: ps) [] Hall) as H. cbn [map concat] in H. unfold bodies_of at 1 in H. cbn [app run_bodies] in H.
      rewrite (decode_header [] G) in H. fold bodies in H. rewrite H. reflexivity.
    + intros reg'. replace (S (List.length (frames bodies)) - List.length bodies)%nat
        with (S (List.length (frames bodies) - List.length bodies)) by lia. reflexivity.
  - intros reg'. replace (S (List.length (frames bodies)) - List.length bodies)%nat
      with (S (List.length (frames bodies) - List.length bodies)) by lia. reflexivity.
Qed.

End Append.
