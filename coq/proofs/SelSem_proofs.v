(* C07 -- proofs about model/SelSem.v *)
From Coq Require Import List Bool String ZArith NArith Lia.
Import ListNotations.
From FR Require Import SelAst Gen_selector Gen_selsem SelSem.
Open Scope list_scope.

(* ---------------- induction principle for expressions (nested lists, pairs, comprehensions) ---------------- *)
Section ExprInd.
Variable P : expr -> Prop.
Definition Pcomp (g : comp) : Prop := match g with Comp _ it cs => P it /\ Forall P cs end.
Hypothesis Hconst : forall v, P (EConst v).
Hypothesis Hname : forall n, P (EName n).
Hypothesis Hattr : forall e a, P e -> P (EAttr e a).
Hypothesis Hlist : forall es, Forall P es -> P (EList es).
Hypothesis Htuple : forall es, Forall P es -> P (ETuple es).
Hypothesis Hboolop : forall op es, Forall P es -> P (EBoolOp op es).
Hypothesis Hunary : forall op e, P e -> P (EUnary op e).
Hypothesis Hbinop : forall op l r, P l -> P r -> P (EBinOp op l r).
Hypothesis Hcompare : forall l rest, P l -> Forall (fun oc => P (snd oc)) rest -> P (ECompare l rest).
Hypothesis Hcall : forall f args kws, P f -> Forall P args -> Forall (fun kw => P (snd kw)) kws -> P (ECall f args kws).
Hypothesis Hquant : forall a elt gens, P elt -> Forall Pcomp gens -> P (EQuant a elt gens).
Hypothesis Hother : forall k, P (EOther k).

Fixpoint expr_ind' (e : expr) : P e :=
  let all := fix all (l : list expr) : Forall P l :=
    match l with [] => Forall_nil _ | x :: t => Forall_cons x (expr_ind' x) (all t) end in
  match e with
  | EConst v => Hconst v
  | EName n => Hname n
  | EAttr e a => Hattr e a (expr_ind' e)
  | EList es => Hlist es (all es)
  | ETuple es => Htuple es (all es)
  | EBoolOp op es => Hboolop op es (all es)
  | EUnary op e => Hunary op e (expr_ind' e)
  | EBinOp op l r => Hbinop op l r (expr_ind' l) (expr_ind' r)
  | ECompare l rest =>
      Hcompare l rest (expr_ind' l)
        ((fix go (l : list (cmpop * expr)) : Forall (fun oc => P (snd oc)) l :=
            match l with [] => Forall_nil _ | (o, x) :: t => Forall_cons (o, x) (expr_ind' x) (go t) end) rest)
  | ECall f args kws =>
      Hcall f args kws (expr_ind' f) (all args)
        ((fix go (l : list (string * expr)) : Forall (fun kw => P (snd kw)) l :=
            match l with [] => Forall_nil _ | (k, x) :: t => Forall_cons (k, x) (expr_ind' x) (go t) end) kws)
  | EQuant a elt gens =>
      Hquant a elt gens (expr_ind' elt)
        ((fix go (l : list comp) : Forall Pcomp l :=
            match l with
            | [] => Forall_nil _
            | Comp x it cs :: t => Forall_cons (Comp x it cs) (conj (expr_ind' it) (all cs)) (go t)
            end) gens)
  | EOther k => Hother k
  end.
End ExprInd.

(* ---------------- small facts ---------------- *)
Lemma chk_val strict r v : chk strict r = Val v -> r = Val v /\ (strict = true -> is_missing v = false).
Proof.
  unfold chk. destruct r as [w|x]; [|discriminate].
  destruct w; try (intros H; injection H as <-; split; [reflexivity|reflexivity]).
  destruct strict; [discriminate|]. intros H; injection H as <-. split; [reflexivity|discriminate].
Qed.

Lemma chk_false r : chk false r = r.
Proof. destruct r as [[]|]; reflexivity. Qed.

Lemma chk_intro strict r v : r = Val v -> is_missing v = false -> chk strict r = Val v.
Proof. intros -> H. destruct v; try reflexivity. discriminate. Qed.

(* ================= strict evaluation is Python evaluation where it is defined ================= *)
Section Mono.
Variable R : record.
Variable g1 g2 : names -> expr -> result.
Definition imp (e : expr) : Prop := forall ns v, g1 ns e = Val v -> g2 ns e = Val v.

Lemma p_seq_mono es : Forall imp es -> forall ns vs, p_seq g1 ns es = inl vs -> p_seq g2 ns es = inl vs.
Proof.
  induction 1 as [|e es He _ IH]; intros ns vs H; cbn in *; [exact H|].
  destruct (g1 ns e) as [v|x] eqn:E; [|discriminate]. rewrite (He _ _ E).
  destruct (p_seq g1 ns es) as [ws|x] eqn:E2; [|discriminate]. rewrite (IH _ _ E2). exact H.
Qed.

Lemma p_kws_mono kws : Forall (fun kw => imp (snd kw)) kws ->
  forall ns vs, p_kws g1 ns kws = inl vs -> p_kws g2 ns kws = inl vs.
Proof.
  induction 1 as [|[k e] kws He _ IH]; intros ns vs H; cbn in *; [exact H|].
  destruct (g1 ns e) as [v|x] eqn:E; [|discriminate]. rewrite (He _ _ E).
  destruct (p_kws g1 ns kws) as [ws|x] eqn:E2; [|discriminate]. rewrite (IH _ _ E2). exact H.
Qed.

Lemma p_lazy_of_seq op es : Forall imp es ->
  forall ns vs v, p_seq g1 ns es = inl vs -> select op vs = Val v -> p_lazy g2 op ns es = Val v.
Proof.
  induction 1 as [|e es He Hes IH]; intros ns vs v H S; cbn in H.
  - injection H as <-. discriminate S.
  - destruct (g1 ns e) as [w|x] eqn:E; [|discriminate].
    destruct (p_seq g1 ns es) as [ws|x] eqn:E2; [|discriminate]. injection H as <-.
    cbn [p_lazy]. destruct es as [|e' es'].
    + cbn in E2. injection E2 as <-. cbn in S. injection S as <-. exact (He _ _ E).
    + rewrite (He _ _ E).
      assert (Hws : exists w' ws', ws = w' :: ws').
      { cbn in E2. destruct (g1 ns e'); [|discriminate]. destruct (p_seq g1 ns es'); [|discriminate].
        injection E2 as <-. eauto. }
      destruct Hws as (w' & ws' & ->). cbn [select] in S.
      destruct (stops op w); [exact S|]. exact (IH _ _ _ E2 S).
Qed.

Lemma p_chain_mono (l1 l2 : cmpop -> value -> value -> result) rest :
  (forall op a b r, l1 op a b = Val r -> l2 op a b = Val r) ->
  Forall (fun oc => imp (snd oc)) rest ->
  forall ns a last v, p_chain g1 l1 ns rest a last = Val v -> p_chain g2 l2 ns rest a last = Val v.
Proof.
  intros Hl. induction 1 as [|[op c] rest He _ IH]; intros ns a last v H; cbn in *; [exact H|].
  destruct (g1 ns c) as [rv|x] eqn:E; [|discriminate]. rewrite (He _ _ E).
  destruct (l1 op a rv) as [res|x] eqn:EL; [|discriminate]. rewrite (Hl _ _ _ _ EL).
  destruct (truthy res); [exact (IH _ _ _ _ H)|exact H].
Qed.

Lemma p_ifs_mono cs : Forall imp cs -> forall ns b, p_ifs g1 ns cs = inl b -> p_ifs g2 ns cs = inl b.
Proof.
  induction 1 as [|c cs He _ IH]; intros ns b H; cbn in *; [exact H|].
  destruct (g1 ns c) as [v|x] eqn:E; [|discriminate]. rewrite (He _ _ E).
  destruct (truthy v); [exact (IH _ _ H)|exact H].
Qed.

Definition not_fail (s : scan) : Prop := match s with Fail _ => False | _ => True end.

Lemma p_gens_mono all_ elt gs : imp elt -> Forall (Pcomp imp) gs ->
  forall ns s, p_gens R g1 all_ elt gs ns = s -> not_fail s -> p_gens R g2 all_ elt gs ns = s.
Proof.
  intros Helt. induction 1 as [|[x it cs] gs [Hit Hcs] _ IH]; intros ns s H NF.
  - cbn in *. destruct (g1 ns elt) as [v|e] eqn:E; [|subst s; destruct NF]. rewrite (Helt _ _ E). exact H.
  - cbn [p_gens] in *. destruct (g1 ns it) as [iv|e] eqn:E; [|subst s; destruct NF]. rewrite (Hit _ _ E).
    destruct (iter_values R iv) as [vals|e]; [|subst s; destruct NF].
    revert s H NF. induction vals as [|v vs IHv]; intros s H NF; [exact H|].
    destruct (p_ifs g1 (bind x v ns) cs) as [b|e] eqn:EI; [|subst s; destruct NF].
    rewrite (p_ifs_mono cs Hcs _ _ EI). destruct b.
    + destruct (p_gens R g1 all_ elt gs (bind x v ns)) as [| |e] eqn:EG.
      * rewrite (IH _ _ EG I). exact H.
      * rewrite (IH _ _ EG I). exact (IHv _ H NF).
      * subst s. destruct NF.
    + exact (IHv _ H NF).
Qed.
End Mono.

Section StrictIsPython.
Variable R : record.
Variable roots : list string.
Variable wrapped : bool.
Variable keep : bool.
Notation py := (py_eval_gen R roots wrapped keep).

Lemma link_py_mono op a b r : link_py R keep true op a b = Val r -> link_py R keep false op a b = Val r.
Proof. destruct op; cbn; try (intros H; exact H); destruct (is_typem a); cbn; (discriminate || (intros H; exact H)). Qed.

Theorem strict_is_python : forall e ns v, py true ns e = Val v -> py false ns e = Val v.
Proof.
  induction e as [c|n|e a IHe|es IHes|es IHes|op es IHes|op e IHe|op l r IHl IHr|l rest IHl IHrest
                  |f args kws IHf IHargs IHkws|a elt gens IHelt IHgens|k] using expr_ind';
    intros ns v0 H; cbn [py_eval_gen] in *; apply chk_val in H; destruct H as [H _]; rewrite chk_false.
  - exact H.
  - exact H.
  - destruct (py true ns e) as [ov|x] eqn:E; [|discriminate]. rewrite (IHe _ _ E). exact H.
  - destruct (p_seq (py true) ns es) as [vs|x] eqn:E; [|discriminate].
    rewrite (p_seq_mono (py true) (py false) es IHes _ _ E). exact H.
  - destruct (p_seq (py true) ns es) as [vs|x] eqn:E; [|discriminate].
    rewrite (p_seq_mono (py true) (py false) es IHes _ _ E). exact H.
  - destruct (p_seq (py true) ns es) as [vs|x] eqn:E; [|discriminate].
    exact (p_lazy_of_seq (py true) (py false) op es IHes _ _ _ E H).
  - cbn [andb] in H. destruct (negb (lang_unop op)); [discriminate|].
    destruct (py true ns e) as [w|x] eqn:E; [|discriminate]. rewrite (IHe _ _ E). exact H.
  - cbn [andb] in H. destruct (negb (lang_binop op)); [discriminate|].
    destruct (py true ns l) as [a|x] eqn:E1; [|discriminate]. rewrite (IHl _ _ E1).
    destruct (py true ns r) as [b|x] eqn:E2; [|discriminate]. rewrite (IHr _ _ E2). exact H.
  - destruct (py true ns l) as [a|x] eqn:E; [|discriminate]. rewrite (IHl _ _ E).
    exact (p_chain_mono (py true) (py false) _ _ rest link_py_mono IHrest _ _ _ _ H).
  - destruct (py true ns f) as [fv|x] eqn:E; [|discriminate]. rewrite (IHf _ _ E).
    destruct (p_seq (py true) ns args) as [vs|x] eqn:EA; [|discriminate].
    rewrite (p_seq_mono (py true) (py false) args IHargs _ _ EA).
    destruct (p_kws (py true) ns kws) as [kvs|x] eqn:EK; [|discriminate].
    rewrite (p_kws_mono (py true) (py false) kws IHkws _ _ EK). exact H.
  - destruct (py_name roots ns (quant_name a)) as [[]|x]; try discriminate H; try exact H.
    destruct (String.eqb f (quant_name a)); [|discriminate].
    destruct (p_gens R (py true) a elt gens ns) as [| |x] eqn:E; try discriminate;
      rewrite (p_gens_mono R (py true) (py false) a elt gens IHelt IHgens _ _ E I); exact H.
  - discriminate.
Qed.
End StrictIsPython.


(* ================= the interpreter computes the Python meaning ================= *)
Lemma in_list_In x l : in_list x l = true <-> In x l.
Proof.
  unfold in_list. rewrite existsb_exists. split.
  - intros (y & Hy & E). apply String.eqb_eq in E. subst y. exact Hy.
  - intros H. exists x. split; [exact H|apply String.eqb_refl].
Qed.
Lemma in_list_false x l : in_list x l = false -> ~ In x l.
Proof. intros H Hin. apply in_list_In in Hin. rewrite Hin in H. discriminate. Qed.

Section Agreement.
Variable F : facts.
Hypothesis Hchained : chained F = true.
Hypothesis Hifs : ifs_honoured F = true.
Hypothesis Hkeep : tm_keeps_attrs F = true.
Hypothesis Hscoped : genvars_scoped F = true.
Variable R : record.
Notation py := (py_eval_gen R whitelist_roots false true true).
Notation itp := (interp F R).

(* Python's scope [ns] and the interpreter's namespace [d]: every name Python sees has the same value in d, and a
   field-type name Python resolves is not hidden in d *)
Definition agree (ns d : names) : Prop :=
  (forall n v, lookup n ns = Some v -> lookup n d = Some v) /\
  (forall n, in_list n whitelist_roots = true -> lookup n ns = None -> lookup n d = None).
Definition fresh (d : names) (xs : list string) : Prop :=
  forall x, In x xs -> lookup x d = None /\ in_list x whitelist_roots = false.
Definition names_fresh (ns : names) (xs : list string) : Prop :=
  forall y, In y xs -> lookup y ns = None /\ in_list y whitelist_roots = false.
Definition rel (bpos : bool) (v v' : value) : Prop := if bpos then truthy v' = truthy v else v' = v.
(* d' is d with bindings of names in XS put in front *)
Definition ext (XS : list string) (d d' : names) : Prop :=
  exists pre, d' = pre ++ d /\ Forall (fun kv => In (fst kv) XS) pre.

Lemma rel_eq bpos v : rel bpos v v.
Proof. destruct bpos; reflexivity. Qed.

Lemma fresh_app_l d xs ys : fresh d (xs ++ ys) -> fresh d xs.
Proof. intros H x Hx. apply H. apply in_or_app. left; exact Hx. Qed.
Lemma fresh_app_r d xs ys : fresh d (xs ++ ys) -> fresh d ys.
Proof. intros H x Hx. apply H. apply in_or_app. right; exact Hx. Qed.
Lemma fresh_incl d xs ys : fresh d ys -> incl xs ys -> fresh d xs.
Proof. intros H Hi x Hx. exact (H x (Hi x Hx)). Qed.
Lemma fresh_bind d G x v : fresh d G -> ~ In x G -> fresh (bind x v d) G.
Proof.
  intros H Hx y Hy. destruct (H y Hy) as [H1 H2]. split; [|exact H2]. cbn.
  destruct (String.eqb x y) eqn:E; [|exact H1]. apply String.eqb_eq in E. subst y. contradiction.
Qed.

Lemma ext_refl XS d : ext XS d d.
Proof. exists []. split; [reflexivity|constructor]. Qed.
Lemma ext_bind XS d d' x v : In x XS -> ext XS d d' -> ext XS d (bind x v d').
Proof. intros Hx (pre & -> & Hp). exists ((x, v) :: pre). split; [reflexivity|]. constructor; [exact Hx|exact Hp]. Qed.
Lemma ext_trans XS d d1 d2 : ext XS d d1 -> ext XS d1 d2 -> ext XS d d2.
Proof.
  intros (p1 & -> & H1) (p2 & -> & H2). exists (p2 ++ p1). split; [rewrite app_assoc; reflexivity|].
  apply Forall_app. split; assumption.
Qed.
Lemma ext_incl XS YS d d' : ext XS d d' -> incl XS YS -> ext YS d d'.
Proof.
  intros (p & -> & H) Hi. exists p. split; [reflexivity|]. eapply Forall_impl; [|exact H]. intros kv Hk. exact (Hi _ Hk).
Qed.
Lemma lookup_ext XS d d' n : ext XS d d' -> ~ In n XS -> lookup n d' = lookup n d.
Proof.
  intros (pre & -> & Hp) Hn. induction Hp as [|[k w] pre Hk _ IH]; [reflexivity|]. cbn.
  destruct (String.eqb k n) eqn:E; [|exact IH]. apply String.eqb_eq in E. subst k. cbn in Hk. contradiction.
Qed.
Lemma agree_ext ns XS d d' : agree ns d -> names_fresh ns XS -> ext XS d d' -> agree ns d'.
Proof.
  intros [A1 A2] HN HE. split.
  - intros n w H. destruct (in_dec string_dec n XS) as [Hin|Hin].
    + rewrite (proj1 (HN n Hin)) in H. discriminate.
    + rewrite (lookup_ext _ _ _ _ HE Hin). exact (A1 _ _ H).
  - intros n Hr H. destruct (in_dec string_dec n XS) as [Hin|Hin].
    + rewrite (proj2 (HN n Hin)) in Hr. discriminate.
    + rewrite (lookup_ext _ _ _ _ HE Hin). exact (A2 _ Hr H).
Qed.
Lemma fresh_ext XS d d' G : fresh d G -> (forall x, In x XS -> ~ In x G) -> ext XS d d' -> fresh d' G.
Proof.
  intros H HD HE y Hy. destruct (H y Hy) as [H1 H2]. split; [|exact H2].
  rewrite (lookup_ext _ _ _ y HE); [exact H1|]. intros Hin. exact (HD _ Hin Hy).
Qed.
Lemma lookup_none_keys x d : lookup x d = None -> forall kv, In kv d -> fst kv <> x.
Proof.
  induction d as [|[k w] d IH]; cbn; intros H kv Hin; [destruct Hin|].
  destruct (String.eqb k x) eqn:E; [discriminate|]. destruct Hin as [<-|Hin]; [|exact (IH H kv Hin)].
  cbn. intros ->. rewrite String.eqb_refl in E. discriminate.
Qed.
Lemma remove_ext XS d d' : (forall x, In x XS -> lookup x d = None) -> ext XS d d' -> remove_names XS d' = d.
Proof.
  intros HX (pre & -> & Hp). unfold remove_names. rewrite filter_app.
  assert (E1 : filter (fun kv : string * value => negb (in_list (fst kv) XS)) pre = []).
  { induction Hp as [|kv pre Hk _ IH]; [reflexivity|]. cbn. rewrite (proj2 (in_list_In _ _) Hk). exact IH. }
  assert (E2 : filter (fun kv : string * value => negb (in_list (fst kv) XS)) d = d).
  { assert (K : forall kv, In kv d -> in_list (fst kv) XS = false).
    { intros kv Hin. destruct (in_list (fst kv) XS) eqn:E; [|reflexivity]. apply in_list_In in E.
      exfalso. exact (lookup_none_keys _ _ (HX _ E) kv Hin eq_refl). }
    clear HX. induction d as [|kv d IH]; [reflexivity|]. cbn. rewrite (K kv (or_introl eq_refl)). cbn.
    f_equal. apply IH. intros kv' Hin. apply K. right; exact Hin. }
  rewrite E1, E2. reflexivity.
Qed.

Definition Pe (e : expr) : Prop := forall bpos ns d v,
  lang bpos e = true -> agree ns d -> fresh d (gvars e) -> scoped e = true ->
  py ns e = Val v ->
  exists v', itp d e = (Val v', d) /\ rel bpos v v'.

Lemma seq_agree es : Forall Pe es -> forall ns d vs,
  forallb (lang false) es = true -> agree ns d -> fresh d (flat_map gvars es) -> forallb scoped es = true ->
  p_seq py ns es = inl vs -> i_seq itp es d = (inl vs, d).
Proof.
  induction 1 as [|e es He _ IH]; intros ns d vs HL HA HF HS H; cbn in *.
  - injection H as <-. reflexivity.
  - apply andb_prop in HL. destruct HL as [HL1 HL2]. apply andb_prop in HS. destruct HS as [HS1 HS2].
    destruct (py ns e) as [v|x] eqn:E; [|discriminate].
    destruct (p_seq py ns es) as [ws|x] eqn:E2; [|discriminate]. injection H as <-.
    destruct (He false ns d v HL1 HA (fresh_app_l _ _ _ HF) HS1 E) as (v' & Ei & Hr). cbn in Hr. subst v'.
    rewrite Ei, (IH ns d ws HL2 HA (fresh_app_r _ _ _ HF) HS2 E2). reflexivity.
Qed.

Lemma kws_agree kws : Forall (fun kw => Pe (snd kw)) kws -> forall ns d vs,
  forallb (fun kw => lang false (snd kw)) kws = true -> agree ns d ->
  fresh d (flat_map (fun kw => gvars (snd kw)) kws) -> forallb (fun kw => scoped (snd kw)) kws = true ->
  p_kws py ns kws = inl vs -> i_kws itp kws d = (inl vs, d).
Proof.
  induction 1 as [|[k e] kws He _ IH]; intros ns d vs HL HA HF HS H; cbn in *.
  - injection H as <-. reflexivity.
  - apply andb_prop in HL. destruct HL as [HL1 HL2]. apply andb_prop in HS. destruct HS as [HS1 HS2].
    destruct (py ns e) as [v|x] eqn:E; [|discriminate].
    destruct (p_kws py ns kws) as [ws|x] eqn:E2; [|discriminate]. injection H as <-.
    destruct (He false ns d v HL1 HA (fresh_app_l _ _ _ HF) HS1 E) as (v' & Ei & Hr). cbn in Hr. subst v'.
    rewrite Ei, (IH ns d ws HL2 HA (fresh_app_r _ _ _ HF) HS2 E2). reflexivity.
Qed.

Lemma bools_agree es : Forall Pe es -> forall ns d vs,
  forallb (lang true) es = true -> agree ns d -> fresh d (flat_map gvars es) -> forallb scoped es = true ->
  p_seq py ns es = inl vs -> i_bools itp es d = (inl (map truthy vs), d).
Proof.
  induction 1 as [|e es He _ IH]; intros ns d vs HL HA HF HS H; cbn in *.
  - injection H as <-. reflexivity.
  - apply andb_prop in HL. destruct HL as [HL1 HL2]. apply andb_prop in HS. destruct HS as [HS1 HS2].
    destruct (py ns e) as [v|x] eqn:E; [|discriminate].
    destruct (p_seq py ns es) as [ws|x] eqn:E2; [|discriminate]. injection H as <-.
    destruct (He true ns d v HL1 HA (fresh_app_l _ _ _ HF) HS1 E) as (v' & Ei & Hr). cbn in Hr.
    rewrite Ei, (IH ns d ws HL2 HA (fresh_app_r _ _ _ HF) HS2 E2). cbn [map]. rewrite Hr. reflexivity.
Qed.


(* ---- primitives: where Python gives a value the interpreter's variant gives the same ---- *)
Lemma table_binop_ok op : lang_binop op = true -> table_op2 (binop_kind op) = Some (Some (binop_meaning op)).
Proof. destruct op; intros H; try discriminate H; reflexivity. Qed.
Lemma table_not_ok : table_op1 (unop_kind Not) = Some (Some py_not).
Proof. reflexivity. Qed.
Lemma table_boolop_ok op : table_op2 (boolop_kind op) = Some (Some (match op with And => py_and | Or => py_or end)).
Proof. destruct op; reflexivity. Qed.

Definition bool_fold (op : boolop) (bs : list bool) : bool :=
  match op with And => forallb (fun b => b) bs | Or => existsb (fun b => b) bs end.

Lemma fold_and b bs : fold_res py_and (VBool b) bs = Val (VBool (b && forallb (fun b => b) bs)).
Proof. revert b. induction bs as [|c bs IH]; intros b; cbn; [rewrite andb_true_r; reflexivity|].
  rewrite IH. rewrite andb_assoc. reflexivity. Qed.
Lemma fold_or b bs : fold_res py_or (VBool b) bs = Val (VBool (b || existsb (fun b => b) bs)).
Proof. revert b. induction bs as [|c bs IH]; intros b; cbn; [rewrite orb_false_r; reflexivity|].
  rewrite IH. rewrite orb_assoc. reflexivity. Qed.

Lemma select_truthy op vs v : select op vs = Val v -> truthy v = bool_fold op (map truthy vs).
Proof.
  induction vs as [|w vs IH]; cbn [select]; [discriminate|].
  destruct vs as [|w2 vs].
  - intros H; injection H as <-. destruct op; cbn; [rewrite andb_true_r|rewrite orb_false_r]; reflexivity.
  - destruct op; cbn [stops].
    + destruct (truthy w) eqn:T; cbn [negb].
      * intros H. rewrite (IH H). cbn. rewrite T. reflexivity.
      * intros H; injection H as <-. cbn. rewrite T. reflexivity.
    + destruct (truthy w) eqn:T.
      * intros H; injection H as <-. cbn. rewrite T. reflexivity.
      * intros H. rewrite (IH H). cbn. rewrite T. reflexivity.
Qed.

Lemma in_lambda_ok op a b : is_missing a = false -> is_missing b = false ->
  in_lambda F R op a b = match op with CNotIn => neg_res (contains true R b a) | _ => contains true R b a end.
Proof. intros Ha Hb. unfold in_lambda, guarded. rewrite Ha, Hb, Hkeep. destruct op; reflexivity. Qed.

Lemma link_ok op a b res : is_missing a = false -> is_missing b = false ->
  link_py R true true op a b = Val res -> link_interp F R op a b = Val res.
Proof.
  intros Ha Hb. destruct op; cbn [link_py]; intros H;
    try (destruct (is_typem a) eqn:T; cbn [andb] in H; [discriminate|]).
  - change (link_interp F R CEq a b) with (compare (tm_keeps_attrs F) R REq a b). rewrite Hkeep. exact H.
  - change (link_interp F R CNotEq a b) with (compare (tm_keeps_attrs F) R RNe a b). rewrite Hkeep. exact H.
  - change (link_interp F R CLt a b) with (compare (tm_keeps_attrs F) R RLt a b). rewrite Hkeep. exact H.
  - change (link_interp F R CLtE a b) with (compare (tm_keeps_attrs F) R RLe a b). rewrite Hkeep. exact H.
  - change (link_interp F R CGt a b) with (compare (tm_keeps_attrs F) R RGt a b). rewrite Hkeep. exact H.
  - change (link_interp F R CGtE a b) with (compare (tm_keeps_attrs F) R RGe a b). rewrite Hkeep. exact H.
  - (* in *)
    assert (E : link_interp F R CIn a b = in_lambda F R CIn a b) by (destruct a; try reflexivity; discriminate T).
    rewrite E, (in_lambda_ok CIn a b Ha Hb). exact H.
  - assert (E : link_interp F R CNotIn a b = in_lambda F R CNotIn a b) by (destruct a; try reflexivity; discriminate T).
    rewrite E, (in_lambda_ok CNotIn a b Ha Hb). exact H.
  - exact H.
  - exact H.
Qed.

Lemma name_ok ns d n v : agree ns d -> py_name whitelist_roots ns n = Val v -> interp_name d n = Val v.
Proof.
  intros [A1 A2]. unfold py_name, interp_name. destruct (lookup n ns) as [w|] eqn:E.
  - intros H. rewrite (A1 _ _ E). exact H.
  - destruct (in_list n whitelist_roots) eqn:Er.
    + intros H. rewrite (A2 _ Er E). exact H.
    + destruct (in_list n python_builtin_names); discriminate.
Qed.

Lemma getattr_ok o a v : getattr_py R false o a = Val v -> starts_dunder a = false /\ getattr_interp R o a = Val v.
Proof.
  unfold getattr_py, getattr_interp. destruct (starts_dunder a); [discriminate|].
  destruct (getattr_found R o a) as [r|]; [intros H; split; [reflexivity|exact H]|].
  destruct o; try discriminate.
  all: destruct sentinel_attribute_is_sentinel; [intros H; split; [reflexivity|exact H]|discriminate].
Qed.

Lemma apply_allowed fv vs kvs v : apply R fv vs kvs = Val v -> allowed_callable fv = true.
Proof.
  unfold apply, allowed_callable. destruct fv; try discriminate; [reflexivity|].
  destruct (in_list path whitelist); [reflexivity|discriminate].
Qed.


Lemma agree_bind ns d x v : agree ns d -> agree (bind x v ns) (bind x v d).
Proof.
  intros [A1 A2]. split; intros n; cbn; destruct (String.eqb x n); auto.
Qed.
Lemma agree_none ns d x : agree ns d -> lookup x d = None -> lookup x ns = None.
Proof. intros [A1 _] H. destruct (lookup x ns) as [w|] eqn:E; [|reflexivity]. rewrite (A1 _ _ E) in H. discriminate. Qed.

Lemma py_not_missing ns e v : py ns e = Val v -> is_missing v = false.
Proof. intros H. destruct e; cbn [py_eval_gen] in H; apply chk_val in H; destruct H as [_ H]; exact (H eq_refl). Qed.

(* ---- the comparison chain ---- *)
Lemma chain_agree rest : Forall (fun oc => Pe (snd oc)) rest -> forall ns d a last v,
  forallb (fun oc => lang false (snd oc)) rest = true -> agree ns d ->
  fresh d (flat_map (fun oc => gvars (snd oc)) rest) -> forallb (fun oc => scoped (snd oc)) rest = true ->
  is_missing a = false ->
  p_chain py (link_py R true true) ns rest a last = Val v ->
  i_chain F R itp rest a last d = (Val v, d).
Proof.
  induction 1 as [|[op c] rest He _ IH]; intros ns d a last v HL HA HF HS Ha H; cbn in *.
  - rewrite H. reflexivity.
  - apply andb_prop in HL. destruct HL as [HL1 HL2]. apply andb_prop in HS. destruct HS as [HS1 HS2].
    destruct (py ns c) as [rv|x] eqn:E; [|discriminate].
    destruct (He false ns d rv HL1 HA (fresh_app_l _ _ _ HF) HS1 E) as (v' & Ei & Hr). cbn in Hr. subst v'. rewrite Ei.
    assert (Hrv : is_missing rv = false) by exact (py_not_missing _ _ _ E).
    destruct (link_py R true true op a rv) as [res|x] eqn:EL; [|discriminate].
    rewrite (link_ok _ _ _ _ Ha Hrv EL).
    destruct (truthy res); [exact (IH ns d rv res v HL2 HA (fresh_app_r _ _ _ HF) HS2 Hrv H)|rewrite H; reflexivity].
Qed.

(* ---- generator expressions ---- *)
Lemma ifs_agree cs : Forall Pe cs -> forall ns d b,
  forallb (lang true) cs = true -> agree ns d -> fresh d (flat_map gvars cs) -> forallb scoped cs = true ->
  p_ifs py ns cs = inl b -> i_ifs itp cs d = (inl b, d).
Proof.
  induction 1 as [|c cs He _ IH]; intros ns d b HL HA HF HS H; cbn in *.
  - injection H as <-. reflexivity.
  - apply andb_prop in HL. destruct HL as [HL1 HL2]. apply andb_prop in HS. destruct HS as [HS1 HS2].
    destruct (py ns c) as [v|x] eqn:E; [|discriminate].
    destruct (He true ns d v HL1 HA (fresh_app_l _ _ _ HF) HS1 E) as (v' & Ei & Hr). cbn in Hr. rewrite Ei, Hr.
    destruct (truthy v); [exact (IH ns d b HL2 HA (fresh_app_r _ _ _ HF) HS2 H)|injection H as <-; reflexivity].
Qed.

Lemma iter_interp_ok iv : is_missing iv = false -> iter_values_interp R iv = iter_values R iv.
Proof. destruct iv; try reflexivity. discriminate. Qed.

Section Gens.
Variable all_ : bool.
Variable elt : expr.
Variable G : list string.        (* the generator variables bound anywhere inside this generator expression *)
Hypothesis Helt : Pe elt.
Hypothesis HLelt : lang true elt = true.
Hypothesis HSelt : scoped elt = true.
Hypothesis HGelt : incl (gvars elt) G.

Definition comp_ok (g : comp) : Prop :=
  match g with
  | Comp _ it cs => lang false it = true /\ forallb (lang true) cs = true /\ scoped it = true /\
                    forallb scoped cs = true /\ incl (gvars it) G /\ incl (flat_map gvars cs) G
  end.

Lemma gens_agree gs : Forall (Pcomp Pe) gs -> Forall comp_ok gs ->
  forall ns D s, agree ns D -> fresh D G -> names_fresh ns (map comp_target gs) -> NoDup (map comp_target gs) ->
    (forall x, In x (map comp_target gs) -> ~ In x G) ->
    p_gens R py all_ elt gs ns = s -> not_fail s ->
    exists D', i_gens F R itp all_ elt gs D = (s, D') /\ ext (map comp_target gs) D D'.
Proof.
  induction 1 as [|[x it cs] gs' [Hit Hcs] _ IH]; intros HOK ns D s HA HF HNF HND HDJ H NF.
  - cbn in *. destruct (py ns elt) as [v|e] eqn:E; [|subst s; destruct NF].
    destruct (Helt true ns D v HLelt HA (fresh_incl _ _ _ HF HGelt) HSelt E) as (v' & Ei & Hr). cbn in Hr.
    rewrite Ei. exists D. split; [|apply ext_refl]. subst s. unfold decisive. rewrite Hr. reflexivity.
  - pose proof (Forall_inv HOK) as HO. pose proof (Forall_inv_tail HOK) as HOK'. cbn [comp_ok] in HO.
    destruct HO as (HLit & HLcs & HSit & HScs & HGit & HGcs).
    cbn [p_gens i_gens map comp_target] in *. rewrite Hifs.
    destruct (py ns it) as [iv|e] eqn:E; [|subst s; destruct NF].
    destruct (Hit false ns D iv HLit HA (fresh_incl _ _ _ HF HGit) HSit E) as (iv' & Ei & Hr). cbn in Hr. subst iv'.
    rewrite Ei. rewrite (iter_interp_ok iv (py_not_missing _ _ _ E)).
    destruct (iter_values R iv) as [vals|e]; [|subst s; destruct NF].
    destruct (HNF x (or_introl eq_refl)) as [Hx Hxr].
    assert (HNF' : forall v, names_fresh (bind x v ns) (map comp_target gs')).
    { intros v y Hy. destruct (HNF y (or_intror Hy)) as [H1 H2]. split; [|exact H2]. cbn.
      destruct (String.eqb x y) eqn:Exy; [|exact H1]. apply String.eqb_eq in Exy. subst y.
      inversion HND; subst. contradiction. }
    assert (HND' : NoDup (map comp_target gs')) by (inversion HND; assumption).
    assert (HDJ' : forall y, In y (map comp_target gs') -> ~ In y G) by (intros y Hy; apply HDJ; right; exact Hy).
    assert (HxG : ~ In x G) by (apply HDJ; left; reflexivity).
    set (XS := x :: map comp_target gs') in *.
    (* the loop over the values, from any state Dk reached so far *)
    match goal with
    | |- exists D', ?L vals D = _ /\ _ =>
        cut (forall Dk, ext XS D Dk -> exists D', L vals Dk = (s, D') /\ ext XS D D')
    end.
    { intros C. exact (C D (ext_refl _ _)). }
    revert s H NF. induction vals as [|v vs IHv]; intros s H NF Dk HE.
    + subst s. exists Dk. split; [reflexivity|exact HE].
    + pose proof (agree_ext ns XS D Dk HA HNF HE) as HAk.
      pose proof (fresh_ext XS D Dk G HF HDJ HE) as HFk.
      pose proof (agree_bind _ _ x v HAk) as HA1.
      pose proof (fresh_bind _ _ x v HFk HxG) as HF1.
      assert (HE1 : ext XS D (bind x v Dk)) by (apply ext_bind; [left; reflexivity|exact HE]).
      destruct (p_ifs py (bind x v ns) cs) as [b|e] eqn:EI; [|subst s; destruct NF].
      rewrite (ifs_agree cs Hcs _ (bind x v Dk) b HLcs HA1 (fresh_incl _ _ _ HF1 HGcs) HScs EI).
      destruct b.
      * destruct (p_gens R py all_ elt gs' (bind x v ns)) as [| |e] eqn:EG.
        -- destruct (IH HOK' _ (bind x v Dk) _ HA1 HF1 (HNF' v) HND' HDJ' EG I) as (D3 & Ei3 & HE3). rewrite Ei3.
           subst s. exists D3. split; [reflexivity|].
           apply (ext_trans _ _ _ _ HE1). apply (ext_incl _ _ _ _ HE3). intros y Hy. right; exact Hy.
        -- destruct (IH HOK' _ (bind x v Dk) _ HA1 HF1 (HNF' v) HND' HDJ' EG I) as (D3 & Ei3 & HE3). rewrite Ei3.
           apply (IHv s H NF D3).
           apply (ext_trans _ _ _ _ HE1). apply (ext_incl _ _ _ _ HE3). intros y Hy. right; exact Hy.
        -- subst s. destruct NF.
      * exact (IHv s H NF _ HE1).
Qed.
End Gens.

Lemma gens_gvars_in gens y :
  In y (map comp_target gens) \/ In y (flat_map comp_inner gens) ->
  In y (flat_map (fun g => match g with Comp x it cs => x :: gvars it ++ flat_map gvars cs end) gens).
Proof.
  induction gens as [|[x it cs] gs IH]; cbn [map flat_map comp_target comp_inner].
  - intros [[]|[]].
  - intros H. cbn. rewrite !in_app_iff in *. cbn in H. tauto.
Qed.

Lemma targets_unbound d gs : fresh d (map comp_target gs) -> existsb (fun g => in_dom (comp_target g) d) gs = false.
Proof.
  induction gs as [|g gs IH]; cbn; [reflexivity|]. intros H.
  unfold in_dom at 1. rewrite (proj1 (H (comp_target g) (or_introl eq_refl))). cbn.
  apply IH. intros y Hy. apply H. right; exact Hy.
Qed.

Lemma nodupb_NoDup l : nodupb l = true -> NoDup l.
Proof.
  induction l as [|x l IH]; cbn; intros H; [constructor|]. apply andb_prop in H. destruct H as [H1 H2].
  constructor; [|exact (IH H2)]. apply negb_true_iff in H1. exact (in_list_false _ _ H1).
Qed.

Lemma interp_call_unfold d f args kws : callee_shape f = true ->
  itp d (ECall f args kws) =
  match itp d f with
  | (rf, d1) =>
      match (match rf with Val fv => inl (Some fv) | Exc EAttributeError => inl None | Exc x => inr x end) with
      | inr x => (Exc x, d1)
      | inl None => (Exc EInvalidOperation, d1)
      | inl (Some fv) =>
          if negb (allowed_callable fv) then (Exc EInvalidOperation, d1)
          else match i_seq itp args d1 with
               | (inr x, d2) => (Exc x, d2)
               | (inl vs, d2) =>
                   match i_kws itp kws d2 with
                   | (inr x, d3) => (Exc x, d3)
                   | (inl kvs, d3) => (apply R fv vs kvs, d3)
                   end
               end
      end
  end.
Proof. destruct f; try discriminate; intros _; reflexivity. Qed.


Theorem interp_agrees : forall e, Pe e.
Proof.
  induction e as [c|n|e a IHe|es IHes|es IHes|op es IHes|op e IHe|op l r IHl IHr|l rest IHl IHrest
                  |f args kws IHf IHargs IHkws|a elt gens IHelt IHgens|k] using expr_ind';
    intros bpos ns d v HL HA HF HS H; cbn [py_eval_gen] in H; apply chk_val in H; destruct H as [H _];
    cbn [lang gvars scoped] in *.
  - (* constant *) injection H as <-. exists c. split; [reflexivity|apply rel_eq].
  - (* name *) exists v. split; [cbn [interp]; rewrite (name_ok _ _ _ _ HA H); reflexivity|apply rel_eq].
  - (* attribute *)
    destruct (py ns e) as [ov|x] eqn:E; [|discriminate].
    destruct (IHe false ns d ov HL HA HF HS E) as (ov' & Ei & Hr). cbn in Hr. subst ov'.
    destruct (getattr_ok _ _ _ H) as [Hd Hg].
    exists v. split; [cbn [interp]; rewrite Hd, Ei, Hg; reflexivity|apply rel_eq].
  - (* list *)
    destruct (p_seq py ns es) as [vs|x] eqn:E; [|discriminate]. injection H as <-.
    exists (VList vs). split; [cbn [interp]; rewrite (seq_agree es IHes ns d vs HL HA HF HS E); reflexivity|apply rel_eq].
  - (* tuple *)
    destruct (p_seq py ns es) as [vs|x] eqn:E; [|discriminate]. injection H as <-.
    exists (VTuple vs). split; [cbn [interp]; rewrite (seq_agree es IHes ns d vs HL HA HF HS E); reflexivity|apply rel_eq].
  - (* and / or *)
    apply andb_prop in HL. destruct HL as [Hb HL]. subst bpos.
    destruct (p_seq py ns es) as [vs|x] eqn:E; [|discriminate].
    pose proof (bools_agree es IHes ns d vs HL HA HF HS E) as Ei.
    destruct vs as [|w ws]; [discriminate H|].
    pose proof (select_truthy _ _ _ H) as HT.
    destruct ws as [|w2 ws].
    + exists (VBool (truthy w)). split; [cbn [interp]; rewrite Ei; reflexivity|].
      cbn in H. injection H as <-. reflexivity.
    + exists (VBool (bool_fold op (map truthy (w :: w2 :: ws)))). split; [|symmetry; exact HT].
      cbn [interp]. rewrite Ei. cbn [map]. rewrite table_boolop_ok.
      destruct op; [rewrite fold_and|rewrite fold_or]; reflexivity.
  - (* not *)
    destruct op; try discriminate HL. cbn in H.
    destruct (py ns e) as [w|x] eqn:E; [|discriminate].
    destruct (IHe true ns d w HL HA HF HS E) as (w' & Ei & Hr). cbn in Hr.
    exists v. split; [|apply rel_eq].
    cbn [interp]. rewrite table_not_ok, Ei. unfold py_not in *. rewrite Hr. rewrite H. reflexivity.
  - (* binary operator *)
    apply andb_prop in HL. destruct HL as [HL HLr]. apply andb_prop in HL. destruct HL as [HLo HLl].
    apply andb_prop in HS. destruct HS as [HSl HSr].
    rewrite HLo in H. cbn in H.
    destruct (py ns l) as [x|x] eqn:E1; [|discriminate].
    destruct (py ns r) as [y|y] eqn:E2; [|discriminate].
    destruct (IHl false ns d x HLl HA (fresh_app_l _ _ _ HF) HSl E1) as (x' & Ei1 & Hr1). cbn in Hr1. subst x'.
    destruct (IHr false ns d y HLr HA (fresh_app_r _ _ _ HF) HSr E2) as (y' & Ei2 & Hr2). cbn in Hr2. subst y'.
    exists v. split; [|apply rel_eq].
    cbn [interp]. rewrite (table_binop_ok _ HLo). rewrite andb_false_r.
    rewrite Ei1, Ei2, (py_not_missing _ _ _ E1), (py_not_missing _ _ _ E2). cbn [orb]. rewrite H. reflexivity.
  - (* comparison *)
    apply andb_prop in HL. destruct HL as [HLl HLr]. apply andb_prop in HS. destruct HS as [HSl HSr].
    destruct (py ns l) as [x|x] eqn:E1; [|discriminate].
    destruct (IHl false ns d x HLl HA (fresh_app_l _ _ _ HF) HSl E1) as (x' & Ei1 & Hr1). cbn in Hr1. subst x'.
    exists v. split; [|apply rel_eq].
    cbn [interp]. rewrite Ei1, Hchained.
    exact (chain_agree rest IHrest ns d x (VBool true) v HLr HA (fresh_app_r _ _ _ HF) HSr (py_not_missing _ _ _ E1) H).
  - (* call *)
    apply andb_prop in HL. destruct HL as [HL HLk]. apply andb_prop in HL. destruct HL as [HL HLa].
    apply andb_prop in HL. destruct HL as [HLs HLf].
    apply andb_prop in HS. destruct HS as [HS HSk]. apply andb_prop in HS. destruct HS as [HSf HSa].
    destruct (py ns f) as [fv|x] eqn:E1; [|discriminate].
    destruct (p_seq py ns args) as [vs|x] eqn:E2; [|discriminate].
    destruct (p_kws py ns kws) as [kvs|x] eqn:E3; [|discriminate].
    destruct (IHf false ns d fv HLf HA (fresh_app_l _ _ _ HF) HSf E1) as (fv' & Ei1 & Hr1). cbn in Hr1. subst fv'.
    pose proof (fresh_app_r _ _ _ HF) as HF2.
    exists v. split; [|apply rel_eq].
    rewrite (interp_call_unfold _ _ _ _ HLs), Ei1, (apply_allowed _ _ _ _ H). cbn [negb].
    rewrite (seq_agree args IHargs ns d vs HLa HA (fresh_app_l _ _ _ HF2) HSa E2).
    rewrite (kws_agree kws IHkws ns d kvs HLk HA (fresh_app_r _ _ _ HF2) HSk E3), H. reflexivity.
  - (* any / all over a generator expression *)
    apply andb_prop in HL. destruct HL as [HLe HLg].
    apply andb_prop in HS. destruct HS as [HS HSg]. apply andb_prop in HS. destruct HS as [HS HSe].
    apply andb_prop in HS. destruct HS as [HSn HSd].
    set (XS := map comp_target gens) in *. set (G := gvars elt ++ flat_map comp_inner gens) in *.
    assert (HLg' : forallb (fun g => match g with Comp _ it cs => lang false it && forallb (lang true) cs end) gens = true)
      by (destruct gens; [discriminate HLg|exact HLg]).
    assert (HFX : fresh d XS).
    { intros y Hy. apply HF. apply in_or_app. left. apply gens_gvars_in. left; exact Hy. }
    assert (HFG : fresh d G).
    { intros y Hy. apply HF. unfold G in Hy. apply in_app_or in Hy. destruct Hy as [Hy|Hy];
        apply in_or_app; [right; exact Hy|left; apply gens_gvars_in; right; exact Hy]. }
    assert (HDJ : forall x, In x XS -> ~ In x G).
    { intros x Hx. unfold disjointb in HSd. rewrite forallb_forall in HSd. specialize (HSd x Hx).
      apply negb_true_iff in HSd. exact (in_list_false _ _ HSd). }
    assert (HNF : names_fresh ns XS).
    { intros y Hy. destruct (HFX y Hy) as [H1 H2]. split; [exact (agree_none _ _ _ HA H1)|exact H2]. }
    assert (HOK : Forall (comp_ok G) gens).
    { apply Forall_forall. intros [x it cs] Hg. rewrite forallb_forall in HLg', HSg.
      pose proof (HLg' _ Hg) as H1. pose proof (HSg _ Hg) as H2. cbn in H1, H2.
      apply andb_prop in H1. destruct H1 as [H1a H1b]. apply andb_prop in H2. destruct H2 as [H2a H2b].
      cbn [comp_ok]. repeat split; try assumption.
      - intros y Hy. unfold G. apply in_or_app. right. apply in_flat_map. exists (Comp x it cs). split; [exact Hg|].
        cbn [comp_inner]. apply in_or_app. left; exact Hy.
      - intros y Hy. unfold G. apply in_or_app. right. apply in_flat_map. exists (Comp x it cs). split; [exact Hg|].
        cbn [comp_inner]. apply in_or_app. right; exact Hy. }
    assert (HGe : incl (gvars elt) G) by (intros y Hy; unfold G; apply in_or_app; left; exact Hy).
    destruct (py_name whitelist_roots ns (quant_name a)) as [fq|ex] eqn:EQN; [|discriminate H].
    assert (EQI : interp_name d (quant_name a) = Val fq) by exact (name_ok _ _ _ _ HA EQN).
    destruct fq as [| | | | | | | | | | |q|]; try discriminate H.
    destruct (String.eqb q (quant_name a)) eqn:EQq; [|discriminate H].
    destruct (p_gens R py a elt gens ns) as [| |ex] eqn:EG; try discriminate H.
    all: destruct (gens_agree a elt G IHelt HLe HSe HGe gens IHgens HOK ns d _ HA HFG HNF (nodupb_NoDup _ HSn) HDJ EG I)
           as (d' & Ei & HE).
    all: exists v; split; [|apply rel_eq].
    all: cbn [interp]; rewrite EQI; cbn [allowed_callable negb]; rewrite EQq; cbn [negb];
         rewrite (targets_unbound d gens HFX), Ei, Hscoped;
         rewrite (remove_ext (map comp_target gens) d d' (fun x Hx => proj1 (HFX x Hx)) HE); exact (f_equal (fun r => (r, d)) H).
  - (* other node kinds are not in the language *) discriminate HL.
Qed.
End Agreement.

(* ================= top-level statements ================= *)
Definition facts_ok (F : facts) : bool :=
  chained F && ifs_honoured F && tm_keeps_attrs F && genvars_scoped F && binop_lookup_first F.

Lemma agree_refl d : agree d d.
Proof. split; auto. Qed.

Lemma fresh_vars_spec e : fresh_vars e = true -> fresh std_data (gvars e) /\ scoped e = true.
Proof.
  unfold fresh_vars. intros H. apply andb_prop in H. destruct H as [H1 H2]. split; [|exact H1].
  intros x Hx. rewrite forallb_forall in H2. specialize (H2 x Hx). apply andb_prop in H2. destruct H2 as [H2 H3].
  apply negb_true_iff in H2, H3. split; [|exact H3]. unfold in_dom in H2. destruct (lookup x std_data); [discriminate|reflexivity].
Qed.

Lemma facts_ok_inv F : facts_ok F = true ->
  chained F = true /\ ifs_honoured F = true /\ tm_keeps_attrs F = true /\ genvars_scoped F = true /\ binop_lookup_first F = true.
Proof. unfold facts_ok. intros H. repeat (apply andb_prop in H; destruct H as [H ?]). repeat split; assumption. Qed.

Theorem interpreted_correct F R e v :
  facts_ok F = true -> in_language e = true -> fresh_vars e = true ->
  py_eval_gen R whitelist_roots false true true std_data e = Val v ->
  (exists v', fst (interp F R std_data e) = Val v' /\ truthy v' = truthy v) /\
  py_eval_gen R whitelist_roots false true false std_data e = Val v.
Proof.
  intros HFo HL HFv H. destruct (facts_ok_inv F HFo) as (Hc & Hi & Hk & Hs & _).
  destruct (fresh_vars_spec e HFv) as [Hf Hsc].
  destruct (interp_agrees F Hc Hi Hk Hs R e true std_data std_data v HL (agree_refl _) Hf Hsc H) as (v' & Ei & Hr).
  split; [|exact (strict_is_python R whitelist_roots false true e std_data v H)].
  exists v'. rewrite Ei. split; [reflexivity|exact Hr].
Qed.

Theorem interpreted_values F R e v :
  facts_ok F = true -> lang false e = true -> fresh_vars e = true ->
  py_eval_gen R whitelist_roots false true true std_data e = Val v ->
  fst (interp F R std_data e) = Val v /\ py_eval_gen R whitelist_roots false true false std_data e = Val v.
Proof.
  intros HFo HL HFv H. destruct (facts_ok_inv F HFo) as (Hc & Hi & Hk & Hs & _).
  destruct (fresh_vars_spec e HFv) as [Hf Hsc].
  destruct (interp_agrees F Hc Hi Hk Hs R e false std_data std_data v HL (agree_refl _) Hf Hsc H) as (v' & Ei & Hr).
  cbn in Hr. subst v'. split; [rewrite Ei; reflexivity|exact (strict_is_python R whitelist_roots false true e std_data v H)].
Qed.

(* the namespace is the same again after a successful evaluation: generator variables do not leak *)
Theorem interpreted_state_restored F R e v :
  facts_ok F = true -> in_language e = true -> fresh_vars e = true ->
  py_eval_gen R whitelist_roots false true true std_data e = Val v ->
  snd (interp F R std_data e) = std_data.
Proof.
  intros HFo HL HFv H. destruct (facts_ok_inv F HFo) as (Hc & Hi & Hk & Hs & _).
  destruct (fresh_vars_spec e HFv) as [Hf Hsc].
  destruct (interp_agrees F Hc Hi Hk Hs R e true std_data std_data v HL (agree_refl _) Hf Hsc H) as (v' & Ei & _).
  rewrite Ei. reflexivity.
Qed.

(* ---- rejected with an error ---- *)
Definition outside_node (e : expr) : bool :=
  match e with
  | EOther _ => true
  | EUnary op _ => negb (lang_unop op)
  | _ => false
  end.

Lemma rejects_outside F R d e : outside_node e = true -> exists x, fst (interp F R d e) = Exc x.
Proof.
  destruct e; try discriminate; cbn [outside_node].
  - destruct op; try discriminate; intros _; eexists; reflexivity.
  - intros _. eexists; reflexivity.
Qed.

Lemma rejects_binop F R d op l r : binop_lookup_first F = true -> lang_binop op = false ->
  fst (interp F R d (EBinOp op l r)) = Exc EKeyError.
Proof. intros HF H. cbn [interp]. rewrite HF. destruct op; try discriminate H; reflexivity. Qed.
