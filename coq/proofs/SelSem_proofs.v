(* C07 -- proofs about model/SelSem.v *)
From Coq Require Import List Bool String ZArith NArith Lia.
Import ListNotations.
From FR Require Import SelAst Gen_selector Gen_selsem SelSem.
Open Scope list_scope.

(* ---------------- induction principle for expressions (nested lists, pairs, comprehensions) ---------------- *)
Section ExprInd.
Variable P : expr -> Prop.
Definition Pcomp (g : comp) : Prop := match g with Comp _ it cs => P it /\ Forall P cs end.
Hypothesis Hconst : forall v, P (EConst v).
Hypothesis Hname : forall n, P (EName n).
Hypothesis Hattr : forall e a, P e -> P (EAttr e a).
Hypothesis Hlist : forall es, Forall P es -> P (EList es).
Hypothesis Htuple : forall es, Forall P es -> P (ETuple es).
Hypothesis Hboolop : forall op es, Forall P es -> P (EBoolOp op es).
Hypothesis Hunary : forall op e, P e -> P (EUnary op e).
Hypothesis Hbinop : forall op l r, P l -> P r -> P (EBinOp op l r).
Hypothesis Hcompare : forall l rest, P l -> Forall (fun oc => P (snd oc)) rest -> P (ECompare l rest).
Hypothesis Hcall : forall f args kws, P f -> Forall P args -> Forall (fun kw => P (snd kw)) kws -> P (ECall f args kws).
Hypothesis Hquant : forall a elt gens, P elt -> Forall Pcomp gens -> P (EQuant a elt gens).
Hypothesis Hother : forall k, P (EOther k).

Fixpoint expr_ind' (e : expr) : P e :=
  let all := fix all (l : list expr) : Forall P l :=
    match l with [] => Forall_nil _ | x :: t => Forall_cons x (expr_ind' x) (all t) end in
  match e with
  | EConst v => Hconst v
  | EName n => Hname n
  | EAttr e a => Hattr e a (expr_ind' e)
  | EList es => Hlist es (all es)
  | ETuple es => Htuple es (all es)
  | EBoolOp op es => Hboolop op es (all es)
  | EUnary op e => Hunary op e (expr_ind' e)
  | EBinOp op l r => Hbinop op l r (expr_ind' l) (expr_ind' r)
  | ECompare l rest =>
      Hcompare l rest (expr_ind' l)
        ((fix go (l : list (cmpop * expr)) : Forall (fun oc => P (snd oc)) l :=
            match l with [] => Forall_nil _ | (o, x) :: t => Forall_cons (o, x) (expr_ind' x) (go t) end) rest)
  | ECall f args kws =>
      Hcall f args kws (expr_ind' f) (all args)
        ((fix go (l : list (string * expr)) : Forall (fun kw => P (snd kw)) l :=
            match l with [] => Forall_nil _ | (k, x) :: t => Forall_cons (k, x) (expr_ind' x) (go t) end) kws)
  | EQuant a elt gens =>
      Hquant a elt gens (expr_ind' elt)
        ((fix go (l : list comp) : Forall Pcomp l :=
            match l with
            | [] => Forall_nil _
            | Comp x it cs :: t => Forall_cons (Comp x it cs) (conj (expr_ind' it) (all cs)) (go t)
            end) gens)
  | EOther k => Hother k
  end.
End ExprInd.

(* ---------------- small facts ---------------- *)
Lemma chk_val strict r v : chk strict r = Val v -> r = Val v /\ (strict = true -> is_missing v = false).
Proof.
  unfold chk. destruct r as [w|x]; [|discriminate].
  destruct w; try (intros H; injection H as <-; split; [reflexivity|reflexivity]).
  destruct strict; [discriminate|]. intros H; injection H as <-. split; [reflexivity|discriminate].
Qed.

Lemma chk_false r : chk false r = r.
Proof. destruct r as [[]|]; reflexivity. Qed.

Lemma chk_intro strict r v : r = Val v -> is_missing v = false -> chk strict r = Val v.
Proof. intros -> H. destruct v; try reflexivity. discriminate. Qed.

(* ================= strict evaluation is Python evaluation where it is defined ================= *)
Section Mono.
Variable R : record.
Variable g1 g2 : names -> expr -> result.
Definition imp (e : expr) : Prop := forall ns v, g1 ns e = Val v -> g2 ns e = Val v.

Lemma p_seq_mono es : Forall imp es -> forall ns vs, p_seq g1 ns es = inl vs -> p_seq g2 ns es = inl vs.
Proof.
  induction 1 as [|e es He _ IH]; intros ns vs H; cbn in *; [exact H|].
  destruct (g1 ns e) as [v|x] eqn:E; [|discriminate]. rewrite (He _ _ E).
  destruct (p_seq g1 ns es) as [ws|x] eqn:E2; [|discriminate]. rewrite (IH _ _ E2). exact H.
Qed.

Lemma p_kws_mono kws : Forall (fun kw => imp (snd kw)) kws ->
  forall ns vs, p_kws g1 ns kws = inl vs -> p_kws g2 ns kws = inl vs.
Proof.
  induction 1 as [|[k e] kws He _ IH]; intros ns vs H; cbn in *; [exact H|].
  destruct (g1 ns e) as [v|x] eqn:E; [|discriminate]. rewrite (He _ _ E).
  destruct (p_kws g1 ns kws) as [ws|x] eqn:E2; [|discriminate]. rewrite (IH _ _ E2). exact H.
Qed.

Lemma p_lazy_of_seq op es : Forall imp es ->
  forall ns vs v, p_seq g1 ns es = inl vs -> select op vs = Val v -> p_lazy g2 op ns es = Val v.
Proof.
  induction 1 as [|e es He Hes IH]; intros ns vs v H S; cbn in H.
  - injection H as <-. discriminate S.
  - destruct (g1 ns e) as [w|x] eqn:E; [|discriminate].
    destruct (p_seq g1 ns es) as [ws|x] eqn:E2; [|discriminate]. injection H as <-.
    cbn [p_lazy]. destruct es as [|e' es'].
    + cbn in E2. injection E2 as <-. cbn in S. injection S as <-. exact (He _ _ E).
    + rewrite (He _ _ E).
      assert (Hws : exists w' ws', ws = w' :: ws').
      { cbn in E2. destruct (g1 ns e'); [|discriminate]. destruct (p_seq g1 ns es'); [|discriminate].
        injection E2 as <-. eauto. }
      destruct Hws as (w' & ws' & ->). cbn [select] in S.
      destruct (stops op w); [exact S|]. exact (IH _ _ _ E2 S).
Qed.

Lemma p_chain_mono (l1 l2 : cmpop -> value -> value -> result) rest :
  (forall op a b r, l1 op a b = Val r -> l2 op a b = Val r) ->
  Forall (fun oc => imp (snd oc)) rest ->
  forall ns a last v, p_chain g1 l1 ns rest a last = Val v -> p_chain g2 l2 ns rest a last = Val v.
Proof.
  intros Hl. induction 1 as [|[op c] rest He _ IH]; intros ns a last v H; cbn in *; [exact H|].
  destruct (g1 ns c) as [rv|x] eqn:E; [|discriminate]. rewrite (He _ _ E).
  destruct (l1 op a rv) as [res|x] eqn:EL; [|discriminate]. rewrite (Hl _ _ _ _ EL).
  destruct (truthy res); [exact (IH _ _ _ _ H)|exact H].
Qed.

Lemma p_ifs_mono cs : Forall imp cs -> forall ns b, p_ifs g1 ns cs = inl b -> p_ifs g2 ns cs = inl b.
Proof.
  induction 1 as [|c cs He _ IH]; intros ns b H; cbn in *; [exact H|].
  destruct (g1 ns c) as [v|x] eqn:E; [|discriminate]. rewrite (He _ _ E).
  destruct (truthy v); [exact (IH _ _ H)|exact H].
Qed.

Definition not_fail (s : scan) : Prop := match s with Fail _ => False | _ => True end.

Lemma p_gens_mono all_ elt gs : imp elt -> Forall (Pcomp imp) gs ->
  forall ns s, p_gens R g1 all_ elt gs ns = s -> not_fail s -> p_gens R g2 all_ elt gs ns = s.
Proof.
  intros Helt. induction 1 as [|[x it cs] gs [Hit Hcs] _ IH]; intros ns s H NF.
  - cbn in *. destruct (g1 ns elt) as [v|e] eqn:E; [|subst s; destruct NF]. rewrite (Helt _ _ E). exact H.
  - cbn [p_gens] in *. destruct (g1 ns it) as [iv|e] eqn:E; [|subst s; destruct NF]. rewrite (Hit _ _ E).
    destruct (iter_values R iv) as [vals|e]; [|subst s; destruct NF].
    revert s H NF. induction vals as [|v vs IHv]; intros s H NF; [exact H|].
    destruct (p_ifs g1 (bind x v ns) cs) as [b|e] eqn:EI; [|subst s; destruct NF].
    rewrite (p_ifs_mono cs Hcs _ _ EI). destruct b.
    + destruct (p_gens R g1 all_ elt gs (bind x v ns)) as [| |e] eqn:EG.
      * rewrite (IH _ _ EG I). exact H.
      * rewrite (IH _ _ EG I). exact (IHv _ H NF).
      * subst s. destruct NF.
    + exact (IHv _ H NF).
Qed.
End Mono.

Section StrictIsPython.
Variable R : record.
Variable roots : list string.
Variable wrapped : bool.
Variable keep : bool.
Notation py := (py_eval_gen R roots wrapped keep).

Lemma link_py_mono op a b r : link_py R keep true op a b = Val r -> link_py R keep false op a b = Val r.
Proof. destruct op; cbn; try (intros H; exact H); destruct (is_typem a); cbn; (discriminate || (intros H; exact H)). Qed.

Theorem strict_is_python : forall e ns v, py true ns e = Val v -> py false ns e = Val v.
Proof.
  induction e as [c|n|e a IHe|es IHes|es IHes|op es IHes|op e IHe|op l r IHl IHr|l rest IHl IHrest
                  |f args kws IHf IHargs IHkws|a elt gens IHelt IHgens|k] using expr_ind';
    intros ns v0 H; cbn [py_eval_gen] in *; apply chk_val in H; destruct H as [H _]; rewrite chk_false.
  - exact H.
  - exact H.
  - destruct (py true ns e) as [ov|x] eqn:E; [|discriminate]. rewrite (IHe _ _ E). exact H.
  - destruct (p_seq (py true) ns es) as [vs|x] eqn:E; [|discriminate].
    rewrite (p_seq_mono (py true) (py false) es IHes _ _ E). exact H.
  - destruct (p_seq (py true) ns es) as [vs|x] eqn:E; [|discriminate].
    rewrite (p_seq_mono (py true) (py false) es IHes _ _ E). exact H.
  - destruct (p_seq (py true) ns es) as [vs|x] eqn:E; [|discriminate].
    exact (p_lazy_of_seq (py true) (py false) op es IHes _ _ _ E H).
  - cbn [andb] in H. destruct (negb (lang_unop op)); [discriminate|].
    destruct (py true ns e) as [w|x] eqn:E; [|discriminate]. rewrite (IHe _ _ E). exact H.
  - cbn [andb] in H. destruct (negb (lang_binop op)); [discriminate|].
    destruct (py true ns l) as [a|x] eqn:E1; [|discriminate]. rewrite (IHl _ _ E1).
    destruct (py true ns r) as [b|x] eqn:E2; [|discriminate]. rewrite (IHr _ _ E2). exact H.
  - destruct (py true ns l) as [a|x] eqn:E; [|discriminate]. rewrite (IHl _ _ E).
    exact (p_chain_mono (py true) (py false) _ _ rest link_py_mono IHrest _ _ _ _ H).
  - destruct (py true ns f) as [fv|x] eqn:E; [|discriminate]. rewrite (IHf _ _ E).
    destruct (p_seq (py true) ns args) as [vs|x] eqn:EA; [|discriminate].
    rewrite (p_seq_mono (py true) (py false) args IHargs _ _ EA).
    destruct (p_kws (py true) ns kws) as [kvs|x] eqn:EK; [|discriminate].
    rewrite (p_kws_mono (py true) (py false) kws IHkws _ _ EK). exact H.
  - destruct (py_name roots ns (quant_name a)) as [[]|x]; try discriminate H; try exact H.
    destruct (String.eqb f (quant_name a)); [|discriminate].
    destruct (p_gens R (py true) a elt gens ns) as [| |x] eqn:E; try discriminate;
      rewrite (p_gens_mono R (py true) (py false) a elt gens IHelt IHgens _ _ E I); exact H.
  - discriminate.
Qed.
End StrictIsPython.

(* ================= the interpreter computes the Python meaning ================= *)
Lemma NoDup_app_l {A} (xs ys : list A) : NoDup (xs ++ ys) -> NoDup xs.
Proof. induction xs as [|x xs IH]; cbn; intros H; [constructor|]. inversion H; subst. constructor; [|auto].
  intros Hin. apply H2. apply in_or_app. left; exact Hin. Qed.
Lemma NoDup_app_r {A} (xs ys : list A) : NoDup (xs ++ ys) -> NoDup ys.
Proof. induction xs as [|x xs IH]; cbn; intros H; [exact H|]. inversion H; subst. auto. Qed.
Lemma NoDup_app_disj {A} (xs ys : list A) : NoDup (xs ++ ys) -> forall x, In x xs -> In x ys -> False.
Proof. induction xs as [|x xs IH]; cbn; intros H y Hx Hy; [exact Hx|]. inversion H; subst.
  destruct Hx as [->|Hx]; [apply H2; apply in_or_app; right; exact Hy|exact (IH H3 y Hx Hy)]. Qed.

Section Agreement.
Variable F : facts.
Hypothesis Hchained : chained F = true.
Hypothesis Hifs : ifs_honoured F = true.
Hypothesis Hkeep : tm_keeps_attrs F = true.
Variable R : record.
Notation py := (py_eval_gen R whitelist_roots false true true).
Notation itp := (interp F R).

Definition agree (ns d : names) : Prop :=
  (forall n v, lookup n ns = Some v -> lookup n d = Some v) /\
  (forall n, in_list n whitelist_roots = true -> lookup n ns = None -> lookup n d = None).
Definition fresh (d : names) (xs : list string) : Prop :=
  forall x, In x xs -> lookup x d = None /\ in_list x whitelist_roots = false.
Definition grows (d d' : names) (xs : list string) : Prop :=
  forall n, lookup n d' <> None -> lookup n d <> None \/ In n xs.
Definition rel (bpos : bool) (v v' : value) : Prop := if bpos then truthy v' = truthy v else v' = v.

Lemma rel_eq bpos v : rel bpos v v.
Proof. destruct bpos; reflexivity. Qed.

Lemma grows_refl d xs : grows d d xs.
Proof. intros n H. left; exact H. Qed.
Lemma grows_trans d d1 d2 xs ys : grows d d1 xs -> grows d1 d2 ys -> grows d d2 (xs ++ ys).
Proof. intros H1 H2 n H. destruct (H2 n H) as [H3|H3]; [destruct (H1 n H3) as [H4|H4]|].
  - left; exact H4. - right; apply in_or_app; left; exact H4. - right; apply in_or_app; right; exact H3. Qed.
Lemma grows_incl d d' xs ys : grows d d' xs -> incl xs ys -> grows d d' ys.
Proof. intros H Hi n Hn. destruct (H n Hn) as [H1|H1]; [left; exact H1|right; exact (Hi _ H1)]. Qed.

Lemma fresh_app_l d xs ys : fresh d (xs ++ ys) -> fresh d xs.
Proof. intros H x Hx. apply H. apply in_or_app. left; exact Hx. Qed.
Lemma fresh_app_r d xs ys : fresh d (xs ++ ys) -> fresh d ys.
Proof. intros H x Hx. apply H. apply in_or_app. right; exact Hx. Qed.
Lemma fresh_next d d1 xs ys : fresh d (xs ++ ys) -> NoDup (xs ++ ys) -> grows d d1 xs -> fresh d1 ys.
Proof.
  intros Hf Hn Hg x Hx. destruct (Hf x (in_or_app _ _ _ (or_intror Hx))) as [H1 H2]. split; [|exact H2].
  destruct (lookup x d1) as [w|] eqn:E; [|reflexivity]. exfalso.
  assert (Hne : lookup x d1 <> None) by (rewrite E; discriminate).
  destruct (Hg x Hne) as [H3|H3]; [exact (H3 H1)|exact (NoDup_app_disj _ _ Hn x H3 Hx)].
Qed.
Lemma fresh_nil d : fresh d [].
Proof. intros x []. Qed.

Definition Pe (e : expr) : Prop := forall bpos ns d v,
  lang bpos e = true -> agree ns d -> fresh d (gvars e) -> NoDup (gvars e) ->
  py ns e = Val v ->
  exists v' d', itp d e = (Val v', d') /\ rel bpos v v' /\ agree ns d' /\ grows d d' (gvars e).

Lemma seq_agree es : Forall Pe es -> forall ns d vs,
  forallb (lang false) es = true -> agree ns d -> fresh d (flat_map gvars es) -> NoDup (flat_map gvars es) ->
  p_seq py ns es = inl vs ->
  exists d', i_seq itp es d = (inl vs, d') /\ agree ns d' /\ grows d d' (flat_map gvars es).
Proof.
  induction 1 as [|e es He _ IH]; intros ns d vs HL HA HF HN H; cbn in *.
  - injection H as <-. exists d. repeat split; [exact (proj1 HA)|exact (proj2 HA)|apply grows_refl].
  - apply andb_prop in HL. destruct HL as [HL1 HL2].
    destruct (py ns e) as [v|x] eqn:E; [|discriminate].
    destruct (p_seq py ns es) as [ws|x] eqn:E2; [|discriminate]. injection H as <-.
    destruct (He false ns d v HL1 HA (fresh_app_l _ _ _ HF) (NoDup_app_l _ _ HN) E) as (v' & d1 & Ei & Hr & HA1 & HG1).
    cbn in Hr. subst v'. rewrite Ei.
    destruct (IH ns d1 ws HL2 HA1 (fresh_next _ _ _ _ HF HN HG1) (NoDup_app_r _ _ HN) E2) as (d2 & Ei2 & HA2 & HG2).
    rewrite Ei2. exists d2. repeat split; [exact (proj1 HA2)|exact (proj2 HA2)|exact (grows_trans _ _ _ _ _ HG1 HG2)].
Qed.

Lemma kws_agree kws : Forall (fun kw => Pe (snd kw)) kws -> forall ns d vs,
  forallb (fun kw => lang false (snd kw)) kws = true -> agree ns d ->
  fresh d (flat_map (fun kw => gvars (snd kw)) kws) -> NoDup (flat_map (fun kw => gvars (snd kw)) kws) ->
  p_kws py ns kws = inl vs ->
  exists d', i_kws itp kws d = (inl vs, d') /\ agree ns d' /\ grows d d' (flat_map (fun kw => gvars (snd kw)) kws).
Proof.
  induction 1 as [|[k e] kws He _ IH]; intros ns d vs HL HA HF HN H; cbn in *.
  - injection H as <-. exists d. repeat split; [exact (proj1 HA)|exact (proj2 HA)|apply grows_refl].
  - apply andb_prop in HL. destruct HL as [HL1 HL2].
    destruct (py ns e) as [v|x] eqn:E; [|discriminate].
    destruct (p_kws py ns kws) as [ws|x] eqn:E2; [|discriminate]. injection H as <-.
    destruct (He false ns d v HL1 HA (fresh_app_l _ _ _ HF) (NoDup_app_l _ _ HN) E) as (v' & d1 & Ei & Hr & HA1 & HG1).
    cbn in Hr. subst v'. rewrite Ei.
    destruct (IH ns d1 ws HL2 HA1 (fresh_next _ _ _ _ HF HN HG1) (NoDup_app_r _ _ HN) E2) as (d2 & Ei2 & HA2 & HG2).
    rewrite Ei2. exists d2. repeat split; [exact (proj1 HA2)|exact (proj2 HA2)|exact (grows_trans _ _ _ _ _ HG1 HG2)].
Qed.

Lemma bools_agree es : Forall Pe es -> forall ns d vs,
  forallb (lang true) es = true -> agree ns d -> fresh d (flat_map gvars es) -> NoDup (flat_map gvars es) ->
  p_seq py ns es = inl vs ->
  exists d', i_bools itp es d = (inl (map truthy vs), d') /\ agree ns d' /\ grows d d' (flat_map gvars es).
Proof.
  induction 1 as [|e es He _ IH]; intros ns d vs HL HA HF HN H; cbn in *.
  - injection H as <-. exists d. repeat split; [exact (proj1 HA)|exact (proj2 HA)|apply grows_refl].
  - apply andb_prop in HL. destruct HL as [HL1 HL2].
    destruct (py ns e) as [v|x] eqn:E; [|discriminate].
    destruct (p_seq py ns es) as [ws|x] eqn:E2; [|discriminate]. injection H as <-.
    destruct (He true ns d v HL1 HA (fresh_app_l _ _ _ HF) (NoDup_app_l _ _ HN) E) as (v' & d1 & Ei & Hr & HA1 & HG1).
    cbn in Hr. rewrite Ei.
    destruct (IH ns d1 ws HL2 HA1 (fresh_next _ _ _ _ HF HN HG1) (NoDup_app_r _ _ HN) E2) as (d2 & Ei2 & HA2 & HG2).
    rewrite Ei2. cbn [map]. rewrite Hr. exists d2.
    repeat split; [exact (proj1 HA2)|exact (proj2 HA2)|exact (grows_trans _ _ _ _ _ HG1 HG2)].
Qed.

(* ---- primitives: where Python gives a value the interpreter's variant gives the same ---- *)
Lemma table_binop_ok op : lang_binop op = true -> table_op2 (binop_kind op) = Some (Some (binop_meaning op)).
Proof. destruct op; intros H; try discriminate H; reflexivity. Qed.
Lemma table_not_ok : table_op1 (unop_kind Not) = Some (Some py_not).
Proof. reflexivity. Qed.
Lemma table_boolop_ok op : table_op2 (boolop_kind op) = Some (Some (match op with And => py_and | Or => py_or end)).
Proof. destruct op; reflexivity. Qed.

Definition bool_fold (op : boolop) (bs : list bool) : bool :=
  match op with And => forallb (fun b => b) bs | Or => existsb (fun b => b) bs end.

Lemma fold_and b bs : fold_res py_and (VBool b) bs = Val (VBool (b && forallb (fun b => b) bs)).
Proof. revert b. induction bs as [|c bs IH]; intros b; cbn; [rewrite andb_true_r; reflexivity|].
  rewrite IH. rewrite andb_assoc. reflexivity. Qed.
Lemma fold_or b bs : fold_res py_or (VBool b) bs = Val (VBool (b || existsb (fun b => b) bs)).
Proof. revert b. induction bs as [|c bs IH]; intros b; cbn; [rewrite orb_false_r; reflexivity|].
  rewrite IH. rewrite orb_assoc. reflexivity. Qed.

Lemma select_truthy op vs v : select op vs = Val v -> truthy v = bool_fold op (map truthy vs).
Proof.
  induction vs as [|w vs IH]; cbn [select]; [discriminate|].
  destruct vs as [|w2 vs].
  - intros H; injection H as <-. destruct op; cbn; [rewrite andb_true_r|rewrite orb_false_r]; reflexivity.
  - destruct op; cbn [stops].
    + destruct (truthy w) eqn:T; cbn [negb].
      * intros H. rewrite (IH H). cbn. rewrite T. reflexivity.
      * intros H; injection H as <-. cbn. rewrite T. reflexivity.
    + destruct (truthy w) eqn:T.
      * intros H; injection H as <-. cbn. rewrite T. reflexivity.
      * intros H. rewrite (IH H). cbn. rewrite T. reflexivity.
Qed.

Lemma in_lambda_ok op a b : is_missing a = false -> is_missing b = false ->
  in_lambda F R op a b = match op with CNotIn => neg_res (contains true R b a) | _ => contains true R b a end.
Proof. intros Ha Hb. unfold in_lambda, guarded. rewrite Ha, Hb, Hkeep. destruct op; reflexivity. Qed.

Lemma link_ok op a b res : is_missing a = false -> is_missing b = false ->
  link_py R true true op a b = Val res -> link_interp F R op a b = Val res.
Proof.
  intros Ha Hb. destruct op; cbn [link_py]; intros H;
    try (destruct (is_typem a) eqn:T; cbn [andb] in H; [discriminate|]).
  - change (link_interp F R CEq a b) with (compare (tm_keeps_attrs F) R REq a b). rewrite Hkeep. exact H.
  - change (link_interp F R CNotEq a b) with (compare (tm_keeps_attrs F) R RNe a b). rewrite Hkeep. exact H.
  - change (link_interp F R CLt a b) with (compare (tm_keeps_attrs F) R RLt a b). rewrite Hkeep. exact H.
  - change (link_interp F R CLtE a b) with (compare (tm_keeps_attrs F) R RLe a b). rewrite Hkeep. exact H.
  - change (link_interp F R CGt a b) with (compare (tm_keeps_attrs F) R RGt a b). rewrite Hkeep. exact H.
  - change (link_interp F R CGtE a b) with (compare (tm_keeps_attrs F) R RGe a b). rewrite Hkeep. exact H.
  - (* in *)
    assert (E : link_interp F R CIn a b = in_lambda F R CIn a b) by (destruct a; try reflexivity; discriminate T).
    rewrite E, (in_lambda_ok CIn a b Ha Hb). exact H.
  - assert (E : link_interp F R CNotIn a b = in_lambda F R CNotIn a b) by (destruct a; try reflexivity; discriminate T).
    rewrite E, (in_lambda_ok CNotIn a b Ha Hb). exact H.
  - exact H.
  - exact H.
Qed.

Lemma name_ok ns d n v : agree ns d -> py_name whitelist_roots ns n = Val v -> interp_name d n = Val v.
Proof.
  intros [A1 A2]. unfold py_name, interp_name. destruct (lookup n ns) as [w|] eqn:E.
  - intros H. rewrite (A1 _ _ E). exact H.
  - destruct (in_list n whitelist_roots) eqn:Er.
    + intros H. rewrite (A2 _ Er E). exact H.
    + destruct (in_list n python_builtin_names); discriminate.
Qed.

Lemma getattr_ok o a v : getattr_py R false o a = Val v -> starts_dunder a = false /\ getattr_interp R o a = Val v.
Proof.
  unfold getattr_py, getattr_interp. destruct (starts_dunder a); [discriminate|].
  destruct (getattr_found R o a) as [r|]; [intros H; split; [reflexivity|exact H]|].
  destruct o; discriminate.
Qed.

Lemma apply_allowed fv vs kvs v : apply R fv vs kvs = Val v -> allowed_callable fv = true.
Proof.
  unfold apply, allowed_callable. destruct fv; try discriminate; [reflexivity|].
  destruct (in_list path whitelist); [reflexivity|discriminate].
Qed.

Lemma no_gvars_nil e : no_gvars e = true -> gvars e = [].
Proof. unfold no_gvars. destruct (gvars e); [reflexivity|discriminate]. Qed.

Lemma agree_bind ns d x v : agree ns d -> agree (bind x v ns) (bind x v d).
Proof.
  intros [A1 A2]. split; intros n; cbn; destruct (String.eqb x n); auto.
Qed.
Lemma agree_unbind ns d x v : lookup x ns = None -> in_list x whitelist_roots = false ->
  agree (bind x v ns) d -> agree ns d.
Proof.
  intros Hx Hr [A1 A2]. split.
  - intros n w H. apply A1. cbn. destruct (String.eqb x n) eqn:E; [|exact H].
    apply String.eqb_eq in E. subst n. rewrite Hx in H. discriminate.
  - intros n Hn H. apply A2; [exact Hn|]. cbn. destruct (String.eqb x n) eqn:E; [|exact H].
    apply String.eqb_eq in E. subst n. rewrite Hr in Hn. discriminate.
Qed.
Lemma agree_none ns d x : agree ns d -> lookup x d = None -> lookup x ns = None.
Proof. intros [A1 _] H. destruct (lookup x ns) as [w|] eqn:E; [|reflexivity]. rewrite (A1 _ _ E) in H. discriminate. Qed.

Lemma grows_bind d x v : grows d (bind x v d) [x].
Proof. intros n. cbn. destruct (String.eqb x n) eqn:E; [|intros H; left; exact H].
  apply String.eqb_eq in E. subst n. intros _. right. left. reflexivity. Qed.

Lemma py_not_missing ns e v : py ns e = Val v -> is_missing v = false.
Proof. intros H. destruct e; cbn [py_eval_gen] in H; apply chk_val in H; destruct H as [_ H]; exact (H eq_refl). Qed.

(* ---- the comparison chain ---- *)
Lemma chain_agree rest : Forall (fun oc => Pe (snd oc)) rest -> forall ns d a last v,
  forallb (fun oc => lang false (snd oc)) rest = true -> agree ns d ->
  fresh d (flat_map (fun oc => gvars (snd oc)) rest) -> NoDup (flat_map (fun oc => gvars (snd oc)) rest) ->
  is_missing a = false ->
  p_chain py (link_py R true true) ns rest a last = Val v ->
  exists d', i_chain F R itp rest a last d = (Val v, d') /\ agree ns d' /\
             grows d d' (flat_map (fun oc => gvars (snd oc)) rest).
Proof.
  induction 1 as [|[op c] rest He _ IH]; intros ns d a last v HL HA HF HN Ha H; cbn in *.
  - exists d. split; [rewrite H; reflexivity|]. split; [exact HA|apply grows_refl].
  - apply andb_prop in HL. destruct HL as [HL1 HL2].
    destruct (py ns c) as [rv|x] eqn:E; [|discriminate].
    destruct (He false ns d rv HL1 HA (fresh_app_l _ _ _ HF) (NoDup_app_l _ _ HN) E) as (v' & d1 & Ei & Hr & HA1 & HG1).
    cbn in Hr. subst v'. rewrite Ei.
    assert (Hrv : is_missing rv = false) by exact (py_not_missing _ _ _ E).
    destruct (link_py R true true op a rv) as [res|x] eqn:EL; [|discriminate].
    rewrite (link_ok _ _ _ _ Ha Hrv EL).
    destruct (truthy res).
    + destruct (IH ns d1 rv res v HL2 HA1 (fresh_next _ _ _ _ HF HN HG1) (NoDup_app_r _ _ HN) Hrv H) as (d2 & Ei2 & HA2 & HG2).
      exists d2. split; [exact Ei2|]. split; [exact HA2|exact (grows_trans _ _ _ _ _ HG1 HG2)].
    + exists d1. split; [rewrite H; reflexivity|]. split; [exact HA1|].
      apply (grows_incl _ _ _ _ HG1). intros y Hy. apply in_or_app. left; exact Hy.
Qed.

(* ---- generator expressions ---- *)
Definition cond_ok (c : expr) : bool := lang true c && no_gvars c.
Definition body_ok (g : comp) : bool :=
  match g with Comp _ it' cs' => lang false it' && no_gvars it' && forallb cond_ok cs' end.

Lemma ifs_agree cs : Forall Pe cs -> forall ns d b,
  forallb cond_ok cs = true -> agree ns d -> p_ifs py ns cs = inl b ->
  exists d', i_ifs itp cs d = (inl b, d') /\ agree ns d' /\ grows d d' [].
Proof.
  induction 1 as [|c cs He _ IH]; intros ns d b HL HA H; cbn in *.
  - injection H as <-. exists d. split; [reflexivity|]. split; [exact HA|apply grows_refl].
  - apply andb_prop in HL. destruct HL as [HL1 HL2]. unfold cond_ok in HL1. apply andb_prop in HL1.
    destruct HL1 as [HLc HGc]. apply no_gvars_nil in HGc.
    destruct (py ns c) as [v|x] eqn:E; [|discriminate].
    assert (HFc : fresh d (gvars c)) by (rewrite HGc; apply fresh_nil).
    assert (HNc : NoDup (gvars c)) by (rewrite HGc; constructor).
    destruct (He true ns d v HLc HA HFc HNc E) as (v' & d1 & Ei & Hr & HA1 & HG1).
    cbn in Hr. rewrite HGc in HG1. rewrite Ei, Hr.
    destruct (truthy v).
    + destruct (IH ns d1 b HL2 HA1 H) as (d2 & Ei2 & HA2 & HG2).
      exists d2. split; [exact Ei2|]. split; [exact HA2|exact (grows_trans _ _ _ _ _ HG1 HG2)].
    + injection H as <-. exists d1. split; [reflexivity|]. split; [exact HA1|exact HG1].
Qed.

Definition names_fresh (ns : names) (xs : list string) : Prop :=
  forall y, In y xs -> lookup y ns = None /\ in_list y whitelist_roots = false.

Definition Qg (all_ : bool) (elt : expr) (gs : list comp) : Prop := forall ns d s,
  agree ns d -> names_fresh ns (map comp_target gs) -> NoDup (map comp_target gs) ->
  p_gens R py all_ elt gs ns = s -> not_fail s ->
  exists d', i_gens F R itp all_ elt gs d = (s, d') /\ agree ns d' /\ grows d d' (map comp_target gs).

Lemma iter_interp_ok iv : is_missing iv = false -> iter_values_interp R iv = iter_values R iv.
Proof. destruct iv; try reflexivity. discriminate. Qed.

Lemma gens_step all_ elt x it cs gs' :
  Pe it -> Forall Pe cs -> lang false it = true -> forallb cond_ok cs = true -> Qg all_ elt gs' ->
  forall ns d s, agree ns d -> fresh d (gvars it) -> NoDup (gvars it) ->
    names_fresh ns (x :: map comp_target gs') -> NoDup (x :: map comp_target gs') ->
    p_gens R py all_ elt (Comp x it cs :: gs') ns = s -> not_fail s ->
    exists d', i_gens F R itp all_ elt (Comp x it cs :: gs') d = (s, d') /\ agree ns d' /\
               grows d d' (gvars it ++ x :: map comp_target gs').
Proof.
  intros Hit Hcs HLit HLcs HQ ns d s HA HF HN HNF HND H NF.
  cbn [p_gens i_gens] in *. rewrite Hifs.
  destruct (py ns it) as [iv|e] eqn:E; [|subst s; destruct NF].
  destruct (Hit false ns d iv HLit HA HF HN E) as (iv' & d1 & Ei & Hr & HA1 & HG1). cbn in Hr. subst iv'.
  rewrite Ei. rewrite (iter_interp_ok iv (py_not_missing _ _ _ E)).
  destruct (iter_values R iv) as [vals|e]; [|subst s; destruct NF].
  destruct (HNF x (or_introl eq_refl)) as [Hx Hxr].
  assert (HNF' : forall v, names_fresh (bind x v ns) (map comp_target gs')).
  { intros v y Hy. destruct (HNF y (or_intror Hy)) as [H1 H2]. split; [|exact H2]. cbn.
    destruct (String.eqb x y) eqn:Exy; [|exact H1]. apply String.eqb_eq in Exy. subst y.
    inversion HND; subst. contradiction. }
  assert (HND' : NoDup (map comp_target gs')) by (inversion HND; assumption).
  (* the loop over the values, from any state D reached so far *)
  match goal with
  | |- exists d', ?L vals d1 = _ /\ _ /\ _ =>
      cut (forall D, agree ns D -> grows d1 D (x :: map comp_target gs') ->
             exists d', L vals D = (s, d') /\ agree ns d' /\ grows d1 d' (x :: map comp_target gs'))
  end.
  { intros C. destruct (C d1 HA1 (grows_refl _ _)) as (d' & E1 & A & G). exists d'.
    split; [exact E1|]. split; [exact A|exact (grows_trans _ _ _ _ _ HG1 G)]. }
  revert s H NF. induction vals as [|v vs IHv]; intros s H NF D HAD HGD.
  - subst s. exists D. split; [reflexivity|]. split; [exact HAD|exact HGD].
  - destruct (p_ifs py (bind x v ns) cs) as [b|e] eqn:EI; [|subst s; destruct NF].
    destruct (ifs_agree cs Hcs _ (bind x v D) b HLcs (agree_bind _ _ x v HAD) EI) as (D2 & Ei2 & HA2 & HG2).
    rewrite Ei2.
    assert (HGD2 : grows d1 D2 (x :: map comp_target gs')).
    { intros n Hn. destruct (HG2 n Hn) as [Hn1|[]]. revert Hn1. cbn.
      destruct (String.eqb x n) eqn:Exn.
      - intros _. right. left. apply String.eqb_eq in Exn. exact Exn.
      - intros Hn1. exact (HGD n Hn1). }
    destruct b.
    + destruct (p_gens R py all_ elt gs' (bind x v ns)) as [| |e] eqn:EG.
      * destruct (HQ _ D2 _ HA2 (HNF' v) HND' EG I) as (D3 & Ei3 & HA3 & HG3). rewrite Ei3.
        subst s. exists D3. split; [reflexivity|]. split; [exact (agree_unbind _ _ x v Hx Hxr HA3)|].
        intros n Hn. destruct (HG3 n Hn) as [Hn1|Hn1]; [exact (HGD2 n Hn1)|right; right; exact Hn1].
      * destruct (HQ _ D2 _ HA2 (HNF' v) HND' EG I) as (D3 & Ei3 & HA3 & HG3). rewrite Ei3.
        apply (IHv s H NF D3 (agree_unbind _ _ x v Hx Hxr HA3)).
        intros n Hn. destruct (HG3 n Hn) as [Hn1|Hn1]; [exact (HGD2 n Hn1)|right; right; exact Hn1].
      * subst s. destruct NF.
    + exact (IHv s H NF D2 (agree_unbind _ _ x v Hx Hxr HA2) HGD2).
Qed.

Lemma gens_tail all_ elt : Pe elt -> lang true elt = true -> no_gvars elt = true ->
  forall gs, Forall (Pcomp Pe) gs -> forallb body_ok gs = true -> Qg all_ elt gs.
Proof.
  intros Helt HLe HGe. apply no_gvars_nil in HGe.
  induction 1 as [|[x it cs] gs [Hit Hcs] _ IH]; intros HB.
  - intros ns d s HA _ _ H NF. cbn in *.
    destruct (py ns elt) as [v|e] eqn:E; [|subst s; destruct NF].
    assert (HFe : fresh d (gvars elt)) by (rewrite HGe; apply fresh_nil).
    assert (HNe : NoDup (gvars elt)) by (rewrite HGe; constructor).
    destruct (Helt true ns d v HLe HA HFe HNe E) as (v' & d1 & Ei & Hr & HA1 & HG1). cbn in Hr.
    rewrite HGe in HG1. rewrite Ei. exists d1. split; [|split; [exact HA1|exact HG1]].
    subst s. unfold decisive. rewrite Hr. reflexivity.
  - cbn [forallb] in HB. apply andb_prop in HB. destruct HB as [HB1 HB2]. cbn [body_ok] in HB1.
    apply andb_prop in HB1. destruct HB1 as [HB1 HBc]. apply andb_prop in HB1. destruct HB1 as [HBl HBg].
    apply no_gvars_nil in HBg.
    intros ns d s HA HNF HND H NF.
    assert (HFi : fresh d (gvars it)) by (rewrite HBg; apply fresh_nil).
    assert (HNi : NoDup (gvars it)) by (rewrite HBg; constructor).
    destruct (gens_step all_ elt x it cs gs Hit Hcs HBl HBc (IH HB2) ns d s HA HFi HNi HNF HND H NF) as (d' & E1 & A & G).
    exists d'. split; [exact E1|]. split; [exact A|]. rewrite HBg in G. exact G.
Qed.

Lemma conds_gvars cs : forallb cond_ok cs = true -> flat_map gvars cs = [].
Proof. induction cs as [|c cs IH]; cbn; [reflexivity|]. intros H. apply andb_prop in H. destruct H as [H1 H2].
  unfold cond_ok in H1. apply andb_prop in H1. destruct H1 as [_ H1]. rewrite (no_gvars_nil _ H1), (IH H2). reflexivity. Qed.

Lemma bodies_gvars gs : forallb body_ok gs = true ->
  flat_map (fun g => match g with Comp x it cs => x :: gvars it ++ flat_map gvars cs end) gs = map comp_target gs.
Proof.
  induction gs as [|[x it cs] gs IH]; cbn [flat_map map forallb]; [reflexivity|]. intros H.
  apply andb_prop in H. destruct H as [H1 H2]. cbn [body_ok] in H1. apply andb_prop in H1. destruct H1 as [H1 Hc].
  apply andb_prop in H1. destruct H1 as [_ Hg]. rewrite (no_gvars_nil _ Hg), (conds_gvars _ Hc), (IH H2). reflexivity.
Qed.

Lemma quant_gvars a elt x it cs gs' : no_gvars elt = true -> forallb cond_ok cs = true -> forallb body_ok gs' = true ->
  gvars (EQuant a elt (Comp x it cs :: gs')) = x :: gvars it ++ map comp_target gs'.
Proof.
  intros He Hc Hb. cbn [gvars flat_map]. rewrite (no_gvars_nil _ He), (conds_gvars _ Hc), (bodies_gvars _ Hb).
  rewrite !app_nil_r. reflexivity.
Qed.

Lemma targets_unbound d gs : fresh d (map comp_target gs) -> existsb (fun g => in_dom (comp_target g) d) gs = false.
Proof.
  induction gs as [|g gs IH]; cbn; [reflexivity|]. intros H.
  unfold in_dom at 1. rewrite (proj1 (H (comp_target g) (or_introl eq_refl))). cbn.
  apply IH. intros y Hy. apply H. right; exact Hy.
Qed.

Lemma interp_call_unfold d f args kws : callee_shape f = true ->
  itp d (ECall f args kws) =
  match itp d f with
  | (rf, d1) =>
      match (match rf with Val fv => inl (Some fv) | Exc EAttributeError => inl None | Exc x => inr x end) with
      | inr x => (Exc x, d1)
      | inl None => (Exc EInvalidOperation, d1)
      | inl (Some fv) =>
          if negb (allowed_callable fv) then (Exc EInvalidOperation, d1)
          else match i_seq itp args d1 with
               | (inr x, d2) => (Exc x, d2)
               | (inl vs, d2) =>
                   match i_kws itp kws d2 with
                   | (inr x, d3) => (Exc x, d3)
                   | (inl kvs, d3) => (apply R fv vs kvs, d3)
                   end
               end
      end
  end.
Proof. destruct f; try discriminate; intros _; reflexivity. Qed.

Ltac done_with v d := exists v, d; split; [reflexivity|]; split; [apply rel_eq|]; split; [assumption|].

Theorem interp_agrees : forall e, Pe e.
Proof.
  induction e as [c|n|e a IHe|es IHes|es IHes|op es IHes|op e IHe|op l r IHl IHr|l rest IHl IHrest
                  |f args kws IHf IHargs IHkws|a elt gens IHelt IHgens|k] using expr_ind';
    intros bpos ns d v HL HA HF HN H; cbn [py_eval_gen] in H; apply chk_val in H; destruct H as [H _];
    cbn [lang gvars] in *.
  - (* constant *) injection H as <-. done_with c d. apply grows_refl.
  - (* name *) exists v, d. split; [cbn [interp]; rewrite (name_ok _ _ _ _ HA H); reflexivity|].
    split; [apply rel_eq|]. split; [exact HA|apply grows_refl].
  - (* attribute *)
    destruct (py ns e) as [ov|x] eqn:E; [|discriminate].
    destruct (IHe false ns d ov HL HA HF HN E) as (ov' & d1 & Ei & Hr & HA1 & HG1). cbn in Hr. subst ov'.
    destruct (getattr_ok _ _ _ H) as [Hd Hg].
    exists v, d1. split; [cbn [interp]; rewrite Hd, Ei, Hg; reflexivity|].
    split; [apply rel_eq|]. split; [exact HA1|exact HG1].
  - (* list *)
    destruct (p_seq py ns es) as [vs|x] eqn:E; [|discriminate]. injection H as <-.
    destruct (seq_agree es IHes ns d vs HL HA HF HN E) as (d1 & Ei & HA1 & HG1).
    exists (VList vs), d1. split; [cbn [interp]; rewrite Ei; reflexivity|].
    split; [apply rel_eq|]. split; [exact HA1|exact HG1].
  - (* tuple *)
    destruct (p_seq py ns es) as [vs|x] eqn:E; [|discriminate]. injection H as <-.
    destruct (seq_agree es IHes ns d vs HL HA HF HN E) as (d1 & Ei & HA1 & HG1).
    exists (VTuple vs), d1. split; [cbn [interp]; rewrite Ei; reflexivity|].
    split; [apply rel_eq|]. split; [exact HA1|exact HG1].
  - (* and / or *)
    apply andb_prop in HL. destruct HL as [Hb HL]. subst bpos.
    destruct (p_seq py ns es) as [vs|x] eqn:E; [|discriminate].
    destruct (bools_agree es IHes ns d vs HL HA HF HN E) as (d1 & Ei & HA1 & HG1).
    destruct vs as [|w ws]; [discriminate H|].
    pose proof (select_truthy _ _ _ H) as HT.
    destruct ws as [|w2 ws].
    + exists (VBool (truthy w)), d1. split; [cbn [interp]; rewrite Ei; reflexivity|].
      split; [|split; [exact HA1|exact HG1]]. cbn in H. injection H as <-. reflexivity.
    + exists (VBool (bool_fold op (map truthy (w :: w2 :: ws)))), d1.
      split; [|split; [symmetry; exact HT|split; [exact HA1|exact HG1]]].
      cbn [interp]. rewrite Ei. cbn [map]. rewrite table_boolop_ok.
      destruct op; [rewrite fold_and|rewrite fold_or]; reflexivity.
  - (* not *)
    destruct op; try discriminate HL. cbn in H.
    destruct (py ns e) as [w|x] eqn:E; [|discriminate].
    destruct (IHe true ns d w HL HA HF HN E) as (w' & d1 & Ei & Hr & HA1 & HG1). cbn in Hr.
    exists v, d1. split; [|split; [apply rel_eq|split; [exact HA1|exact HG1]]].
    cbn [interp]. rewrite table_not_ok, Ei. unfold py_not in *. rewrite Hr. rewrite H. reflexivity.
  - (* binary operator *)
    apply andb_prop in HL. destruct HL as [HL HLr]. apply andb_prop in HL. destruct HL as [HLo HLl].
    rewrite HLo in H. cbn in H.
    destruct (py ns l) as [x|x] eqn:E1; [|discriminate].
    destruct (py ns r) as [y|y] eqn:E2; [|discriminate].
    destruct (IHl false ns d x HLl HA (fresh_app_l _ _ _ HF) (NoDup_app_l _ _ HN) E1) as (x' & d1 & Ei1 & Hr1 & HA1 & HG1).
    cbn in Hr1. subst x'.
    destruct (IHr false ns d1 y HLr HA1 (fresh_next _ _ _ _ HF HN HG1) (NoDup_app_r _ _ HN) E2) as (y' & d2 & Ei2 & Hr2 & HA2 & HG2).
    cbn in Hr2. subst y'.
    exists v, d2. split; [|split; [apply rel_eq|split; [exact HA2|exact (grows_trans _ _ _ _ _ HG1 HG2)]]].
    cbn [interp]. rewrite Ei1, Ei2, (py_not_missing _ _ _ E1), (py_not_missing _ _ _ E2). cbn [orb].
    rewrite (table_binop_ok _ HLo), H. reflexivity.
  - (* comparison *)
    apply andb_prop in HL. destruct HL as [HLl HLr].
    destruct (py ns l) as [x|x] eqn:E1; [|discriminate].
    destruct (IHl false ns d x HLl HA (fresh_app_l _ _ _ HF) (NoDup_app_l _ _ HN) E1) as (x' & d1 & Ei1 & Hr1 & HA1 & HG1).
    cbn in Hr1. subst x'.
    destruct (chain_agree rest IHrest ns d1 x (VBool true) v HLr HA1 (fresh_next _ _ _ _ HF HN HG1) (NoDup_app_r _ _ HN)
                (py_not_missing _ _ _ E1) H) as (d2 & Ei2 & HA2 & HG2).
    exists v, d2. split; [|split; [apply rel_eq|split; [exact HA2|exact (grows_trans _ _ _ _ _ HG1 HG2)]]].
    cbn [interp]. rewrite Ei1, Hchained. exact Ei2.
  - (* call *)
    apply andb_prop in HL. destruct HL as [HL HLk]. apply andb_prop in HL. destruct HL as [HL HLa].
    apply andb_prop in HL. destruct HL as [HLs HLf].
    destruct (py ns f) as [fv|x] eqn:E1; [|discriminate].
    destruct (p_seq py ns args) as [vs|x] eqn:E2; [|discriminate].
    destruct (p_kws py ns kws) as [kvs|x] eqn:E3; [|discriminate].
    assert (HN2 : NoDup (flat_map gvars args ++ flat_map (fun kw => gvars (snd kw)) kws)) by exact (NoDup_app_r _ _ HN).
    destruct (IHf false ns d fv HLf HA (fresh_app_l _ _ _ HF) (NoDup_app_l _ _ HN) E1) as (fv' & d1 & Ei1 & Hr1 & HA1 & HG1).
    cbn in Hr1. subst fv'.
    pose proof (fresh_next _ _ _ _ HF HN HG1) as HF2.
    destruct (seq_agree args IHargs ns d1 vs HLa HA1 (fresh_app_l _ _ _ HF2) (NoDup_app_l _ _ HN2) E2) as (d2 & Ei2 & HA2 & HG2).
    destruct (kws_agree kws IHkws ns d2 kvs HLk HA2 (fresh_next _ _ _ _ HF2 HN2 HG2) (NoDup_app_r _ _ HN2) E3) as (d3 & Ei3 & HA3 & HG3).
    exists v, d3. split; [|split; [apply rel_eq|split; [exact HA3|]]].
    + rewrite (interp_call_unfold _ _ _ _ HLs), Ei1, (apply_allowed _ _ _ _ H). cbn [negb]. rewrite Ei2, Ei3, H. reflexivity.
    + exact (grows_trans _ _ _ _ _ HG1 (grows_trans _ _ _ _ _ HG2 HG3)).
  - (* any / all over a generator expression *)
    apply andb_prop in HL. destruct HL as [HL HLg]. apply andb_prop in HL. destruct HL as [HLe HGe].
    destruct gens as [|[x it cs] gs']; [discriminate HLg|].
    apply andb_prop in HLg. destruct HLg as [HLg HBt]. apply andb_prop in HLg. destruct HLg as [HLit HLcs].
    change (forallb cond_ok cs = true) in HLcs. change (forallb body_ok gs' = true) in HBt.
    pose proof (Forall_inv IHgens) as Hhead. pose proof (Forall_inv_tail IHgens) as Htail.
    cbn [Pcomp] in Hhead. destruct Hhead as [Hit Hcs].
    pose proof (quant_gvars a elt x it cs gs' HGe HLcs HBt) as EQ. cbn [gvars] in EQ. rewrite EQ in HF, HN |- *. clear EQ.
    assert (HFt : fresh d (x :: map comp_target gs')).
    { intros y [Hy|Hy]; apply HF; [left; exact Hy|right; apply in_or_app; right; exact Hy]. }
    assert (HNF : names_fresh ns (x :: map comp_target gs')).
    { intros y Hy. destruct (HFt y Hy) as [H1 H2]. split; [exact (agree_none _ _ _ HA H1)|exact H2]. }
    assert (HNDt : NoDup (x :: map comp_target gs')).
    { inversion HN as [|? ? Hnx Hnr]; subst. constructor; [|exact (NoDup_app_r _ _ Hnr)].
      intros Hin. apply Hnx. apply in_or_app. right; exact Hin. }
    assert (HFi : fresh d (gvars it)).
    { intros y Hy. apply HF. right. apply in_or_app. left; exact Hy. }
    assert (HNi : NoDup (gvars it)) by (inversion HN; subst; eapply NoDup_app_l; eassumption).
    destruct (py_name whitelist_roots ns (quant_name a)) as [fq|ex] eqn:EQN; [|discriminate H].
    assert (EQI : interp_name d (quant_name a) = Val fq) by exact (name_ok _ _ _ _ HA EQN).
    destruct fq as [| | | | | | | | | | |q|]; try discriminate H.
    destruct (String.eqb q (quant_name a)) eqn:EQq; [|discriminate H].
    destruct (p_gens R py a elt (Comp x it cs :: gs') ns) as [| |ex] eqn:EG; try discriminate H.
    all: destruct (gens_step a elt x it cs gs' Hit Hcs HLit HLcs (gens_tail a elt IHelt HLe HGe gs' Htail HBt)
                     ns d _ HA HFi HNi HNF HNDt EG I) as (d' & Ei & HA' & HG').
    all: exists v, d'; split; [|split; [apply rel_eq|split; [exact HA'|]]].
    all: try (cbn [interp]; rewrite EQI; cbn [allowed_callable negb]; rewrite EQq; cbn [negb];
              rewrite (targets_unbound d (Comp x it cs :: gs') HFt), Ei; exact (f_equal (fun r => (r, d')) H)).
    all: apply (grows_incl _ _ _ _ HG'); intros y Hy; apply in_app_or in Hy; destruct Hy as [Hy|[Hy|Hy]];
      [right; apply in_or_app; left; exact Hy|left; exact Hy|right; apply in_or_app; right; exact Hy].
  - (* other node kinds are not in the language *) discriminate HL.
Qed.
End Agreement.

(* ================= top-level statements ================= *)
Definition facts_ok (F : facts) : bool := chained F && ifs_honoured F && tm_keeps_attrs F.

Lemma agree_refl d : agree d d.
Proof. split; auto. Qed.

Lemma nodupb_NoDup l : nodupb l = true -> NoDup l.
Proof.
  induction l as [|x l IH]; cbn; intros H; [constructor|]. apply andb_prop in H. destruct H as [H1 H2].
  constructor; [|exact (IH H2)]. intros Hin. apply negb_true_iff in H1.
  assert (E : in_list x l = true).
  { unfold in_list. apply existsb_exists. exists x. split; [exact Hin|apply String.eqb_refl]. }
  rewrite E in H1. discriminate.
Qed.

Lemma fresh_vars_spec e : fresh_vars e = true -> fresh std_data (gvars e) /\ NoDup (gvars e).
Proof.
  unfold fresh_vars. intros H. apply andb_prop in H. destruct H as [H1 H2]. split; [|exact (nodupb_NoDup _ H1)].
  intros x Hx. rewrite forallb_forall in H2. specialize (H2 x Hx). apply andb_prop in H2. destruct H2 as [H2 H3].
  apply negb_true_iff in H2, H3. split; [|exact H3]. unfold in_dom in H2. destruct (lookup x std_data); [discriminate|reflexivity].
Qed.

Theorem interpreted_correct F R e v :
  facts_ok F = true -> in_language e = true -> fresh_vars e = true ->
  py_eval_gen R whitelist_roots false true true std_data e = Val v ->
  (exists v', fst (interp F R std_data e) = Val v' /\ truthy v' = truthy v) /\
  py_eval_gen R whitelist_roots false true false std_data e = Val v.
Proof.
  intros HFo HL HFv H. apply andb_prop in HFo. destruct HFo as [HFo Hk]. apply andb_prop in HFo. destruct HFo as [Hc Hi].
  destruct (fresh_vars_spec e HFv) as [Hf Hn].
  destruct (interp_agrees F Hc Hi Hk R e true std_data std_data v HL (agree_refl _) Hf Hn H) as (v' & d' & Ei & Hr & _).
  split; [|exact (strict_is_python R whitelist_roots false true e std_data v H)].
  exists v'. rewrite Ei. split; [reflexivity|exact Hr].
Qed.

Theorem interpreted_values F R e v :
  facts_ok F = true -> lang false e = true -> fresh_vars e = true ->
  py_eval_gen R whitelist_roots false true true std_data e = Val v ->
  fst (interp F R std_data e) = Val v /\ py_eval_gen R whitelist_roots false true false std_data e = Val v.
Proof.
  intros HFo HL HFv H. apply andb_prop in HFo. destruct HFo as [HFo Hk]. apply andb_prop in HFo. destruct HFo as [Hc Hi].
  destruct (fresh_vars_spec e HFv) as [Hf Hn].
  destruct (interp_agrees F Hc Hi Hk R e false std_data std_data v HL (agree_refl _) Hf Hn H) as (v' & d' & Ei & Hr & _).
  cbn in Hr. subst v'. split; [rewrite Ei; reflexivity|exact (strict_is_python R whitelist_roots false true e std_data v H)].
Qed.

(* ---- rejected with an error ---- *)
Definition outside_node (e : expr) : bool :=
  match e with
  | EOther _ => true
  | EUnary op _ => negb (lang_unop op)
  | _ => false
  end.

Lemma rejects_outside F R d e : outside_node e = true -> exists x, fst (interp F R d e) = Exc x.
Proof.
  destruct e; try discriminate; cbn [outside_node].
  - destruct op; try discriminate; intros _; eexists; reflexivity.
  - intros _. eexists; reflexivity.
Qed.

Definition unsupported_binop (op : binop) : bool :=
  match assoc (binop_kind op) operator_table with None => true | Some _ => false end.

Lemma rejects_binop F R d op l r : unsupported_binop op = true ->
  (exists x, fst (interp F R d (EBinOp op l r)) = Exc x) \/
  (exists a d1 b d2, interp F R d l = (Val a, d1) /\ interp F R d1 r = (Val b, d2) /\
                     is_missing a || is_missing b = true /\ fst (interp F R d (EBinOp op l r)) = Val (VBool false)).
Proof.
  intros HU. cbn [interp]. destruct (interp F R d l) as [[a|x] d1] eqn:E1; [|left; eexists; reflexivity].
  destruct (interp F R d1 r) as [[b|x] d2] eqn:E2; [|left; eexists; reflexivity].
  destruct (is_missing a || is_missing b) eqn:EM.
  - right. exists a, d1, b, d2. repeat split; try assumption; reflexivity.
  - left. unfold table_op2. unfold unsupported_binop in HU. destruct (assoc (binop_kind op) operator_table); [discriminate|].
    eexists; reflexivity.
Qed.

Lemma unsupported_binops : forall op, unsupported_binop op = negb (lang_binop op).
Proof. destruct op; reflexivity. Qed.
