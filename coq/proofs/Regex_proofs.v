(* Correctness of the derivative matcher of lib/Regex.v against the denotation [matches], and the
   computational lemmas used to relate concrete patterns to recursive predicates. *)
From Coq Require Import List Bool NArith Lia.
Import ListNotations.
From FR Require Import Regex.
Open Scope N_scope.

Lemma matches_Emp s : ~ matches Emp s.
Proof. intros H. inversion H. Qed.

Lemma nullable_sound r : nullable r = true -> matches r [].
Proof.
  induction r as [| |cs|a IHa b IHb|a IHa b IHb|a IHa|a IHa]; simpl; intros H; try discriminate H.
  - constructor.
  - apply andb_true_iff in H. destruct H as [Ha Hb].
    change (@nil N) with (@nil N ++ @nil N). constructor; auto.
  - apply orb_true_iff in H. destruct H as [Ha|Hb]; [apply MAltL|apply MAltR]; auto.
  - constructor.
  - constructor.
Qed.

Lemma nullable_complete r s : matches r s -> s = [] -> nullable r = true.
Proof.
  intros H. induction H as [|cs c Hc|a b s1 s2 H1 IH1 H2 IH2|a b s H IH|a b s H IH| a |a s1 s2 H1 IH1 H2 IH2|a|a s H IH];
    intros E; simpl; auto.
  - discriminate E.
  - apply app_eq_nil in E. destruct E as [E1 E2]. rewrite IH1, IH2; auto.
  - rewrite IH; auto.
  - rewrite IH; auto. apply orb_true_r.
Qed.

Lemma nullable_spec r : nullable r = true <-> matches r [].
Proof. split; [apply nullable_sound|intros H; eapply nullable_complete; eauto]. Qed.

Lemma mkSeq_spec a b s : matches (mkSeq a b) s <-> matches (Seq a b) s.
Proof.
  destruct a; simpl; try tauto.
  - split; intros H; [destruct (matches_Emp _ H)|].
    inversion H as [| |a' b' s1 s2 H1 H2| | | | | |]; subst. destruct (matches_Emp _ H1).
  - split; intros H.
    + change s with ([] ++ s). constructor; [constructor|exact H].
    + inversion H as [| |a' b' s1 s2 H1 H2| | | | | |]; subst. inversion H1; subst. exact H2.
Qed.

Lemma mkAlt_spec a b s : matches (mkAlt a b) s <-> matches (Alt a b) s.
Proof.
  assert (L : matches b s <-> matches (Alt Emp b) s).
  { split; intros H; [apply MAltR; exact H|]. inversion H; subst; auto. destruct (matches_Emp _ H3). }
  assert (R : matches a s <-> matches (Alt a Emp) s).
  { split; intros H; [apply MAltL; exact H|]. inversion H; subst; auto. destruct (matches_Emp _ H3). }
  destruct a; simpl; try exact L; destruct b; simpl; try exact R; tauto.
Qed.

Lemma star_cons a c s : matches (Star a) (c :: s) ->
  exists s1 s2, s = s1 ++ s2 /\ matches a (c :: s1) /\ matches (Star a) s2.
Proof.
  intros H. remember (Star a) as r eqn:Er. remember (c :: s) as cs eqn:Ecs.
  revert s Ecs.
  induction H as [|cs0 c0 Hc|a0 b s1 s2 H1 IH1 H2 IH2|a0 b s0 H IH|a0 b s0 H IH| a0 |a0 s1 s2 H1 IH1 H2 IH2|a0|a0 s0 H IH];
    intros s Ecs; try discriminate Er; try discriminate Ecs.
  injection Er as Ea. subst a0.
  destruct s1 as [|c1 s1'].
  - simpl in Ecs. apply IH2; auto.
  - simpl in Ecs. injection Ecs as Ec Es. subst c1 s.
    exists s1', s2. auto.
Qed.

Lemma deriv_spec r : forall c s, matches (deriv c r) s <-> matches r (c :: s).
Proof.
  induction r as [| |cs|a IHa b IHb|a IHa b IHb|a IHa|a IHa]; intros c s; simpl.
  - split; intros H; inversion H.
  - split; intros H; inversion H.
  - destruct (cc_mem cs c) eqn:E; split; intros H.
    + inversion H; subst. constructor. exact E.
    + inversion H; subst. constructor.
    + inversion H.
    + inversion H; subst. congruence.
  - assert (S1 : matches (mkSeq (deriv c a) b) s -> matches (Seq a b) (c :: s)).
    { intros H. apply mkSeq_spec in H. inversion H as [| |a' b' s1 s2 H1 H2| | | | | |]; subst.
      apply IHa in H1. change (c :: s1 ++ s2) with ((c :: s1) ++ s2). constructor; auto. }
    destruct (nullable a) eqn:Na; split; intros H.
    + apply mkAlt_spec in H. inversion H; subst.
      * apply S1; auto.
      * change (c :: s) with ([] ++ c :: s). constructor; [apply nullable_sound; exact Na|apply IHb; auto].
    + apply mkAlt_spec.
      inversion H as [| |a' b' s1 s2 H1 H2 E1 E2| | | | | |]; subst.
      destruct s1 as [|c1 s1'].
      * simpl in E2. subst s2. apply MAltR. apply IHb. exact H2.
      * simpl in E2. injection E2 as Ec Es. subst c1 s. apply MAltL. apply mkSeq_spec.
        constructor; [apply IHa; exact H1|exact H2].
    + apply S1; auto.
    + apply mkSeq_spec.
      inversion H as [| |a' b' s1 s2 H1 H2 E1 E2| | | | | |]; subst.
      destruct s1 as [|c1 s1'].
      * apply nullable_spec in H1. congruence.
      * simpl in E2. injection E2 as Ec Es. subst c1 s. constructor; [apply IHa; exact H1|exact H2].
  - split; intros H.
    + apply mkAlt_spec in H. inversion H; subst; [apply MAltL; apply IHa|apply MAltR; apply IHb]; auto.
    + apply mkAlt_spec. inversion H; subst; [apply MAltL; apply IHa|apply MAltR; apply IHb]; auto.
  - split; intros H.
    + apply mkSeq_spec in H. inversion H as [| |a' b' s1 s2 H1 H2| | | | | |]; subst.
      change (c :: s1 ++ s2) with ((c :: s1) ++ s2). apply MStarS; [apply IHa; exact H1|exact H2].
    + apply mkSeq_spec. apply star_cons in H. destruct H as (s1 & s2 & E & H1 & H2). subst s.
      constructor; [apply IHa; exact H1|exact H2].
  - split; intros H.
    + apply MOptS. apply IHa. exact H.
    + inversion H; subst. apply IHa. auto.
Qed.

(* the matcher decides the denotation *)
Theorem re_fullmatch_spec : forall s r, re_fullmatch r s = true <-> matches r s.
Proof.
  induction s as [|c t IH]; intros r; simpl.
  - apply nullable_spec.
  - rewrite IH. apply deriv_spec.
Qed.

(* ---- computational lemmas ---- *)
Lemma fullmatch_Emp s : re_fullmatch Emp s = false.
Proof. induction s; simpl; auto. Qed.

Lemma fullmatch_Eps s : re_fullmatch Eps s = match s with [] => true | _ => false end.
Proof. destruct s; simpl; auto. apply fullmatch_Emp. Qed.

Lemma fullmatch_mkAlt a b s : re_fullmatch (mkAlt a b) s = re_fullmatch a s || re_fullmatch b s.
Proof.
  apply eq_true_iff_eq. rewrite orb_true_iff, !re_fullmatch_spec, mkAlt_spec.
  split; intros H; [inversion H; subst; auto|destruct H; [apply MAltL|apply MAltR]; auto].
Qed.

(* Star of a character class = every code point is in the class *)
Lemma fullmatch_star_class w s : re_fullmatch (Star (CC w)) s = forallb (cc_mem w) s.
Proof.
  induction s as [|c t IH]; simpl; auto.
  destruct (cc_mem w c); simpl; auto. apply fullmatch_Emp.
Qed.

Lemma strip_final_nl_spec s i : strip_final_nl s = Some i <-> s = i ++ [NL].
Proof.
  revert i. induction s as [|c t IH]; intros i; simpl.
  - split; intros H; [discriminate H|]. destruct i; discriminate H.
  - destruct t as [|c2 t2].
    + destruct (N.eqb_spec c NL) as [E|E].
      * subst c. split; intros H; [injection H as H; subst i; reflexivity|].
        destruct i as [|x i]; [reflexivity|]. destruct i; discriminate H.
      * split; intros H; [discriminate H|].
        destruct i as [|x i]; [injection H as H; contradiction|]. destruct i; discriminate H.
    + destruct (strip_final_nl (c2 :: t2)) as [j|] eqn:Ej.
      * destruct (IH j) as [IH1 _]. specialize (IH1 eq_refl).
        split; intros H.
        -- injection H as H. subst i. simpl. rewrite IH1. reflexivity.
        -- destruct i as [|x i]; [discriminate H|]. simpl in H. injection H as Hx Ht. subst x.
           destruct (IH i) as [_ IH2]. specialize (IH2 Ht). congruence.
      * split; intros H; [discriminate H|].
        destruct i as [|x i]; [discriminate H|]. simpl in H. injection H as Hx Ht.
        destruct (IH i) as [_ IH2]. specialize (IH2 Ht). discriminate IH2.
Qed.

(* exact slack of "$": full match, or full match of everything but one final newline *)
Lemma py_match_dollar_spec r s :
  py_match_dollar r s = true <->
  re_fullmatch r s = true \/ exists i, s = i ++ [NL] /\ re_fullmatch r i = true.
Proof.
  unfold py_match_dollar. rewrite orb_true_iff.
  split; intros [H|H]; auto.
  - destruct (strip_final_nl s) as [i|] eqn:E; [|discriminate H].
    right. exists i. split; [apply strip_final_nl_spec; exact E|exact H].
  - destruct H as (i & E & H). right. apply strip_final_nl_spec in E. rewrite E. exact H.
Qed.
