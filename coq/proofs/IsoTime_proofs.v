(* proofs/IsoTime_proofs.v -- lemmas about model/IsoTime.v *)
From Coq Require Import List ZArith Bool String Ascii Lia ZifyBool.
Import ListNotations.
From FR Require Import IsoTime.
Open Scope Z_scope.
Open Scope list_scope.

(* div/mod by constants: turned into their Euclidean equations only where needed *)
Ltac dlia := Z.to_euclidean_division_equations; lia.

(* ------------------------------------------------------------------ digits *)
Lemma digit_val_char : forall n, 0 <= n <= 9 -> digit_val (digit_char n) = Some n.
Proof.
  intros n Hn. unfold digit_val, digit_char.
  rewrite N_ascii_embedding by lia.
  rewrite Z2N.id by lia.
  replace (48 + n - 48) with n by ring.
  destruct (0 <=? n) eqn:E1; destruct (n <=? 9) eqn:E2; try reflexivity; lia.
Qed.

Lemma pow10_pos : forall k : nat, 0 < 10 ^ Z.of_nat k.
Proof. intros k. apply Z.pow_pos_nonneg; lia. Qed.

Lemma pow10_S : forall k : nat, 10 ^ Z.of_nat (S k) = 10 * 10 ^ Z.of_nat k.
Proof. intros k. rewrite Nat2Z.inj_succ. rewrite Z.pow_succ_r by lia. reflexivity. Qed.

(* the generic fixed-width lemma: k digits printed then parsed give the number back (and the rest of the text) *)
Lemma parse_pd : forall (k : nat) n acc rest, 0 <= n < 10 ^ Z.of_nat k ->
  parse_digits k acc (pd k n rest) = Some (acc * 10 ^ Z.of_nat k + n, rest).
Proof.
  induction k as [|k IH]; intros n acc rest Hn.
  - simpl in *. f_equal. f_equal. lia.
  - rewrite pow10_S in Hn. pose proof (pow10_pos k) as Hp.
    cbn [pd parse_digits].
    assert (Hq : 0 <= n / 10 ^ Z.of_nat k <= 9).
    { split. apply Z.div_pos; lia.
      assert (n / 10 ^ Z.of_nat k < 10). apply Z.div_lt_upper_bound; lia. lia. }
    rewrite digit_val_char by exact Hq.
    rewrite IH by (apply Z.mod_pos_bound; lia).
    rewrite pow10_S. f_equal. f_equal.
    pose proof (Z.div_mod n (10 ^ Z.of_nat k)) as Hdm.
    set (p := 10 ^ Z.of_nat k) in *. set (q := n / p) in *. set (r := n mod p) in *.
    rewrite (Hdm ltac:(lia)). ring.
Qed.

Lemma parse_pd0 : forall (k : nat) n rest, 0 <= n < 10 ^ Z.of_nat k ->
  parse_digits k 0 (pd k n rest) = Some (n, rest).
Proof. intros. rewrite parse_pd by assumption. f_equal. Qed.

Theorem parse_print_digits : forall (k : nat) n, 0 <= n < 10 ^ Z.of_nat k ->
  parse_digits k 0 (print_digits k n) = Some (n, []).
Proof. intros. apply parse_pd0. assumption. Qed.

Lemma pd2 : forall n rest, 0 <= n < 100 -> parse_digits 2 0 (pd 2 n rest) = Some (n, rest).
Proof. intros. apply parse_pd0. simpl. lia. Qed.
Lemma pd4 : forall n rest, 0 <= n < 10000 -> parse_digits 4 0 (pd 4 n rest) = Some (n, rest).
Proof. intros. apply parse_pd0. simpl. lia. Qed.
Lemma pd6 : forall n rest, 0 <= n < 1000000 -> parse_digits 6 0 (pd 6 n rest) = Some (n, rest).
Proof. intros. apply parse_pd0. simpl. lia. Qed.

(* the first character of printed digits is a digit, hence none of the punctuation characters *)
Lemma digit_char_cases : forall n, 0 <= n <= 9 ->
  In (digit_char n) ["0";"1";"2";"3";"4";"5";"6";"7";"8";"9"]%char.
Proof.
  intros n Hn.
  assert (n = 0 \/ n = 1 \/ n = 2 \/ n = 3 \/ n = 4 \/ n = 5 \/ n = 6 \/ n = 7 \/ n = 8 \/ n = 9) as H by lia.
  repeat (destruct H as [H|H]; [subst n; cbv; tauto|]). subst n; cbv; tauto.
Qed.

(* ------------------------------------------------------------------ validity unpacked *)
Lemma valid_unpack : forall d, valid d ->
  1 <= yr d <= 9999 /\ 1 <= mo d <= 12 /\ 1 <= dy d <= days_in_month (yr d) (mo d) /\
  0 <= hh d < 24 /\ 0 <= mi d < 60 /\ 0 <= ss d < 60 /\ 0 <= us d < 1000000 /\
  match off d with None => True | Some z => - DAY_US < z < DAY_US end.
Proof.
  intros d H. unfold valid, validb, valid_date, valid_time, valid_off, SEC_US in H.
  repeat rewrite andb_true_iff in H.
  destruct H as [[[[H1 H2] H3] H4] H5].
  destruct H3 as [[[A1 A2] A3] A4]. destruct H4 as [[[[[[[B1 B2] B3] B4] B5] B6] B7] B8].
  repeat split; try lia.
  destruct (off d); [|exact I]. lia.
Qed.

Lemma days_in_month_le31 : forall y m, 28 <= days_in_month y m <= 31.
Proof.
  intros y m. unfold days_in_month.
  destruct (m =? 2); [destruct (is_leap y); lia|].
  destruct ((m =? 4) || (m =? 6) || (m =? 9) || (m =? 11)); lia.
Qed.

(* ------------------------------------------------------------------ offset text *)
Lemma mk_off_ok : forall q neg h m s u a, ((h * 60 + m) * 60 + s) * SEC_US + u = a ->
  0 <= h -> 0 <= m -> 0 <= s -> 0 <= u < SEC_US -> (q = false \/ a = 0 \/ SEC_US <= a) ->
  mk_off q neg h m s u = Some (Some (if neg then - a else a)).
Proof.
  intros q neg h m s u a Ha Hh Hm Hs Hu Hq. unfold mk_off.
  destruct (q && (h =? 0) && (m =? 0) && (s =? 0)) eqn:E.
  - repeat rewrite andb_true_iff in E. destruct E as [[[E1 E2] E3] E4].
    assert (a = 0) as -> by (unfold SEC_US in *; destruct Hq as [Hq|[Hq|Hq]]; [congruence|lia|lia]).
    destruct neg; reflexivity.
  - rewrite Ha. reflexivity.
Qed.

Lemma off_recompose : forall a, 0 <= a ->
  ((a / HOUR_US * 60 + (a / MIN_US) mod 60) * 60 + (a / SEC_US) mod 60) * SEC_US + a mod SEC_US = a.
Proof. intros a Ha. unfold HOUR_US, MIN_US, SEC_US. dlia. Qed.

Lemma expect_same : forall c t, expect c (c :: t) = Some t.
Proof. intros. unfold expect. rewrite Ascii.eqb_refl. reflexivity. Qed.

Lemma parse_off_body_print : forall q neg a, 0 <= a < DAY_US -> (q = false \/ a = 0 \/ SEC_US <= a) ->
  parse_off_body q neg
    (pd 2 (a / HOUR_US) (":"%char :: pd 2 ((a / MIN_US) mod 60)
       (if a mod SEC_US =? 0 then (if (a / SEC_US) mod 60 =? 0 then [] else ":"%char :: pd 2 ((a / SEC_US) mod 60) [])
        else ":"%char :: pd 2 ((a / SEC_US) mod 60) ("."%char :: pd 6 (a mod SEC_US) []))))
  = Some (Some (if neg then - a else a)).
Proof.
  intros q neg a Ha Hq. pose proof (off_recompose a ltac:(lia)) as Hre.
  unfold parse_off_body.
  assert (Hh : 0 <= a / HOUR_US < 100) by (unfold HOUR_US, DAY_US in *; dlia).
  assert (Hm : 0 <= (a / MIN_US) mod 60 < 100) by (unfold MIN_US; dlia).
  assert (Hs : 0 <= (a / SEC_US) mod 60 < 100) by (unfold SEC_US; dlia).
  assert (Hu : 0 <= a mod SEC_US < 1000000) by (unfold SEC_US; dlia).
  rewrite pd2 by exact Hh. rewrite expect_same.
  rewrite pd2 by exact Hm.
  set (H := a / HOUR_US) in *. set (M := (a / MIN_US) mod 60) in *.
  set (S := (a / SEC_US) mod 60) in *. set (U := a mod SEC_US) in *.
  destruct (U =? 0) eqn:Eu.
  - destruct (S =? 0) eqn:Es.
    + apply mk_off_ok; [unfold SEC_US in *; lia|lia|lia|lia|unfold SEC_US in *; lia|exact Hq].
    + rewrite Ascii.eqb_refl.
      rewrite pd2 by exact Hs. apply mk_off_ok; [unfold SEC_US in *; lia|lia|lia|lia|unfold SEC_US in *; lia|exact Hq].
  - rewrite Ascii.eqb_refl.
    rewrite pd2 by exact Hs.
    rewrite Ascii.eqb_refl.
    rewrite pd6 by exact Hu. apply mk_off_ok; [unfold SEC_US in *; lia|lia|lia|lia|unfold SEC_US in *; lia|exact Hq].
Qed.

Lemma parse_off_print : forall q o, valid_off o = true -> off_exact q o = true -> parse_off q (print_off o []) = Some o.
Proof.
  intros q [z|] Hv Hx; [|reflexivity].
  unfold valid_off in Hv. unfold off_exact in Hx. unfold print_off.
  assert (Hq : q = false \/ Z.abs z = 0 \/ SEC_US <= Z.abs z).
  { destruct q; [|left; reflexivity]. right. cbn [negb orb] in Hx. apply orb_true_iff in Hx. lia. }
  destruct (z <? 0) eqn:Ez.
  - unfold parse_off. change (Ascii.eqb "-" "+")%char with false. change (Ascii.eqb "-" "-")%char with true. cbv iota.
    rewrite parse_off_body_print by (exact Hq || lia). do 2 f_equal. lia.
  - unfold parse_off. change (Ascii.eqb "+" "+")%char with true. cbv iota.
    rewrite parse_off_body_print by (exact Hq || lia). do 2 f_equal. lia.
Qed.

(* what follows the seconds never starts with '.' unless it is the fraction *)
Lemma print_off_head : forall o,
  match print_off o [] with [] => True | c :: _ => c = "+"%char \/ c = "-"%char end.
Proof. intros [z|]; simpl; [|exact I]. destruct (z <? 0); auto. Qed.

Lemma parse_frac_print : forall u o, 0 <= u < 1000000 ->
  parse_frac (print_frac u (print_off o [])) = Some (u, print_off o []).
Proof.
  intros u o Hu. unfold print_frac. destruct (u =? 0) eqn:E.
  - assert (u = 0) by lia. subst u. pose proof (print_off_head o) as Hh.
    destruct (print_off o []) as [|c t]; [reflexivity|].
    unfold parse_frac. destruct Hh as [Hh|Hh]; subst c; reflexivity.
  - unfold parse_frac. apply pd6. exact Hu.
Qed.

(* ------------------------------------------------------------------ C13_iso_roundtrip *)
Lemma iso_parse_print_sep : forall q sep d, (sep = "T"%char \/ sep = " "%char) -> valid d ->
  off_exact q (off d) = true -> iso_parse_l q (iso_print_sep sep d) = Some d.
Proof.
  intros q sep d Hsep Hv Hx. pose proof (valid_unpack d Hv) as (Hy & Hmo & Hdy & Hh & Hmi & Hs & Hu & Ho).
  pose proof (days_in_month_le31 (yr d) (mo d)) as Hdim.
  unfold iso_parse_l, iso_print_sep.
  rewrite pd4 by lia. cbn [obind]. rewrite expect_same. cbn [obind].
  rewrite pd2 by lia. cbn [obind]. rewrite expect_same. cbn [obind].
  rewrite pd2 by lia. cbn [obind parse_sep].
  assert (Hsepb : (Ascii.eqb sep "T" || Ascii.eqb sep " ")%char = true) by (destruct Hsep; subst sep; reflexivity).
  rewrite Hsepb. cbn [obind].
  rewrite pd2 by lia. cbn [obind]. rewrite expect_same. cbn [obind].
  rewrite pd2 by lia. cbn [obind]. rewrite expect_same. cbn [obind].
  rewrite pd2 by lia. cbn [obind].
  rewrite parse_frac_print by lia. cbn [obind].
  rewrite parse_off_print; [|unfold valid, validb in Hv; repeat rewrite andb_true_iff in Hv; tauto|exact Hx].
  cbn [obind]. destruct d as [y m dd h mn s u o]. cbn [yr mo dy hh mi ss us off] in *.
  unfold valid in Hv. rewrite Hv. reflexivity.
Qed.

Theorem iso_roundtrip_q : forall q d, valid d -> off_exact q (off d) = true -> iso_parse q (iso_print d) = Some d.
Proof.
  intros q d Hv Hx. unfold iso_parse, iso_print. rewrite list_ascii_of_string_of_list_ascii.
  apply iso_parse_print_sep; auto.
Qed.

Theorem iso_roundtrip : forall d, valid d -> iso_parse false (iso_print d) = Some d.
Proof. intros d Hv. apply iso_roundtrip_q; [exact Hv|]. unfold off_exact. destruct (off d); reflexivity. Qed.

Theorem iso_roundtrip_space_q : forall q d, valid d -> off_exact q (off d) = true -> iso_parse q (iso_print_space d) = Some d.
Proof.
  intros q d Hv Hx. unfold iso_parse, iso_print_space. rewrite list_ascii_of_string_of_list_ascii.
  apply iso_parse_print_sep; auto.
Qed.

Lemma off_exact_false : forall o, off_exact false o = true.
Proof. intros [z|]; reflexivity. Qed.

(* with the quirk a sub-second offset is read as UTC: the wall clock survives, the offset (hence the instant) does not *)
Lemma iso_roundtrip_quirk_refuted :
  let d := mkdt 2000 1 1 0 0 0 0 (Some (-1)) in
  valid d /\ iso_parse true (iso_print d) = Some (mkdt 2000 1 1 0 0 0 0 (Some 0)) /\ iso_parse false (iso_print d) = Some d.
Proof. cbv zeta. repeat split. Qed.

(* whatever the parser accepts is a valid value *)
Theorem iso_parse_valid : forall q s d, iso_parse q s = Some d -> valid d.
Proof.
  intros q s d. unfold iso_parse, iso_parse_l, obind.
  repeat (match goal with
          | |- match ?x with _ => _ end = _ -> _ => destruct x eqn:?; try discriminate
          | |- (let '(_, _) := ?x in _) = _ -> _ => destruct x eqn:?
          | |- (if ?x then _ else _) = _ -> _ => destruct x eqn:?; try discriminate
          end).
  intros H. injection H as <-. assumption.
Qed.

(* ------------------------------------------------------------------ finite ranges of Z *)
Fixpoint zrange (lo : Z) (n : nat) : list Z :=
  match n with O => [] | S n' => lo :: zrange (lo + 1) n' end.

Lemma zrange_in : forall n lo z, lo <= z < lo + Z.of_nat n -> In z (zrange lo n).
Proof.
  induction n as [|n IH]; intros lo z Hz.
  - simpl in Hz. lia.
  - cbn [zrange]. destruct (Z.eq_dec z lo) as [->|Hne]; [left; reflexivity|right].
    apply IH. rewrite Nat2Z.inj_succ in Hz. lia.
Qed.

(* ------------------------------------------------------------------ one 400-year era, checked exhaustively *)
(* day of era of (year of era [March based], month, day) *)
Definition doe_of (yoe m d : Z) : Z :=
  let mp := if 2 <? m then m - 3 else m + 9 in
  yoe * 365 + yoe / 4 - yoe / 100 + ((153 * mp + 2) / 5 + d - 1).
(* days in month m of the March-based year-of-era yoe: January and February belong to civil year yoe+1 *)
Definition dim_era (yoe m : Z) : Z := days_in_month (yoe + (if m <=? 2 then 1 else 0)) m.

Definition triple_eqb (a b : Z * Z * Z) : bool :=
  match a, b with (a1, a2, a3), (b1, b2, b3) => (a1 =? b1) && (a2 =? b2) && (a3 =? b3) end.
Lemma triple_eqb_eq : forall a b, triple_eqb a b = true -> a = b.
Proof.
  intros [[a1 a2] a3] [[b1 b2] b3] H. unfold triple_eqb in H.
  repeat rewrite andb_true_iff in H. destruct H as [[H1 H2] H3].
  apply Z.eqb_eq in H1, H2, H3. subst. reflexivity.
Qed.

Lemma check_enc_dec_true :
  forallb (fun yoe => forallb (fun m => forallb (fun d =>
    if d <=? dim_era yoe m then
      (let doe := doe_of yoe m d in (0 <=? doe) && (doe <? 146097) && triple_eqb (civil_of_doe doe) (yoe, m, d))
    else true) (zrange 1 31)) (zrange 1 12)) (zrange 0 400) = true.
Proof. vm_cast_no_check (eq_refl true). Qed.

Lemma check_dec_enc_true :
  forallb (fun a => forallb (fun b =>
    let doe := a * 400 + b in
    if doe <? 146097 then
      match civil_of_doe doe with
      | (yoe, m, d) => (0 <=? yoe) && (yoe <? 400) && (1 <=? m) && (m <=? 12) && (1 <=? d) && (d <=? dim_era yoe m)
                       && (doe_of yoe m d =? doe)
      end
    else true) (zrange 0 400)) (zrange 0 366) = true.
Proof. vm_cast_no_check (eq_refl true). Qed.


Lemma era_enc_dec : forall yoe m d, 0 <= yoe < 400 -> 1 <= m <= 12 -> 1 <= d <= dim_era yoe m ->
  0 <= doe_of yoe m d < 146097 /\ civil_of_doe (doe_of yoe m d) = (yoe, m, d).
Proof.
  intros yoe m d Hy Hm Hd.
  pose proof check_enc_dec_true as C.
  rewrite forallb_forall in C. specialize (C yoe (zrange_in 400 0 yoe ltac:(lia))).
  rewrite forallb_forall in C. specialize (C m (zrange_in 12 1 m ltac:(lia))).
  rewrite forallb_forall in C.
  assert (d <= 31) as Hd31.
  { unfold dim_era in Hd. pose proof (days_in_month_le31 (yoe + (if m <=? 2 then 1 else 0)) m). lia. }
  specialize (C d (zrange_in 31 1 d ltac:(lia))). cbv beta in C.
  destruct (d <=? dim_era yoe m) eqn:E; [|lia].
  cbv zeta in C. repeat rewrite andb_true_iff in C. destruct C as [[C1 C2] C3].
  apply triple_eqb_eq in C3. split; [lia|exact C3].
Qed.

Lemma era_dec_enc : forall doe, 0 <= doe < 146097 ->
  match civil_of_doe doe with
  | (yoe, m, d) => 0 <= yoe < 400 /\ 1 <= m <= 12 /\ 1 <= d <= dim_era yoe m /\ doe_of yoe m d = doe
  end.
Proof.
  intros doe Hd.
  pose proof check_dec_enc_true as C.
  rewrite forallb_forall in C. specialize (C (doe / 400) (zrange_in 366 0 (doe / 400) ltac:(dlia))).
  rewrite forallb_forall in C. specialize (C (doe mod 400) (zrange_in 400 0 (doe mod 400) ltac:(dlia))).
  cbv beta zeta in C.
  replace (doe / 400 * 400 + doe mod 400) with doe in C by dlia.
  destruct (doe <? 146097) eqn:E; [|lia].
  destruct (civil_of_doe doe) as [[yoe m] d].
  repeat rewrite andb_true_iff in C. lia.
Qed.

(* ------------------------------------------------------------------ periodicity: leap years repeat every 400 *)
Lemma is_leap_period : forall y k, is_leap (y + 400 * k) = is_leap y.
Proof.
  intros y k. unfold is_leap.
  replace ((y + 400 * k) mod 4) with (y mod 4) by dlia.
  replace ((y + 400 * k) mod 100) with (y mod 100) by dlia.
  replace ((y + 400 * k) mod 400) with (y mod 400) by dlia.
  reflexivity.
Qed.

Lemma days_in_month_period : forall y k m, days_in_month (y + 400 * k) m = days_in_month y m.
Proof. intros. unfold days_in_month. rewrite is_leap_period. reflexivity. Qed.

(* split of a civil date into (era, year of era) *)
Definition ymarch (y m : Z) : Z := if m <=? 2 then y - 1 else y.

Lemma days_from_civil_era : forall y m d,
  days_from_civil y m d = (ymarch y m / 400) * 146097 + doe_of (ymarch y m mod 400) m d - 719468.
Proof.
  intros. unfold days_from_civil, doe_of, ymarch.
  set (y' := if m <=? 2 then y - 1 else y).
  replace (y' - y' / 400 * 400) with (y' mod 400) by dlia. reflexivity.
Qed.

Lemma dim_era_civil : forall y m, dim_era (ymarch y m mod 400) m = days_in_month y m.
Proof.
  intros y m. unfold dim_era, ymarch.
  destruct (m <=? 2) eqn:E.
  - replace ((y - 1) mod 400 + 1) with (y + 400 * (- ((y - 1) / 400))) by dlia.
    apply days_in_month_period.
  - replace (y mod 400 + 0) with (y + 400 * (- (y / 400))) by dlia.
    apply days_in_month_period.
Qed.

(* ------------------------------------------------------------------ the two inverses, for ALL dates *)
Theorem civil_from_days_from_civil : forall y m d, valid_date y m d = true ->
  civil_from_days (days_from_civil y m d) = (y, m, d).
Proof.
  intros y m d Hv. unfold valid_date in Hv. repeat rewrite andb_true_iff in Hv.
  assert (Hm : 1 <= m <= 12) by lia. assert (Hd : 1 <= d <= days_in_month y m) by lia. clear Hv.
  rewrite days_from_civil_era.
  set (y' := ymarch y m). set (era := y' / 400). set (yoe := y' mod 400).
  assert (Hyoe : 0 <= yoe < 400) by (subst yoe; dlia).
  rewrite <- (dim_era_civil y m) in Hd. fold y' in Hd. fold yoe in Hd.
  destruct (era_enc_dec yoe m d Hyoe Hm Hd) as [Hb He].
  unfold civil_from_days. set (doe := doe_of yoe m d) in *.
  replace (era * 146097 + doe - 719468 + 719468) with (era * 146097 + doe) by ring.
  replace ((era * 146097 + doe) / 146097) with era by dlia.
  replace (era * 146097 + doe - era * 146097) with doe by ring.
  rewrite He.
  assert (Hy' : yoe + era * 400 = y') by (subst yoe era; dlia).
  rewrite Hy'. subst y'. unfold ymarch. destruct (m <=? 2); f_equal; f_equal; lia.
Qed.

Theorem days_from_civil_from_days : forall z,
  match civil_from_days z with
  | (y, m, d) => valid_date y m d = true /\ days_from_civil y m d = z
  end.
Proof.
  intros z. unfold civil_from_days.
  set (z' := z + 719468). set (era := z' / 146097). set (doe := z' - era * 146097).
  assert (Hdoe : 0 <= doe < 146097) by (subst doe era; dlia).
  pose proof (era_dec_enc doe Hdoe) as H.
  destruct (civil_of_doe doe) as [[yoe m] d]. destruct H as (Hy & Hm & Hd & He).
  set (y := if m <=? 2 then yoe + era * 400 + 1 else yoe + era * 400).
  assert (Hym : ymarch y m = yoe + era * 400) by (subst y; unfold ymarch; destruct (m <=? 2); lia).
  assert (Hq : ymarch y m / 400 = era) by (rewrite Hym; dlia).
  assert (Hr : ymarch y m mod 400 = yoe) by (rewrite Hym; dlia).
  split.
  - unfold valid_date. rewrite <- (dim_era_civil y m), Hr.
    repeat rewrite andb_true_iff. lia.
  - rewrite days_from_civil_era, Hq, Hr, He. subst doe z'. ring.
Qed.

(* ------------------------------------------------------------------ instants *)
Lemma to_micros_split : forall D h m s u, 0 <= h < 24 -> 0 <= m < 60 -> 0 <= s < 60 -> 0 <= u < 1000000 ->
  let n := (((D * 24 + h) * 60 + m) * 60 + s) * SEC_US + u in
  n / DAY_US = D /\ (n mod DAY_US) / HOUR_US = h /\ ((n mod DAY_US) / MIN_US) mod 60 = m
  /\ ((n mod DAY_US) / SEC_US) mod 60 = s /\ (n mod DAY_US) mod SEC_US = u.
Proof.
  intros D h m s u Hh Hm Hs Hu n. subst n. unfold SEC_US, DAY_US, HOUR_US, MIN_US.
  set (r := ((h * 60 + m) * 60 + s) * 1000000 + u).
  assert (Hr : 0 <= r < 86400000000) by (subst r; lia).
  replace ((((D * 24 + h) * 60 + m) * 60 + s) * 1000000 + u) with (D * 86400000000 + r) by (subst r; ring).
  assert (Hq : (D * 86400000000 + r) / 86400000000 = D) by dlia.
  assert (Hm' : (D * 86400000000 + r) mod 86400000000 = r) by dlia.
  rewrite Hq, Hm'. clear Hq Hm'. subst r. repeat split; dlia.
Qed.

(* C13_micros_roundtrip: civil-from-days inverts days-from-civil -- for every valid UTC value *)
Theorem from_micros_to_micros : forall d, valid d -> off d = Some 0 -> from_micros_utc (to_micros d) = d.
Proof.
  intros d Hv Ho. pose proof (valid_unpack d Hv) as (Hy & Hmo & Hdy & Hh & Hmi & Hs & Hu & _).
  assert (Hvd : valid_date (yr d) (mo d) (dy d) = true).
  { unfold valid, validb in Hv. repeat rewrite andb_true_iff in Hv. tauto. }
  unfold to_micros, off_or_utc. rewrite Ho. rewrite Z.sub_0_r.
  destruct (to_micros_split (days_from_civil (yr d) (mo d) (dy d)) (hh d) (mi d) (ss d) (us d) Hh Hmi Hs Hu)
    as (E1 & E2 & E3 & E4 & E5).
  unfold from_micros_utc. rewrite E1, E2, E3, E4, E5.
  rewrite (civil_from_days_from_civil _ _ _ Hvd).
  destruct d as [y m dd h mn s u o]. cbn [yr mo dy hh mi ss us off] in *. subst o. reflexivity.
Qed.

(* the other inverse: the UTC value of an instant denotes that instant -- for EVERY integer *)
Theorem to_micros_from_micros : forall n, to_micros (from_micros_utc n) = n.
Proof.
  intros n. unfold from_micros_utc.
  pose proof (days_from_civil_from_days (n / DAY_US)) as H.
  destruct (civil_from_days (n / DAY_US)) as [[y m] d]. destruct H as [_ H].
  unfold to_micros, off_or_utc. cbn [yr mo dy hh mi ss us off]. rewrite H.
  unfold DAY_US, HOUR_US, MIN_US, SEC_US. dlia.
Qed.

Lemma from_micros_fields : forall n,
  match civil_from_days (n / DAY_US) with
  | (y, m, d) => yr (from_micros_utc n) = y /\ mo (from_micros_utc n) = m /\ dy (from_micros_utc n) = d
  end /\ valid_time (hh (from_micros_utc n)) (mi (from_micros_utc n)) (ss (from_micros_utc n)) (us (from_micros_utc n)) = true
  /\ off (from_micros_utc n) = Some 0.
Proof.
  intros n. unfold from_micros_utc. destruct (civil_from_days (n / DAY_US)) as [[y m] d].
  cbn [yr mo dy hh mi ss us off]. split; [auto|]. split; [|reflexivity].
  unfold valid_time, DAY_US, HOUR_US, MIN_US, SEC_US. repeat rewrite andb_true_iff.
  repeat split; apply Z.leb_le || apply Z.ltb_lt; dlia.
Qed.

(* year bounds of the day count: dates before year 1 / after year 9999 lie outside [MIN, MAX] *)
Lemma doe_of_bounds : forall yoe m d, 0 <= yoe < 400 -> 1 <= m <= 12 -> 1 <= d <= 31 ->
  (2 < m -> yoe * 365 + yoe / 4 - yoe / 100 <= doe_of yoe m d <= yoe * 365 + yoe / 4 - yoe / 100 + 305)
  /\ (m <= 2 -> yoe * 365 + yoe / 4 - yoe / 100 + 306 <= doe_of yoe m d <= yoe * 365 + yoe / 4 - yoe / 100 + 367).
Proof.
  intros yoe m d Hy Hm Hd. unfold doe_of.
  destruct (2 <? m) eqn:E; split; intros; try lia; dlia.
Qed.

Lemma days_before_year1 : forall y m d, valid_date y m d = true -> y <= 0 -> days_from_civil y m d < -719162.
Proof.
  intros y m d Hv Hy. unfold valid_date in Hv. repeat rewrite andb_true_iff in Hv.
  pose proof (days_in_month_le31 y m) as H31.
  assert (Hm : 1 <= m <= 12) by lia. assert (Hd : 1 <= d <= 31) by lia.
  rewrite days_from_civil_era.
  assert (Hyoe : 0 <= ymarch y m mod 400 < 400) by dlia.
  destruct (doe_of_bounds (ymarch y m mod 400) m d Hyoe Hm Hd) as [B1 B2].
  set (doe := doe_of (ymarch y m mod 400) m d) in *.
  unfold ymarch in *. destruct (m <=? 2) eqn:E.
  - assert (doe < 146097).
    { destruct (era_enc_dec ((y - 1) mod 400) m d Hyoe Hm) as [Hb _]; [|fold doe in Hb; lia].
      pose proof (dim_era_civil y m) as Hdc. unfold ymarch in Hdc. rewrite E in Hdc. rewrite Hdc. lia. }
    dlia.
  - specialize (B1 ltac:(lia)). dlia.
Qed.

Lemma days_after_year9999 : forall y m d, valid_date y m d = true -> 10000 <= y -> 2932896 < days_from_civil y m d.
Proof.
  intros y m d Hv Hy. unfold valid_date in Hv. repeat rewrite andb_true_iff in Hv.
  pose proof (days_in_month_le31 y m) as H31.
  assert (Hm : 1 <= m <= 12) by lia. assert (Hd : 1 <= d <= 31) by lia.
  rewrite days_from_civil_era.
  assert (Hyoe : 0 <= ymarch y m mod 400 < 400) by dlia.
  destruct (doe_of_bounds (ymarch y m mod 400) m d Hyoe Hm Hd) as [B1 B2].
  set (doe := doe_of (ymarch y m mod 400) m d) in *.
  unfold ymarch in *. destruct (m <=? 2) eqn:E.
  - specialize (B2 ltac:(lia)). dlia.
  - specialize (B1 ltac:(lia)). dlia.
Qed.

Lemma days_from_civil_lower : forall y m d, valid_date y m d = true -> 1 <= y -> -719162 <= days_from_civil y m d.
Proof.
  intros y m d Hv Hy. unfold valid_date in Hv. repeat rewrite andb_true_iff in Hv.
  pose proof (days_in_month_le31 y m) as H31.
  assert (Hm : 1 <= m <= 12) by lia. assert (Hd : 1 <= d <= 31) by lia.
  rewrite days_from_civil_era.
  assert (Hyoe : 0 <= ymarch y m mod 400 < 400) by dlia.
  destruct (doe_of_bounds (ymarch y m mod 400) m d Hyoe Hm Hd) as [B1 B2].
  set (doe := doe_of (ymarch y m mod 400) m d) in *.
  unfold ymarch in *. destruct (m <=? 2) eqn:E.
  - specialize (B2 ltac:(lia)). dlia.
  - specialize (B1 ltac:(lia)). dlia.
Qed.

Lemma days_from_civil_upper : forall y m d, valid_date y m d = true -> y <= 9999 -> days_from_civil y m d <= 2932896.
Proof.
  intros y m d Hv Hy. unfold valid_date in Hv. repeat rewrite andb_true_iff in Hv.
  pose proof (days_in_month_le31 y m) as H31.
  assert (Hm : 1 <= m <= 12) by lia. assert (Hd : 1 <= d <= 31) by lia.
  rewrite days_from_civil_era.
  assert (Hyoe : 0 <= ymarch y m mod 400 < 400) by dlia.
  destruct (doe_of_bounds (ymarch y m mod 400) m d Hyoe Hm Hd) as [B1 B2].
  set (doe := doe_of (ymarch y m mod 400) m d) in *.
  unfold ymarch in *. destruct (m <=? 2) eqn:E.
  - specialize (B2 ltac:(lia)). dlia.
  - specialize (B1 ltac:(lia)). dlia.
Qed.

Lemma MIN_MICROS_eq : MIN_MICROS = -719162 * DAY_US.
Proof. reflexivity. Qed.
Lemma MAX_MICROS_eq : MAX_MICROS = 2932896 * DAY_US + (DAY_US - 1).
Proof. reflexivity. Qed.

Theorem from_micros_valid : forall n, MIN_MICROS <= n <= MAX_MICROS -> valid (from_micros_utc n).
Proof.
  intros n Hn. rewrite MIN_MICROS_eq, MAX_MICROS_eq in Hn.
  pose proof (from_micros_fields n) as [Hf [Ht Ho]].
  pose proof (days_from_civil_from_days (n / DAY_US)) as Hc.
  destruct (civil_from_days (n / DAY_US)) as [[y m] d]. destruct Hf as (Ey & Em & Ed). destruct Hc as [Hvd Hdays].
  assert (Hq : -719162 <= n / DAY_US <= 2932896) by (unfold DAY_US in *; dlia).
  assert (Hy : 1 <= y <= 9999).
  { split.
    - destruct (Z_le_gt_dec y 0) as [Hle|]; [|lia]. pose proof (days_before_year1 y m d Hvd Hle). lia.
    - destruct (Z_le_gt_dec 10000 y) as [Hge|]; [|lia]. pose proof (days_after_year9999 y m d Hvd Hge). lia. }
  unfold valid, validb. rewrite Ey, Em, Ed, Hvd, Ht, Ho.
  repeat rewrite andb_true_iff. repeat split; try reflexivity; apply Z.leb_le; lia.
Qed.

(* ------------------------------------------------------------------ input forms / coercion *)
Lemma coerce_aware : forall d, aware d -> coerce d = d.
Proof. intros d H. unfold coerce, aware in *. destruct (off d); [reflexivity|congruence]. Qed.

Lemma coerce_off : forall d, off (coerce d) <> None.
Proof. intros d. unfold coerce. destruct (off d) eqn:E; cbn [off]; congruence. Qed.

Lemma coerce_naive : forall d, off d = None -> off (coerce d) = Some 0 /\ wall (coerce d) = wall d.
Proof. intros d H. unfold coerce. rewrite H. split; reflexivity. Qed.

Lemma coerce_wall : forall d, wall (coerce d) = wall d.
Proof. intros d. unfold coerce. destruct (off d); reflexivity. Qed.

Lemma coerce_valid : forall d, valid d -> valid (coerce d).
Proof.
  intros d H. unfold coerce. destruct (off d) eqn:E; [exact H|].
  unfold valid, validb in *. cbn [yr mo dy hh mi ss us off]. rewrite E in H.
  repeat rewrite andb_true_iff in *. tauto.
Qed.

Lemma coerce_micros : forall d, to_micros (coerce d) = to_micros d.
Proof.
  intros d. unfold coerce. destruct (off d) eqn:E; [reflexivity|].
  unfold to_micros, off_or_utc. cbn [yr mo dy hh mi ss us off]. rewrite E. reflexivity.
Qed.

Lemma dt_of_fields_valid : forall d, valid d -> dt_of_fields d = Some (coerce d).
Proof. intros d H. unfold dt_of_fields. unfold valid in H. rewrite H. reflexivity. Qed.

Lemma dt_of_epoch_in_range : forall n, MIN_MICROS <= n <= MAX_MICROS -> dt_of_epoch n = Some (from_micros_utc n).
Proof. intros n H. unfold dt_of_epoch. pose proof (from_micros_valid n H) as Hv. unfold valid in Hv. rewrite Hv. reflexivity. Qed.

Theorem dt_new_aware : forall q keep i d, dt_new q keep i = Some d -> off d <> None.
Proof.
  intros q keep i d. destruct i as [x o0|s|n]; cbn [dt_new].
  - unfold dt_of_fields. destruct (validb (obj_rebuild keep x o0)); [|discriminate]. intros H. injection H as <-. apply coerce_off.
  - destruct (iso_parse q s); [|discriminate]. cbn. intros H. injection H as <-. apply coerce_off.
  - unfold dt_of_epoch. destruct (validb (from_micros_utc n)); [|discriminate]. intros H. injection H as <-.
    pose proof (from_micros_fields n) as (_ & _ & Ho). congruence.
Qed.

Theorem dt_new_obj : forall q x o0, valid x -> dt_new q true (InObj x o0) = Some (coerce x).
Proof. intros q x o0 H. cbn [dt_new obj_rebuild]. apply dt_of_fields_valid. exact H. Qed.

Theorem dt_new_text : forall q keep d, valid d -> off_exact q (off d) = true ->
  dt_new q keep (InText (iso_print d)) = Some (coerce d).
Proof. intros q keep d H Hx. cbn [dt_new]. rewrite iso_roundtrip_q by assumption. reflexivity. Qed.

Theorem dt_new_epoch : forall q keep n, MIN_MICROS <= n <= MAX_MICROS ->
  dt_new q keep (InEpochMicros n) = Some (from_micros_utc n).
Proof. intros q keep n H. cbn [dt_new]. apply dt_of_epoch_in_range. exact H. Qed.

(* ------------------------------------------------------------------ storage formats *)
Lemma text_roundtrip : forall q d, valid d -> aware d -> off_exact q (off d) = true -> text_decode q (iso_print d) = Some d.
Proof. intros q d Hv Ha Hx. unfold text_decode. rewrite iso_roundtrip_q by assumption. cbn. rewrite coerce_aware by exact Ha. reflexivity. Qed.

Theorem tuple_roundtrip : forall d, valid d -> off d = Some 0 -> unpack_tuple (pack_tuple d) = Some d.
Proof.
  intros d Hv Ho. unfold unpack_tuple, pack_tuple, wall, of_tuple.
  rewrite dt_of_fields_valid.
  - unfold coerce. cbn [off yr mo dy hh mi ss us]. destruct d as [y m dd h mn s u o]. cbn in *. subst o. reflexivity.
  - unfold valid, validb in *. cbn [off yr mo dy hh mi ss us]. rewrite Ho in Hv. exact Hv.
Qed.

(* a naive value stored as a tuple comes back as the UTC value with the same wall clock: the coercion rule *)
Theorem tuple_roundtrip_naive : forall d, valid d -> off d = None -> unpack_tuple (pack_tuple d) = Some (coerce d).
Proof.
  intros d Hv Ho. unfold unpack_tuple, pack_tuple, wall, of_tuple.
  rewrite dt_of_fields_valid.
  - unfold coerce. cbn [off yr mo dy hh mi ss us]. rewrite Ho. reflexivity.
  - destruct d as [y m dd h mn s u o]. cbn in *. subst o. exact Hv.
Qed.

Theorem stream_roundtrip : forall q r k d, rule_safe r = true -> valid d -> aware d -> kind_ok k d ->
  off_exact q (off d) = true -> stream_decode q (stream_encode r k d) = Some d.
Proof.
  intros q r k d Hs Hv Ha Hk Hx. unfold stream_encode, encode_form.
  destruct (chosen_form r k) eqn:Ef.
  - destruct k; cbn [kind_ok] in Hk.
    + unfold aware in Ha. congruence.
    + cbn [stream_decode]. apply tuple_roundtrip; assumption.
    + unfold rule_safe in Hs. rewrite Ef in Hs. discriminate.
  - cbn [stream_decode]. apply text_roundtrip; assumption.
Qed.

Theorem text_format_roundtrip : forall q f d, f = FormIsoText -> valid d -> aware d -> off_exact q (off d) = true ->
  obind (text_encode f d) (text_wire_decode q) = Some d.
Proof. intros q f d -> Hv Ha Hx. cbn. apply text_roundtrip; assumption. Qed.

(* the quirk through the storage formats: a value whose offset is -1 microsecond comes back as UTC, one microsecond off *)
Lemma formats_quirk_refuted : forall r, rule_safe r = true ->
  let d := mkdt 2000 1 1 0 0 0 0 (Some (-1)) in
  let d' := mkdt 2000 1 1 0 0 0 0 (Some 0) in
  valid d /\ aware d /\ kind_ok KOther d
  /\ stream_decode true (stream_encode r KOther d) = Some d'
  /\ obind (text_encode FormIsoText d) (text_wire_decode true) = Some d'
  /\ to_micros d' <> to_micros d.
Proof.
  intros r Hr. cbv zeta. split; [reflexivity|]. split; [unfold aware; cbn; discriminate|].
  split; [cbn; discriminate|]. split.
  - unfold stream_encode. unfold rule_safe in Hr. destruct (chosen_form r KOther); [discriminate|]. reflexivity.
  - split; [reflexivity|]. vm_compute. discriminate.
Qed.

Lemma in_utc_range_bounds : forall d, in_utc_range d = true -> MIN_MICROS <= to_micros d <= MAX_MICROS.
Proof. intros d H. unfold in_utc_range in H. rewrite andb_true_iff in H. lia. Qed.

Theorem avro_roundtrip : forall logical guard d, in_utc_range d = true ->
  (logical = true \/ guard < to_micros d) ->
  avro_decode logical guard (avro_encode d) = Some (to_utc d)
  /\ to_micros (to_utc d) = to_micros d /\ off (to_utc d) = Some 0 /\ valid (to_utc d).
Proof.
  intros logical guard d Hr Hg. pose proof (in_utc_range_bounds d Hr) as Hb.
  unfold avro_encode. cbn [avro_decode].
  assert (E : logical || (guard <? to_micros d) = true).
  { destruct Hg as [->|Hg]; [reflexivity|]. apply orb_true_iff. right. apply Z.ltb_lt. exact Hg. }
  rewrite E. rewrite dt_of_epoch_in_range by exact Hb. unfold to_utc.
  split; [reflexivity|]. split; [apply to_micros_from_micros|]. split.
  - pose proof (from_micros_fields (to_micros d)) as (_ & _ & Ho). exact Ho.
  - apply from_micros_valid. exact Hb.
Qed.

(* a UTC value comes back from Avro unchanged *)
Theorem avro_roundtrip_utc : forall d, valid d -> off d = Some 0 -> in_utc_range d = true /\ to_utc d = d.
Proof.
  intros d Hv Ho. split; [|apply from_micros_to_micros; assumption].
  pose proof (valid_unpack d Hv) as (Hy & Hmo & Hdy & Hh & Hmi & Hs & Hu & _).
  assert (Hvd : valid_date (yr d) (mo d) (dy d) = true).
  { unfold valid, validb in Hv. repeat rewrite andb_true_iff in Hv. tauto. }
  unfold in_utc_range. rewrite MIN_MICROS_eq, MAX_MICROS_eq.
  unfold to_micros, off_or_utc. rewrite Ho.
  set (D := days_from_civil (yr d) (mo d) (dy d)).
  assert (HD : -719162 <= D <= 2932896).
  { subst D. split.
    - assert (Hx := days_from_civil_lower (yr d) (mo d) (dy d) Hvd ltac:(lia)). lia.
    - assert (Hx := days_from_civil_upper (yr d) (mo d) (dy d) Hvd ltac:(lia)). lia. }
  apply andb_true_iff. unfold DAY_US, SEC_US in *. split; [apply Z.leb_le|apply Z.leb_le]; lia.
Qed.

(* an instant outside [0001-01-01T00:00:00Z, 9999-12-31T23:59:59.999999Z] has no UTC value: reading is refused *)
Lemma dt_of_epoch_out_of_range : forall n, ~ (MIN_MICROS <= n <= MAX_MICROS) -> dt_of_epoch n = None.
Proof.
  intros n Hn. unfold dt_of_epoch. destruct (validb (from_micros_utc n)) eqn:E; [exfalso|reflexivity].
  pose proof (from_micros_fields n) as (_ & _ & Ho).
  destruct (avro_roundtrip_utc (from_micros_utc n) E Ho) as [Hr _].
  apply in_utc_range_bounds in Hr. rewrite to_micros_from_micros in Hr. exact (Hn Hr).
Qed.

Theorem avro_out_of_range_refused : forall guard d, in_utc_range d = false ->
  avro_decode true guard (avro_encode d) = None.
Proof.
  intros guard d H. unfold avro_encode. cbn [avro_decode orb]. apply dt_of_epoch_out_of_range.
  intros Hb. unfold in_utc_range in H. apply andb_false_iff in H. destruct H as [H|H]; lia.
Qed.

(* ------------------------------------------------------------------ display setting *)
Lemma observe_indep : forall (R : Type) readers fns (base : R) shown d1 d2,
  reads_display readers fns = false -> observe readers fns base shown d1 = observe readers fns base shown d2.
Proof. intros. unfold observe. rewrite H. reflexivity. Qed.

Theorem display_irrelevant : forall (readers : list string) (opf : dt_op -> list string) (ops : list dt_op),
  forallb (fun o => negb (reads_display readers (opf o))) ops = true ->
  forall o, In o ops ->
    reads_display readers (opf o) = false
    /\ forall (R : Type) (base : R) (shown : option Z -> R) s1 s2,
         observe readers (opf o) base shown s1 = observe readers (opf o) base shown s2.
Proof.
  intros readers opf ops H o Ho. rewrite forallb_forall in H. specialize (H o Ho).
  apply negb_true_iff in H. split; [exact H|]. intros. apply observe_indep. exact H.
Qed.

(* without `fold` the object branch changes the offset of a fold=1 value: the fact is needed *)
Lemma fold_dropped_changes_offset : forall q,
  let x := mkdt 2021 10 31 2 30 0 0 (Some 3600000000) in
  valid x /\ aware x /\ dt_new q false (InObj x (Some 7200000000)) <> Some x
  /\ dt_new q true (InObj x (Some 7200000000)) = Some x.
Proof.
  intros q. cbv zeta. split; [reflexivity|]. split; [unfold aware; cbn; discriminate|].
  split; [vm_compute; discriminate|reflexivity].
Qed.

(* ------------------------------------------------------------------ SQLite column typing, entry routes *)
Theorem sqlite_roundtrip : forall reads_as q f d, reads_as = "datetime"%string -> f = FormIsoText -> valid d -> aware d ->
  off_exact q (off d) = true -> obind (text_encode f d) (sqlite_decode reads_as q) = Some d.
Proof. intros reads_as q f d -> -> Hv Ha Hx. cbn. apply text_roundtrip; assumption. Qed.

(* a column declared so that it reads as text gives no timestamp back *)
Lemma sqlite_text_column_refuted : forall q d, obind (text_encode FormIsoText d) (sqlite_decode "string" q) = None.
Proof. reflexivity. Qed.

Lemma all_routes_complete : forall r, In r all_routes.
Proof. destruct r; cbv; tauto. Qed.

Theorem every_route_coerces : forall (f : entry_route -> list string),
  forallb (fun r => route_coerces (f r)) all_routes = true ->
  forall r q keep i,
    enter_via (f r) q keep i = match dt_new q keep i with Some d => StoredValue d | None => Rejected end
    /\ (forall d, enter_via (f r) q keep i = StoredValue d -> aware d).
Proof.
  intros f H r q keep i. rewrite forallb_forall in H. specialize (H r (all_routes_complete r)).
  unfold enter_via. rewrite H. split; [reflexivity|].
  intros d. destruct (dt_new q keep i) eqn:E; [|discriminate]. intros Hd. injection Hd as <-.
  exact (dt_new_aware q keep i d0 E).
Qed.

(* a route that does not run the constructor keeps a naive object naive *)
Lemma route_without_constructor_refuted : forall q keep x o0,
  enter_via [] q keep (InObj x o0) = StoredRaw (InObj x o0).
Proof. reflexivity. Qed.

(* ------------------------------------------------------------------ field-wise construction, replace(tzinfo=None) *)
Theorem dt_of_fields_aware : forall x d, dt_of_fields x = Some d ->
  aware d /\ wall d = wall x /\ (off x = None -> off d = Some 0) /\ (forall z, off x = Some z -> off d = Some z).
Proof.
  intros x d H. unfold dt_of_fields in H. destruct (validb x); [|discriminate]. injection H as <-.
  split; [apply coerce_off|]. split; [apply coerce_wall|]. split.
  - intros Hn. apply (coerce_naive x Hn).
  - intros z Hz. unfold coerce. rewrite Hz. exact Hz.
Qed.

Lemma strip_off_valid : forall d, valid d -> valid (strip_off d).
Proof.
  intros d H. unfold valid, validb, strip_off in *. cbn [yr mo dy hh mi ss us off].
  repeat rewrite andb_true_iff in *. cbn [valid_off]. tauto.
Qed.

Theorem replace_none_constructed : forall d, valid d ->
  replace_tzinfo_none false d = Some (coerce (strip_off d)) /\ off (coerce (strip_off d)) = Some 0
  /\ wall (coerce (strip_off d)) = wall d.
Proof.
  intros d Hv. unfold replace_tzinfo_none. rewrite (dt_of_fields_valid _ (strip_off_valid d Hv)).
  split; [reflexivity|]. split; reflexivity.
Qed.

Lemma replace_none_bypass_refuted : forall d, exists r, replace_tzinfo_none true d = Some r /\ off r = None.
Proof. intros d. exists (strip_off d). split; reflexivity. Qed.
