From Coq Require Import List Bool NArith ZArith Lia.
From Coq Require Import Init.Byte.
From FR Require Import Bytes Msgpack Msgpack_proofs Packer.
Import ListNotations.
Open Scope Z_scope.

(* ---------- induction principle for xv ---------- *)
Section XvInd.
Variable P : xv -> Prop.
Hypothesis Hnil : P XNil.
Hypothesis Hbool : forall b, P (XBool b).
Hypothesis Hint : forall z, P (XInt z).
Hypothesis Hf : forall n, P (XF64 n).
Hypothesis Hstr : forall s, P (XStr s).
Hypothesis Hbin : forall s, P (XBin s).
Hypothesis Harr : forall l, Forall P l -> P (XArr l).
Hypothesis Hmap : forall l, Forall (fun kx => P (fst kx) /\ P (snd kx)) l -> P (XMap l).
Hypothesis Hext : forall sub p, P p -> P (XExt sub p).
Fixpoint xv_ind' (x : xv) : P x :=
  match x with
  | XNil => Hnil | XBool b => Hbool b | XInt z => Hint z | XF64 n => Hf n | XStr s => Hstr s | XBin s => Hbin s
  | XArr l => Harr l ((fix go (l : list xv) : Forall P l :=
                         match l with [] => Forall_nil _ | a :: t => Forall_cons a (xv_ind' a) (go t) end) l)
  | XMap l => Hmap l ((fix go (l : list (xv * xv)) : Forall (fun kx => P (fst kx) /\ P (snd kx)) l :=
                         match l with
                         | [] => Forall_nil _
                         | (k, a) :: t => Forall_cons (k, a) (conj (xv_ind' k) (xv_ind' a)) (go t)
                         end) l)
  | XExt sub p => Hext sub p (xv_ind' p)
  end.
End XvInd.

Section Envelope.
Variable c : cfg.

Definition lower_list (l : list xv) : list mv := map (lower c) l.
Definition lower_pairs (l : list (xv * xv)) : list (mv * mv) := map (fun kx => (lower c (fst kx), lower c (snd kx))) l.

Lemma lower_arr l : lower c (XArr l) = MArr (lower_list l).
Proof. reflexivity. Qed.
Lemma lower_map l : lower c (XMap l) = MMap (lower_pairs l).
Proof. cbn [lower]. f_equal. induction l as [|[k a] t IH]; [reflexivity|]. cbn [lower_pairs map fst snd]. f_equal. exact IH. Qed.

Definition varint_inner (z : Z) : mv :=
  MArr [MInt (SUB_VARINT c); MArr [MBool (z <? 0); MBin (minbe (Z.abs_N z))]].
Definition ext_inner (sub : Z) (p : mv) : mv := MArr [MInt sub; p].

(* values the envelope can carry: everything lowered is a well-formed msgpack value, ext payloads fit in a
   32-bit length, and a user sub-type is not the VARINT sub-type *)
Fixpoint xv_ok (x : xv) : bool :=
  match x with
  | XInt z => in_msgpack_range z ||
              (mv_wf (varint_inner z) && (blen (enc (varint_inner z)) <? 2 ^ 32)%N)
  | XArr l => forallb xv_ok l
  | XMap l => (fix go (l : list (xv * xv)) := match l with [] => true | (k, a) :: t => xv_ok k && xv_ok a && go t end) l
  | XExt sub p => xv_ok p && negb (sub =? SUB_VARINT c) &&
                  mv_wf (ext_inner sub (lower c p)) && (blen (enc (ext_inner sub (lower c p))) <? 2 ^ 32)%N
  | _ => true
  end.

Definition cfg_ok : bool := (EXT c <? 256)%N.

(* nesting depth of ext envelopes *)
Fixpoint xdepth (x : xv) : nat :=
  match x with
  | XArr l => fold_right (fun a n => Nat.max (xdepth a) n) O l
  | XMap l => (fix go (l : list (xv * xv)) := match l with [] => O | (k, a) :: t => Nat.max (Nat.max (xdepth k) (xdepth a)) (go t) end) l
  | XExt _ p => S (xdepth p)
  | _ => O
  end.

Lemma minbe_unbe n : unbe (minbe n) = n.
Proof.
  unfold minbe, bytelen. apply unbe_be.
  destruct n as [|p]; [cbn; lia|].
  rewrite N2Nat.id.
  assert (H : (N.pos p < 2 ^ N.size (N.pos p))%N) by apply N.size_gt.
  eapply N.lt_le_trans; [exact H|].
  change 256%N with (2 ^ 8)%N. rewrite <- N.pow_mul_r.
  apply N.pow_le_mono_r; [lia|].
  pose proof (N.div_mod (N.size (N.pos p) + 7) 8 ltac:(lia)).
  pose proof (N.mod_upper_bound (N.size (N.pos p) + 7) 8 ltac:(lia)). lia.
Qed.

Lemma all_some_map {A B} (f : A -> option B) (g : A -> B) l :
  Forall (fun a => f a = Some (g a)) l -> all_some (map f l) = Some (map g l).
Proof. induction 1 as [|a t Ha _ IH]; [reflexivity|]. cbn [map all_some]. rewrite Ha, IH. reflexivity. Qed.

Definition raise_body (d : nat) :=
  (fix go (m : mv) : option xv :=
      match m with
      | MNil => Some XNil | MBool b => Some (XBool b) | MInt z => Some (XInt z)
      | MF64 n => Some (XF64 n) | MStr s => Some (XStr s) | MBin s => Some (XBin s)
      | MArr l =>
          match all_some ((fix gol (l : list mv) := match l with [] => [] | a :: t => go a :: gol t end) l) with
          | Some r => Some (XArr r) | None => None end
      | MMap l =>
          match all_some ((fix gom (l : list (mv * mv)) :=
                             match l with
                             | [] => []
                             | (k, a) :: t =>
                                 (match go k, go a with Some k', Some a' => Some (k', a') | _, _ => None end) :: gom t
                             end) l) with
          | Some r => Some (XMap r) | None => None end
      | MExt ty bs =>
          if negb (N.eqb ty (EXT c)) then None
          else match unpackb bs with
               | UOk (MArr [MInt sub; p]) =>
                   if Z.eqb sub (SUB_VARINT c) then
                     match p with
                     | MArr [MBool neg; MBin h] => Some (XInt (if neg then - Z.of_N (unbe h) else Z.of_N (unbe h)))
                     | _ => None
                     end
                   else match raise_ c d p with Some x => Some (XExt sub x) | None => None end
               | _ => None
               end
      end).

Lemma raise_S d m : raise_ c (S d) m = raise_body d m.
Proof. reflexivity. Qed.

Lemma raise_body_arr d l :
  raise_body d (MArr l) = match all_some (map (raise_body d) l) with Some r => Some (XArr r) | None => None end.
Proof.
  cbn [raise_body]. 
  assert (E : (fix gol (l0 : list mv) : list (option xv) := match l0 with [] => [] | a :: t => raise_body d a :: gol t end) l
              = map (raise_body d) l) by (induction l as [|a t IH]; [reflexivity|cbn [map]; f_equal; exact IH]).
  unfold raise_body in E at 1. cbn beta in E. rewrite <- E. reflexivity.
Qed.

Lemma raise_body_map d l :
  raise_body d (MMap l) =
  match all_some (map (fun kx => match raise_body d (fst kx), raise_body d (snd kx) with
                                 | Some k', Some a' => Some (k', a') | _, _ => None end) l) with
  | Some r => Some (XMap r) | None => None end.
Proof.
  cbn [raise_body].
  assert (E : (fix gom (l0 : list (mv * mv)) : list (option (xv * xv)) :=
                 match l0 with
                 | [] => []
                 | (k, a) :: t => match raise_body d k, raise_body d a with Some k', Some a' => Some (k', a') | _, _ => None end :: gom t
                 end) l
              = map (fun kx => match raise_body d (fst kx), raise_body d (snd kx) with
                               | Some k', Some a' => Some (k', a') | _, _ => None end) l)
    by (induction l as [|[k a] t IH]; [reflexivity|cbn [map fst snd]; f_equal; exact IH]).
  unfold raise_body in E at 1. cbn beta in E. rewrite <- E. reflexivity.
Qed.

Lemma xdepth_arr_le l a : In a l -> (xdepth a <= xdepth (XArr l))%nat.
Proof.
  cbn [xdepth]. induction l as [|b t IH]; intros H; [contradiction|]. cbn [fold_right].
  destruct H as [->|H]; [lia|]. specialize (IH H). lia.
Qed.

Lemma xdepth_map_le l k a : In (k, a) l -> (xdepth k <= xdepth (XMap l) /\ xdepth a <= xdepth (XMap l))%nat.
Proof.
  cbn [xdepth]. induction l as [|[k' a'] t IH]; intros H; [contradiction|].
  destruct H as [E|H]; [injection E as -> ->; lia|]. specialize (IH H). lia.
Qed.

Definition xv_ok_pairs := fix go (l : list (xv * xv)) := match l with [] => true | (k, a) :: t => xv_ok k && xv_ok a && go t end.

Theorem raise_lower : cfg_ok = true -> forall x, xv_ok x = true ->
  forall d, (xdepth x < d)%nat -> raise_ c d (lower c x) = Some x.
Proof.
  intros Hc. induction x using xv_ind'; intros Hok d Hd; (destruct d as [|d]; [lia|]); rewrite raise_S.
  - reflexivity.
  - reflexivity.
  - (* XInt *)
    cbn [lower]. destruct (in_msgpack_range z) eqn:R; [reflexivity|].
    cbn [xv_ok] in Hok. rewrite R in Hok. cbn [orb] in Hok. apply andb_prop in Hok. destruct Hok as [Hwf _].
    cbn [raise_body]. rewrite N.eqb_refl. cbn [negb].
    fold (varint_inner z). rewrite (unpackb_enc _ Hwf). unfold varint_inner. rewrite Z.eqb_refl.
    rewrite minbe_unbe. f_equal. f_equal.
    destruct (Z.ltb_spec z 0) as [H|H]; rewrite N2Z.inj_abs_N; lia.
  - reflexivity.
  - reflexivity.
  - reflexivity.
  - (* XArr *)
    rewrite lower_arr, raise_body_arr. unfold lower_list. rewrite map_map.
    cbn [xv_ok] in Hok. rewrite forallb_forall in Hok.
    rewrite (all_some_map _ (fun a => a)).
    + rewrite map_id. reflexivity.
    + rewrite Forall_forall in *. intros a Ha. rewrite <- raise_S. apply H; [exact Ha|apply Hok; exact Ha|].
      pose proof (xdepth_arr_le l a Ha). lia.
  - (* XMap *)
    rewrite lower_map, raise_body_map. unfold lower_pairs. rewrite map_map. cbn [fst snd].
    rewrite (all_some_map _ (fun kx => kx)).
    + rewrite map_id. reflexivity.
    + assert (Hok' : Forall (fun kx => xv_ok (fst kx) = true /\ xv_ok (snd kx) = true) l).
      { clear H Hd. cbn [xv_ok] in Hok. fold xv_ok_pairs in Hok. induction l as [|[k a] t IH]; [constructor|].
        cbn [xv_ok_pairs] in Hok. apply andb_prop in Hok. destruct Hok as [Hka Ht]. apply andb_prop in Hka. destruct Hka as [Hk Ha].
        constructor; [split; assumption|apply IH; exact Ht]. }
      rewrite Forall_forall in *. intros [k a] Hin. cbn [fst snd].
      destruct (H _ Hin) as [IHk IHa]. destruct (Hok' _ Hin) as [Ok Oa]. cbn [fst snd] in *.
      destruct (xdepth_map_le l k a Hin) as [Dk Da].
      rewrite <- !raise_S. rewrite (IHk Ok (S d)) by lia. rewrite (IHa Oa (S d)) by lia. reflexivity.
  - (* XExt *)
    cbn [xv_ok] in Hok. apply andb_prop in Hok. destruct Hok as [Hok Hsm]. apply andb_prop in Hok. destruct Hok as [Hok Hwf].
    apply andb_prop in Hok. destruct Hok as [Hp Hne]. apply negb_true_iff in Hne.
    cbn [lower raise_body]. rewrite N.eqb_refl. cbn [negb].
    fold (ext_inner sub (lower c x)). rewrite (unpackb_enc _ Hwf). unfold ext_inner. rewrite Hne.
    cbn [xdepth] in Hd. rewrite (IHx Hp d) by lia. reflexivity.
Qed.

End Envelope.
