(* Proofs about model/Compose.v: the model written from the code computes the reference written from the
   property's wording, for all inputs. *)
From Coq Require Import List Bool String Arith Lia.
Import ListNotations.
From FR Require Import Compose.
Open Scope string_scope.
Open Scope list_scope.
Arguments mem : simpl never.

(* ---------------------------------------------------------------------------------------------- *)
(* membership, filters                                                                              *)

Lemma mem_In : forall k l, mem k l = true <-> In k l.
Proof.
  unfold mem. intros k l. rewrite existsb_exists. split.
  - intros [x [Hin He]]. apply String.eqb_eq in He. subst. exact Hin.
  - intros Hin. exists k. split; [exact Hin | apply String.eqb_refl].
Qed.

Lemma mem_false : forall k l, mem k l = false <-> ~ In k l.
Proof.
  intros k l. rewrite <- mem_In. destruct (mem k l); split; intros H; try discriminate; auto.
  exfalso. apply H. reflexivity.
Qed.

Lemma mem_app : forall k a b, mem k (a ++ b) = mem k a || mem k b.
Proof. intros. unfold mem. apply existsb_app. Qed.

Lemma mem_cons : forall k x l, mem k (x :: l) = String.eqb k x || mem k l.
Proof. reflexivity. Qed.

Lemma mem_nil : forall k, mem k [] = false.
Proof. reflexivity. Qed.

Lemma filter_filter' : forall (A : Type) (f g : A -> bool) l,
  filter f (filter g l) = filter (fun x => g x && f x) l.
Proof.
  induction l as [|x l IH]; simpl; [reflexivity|].
  destruct (g x); simpl; [destruct (f x)|]; rewrite IH; reflexivity.
Qed.

Lemma filter_ext_in' : forall (A : Type) (f g : A -> bool) l,
  (forall x, In x l -> f x = g x) -> filter f l = filter g l.
Proof.
  induction l as [|x l IH]; simpl; intros H; [reflexivity|].
  rewrite (H x (or_introl eq_refl)). rewrite IH; [reflexivity|]. intros y Hy. apply H. right. exact Hy.
Qed.

Lemma filter_all : forall (A : Type) (f : A -> bool) l, (forall x, In x l -> f x = true) -> filter f l = l.
Proof.
  induction l as [|x l IH]; simpl; intros H; [reflexivity|].
  rewrite (H x (or_introl eq_refl)). rewrite IH; [reflexivity|]. intros y Hy. apply H. right. exact Hy.
Qed.

Lemma NoDup_filter' : forall (A : Type) (f : A -> bool) l, NoDup l -> NoDup (filter f l).
Proof.
  induction l as [|x l IH]; simpl; intros H; [constructor|].
  inversion H as [|? ? Hn Hd]; subst. destruct (f x); [constructor|]; auto.
  intros Hin. apply filter_In in Hin. apply Hn. apply Hin.
Qed.

(* ---------------------------------------------------------------------------------------------- *)
(* dedup                                                                                            *)

Lemma In_dedup : forall x l, In x (dedup l) <-> In x l.
Proof.
  induction l as [|y l IH]; simpl; [tauto|]. rewrite filter_In, IH.
  destruct (String.eqb x y) eqn:E; simpl.
  - apply String.eqb_eq in E. subst. tauto.
  - intuition.
Qed.

Lemma NoDup_dedup : forall l, NoDup (dedup l).
Proof.
  induction l as [|y l IH]; simpl; constructor.
  - intros H. apply filter_In in H. destruct H as [_ H]. rewrite String.eqb_refl in H. discriminate.
  - apply NoDup_filter'. exact IH.
Qed.

Lemma dedup_nodup : forall l, NoDup l -> dedup l = l.
Proof.
  induction l as [|y l IH]; simpl; intros H; [reflexivity|].
  inversion H as [|? ? Hn Hd]; subst. rewrite (IH Hd). f_equal. apply filter_all.
  intros x Hx. destruct (String.eqb x y) eqn:E; [|reflexivity]. apply String.eqb_eq in E. subst. contradiction.
Qed.

Lemma dedup_app : forall a b, dedup (a ++ b) = dedup a ++ filter (fun y => negb (mem y a)) (dedup b).
Proof.
  induction a as [|x a IH]; intros b; simpl.
  - symmetry. apply filter_all. reflexivity.
  - rewrite IH, filter_app, filter_filter'. f_equal. f_equal. apply filter_ext_in'. intros y _.
    rewrite mem_cons. destruct (String.eqb y x); destruct (mem y a); reflexivity.
Qed.

(* ---------------------------------------------------------------------------------------------- *)
(* association lists                                                                                *)
Section AssocLemmas.
Context {P : Type}.
Implicit Types l m : @ents P.

Lemma keys_app : forall l m, keys (l ++ m) = keys l ++ keys m.
Proof. intros. unfold keys. apply map_app. Qed.

Lemma has_In : forall k l, has k l = true <-> In k (keys l).
Proof. intros. unfold has. apply mem_In. Qed.

Lemma assoc_app : forall k l m,
  assoc k (l ++ m) = match assoc k l with Some v => Some v | None => assoc k m end.
Proof.
  induction l as [|e l IH]; intros m; simpl; [reflexivity|]. destruct (String.eqb k (fst e)); [reflexivity|apply IH].
Qed.

Lemma assoc_none : forall k l, assoc k l = None <-> has k l = false.
Proof.
  unfold has, keys. induction l as [|e l IH]; simpl; [tauto|]. rewrite mem_cons.
  destruct (String.eqb k (fst e)); simpl; [split; discriminate|exact IH].
Qed.

Lemma assoc_some_has : forall k l v, assoc k l = Some v -> has k l = true.
Proof.
  intros k l v H. destruct (has k l) eqn:E; [reflexivity|]. apply assoc_none in E. congruence.
Qed.

Lemma has_assoc : forall k l, has k l = true -> exists v, assoc k l = Some v.
Proof.
  intros k l H. destruct (assoc k l) eqn:E; [eauto|]. apply assoc_none in E. congruence.
Qed.

Lemma assoc_In : forall k l v, assoc k l = Some v -> In (k, v) l.
Proof.
  induction l as [|e l IH]; simpl; intros v H; [discriminate|].
  destruct (String.eqb k (fst e)) eqn:E.
  - apply String.eqb_eq in E. inversion H. subst. left. destruct e; reflexivity.
  - right. apply IH. exact H.
Qed.

Lemma assoc_rev_nodup : forall k l, NoDup (keys l) -> assoc k (rev l) = assoc k l.
Proof.
  induction l as [|e l IH]; simpl; intros H; [reflexivity|].
  inversion H as [|? ? Hn Hd]; subst. rewrite assoc_app, (IH Hd). simpl.
  destruct (String.eqb k (fst e)) eqn:E.
  - apply String.eqb_eq in E. subst. destruct (assoc (fst e) l) eqn:A; [|reflexivity].
    exfalso. apply Hn. apply has_In. eapply assoc_some_has. exact A.
  - destruct (assoc k l); reflexivity.
Qed.

Lemma has_rev : forall k l, has k (rev l) = has k l.
Proof.
  intros. destruct (has k l) eqn:E.
  - apply has_In. apply has_In in E. unfold keys in *. rewrite map_rev. apply in_rev. rewrite rev_involutive. exact E.
  - destruct (has k (rev l)) eqn:E2; [|reflexivity]. apply has_In in E2. unfold keys in E2. rewrite map_rev in E2.
    apply in_rev in E2. apply has_In in E2. congruence.
Qed.

(* OrderedDict assignment *)
Lemma od_set_absent : forall k p m, has k m = false -> od_set k p m = m ++ [(k, p)].
Proof.
  unfold has, keys. induction m as [|e m IH]; simpl; intros H; [reflexivity|]. rewrite mem_cons in H.
  destruct (String.eqb k (fst e)); simpl in H; [discriminate|]. rewrite (IH H). reflexivity.
Qed.

Lemma keys_od_set_present : forall k p m, has k m = true -> keys (od_set k p m) = keys m.
Proof.
  unfold has, keys. induction m as [|e m IH]; simpl; intros H; [discriminate|]. rewrite mem_cons in H.
  destruct (String.eqb k (fst e)) eqn:E; simpl.
  - apply String.eqb_eq in E. subst. reflexivity.
  - simpl in H. rewrite (IH H). reflexivity.
Qed.

Lemma assoc_od_set : forall k' k p m,
  assoc k' (od_set k p m) = if String.eqb k' k then Some p else assoc k' m.
Proof.
  induction m as [|e m IH]; simpl.
  - destruct (String.eqb k' k); reflexivity.
  - destruct (String.eqb k (fst e)) eqn:E; simpl.
    + apply String.eqb_eq in E. subst. destruct (String.eqb k' (fst e)); reflexivity.
    + destruct (String.eqb k' (fst e)) eqn:E2.
      * apply String.eqb_eq in E2. subst. rewrite String.eqb_sym, E. reflexivity.
      * exact IH.
Qed.

(* an association list with distinct keys is the tabulation of its lookup function over its keys *)
Definition tabulate (f : string -> option P) (ks : list string) : @ents P :=
  flat_map (fun n => match f n with Some p => [(n, p)] | None => [] end) ks.

Lemma tabulate_ext : forall f g ks, (forall k, In k ks -> f k = g k) -> tabulate f ks = tabulate g ks.
Proof.
  induction ks as [|k ks IH]; simpl; intros H; [reflexivity|].
  rewrite (H k (or_introl eq_refl)). f_equal. apply IH. intros x Hx. apply H. right. exact Hx.
Qed.

Lemma ents_tabulate : forall l, NoDup (keys l) -> l = tabulate (fun k => assoc k l) (keys l).
Proof.
  induction l as [|e l IH]; simpl; intros H; [reflexivity|].
  inversion H as [|? ? Hn Hd]; subst. rewrite String.eqb_refl. simpl. destruct e as [k p]. simpl in *. f_equal.
  rewrite (IH Hd) at 1. apply tabulate_ext. intros x Hx.
  destruct (String.eqb x k) eqn:E; [|reflexivity]. apply String.eqb_eq in E. subst. contradiction.
Qed.

(* the first list (in the given order) that has the key = the first association in the concatenation *)
Lemma holder_assoc : forall k (ls : list (@ents P)),
  assoc k (List.concat ls) = match holder k ls with Some h => assoc k h | None => None end.
Proof.
  unfold holder. induction ls as [|l ls IH]; simpl; [reflexivity|]. rewrite assoc_app.
  destruct (has k l) eqn:E.
  - destruct (has_assoc _ _ E) as [v Hv]. rewrite Hv. reflexivity.
  - apply assoc_none in E. rewrite E. exact IH.
Qed.

Lemma rev_concat : forall (A : Type) (ls : list (list A)), rev (List.concat ls) = List.concat (map (@rev A) (rev ls)).
Proof.
  induction ls as [|l ls IH]; simpl; [reflexivity|].
  rewrite rev_app_distr, IH, map_app, concat_app. simpl. rewrite app_nil_r. reflexivity.
Qed.

Lemma holder_map_rev : forall k (ls : list (@ents P)),
  holder k (map (@rev _) ls) = option_map (@rev _) (holder k ls).
Proof.
  unfold holder. induction ls as [|l ls IH]; simpl; [reflexivity|]. rewrite has_rev.
  destruct (has k l); [reflexivity|exact IH].
Qed.

Lemma holder_In : forall k (ls : list (@ents P)) h, holder k ls = Some h -> In h ls /\ has k h = true.
Proof. unfold holder. intros k ls h H. apply find_some in H. exact H. Qed.

Lemma holder_rev_assoc : forall k (ls : list (@ents P)),
  Forall (fun l => NoDup (keys l)) ls ->
  assoc k (rev (List.concat ls)) = match holder k (rev ls) with Some h => assoc k h | None => None end.
Proof.
  intros k ls Hnd. rewrite rev_concat, holder_assoc, holder_map_rev. unfold ents in *.
  destruct (holder k (rev ls)) as [h|] eqn:E; simpl; [|reflexivity].
  apply assoc_rev_nodup. apply holder_In in E. destruct E as [Hin _]. apply in_rev in Hin.
  rewrite Forall_forall in Hnd. apply Hnd. exact Hin.
Qed.

Lemma keys_concat : forall (ls : list (@ents P)), keys (List.concat ls) = List.concat (map keys ls).
Proof. intros. unfold keys. apply concat_map. Qed.

(* ---- the merge loop, generic in the payload ---- *)
Definition merge_ent (replace : bool) (m : @ents P) (f : string * P) : @ents P :=
  if negb replace && has (fst f) m then m else od_set (fst f) (snd f) m.

Lemma merge_loop_keys : forall replace l m,
  keys (fold_left (merge_ent replace) l m) = keys m ++ filter (fun y => negb (mem y (keys m))) (dedup (keys l)).
Proof.
  induction l as [|e l IH]; intros m; simpl.
  - rewrite app_nil_r. reflexivity.
  - rewrite IH. unfold merge_ent. destruct (has (fst e) m) eqn:Hh.
    + assert (Hk : keys (if negb replace && true then m else od_set (fst e) (snd e) m) = keys m).
      { destruct replace; simpl; [apply keys_od_set_present; exact Hh|reflexivity]. }
      rewrite Hk. f_equal. unfold has in Hh. rewrite Hh. simpl. rewrite filter_filter'. apply filter_ext_in'.
      intros y _. destruct (String.eqb y (fst e)) eqn:E; simpl; [|reflexivity].
      apply String.eqb_eq in E. subst. rewrite Hh. reflexivity.
    + rewrite andb_false_r. rewrite (od_set_absent _ _ _ Hh). rewrite keys_app. simpl. rewrite <- app_assoc. f_equal.
      unfold has in Hh. rewrite Hh. simpl. f_equal. rewrite filter_filter'. apply filter_ext_in'. intros y _.
      rewrite mem_app, mem_cons, mem_nil, orb_false_r.
      destruct (String.eqb y (fst e)); destruct (mem y (keys m)); reflexivity.
Qed.

Lemma merge_loop_assoc : forall replace k l m,
  assoc k (fold_left (merge_ent replace) l m) =
  if replace then match assoc k (rev l) with Some v => Some v | None => assoc k m end
  else match assoc k m with Some v => Some v | None => assoc k l end.
Proof.
  induction l as [|e l IH]; intros m; simpl.
  - destruct replace; [reflexivity|]. destruct (assoc k m); reflexivity.
  - rewrite IH. unfold merge_ent. destruct replace; simpl.
    + rewrite assoc_app, assoc_od_set. simpl. destruct (assoc k (rev l)); [reflexivity|].
      destruct (String.eqb k (fst e)); reflexivity.
    + destruct (has (fst e) m) eqn:Hh.
      * destruct (assoc k m) eqn:A; [reflexivity|].
        destruct (String.eqb k (fst e)) eqn:E; [|reflexivity].
        apply String.eqb_eq in E. subst. apply assoc_none in A. congruence.
      * rewrite (od_set_absent _ _ _ Hh), assoc_app. simpl.
        destruct (assoc k m); [reflexivity|]. destruct (String.eqb k (fst e)); reflexivity.
Qed.

Lemma NoDup_app_disj : forall (A : Type) (a b : list A),
  NoDup a -> NoDup b -> (forall x, In x a -> ~ In x b) -> NoDup (a ++ b).
Proof.
  induction a as [|x a IH]; simpl; intros b Ha Hb Hd; [exact Hb|].
  inversion Ha as [|? ? Hn Hd']; subst. constructor.
  - intros Hin. apply in_app_or in Hin. destruct Hin as [Hin|Hin]; [contradiction|]. apply (Hd x); auto.
  - apply IH; auto.
Qed.

Lemma merge_loop_nodup : forall replace l m, NoDup (keys m) -> NoDup (keys (fold_left (merge_ent replace) l m)).
Proof.
  intros replace l m H. rewrite merge_loop_keys. apply NoDup_app_disj.
  - exact H.
  - apply NoDup_filter'. apply NoDup_dedup.
  - intros x Hx Hf. apply filter_In in Hf. destruct Hf as [_ Hf]. apply mem_In in Hx. rewrite Hx in Hf. discriminate.
Qed.
End AssocLemmas.

(* ---------------------------------------------------------------------------------------------- *)
(* merge = reference                                                                                *)
Section MergeRef.
Context {P : Type}.

Lemma ref_entries_tabulate : forall replace (ls : list (@ents P)),
  ref_entries replace ls =
  tabulate (fun n => match holder n (if replace then rev ls else ls) with Some h => assoc n h | None => None end)
           (dedup (List.concat (map keys ls))).
Proof.
  intros. unfold ref_entries, tabulate. apply flat_map_ext. intros n. unfold ref_entry.
  destruct (holder n (if replace then rev ls else ls)); reflexivity.
Qed.

Lemma fold_left_concat : forall (A B : Type) (f : A -> B -> A) (ls : list (list B)) (a : A),
  fold_left (fun m d => fold_left f d m) ls a = fold_left f (List.concat ls) a.
Proof.
  induction ls as [|l ls IH]; intros a; simpl; [reflexivity|]. rewrite fold_left_app. apply IH.
Qed.

Theorem merge_ents_ref : forall replace (ls : list (@ents P)),
  (replace = true -> Forall (fun l => NoDup (keys l)) ls) ->
  fold_left (merge_ent replace) (List.concat ls) [] = ref_entries replace ls.
Proof.
  intros replace ls Hnd.
  rewrite (ents_tabulate (fold_left (merge_ent replace) (List.concat ls) [])) by (apply merge_loop_nodup; constructor).
  rewrite ref_entries_tabulate, merge_loop_keys. simpl. rewrite keys_concat.
  rewrite filter_all by (intros; reflexivity).
  apply tabulate_ext. intros k _. rewrite merge_loop_assoc. destruct replace; simpl.
  - rewrite holder_rev_assoc by (apply Hnd; reflexivity). destruct (holder k (rev ls)) as [h|]; [|reflexivity].
    destruct (assoc k h); reflexivity.
  - apply holder_assoc.
Qed.
End MergeRef.

Theorem merge_descs_ref : forall replace (ds : list (list (string * string))),
  (replace = true -> Forall (fun d => NoDup (keys d)) ds) ->
  merge_descs replace ds = ref_merge replace ds.
Proof.
  intros replace ds H. unfold merge_descs, ref_merge. rewrite fold_left_concat. apply (merge_ents_ref replace ds H).
Qed.

(* ---------------------------------------------------------------------------------------------- *)
(* the reference says what the wording says                                                         *)
Section RefWording.
Context {P : Type}.

Lemma keys_tabulate : forall (f : string -> option P) ks,
  (forall k, In k ks -> f k <> None) -> keys (tabulate f ks) = ks.
Proof.
  induction ks as [|k ks IH]; simpl; intros H; [reflexivity|].
  rewrite keys_app. destruct (f k) eqn:E.
  - simpl. f_equal. apply IH. intros x Hx. apply H. right. exact Hx.
  - exfalso. apply (H k); auto.
Qed.

Lemma holder_exists : forall k (ls : list (@ents P)),
  In k (List.concat (map keys ls)) -> exists h, holder k ls = Some h /\ has k h = true.
Proof.
  unfold holder. induction ls as [|l ls IH]; simpl; intros H; [contradiction|].
  destruct (has k l) eqn:E; [eauto|]. apply in_app_or in H. destruct H as [H|H].
  - apply has_In in H. congruence.
  - apply IH. exact H.
Qed.

Lemma In_concat_rev : forall (A : Type) (x : A) (ls : list (list A)), In x (List.concat (rev ls)) <-> In x (List.concat ls).
Proof.
  intros. rewrite !in_concat. split; intros [l [H1 H2]]; exists l; split; auto; [apply in_rev|apply in_rev in H1]; auto.
Qed.

(* names: first-appearance order over all inputs *)
Lemma keys_ref_entries : forall replace (ls : list (@ents P)),
  keys (ref_entries replace ls) = dedup (List.concat (map keys ls)).
Proof.
  intros. rewrite ref_entries_tabulate. apply keys_tabulate. intros k Hk. apply (proj1 (In_dedup _ _)) in Hk.
  assert (Hk' : In k (List.concat (map keys (if replace then rev ls else ls)))).
  { destruct replace; [|exact Hk]. rewrite map_rev. apply In_concat_rev. exact Hk. }
  destruct (holder_exists _ _ Hk') as [h [Hh Hhas]]. rewrite Hh.
  destruct (has_assoc _ _ Hhas) as [v Hv]. rewrite Hv. discriminate.
Qed.

(* every field of the first input in order, then the unseen fields of the later ones *)
Lemma keys_ref_entries_first : forall replace (l : @ents P) ls,
  NoDup (keys l) ->
  keys (ref_entries replace (l :: ls)) =
  keys l ++ filter (fun y => negb (mem y (keys l))) (dedup (List.concat (map keys ls))).
Proof.
  intros. rewrite keys_ref_entries. simpl. rewrite dedup_app, dedup_nodup by assumption. reflexivity.
Qed.

(* each entry is the entry of the first (with replace: last) input that has the name *)
Lemma In_ref_entries : forall replace (ls : list (@ents P)) e,
  In e (ref_entries replace ls) ->
  exists h, holder (fst e) (if replace then rev ls else ls) = Some h /\ assoc (fst e) h = Some (snd e).
Proof.
  intros replace ls e H. unfold ref_entries in H. apply in_flat_map in H. destruct H as [n [_ H]].
  unfold ref_entry in H. destruct (holder n (if replace then rev ls else ls)) as [h|] eqn:Hh; [|contradiction].
  destruct (assoc n h) eqn:Ha; [|contradiction]. destruct H as [H|[]]. subst e. simpl. eauto.
Qed.

Lemma ref_entries_map : forall (Q : Type) (g : P -> Q) replace (ls : list (@ents P)),
  ref_entries replace (map (map (fun e => (fst e, g (snd e)))) ls) =
  map (fun e => (fst e, g (snd e))) (ref_entries replace ls).
Proof.
  intros Q g replace ls.
  assert (Hkeys : forall l : @ents P, keys (map (fun e => (fst e, g (snd e))) l) = keys l).
  { intros l. unfold keys. rewrite map_map. reflexivity. }
  assert (Hassoc : forall k (l : @ents P), assoc k (map (fun e => (fst e, g (snd e))) l) = option_map g (assoc k l)).
  { induction l as [|e l IH]; simpl; [reflexivity|]. destruct (String.eqb k (fst e)); [reflexivity|exact IH]. }
  assert (Hholder : forall k (xs : list (@ents P)),
             holder k (map (map (fun e => (fst e, g (snd e)))) xs) = option_map (map (fun e => (fst e, g (snd e)))) (holder k xs)).
  { unfold holder. induction xs as [|x xs IH]; simpl; [reflexivity|]. unfold has at 1. rewrite Hkeys. fold (has k x).
    destruct (has k x); [reflexivity|exact IH]. }
  assert (Hk2 : map keys (map (map (fun e : string * P => (fst e, g (snd e)))) ls) = map keys ls).
  { rewrite map_map. apply map_ext. exact Hkeys. }
  unfold ref_entries.
  rewrite Hk2. clear Hk2.
  generalize (dedup (List.concat (map keys ls))). intros ks.
  induction ks as [|k ks IH]; simpl; [reflexivity|]. rewrite map_app, IH. f_equal.
  unfold ref_entry. destruct replace.
  - rewrite <- map_rev, Hholder. unfold ents in *. destruct (holder k (rev ls)) as [h|]; simpl; [|reflexivity].
    rewrite Hassoc. destruct (assoc k h); reflexivity.
  - rewrite Hholder. unfold ents in *. destruct (holder k ls) as [h|]; simpl; [|reflexivity].
    rewrite Hassoc. destruct (assoc k h); reflexivity.
Qed.
End RefWording.

(* ---------------------------------------------------------------------------------------------- *)
(* records                                                                                          *)
Section Records.
Context {V : Type}.
Variable RES : list (string * string).
Variable vver : V.
Variable vname : string -> V.
Variable dflt : string -> V.
Variable TS : tsfacts.
Variable tsres : list V.
Variable GATTRS : list string.
Hypothesis RES_nodup : NoDup (map fst RES).

Local Notation rec := (@rec V).
Local Notation fld := (@fld V).
Local Notation wf := (@wf V RES).
Local Notation asdict := (@asdict V RES).
Local Notation rec_get := (@rec_get V RES).
Local Notation restamp := (@restamp V RES vver).
Local Notation res_names := (res_names RES).
Local Notation init_from_dict := (@init_from_dict V RES vver dflt).
Local Notation extend := (@extend V RES vver dflt).
Local Notation ref_extend := (@ref_extend V RES vver).

Lemma keys_rfields : forall r : rec, keys (rfields r) = names_of r.
Proof. reflexivity. Qed.

Lemma keys_desc_of : forall r : rec, keys (desc_of r) = names_of r.
Proof. intros. unfold keys, desc_of, names_of. rewrite map_map. reflexivity. Qed.

Lemma desc_of_map : forall r : rec, desc_of r = map (fun e => (fst e, fst (snd e))) (rfields r).
Proof. reflexivity. Qed.

Lemma keys_combine : forall (A : Type) (ks : list string) (vs : list A),
  List.length vs = List.length ks -> keys (combine ks vs) = ks.
Proof.
  induction ks as [|k ks IH]; intros vs H; destruct vs as [|v vs]; simpl in *; try discriminate; [reflexivity|].
  f_equal. apply IH. injection H as H. exact H.
Qed.

Lemma assoc_combine_none : forall (A : Type) k (ks : list string) (vs : list A),
  ~ In k ks -> assoc k (combine ks vs) = None.
Proof.
  induction ks as [|x ks IH]; intros vs H; [reflexivity|]. destruct vs as [|v vs]; [reflexivity|]. simpl.
  destruct (String.eqb k x) eqn:E.
  - apply String.eqb_eq in E. subst. exfalso. apply H. left. reflexivity.
  - apply IH. intros Hin. apply H. right. exact Hin.
Qed.

Lemma assoc_fields_val : forall k (fs : list fld),
  assoc k (map (fun f => (fname f, fval f)) fs) = option_map snd (assoc k fs).
Proof.
  induction fs as [|f fs IH]; simpl; [reflexivity|]. unfold fname at 1. destruct (String.eqb k (fst f)); [reflexivity|exact IH].
Qed.

(* getattr of a field name / of a reserved name *)
Lemma rec_get_field : forall (r : rec) k, has k (rfields r) = true -> rec_get r k = option_map snd (assoc k (rfields r)).
Proof.
  intros r k H. unfold Compose.rec_get, Compose.asdict. rewrite assoc_app, assoc_fields_val.
  destruct (has_assoc _ _ H) as [v Hv]. rewrite Hv. reflexivity.
Qed.

Lemma rec_get_nofield : forall (r : rec) k, has k (rfields r) = false -> rec_get r k = assoc k (combine res_names (rres r)).
Proof.
  intros r k H. unfold Compose.rec_get, Compose.asdict. rewrite assoc_app, assoc_fields_val.
  apply assoc_none in H. rewrite H. reflexivity.
Qed.

Lemma wf_field_not_res : forall (r : rec) k, wf r -> has k (rfields r) = true -> ~ In k res_names.
Proof. intros r k [_ [H _]] Hh. apply H. apply has_In in Hh. exact Hh. Qed.

Lemma wf_res_not_field : forall (r : rec) k, wf r -> In k res_names -> has k (rfields r) = false.
Proof.
  intros r k [_ [H _]] Hin. destruct (has k (rfields r)) eqn:E; [|reflexivity].
  apply has_In in E. exfalso. exact (H k E Hin).
Qed.

(* ChainMap lookup of a field name: the first record (in chain order) that has the field *)
Lemma chain_get_field : forall k (rs : list rec),
  ~ In k res_names ->
  chain_get k (map asdict rs) =
  match holder k (map (@rfields V) rs) with Some h => option_map snd (assoc k h) | None => None end.
Proof.
  unfold holder. intros k rs Hk. induction rs as [|r rs IH]; simpl; [reflexivity|].
  fold (rec_get r k). destruct (has k (rfields r)) eqn:E.
  - rewrite (rec_get_field r k E). destruct (has_assoc _ _ E) as [v Hv]. rewrite Hv. reflexivity.
  - rewrite (rec_get_nofield r k E), (assoc_combine_none _ _ _ _ Hk). exact IH.
Qed.

(* ChainMap lookup of a reserved name: the first record's slot *)
Lemma chain_get_res : forall k (r : rec) (rs : list rec),
  wf r -> In k res_names ->
  chain_get k (map asdict (r :: rs)) = assoc k (combine res_names (rres r)).
Proof.
  intros k r rs Hwf Hk. simpl. fold (rec_get r k). rewrite (rec_get_nofield r k (wf_res_not_field r k Hwf Hk)).
  destruct Hwf as [_ [_ Hlen]].
  assert (Hh : has k (combine res_names (rres r)) = true).
  { apply has_In. rewrite keys_combine; [exact Hk|]. unfold Compose.res_names. rewrite map_length. exact Hlen. }
  destruct (has_assoc _ _ Hh) as [v Hv]. rewrite Hv. reflexivity.
Qed.

(* reading every reserved slot back gives the slots *)
Lemma res_lookup_gen : forall (F : string -> string -> option V -> V) (R : list (string * string)) (vs : list V),
  NoDup (map fst R) -> List.length vs = List.length R ->
  map (fun e => F (fst e) (snd e) (assoc (fst e) (combine (map fst R) vs))) R =
  map (fun p => F (fst (fst p)) (snd (fst p)) (Some (snd p))) (combine R vs).
Proof.
  induction R as [|e R IH]; intros vs Hnd Hlen; destruct vs as [|v vs]; simpl in *; try discriminate; [reflexivity|].
  inversion Hnd as [|? ? Hn Hd]; subst. rewrite String.eqb_refl. f_equal.
  injection Hlen as Hlen. rewrite <- IH by auto. apply map_ext_in. intros x Hx.
  destruct (String.eqb (fst x) (fst e)) eqn:E; [|reflexivity].
  apply String.eqb_eq in E. exfalso. apply Hn. rewrite <- E. apply in_map. exact Hx.
Qed.

Lemma init_res_restamp : forall (get : string -> option V) (vs : list V),
  List.length vs = List.length RES ->
  (forall k, In k res_names -> get k = assoc k (combine res_names vs)) ->
  map (fun e => if String.eqb (fst e) "_version" then vver else slot_value dflt get e) RES = restamp vs.
Proof.
  intros get vs Hlen Hget. unfold Compose.restamp.
  rewrite <- (res_lookup_gen (fun n t o => if String.eqb n "_version" then vver else match o with Some v => v | None => dflt t end)
                             RES vs RES_nodup Hlen).
  apply map_ext_in. intros e He. unfold slot_value. rewrite Hget; [reflexivity|]. apply in_map. exact He.
Qed.

Lemma Forall_rev' : forall (A : Type) (Q : A -> Prop) l, Forall Q l -> Forall Q (rev l).
Proof. intros A Q l H. rewrite Forall_forall in *. intros x Hx. apply H. apply in_rev. exact Hx. Qed.

(* ---- extend_record computes the reference ---- *)
Theorem extend_ref : forall replace name (r : rec) others,
  Forall wf (r :: others) ->
  extend replace name r others = ref_extend replace name r others.
Proof.
  intros replace name r others Hwf. unfold Compose.extend, Compose.ref_extend, Compose.init_from_dict.
  set (rs := r :: others) in *.
  set (order := if replace then rev rs else rs).
  assert (Hmaps : (if replace then rev (map asdict rs) else map asdict rs) = map asdict order).
  { unfold order. destruct replace; [rewrite map_rev|]; reflexivity. }
  rewrite Hmaps.
  assert (Hworder : Forall wf order). { unfold order. destruct replace; [apply Forall_rev'|]; exact Hwf. }
  f_equal.
  - (* fields *)
    rewrite merge_descs_ref.
    2:{ intros _. rewrite Forall_forall. intros d Hd. apply in_map_iff in Hd. destruct Hd as [x [Hx Hin]]. subst d.
        rewrite keys_desc_of. rewrite Forall_forall in Hwf. destruct (Hwf x Hin) as [Hnd _]. exact Hnd. }
    unfold ref_merge.
    assert (Hd : map (@desc_of V) rs = map (map (fun e : string * (string * V) => (fst e, fst (snd e)))) (map (@rfields V) rs)).
    { rewrite map_map. reflexivity. }
    rewrite Hd, ref_entries_map, map_map.
    rewrite <- (map_id (ref_entries replace (map (@rfields V) rs))) at 2.
    apply map_ext_in. intros e He. simpl.
    destruct (In_ref_entries _ _ _ He) as [h [Hh Ha]].
    assert (Hh' : holder (fst e) (map (@rfields V) order) = Some h).
    { unfold order. destruct replace; [rewrite map_rev|]; exact Hh. }
    clear Hh. rename Hh' into Hh.
    assert (Hk : ~ In (fst e) res_names).
    { destruct (holder_In _ _ _ Hh) as [Hin Hhas]. apply in_map_iff in Hin. destruct Hin as [x [Hx Hin]]. subst h.
      rewrite Forall_forall in Hworder. exact (wf_field_not_res x (fst e) (Hworder x Hin) Hhas). }
    unfold slot_value. simpl. rewrite (chain_get_field (fst e) order Hk), Hh, Ha. simpl.
    destruct e as [n [t v]]. reflexivity.
  - (* reserved slots *)
    destruct order as [|h0 order'] eqn:Eo.
    { exfalso. unfold order in Eo. destruct replace; [|discriminate]. apply (f_equal (@rev _)) in Eo.
      rewrite rev_involutive in Eo. discriminate. }
    inversion Hworder as [|? ? Hw0 _]; subst.
    apply init_res_restamp.
    + destruct Hw0 as [_ [_ Hlen]]. exact Hlen.
    + intros k Hk. apply chain_get_res; assumption.
Qed.

(* ---- two inputs: the first one's entries, then the other's unseen entries ---- *)
Lemma assoc_tabulate : forall (P : Type) (f : string -> option P) k ks,
  assoc k (tabulate f ks) = if mem k ks then f k else None.
Proof.
  induction ks as [|x ks IH]; simpl; [reflexivity|]. rewrite assoc_app, mem_cons, IH.
  destruct (String.eqb k x) eqn:E; simpl.
  - apply String.eqb_eq in E. subst x. destruct (f k) eqn:Fk; simpl.
    + rewrite String.eqb_refl. reflexivity.
    + destruct (mem k ks); reflexivity.
  - destruct (f x); simpl; [rewrite E|]; reflexivity.
Qed.

Lemma assoc_ref_entries_keep : forall (P : Type) k (ls : list (@ents P)),
  assoc k (ref_entries false ls) = assoc k (List.concat ls).
Proof.
  intros. rewrite ref_entries_tabulate, assoc_tabulate, <- holder_assoc.
  destruct (mem k (dedup (List.concat (map keys ls)))) eqn:E; [reflexivity|].
  symmetry. apply assoc_none. unfold has. rewrite keys_concat. apply mem_false. apply mem_false in E.
  intros H. apply E. apply In_dedup. exact H.
Qed.

Lemma ents_ext : forall (P : Type) (a b : @ents P),
  NoDup (keys a) -> keys a = keys b -> (forall k, In k (keys a) -> assoc k a = assoc k b) -> a = b.
Proof.
  intros P a b Hnd Hk Ha. rewrite (ents_tabulate a Hnd). rewrite (ents_tabulate b) by (rewrite <- Hk; exact Hnd).
  rewrite <- Hk. apply tabulate_ext. exact Ha.
Qed.

Lemma assoc_filter_key : forall (P : Type) k (p : string * P -> bool) (b : @ents P),
  (forall e, fst e = k -> p e = true) -> assoc k (filter p b) = assoc k b.
Proof.
  induction b as [|e b IH]; simpl; intros H; [reflexivity|].
  destruct (String.eqb k (fst e)) eqn:E.
  - apply String.eqb_eq in E. rewrite (H e (eq_sym E)). simpl. rewrite E. rewrite String.eqb_refl. reflexivity.
  - destruct (p e); simpl; [rewrite E|]; apply IH; exact H.
Qed.

Lemma keys_filter_key : forall (P : Type) (q : string -> bool) (b : @ents P),
  keys (filter (fun e => q (fst e)) b) = filter q (keys b).
Proof.
  induction b as [|e b IH]; simpl; [reflexivity|]. destruct (q (fst e)); simpl; rewrite IH; reflexivity.
Qed.

Lemma ref_entries_two : forall (P : Type) (a b : @ents P),
  NoDup (keys a) -> NoDup (keys b) ->
  ref_entries false [a; b] = a ++ filter (fun e => negb (has (fst e) a)) b.
Proof.
  intros P a b Ha Hb. apply ents_ext.
  - rewrite keys_ref_entries. apply NoDup_dedup.
  - rewrite keys_ref_entries_first by exact Ha. simpl. rewrite app_nil_r, (dedup_nodup _ Hb), keys_app. f_equal.
    unfold has. rewrite (keys_filter_key P (fun y => negb (mem y (keys a))) b). reflexivity.
  - intros k _. rewrite assoc_ref_entries_keep. simpl. rewrite app_nil_r, !assoc_app.
    destruct (assoc k a) eqn:E; [reflexivity|]. symmetry. apply assoc_filter_key.
    intros e He. subst k. apply assoc_none in E. rewrite E. reflexivity.
Qed.

Lemma assoc_In_nodup : forall (P : Type) (l : @ents P) e, NoDup (keys l) -> In e l -> assoc (fst e) l = Some (snd e).
Proof.
  induction l as [|x l IH]; simpl; intros e Hnd Hin; [contradiction|].
  inversion Hnd as [|? ? Hn Hd]; subst. destruct Hin as [Hin|Hin].
  - subst x. rewrite String.eqb_refl. reflexivity.
  - destruct (String.eqb (fst e) (fst x)) eqn:E.
    + apply String.eqb_eq in E. exfalso. apply Hn. rewrite <- E. apply in_map. exact Hin.
    + apply IH; assumption.
Qed.

(* ---- per-timestamp expansion ---- *)
Local Notation ts_record := (@ts_record V vname TS tsres).
Local Notation not_ts := (@not_ts V TS).
Local Notation ts_fields := (@ts_fields V TS).
Local Notation attr := (@attr V RES dflt).
Local Notation expand_loop := (@expand_loop V RES vver vname dflt TS tsres).
Local Notation iter_timestamped := (@iter_timestamped V RES vver vname dflt TS tsres).
Local Notation ref_expand := (@ref_expand V RES vver vname TS).
Local Notation ref_expand_one := (@ref_expand_one V RES vver vname TS).

Hypothesis TS_distinct : ts_k1 TS <> ts_k2 TS.
Hypothesis TS_not_res : ~ In (ts_k1 TS) res_names /\ ~ In (ts_k2 TS) res_names.
Hypothesis tsres_len : List.length tsres = List.length RES.

Lemma wf_ts_record : forall v n, wf (ts_record v n).
Proof.
  intros v n. unfold Compose.wf, Compose.ts_record, names_of. simpl. repeat split.
  - constructor; [|constructor; [intros []|constructor]]. intros [H|[]]. apply TS_distinct. symmetry. exact H.
  - intros k [H|[H|[]]]; subst k; apply TS_not_res.
  - exact tsres_len.
Qed.

Lemma restamp_length : forall vs, List.length vs = List.length RES -> List.length (restamp vs) = List.length RES.
Proof. intros vs H. unfold Compose.restamp. rewrite map_length, combine_length, H. apply Nat.min_id. Qed.

Lemma map_snd_combine : forall (A B : Type) (l : list A) (vs : list B),
  List.length vs = List.length l -> map snd (combine l vs) = vs.
Proof.
  induction l as [|x l IH]; intros vs H; destruct vs as [|v vs]; simpl in *; try discriminate; [reflexivity|].
  f_equal. apply IH. injection H as H. exact H.
Qed.

Lemma combine_map_combine : forall (G : string * V -> V) (ks : list string) (vs : list V),
  combine ks (map G (combine ks vs)) = map (fun p => (fst p, G p)) (combine ks vs).
Proof.
  induction ks as [|k ks IH]; intros vs; [reflexivity|]. destruct vs as [|v vs]; [reflexivity|]. simpl. rewrite IH. reflexivity.
Qed.

Local Notation rec_set := (@rec_set V RES).
Local Notation copy_meta := (@copy_meta V RES dflt TS).

(* the slots copied from the original are reserved slots, and they are all of them but _version *)
Hypothesis META_res : forall k, In k (ts_meta TS) -> In k res_names.
Hypothesis META_cover : forall e, In e RES -> mem (fst e) (ts_meta TS) = negb (String.eqb (fst e) "_version").

Definition ts_out (nm : string) (v : V) (n : string) (base : list fld) (res : list V) : rec :=
  mkRec nm ((ts_k1 TS, (ts_t1 TS, v)) :: (ts_k2 TS, (ts_t2 TS, vname n)) :: filter not_ts base) res.

Lemma extend_ts : forall nm v n (c : rec), wf c ->
  extend false (Some nm) (ts_record v n) [c] = ts_out nm v n (rfields c) (restamp tsres).
Proof.
  intros nm v n c Hc. rewrite extend_ref by (constructor; [apply wf_ts_record|constructor; [exact Hc|constructor]]).
  unfold Compose.ref_extend, ts_out. simpl. f_equal.
  destruct Hc as [Hnd _]. rewrite ref_entries_two.
  - simpl. f_equal. f_equal. apply filter_ext_in'. intros e _. unfold Compose.not_ts, has, keys, fname. simpl.
    rewrite !mem_cons, mem_nil, orb_false_r, negb_orb. reflexivity.
  - destruct (wf_ts_record v n) as [H _]. exact H.
  - exact Hnd.
Qed.

Lemma not_ts_k1 : forall p, not_ts (ts_k1 TS, p) = false.
Proof. intros. unfold Compose.not_ts, fname. simpl. rewrite String.eqb_refl. reflexivity. Qed.
Lemma not_ts_k2 : forall p, not_ts (ts_k2 TS, p) = false.
Proof. intros. unfold Compose.not_ts, fname. simpl. rewrite String.eqb_refl, andb_false_r. reflexivity. Qed.

Lemma wf_ts_out : forall nm v n (base : list fld) (res : list V),
  NoDup (map (@fname V) base) -> (forall k, In k (map (@fname V) base) -> ~ In k res_names) ->
  List.length res = List.length RES -> wf (ts_out nm v n base res).
Proof.
  intros nm v n base res Hnd Hres Hlen. unfold Compose.wf, ts_out, names_of. simpl.
  assert (Hsub : forall k, In k (map (@fname V) (filter not_ts base)) ->
                           In k (map (@fname V) base) /\ k <> ts_k1 TS /\ k <> ts_k2 TS).
  { intros k Hk. apply in_map_iff in Hk. destruct Hk as [f [Hf Hin]]. apply filter_In in Hin. destruct Hin as [Hin Hnt].
    subst k. split; [apply in_map; exact Hin|]. unfold Compose.not_ts in Hnt. apply andb_prop in Hnt. destruct Hnt as [H1 H2].
    apply negb_true_iff in H1, H2. apply String.eqb_neq in H1, H2. auto. }
  assert (Hnd' : NoDup (map (@fname V) (filter not_ts base))).
  { clear Hsub Hres. induction base as [|f base IH]; simpl; [constructor|]. inversion Hnd as [|? ? Hn Hd]; subst.
    destruct (not_ts f); simpl; [constructor|]; auto. intros Hin. apply Hn. apply in_map_iff in Hin.
    destruct Hin as [g [Hg Hin]]. apply filter_In in Hin. rewrite <- Hg. apply in_map. apply Hin. }
  repeat split.
  - constructor.
    + intros [H|H]; [apply TS_distinct; symmetry; exact H|]. apply Hsub in H. destruct H as [_ [H _]]. apply H. reflexivity.
    + constructor; [|exact Hnd']. intros H. apply Hsub in H. destruct H as [_ [_ H]]. apply H. reflexivity.
  - intros k [H|[H|H]]; [subst k; apply TS_not_res|subst k; apply TS_not_res|]. apply Hres. apply Hsub. exact H.
  - exact Hlen.
Qed.

(* setattr on a reserved slot leaves the fields alone *)
Lemma rec_set_res : forall (o : rec) k v, ~ In k (names_of o) ->
  rec_set o k v = mkRec (rname o) (rfields o) (map (fun p => if String.eqb k (fst p) then v else snd p) (combine res_names (rres o))).
Proof.
  intros o k v Hk. unfold Compose.rec_set. f_equal. rewrite <- (map_id (rfields o)) at 2. apply map_ext_in. intros f Hf.
  destruct (String.eqb k (fname f)) eqn:E; [|reflexivity]. apply String.eqb_eq in E. exfalso. apply Hk. subst k.
  unfold names_of. apply in_map. exact Hf.
Qed.

Lemma copy_fold : forall (src : string -> V) (ks done : list string) (o : rec) (vs : list V) (nm : string) (fs : list fld),
  (forall k, In k ks -> ~ In k (map (@fname V) fs)) ->
  rname o = nm -> rfields o = fs ->
  rres o = map (fun p => if mem (fst p) done then src (fst p) else snd p) (combine res_names vs) ->
  fold_left (fun o k => rec_set o k (src k)) ks o =
  mkRec nm fs (map (fun p => if mem (fst p) ks || mem (fst p) done then src (fst p) else snd p) (combine res_names vs)).
Proof.
  induction ks as [|k ks IH]; intros done o vs nm fs Hk Hn Hf Hr; simpl.
  - destruct o as [n0 f0 r0]. simpl in *. subst. reflexivity.
  - rewrite (IH (k :: done) _ vs nm fs).
    + f_equal. apply map_ext. intros p. rewrite !mem_cons.
      destruct (String.eqb (fst p) k); destruct (mem (fst p) ks); destruct (mem (fst p) done); reflexivity.
    + intros x Hx. apply Hk. right. exact Hx.
    + rewrite rec_set_res; [exact Hn|]. unfold names_of. rewrite Hf. apply Hk. left. reflexivity.
    + rewrite rec_set_res; [exact Hf|]. unfold names_of. rewrite Hf. apply Hk. left. reflexivity.
    + rewrite rec_set_res by (unfold names_of; rewrite Hf; apply Hk; left; reflexivity). simpl. rewrite Hr.
      rewrite (combine_map_combine (fun p => if mem (fst p) done then src (fst p) else snd p)), map_map. apply map_ext.
      intros p. simpl. rewrite mem_cons. destruct (String.eqb k (fst p)) eqn:E.
      * apply String.eqb_eq in E. subst k. rewrite String.eqb_refl. reflexivity.
      * rewrite String.eqb_sym, E. reflexivity.
Qed.

Lemma copy_meta_spec : forall (r o : rec),
  (forall k, In k res_names -> ~ In k (names_of o)) -> List.length (rres o) = List.length RES ->
  copy_meta r o =
  mkRec (rname o) (rfields o)
        (map (fun p => if mem (fst p) (ts_meta TS) then attr r (fst p) else snd p) (combine res_names (rres o))).
Proof.
  intros r o Hres Hlen. unfold Compose.copy_meta.
  rewrite (copy_fold (attr r) (ts_meta TS) [] o (rres o) (rname o) (rfields o)).
  - f_equal. apply map_ext. intros p. rewrite mem_nil, orb_false_r. reflexivity.
  - intros k Hk. apply Hres. apply META_res. exact Hk.
  - reflexivity.
  - reflexivity.
  - symmetry. rewrite <- (map_snd_combine _ _ res_names (rres o)) at 2.
    + apply map_ext. intros p. rewrite mem_nil. reflexivity.
    + unfold Compose.res_names. rewrite map_length. exact Hlen.
Qed.

(* every reserved slot but _version copied from the original, _version stamped = the original's slots, stamped *)
Lemma meta_final_gen : forall (look : string -> V) (R : list (string * string)) (T O : list V),
  List.length T = List.length R -> List.length O = List.length R ->
  (forall p, In p (combine (map fst R) O) -> look (fst p) = snd p) ->
  (forall e, In e R -> mem (fst e) (ts_meta TS) = negb (String.eqb (fst e) "_version")) ->
  map (fun p => if mem (fst p) (ts_meta TS) then look (fst p) else snd p)
      (combine (map fst R) (map (fun p => if String.eqb (fst (fst p)) "_version" then vver else snd p) (combine R T)))
  = map (fun p => if String.eqb (fst (fst p)) "_version" then vver else snd p) (combine R O).
Proof.
  induction R as [|e R IH]; intros T O HT HO Hlook Hcov; destruct T as [|t T]; destruct O as [|o O]; simpl in *; try discriminate;
    [reflexivity|].
  injection HT as HT. injection HO as HO. f_equal.
  - rewrite (Hcov e (or_introl eq_refl)). destruct (String.eqb (fst e) "_version"); simpl; [reflexivity|].
    apply (Hlook (fst e, o)). left. reflexivity.
  - apply IH; auto.
Qed.

Lemma attr_res : forall (r : rec) p, wf r -> In p (combine res_names (rres r)) -> attr r (fst p) = snd p.
Proof.
  intros r p Hwf Hp. assert (Hk : In (fst p) res_names). { destruct p as [k v]. apply in_combine_l in Hp. exact Hp. }
  unfold Compose.attr. rewrite (rec_get_nofield r _ (wf_res_not_field r _ Hwf Hk)).
  rewrite (assoc_In_nodup _ (combine res_names (rres r)) p); [reflexivity| |exact Hp].
  rewrite keys_combine; [exact RES_nodup|]. destruct Hwf as [_ [_ Hlen]]. unfold Compose.res_names. rewrite map_length. exact Hlen.
Qed.

Lemma copy_meta_ts_out : forall (r : rec) nm v n base, wf r ->
  (forall k, In k res_names -> ~ In k (names_of (ts_out nm v n base (restamp tsres)))) ->
  copy_meta r (ts_out nm v n base (restamp tsres)) = ts_out nm v n base (restamp (rres r)).
Proof.
  intros r nm v n base Hwf Hres. rewrite copy_meta_spec.
  - unfold ts_out. simpl. f_equal. unfold Compose.restamp at 1 2.
    destruct Hwf as [Hnd [Hr Hlen]].
    apply (meta_final_gen (attr r) RES tsres (rres r) tsres_len Hlen).
    + intros p Hp. apply attr_res; [exact (conj Hnd (conj Hr Hlen))|exact Hp].
    + exact META_cover.
  - exact Hres.
  - unfold ts_out. simpl. apply restamp_length. exact tsres_len.
Qed.

Lemma expand_loop_ref : forall prev (r : rec) fs (cur : rec),
  wf r -> wf cur -> filter not_ts (rfields cur) = filter not_ts (rfields r) ->
  expand_loop prev r cur fs =
  map (fun f => ts_out (rname r) (attr r (fname f)) (fname f) (rfields r) (restamp (rres r))) fs.
Proof.
  intros prev r fs. induction fs as [|f fs IH]; intros cur Hr Hcur Hinv; simpl; [reflexivity|].
  assert (Hwfo : forall res, List.length res = List.length RES ->
                             wf (ts_out (rname r) (attr r (fname f)) (fname f) (rfields r) res)).
  { intros res Hlen. destruct Hr as [Hnd [Hres _]]. apply wf_ts_out; assumption. }
  assert (Hout : copy_meta r (extend false (Some (rname r)) (ts_record (attr r (fname f)) (fname f)) [if prev then cur else r])
                 = ts_out (rname r) (attr r (fname f)) (fname f) (rfields r) (restamp (rres r))).
  { rewrite extend_ts by (destruct prev; assumption).
    assert (Hb : filter not_ts (rfields (if prev then cur else r)) = filter not_ts (rfields r)) by (destruct prev; [exact Hinv|reflexivity]).
    unfold ts_out at 1. rewrite Hb. apply copy_meta_ts_out; [exact Hr|].
    intros k Hk Hin. destruct (Hwfo (restamp tsres) (restamp_length _ tsres_len)) as [_ [Hn _]]. exact (Hn k Hin Hk). }
  rewrite Hout. f_equal. apply IH.
  - exact Hr.
  - apply Hwfo. apply restamp_length. destruct Hr as [_ [_ Hlen]]. exact Hlen.
  - unfold ts_out. simpl. rewrite not_ts_k1, not_ts_k2, filter_filter'. apply filter_ext_in'. intros x _. apply andb_diag.
Qed.

Theorem iter_timestamped_ref : forall prev (r : rec), wf r -> iter_timestamped prev r = ref_expand r.
Proof.
  intros prev r Hr. unfold Compose.iter_timestamped, Compose.ref_expand.
  destruct (ts_fields r) as [|f fs] eqn:E; [reflexivity|].
  rewrite expand_loop_ref by (auto). apply map_ext_in. intros g Hg. unfold ts_out, Compose.ref_expand_one. f_equal. f_equal.
  assert (Hin : In g (rfields r)).
  { rewrite <- E in Hg. unfold Compose.ts_fields in Hg. apply filter_In in Hg. apply Hg. }
  unfold Compose.attr. rewrite rec_get_field.
  - destruct Hr as [Hnd _]. unfold fname. rewrite (assoc_In_nodup _ _ g Hnd Hin). reflexivity.
  - apply has_In. unfold fname. apply in_map. exact Hin.
Qed.

(* ---- projection (RecordFieldRewriter) and init_from_record ---- *)
Local Notation rewrite := (@rewrite V RES vver dflt).
Local Notation ref_project := (@ref_project V RES vver).

Lemma init_from_dict_ext : forall nm d (g g' : string -> option V),
  (forall k, g k = g' k) -> init_from_dict nm d g = init_from_dict nm d g'.
Proof.
  intros nm d g g' H. unfold Compose.init_from_dict, slot_value. f_equal; apply map_ext; intros e; rewrite H; reflexivity.
Qed.

Lemma field_rebuild : forall (r : rec) f, wf r -> In f (rfields r) ->
  (fname f, (ftype f, slot_value dflt (rec_get r) (fname f, ftype f))) = f.
Proof.
  intros r f [Hnd _] Hin. unfold slot_value. simpl. rewrite rec_get_field.
  - unfold fname. rewrite (assoc_In_nodup _ _ f Hnd Hin). simpl. destruct f as [n [t v]]. reflexivity.
  - apply has_In. unfold fname. apply in_map. exact Hin.
Qed.

Lemma assoc_desc_find : forall k (fs : list fld),
  assoc k (map (fun f => (fname f, ftype f)) fs) = option_map (@ftype V) (find (fun f => String.eqb k (fname f)) fs).
Proof.
  induction fs as [|f fs IH]; simpl; [reflexivity|]. unfold fname at 1 3. destruct (String.eqb k (fst f)); [reflexivity|exact IH].
Qed.

Lemma init_res_rec : forall (r : rec), wf r ->
  map (fun e => if String.eqb (fst e) "_version" then vver else slot_value dflt (rec_get r) e) RES = restamp (rres r).
Proof.
  intros r Hwf. apply init_res_restamp.
  - destruct Hwf as [_ [_ H]]. exact H.
  - intros k Hk. apply rec_get_nofield. apply wf_res_not_field; assumption.
Qed.

Lemma map_filter_desc : forall (G : string * string -> fld) (q : string -> bool) (fs : list fld),
  (forall f, In f fs -> G (fname f, ftype f) = f) ->
  map G (filter (fun e => q (fst e)) (map (fun f => (fname f, ftype f)) fs)) = filter (fun f => q (fname f)) fs.
Proof.
  induction fs as [|f fs IH]; simpl; intros H; [reflexivity|].
  destruct (q (fname f)); simpl.
  - rewrite (H f (or_introl eq_refl)). f_equal. apply IH. intros g Hg. apply H. right. exact Hg.
  - apply IH. intros g Hg. apply H. right. exact Hg.
Qed.

Theorem rewrite_ref : forall (r : rec) fields exclude, wf r -> rewrite r fields exclude = ref_project r fields exclude.
Proof.
  intros r fields exclude Hwf. unfold Compose.rewrite, Compose.ref_project.
  assert (Hget : forall k, chain_get k [[]; asdict r] = rec_get r k).
  { intros k. simpl. fold (rec_get r k). destruct (rec_get r k); reflexivity. }
  assert (Hmain : init_from_dict (rname r) (rewrite_desc (desc_of r) fields exclude) (fun k => chain_get k [[]; asdict r]) =
                  mkRec (rname r)
                    (match fields with
                     | [] => filter (fun f => negb (mem (fname f) exclude)) (rfields r)
                     | _ => flat_map (fun fn => if mem fn exclude then []
                                                else match find (fun f => String.eqb fn (fname f)) (rfields r) with
                                                     | Some f => [f] | None => [] end) fields
                     end) (restamp (rres r))).
  { rewrite (init_from_dict_ext _ _ _ _ Hget). unfold Compose.init_from_dict. f_equal; [|apply init_res_rec; exact Hwf].
    unfold rewrite_desc. destruct fields as [|fn0 fields'].
    - unfold desc_of. apply (map_filter_desc _ (fun n => negb (mem n exclude))). intros f Hf. apply field_rebuild; assumption.
    - generalize (fn0 :: fields'). intros fl. induction fl as [|fn fl IH]; simpl; [reflexivity|].
      rewrite map_app, IH. f_equal. destruct (mem fn exclude); [reflexivity|].
      unfold desc_of. rewrite assoc_desc_find.
      destruct (find (fun f => String.eqb fn (fname f)) (rfields r)) as [f|] eqn:Ef; simpl; [|reflexivity].
      apply find_some in Ef. destruct Ef as [Hin He]. apply String.eqb_eq in He. subst fn.
      rewrite (field_rebuild r f Hwf Hin). reflexivity. }
  destruct fields; destruct exclude; try reflexivity; exact Hmain.
Qed.

(* init_from_record: the target descriptor's fields, each with the source's value when the source has the name *)
Theorem init_from_record_ref : forall nm (d : list (string * string)) (r : rec),
  wf r -> (forall k, In k (keys d) -> ~ In k res_names) ->
  init_from_dict nm d (rec_get r) =
  mkRec nm (map (fun e => (fst e, (snd e, match assoc (fst e) (rfields r) with Some tv => snd tv | None => dflt (snd e) end))) d)
        (restamp (rres r)).
Proof.
  intros nm d r Hwf Hd. unfold Compose.init_from_dict. f_equal; [|apply init_res_rec; exact Hwf].
  apply map_ext_in. intros e He. f_equal. f_equal. unfold slot_value.
  destruct (has (fst e) (rfields r)) eqn:E.
  - rewrite rec_get_field by exact E. destruct (assoc (fst e) (rfields r)); reflexivity.
  - rewrite rec_get_nofield by exact E. rewrite assoc_combine_none.
    + apply assoc_none in E. rewrite E. reflexivity.
    + apply Hd. unfold keys. apply in_map. exact He.
Qed.

(* ---- _replace ---- *)
Local Notation rebuild := (@rebuild V RES vver).
Local Notation upd := (@upd V RES vver).
Local Notation has_slot := (@has_slot V RES).
Local Notation rec_replace := (@rec_replace V RES vver dflt).
Local Notation ref_replace := (@ref_replace V RES vver).

Lemma pop_spec : forall k (kw : @dict V), NoDup (keys kw) ->
  pop k kw = (assoc k kw, filter (fun kv => negb (String.eqb (fst kv) k)) kw).
Proof.
  induction kw as [|e kw IH]; simpl; intros Hnd; [reflexivity|]. inversion Hnd as [|? ? Hn Hd]; subst.
  destruct (String.eqb k (fst e)) eqn:E.
  - apply String.eqb_eq in E. subst k. rewrite String.eqb_refl. simpl. f_equal. symmetry. apply filter_all.
    intros x Hx. destruct (String.eqb (fst x) (fst e)) eqn:E2; [|reflexivity]. apply String.eqb_eq in E2.
    exfalso. apply Hn. rewrite <- E2. apply in_map. exact Hx.
  - rewrite (IH Hd). rewrite String.eqb_sym, E. reflexivity.
Qed.

Lemma NoDup_keys_filter : forall (P : Type) (p : string * P -> bool) (l : @ents P), NoDup (keys l) -> NoDup (keys (filter p l)).
Proof.
  induction l as [|e l IH]; simpl; intros H; [constructor|]. inversion H as [|? ? Hn Hd]; subst.
  destruct (p e); simpl; [constructor|]; auto. intros Hin. apply Hn. unfold keys in *. apply in_map_iff in Hin.
  destruct Hin as [x [Hx Hin]]. apply filter_In in Hin. rewrite <- Hx. apply in_map. apply Hin.
Qed.

Lemma pop_slots_spec : forall (src : string -> V) ks (kw : @dict V), NoDup ks -> NoDup (keys kw) ->
  pop_slots src ks kw =
  (map (fun k => match assoc k kw with Some v => v | None => src k end) ks,
   filter (fun kv => negb (mem (fst kv) ks)) kw).
Proof.
  induction ks as [|k ks IH]; intros kw Hks Hkw; simpl.
  - f_equal. symmetry. apply filter_all. reflexivity.
  - inversion Hks as [|? ? Hn Hd]; subst. rewrite (pop_spec k kw Hkw).
    rewrite (IH _ Hd (NoDup_keys_filter _ _ _ Hkw)). f_equal.
    + f_equal. apply map_ext_in. intros k' Hk'. rewrite assoc_filter_key; [reflexivity|].
      intros e He. subst k'. destruct (String.eqb (fst e) k) eqn:E; [|reflexivity]. apply String.eqb_eq in E. subst k. contradiction.
    + rewrite filter_filter'. apply filter_ext_in'. intros x _. rewrite mem_cons, negb_orb. reflexivity.
Qed.

Lemma lookup_combine : forall (A : Type) (G : string -> option V -> A) ks (vs : list V),
  NoDup ks -> List.length vs = List.length ks ->
  map (fun k => G k (assoc k (combine ks vs))) ks = map (fun p => G (fst p) (Some (snd p))) (combine ks vs).
Proof.
  induction ks as [|k ks IH]; intros vs Hnd Hlen; destruct vs as [|v vs]; simpl in *; try discriminate; [reflexivity|].
  inversion Hnd as [|? ? Hn Hd]; subst. rewrite String.eqb_refl. f_equal.
  injection Hlen as Hlen. rewrite <- IH by auto. apply map_ext_in. intros x Hx.
  destruct (String.eqb x k) eqn:E; [|reflexivity]. apply String.eqb_eq in E. subst. contradiction.
Qed.

Lemma combine_map_fname : forall (A : Type) (G : fld * V -> A) (h : string -> V) (fs : list fld),
  map G (combine fs (map h (map (@fname V) fs))) = map (fun f => G (f, h (fname f))) fs.
Proof. induction fs as [|f fs IH]; simpl; [reflexivity|]. rewrite IH. reflexivity. Qed.

Lemma attr_field : forall (r : rec) f, wf r -> In f (rfields r) -> attr r (fname f) = fval f.
Proof.
  intros r f [Hnd _] Hin. unfold Compose.attr. rewrite rec_get_field.
  - unfold fname. rewrite (assoc_In_nodup _ _ f Hnd Hin). reflexivity.
  - apply has_In. unfold fname. apply in_map. exact Hin.
Qed.

Lemma rebuild_spec : forall (m : rec) (kw : @dict V), wf m -> NoDup (keys kw) ->
  rebuild (attr m) m kw = (upd (fun _ => false) kw m, filter (fun kv => negb (has_slot (fst kv) m)) kw).
Proof.
  intros m kw Hwf Hkw. unfold Compose.rebuild. destruct Hwf as [Hnd [Hres Hlen]].
  rewrite (pop_slots_spec (attr m) (names_of m) kw Hnd Hkw).
  rewrite (pop_slots_spec (attr m) res_names _ RES_nodup (NoDup_keys_filter _ _ _ Hkw)).
  f_equal.
  - unfold Compose.upd. f_equal.
    + unfold names_of. rewrite combine_map_fname. apply map_ext_in. intros f Hf. simpl.
      rewrite (attr_field m f (conj Hnd (conj Hres Hlen)) Hf). destruct (assoc (fname f) kw); reflexivity.
    + f_equal. rewrite <- (lookup_combine _ (fun k o => match assoc k kw with
                                                        | Some v => v
                                                        | None => match o with Some own => own | None => dflt "" end end)
                                          res_names (rres m) RES_nodup).
      2:{ unfold Compose.res_names. rewrite map_length. exact Hlen. }
      apply map_ext_in. intros k Hk. rewrite assoc_filter_key.
      * unfold Compose.attr. rewrite rec_get_nofield; [reflexivity|].
        destruct (has k (rfields m)) eqn:E; [|reflexivity]. apply has_In in E. exfalso. exact (Hres k E Hk).
      * intros e He. subst k. destruct (mem (fst e) (names_of m)) eqn:E; [|reflexivity]. apply mem_In in E.
        exfalso. exact (Hres _ E Hk).
  - rewrite filter_filter'. apply filter_ext_in'. intros x _. unfold Compose.has_slot, slots_of. rewrite mem_app, negb_orb. reflexivity.
Qed.

Lemma filter_nil_forallb : forall (A B : Type) (p : A -> bool) (l : list A) (x y : B),
  match filter (fun a => negb (p a)) l with [] => x | _ :: _ => y end = if forallb p l then x else y.
Proof.
  induction l as [|a l IH]; simpl; intros x y; [reflexivity|]. destruct (p a); simpl; [apply IH|reflexivity].
Qed.

Theorem rec_replace_ref : forall (r : rec) (kw : @dict V), wf r -> NoDup (keys kw) -> rec_replace r kw = ref_replace r kw.
Proof.
  intros r kw Hwf Hkw. unfold Compose.rec_replace, Compose.ref_replace. rewrite (rebuild_spec r kw Hwf Hkw).
  apply filter_nil_forallb.
Qed.

(* ---------------------------------------------------------------------------------------------- *)
(* grouped records                                                                                  *)
Local Notation group := (@group V).
Local Notation garg := (@garg V).
Local Notation gflat := (@gflat V RES).
Local Notation arg_entries := (@arg_entries V RES).
Local Notation group_add := (@group_add V RES).
Local Notation group_make := (@group_make V RES).
Local Notation group_get := (@group_get V RES).
Local Notation group_view := (@group_view V RES dflt).
Local Notation ref_group_view := (@ref_group_view V RES dflt).
Local Notation first_index := (@first_index V RES).

Local Notation nonres := (nonres RES).
Local Notation ref_slot := (@ref_slot V RES).
Local Notation group_ok := (@group_ok V RES).
Local Notation arg_ok := (@arg_ok V RES).

Lemma assoc_map_keyed : forall (P Q : Type) (G : string -> P -> Q) k (l : @ents P),
  assoc k (map (fun e => (fst e, G (fst e) (snd e))) l) = option_map (G k) (assoc k l).
Proof.
  induction l as [|e l IH]; simpl; [reflexivity|]. destruct (String.eqb k (fst e)) eqn:E; [|exact IH].
  apply String.eqb_eq in E. subst k. reflexivity.
Qed.

Lemma assoc_filter_keypred : forall (P : Type) (q : string -> bool) k (l : @ents P),
  assoc k (filter (fun e => q (fst e)) l) = if q k then assoc k l else None.
Proof.
  induction l as [|e l IH]; simpl; [destruct (q k); reflexivity|].
  destruct (String.eqb k (fst e)) eqn:E.
  - apply String.eqb_eq in E. subst k. destruct (q (fst e)); simpl; [rewrite String.eqb_refl; reflexivity|].
    rewrite IH. destruct (q (fst e)) eqn:Q; [|reflexivity]. reflexivity.
  - destruct (q (fst e)); simpl; [rewrite E|]; exact IH.
Qed.

Lemma keys_map_keyed : forall (P Q : Type) (G : string -> P -> Q) (l : @ents P),
  keys (map (fun e => (fst e, G (fst e) (snd e))) l) = keys l.
Proof. intros. unfold keys. rewrite map_map. reflexivity. Qed.

Lemma mem_filter : forall (q : string -> bool) y l, mem y (filter q l) = q y && mem y l.
Proof.
  induction l as [|x l IH]; simpl; [rewrite mem_nil, andb_false_r; reflexivity|].
  destruct (q x) eqn:Q; rewrite ?mem_cons, IH.
  - destruct (String.eqb y x) eqn:E; simpl; [|reflexivity]. apply String.eqb_eq in E. subst. rewrite Q. reflexivity.
  - destruct (String.eqb y x) eqn:E; simpl; [|reflexivity]. apply String.eqb_eq in E. subst. rewrite Q. reflexivity.
Qed.

Lemma mem_dedup : forall y l, mem y (dedup l) = mem y l.
Proof.
  intros. destruct (mem y l) eqn:E.
  - apply mem_In. apply In_dedup. apply mem_In. exact E.
  - apply mem_false. intros H. apply (proj1 (In_dedup _ _)) in H. apply mem_false in E. contradiction.
Qed.

Lemma filter_dedup : forall (q : string -> bool) l, filter q (dedup l) = dedup (filter q l).
Proof.
  induction l as [|x l IH]; simpl; [reflexivity|]. destruct (q x) eqn:Q; simpl.
  - f_equal. rewrite <- IH, !filter_filter'. apply filter_ext_in'. intros y _. apply andb_comm.
  - rewrite <- IH, filter_filter'. apply filter_ext_in'. intros y _.
    destruct (String.eqb y x) eqn:E; simpl; [|reflexivity]. apply String.eqb_eq in E. subst. rewrite Q. reflexivity.
Qed.

Lemma filter_none : forall (A : Type) (p : A -> bool) l, (forall x, In x l -> p x = false) -> filter p l = [].
Proof.
  induction l as [|x l IH]; simpl; intros H; [reflexivity|]. rewrite (H x (or_introl eq_refl)). apply IH.
  intros y Hy. apply H. right. exact Hy.
Qed.

Lemma nonres_In : forall k, nonres k = true <-> ~ In k res_names.
Proof. intros. unfold Compose.nonres, is_res. rewrite negb_true_iff. apply mem_false. Qed.

Lemma assoc_RES_none : forall k, nonres k = true -> assoc k RES = None.
Proof. intros k H. apply assoc_none. unfold has. apply mem_false. apply nonres_In. exact H. Qed.

Lemma assoc_RES_some : forall k, In k res_names -> exists ty, assoc k RES = Some ty.
Proof. intros k H. apply has_assoc. apply has_In. exact H. Qed.

Lemma assoc_desc_of : forall k (m : rec), assoc k (desc_of m) = option_map fst (assoc k (rfields m)).
Proof.
  intros. unfold desc_of. induction (rfields m) as [|f fs IH]; simpl; [reflexivity|].
  unfold fname at 1. destruct (String.eqb k (fst f)); [reflexivity|exact IH].
Qed.

Lemma ref_slot_app : forall k ms ms',
  ref_slot k (ms ++ ms') =
  match ref_slot k ms with
  | Some x => Some x
  | None => option_map (fun ti => (fst ti, List.length ms + snd ti)) (ref_slot k ms')
  end.
Proof.
  induction ms as [|m ms IH]; intros ms'; simpl.
  - destruct (ref_slot k ms') as [[t i]|]; reflexivity.
  - destruct (assoc k (desc_of m ++ RES)); [reflexivity|]. rewrite IH.
    destruct (ref_slot k ms) as [[t i]|]; simpl; [reflexivity|]. destruct (ref_slot k ms') as [[t i]|]; reflexivity.
Qed.

Lemma ref_slot_res : forall k m ms, wf m -> In k res_names -> exists ty, assoc k RES = Some ty /\ ref_slot k (m :: ms) = Some (ty, O).
Proof.
  intros k m ms Hwf Hk. destruct (assoc_RES_some k Hk) as [ty Hty]. exists ty. split; [exact Hty|]. simpl.
  rewrite assoc_app, assoc_desc_of. pose proof (wf_res_not_field m k Hwf Hk) as Hn. apply assoc_none in Hn. rewrite Hn. simpl.
  rewrite Hty. reflexivity.
Qed.

(* the constructor's inner loop is the keep-first merge loop *)
Definition shift (off : nat) (e : string * (string * nat)) : string * (string * nat) := (fst e, (fst (snd e), off + snd (snd e))).

Lemma tab_add_fold : forall off es t, fold_left (tab_add off) es t = fold_left (merge_ent false) (map (shift off) es) t.
Proof.
  induction es as [|e es IH]; intros t; simpl; [reflexivity|]. rewrite <- IH. f_equal.
  unfold tab_add, merge_ent, shift. simpl. destruct (has (fst e) t) eqn:E; [reflexivity|].
  rewrite od_set_absent by exact E. reflexivity.
Qed.

Lemma keys_shift : forall off es, keys (map (shift off) es) = keys es.
Proof. intros. unfold keys. rewrite map_map. reflexivity. Qed.

Lemma assoc_shift : forall off k es,
  assoc k (map (shift off) es) = option_map (fun ti => (fst ti, off + snd ti)) (assoc k es).
Proof.
  induction es as [|e es IH]; simpl; [reflexivity|]. destruct (String.eqb k (fst e)); [reflexivity|exact IH].
Qed.

Lemma keys_gflat : forall g : group, keys (gflat g) = filter nonres (keys (gtab g)).
Proof.
  intros. unfold Compose.gflat. unfold keys at 1. rewrite map_map. simpl.
  change (map (fun x : string * (string * nat) => fst x)) with (@keys (string * nat)).
  apply (keys_filter_key _ nonres).
Qed.

Lemma assoc_gflat : forall (g : group) k,
  assoc k (gflat g) = if nonres k then option_map fst (assoc k (gtab g)) else None.
Proof.
  intros. unfold Compose.gflat.
  rewrite (assoc_map_keyed _ _ (fun _ (p : string * nat) => fst p)).
  change (fun e : string * (string * nat) => negb (is_res RES (fst e))) with (fun e : string * (string * nat) => nonres (fst e)).
  rewrite (assoc_filter_keypred _ nonres). destruct (nonres k); reflexivity.
Qed.

(* what an argument of the constructor contributes *)
Lemma arg_entries_spec : forall a : garg, arg_ok a ->
  Forall wf (arg_members a) /\
  (forall k, assoc k (arg_entries a) = ref_slot k (arg_members a)) /\
  filter nonres (keys (arg_entries a)) = dedup (List.concat (map (@names_of V) (arg_members a))).
Proof.
  intros [r|g] Hok; simpl in Hok; simpl arg_members.
  - split; [constructor; [exact Hok|constructor]|]. split.
    + intros k. unfold Compose.arg_entries.
      rewrite (assoc_map_keyed _ _ (fun _ (t : string) => (t, O))). simpl.
      destruct (assoc k (desc_of r ++ RES)); reflexivity.
    + unfold Compose.arg_entries. rewrite (keys_map_keyed _ _ (fun _ (t : string) => (t, O))).
      rewrite keys_app, keys_desc_of, filter_app. simpl. rewrite app_nil_r. destruct Hok as [Hnd [Hres _]].
      rewrite (dedup_nodup _ Hnd). rewrite filter_all.
      * rewrite filter_none; [apply app_nil_r|]. intros x Hx. unfold Compose.nonres, is_res.
        apply negb_false_iff. apply mem_In. exact Hx.
      * intros x Hx. apply nonres_In. apply Hres. exact Hx.
  - destruct Hok as [[Hwf [Htab [Hord Hnd]]] Hne]. split; [exact Hwf|]. split.
    + intros k. unfold Compose.arg_entries.
      rewrite (assoc_map_keyed _ _ (fun n (t : string) => (t, route g n))).
      rewrite assoc_app, assoc_gflat, <- Htab. unfold route.
      destruct (nonres k) eqn:Nk.
      * destruct (assoc k (gtab g)) as [[t i]|]; simpl; [reflexivity|]. rewrite (assoc_RES_none k Nk). reflexivity.
      * destruct (gmembers g) as [|m ms] eqn:Em; [contradiction|].
        assert (Hk : In k res_names).
        { unfold Compose.nonres, is_res in Nk. apply negb_false_iff in Nk. apply mem_In. exact Nk. }
        inversion Hwf as [|? ? Hwm _]; subst.
        destruct (ref_slot_res k m ms Hwm Hk) as [ty [Hty Hslot]].
        rewrite Hty. simpl. rewrite (Htab k), Hslot. reflexivity.
    + unfold Compose.arg_entries. rewrite (keys_map_keyed _ _ (fun n (t : string) => (t, route g n))).
      rewrite keys_app, filter_app, keys_gflat, filter_filter'.
      rewrite (filter_none _ nonres (keys RES)).
      * rewrite app_nil_r, <- Hord. apply filter_ext_in'. intros x _. apply andb_diag.
      * intros x Hx. unfold Compose.nonres, is_res. apply negb_false_iff. apply mem_In. exact Hx.
Qed.

Definition state_ok (st : list rec * tab) : Prop :=
  Forall wf (fst st) /\
  (forall k, assoc k (snd st) = ref_slot k (fst st)) /\
  filter nonres (keys (snd st)) = dedup (List.concat (map (@names_of V) (fst st))) /\
  NoDup (keys (snd st)).

Lemma group_add_ok : forall st a, state_ok st -> arg_ok a -> state_ok (group_add st a).
Proof.
  intros [ms t] a [Hwf [Htab [Hord Hnd]]] Ha. simpl in *.
  destruct (arg_entries_spec a Ha) as [Hwa [Hea Hoa]].
  unfold Compose.group_add, state_ok. simpl. rewrite tab_add_fold. repeat split.
  - apply Forall_app. split; assumption.
  - intros k. rewrite merge_loop_assoc, assoc_shift, ref_slot_app, Htab, Hea. reflexivity.
  - rewrite merge_loop_keys, keys_shift, filter_app, Hord, map_app, concat_app, dedup_app. f_equal.
    rewrite <- (dedup_nodup (dedup (List.concat (map (@names_of V) (arg_members a)))) (NoDup_dedup _)), <- Hoa.
    rewrite <- filter_dedup, !filter_filter'. apply filter_ext_in'. intros y _.
    destruct (nonres y) eqn:Ny; [|rewrite andb_false_r; reflexivity]. rewrite andb_true_r. simpl. f_equal.
    rewrite <- (mem_dedup y (List.concat _)), <- Hord, mem_filter, Ny. reflexivity.
  - apply merge_loop_nodup. exact Hnd.
Qed.

Lemma group_fold_ok : forall args st, state_ok st -> Forall arg_ok args -> state_ok (fold_left group_add args st).
Proof.
  induction args as [|a args IH]; intros st Hst Hargs; simpl; [exact Hst|].
  inversion Hargs; subst. apply IH; [apply group_add_ok|]; assumption.
Qed.

Lemma members_fold : forall args (st : list rec * tab),
  fst (fold_left group_add args st) = fst st ++ List.concat (map (@arg_members V) args).
Proof.
  induction args as [|a args IH]; intros st; simpl; [rewrite app_nil_r; reflexivity|].
  rewrite IH. simpl. rewrite app_assoc. reflexivity.
Qed.

(* whatever the constructor builds -- from plain records and from groups built the same way, at any nesting
   depth -- routes every slot to the first flattened member that has it and lists the members' fields in
   order of first appearance *)
Theorem group_make_ok : forall nm args, Forall arg_ok args -> group_ok (group_make nm args).
Proof.
  intros nm args Hargs. unfold Compose.group_make.
  assert (H0 : state_ok (@nil rec, @nil (string * (string * nat)))).
  { unfold state_ok. simpl. repeat split; constructor. }
  pose proof (group_fold_ok args _ H0 Hargs) as H. exact H.
Qed.

Theorem group_make_members : forall nm args, gmembers (group_make nm args) = List.concat (map (@arg_members V) args).
Proof. intros. unfold Compose.group_make. simpl. rewrite members_fold. reflexivity. Qed.

(* the (typename, value) a non-reserved name is served with = the first association among all members' fields *)
Lemma served_field : forall k (ms : list rec), nonres k = true -> Forall wf ms ->
  option_map (fun ti : string * nat =>
                (fst ti, match (match nth_error ms (snd ti) with Some m => rec_get m k | None => None end) with
                         | Some v => v | None => dflt (fst ti) end))
             (ref_slot k ms)
  = assoc k (List.concat (map (@rfields V) ms)).
Proof.
  intros k ms Nk. induction ms as [|m ms IH]; intros Hwf; simpl; [reflexivity|].
  inversion Hwf as [|? ? Hm Hms]; subst. rewrite (assoc_app k (desc_of m)), (assoc_app k (rfields m)), assoc_desc_of.
  destruct (has k (rfields m)) eqn:E.
  - destruct (has_assoc _ _ E) as [[ty v] Hv]. rewrite Hv. simpl. rewrite (rec_get_field m k E), Hv. reflexivity.
  - apply assoc_none in E. rewrite E. simpl. rewrite (assoc_RES_none k Nk), <- (IH Hms).
    destruct (ref_slot k ms) as [[t i]|]; reflexivity.
Qed.

Theorem group_view_ref : forall g : group, group_ok g -> gmembers g <> [] ->
  group_view g = ref_group_view (gname g) (gmembers g).
Proof.
  intros g [Hwf [Htab [Hord Hnd]]] Hne. unfold Compose.group_view, Compose.ref_group_view. f_equal.
  - apply ents_ext.
    + rewrite (keys_map_keyed _ _ (fun n (t : string) => (t, slot_value dflt (group_get g) (n, t)))).
      rewrite keys_gflat, Hord. apply NoDup_dedup.
    + rewrite (keys_map_keyed _ _ (fun n (t : string) => (t, slot_value dflt (group_get g) (n, t)))).
      rewrite keys_gflat, Hord, keys_ref_entries, map_map. reflexivity.
    + intros k Hk. rewrite (keys_map_keyed _ _ (fun n (t : string) => (t, slot_value dflt (group_get g) (n, t)))) in Hk.
      rewrite keys_gflat in Hk. apply filter_In in Hk. destruct Hk as [_ Nk].
      rewrite (assoc_map_keyed _ _ (fun n (t : string) => (t, slot_value dflt (group_get g) (n, t)))).
      rewrite assoc_gflat, Nk, assoc_ref_entries_keep.
      etransitivity; [|apply (served_field k _ Nk Hwf)].
      unfold slot_value, Compose.group_get. simpl. rewrite (Htab k).
      destruct (ref_slot k (gmembers g)) as [[t i]|]; reflexivity.
  - destruct (gmembers g) as [|m ms] eqn:Em; [contradiction|]. inversion Hwf as [|? ? Hm _]; subst.
    assert (Hget : forall e, In e RES -> slot_value dflt (group_get g) e =
                   match assoc (fst e) (combine (map fst RES) (rres m)) with Some v => v | None => dflt (snd e) end).
    { intros e He. unfold slot_value, Compose.group_get. rewrite (Htab (fst e)), Em.
      assert (Hk : In (fst e) res_names) by (apply in_map; exact He).
      destruct (ref_slot_res (fst e) m ms Hm Hk) as [ty [_ Hs]]. rewrite Hs. simpl.
      rewrite (rec_get_nofield m _ (wf_res_not_field m _ Hm Hk)). reflexivity. }
    rewrite (map_ext_in _ _ RES Hget).
    destruct Hm as [_ [_ Hlen]].
    rewrite (res_lookup_gen (fun n t o => match o with Some v => v | None => dflt t end) RES (rres m) RES_nodup Hlen).
    simpl. apply map_snd_combine. exact Hlen.
Qed.

(* ---- setting through the group ---- *)
Local Notation group_set := (@group_set V RES).

Lemma ref_slot_first_index : forall k (ms : list rec), option_map snd (ref_slot k ms) = first_index k ms.
Proof.
  induction ms as [|m ms IH]; simpl; [reflexivity|]. unfold Compose.has_slot, slots_of.
  rewrite <- keys_desc_of. change res_names with (keys RES). rewrite <- keys_app. fold (has k (desc_of m ++ RES)).
  destruct (assoc k (desc_of m ++ RES)) eqn:E.
  - rewrite (assoc_some_has _ _ _ E). reflexivity.
  - apply assoc_none in E. rewrite E, <- IH. destruct (ref_slot k ms) as [[t i]|]; reflexivity.
Qed.

Theorem group_set_ref : forall (g : group) k v, group_ok g ->
  group_set g k v =
  mkGroup (gname g)
          (match first_index k (gmembers g) with
           | Some i => upd_nth i (fun m => rec_set m k v) (gmembers g)
           | None => gmembers g
           end) (gtab g) (gattr g).
Proof.
  intros g k v [_ [Htab _]]. unfold Compose.group_set. rewrite (Htab k), <- ref_slot_first_index.
  destruct (ref_slot k (gmembers g)) as [[t i]|]; simpl; [reflexivity|]. destruct g; reflexivity.
Qed.

Lemma nth_upd_nth : forall (A : Type) (f : A -> A) (l : list A) i j,
  nth_error (upd_nth i f l) j = if Nat.eqb i j then option_map f (nth_error l j) else nth_error l j.
Proof.
  induction l as [|x l IH]; intros i j; simpl.
  - destruct i; destruct j; simpl; try reflexivity; destruct (Nat.eqb i j); reflexivity.
  - destruct i; destruct j; simpl; try reflexivity. apply IH.
Qed.

Lemma assoc_map_set : forall k v k' (l : @dict V),
  assoc k' (map (fun p => (fst p, if String.eqb k (fst p) then v else snd p)) l) =
  if String.eqb k k' then option_map (fun _ => v) (assoc k' l) else assoc k' l.
Proof.
  induction l as [|e l IH]; simpl; [destruct (String.eqb k k'); reflexivity|].
  destruct (String.eqb k' (fst e)) eqn:E.
  - apply String.eqb_eq in E. subst k'. destruct (String.eqb k (fst e)); reflexivity.
  - exact IH.
Qed.

(* setattr changes exactly the named slot *)
Theorem rec_get_set : forall (m : rec) k v k',
  rec_get (rec_set m k v) k' = if String.eqb k k' then option_map (fun _ => v) (rec_get m k') else rec_get m k'.
Proof.
  intros. unfold Compose.rec_get. rewrite <- assoc_map_set. f_equal.
  unfold Compose.asdict, Compose.rec_set. simpl. rewrite map_app, map_map, map_map. f_equal.
  - apply map_ext. intros f. unfold fname, fval, ftype. simpl. destruct (String.eqb k (fst f)); reflexivity.
  - apply (combine_map_combine (fun p => if String.eqb k (fst p) then v else snd p)).
Qed.

Theorem desc_of_set : forall (m : rec) k v, desc_of (rec_set m k v) = desc_of m /\ rname (rec_set m k v) = rname m.
Proof.
  intros. split; [|reflexivity]. unfold desc_of, Compose.rec_set. simpl. rewrite map_map. apply map_ext. intros f.
  destruct (String.eqb k (fname f)); reflexivity.
Qed.

(* ---- GroupedRecord._replace ---- *)
Local Notation replace_members := (@replace_members V RES vver dflt).
Local Notation ref_replace_members := (@ref_replace_members V RES vver).
Local Notation group_replace := (@group_replace V RES vver dflt).
Local Notation ref_group_replace := (@ref_group_replace V RES vver).

Definition kw_left (pre : list rec) (kw : @dict V) : @dict V :=
  filter (fun kv => negb (existsb (has_slot (fst kv)) pre)) kw.

Lemma upd_kw_left : forall pre (kw : @dict V) (m : rec),
  upd (fun _ => false) (kw_left pre kw) m = upd (fun k => existsb (has_slot k) pre) kw m.
Proof.
  intros. unfold Compose.upd, kw_left.
  assert (Hnv : forall k own,
            match assoc k (filter (fun kv : string * V => negb (existsb (has_slot (fst kv)) pre)) kw) with
            | Some v => v | None => own end =
            match assoc k kw with Some v => if existsb (has_slot k) pre then own else v | None => own end).
  { intros k own. rewrite (assoc_filter_keypred _ (fun n => negb (existsb (has_slot n) pre))).
    destruct (existsb (has_slot k) pre); simpl; destruct (assoc k kw); reflexivity. }
  f_equal.
  - apply map_ext. intros f. rewrite Hnv. reflexivity.
  - f_equal. apply map_ext. intros p. rewrite Hnv. reflexivity.
Qed.

Lemma replace_members_spec : forall (ms pre : list rec) (kw : @dict V),
  Forall wf ms -> NoDup (keys kw) ->
  replace_members ms (kw_left pre kw) = (ref_replace_members pre ms kw, kw_left (pre ++ ms) kw).
Proof.
  induction ms as [|m ms IH]; intros pre kw Hwf Hkw; simpl.
  - rewrite app_nil_r. reflexivity.
  - inversion Hwf as [|? ? Hm Hms]; subst.
    rewrite (rebuild_spec m (kw_left pre kw) Hm (NoDup_keys_filter _ _ _ Hkw)).
    assert (Hleft : filter (fun kv : string * V => negb (has_slot (fst kv) m)) (kw_left pre kw) = kw_left (pre ++ [m]) kw).
    { unfold kw_left. rewrite filter_filter'. apply filter_ext_in'. intros x _. rewrite existsb_app. simpl.
      rewrite orb_false_r, negb_orb. reflexivity. }
    rewrite Hleft, (IH (pre ++ [m]) kw Hms Hkw), upd_kw_left, <- app_assoc. reflexivity.
Qed.

Theorem group_replace_ref : forall (g : group) (kw : @dict V),
  Forall wf (gmembers g) -> NoDup (keys kw) ->
  group_replace g kw = option_map (fun ms => group_make (gname g) (map (@ARec V) ms)) (ref_group_replace (gmembers g) kw).
Proof.
  intros g kw Hwf Hkw. unfold Compose.group_replace, Compose.ref_group_replace.
  assert (H0 : kw = kw_left [] kw). { unfold kw_left. symmetry. apply filter_all. reflexivity. }
  rewrite H0 at 1. rewrite (replace_members_spec (gmembers g) [] kw Hwf Hkw). simpl. unfold kw_left.
  rewrite (filter_nil_forallb _ _ (fun kv : string * V => existsb (has_slot (fst kv)) (gmembers g))).
  destruct (forallb (fun kv : string * V => existsb (has_slot (fst kv)) (gmembers g)) kw); reflexivity.
Qed.

(* ---------------------------------------------------------------------------------------------- *)
(* the P-model with the standard facts is the clean model                                           *)
Lemma fold_left_ext : forall (A B : Type) (f g : A -> B -> A) (l : list B) (a : A),
  (forall x y, f x y = g x y) -> fold_left f l a = fold_left g l a.
Proof. induction l as [|y l IH]; intros a H; simpl; [reflexivity|]. rewrite H. apply IH. exact H. Qed.

Lemma p_merge_descs_std : forall replace ds, p_merge_descs std_facts replace ds = merge_descs replace ds.
Proof.
  intros. unfold p_merge_descs, merge_descs. apply fold_left_ext. intros m d. apply fold_left_ext. intros x y. reflexivity.
Qed.

Lemma p_extend_std : forall replace name (r : rec) others,
  @p_extend V RES vver dflt std_facts replace name r others = Some (extend replace name r others).
Proof.
  intros. unfold p_extend, p_init_from_dict, Compose.extend. simpl. rewrite p_merge_descs_std.
  destruct replace; reflexivity.
Qed.

Lemma p_expand_loop_std : forall prev (orig : rec) fs (cur : rec),
  @p_expand_loop V RES vver vname dflt TS tsres std_facts prev orig cur fs = Some (expand_loop prev orig cur fs).
Proof.
  intros prev orig fs. induction fs as [|f fs IH]; intros cur; [reflexivity|].
  cbn [p_expand_loop Compose.expand_loop f_ts_from_original std_facts]. rewrite p_extend_std, IH. reflexivity.
Qed.

Lemma p_iter_timestamped_std : forall prev (r : rec),
  @p_iter_timestamped V RES vver vname dflt TS tsres std_facts prev r = Some (iter_timestamped prev r).
Proof.
  intros. unfold p_iter_timestamped, Compose.iter_timestamped. destruct (ts_fields r); [reflexivity|apply p_expand_loop_std].
Qed.

Lemma p_group_make_std : forall nm (args : list garg), @p_group_make V RES GATTRS std_facts nm args = group_make nm args.
Proof.
  intros. unfold p_group_make, Compose.group_make.
  unfold p_shadowed. simpl.
  assert (H : fold_left (@p_group_add V RES std_facts) args ([], []) = fold_left group_add args ([], [])).
  { apply fold_left_ext. intros st a. destruct a; reflexivity. }
  rewrite H. reflexivity.
Qed.

Lemma p_group_view_std : forall g : group, @p_group_view V RES dflt std_facts g = group_view g.
Proof. reflexivity. Qed.

Lemma p_replace_members_std : forall (g : group) ms (kw : @dict V),
  @p_replace_members V RES vver dflt std_facts g ms kw = replace_members ms kw.
Proof.
  intros g ms. induction ms as [|m ms IH]; intros kw; simpl; [reflexivity|].
  destruct (rebuild (attr m) m kw) as [m' kw1]. rewrite IH. reflexivity.
Qed.

Lemma p_group_replace_std : forall (g : group) (kw : @dict V),
  @p_group_replace V RES vver dflt GATTRS std_facts g kw = group_replace g kw.
Proof.
  intros. unfold p_group_replace, Compose.group_replace. rewrite p_replace_members_std.
  destruct (replace_members (gmembers g) kw) as [ms kw']. rewrite p_group_make_std. destruct kw'; reflexivity.
Qed.

Lemma p_rec_replace_std : forall (r : rec) (kw : @dict V), @p_rec_replace V RES vver dflt std_facts r kw = rec_replace r kw.
Proof.
  intros. unfold p_rec_replace, Compose.rec_replace. destruct (rebuild (attr r) r kw) as [r' kw']. destruct kw'; reflexivity.
Qed.

Lemma p_rewrite_std : forall (r : rec) fields exclude,
  @p_rewrite V RES vver dflt std_facts r fields exclude = Some (rewrite r fields exclude).
Proof.
  intros. unfold p_rewrite, Compose.rewrite, p_init_from_dict. simpl.
  assert (Hd : p_rewrite_desc std_facts (desc_of r) fields exclude = rewrite_desc (desc_of r) fields exclude).
  { unfold p_rewrite_desc, rewrite_desc. destruct fields as [|fn fl]; [reflexivity|]. apply flat_map_ext. intros a. simpl.
    destruct (mem a exclude); [reflexivity|]. destruct (assoc a (desc_of r)); reflexivity. }
  rewrite Hd. destruct fields; destruct exclude; reflexivity.
Qed.

Lemma p_init_from_dict_std : forall nm d given (get : string -> option V),
  @p_init_from_dict V RES vver dflt std_facts nm d given get = Some (init_from_dict nm d get).
Proof. reflexivity. Qed.

End Records.

Lemma facts_ok_eq : forall F, facts_ok F = true -> F = std_facts.
Proof.
  intros F H. destruct F. unfold facts_ok in H. simpl in H.
  repeat match goal with
         | H : _ && _ = true |- _ => apply andb_prop in H; destruct H
         end.
  repeat match goal with
         | H : negb ?b = true |- _ => apply negb_true_iff in H
         end.
  subst. reflexivity.
Qed.

Lemma nodupb_NoDup : forall l, nodupb l = true -> NoDup l.
Proof.
  induction l as [|x l IH]; simpl; intros H; [constructor|]. apply andb_prop in H. destruct H as [H1 H2].
  constructor; [|apply IH; exact H2]. apply negb_true_iff in H1. apply mem_false. exact H1.
Qed.

(* ---------------------------------------------------------------------------------------------- *)
(* the statements for the P-model under facts that compute to facts_ok (used by props/C15.v with the
   GENERATED facts and tables)                                                                      *)
Section WithFacts.
Context {V : Type}.
Variable RES : list (string * string).
Variable vver : V.
Variable vname : string -> V.
Variable dflt : string -> V.
Variable TS : tsfacts.
Variable tsres : list V.
Variable GATTRS : list string.
Variable F : facts.
Hypothesis F_ok : facts_ok F = true.
Hypothesis T_ok : tables_ok RES TS = true.

Lemma tables_ok_inv :
  NoDup (map fst RES) /\ ts_k1 TS <> ts_k2 TS /\ ~ In (ts_k1 TS) (res_names RES) /\ ~ In (ts_k2 TS) (res_names RES) /\
  (forall k, In k (ts_meta TS) -> In k (res_names RES)) /\
  (forall e, In e RES -> mem (fst e) (ts_meta TS) = negb (String.eqb (fst e) "_version")).
Proof.
  unfold tables_ok in T_ok. apply andb_prop in T_ok. destruct T_ok as [H12345 H6].
  apply andb_prop in H12345. destruct H12345 as [H1234 H5].
  apply andb_prop in H1234. destruct H1234 as [H123 H4].
  apply andb_prop in H123. destruct H123 as [H12 H3]. apply andb_prop in H12. destruct H12 as [H1 H2].
  apply negb_true_iff in H2, H3, H4. repeat split.
  - apply nodupb_NoDup. exact H1.
  - apply String.eqb_neq. exact H2.
  - apply mem_false. exact H3.
  - apply mem_false. exact H4.
  - intros k Hk. rewrite forallb_forall in H6. apply mem_In. apply H6. exact Hk.
  - intros e He. rewrite forallb_forall in H5. apply Bool.eqb_prop. apply H5. exact He.
Qed.

Lemma merge_facts : forall replace (ds : list (list (string * string))),
  (replace = true -> Forall (fun d => NoDup (keys d)) ds) ->
  p_merge_descs F replace ds = ref_merge replace ds.
Proof. intros. rewrite (facts_ok_eq F F_ok), p_merge_descs_std. apply merge_descs_ref. assumption. Qed.

Lemma extend_facts : forall replace name (r : @rec V) others,
  Forall (wf RES) (r :: others) ->
  p_extend RES vver dflt F replace name r others = Some (ref_extend RES vver replace name r others).
Proof.
  intros. destruct tables_ok_inv as [Hnd _]. rewrite (facts_ok_eq F F_ok), p_extend_std. f_equal.
  apply extend_ref; assumption.
Qed.

Lemma expand_facts : forall prev (r : @rec V),
  List.length tsres = List.length RES -> wf RES r ->
  p_iter_timestamped RES vver vname dflt TS tsres F prev r = Some (ref_expand RES vver vname TS r).
Proof.
  intros prev r Hlen Hwf. destruct tables_ok_inv as [Hnd [H1 [H2 [H3 [H4 H5]]]]].
  rewrite (facts_ok_eq F F_ok), p_iter_timestamped_std. f_equal. apply iter_timestamped_ref; auto.
Qed.

Lemma group_view_facts : forall nm (args : list (@garg V)),
  Forall (arg_ok RES) args -> List.concat (map (@arg_members V) args) <> [] ->
  group_ok RES (p_group_make RES GATTRS F nm args) /\
  gmembers (p_group_make RES GATTRS F nm args) = List.concat (map (@arg_members V) args) /\
  p_group_view RES dflt F (p_group_make RES GATTRS F nm args) = ref_group_view RES dflt nm (List.concat (map (@arg_members V) args)).
Proof.
  intros nm args Hargs Hne. destruct tables_ok_inv as [Hnd _].
  rewrite (facts_ok_eq F F_ok), p_group_make_std, p_group_view_std.
  pose proof (group_make_ok RES nm args Hargs) as Hok. pose proof (group_make_members RES nm args) as Hm.
  split; [exact Hok|]. split; [exact Hm|].
  rewrite (group_view_ref RES dflt Hnd _ Hok) by (rewrite Hm; exact Hne). rewrite Hm. reflexivity.
Qed.

(* a group built from nested groups has the flat view of the group built from the flattened member list *)
Lemma nested_flatten_facts : forall nm (args : list (@garg V)),
  Forall (arg_ok RES) args -> List.concat (map (@arg_members V) args) <> [] ->
  p_group_view RES dflt F (p_group_make RES GATTRS F nm args) =
  p_group_view RES dflt F (p_group_make RES GATTRS F nm (map (@ARec V) (List.concat (map (@arg_members V) args)))).
Proof.
  intros nm args Hargs Hne.
  destruct (group_view_facts nm args Hargs Hne) as [Hok [Hm Hv]]. rewrite Hv.
  assert (Hflat : List.concat (map (@arg_members V) (map (@ARec V) (List.concat (map (@arg_members V) args)))) =
                  List.concat (map (@arg_members V) args)).
  { generalize (List.concat (map (@arg_members V) args)). intros ms. induction ms as [|m ms IH]; simpl; [reflexivity|].
    rewrite IH. reflexivity. }
  assert (Hwf : Forall (arg_ok RES) (map (@ARec V) (List.concat (map (@arg_members V) args)))).
  { destruct Hok as [Hw _]. rewrite Hm in Hw. rewrite Forall_forall in *. intros a Ha. apply in_map_iff in Ha.
    destruct Ha as [m [Hm' Hin]]. subst a. simpl. apply Hw. exact Hin. }
  destruct (group_view_facts nm _ Hwf) as [_ [_ Hv2]]; [rewrite Hflat; exact Hne|].
  rewrite Hv2, Hflat. reflexivity.
Qed.

Lemma group_replace_facts : forall (g : @group V) (kw : @dict V),
  Forall (wf RES) (gmembers g) -> NoDup (keys kw) ->
  p_group_replace RES vver dflt GATTRS F g kw =
  option_map (fun ms => p_group_make RES GATTRS F (gname g) (map (@ARec V) ms)) (ref_group_replace RES vver (gmembers g) kw).
Proof.
  intros g kw Hwf Hkw. destruct tables_ok_inv as [Hnd _]. rewrite (facts_ok_eq F F_ok), p_group_replace_std.
  rewrite (group_replace_ref RES vver dflt Hnd g kw Hwf Hkw).
  destruct (ref_group_replace RES vver (gmembers g) kw); simpl; [rewrite p_group_make_std|]; reflexivity.
Qed.

Lemma replace_project_facts : forall (r : @rec V) (kw : @dict V) fields exclude,
  wf RES r -> NoDup (keys kw) ->
  p_rec_replace RES vver dflt F r kw = ref_replace RES vver r kw /\
  p_rewrite RES vver dflt F r fields exclude = Some (ref_project RES vver r fields exclude).
Proof.
  intros r kw fields exclude Hwf Hkw. destruct tables_ok_inv as [Hnd _]. rewrite (facts_ok_eq F F_ok). split.
  - rewrite p_rec_replace_std. apply rec_replace_ref; assumption.
  - rewrite p_rewrite_std. f_equal. apply rewrite_ref; assumption.
Qed.

Lemma init_from_record_facts : forall nm (d : list (string * string)) (r : @rec V),
  wf RES r -> (forall k, In k (keys d) -> ~ In k (res_names RES)) ->
  p_init_from_dict RES vver dflt F nm d (keys (asdict RES r)) (rec_get RES r) =
  Some (mkRec nm (map (fun e => (fst e, (snd e, match assoc (fst e) (rfields r) with Some tv => snd tv | None => dflt (snd e) end))) d)
              (restamp RES vver (rres r))).
Proof.
  intros nm d r Hwf Hd. destruct tables_ok_inv as [Hnd _]. rewrite (facts_ok_eq F F_ok), p_init_from_dict_std. f_equal.
  apply init_from_record_ref; assumption.
Qed.

(* setting through the group: routed to the first member that has the slot; every other member, and every other
   slot of that member, is untouched *)
Lemma group_set_frame : forall (g : @group V) k v, group_ok RES g ->
  gtab (group_set RES g k v) = gtab g /\
  (forall j, nth_error (gmembers (group_set RES g k v)) j =
             match first_index RES k (gmembers g) with
             | Some i => if Nat.eqb i j then option_map (fun m => rec_set RES m k v) (nth_error (gmembers g) j)
                         else nth_error (gmembers g) j
             | None => nth_error (gmembers g) j
             end) /\
  (forall (m : @rec V) k', rec_get RES (rec_set RES m k v) k' =
                           if String.eqb k k' then option_map (fun _ => v) (rec_get RES m k') else rec_get RES m k') /\
  (forall m : @rec V, desc_of (rec_set RES m k v) = desc_of m /\ rname (rec_set RES m k v) = rname m).
Proof.
  intros g k v Hok. rewrite (group_set_ref RES g k v Hok). simpl. split; [reflexivity|]. split.
  - intros j. destruct (first_index RES k (gmembers g)); [apply nth_upd_nth|reflexivity].
  - split; [intros; apply rec_get_set|intros; apply desc_of_set].
Qed.
End WithFacts.

Lemma wfb_wf : forall (V : Type) (RES : list (string * string)) (r : @rec V), wfb RES r = true -> wf RES r.
Proof.
  intros V RES r H. unfold wfb in H. apply andb_prop in H. destruct H as [H12 H3]. apply andb_prop in H12. destruct H12 as [H1 H2].
  repeat split.
  - apply nodupb_NoDup. exact H1.
  - intros n Hn. rewrite forallb_forall in H2. specialize (H2 n Hn). apply negb_true_iff in H2. apply mem_false. exact H2.
  - apply Nat.eqb_eq. exact H3.
Qed.

Lemma Forall_wfb : forall (V : Type) (RES : list (string * string)) (rs : list (@rec V)),
  forallb (wfb RES) rs = true -> Forall (wf RES) rs.
Proof.
  intros V RES rs H. rewrite forallb_forall in H. rewrite Forall_forall. intros r Hr. apply wfb_wf. apply H. exact Hr.
Qed.

(* ---------------------------------------------------------------------------------------------- *)
(* memoisation keyed by the definition is transparent                                              *)
Section CacheProofs.
Context {K R : Type}.
Variable keq : K -> K -> bool.
Variable f : K -> R.
Hypothesis keq_eq : forall a b, keq a b = true -> a = b.

Definition cache_sound (c : list (K * R)) : Prop := forall e, In e c -> snd e = f (fst e).

Lemma cache_find_sound : forall c k v, cache_sound c -> cache_find keq k c = Some v -> v = f k.
Proof.
  induction c as [|e c IH]; simpl; intros k v Hs H; [discriminate|].
  destruct (keq k (fst e)) eqn:E.
  - inversion H. subst v. rewrite (keq_eq _ _ E). apply Hs. left. reflexivity.
  - apply IH; [|exact H]. intros x Hx. apply Hs. right. exact Hx.
Qed.

Lemma run_cached_transparent : forall ks c, cache_sound c -> run_cached keq f c ks = map f ks.
Proof.
  induction ks as [|k ks IH]; intros c Hs; simpl; [reflexivity|].
  destruct (cache_find keq k c) as [v|] eqn:E.
  - rewrite (cache_find_sound c k v Hs E). f_equal. apply IH. exact Hs.
  - f_equal. apply IH. intros e [He|He]; [subst e; reflexivity|apply Hs; exact He].
Qed.
End CacheProofs.

Lemma desc_eqb_eq : forall a b, desc_eqb a b = true -> a = b.
Proof.
  unfold desc_eqb. induction a as [|e a IH]; intros b H; destruct b as [|g b]; try discriminate; [reflexivity|].
  apply andb_prop in H. destruct H as [H12 H3]. apply andb_prop in H12. destruct H12 as [H1 H2].
  apply String.eqb_eq in H1, H2. destruct e, g. simpl in *. subst. f_equal. apply IH. exact H3.
Qed.

Lemma dkeys_eqb_eq : forall a b, dkeys_eqb true a b = true -> a = b.
Proof.
  induction a as [|x a IH]; intros b H; destruct b as [|y b]; simpl in H; try discriminate; [reflexivity|].
  apply andb_prop in H. destruct H as [H1 H2]. unfold dkey_eqb in H1. apply andb_prop in H1. destruct H1 as [Hn Hf].
  apply String.eqb_eq in Hn. apply desc_eqb_eq in Hf. destruct x, y. simpl in *. subst. f_equal. apply IH. exact H2.
Qed.

Lemma mkey_eqb_eq : forall a b, mkey_eqb true a b = true -> a = b.
Proof.
  intros [da [ra na]] [db [rb nb]] H. unfold mkey_eqb in H. simpl in H.
  apply andb_prop in H. destruct H as [H12 H3]. apply andb_prop in H12. destruct H12 as [H1 H2].
  apply dkeys_eqb_eq in H1. apply Bool.eqb_prop in H2. subst.
  destruct na as [x|]; destruct nb as [y|]; try discriminate; [|reflexivity].
  apply String.eqb_eq in H3. subst. reflexivity.
Qed.

(* any sequence of calls of a function memoised on (descriptors, replace, name) returns what the function returns,
   provided descriptor equality is structural *)
Theorem merge_cache_transparent : forall (structural : bool) (R : Type) (f : mkey -> R) (ks : list mkey),
  structural = true -> run_cached (mkey_eqb structural) f [] ks = map f ks.
Proof.
  intros structural R f ks H. subst structural. apply run_cached_transparent.
  - exact mkey_eqb_eq.
  - intros e [].
Qed.
