(* Proofs about model/Writers.v (property C17). *)
From Coq Require Import List Bool String Ascii NArith Arith Lia Permutation DecimalString DecimalN.
Import ListNotations.
From FR Require Import Writers.
Open Scope list_scope.

(* ------------------------------------------------------------------------------------------------ *)
(* what the proofs need from the generated shape facts                                               *)

Definition mcall_eqb (a b : mcall) : bool :=
  match a, b with MFlush, MFlush | MClose, MClose => true | _, _ => false end.
Fixpoint mcalls_eqb (a b : list mcall) : bool :=
  match a, b with
  | [], [] => true
  | x :: a', y :: b' => mcall_eqb x y && mcalls_eqb a' b'
  | _, _ => false
  end.
Definition rollstep_eqb (a b : rollstep) : bool :=
  match a, b with RFlush, RFlush | RClose, RClose | RReset, RReset | RNew, RNew => true | _, _ => false end.
Fixpoint rollsteps_eqb (a b : list rollstep) : bool :=
  match a, b with
  | [], [] => true
  | x :: a', y :: b' => rollstep_eqb x y && rollsteps_eqb a' b'
  | _, _ => false
  end.

Lemma mcalls_eqb_eq a b : mcalls_eqb a b = true -> a = b.
Proof.
  revert b. induction a as [|x a IH]; destruct b as [|y b]; cbn; intros H; try discriminate; auto.
  apply andb_prop in H. destruct H as [H1 H2]. f_equal; [destruct x, y; try discriminate; auto | auto].
Qed.
Lemma rollsteps_eqb_eq a b : rollsteps_eqb a b = true -> a = b.
Proof.
  revert b. induction a as [|x a IH]; destruct b as [|y b]; cbn; intros H; try discriminate; auto.
  apply andb_prop in H. destruct H as [H1 H2]. f_equal; [destruct x, y; try discriminate; auto | auto].
Qed.

(* __exit__ = flush; close   /   __del__ = close   /   AvroWriter.flush never installs the placeholder writer,
   AvroWriter.close installs it when nothing was written and then flushes   /   rotate_existing_file looks for a
   free name *)
Definition shapes_ok (sh : shapes) : bool :=
  mcalls_eqb (sh_exit sh) [MFlush; MClose] && mcalls_eqb (sh_exit_exc sh) [MFlush; MClose]
  && mcalls_eqb (sh_del sh) [MClose] && sh_avro_close_flushes sh
  && negb (sh_avro_flush_placeholder sh) && sh_avro_close_placeholder sh && sh_rotate_counter sh.
(* SplitWriter.write: `written >= count` -> flush, close, written = 0, new writer *)
Definition stdout_vals_ok (vals : option (list string)) (allowed : list string) : bool :=
  match vals with
  | Some vs => forallb (fun v => existsb (String.eqb v) allowed) vs
  | None => false
  end.
(* ... and only a target whose netloc is "" or "-" AND whose path is "" is taken for stdout *)
Definition split_shapes_ok (sh : shapes) : bool :=
  sh_split_ge sh && rollsteps_eqb (sh_split_roll sh) [RFlush; RClose; RReset; RNew]
  && stdout_vals_ok (sh_split_stdout_netloc sh) [""; "-"]%string && stdout_vals_ok (sh_split_stdout_path sh) [""]%string.

Lemma shapes_ok_all sh : shapes_ok sh = true ->
  (sh_exit sh = [MFlush; MClose] /\ sh_del sh = [MClose] /\ sh_avro_close_flushes sh = true) /\
  (sh_avro_flush_placeholder sh = false /\ sh_avro_close_placeholder sh = true /\ sh_rotate_counter sh = true) /\
  sh_exit_exc sh = [MFlush; MClose].
Proof.
  unfold shapes_ok. intros H.
  apply andb_prop in H. destruct H as [H H6]. apply andb_prop in H. destruct H as [H H5].
  apply andb_prop in H. destruct H as [H H4]. apply andb_prop in H. destruct H as [H H3].
  apply andb_prop in H. destruct H as [H H2]. apply andb_prop in H. destruct H as [H1 H7]. apply negb_true_iff in H4.
  repeat split; auto using mcalls_eqb_eq.
Qed.
Lemma shapes_ok_exc sh : shapes_ok sh = true -> sh_exit_exc sh = [MFlush; MClose].
Proof. intros H. apply shapes_ok_all in H. tauto. Qed.
Lemma shapes_ok_inv sh : shapes_ok sh = true ->
  sh_exit sh = [MFlush; MClose] /\ sh_del sh = [MClose] /\ sh_avro_close_flushes sh = true.
Proof. intros H. apply shapes_ok_all in H. tauto. Qed.
Lemma shapes_ok_inv2 sh : shapes_ok sh = true ->
  sh_avro_flush_placeholder sh = false /\ sh_avro_close_placeholder sh = true /\ sh_rotate_counter sh = true.
Proof. intros H. apply shapes_ok_all in H. tauto. Qed.
Lemma split_shapes_ok_inv sh : split_shapes_ok sh = true ->
  sh_split_ge sh = true /\ sh_split_roll sh = [RFlush; RClose; RReset; RNew].
Proof.
  unfold split_shapes_ok. intros H. apply andb_prop in H. destruct H as [H _]. apply andb_prop in H. destruct H as [H _].
  apply andb_prop in H. destruct H as [H1 H2]. split; auto using rollsteps_eqb_eq.
Qed.

(* which targets are files: everything but (netloc "" or "-", empty path) *)
Definition file_target (netloc path : string) : bool :=
  negb (existsb (String.eqb netloc) [""; "-"]%string) || negb (String.eqb path "").

Lemma part_test_allowed vals allowed x : stdout_vals_ok vals allowed = true -> part_test vals x = true ->
  existsb (String.eqb x) allowed = true.
Proof.
  destruct vals as [vs|]; cbn; [|discriminate]. intros Hall Hx.
  apply existsb_exists in Hx. destruct Hx as (v & Hin & Hv). apply String.eqb_eq in Hv. subst v.
  rewrite forallb_forall in Hall. apply Hall. exact Hin.
Qed.

Lemma file_target_not_stdout sh netloc path : split_shapes_ok sh = true -> file_target netloc path = true ->
  split_is_stdout sh netloc path = false.
Proof.
  unfold split_shapes_ok. intros H Hf. apply andb_prop in H. destruct H as [H Hp]. apply andb_prop in H. destruct H as [_ Hn].
  unfold split_is_stdout. destruct (part_test (sh_split_stdout_netloc sh) netloc) eqn:E1; [|reflexivity].
  destruct (part_test (sh_split_stdout_path sh) path) eqn:E2; [|reflexivity]. exfalso.
  pose proof (part_test_allowed _ _ _ Hn E1) as A1. pose proof (part_test_allowed _ _ _ Hp E2) as A2.
  unfold file_target in Hf. rewrite A1 in Hf. cbn in A2. rewrite orb_false_r in A2. rewrite A2 in Hf. discriminate.
Qed.

(* ------------------------------------------------------------------------------------------------ *)
(* classes of histories                                                                               *)

Definition is_closing (o : op) : bool := match o with Close | WithExit | WithExitExc | Del => true | _ => false end.
(* leaving a with-block, normally or by an exception *)
Definition is_exit (o : op) : bool := match o with WithExit | WithExitExc => true | _ => false end.
Definition has_close (h : list op) : bool := existsb is_closing h.

(* finding C17-stream-empty-close: the very first operation is a bare close()/del *)
Definition bare_close_first (h : list op) : bool :=
  match h with Close :: _ | Del :: _ => true | _ => false end.

Definition excluded (k : adapter) (h : list op) : bool :=
  match k with
  | AStream => bare_close_first h
  | _ => false
  end.

(* ------------------------------------------------------------------------------------------------ *)
(* the reader                                                                                         *)

Lemma read_frames_app reg a b :
  read_frames reg (a ++ b) =
  match read_frames reg a with
  | Some (reg', ra) =>
      match read_frames reg' b with
      | Some (reg'', rb) => Some (reg'', ra ++ rb)
      | None => None
      end
  | None => None
  end.
Proof.
  revert reg. induction a as [|f a IH]; intros reg; cbn.
  - destruct (read_frames reg b) as [[r2 rb]|]; reflexivity.
  - destruct f as [|d|r]; cbn.
    + apply IH.
    + apply IH.
    + destruct (mem_desc (r_desc r) reg) eqn:E; [|reflexivity].
      rewrite IH. destruct (read_frames reg a) as [[reg' ra]|]; [|reflexivity].
      destruct (read_frames reg' b) as [[reg'' rb]|]; reflexivity.
Qed.

Lemma mem_desc_app d l1 l2 : mem_desc d (l1 ++ l2) = mem_desc d l1 || mem_desc d l2.
Proof. unfold mem_desc. apply existsb_app. Qed.

Lemma mem_desc_add_same d l : mem_desc d (add_desc d l) = true.
Proof.
  unfold add_desc. destruct (mem_desc d l) eqn:E; [exact E|].
  rewrite mem_desc_app. cbn. rewrite N.eqb_refl. apply orb_true_r.
Qed.

Lemma mem_desc_add_mono d x l : mem_desc d l = true -> mem_desc d (add_desc x l) = true.
Proof.
  intros H. unfold add_desc. destruct (mem_desc x l); [exact H|]. rewrite mem_desc_app, H. reflexivity.
Qed.

Definition reg_incl (a b : list desc) : Prop := forall d, mem_desc d a = true -> mem_desc d b = true.

Lemma reg_incl_add x a b : reg_incl a b -> reg_incl (add_desc x a) (add_desc x b).
Proof.
  intros H d Hd. unfold add_desc in Hd. destruct (mem_desc x a) eqn:E.
  - apply mem_desc_add_mono. apply H. exact Hd.
  - rewrite mem_desc_app in Hd. apply orb_prop in Hd. destruct Hd as [Hd|Hd].
    + apply mem_desc_add_mono. apply H. exact Hd.
    + cbn in Hd. rewrite orb_false_r in Hd. apply N.eqb_eq in Hd. subst d. apply mem_desc_add_same.
Qed.

(* a bigger registry reads the same records *)
Lemma read_frames_mono fs : forall reg reg' rs reg2,
  read_frames reg fs = Some (reg', rs) -> reg_incl reg reg2 ->
  exists reg2', read_frames reg2 fs = Some (reg2', rs) /\ reg_incl reg' reg2'.
Proof.
  induction fs as [|f fs IH]; intros reg reg' rs reg2 H Hi; cbn in *.
  - inversion H; subst. eauto.
  - destruct f as [|d|r].
    + eapply IH; eauto.
    + eapply IH; eauto using reg_incl_add.
    + destruct (mem_desc (r_desc r) reg) eqn:E; [|discriminate].
      rewrite (Hi _ E).
      destruct (read_frames reg fs) as [[rg rs0]|] eqn:E2; [|discriminate].
      inversion H; subst.
      destruct (IH _ _ _ _ E2 Hi) as (reg2' & H2 & Hi2). rewrite H2. eauto.
Qed.

(* ------------------------------------------------------------------------------------------------ *)
(* generic facts about one writer                                                                     *)

Section One.
Variable sh : shapes.
Variable batch : nat.
Hypothesis SH : shapes_ok sh = true.

Notation step := (step sh batch).
Notation run := (run sh batch).
Notation do_close := (do_close sh).
Notation do_calls := (do_calls sh).
Notation do_flush := (Writers.do_flush sh).

Lemma run_app k st h1 h2 :
  run k st (h1 ++ h2) =
  let (s1, a1) := run k st h1 in let (s2, a2) := run k s1 h2 in (s2, a1 ++ a2).
Proof.
  revert st. induction h1 as [|o h1 IH]; intros st; cbn.
  - destruct (run k st h2); reflexivity.
  - destruct (step k st o) as [st' out]. rewrite IH.
    destruct (run k st' h1) as [s1 a1]. destruct (run k s1 h2) as [s2 a2].
    destruct o; destruct out; reflexivity.
Qed.

(* a closed writer: nothing changes any more, every write raises *)
Lemma closed_write k st r : w_open st = false -> do_write batch k st r = (st, Raised).
Proof. intros H. unfold do_write. rewrite H. reflexivity. Qed.
Lemma closed_flush k st : w_open st = false -> exists o, do_flush k st = (st, o).
Proof.
  intros H. unfold Writers.do_flush, avro_flush. rewrite H.
  destruct k; eauto. destruct (sh_avro_flush_placeholder sh); eauto.
Qed.
Lemma closed_close k st : w_open st = false -> do_close k st = (st, Ok).
Proof. intros H. unfold Writers.do_close. rewrite H. reflexivity. Qed.
Lemma closed_calls k st cs : w_open st = false -> exists o, do_calls k st cs = (st, o).
Proof.
  intros H. induction cs as [|c cs IH]; cbn; eauto.
  destruct c; cbn.
  - destruct (closed_flush k st H) as [o Ho]. rewrite Ho. destruct o; eauto.
  - rewrite (closed_close k st H). exact IH.
Qed.
Lemma closed_step k st o : w_open st = false ->
  exists out, step k st o = (st, out) /\ (forall r, o = Write r -> out = Raised).
Proof.
  intros H. destruct o; cbn.
  - rewrite (closed_write k st r H). eexists; split; eauto.
  - destruct (closed_flush k st H) as [o Ho]. rewrite Ho. eexists; split; eauto. intros; discriminate.
  - rewrite (closed_close k st H). eexists; split; eauto. intros; discriminate.
  - destruct (closed_calls k st (sh_exit sh) H) as [o Ho]. rewrite Ho. eexists; split; eauto. intros; discriminate.
  - destruct (closed_calls k st (sh_exit_exc sh) H) as [o Ho]. rewrite Ho. eexists; split; eauto. intros; discriminate.
  - destruct (closed_calls k st (sh_del sh) H) as [o Ho]. rewrite Ho. eexists; split; eauto. intros; discriminate.
Qed.
Lemma closed_run k st h : w_open st = false -> run k st h = (st, []).
Proof.
  intros H. induction h as [|o h IH]; cbn; [reflexivity|].
  destruct (closed_step k st o H) as (out & Hs & Hw). rewrite Hs, IH.
  destruct o; try reflexivity. rewrite (Hw r eq_refl). reflexivity.
Qed.

(* close closes; flush raises only on a closed writer *)
Lemma do_close_closed k st : w_open (fst (do_close k st)) = false /\ snd (do_close k st) = Ok.
Proof.
  unfold Writers.do_close. destruct (w_open st) eqn:E; cbn; [|auto].
  destruct k; cbn; auto.
Qed.
Lemma do_flush_raised k st st' : do_flush k st = (st', Raised) -> w_open st' = false.
Proof.
  unfold Writers.do_flush, avro_flush. destruct k; try (intros H; discriminate H).
  destruct (sh_avro_flush_placeholder sh); destruct (w_open st) eqn:E; [| |destruct (w_awr st)|];
    intros H; inversion H; subst; auto.
Qed.

Lemma closing_step_closes k st o : is_closing o = true -> w_open (fst (step k st o)) = false.
Proof.
  destruct (shapes_ok_inv sh SH) as (He & Hd & _). pose proof (shapes_ok_exc sh SH) as Hx.
  destruct o; cbn; try discriminate; intros _.
  - apply do_close_closed.
  - rewrite He. cbn. destruct (do_flush k st) as [st1 o1] eqn:E1. destruct o1.
    + pose proof (do_close_closed k st1) as [Hc Ho]. destruct (do_close k st1) as [st2 o2]. cbn in *. subst o2. exact Hc.
    + cbn. eapply do_flush_raised; eauto.
  - rewrite Hx. cbn. destruct (do_flush k st) as [st1 o1] eqn:E1. destruct o1.
    + pose proof (do_close_closed k st1) as [Hc Ho]. destruct (do_close k st1) as [st2 o2]. cbn in *. subst o2. exact Hc.
    + cbn. eapply do_flush_raised; eauto.
  - rewrite Hd. cbn. pose proof (do_close_closed k st) as [Hc Ho]. destruct (do_close k st) as [st2 o2]. cbn in *.
    subst o2. exact Hc.
Qed.

Lemma has_close_closed k h : forall st, has_close h = true -> w_open (fst (run k st h)) = false.
Proof.
  induction h as [|o h IH]; intros st H; cbn in *; [discriminate|].
  destruct (step k st o) as [st' out] eqn:Es.
  destruct (is_closing o) eqn:Ec; cbn in H.
  - pose proof (closing_step_closes k st o Ec) as Hc. rewrite Es in Hc. cbn in Hc.
    rewrite (closed_run k st' h Hc). cbn. exact Hc.
  - specialize (IH st' H). destruct (run k st' h) as [s2 a2]. exact IH.
Qed.

(* ---------------------------------------------------------------------------------------------- *)
(* stream                                                                                           *)

Definition stream_good (st : wstate) (acc : list rec) : Prop :=
  w_hdr st = true /\
  exists body, w_file st = FileStream (FHdr :: body) /\ read_frames [] body = Some (w_seen st, acc).

Lemma stream_good_readable st acc : stream_good st acc -> readable (w_file st) = Some acc.
Proof. intros (_ & body & Hf & Hr). rewrite Hf. cbn. rewrite Hr. reflexivity. Qed.

Lemma stream_header_good st acc : stream_good st acc -> stream_header st = st.
Proof. intros (Hh & _). unfold stream_header. rewrite Hh. reflexivity. Qed.

Lemma stream_write_good st acc r : stream_good st acc -> stream_good (stream_write st r) (acc ++ [r]).
Proof.
  intros G. pose proof G as (Hh & body & Hf & Hr).
  unfold stream_write. rewrite (stream_header_good st acc G). split; [exact Hh|].
  unfold frames_of. rewrite Hf.
  exists (body ++ (if mem_desc (r_desc r) (w_seen st) then [] else [FDesc (r_desc r)]) ++ [FRec r]). split; [reflexivity|].
  cbn [w_seen]. rewrite read_frames_app, Hr. unfold add_desc.
  destruct (mem_desc (r_desc r) (w_seen st)) eqn:E; cbn.
  - rewrite E. reflexivity.
  - assert (E2 : mem_desc (r_desc r) (add_desc (r_desc r) (w_seen st)) = true) by apply mem_desc_add_same.
    unfold add_desc in *. rewrite E in *. rewrite E2. reflexivity.
Qed.

Lemma stream_set_open_good st acc b : stream_good st acc -> stream_good (set_open st b) acc.
Proof. intros G. exact G. Qed.

Lemma stream_flush_good st acc : stream_good st acc -> stream_good (fst (do_flush AStream st)) acc /\ snd (do_flush AStream st) = Ok.
Proof.
  intros G. cbn. split; [|reflexivity]. destruct (w_open st); [rewrite (stream_header_good _ _ G)|]; exact G.
Qed.
Lemma stream_close_good st acc : stream_good st acc -> stream_good (fst (do_close AStream st)) acc /\ snd (do_close AStream st) = Ok.
Proof.
  intros G. unfold Writers.do_close. destruct (w_open st); cbn; [|auto].
  split; [|reflexivity]. destruct (sh_stream_close_flushes sh); [rewrite (stream_header_good _ _ G)|]; exact G.
Qed.
Lemma stream_calls_good cs : forall st acc, stream_good st acc -> stream_good (fst (do_calls AStream st cs)) acc.
Proof.
  induction cs as [|c cs IH]; intros st acc G; cbn; [exact G|].
  destruct c; cbn [do_call].
  - pose proof (stream_flush_good st acc G) as [G1 O1]. destruct (do_flush AStream st) as [s1 o1]. cbn in *. subst. auto.
  - pose proof (stream_close_good st acc G) as [G1 O1]. destruct (do_close AStream st) as [s1 o1]. cbn in *. subst. auto.
Qed.

Definition newly (o : op) (out : outcome) : list rec :=
  match o, out with Write r, Ok => [r] | _, _ => [] end.

Lemma run_cons k st o h :
  run k st (o :: h) =
  let (st', out) := step k st o in let (st'', acc) := run k st' h in (st'', newly o out ++ acc).
Proof. cbn. destruct (step k st o) as [st' out]. destruct (run k st' h). destruct o, out; reflexivity. Qed.

Lemma stream_step_good st acc o :
  stream_good st acc -> stream_good (fst (step AStream st o)) (acc ++ newly o (snd (step AStream st o))).
Proof.
  intros G. destruct o; cbn [Writers.step].
  - unfold do_write. destruct (w_open st); cbn; [apply stream_write_good; exact G | rewrite app_nil_r; exact G].
  - cbn [newly]. rewrite app_nil_r. apply stream_flush_good. exact G.
  - cbn [newly]. rewrite app_nil_r. apply stream_close_good. exact G.
  - cbn [newly]. rewrite app_nil_r. apply stream_calls_good. exact G.
  - cbn [newly]. rewrite app_nil_r. apply stream_calls_good. exact G.
  - cbn [newly]. rewrite app_nil_r. apply stream_calls_good. exact G.
Qed.

Lemma stream_run_good h : forall st acc, stream_good st acc ->
  stream_good (fst (run AStream st h)) (acc ++ snd (run AStream st h)).
Proof.
  induction h as [|o h IH]; intros st acc G.
  - cbn. rewrite app_nil_r. exact G.
  - rewrite run_cons. pose proof (stream_step_good st acc o G) as G1.
    destruct (step AStream st o) as [st' out]. cbn [fst snd] in G1.
    specialize (IH st' _ G1). destruct (run AStream st' h) as [s2 a2]. cbn [fst snd] in *.
    rewrite app_assoc. exact IH.
Qed.

(* after a first operation that is not a bare close, the stream carries its header *)
Lemma stream_first_good o : bare_close_first [o] = false ->
  stream_good (fst (step AStream (w_init AStream) o)) (newly o (snd (step AStream (w_init AStream) o))).
Proof.
  destruct (shapes_ok_inv sh SH) as (He & Hd & _).
  destruct o; cbn [bare_close_first]; intros H; try discriminate.
  - cbn. split; [reflexivity|]. exists [FDesc (r_desc r); FRec r]. split; [reflexivity|].
    cbn. rewrite N.eqb_refl. reflexivity.
  - cbn. split; [reflexivity|]. exists []. split; reflexivity.
  - cbn [Writers.step]. rewrite He. cbn. destruct (sh_stream_close_flushes sh); cbn;
      (split; [reflexivity|]; exists []; split; reflexivity).
  - cbn [Writers.step]. rewrite (shapes_ok_exc sh SH). cbn. destruct (sh_stream_close_flushes sh); cbn;
      (split; [reflexivity|]; exists []; split; reflexivity).
Qed.

Lemma stream_init_run_good h :
  h <> [] -> bare_close_first h = false ->
  stream_good (fst (run AStream (w_init AStream) h)) (snd (run AStream (w_init AStream) h)).
Proof.
  intros Hne Hb. destruct h as [|o h]; [congruence|].
  assert (Hb1 : bare_close_first [o] = false) by (destruct o; auto).
  pose proof (stream_first_good o Hb1) as G.
  rewrite run_cons. destruct (step AStream (w_init AStream) o) as [st' out]. cbn [fst snd] in G.
  pose proof (stream_run_good h st' _ G) as G2.
  destruct (run AStream st' h) as [s2 a2]. cbn [fst snd] in *. exact G2.
Qed.

Lemma durable_stream h :
  has_close h = true -> bare_close_first h = false ->
  readable (w_file (fst (run AStream (w_init AStream) h))) = Some (snd (run AStream (w_init AStream) h)).
Proof.
  intros Hc Hb. apply stream_good_readable. apply stream_init_run_good; [|exact Hb].
  intros ->. discriminate.
Qed.

(* ---------------------------------------------------------------------------------------------- *)
(* plain (jsonfile / csvfile / line / text)                                                         *)

Definition plain_good (st : wstate) (acc : list rec) : Prop := w_file st = FilePlain acc.

Lemma plain_calls_good cs : forall st acc, plain_good st acc -> plain_good (fst (do_calls APlain st cs)) acc.
Proof.
  induction cs as [|c cs IH]; intros st acc G; cbn; [exact G|].
  destruct c; cbn [do_call].
  - cbn. apply IH. exact G.
  - unfold Writers.do_close. destruct (w_open st); cbn; apply IH; exact G.
Qed.

Lemma plain_step_good st acc o :
  plain_good st acc -> plain_good (fst (step APlain st o)) (acc ++ newly o (snd (step APlain st o))).
Proof.
  unfold plain_good. intros G. destruct o; cbn [Writers.step].
  - unfold do_write. destruct (w_open st); cbn; [rewrite G; reflexivity | rewrite app_nil_r; exact G].
  - cbn. rewrite app_nil_r. exact G.
  - unfold Writers.do_close. destruct (w_open st); cbn; rewrite app_nil_r; exact G.
  - cbn [newly]. rewrite app_nil_r. apply plain_calls_good. exact G.
  - cbn [newly]. rewrite app_nil_r. apply plain_calls_good. exact G.
  - cbn [newly]. rewrite app_nil_r. apply plain_calls_good. exact G.
Qed.

Lemma plain_run_good h : forall st acc, plain_good st acc ->
  plain_good (fst (run APlain st h)) (acc ++ snd (run APlain st h)).
Proof.
  induction h as [|o h IH]; intros st acc G.
  - cbn. rewrite app_nil_r. exact G.
  - rewrite run_cons. pose proof (plain_step_good st acc o G) as G1.
    destruct (step APlain st o) as [st' out]. cbn [fst snd] in G1.
    specialize (IH st' _ G1). destruct (run APlain st' h) as [s2 a2]. cbn [fst snd] in *.
    rewrite app_assoc. exact IH.
Qed.

Lemma durable_plain h :
  readable (w_file (fst (run APlain (w_init APlain) h))) = Some (snd (run APlain (w_init APlain) h)).
Proof.
  pose proof (plain_run_good h (w_init APlain) [] eq_refl) as G. unfold plain_good in G. rewrite G. reflexivity.
Qed.

(* ---------------------------------------------------------------------------------------------- *)
(* sqlite                                                                                           *)

Lemma tbl_insert_all_app a b ts : tbl_insert_all (a ++ b) ts = tbl_insert_all b (tbl_insert_all a ts).
Proof. unfold tbl_insert_all. apply fold_left_app. Qed.

Definition sq_good (st : wstate) (acc : list rec) : Prop :=
  exists acc0, acc = acc0 ++ w_buf st /\ w_file st = FileSqlite (tbl_insert_all acc0 []) /\
               (w_open st = false -> w_buf st = []).

Lemma sq_commit_good st acc : sq_good st acc -> sq_good (sqlite_commit st) acc /\ w_buf (sqlite_commit st) = [].
Proof.
  intros (acc0 & Ha & Hf & Hc). split; [|reflexivity]. exists (acc0 ++ w_buf st). cbn. repeat split.
  - rewrite app_nil_r. exact Ha.
  - unfold tables_of. rewrite Hf. rewrite tbl_insert_all_app. reflexivity.
Qed.

Lemma sq_set_open_false st acc : sq_good st acc -> w_buf st = [] -> sq_good (set_open st false) acc.
Proof. intros (acc0 & Ha & Hf & Hc) Hb. exists acc0. cbn. repeat split; auto. Qed.

Lemma sq_flush_good st acc : sq_good st acc -> sq_good (fst (do_flush ASqlite st)) acc /\ snd (do_flush ASqlite st) = Ok.
Proof. intros G. cbn. split; [|reflexivity]. destruct (w_open st); [apply sq_commit_good|]; exact G. Qed.

Lemma sq_close_good st acc : sq_good st acc -> sq_good (fst (do_close ASqlite st)) acc /\ snd (do_close ASqlite st) = Ok.
Proof.
  intros G. unfold Writers.do_close. destruct (w_open st) eqn:E; cbn; [|auto]. split; [|reflexivity].
  destruct (sq_commit_good st acc G) as [G1 B1]. apply sq_set_open_false; assumption.
Qed.

Lemma sq_calls_good cs : forall st acc, sq_good st acc -> sq_good (fst (do_calls ASqlite st cs)) acc.
Proof.
  induction cs as [|c cs IH]; intros st acc G; cbn; [exact G|].
  destruct c; cbn [do_call].
  - pose proof (sq_flush_good st acc G) as [G1 O1]. destruct (do_flush ASqlite st) as [s1 o1]. cbn in *. subst. auto.
  - pose proof (sq_close_good st acc G) as [G1 O1]. destruct (do_close ASqlite st) as [s1 o1]. cbn in *. subst. auto.
Qed.

Lemma sq_add_buf st acc r seen cnt : sq_good st acc -> w_open st = true ->
  sq_good (mkW (w_open st) (w_hdr st) seen (w_adesc st) (w_awr st) (w_buf st ++ [r]) cnt (w_file st)) (acc ++ [r]).
Proof.
  intros (acc0 & Ha & Hf & Hc) Ho. exists acc0. cbn. repeat split; auto.
  - rewrite Ha, app_assoc. reflexivity.
  - intros E. rewrite Ho in E. discriminate.
Qed.

Lemma sq_write_good st acc r : sq_good st acc -> w_open st = true ->
  sq_good (fst (do_write batch ASqlite st r)) (acc ++ [r]) /\ snd (do_write batch ASqlite st r) = Ok.
Proof.
  intros G Ho. unfold do_write. rewrite Ho. cbn [negb]. cbv iota. split; [|reflexivity]. cbn [fst].
  set (st1 := if mem_desc (r_desc r) (w_seen st) then st else _).
  assert (G1 : sq_good st1 acc /\ w_open st1 = true).
  { subst st1. destruct (mem_desc (r_desc r) (w_seen st)); [auto|].
    destruct (sq_commit_good st acc G) as [(acc0 & Ha & Hf & Hc) B]. split; [|exact Ho].
    exists acc0. cbn in *. repeat split; auto. }
  destruct G1 as [G1 O1].
  pose proof (sq_add_buf st1 acc r (w_seen st1) (S (w_count st1)) G1 O1) as G2.
  match goal with |- sq_good (if ?c then _ else _) _ => destruct c end; [apply sq_commit_good|]; exact G2.
Qed.

Lemma sq_step_good st acc o :
  sq_good st acc -> sq_good (fst (step ASqlite st o)) (acc ++ newly o (snd (step ASqlite st o))).
Proof.
  intros G. destruct o; cbn [Writers.step].
  - destruct (w_open st) eqn:Ho.
    + destruct (sq_write_good st acc r G Ho) as [G1 O1]. rewrite O1. exact G1.
    + rewrite (closed_write ASqlite st r Ho). cbn. rewrite app_nil_r. exact G.
  - cbn [newly]. rewrite app_nil_r. apply sq_flush_good. exact G.
  - cbn [newly]. rewrite app_nil_r. apply sq_close_good. exact G.
  - cbn [newly]. rewrite app_nil_r. apply sq_calls_good. exact G.
  - cbn [newly]. rewrite app_nil_r. apply sq_calls_good. exact G.
  - cbn [newly]. rewrite app_nil_r. apply sq_calls_good. exact G.
Qed.

Lemma sq_run_good h : forall st acc, sq_good st acc ->
  sq_good (fst (run ASqlite st h)) (acc ++ snd (run ASqlite st h)).
Proof.
  induction h as [|o h IH]; intros st acc G.
  - cbn. rewrite app_nil_r. exact G.
  - rewrite run_cons. pose proof (sq_step_good st acc o G) as G1.
    destruct (step ASqlite st o) as [st' out]. cbn [fst snd] in G1.
    specialize (IH st' _ G1). destruct (run ASqlite st' h) as [s2 a2]. cbn [fst snd] in *.
    rewrite app_assoc. exact IH.
Qed.

Lemma durable_sqlite h : has_close h = true ->
  readable (w_file (fst (run ASqlite (w_init ASqlite) h))) = Some (sqlite_order (snd (run ASqlite (w_init ASqlite) h))).
Proof.
  intros Hc.
  assert (G0 : sq_good (w_init ASqlite) []) by (exists []; cbn; repeat split; auto).
  pose proof (sq_run_good h _ _ G0) as (acc0 & Ha & Hf & Hb).
  pose proof (has_close_closed ASqlite h (w_init ASqlite) Hc) as Hcl.
  rewrite (Hb Hcl), app_nil_r in Ha. cbn [app] in Ha. rewrite Hf. cbn. rewrite Ha. reflexivity.
Qed.

(* the SQLite reader returns the records table by table: a permutation of what was written *)
Lemma tbl_insert_perm r ts : Permutation (flat_map snd (tbl_insert r ts)) (flat_map snd ts ++ [r]).
Proof.
  induction ts as [|[d rows] ts IH]; cbn.
  - apply Permutation_refl.
  - destruct (N.eqb d (r_desc r)); cbn.
    + rewrite <- !app_assoc. apply Permutation_app_head. apply Permutation_app_comm.
    + rewrite <- app_assoc. apply Permutation_app_head. exact IH.
Qed.
Lemma tbl_insert_all_perm rs : forall ts, Permutation (flat_map snd (tbl_insert_all rs ts)) (flat_map snd ts ++ rs).
Proof.
  induction rs as [|r rs IH]; intros ts; cbn.
  - rewrite app_nil_r. apply Permutation_refl.
  - eapply Permutation_trans; [apply IH|].
    eapply Permutation_trans; [apply Permutation_app_tail; apply tbl_insert_perm|].
    rewrite <- app_assoc. apply Permutation_refl.
Qed.
Lemma sqlite_order_perm rs : Permutation (sqlite_order rs) rs.
Proof. unfold sqlite_order. apply (tbl_insert_all_perm rs []). Qed.

(* ---------------------------------------------------------------------------------------------- *)
(* avro                                                                                             *)

Definition av_good (st : wstate) (acc : list rec) : Prop :=
  (w_open st = true /\ w_adesc st = None /\ w_awr st = KNone /\ w_buf st = [] /\ w_file st = FileAvro KNone [] /\ acc = [])
  \/ (w_open st = true /\ exists d data, w_adesc st = Some d /\ w_awr st = KRec /\
                                      w_file st = FileAvro KRec data /\ acc = data ++ w_buf st)
  \/ (w_open st = false /\ readable (w_file st) = Some acc).

Lemma av_flush_good st acc : av_good st acc -> av_good (fst (do_flush AAvro st)) acc /\ snd (do_flush AAvro st) = Ok.
Proof.
  destruct (shapes_ok_inv2 sh SH) as (Hfp & _ & _).
  intros [(Ho & Hd & Hw & Hb & Hf & Ha) | [(Ho & d & data & Hd & Hw & Hf & Ha) | (Ho & Hr)]];
    cbn [Writers.do_flush]; unfold avro_flush; rewrite Hfp, Ho; try rewrite Hw; cbn [fst snd]; (split; [|reflexivity]).
  - left. repeat split; auto.
  - right. left. unfold avro_writer_flush. cbn. split; [exact Ho|]. exists d, (data ++ w_buf st).
    unfold avro_hdr, avro_data. rewrite Hf. rewrite app_nil_r. auto.
  - right. right. auto.
Qed.

Lemma av_close_good st acc : av_good st acc -> av_good (fst (do_close AAvro st)) acc.
Proof.
  destruct (shapes_ok_inv sh SH) as (_ & _ & Hav). destruct (shapes_ok_inv2 sh SH) as (Hfp & Hcp & _).
  intros [(Ho & Hd & Hw & Hb & Hf & Ha) | [(Ho & d & data & Hd & Hw & Hf & Ha) | (Ho & Hr)]];
    unfold Writers.do_close; rewrite Ho; cbn [negb]; cbv iota.
  - right. right. rewrite Hav, Hcp. unfold avro_flush, avro_install_placeholder. rewrite Hfp, Hw. cbn.
    unfold avro_hdr, avro_data. rewrite Hf, Hb. cbn. rewrite Ho. cbn. subst acc. auto.
  - right. right. rewrite Hav, Hcp. unfold avro_flush, avro_install_placeholder. rewrite Hfp, Hw, Ho, Hw. cbn.
    unfold avro_hdr, avro_data. rewrite Hf. cbn. rewrite Ha. auto.
  - right. right. auto.
Qed.

Lemma av_calls_good cs : forall st acc, av_good st acc -> av_good (fst (do_calls AAvro st cs)) acc.
Proof.
  induction cs as [|c cs IH]; intros st acc G; cbn; [exact G|].
  destruct c; cbn [do_call].
  - pose proof (av_flush_good st acc G) as [G1 O1]. destruct (do_flush AAvro st) as [s1 o1]. cbn in *. subst o1. auto.
  - pose proof (av_close_good st acc G) as G1. pose proof (do_close_closed AAvro st) as [_ O1].
    destruct (do_close AAvro st) as [s1 o1]. cbn in *. subst o1. auto.
Qed.

Lemma av_step_good st acc o :
  av_good st acc -> av_good (fst (step AAvro st o)) (acc ++ newly o (snd (step AAvro st o))).
Proof.
  intros G. destruct o; cbn [Writers.step].
  - destruct G as [(Ho & Hd & Hw & Hb & Hf & Ha) | [(Ho & d & data & Hd & Hw & Hf & Ha) | (Ho & Hr)]].
    + unfold do_write. rewrite Ho, Hd. cbn [negb]. cbv iota. unfold avro_hdr, avro_data. rewrite Hf. cbn [fst snd newly].
      right. left. cbn. split; [reflexivity|]. exists (r_desc r), []. rewrite Hb. subst acc. auto.
    + unfold do_write. rewrite Ho, Hd. cbn [negb]. cbv iota.
      destruct (N.eqb d (r_desc r)) eqn:E; try rewrite Hw; cbn.
      * right. left. split; [exact Ho|]. exists d, data. cbn. repeat split; auto. rewrite Ha, <- app_assoc. reflexivity.
      * rewrite app_nil_r. right. left. split; [exact Ho|]. exists d, data. auto.
    + rewrite (closed_write AAvro st r Ho). cbn. rewrite app_nil_r. right. right. auto.
  - cbn [newly]. rewrite app_nil_r. apply av_flush_good. exact G.
  - cbn [newly]. rewrite app_nil_r. apply av_close_good. exact G.
  - cbn [newly]. rewrite app_nil_r. apply av_calls_good. exact G.
  - cbn [newly]. rewrite app_nil_r. apply av_calls_good. exact G.
  - cbn [newly]. rewrite app_nil_r. apply av_calls_good. exact G.
Qed.

Lemma av_run_good h : forall st acc, av_good st acc ->
  av_good (fst (run AAvro st h)) (acc ++ snd (run AAvro st h)).
Proof.
  induction h as [|o h IH]; intros st acc G.
  - cbn. rewrite app_nil_r. exact G.
  - rewrite run_cons. pose proof (av_step_good st acc o G) as G1.
    destruct (step AAvro st o) as [st' out]. cbn [fst snd] in G1.
    specialize (IH st' _ G1). destruct (run AAvro st' h) as [s2 a2]. cbn [fst snd] in *.
    rewrite app_assoc. exact IH.
Qed.

Lemma durable_avro h : has_close h = true ->
  readable (w_file (fst (run AAvro (w_init AAvro) h))) = Some (snd (run AAvro (w_init AAvro) h)).
Proof.
  intros Hc.
  assert (G0 : av_good (w_init AAvro) []) by (left; repeat split; reflexivity).
  pose proof (av_run_good h _ _ G0) as G. cbn [app] in G.
  pose proof (has_close_closed AAvro h (w_init AAvro) Hc) as Hcl.
  destruct G as [(Ho & _) | [(Ho & _) | (_ & Hr)]]; [rewrite Ho in Hcl; discriminate | rewrite Ho in Hcl; discriminate | exact Hr].
Qed.

(* ---------------------------------------------------------------------------------------------- *)
(* all adapters                                                                                     *)

Theorem closed_means_durable k h :
  has_close h = true -> excluded k h = false ->
  w_open (fst (run k (w_init k) h)) = false /\
  readable (w_file (fst (run k (w_init k) h))) = Some (expected k (snd (run k (w_init k) h))).
Proof.
  intros Hc He. split; [apply has_close_closed; exact Hc|].
  destruct k; cbn [excluded expected] in *.
  - apply durable_stream; assumption.
  - apply durable_plain.
  - apply durable_avro; assumption.
  - apply durable_sqlite; assumption.
Qed.

End One.

(* ------------------------------------------------------------------------------------------------ *)
(* splitting by count                                                                                 *)

(* the specification: cut the sequence every [limit] records; [cur] = what the current part already holds.
   When the last record fills a part, a further (empty) part is opened: SplitWriter does exactly that. *)
Fixpoint chunks (limit : nat) (cur rs : list rec) : list (list rec) :=
  match rs with
  | [] => [cur]
  | r :: rs' =>
      let cur' := cur ++ [r] in
      if Nat.leb limit (List.length cur') then cur' :: chunks limit [] rs' else chunks limit cur' rs'
  end.

Lemma chunks_concat limit rs : forall cur, List.concat (chunks limit cur rs) = cur ++ rs.
Proof.
  induction rs as [|r rs IH]; intros cur; cbn.
  - rewrite !app_nil_r. reflexivity.
  - destruct (Nat.leb limit (List.length (cur ++ [r]))); cbn; rewrite IH, <- ?app_assoc; reflexivity.
Qed.

Lemma chunks_nonempty limit rs cur : chunks limit cur rs <> [].
Proof.
  revert cur. induction rs as [|r rs IH]; intros cur; cbn; [discriminate|].
  destruct (Nat.leb limit (List.length (cur ++ [r]))); [discriminate | apply IH].
Qed.

Lemma chunks_bounded limit rs : forall cur, List.length cur < limit ->
  Forall (fun c => List.length c <= limit) (chunks limit cur rs).
Proof.
  induction rs as [|r rs IH]; intros cur Hc; cbn.
  - constructor; [lia | constructor].
  - rewrite app_length. cbn. destruct (Nat.leb limit (List.length cur + 1)) eqn:E.
    + apply Nat.leb_le in E. constructor; [rewrite app_length; cbn; lia|]. apply IH. cbn. lia.
    + apply Nat.leb_gt in E. apply IH. rewrite app_length. cbn. lia.
Qed.

(* every part but the last is full *)
Lemma chunks_full limit rs : forall cur, List.length cur < limit ->
  Forall (fun c => List.length c = limit) (removelast (chunks limit cur rs)).
Proof.
  induction rs as [|r rs IH]; intros cur Hc; cbn [chunks].
  - cbn. constructor.
  - rewrite app_length. cbn [List.length]. destruct (Nat.leb limit (List.length cur + 1)) eqn:E.
    + apply Nat.leb_le in E. cbn [removelast].
      destruct (chunks limit [] rs) eqn:Ec; [exfalso; eapply chunks_nonempty; eauto|]. rewrite <- Ec.
      constructor; [rewrite app_length; cbn; lia|]. apply IH. cbn. lia.
    + apply Nat.leb_gt in E. apply IH. rewrite app_length. cbn. lia.
Qed.

Lemma chunks_count limit rs : forall cur, List.length cur < limit ->
  List.length (chunks limit cur rs) = (List.length cur + List.length rs) / limit + 1.
Proof.
  induction rs as [|r rs IH]; intros cur Hc; cbn [chunks List.length].
  - rewrite Nat.add_0_r, Nat.div_small by exact Hc. reflexivity.
  - rewrite app_length. cbn [List.length]. destruct (Nat.leb limit (List.length cur + 1)) eqn:E.
    + apply Nat.leb_le in E. cbn [List.length]. rewrite IH by (cbn; lia). cbn [List.length].
      assert (Hl : List.length cur + S (List.length rs) = 1 * limit + List.length rs) by lia.
      rewrite Hl, Nat.div_add_l by lia. cbn. lia.
    + apply Nat.leb_gt in E. rewrite IH by (rewrite app_length; cbn; lia). rewrite app_length. cbn [List.length].
      f_equal. f_equal. lia.
Qed.

(* the last part is empty exactly when the number of records is a multiple of the limit *)
Lemma chunks_last_empty limit rs : forall cur, List.length cur < limit ->
  (last (chunks limit cur rs) [] = [] <-> (List.length cur + List.length rs) mod limit = 0).
Proof.
  induction rs as [|r rs IH]; intros cur Hc; cbn [chunks List.length].
  - cbn [last]. rewrite Nat.add_0_r, Nat.mod_small by exact Hc. split.
    + intros ->. reflexivity.
    + intros H. destruct cur; [reflexivity | cbn in H; discriminate].
  - rewrite app_length. cbn [List.length]. destruct (Nat.leb limit (List.length cur + 1)) eqn:E.
    + apply Nat.leb_le in E.
      assert (Hl : List.length cur + S (List.length rs) = List.length rs + 1 * limit) by lia.
      rewrite Hl, Nat.mod_add by lia.
      destruct (chunks limit [] rs) eqn:Ec; [exfalso; eapply chunks_nonempty; eauto|]. rewrite <- Ec.
      assert (Hlast : last ((cur ++ [r]) :: chunks limit [] rs) [] = last (chunks limit [] rs) []).
      { rewrite Ec. reflexivity. }
      rewrite Hlast. apply (IH []). cbn. lia.
    + apply Nat.leb_gt in E.
      assert (Hl : List.length cur + S (List.length rs) = List.length (cur ++ [r]) + List.length rs)
        by (rewrite app_length; cbn; lia).
      rewrite Hl. apply IH. rewrite app_length. cbn. lia.
Qed.

(* indexed lists: part i of the split output *)
Fixpoint indexed {A} (a : nat) (l : list A) : list (nat * A) :=
  match l with [] => [] | x :: t => (a, x) :: indexed (S a) t end.

Lemma indexed_app {A} (l : list A) : forall a x, indexed a (l ++ [x]) = indexed a l ++ [(a + List.length l, x)].
Proof.
  induction l as [|y l IH]; intros a x; cbn.
  - rewrite Nat.add_0_r. reflexivity.
  - rewrite IH. replace (S a + List.length l) with (a + S (List.length l)) by lia. reflexivity.
Qed.
Lemma indexed_snd {A} (l : list A) : forall a, map snd (indexed a l) = l.
Proof. induction l as [|y l IH]; intros a; cbn; [|rewrite IH]; reflexivity. Qed.
Lemma indexed_fst {A} (l : list A) : forall a, map fst (indexed a l) = seq a (List.length l).
Proof. induction l as [|y l IH]; intros a; cbn; [|rewrite IH]; reflexivity. Qed.
Lemma fs_remove_indexed {A} (l : list A) : forall a n, a + List.length l <= n ->
  fs_remove Nat.eqb n (indexed a l) = indexed a l.
Proof.
  induction l as [|y l IH]; intros a n H; cbn in *; [reflexivity|].
  destruct (Nat.eqb n a) eqn:E; [apply Nat.eqb_eq in E; lia|]. rewrite IH by lia. reflexivity.
Qed.
Lemma fs_put_indexed {A} (l : list A) n x : n = List.length l ->
  fs_put Nat.eqb n x (indexed 0 l) = indexed 0 (l ++ [x]).
Proof.
  intros ->. unfold fs_put. rewrite fs_remove_indexed by lia. rewrite indexed_app. reflexivity.
Qed.

Definition always_accepts (k : adapter) : bool := match k with AAvro => false | _ => true end.

Section Split.
Variable sh : shapes.
Variable batch : nat.
Hypothesis SH : shapes_ok sh = true.
Hypothesis SSH : split_shapes_ok sh = true.
Variable k : adapter.
Hypothesis ACC : always_accepts k = true.
Variable limit : nat.
Hypothesis LIM : 0 < limit.

Notation run := (Writers.run sh batch).
Notation step := (Writers.step sh batch).
Notation do_flush := (Writers.do_flush sh).

(* how the inner writer of the LAST part is closed, for each way of closing the split writer *)
Definition inner_close (c : op) : list op :=
  if is_exit c then [Flush; Close] else [Close].

(* the file a fresh inner writer leaves after the records cs and the operations fin *)
Definition file_after (cs : list rec) (fin : list op) : file :=
  w_file (fst (run k (w_init k) (map Write cs ++ fin))).
Definition part_file (cs : list rec) : file := file_after cs [Flush; Close].

Lemma open_write_ok st r : w_open st = true ->
  snd (do_write batch k st r) = Ok /\ w_open (fst (do_write batch k st r)) = true.
Proof.
  intros Ho. unfold do_write. rewrite Ho. cbn [negb]. cbv iota. destruct k; try discriminate ACC; cbn.
  - unfold stream_write, stream_header. destruct (w_hdr st); cbn; auto.
  - auto.
  - split; [reflexivity|].
    match goal with |- w_open (if ?c then _ else _) = _ => destruct c end;
      cbn; destruct (mem_desc (r_desc r) (w_seen st)); cbn; exact Ho.
Qed.
Lemma open_flush_ok st : w_open st = true ->
  snd (do_flush k st) = Ok /\ w_open (fst (do_flush k st)) = true.
Proof.
  intros Ho. unfold Writers.do_flush. rewrite Ho. destruct k; try discriminate ACC; cbn; auto.
  unfold stream_header. destruct (w_hdr st); cbn; auto.
Qed.

Lemma run_writes cs : forall st, w_open st = true ->
  snd (run k st (map Write cs)) = cs /\ w_open (fst (run k st (map Write cs))) = true.
Proof.
  induction cs as [|r cs IH]; intros st Ho; cbn [map].
  - cbn. auto.
  - rewrite run_cons. cbn [Writers.step]. destruct (open_write_ok st r Ho) as [O1 Ho1].
    destruct (do_write batch k st r) as [st' out]. cbn [fst snd] in *. subst out.
    destruct (IH st' Ho1) as [A1 A2]. destruct (run k st' (map Write cs)) as [s2 a2]. cbn [fst snd newly] in *.
    subst a2. auto.
Qed.

(* the writer state after the records cs *)
Definition wafter (cs : list rec) : wstate := fst (run k (w_init k) (map Write cs)).

Lemma wafter_open cs : w_open (wafter cs) = true.
Proof. apply run_writes. destruct k; reflexivity. Qed.

Lemma wafter_snoc cs r : fst (do_write batch k (wafter cs) r) = wafter (cs ++ [r]).
Proof.
  unfold wafter. rewrite map_app, run_app. cbn [map].
  destruct (run k (w_init k) (map Write cs)) as [s1 a1]. cbn [fst].
  rewrite run_cons. cbn [Writers.step]. destruct (do_write batch k s1 r) as [s2 o2]. cbn. reflexivity.
Qed.

Lemma file_after_run cs fin : file_after cs fin = w_file (fst (run k (wafter cs) fin)).
Proof.
  unfold file_after, wafter. rewrite run_app. destruct (run k (w_init k) (map Write cs)) as [s1 a1]. cbn [fst].
  destruct (run k s1 fin) as [s2 a2]. reflexivity.
Qed.

(* the invariant of SplitWriter between two write() calls *)
Definition split_inv (st : sstate) (full : list (list rec)) (cur : list rec) : Prop :=
  s_cur st = Some (List.length full, wafter cur) /\
  s_written st = List.length cur /\ List.length cur < limit /\
  s_fc st = S (List.length full) /\
  s_done st = indexed 0 (map part_file full).

Lemma split_init_inv : split_inv (split_init k) [] [].
Proof. unfold split_inv, split_init, split_new. cbn. repeat split; auto. Qed.

Lemma split_write_inv st full cur r : split_inv st full cur ->
  exists st', split_write sh batch k limit false st r = (st', Ok) /\
    if Nat.leb limit (List.length (cur ++ [r]))
    then split_inv st' (full ++ [cur ++ [r]]) []
    else split_inv st' full (cur ++ [r]).
Proof.
  intros (Hc & Hw & Hl & Hf & Hd).
  destruct (split_shapes_ok_inv sh SSH) as (Hge & Hroll).
  unfold split_write. rewrite Hc.
  destruct (open_write_ok (wafter cur) r (wafter_open cur)) as [O1 Ho1].
  pose proof (wafter_snoc cur r) as Hs.
  destruct (do_write batch k (wafter cur) r) as [w' o1]. cbn [fst snd] in *. subst o1 w'.
  cbn [s_cur s_written s_fc s_done]. rewrite Hge, Hw.
  assert (Hlen : List.length (cur ++ [r]) = S (List.length cur)) by (rewrite app_length; cbn; lia).
  rewrite Hlen. destruct (Nat.leb limit (S (List.length cur))) eqn:E.
  - (* the part is full: flush, close, reset, next part *)
    rewrite Hroll. cbn [split_roll]. unfold split_flush. cbn [s_cur s_written s_fc s_done].
    destruct (open_flush_ok (wafter (cur ++ [r])) (wafter_open _)) as [O2 Ho2].
    destruct (do_flush k (wafter (cur ++ [r]))) as [w2 o2] eqn:E2. cbn [fst snd] in *. subst o2.
    unfold split_close. cbn [s_cur s_written s_fc s_done].
    pose proof (do_close_closed sh k w2) as [C3 O3].
    destruct (do_close sh k w2) as [w3 o3] eqn:E3. cbn [fst snd] in *. subst o3.
    cbn [s_cur s_written s_fc s_done]. unfold split_new. cbn [s_cur s_written s_fc s_done].
    eexists. split; [reflexivity|].
    assert (Hpf : w_file w3 = part_file (cur ++ [r])).
    { unfold part_file. rewrite file_after_run. cbn [Writers.run Writers.step]. rewrite E2, E3. reflexivity. }
    unfold split_inv. cbn [s_cur s_written s_fc s_done]. rewrite Hd, Hpf.
    rewrite fs_put_indexed by (rewrite map_length; reflexivity).
    rewrite fs_remove_indexed by (rewrite app_length, map_length; cbn; lia).
    rewrite app_length, map_app. cbn [List.length map]. rewrite Nat.add_1_r, Hf.
    repeat split; auto; try reflexivity; try lia.
  - eexists. split; [reflexivity|]. apply Nat.leb_gt in E.
    unfold split_inv. cbn [s_cur s_written s_fc s_done]. rewrite Hlen. repeat split; auto; try lia.
Qed.

(* closing the split writer: with-exit flushes the last part first *)
Lemma split_finish st full cur c : split_inv st full cur -> is_closing c = true ->
  exists st', split_step sh batch k limit false st c = (st', Ok) /\
    s_cur st' = None /\ s_done st' = indexed 0 (map part_file full ++ [file_after cur (inner_close c)]).
Proof.
  intros (Hc & Hw & Hl & Hf & Hd) Hcl. destruct (shapes_ok_inv sh SH) as (He & Hdel & _).
  destruct st as [scur swr sfc sdn]. cbn [s_cur s_written s_fc s_done] in *. subst scur.
  assert (Hclose : forall w, split_close sh k (mkS (Some (List.length full, w)) swr sfc sdn)
             = (mkS None swr sfc (indexed 0 (map part_file full ++ [w_file (fst (do_close sh k w))])), Ok)).
  { intros w. unfold split_close. cbn [s_cur s_written s_fc s_done].
    pose proof (do_close_closed sh k w) as [_ O3]. destruct (do_close sh k w) as [w3 o3]. cbn [fst snd] in *. subst o3.
    rewrite Hd, fs_put_indexed by (rewrite map_length; reflexivity). reflexivity. }
  pose proof (shapes_ok_exc sh SH) as Hx.
  destruct c; try discriminate Hcl; unfold inner_close; cbn [split_step is_exit].
  - rewrite Hclose. eexists. split; [reflexivity|]. cbn [s_cur s_done]. split; [reflexivity|].
    rewrite file_after_run. cbn [Writers.run Writers.step]. destruct (do_close sh k (wafter cur)); reflexivity.
  - rewrite He. cbn [split_calls]. unfold split_flush. cbn [s_cur s_written s_fc s_done].
    destruct (open_flush_ok (wafter cur) (wafter_open _)) as [O2 Ho2].
    destruct (do_flush k (wafter cur)) as [w2 o2] eqn:E2. cbn [fst snd] in *. subst o2.
    rewrite Hclose. eexists. split; [reflexivity|]. cbn [s_cur s_done]. split; [reflexivity|].
    rewrite file_after_run. cbn [Writers.run Writers.step]. rewrite E2. destruct (do_close sh k w2); reflexivity.
  - rewrite Hx. cbn [split_calls]. unfold split_flush. cbn [s_cur s_written s_fc s_done].
    destruct (open_flush_ok (wafter cur) (wafter_open _)) as [O2 Ho2].
    destruct (do_flush k (wafter cur)) as [w2 o2] eqn:E2. cbn [fst snd] in *. subst o2.
    rewrite Hclose. eexists. split; [reflexivity|]. cbn [s_cur s_done]. split; [reflexivity|].
    rewrite file_after_run. cbn [Writers.run Writers.step]. rewrite E2. destruct (do_close sh k w2); reflexivity.
  - rewrite Hdel. cbn [split_calls]. rewrite Hclose.
    eexists. split; [reflexivity|]. cbn [s_cur s_done]. split; [reflexivity|].
    rewrite file_after_run. cbn [Writers.run Writers.step]. destruct (do_close sh k (wafter cur)); reflexivity.
Qed.

(* the files the split writer leaves: one per chunk, index = position; the last one closed the way the split
   writer was closed *)
Definition split_spec_files (full : list (list rec)) (cur rs : list rec) (c : op) : list file :=
  map part_file (full ++ removelast (chunks limit cur rs)) ++ [file_after (last (chunks limit cur rs) []) (inner_close c)].

Lemma split_run_spec rs c : is_closing c = true -> forall st full cur, split_inv st full cur ->
  exists st', split_run sh batch k limit false st (map Write rs ++ [c]) = (st', rs) /\
    s_cur st' = None /\ s_done st' = indexed 0 (split_spec_files full cur rs c).
Proof.
  intros Hcl. induction rs as [|r rs IH]; intros st full cur Hi.
  - cbn [map app split_run]. destruct (split_finish st full cur c Hi Hcl) as (st' & Hs & Hn & Hd).
    rewrite Hs. exists st'. split; [destruct c; try discriminate Hcl; reflexivity|]. split; [exact Hn|].
    rewrite Hd. unfold split_spec_files. cbn. rewrite app_nil_r. reflexivity.
  - cbn [map app split_run split_step]. destruct (split_write_inv st full cur r Hi) as (st1 & Hs & Hi1).
    rewrite Hs. unfold split_spec_files. cbn [chunks].
    destruct (Nat.leb limit (List.length (cur ++ [r]))) eqn:E.
    + destruct (IH st1 _ _ Hi1) as (st' & Hr & Hn & Hd). rewrite Hr. exists st'. split; [reflexivity|].
      split; [exact Hn|]. rewrite Hd. unfold split_spec_files.
      destruct (chunks limit [] rs) eqn:Ec; [exfalso; eapply chunks_nonempty; eauto|]. rewrite <- Ec.
      assert (H1 : removelast ((cur ++ [r]) :: chunks limit [] rs) = (cur ++ [r]) :: removelast (chunks limit [] rs))
        by (rewrite Ec; reflexivity).
      assert (H2 : last ((cur ++ [r]) :: chunks limit [] rs) [] = last (chunks limit [] rs) [])
        by (rewrite Ec; reflexivity).
      rewrite H1, H2, <- app_assoc. reflexivity.
    + destruct (IH st1 _ _ Hi1) as (st' & Hr & Hn & Hd). rewrite Hr. exists st'. split; [reflexivity|].
      split; [exact Hn|]. exact Hd.
Qed.

End Split.

(* ------------------------------------------------------------------------------------------------ *)
(* raw concatenation of stream files                                                                  *)

Definition frames_of_file (f : file) : list frame := match f with FileStream fr => fr | _ => [] end.
Definition raw_concat (files : list file) : list frame := flat_map frames_of_file files.

(* a stream file that starts with the magic and reads back as c *)
Definition stream_file_of (f : file) (c : list rec) : Prop :=
  exists body reg, f = FileStream (FHdr :: body) /\ read_frames [] body = Some (reg, c).

Lemma raw_concat_frames files cs : Forall2 stream_file_of files cs ->
  forall reg0, exists reg', read_frames reg0 (raw_concat files) = Some (reg', List.concat cs).
Proof.
  induction 1 as [|f c files cs (body & reg & Hf & Hr) _ IH]; intros reg0; cbn.
  - eauto.
  - subst f. cbn. rewrite read_frames_app.
    destruct (read_frames_mono body [] reg c reg0 Hr) as (reg2 & H2 & _); [intros d Hd; discriminate|].
    rewrite H2. destruct (IH reg2) as (reg3 & H3). fold (raw_concat files). rewrite H3. eauto.
Qed.

Lemma raw_concat_stream files cs : Forall2 stream_file_of files cs -> files <> [] ->
  read_stream (raw_concat files) = Some (List.concat cs).
Proof.
  intros H Hne. destruct (raw_concat_frames files cs H []) as (reg' & Hr).
  destruct H as [|f c files cs (body & reg & Hf & Hb) Hrest]; [congruence|].
  subst f. cbn in *. rewrite Hr. reflexivity.
Qed.

Lemma Forall2_map_self {A B} (P : B -> A -> Prop) (f : A -> B) (l : list A) :
  (forall x, P (f x) x) -> Forall2 P (map f l) l.
Proof. intros H. induction l; cbn; constructor; auto. Qed.

Section SplitTop.
Variable sh : shapes.
Variable batch : nat.
Hypothesis SH : shapes_ok sh = true.
Hypothesis SSH : split_shapes_ok sh = true.
Variable k : adapter.
Hypothesis ACC : always_accepts k = true.
Variable limit : nat.
Hypothesis LIM : 0 < limit.

Notation run := (Writers.run sh batch).
Notation fa := (file_after sh batch k).
Notation pf := (part_file sh batch k).

Lemma has_close_app h1 h2 : has_close (h1 ++ h2) = has_close h1 || has_close h2.
Proof. apply existsb_app. Qed.
Lemma has_close_writes cs : has_close (map Write cs) = false.
Proof. induction cs; cbn; auto. Qed.

Lemma run_writes_fin cs fin : (forall o, In o fin -> forall r, o <> Write r) ->
  snd (run k (w_init k) (map Write cs ++ fin)) = cs.
Proof.
  intros Hfin. rewrite run_app.
  destruct (run_writes sh batch k ACC cs (w_init k)) as [A1 _]; [destruct k; reflexivity|].
  destruct (run k (w_init k) (map Write cs)) as [s1 a1]. cbn [snd] in A1. subst a1.
  assert (Hn : forall st, snd (run k st fin) = []).
  { induction fin as [|o fin IH]; intros st; [reflexivity|]. rewrite run_cons.
    destruct (Writers.step sh batch k st o) as [st' out]. specialize (IH (fun o' Ho' => Hfin o' (or_intror Ho')) st').
    destruct (run k st' fin) as [s2 a2]. cbn [snd] in *. subst a2.
    destruct o; try reflexivity. exfalso. eapply (Hfin (Write r)); [left|]; reflexivity. }
  specialize (Hn s1). destruct (run k s1 fin) as [s2 a2]. cbn [snd] in *. subst. apply app_nil_r.
Qed.

(* a part closed after a flush is always readable; a part closed without one is, unless it is an empty stream *)
Lemma file_after_readable cs fin :
  fin = [Flush; Close] \/ (fin = [Close] /\ (k <> AStream \/ cs <> [])) ->
  readable (fa cs fin) = Some (expected k cs).
Proof.
  intros Hfin. unfold file_after.
  assert (Hnw : forall o, In o fin -> forall r, o <> Write r).
  { intros o Ho r. destruct Hfin as [-> | [-> _]]; cbn in Ho; intuition (subst; discriminate). }
  assert (Hc : has_close (map Write cs ++ fin) = true).
  { rewrite has_close_app, has_close_writes. destruct Hfin as [-> | [-> _]]; reflexivity. }
  assert (He : excluded k (map Write cs ++ fin) = false).
  { destruct k; try reflexivity; try discriminate ACC. cbn [excluded].
    destruct cs as [|r cs]; cbn; [|reflexivity].
    destruct Hfin as [-> | [-> [Hk | Hcs]]]; [reflexivity | congruence | congruence]. }
  destruct (closed_means_durable sh batch SH k _ Hc He) as [_ R]. rewrite R. rewrite run_writes_fin by exact Hnw.
  reflexivity.
Qed.

Lemma file_after_stream_file cs fin : k = AStream ->
  fin = [Flush; Close] \/ (fin = [Close] /\ cs <> []) ->
  stream_file_of (fa cs fin) cs.
Proof.
  intros Hk Hfin. unfold file_after.
  assert (Hnw : forall o, In o fin -> forall r, o <> Write r).
  { intros o Ho r. destruct Hfin as [-> | [-> _]]; cbn in Ho; intuition (subst; discriminate). }
  assert (Hne : map Write cs ++ fin <> []).
  { destruct Hfin as [-> | [-> _]]; destruct cs; discriminate. }
  assert (He : bare_close_first (map Write cs ++ fin) = false).
  { destruct cs as [|r cs]; cbn; [|reflexivity]. destruct Hfin as [-> | [-> Hcs]]; [reflexivity | congruence]. }
  assert (G : stream_good (fst (run k (w_init k) (map Write cs ++ fin))) (snd (run k (w_init k) (map Write cs ++ fin)))).
  { rewrite Hk. apply (stream_init_run_good sh batch SH _ Hne He). }
  destruct G as (_ & body & Hf & Hr). rewrite run_writes_fin in Hr by exact Hnw.
  exists body, (w_seen (fst (run k (w_init k) (map Write cs ++ fin)))). split; assumption.
Qed.

(* The split writer, fed rs and then closed by c (close / with-exit / del), leaves exactly these files: *)
Definition split_result (rs : list rec) (c : op) : sstate * list rec :=
  split_run sh batch k limit false (split_init k) (map Write rs ++ [c]).
Definition split_parts (rs : list rec) : list (list rec) := chunks limit [] rs.
Definition last_part_ok (rs : list rec) (c : op) : Prop :=
  is_exit c = true \/ k <> AStream \/ List.length rs mod limit <> 0.

Theorem split_files_spec rs c : is_closing c = true ->
  snd (split_result rs c) = rs /\
  split_files (fst (split_result rs c)) =
    indexed 0 (map pf (removelast (split_parts rs)) ++ [fa (last (split_parts rs) []) (inner_close c)]).
Proof.
  intros Hc. unfold split_result.
  destruct (split_run_spec sh batch SH SSH k ACC limit LIM rs c Hc _ [] [] (split_init_inv sh batch k limit LIM))
    as (st' & Hr & Hn & Hd).
  rewrite Hr. cbn [fst snd]. split; [reflexivity|]. unfold split_files. rewrite Hn, Hd, app_nil_r.
  unfold split_spec_files, split_parts. cbn [app]. reflexivity.
Qed.

Theorem split_parts_spec rs :
  List.concat (split_parts rs) = rs /\
  Forall (fun c => List.length c <= limit) (split_parts rs) /\
  Forall (fun c => List.length c = limit) (removelast (split_parts rs)) /\
  List.length (split_parts rs) = List.length rs / limit + 1 /\
  (last (split_parts rs) [] = [] <-> List.length rs mod limit = 0).
Proof.
  unfold split_parts. repeat split.
  - apply (chunks_concat limit rs []).
  - apply chunks_bounded. exact LIM.
  - apply chunks_full. exact LIM.
  - apply (chunks_count limit rs []). exact LIM.
  - apply (chunks_last_empty limit rs []). exact LIM.
  - apply (chunks_last_empty limit rs []). exact LIM.
Qed.

Lemma inner_close_cases c : is_closing c = true ->
  (is_exit c = true /\ inner_close c = [Flush; Close]) \/ (is_exit c = false /\ inner_close c = [Close]).
Proof. unfold inner_close. destruct c; try discriminate; intros _; cbn; auto. Qed.

(* every part is readable on its own and holds its chunk *)
Theorem split_parts_readable rs c : is_closing c = true -> last_part_ok rs c ->
  Forall2 (fun f cs => readable f = Some (expected k cs))
          (map snd (split_files (fst (split_result rs c)))) (split_parts rs).
Proof.
  intros Hc Hok. destruct (split_files_spec rs c Hc) as [_ Hf]. rewrite Hf, indexed_snd.
  destruct (split_parts_spec rs) as (_ & _ & _ & _ & Hlast).
  assert (Hne : split_parts rs <> []) by apply chunks_nonempty.
  rewrite (app_removelast_last [] Hne) at 3.
  apply Forall2_app.
  - apply Forall2_map_self. intros x. apply file_after_readable. left. reflexivity.
  - constructor; [|constructor]. apply file_after_readable.
    destruct (inner_close_cases c Hc) as [[_ ->] | [Hne' ->]]; [left; reflexivity|]. right. split; [reflexivity|].
    destruct Hok as [Hw | [Hk | Hm]]; [congruence | left; exact Hk | right]. intros E. apply Hm. apply Hlast. exact E.
Qed.

(* stream parts: the raw concatenation of the part files, in order, is a record stream holding rs *)
Theorem split_raw_concat rs c : k = AStream -> is_closing c = true ->
  is_exit c = true \/ List.length rs mod limit <> 0 ->
  read_stream (raw_concat (map snd (split_files (fst (split_result rs c))))) = Some rs.
Proof.
  intros Hk Hc Hok. destruct (split_files_spec rs c Hc) as [_ Hf]. rewrite Hf, indexed_snd.
  destruct (split_parts_spec rs) as (Hcat & _ & _ & _ & Hlast).
  assert (Hne : split_parts rs <> []) by apply chunks_nonempty.
  replace (Some rs) with (Some (List.concat (removelast (split_parts rs) ++ [last (split_parts rs) []])))
    by (rewrite <- (app_removelast_last [] Hne), Hcat; reflexivity).
  apply raw_concat_stream.
  - apply Forall2_app.
    + apply Forall2_map_self. intros x. apply file_after_stream_file; [exact Hk | left; reflexivity].
    + constructor; [|constructor]. apply file_after_stream_file; [exact Hk|].
      destruct (inner_close_cases c Hc) as [[_ ->] | [Hne' ->]]; [left; reflexivity|]. right. split; [reflexivity|].
      destruct Hok as [Hw | Hm]; [congruence|]. intros E. apply Hm. apply Hlast. exact E.
  - intros E. apply app_eq_nil in E. destruct E as [_ E]. discriminate.
Qed.

End SplitTop.

(* ------------------------------------------------------------------------------------------------ *)
(* the abstract filesystem with string keys                                                           *)

Section FsString.
Context {V : Type}.
Notation fs := (list (string * V)).
Notation keys := (map (@fst string V)).

Lemma fs_mem_false p (l : fs) : fs_mem String.eqb p l = false <-> ~ In p (keys l).
Proof.
  unfold fs_mem. induction l as [|[q v] l IH]; cbn; [tauto|].
  destruct (String.eqb_spec p q) as [->|Hne]; cbn.
  - split; [discriminate | intros H; exfalso; apply H; left; reflexivity].
  - rewrite IH. split; [intros H [E|E]; [congruence | tauto] | tauto].
Qed.
Lemma fs_mem_true p (l : fs) : fs_mem String.eqb p l = true <-> In p (keys l).
Proof.
  destruct (fs_mem String.eqb p l) eqn:E.
  - split; [intros _|reflexivity]. destruct (in_dec string_dec p (keys l)) as [H|H]; [exact H|].
    apply fs_mem_false in H. congruence.
  - apply fs_mem_false in E. split; [discriminate | tauto].
Qed.
Lemma fs_remove_notin p (l : fs) : ~ In p (keys l) -> fs_remove String.eqb p l = l.
Proof.
  induction l as [|[q v] l IH]; cbn; [reflexivity|]. intros H.
  destruct (String.eqb_spec p q) as [->|Hne]; [exfalso; apply H; left; reflexivity|].
  rewrite IH by tauto. reflexivity.
Qed.
Lemma fs_remove_keys p (l : fs) q : In q (keys (fs_remove String.eqb p l)) <-> In q (keys l) /\ q <> p.
Proof.
  induction l as [|[x v] l IH]; cbn; [tauto|].
  destruct (String.eqb_spec p x) as [->|Hne]; cbn; rewrite IH; split.
  - tauto.
  - intros [[E|H] Hq]; [congruence | tauto].
  - intros [E|[H Hq]]; [subst; split; [left; reflexivity | congruence] | tauto].
  - tauto.
Qed.
Lemma fs_remove_nodup p (l : fs) : NoDup (keys l) -> NoDup (keys (fs_remove String.eqb p l)).
Proof.
  induction l as [|[x v] l IH]; cbn; [auto|]. intros H. inversion H as [|? ? Hx Hl]; subst.
  destruct (String.eqb_spec p x) as [->|Hne]; cbn; [auto|]. constructor; [|auto].
  rewrite fs_remove_keys. tauto.
Qed.
Lemma fs_get_some p (l : fs) : In p (keys l) -> exists v, fs_get String.eqb p l = Some v.
Proof.
  induction l as [|[x v] l IH]; cbn; [tauto|]. intros H.
  destruct (String.eqb_spec p x) as [->|Hne]; [eauto|]. apply IH. destruct H; [congruence | assumption].
Qed.
Lemma fs_get_in p (l : fs) v : fs_get String.eqb p l = Some v -> In (p, v) l.
Proof.
  induction l as [|[x w] l IH]; cbn; [discriminate|].
  destruct (String.eqb_spec p x) as [->|Hne]; intros H; [inversion H; subst; left; reflexivity | right; auto].
Qed.
(* with unique names, looking a file up and removing it splits the filesystem *)
Lemma fs_get_remove_perm p (l : fs) v : NoDup (keys l) -> fs_get String.eqb p l = Some v ->
  Permutation l ((p, v) :: fs_remove String.eqb p l).
Proof.
  induction l as [|[x w] l IH]; cbn; [discriminate|]. intros Hn H. inversion Hn as [|? ? Hx Hl]; subst.
  destruct (String.eqb_spec p x) as [->|Hne].
  - inversion H; subst. rewrite fs_remove_notin by exact Hx. apply Permutation_refl.
  - eapply Permutation_trans; [apply perm_skip; apply IH; assumption|]. apply perm_swap.
Qed.
Lemma fs_remove_in p (l : fs) kv : In kv (fs_remove String.eqb p l) -> In kv l.
Proof.
  induction l as [|[x w] l IH]; cbn; [tauto|].
  destruct (String.eqb_spec p x) as [->|Hne]; cbn; [tauto|]. intros [E|H]; [left; exact E | right; auto].
Qed.
Lemma fs_put_fresh p v (l : fs) : ~ In p (keys l) -> fs_put String.eqb p v l = l ++ [(p, v)].
Proof. intros H. unfold fs_put. rewrite fs_remove_notin by exact H. reflexivity. Qed.
Lemma keys_app (a b : fs) : keys (a ++ b) = keys a ++ keys b.
Proof. apply map_app. Qed.
Lemma nodup_snoc (l : list string) x : NoDup l -> ~ In x l -> NoDup (l ++ [x]).
Proof.
  induction l as [|y l IH]; cbn; intros Hl Hx.
  - constructor; [tauto | constructor].
  - inversion Hl; subst. constructor.
    + rewrite in_app_iff. cbn. intros [H|[H|[]]]; [tauto | subst; tauto].
    + apply IH; tauto.
Qed.
End FsString.

(* ------------------------------------------------------------------------------------------------ *)
(* PathTemplateWriter: rotation keeps everything as long as no rename replaces an existing file       *)

Definition seg := (path * list rec)%type.

(* the maximal runs of consecutive writes that go to the same path: one output file each *)
Definition seg_step (cc : list seg * option seg) (pr : path * rec) : list seg * option seg :=
  match snd cc with
  | None => (fst cc, Some (fst pr, [snd pr]))
  | Some (p0, rs) =>
      if String.eqb p0 (fst pr) then (fst cc, Some (p0, rs ++ [snd pr]))
      else (fst cc ++ [(p0, rs)], Some (fst pr, [snd pr]))
  end.
Definition seg_run (cc : list seg * option seg) (ws : list (path * rec)) : list seg * option seg :=
  fold_left seg_step ws cc.
Definition all_segs (cc : list seg * option seg) : list seg :=
  fst cc ++ match snd cc with Some sg => [sg] | None => [] end.
Definition segs (ws : list (path * rec)) : list seg := all_segs (seg_run ([], None) ws).

Lemma seg_run_records ws : forall cc,
  List.concat (map snd (all_segs (seg_run cc ws))) = List.concat (map snd (all_segs cc)) ++ map snd ws.
Proof.
  induction ws as [|[p r] ws IH]; intros cc; cbn [seg_run fold_left map].
  - rewrite app_nil_r. reflexivity.
  - fold (seg_run (seg_step cc (p, r)) ws). rewrite IH. destruct cc as [cl [[p0 rs]|]]; unfold seg_step, all_segs; cbn [fst snd].
    + destruct (String.eqb p0 p); cbn [fst snd]; rewrite !map_app, !concat_app; cbn; rewrite ?app_nil_r, <- ?app_assoc; reflexivity.
    + rewrite !map_app, !concat_app. cbn. rewrite !app_nil_r, <- app_assoc. reflexivity.
Qed.

Lemma segs_records ws : List.concat (map snd (segs ws)) = map snd ws.
Proof. unfold segs. rewrite seg_run_records. reflexivity. Qed.

Definition segs_nonempty (cc : list seg * option seg) : Prop := Forall (fun sg => snd sg <> []) (all_segs cc).
Lemma seg_run_nonempty ws : forall cc, segs_nonempty cc -> segs_nonempty (seg_run cc ws).
Proof.
  induction ws as [|[p r] ws IH]; intros cc H; [exact H|]. cbn [seg_run fold_left]. apply IH.
  unfold segs_nonempty, all_segs, seg_step in *. destruct cc as [cl [[p0 rs]|]]; cbn [fst snd] in *.
  - apply Forall_app in H. destruct H as [H1 H2]. destruct (String.eqb p0 p); cbn [fst snd].
    + apply Forall_app. split; [exact H1|]. constructor; [|constructor]. cbn. destruct rs; discriminate.
    + apply Forall_app. split; [apply Forall_app; split; assumption|]. constructor; [discriminate | constructor].
  - apply Forall_app. split; [apply Forall_app in H; tauto|]. constructor; [discriminate | constructor].
Qed.
Lemma segs_all_nonempty ws : Forall (fun sg => snd sg <> []) (segs ws).
Proof. apply (seg_run_nonempty ws ([], None)). constructor. Qed.

Section Rotation.
Variable sh : shapes.
Variable batch : nat.
Hypothesis SH : shapes_ok sh = true.
Variable rot_name : path -> stamp -> nat -> path.
(* distinct counters give distinct names *)
Hypothesis ROT_INJ : forall p s n m, rot_name p s n = rot_name p s m -> n = m.
Variable k : adapter.
Hypothesis ACC : always_accepts k = true.

Notation wafter := (wafter sh batch k).
Notation pt_write := (Writers.pt_write sh batch rot_name k).
Notation pt_run := (Writers.pt_run sh batch rot_name k).

(* the file of one segment once its writer has been closed (PathTemplateWriter never flushes: close only) *)
Definition seg_file (rs : list rec) : file := file_after sh batch k rs [Close].

Lemma seg_file_close rs : w_file (fst (do_close sh k (wafter rs))) = seg_file rs.
Proof.
  unfold seg_file. rewrite file_after_run. cbn [Writers.run Writers.step].
  destruct (do_close sh k (wafter rs)). reflexivity.
Qed.

(* the free-name search finds a free name: of (number of files + 1) distinct candidates one is not a file *)
Lemma pick_name_fresh files p s : forall fuel n,
  (exists m, n <= m <= n + fuel /\ fs_mem String.eqb (rot_name p s m) files = false) ->
  fs_mem String.eqb (pick_name rot_name files p s fuel n) files = false.
Proof.
  induction fuel as [|fuel IH]; intros n (m & Hm & Hf); cbn [pick_name].
  - assert (m = n) by lia. subst m. rewrite Hf. exact Hf.
  - destruct (fs_mem String.eqb (rot_name p s n) files) eqn:E; [|exact E].
    apply IH. exists m. split; [|exact Hf].
    assert (m <> n) by (intros ->; congruence). lia.
Qed.

Lemma some_candidate_free (files : list (path * file)) p s :
  exists m, m <= List.length files /\ fs_mem String.eqb (rot_name p s m) files = false.
Proof.
  assert (Hdec : forall b, (forall m, m <= b -> fs_mem String.eqb (rot_name p s m) files = true) \/
                           (exists m, m <= b /\ fs_mem String.eqb (rot_name p s m) files = false)).
  { induction b as [|b IH].
    - destruct (fs_mem String.eqb (rot_name p s 0) files) eqn:E.
      + left. intros m Hm. assert (m = 0) by lia. subst. exact E.
      + right. exists 0. auto.
    - destruct IH as [IH|(m & Hm & Hf)]; [|right; exists m; split; [lia | exact Hf]].
      destruct (fs_mem String.eqb (rot_name p s (S b)) files) eqn:E.
      + left. intros m Hm. destruct (Nat.eq_dec m (S b)) as [->|Hne]; [exact E | apply IH; lia].
      + right. exists (S b). auto. }
  destruct (Hdec (List.length files)) as [Hall|Hex]; [exfalso | exact Hex].
  set (cands := map (rot_name p s) (seq 0 (S (List.length files)))).
  assert (Hnd : NoDup cands).
  { apply FinFun.Injective_map_NoDup; [intros x y; apply ROT_INJ | apply seq_NoDup]. }
  assert (Hincl : incl cands (map fst files)).
  { intros c Hc. apply in_map_iff in Hc. destruct Hc as (m & <- & Hm). apply in_seq in Hm.
    apply fs_mem_true. apply Hall. lia. }
  pose proof (NoDup_incl_length Hnd Hincl) as Hlen. unfold cands in Hlen. rewrite !map_length, seq_length in Hlen. lia.
Qed.

Lemma pick_name_free files p s :
  fs_mem String.eqb (pick_name rot_name files p s (List.length files) 0) files = false.
Proof.
  apply pick_name_fresh. destruct (some_candidate_free files p s) as (m & Hm & Hf). exists m. split; [lia | exact Hf].
Qed.

(* a name obtained from p by zero or more rotations *)
Inductive rot_of : path -> path -> Prop :=
| rot_refl p : rot_of p p
| rot_step p n s c : rot_of p n -> rot_of p (rot_name n s c).

Lemma pick_name_is_rot files p s : forall fuel n, exists c, pick_name rot_name files p s fuel n = rot_name p s c.
Proof.
  induction fuel as [|fuel IH]; intros n; cbn [pick_name];
    destruct (fs_mem String.eqb (rot_name p s n) files); eauto.
Qed.

Variable pre : list (path * file).          (* the files that exist before the writer starts *)
Hypothesis PRE : NoDup (map fst pre).

Definition seg_entry (sg : seg) : path * file := (fst sg, seg_file (snd sg)).

(* where a file on disk comes from: a pre-existing file or a segment, under its own name or a rotation of it *)
Definition origin (closed : list seg) (nf : path * file) : Prop :=
  exists p, (In (p, snd nf) pre \/ In (p, snd nf) (map seg_entry closed)) /\ rot_of p (fst nf).

Lemma origin_mono closed sg nf : origin closed nf -> origin (closed ++ [sg]) nf.
Proof.
  intros (p & [H|H] & Hr); exists p; (split; [|exact Hr]); [left; exact H | right].
  rewrite map_app, in_app_iff. left. exact H.
Qed.

Definition no_overwrite (e : rename_event) : Prop := ren_dst_existed e = false.

Definition pt_inv (st : pstate) (closed : list seg) (cur : option seg) : Prop :=
  NoDup (map fst (p_fs st)) /\
  Permutation (map snd (p_fs st)) (map snd pre ++ map (fun sg => seg_file (snd sg)) closed) /\
  Forall (origin closed) (p_fs st) /\
  Forall no_overwrite (p_log st) /\
  match cur with
  | None => p_current st = None /\ p_writer st = None
  | Some (p, rs) => p_current st = Some p /\ p_writer st = Some (wafter rs) /\ ~ In p (map fst (p_fs st))
  end.

Lemma pt_init_inv clock : pt_inv (pt_init pre clock) [] None.
Proof.
  unfold pt_inv, pt_init. cbn. repeat split; auto.
  - rewrite app_nil_r. apply Permutation_refl.
  - apply Forall_forall. intros [p f] Hin. exists p. split; [left; exact Hin | apply rot_refl].
Qed.

(* rotate_existing_file: the destination is a free name, so the rename replaces nothing *)
Lemma pt_rotate_spec st p closed :
  NoDup (map fst (p_fs st)) -> Forall (origin closed) (p_fs st) -> Forall no_overwrite (p_log st) ->
  let st1 := pt_rotate sh rot_name st p in
  p_current st1 = p_current st /\ p_writer st1 = p_writer st /\
  NoDup (map fst (p_fs st1)) /\ Permutation (map snd (p_fs st1)) (map snd (p_fs st)) /\
  Forall (origin closed) (p_fs st1) /\ ~ In p (map fst (p_fs st1)) /\
  (forall q, In q (map fst (p_fs st1)) -> In q (map fst (p_fs st)) \/ ~ In q (map fst (pt_files st))) /\
  Forall no_overwrite (p_log st1).
Proof.
  intros Hn Ho Hlog. destruct (shapes_ok_inv2 sh SH) as (_ & _ & Hrc).
  unfold pt_rotate in *. rewrite Hrc. destruct (fs_mem String.eqb p (p_fs st)) eqn:Em; cbn zeta.
  - cbn [p_current p_writer p_fs p_log] in *.
    set (s := hd EmptyString (p_clock st)) in *.
    set (dst := pick_name rot_name (pt_files st) p s (List.length (pt_files st)) 0) in *.
    pose proof (pick_name_free (pt_files st) p s) as Hfree. fold dst in Hfree.
    pose proof Hfree as He. apply fs_mem_false in He.
    assert (Hd : ~ In dst (map fst (p_fs st))).
    { intros H. apply He. unfold pt_files. rewrite map_app, in_app_iff. left. exact H. }
    apply fs_mem_true in Em. destruct (fs_get_some p (p_fs st) Em) as [v Hv].
    unfold fs_rename. rewrite Hv.
    assert (Hd2 : ~ In dst (map fst (fs_remove String.eqb p (p_fs st)))) by (rewrite fs_remove_keys; tauto).
    rewrite fs_put_fresh by exact Hd2.
    pose proof (fs_get_remove_perm p (p_fs st) v Hn Hv) as Hp.
    repeat split; auto.
    + rewrite map_app. cbn. apply nodup_snoc; [apply fs_remove_nodup; exact Hn | exact Hd2].
    + rewrite map_app. cbn. eapply Permutation_trans; [apply Permutation_app_comm|]. cbn.
      apply Permutation_sym. apply (Permutation_map snd) in Hp. exact Hp.
    + apply Forall_app. split.
      * apply Forall_forall. intros kv Hin. apply fs_remove_in in Hin.
        rewrite Forall_forall in Ho. apply Ho. exact Hin.
      * constructor; [|constructor]. rewrite Forall_forall in Ho.
        destruct (Ho (p, v) (fs_get_in p _ v Hv)) as (q & Hq & Hr). exists q. cbn [fst snd] in *. split; [exact Hq|].
        destruct (pick_name_is_rot (pt_files st) p s (List.length (pt_files st)) 0) as [c Hc]. fold dst in Hc. rewrite Hc.
        apply rot_step. exact Hr.
    + rewrite map_app, in_app_iff, fs_remove_keys. cbn. intros [[_ H]|[H|[]]]; [congruence|].
      apply Hd. rewrite H. exact Em.
    + intros q. rewrite map_app, in_app_iff, fs_remove_keys. cbn. intros [[H _]|[H|[]]]; [left; exact H|].
      right. subst q. exact He.
    + apply Forall_app. split; [exact Hlog|]. constructor; [|constructor]. unfold no_overwrite. cbn. exact Hfree.
  - apply fs_mem_false in Em. repeat split; auto.
Qed.

Lemma wafter_nil : wafter [] = w_init k.
Proof. reflexivity. Qed.

Lemma pt_inv_write_current st closed p rs r : pt_inv st closed (Some (p, rs)) ->
  snd (pt_write st p r) = Ok /\ pt_inv (fst (pt_write st p r)) closed (Some (p, rs ++ [r])).
Proof.
  intros (Hn & Hp & Ho & Hl & Hc & Hw & Hnin). unfold Writers.pt_write. rewrite Hc, String.eqb_refl, Hw.
  destruct (open_write_ok batch k ACC (wafter rs) r (wafter_open sh batch k ACC rs)) as [O1 _].
  pose proof (wafter_snoc sh batch k rs r) as Hs.
  destruct (do_write batch k (wafter rs) r) as [w' o1]. cbn [fst snd] in *. subst. split; [reflexivity|].
  unfold pt_inv. cbn [p_fs p_current p_writer p_log]. repeat split; auto.
Qed.

(* record_stream_for_path for a new path, then the write *)
Lemma pt_inv_write_switch st closed cur p r :
  pt_inv st closed cur ->
  match cur with Some (p0, _) => p0 <> p | None => True end ->
  snd (pt_write st p r) = Ok /\
  pt_inv (fst (pt_write st p r)) (closed ++ match cur with Some sg => [sg] | None => [] end) (Some (p, [r])).
Proof.
  intros (Hn & Hp & Ho & Hl & Hcur) Hne.
  assert (Hsw : fst (pt_write st p r) =
                (let st1 := pt_switch sh rot_name k st p in
                 mkP (p_current st1) (Some (wafter [r])) (p_fs st1) (p_clock st1) (p_log st1))
                /\ snd (pt_write st p r) = Ok).
  { unfold Writers.pt_write.
    assert (Hst1 : (match p_current st with
                    | Some p0 => if String.eqb p0 p then st else pt_switch sh rot_name k st p
                    | None => pt_switch sh rot_name k st p end) = pt_switch sh rot_name k st p).
    { destruct cur as [[p0 rs]|].
      - destruct Hcur as (Hc & _ & _). rewrite Hc. destruct (String.eqb_spec p0 p); [congruence | reflexivity].
      - destruct Hcur as (Hc & _). rewrite Hc. reflexivity. }
    rewrite Hst1. assert (Hpw : p_writer (pt_switch sh rot_name k st p) = Some (w_init k)) by reflexivity. rewrite Hpw.
    destruct (open_write_ok batch k ACC (w_init k) r) as [O1 _]; [destruct k; reflexivity|].
    pose proof (wafter_snoc sh batch k [] r) as Hs. rewrite wafter_nil in Hs. cbn [app] in Hs.
    destruct (do_write batch k (w_init k) r) as [w' o1]. cbn [fst snd] in *. subst. split; reflexivity. }
  destruct Hsw as [Hfst Hsnd]. split; [exact Hsnd|]. rewrite Hfst in *. cbn zeta in *.
  unfold pt_switch in *. cbn [p_log p_fs p_current p_clock p_writer] in *.
  destruct (pt_rotate_spec st p closed Hn Ho Hl) as (Hc1 & Hw1 & Hn1 & Hp1 & Ho1 & Hnp & Hq & Hl1).
  set (st1 := pt_rotate sh rot_name st p) in *.
  destruct cur as [[p0 rs]|].
  - destruct Hcur as (Hc & Hw & Hnin). rewrite Hc, Hw in *.
    assert (Hp0 : ~ In p0 (map fst (p_fs st1))).
    { intros H. destruct (Hq p0 H) as [H1|H1]; [tauto|]. apply H1. unfold pt_files. rewrite Hc, Hw, map_app, in_app_iff.
      right. left. reflexivity. }
    rewrite seg_file_close. rewrite fs_put_fresh by exact Hp0.
    rewrite fs_remove_notin by (rewrite map_app, in_app_iff; cbn; intros [H|[H|[]]]; [tauto | congruence]).
    unfold pt_inv. cbn [p_fs p_current p_writer p_log]. repeat split; auto.
    + rewrite map_app. cbn. apply nodup_snoc; assumption.
    + rewrite !map_app. cbn. rewrite app_assoc. apply Permutation_app_tail.
      eapply Permutation_trans; [exact Hp1 | exact Hp].
    + apply Forall_app. split.
      * eapply Forall_impl; [|exact Ho1]. intros nf. apply origin_mono.
      * constructor; [|constructor]. exists p0. cbn [fst snd]. split; [|apply rot_refl].
        right. rewrite map_app, in_app_iff. right. left. reflexivity.
    + rewrite map_app, in_app_iff. cbn. intros [H|[H|[]]]; [tauto | congruence].
  - destruct Hcur as (Hc & Hw). rewrite Hc in *.
    rewrite fs_remove_notin by exact Hnp.
    unfold pt_inv. cbn [p_fs p_current p_writer p_log]. rewrite app_nil_r. repeat split; auto.
    eapply Permutation_trans; [exact Hp1 | exact Hp].
Qed.

Definition pw (pr : path * rec) : pop := PWrite (fst pr) (snd pr).

Lemma pt_run_inv ws : forall st cc, pt_inv st (fst cc) (snd cc) ->
  Forall (fun o => o = Ok) (snd (pt_run st (map pw ws))) /\
  pt_inv (fst (pt_run st (map pw ws))) (fst (seg_run cc ws)) (snd (seg_run cc ws)).
Proof.
  induction ws as [|[p r] ws IH]; intros st cc Hi.
  - cbn. split; [constructor | exact Hi].
  - cbn [map pw fst snd Writers.pt_run seg_run fold_left] in *. fold (seg_run (seg_step cc (p, r)) ws).
    assert (Hstep : snd (pt_write st p r) = Ok /\
                    pt_inv (fst (pt_write st p r)) (fst (seg_step cc (p, r))) (snd (seg_step cc (p, r)))).
    { destruct cc as [cl [[p0 rs]|]]; unfold seg_step; cbn [fst snd] in *.
      - destruct (String.eqb_spec p0 p) as [->|Hne]; cbn [fst snd].
        + apply (pt_inv_write_current st cl p rs r Hi).
        + apply (pt_inv_write_switch st cl (Some (p0, rs)) p r Hi Hne).
      - pose proof (pt_inv_write_switch st cl None p r Hi I) as H. rewrite app_nil_r in H. exact H. }
    destruct Hstep as [Hok Hi1].
    destruct (pt_write st p r) as [st' o]. cbn [fst snd] in *. subst o.
    specialize (IH st' (seg_step cc (p, r)) Hi1).
    destruct (pt_run st' (map pw ws)) as [st'' os]. cbn [fst snd] in *.
    destruct IH as [H1 H2]. split; [constructor; auto | exact H2].
Qed.

(* The final theorem.  [ws] = the records with the path their template yields; afterwards close(). *)
Definition pt_final (clock : list stamp) (ws : list (path * rec)) : pstate :=
  pt_close sh k (fst (pt_run (pt_init pre clock) (map pw ws))).

Lemma pt_close_log st : p_log (pt_close sh k st) = p_log st.
Proof. unfold pt_close. destruct (p_writer st); reflexivity. Qed.

Theorem rotation_keeps_everything clock ws :
  (* every write succeeded *)
  Forall (fun o => o = Ok) (snd (pt_run (pt_init pre clock) (map pw ws))) /\
  (* no rename replaced an existing file *)
  Forall no_overwrite (p_log (pt_final clock ws)) /\
  (* names are unique; the files on disk are exactly the pre-existing files and one file per segment *)
  NoDup (map fst (pt_files (pt_final clock ws))) /\
  Permutation (map snd (pt_files (pt_final clock ws)))
              (map snd pre ++ map (fun sg => seg_file (snd sg)) (segs ws)) /\
  (* each of them under its own name or a rotation of it *)
  Forall (origin (segs ws)) (pt_files (pt_final clock ws)) /\
  (* the segment written last is under the very name its template yields *)
  (forall sg, snd (seg_run ([], None) ws) = Some sg -> In (seg_entry sg) (pt_files (pt_final clock ws))) /\
  (* every segment file is readable and holds its records in order; the segments are the sequence written *)
  Forall (fun sg => readable (seg_file (snd sg)) = Some (expected k (snd sg))) (segs ws) /\
  List.concat (map snd (segs ws)) = map snd ws.
Proof.
  unfold pt_final in *. rewrite pt_close_log.
  destruct (pt_run_inv ws (pt_init pre clock) ([], None) (pt_init_inv clock)) as [Hok Hi].
  set (st := fst (pt_run (pt_init pre clock) (map pw ws))) in *.
  unfold segs. set (cc := seg_run ([], None) ws) in *.
  destruct Hi as (Hn & Hp & Ho & Hl & Hcur).
  split; [exact Hok|]. split; [exact Hl|].
  assert (Hfiles : pt_files (pt_close sh k st) =
                   p_fs st ++ match snd cc with Some sg => [seg_entry sg] | None => [] end).
  { unfold pt_files, pt_close. destruct (snd cc) as [[p rs]|].
    - destruct Hcur as (Hc & Hw & _). rewrite Hw. cbn [p_fs p_current p_writer]. rewrite Hc, seg_file_close. reflexivity.
    - destruct Hcur as (Hc & Hw). rewrite Hw, Hc. reflexivity. }
  rewrite Hfiles. unfold all_segs. repeat split.
  - rewrite map_app. destruct (snd cc) as [[p rs]|]; cbn; [|rewrite app_nil_r; exact Hn].
    destruct Hcur as (_ & _ & Hnin). apply nodup_snoc; assumption.
  - rewrite !map_app. rewrite app_assoc. apply Permutation_app; [exact Hp|].
    destruct (snd cc) as [[p rs]|]; apply Permutation_refl.
  - apply Forall_app. split.
    + eapply Forall_impl; [|exact Ho]. intros nf. destruct (snd cc); [apply origin_mono | rewrite app_nil_r; auto].
    + destruct (snd cc) as [sg|]; constructor; [|constructor]. exists (fst sg). split; [|apply rot_refl].
      right. rewrite map_app, in_app_iff. right. left. reflexivity.
  - intros sg Hsg. rewrite Hsg, in_app_iff. right. left. reflexivity.
  - pose proof (segs_all_nonempty ws) as Hne. unfold segs in Hne. fold cc in Hne. unfold all_segs in Hne.
    eapply Forall_impl; [|exact Hne]. intros sg Hsg. cbn beta in *.
    apply (file_after_readable sh batch SH k ACC). right. split; [reflexivity | right; exact Hsg].
  - apply segs_records.
Qed.

End Rotation.

(* ------------------------------------------------------------------------------------------------ *)
(* part names: str(file_count).rjust(suffix_length, "0") determines file_count                        *)

Open Scope string_scope.

Definition parse_dec (s : string) : option N := option_map N.of_uint (NilEmpty.uint_of_string s).

Lemma parse_zeros z s : NilEmpty.uint_of_string (zeros z ++ s) =
  option_map (fun d => Nat.iter z Decimal.D0 d) (NilEmpty.uint_of_string s).
Proof.
  induction z as [|z IH]; cbn [zeros Nat.iter].
  - cbn. destruct (NilEmpty.uint_of_string s); reflexivity.
  - cbn [append NilEmpty.uint_of_string]. rewrite IH. destruct (NilEmpty.uint_of_string s); reflexivity.
Qed.

Lemma of_uint_zeros z d : N.of_uint (Nat.iter z Decimal.D0 d) = N.of_uint d.
Proof. induction z as [|z IH]; cbn [Nat.iter]; [reflexivity|]. rewrite <- IH. reflexivity. Qed.

Lemma parse_suffix_text w n : parse_dec (suffix_text w n) = Some n.
Proof.
  unfold parse_dec, suffix_text, dec. rewrite parse_zeros, NilEmpty.usu. cbn [option_map].
  rewrite of_uint_zeros, DecimalN.Unsigned.of_to. reflexivity.
Qed.

Lemma suffix_text_inj w i j : suffix_text w i = suffix_text w j -> i = j.
Proof.
  intros H. pose proof (parse_suffix_text w i) as Hi. rewrite H, parse_suffix_text in Hi. congruence.
Qed.

Lemma str_app_inv_head a : forall x y, a ++ x = a ++ y -> x = y.
Proof. induction a as [|c a IH]; cbn; intros x y H; [exact H|]. inversion H. auto. Qed.

Lemma str_length_app a b : String.length (a ++ b) = String.length a + String.length b.
Proof. induction a as [|c a IH]; cbn; [reflexivity | rewrite IH; reflexivity]. Qed.

Lemma str_app_inv_tail e : forall x y, x ++ e = y ++ e -> x = y.
Proof.
  induction x as [|c x IH]; destruct y as [|d y]; cbn; intros H; try reflexivity.
  - exfalso. apply (f_equal String.length) in H. cbn in H. rewrite str_length_app in H. lia.
  - exfalso. apply (f_equal String.length) in H. cbn in H. rewrite str_length_app in H. lia.
  - inversion H. f_equal. auto.
Qed.

(* distinct values of file_count give distinct part names, whatever the suffix length (also when file_count
   needs more digits than suffix_length: rjust never truncates) *)
Theorem part_name_inj name w i j : part_name name w i = part_name name w j -> i = j.
Proof.
  unfold part_name. destruct (py_suffix_split name) as [stem ext]. intros H.
  apply str_app_inv_head in H. apply str_app_inv_head in H. apply str_app_inv_tail in H.
  eapply suffix_text_inj; eauto.
Qed.

(* the rotated names rotate_existing_file tries for one path and stamp are pairwise distinct *)
Lemma dec_inj a b : dec a = dec b -> a = b.
Proof. intros H. apply (suffix_text_inj 0). unfold suffix_text. cbn [Nat.sub zeros]. cbn. exact H. Qed.

Lemma stamp_n_inj s n m : stamp_n s n = stamp_n s m -> n = m.
Proof.
  assert (Hne : forall k, s <> s ++ "-" ++ dec (N.of_nat (S k))).
  { intros k H. apply (f_equal String.length) in H. rewrite str_length_app in H. cbn in H. lia. }
  destruct n as [|n], m as [|m]; cbn [stamp_n]; intros H; try reflexivity.
  - exfalso. eapply Hne; eauto.
  - exfalso. eapply Hne; eauto.
  - apply str_app_inv_head in H. apply str_app_inv_head in H. apply dec_inj in H. apply Nat2N.inj in H. exact H.
Qed.

Lemma rot_name_py_inj p s n m : rot_name_py p s n = rot_name_py p s m -> n = m.
Proof.
  unfold rot_name_py.
  destruct (match rsplit_last slash (la p) with Some (d, f) => (sl d ++ "/", sl f) | None => ("", p) end) as [dir fname].
  destruct (ends_with ".records.gz" fname).
  - intros H. do 3 apply str_app_inv_head in H. apply str_app_inv_tail in H. eapply stamp_n_inj; eauto.
  - destruct (py_splitext fname) as [f e]. intros H. do 3 apply str_app_inv_head in H.
    apply (str_app_inv_tail ("." ++ e)) in H. eapply stamp_n_inj; eauto.
Qed.

(* ------------------------------------------------------------------------------------------------ *)
(* packaged statements used by props/C17.v                                                            *)

Open Scope list_scope.

(* the excluded stream class fails as a whole (when close does not flush): the class is exact *)
Lemma stream_bare_close_fails sh batch h : shapes_ok sh = true -> sh_stream_close_flushes sh = false ->
  bare_close_first h = true ->
  w_file (fst (run sh batch AStream (w_init AStream) h)) = FileStream [] /\
  snd (run sh batch AStream (w_init AStream) h) = [] /\
  readable (w_file (fst (run sh batch AStream (w_init AStream) h))) = None.
Proof.
  intros SH Hf Hb. destruct (shapes_ok_inv sh SH) as (_ & Hd & _).
  assert (Hclosed : forall st, w_open st = false -> w_file st = FileStream [] ->
            w_file (fst (run sh batch AStream st (tl h))) = FileStream [] /\ snd (run sh batch AStream st (tl h)) = [] /\
            readable (w_file (fst (run sh batch AStream st (tl h)))) = None).
  { intros st Hc Hfile. rewrite (closed_run sh batch AStream st (tl h) Hc). cbn. rewrite Hfile. auto. }
  destruct h as [|o h]; [discriminate|]. destruct o; try discriminate Hb; rewrite run_cons; cbn [Writers.step tl] in *.
  - unfold do_close. cbn. rewrite Hf. cbn.
    match goal with |- context [run sh batch AStream ?s h] => destruct (Hclosed s eq_refl eq_refl) as (A & B & C);
      destruct (run sh batch AStream s h) as [s2 a2] end. cbn in *. subst. auto.
  - rewrite Hd. cbn. unfold do_close. cbn. rewrite Hf. cbn.
    match goal with |- context [run sh batch AStream ?s h] => destruct (Hclosed s eq_refl eq_refl) as (A & B & C);
      destruct (run sh batch AStream s h) as [s2 a2] end. cbn in *. subst. auto.
Qed.

Lemma empty_output_valid sh batch k c : shapes_ok sh = true -> is_closing c = true ->
  (k = AStream -> is_exit c = true) ->
  readable (w_file (fst (run sh batch k (w_init k) [c]))) = Some [].
Proof.
  intros SH Hc Hk.
  assert (Hh : has_close [c] = true) by (cbn; rewrite Hc; reflexivity).
  assert (He : excluded k [c] = false).
  { destruct k; cbn; try reflexivity. specialize (Hk eq_refl). destruct c; try discriminate Hk; reflexivity. }
  destruct (closed_means_durable sh batch SH k [c] Hh He) as [_ R]. rewrite R.
  rewrite run_cons. destruct (step sh batch k (w_init k) c) as [st' out]. cbn.
  destruct c; try discriminate Hc; cbn; destruct k; reflexivity.
Qed.

Lemma indexed_length {A} (l : list A) a : List.length (indexed a l) = List.length l.
Proof. revert a. induction l as [|x l IH]; intros a; cbn; [|rewrite IH]; reflexivity. Qed.

Theorem split_theorem sh batch k limit rs c :
  shapes_ok sh = true -> split_shapes_ok sh = true -> always_accepts k = true -> 0 < limit ->
  is_closing c = true -> last_part_ok k limit rs c ->
  let res := split_run sh batch k limit false (split_init k) (map Write rs ++ [c]) in
  let files := map snd (split_files (fst res)) in
  let parts := chunks limit [] rs in
  snd res = rs /\
  map fst (split_files (fst res)) = seq 0 (List.length parts) /\
  Forall2 (fun f cs => readable f = Some (expected k cs)) files parts /\
  List.concat parts = rs /\
  Forall (fun cs => List.length cs <= limit) parts /\
  Forall (fun cs => List.length cs = limit) (removelast parts) /\
  List.length parts = List.length rs / limit + 1 /\
  (last parts [] = [] <-> List.length rs mod limit = 0) /\
  (k = AStream -> read_stream (raw_concat files) = Some rs).
Proof.
  intros SH SSH ACC LIM Hc Hok. cbn zeta.
  destruct (split_files_spec sh batch SH SSH k ACC limit LIM rs c Hc) as [Hacc Hfiles].
  destruct (split_parts_spec limit LIM rs) as (Hcat & Hb & Hfull & Hcount & Hlast).
  unfold split_result, split_parts in *.
  split; [exact Hacc|]. split.
  { rewrite Hfiles, indexed_fst. f_equal. rewrite app_length, map_length. cbn.
    assert (Hne : chunks limit [] rs <> []) by apply chunks_nonempty.
    rewrite (app_removelast_last [] Hne) at 2. rewrite app_length. reflexivity. }
  split; [apply (split_parts_readable sh batch SH SSH k ACC limit LIM rs c Hc Hok)|].
  split; [exact Hcat|]. split; [exact Hb|]. split; [exact Hfull|]. split; [exact Hcount|]. split; [exact Hlast|].
  intros Hk. apply (split_raw_concat sh batch SH SSH k ACC limit LIM rs c Hk Hc).
  destruct Hok as [H|[H|H]]; [left; exact H | congruence | right; exact H].
Qed.

Lemma closing_of_bare c : c = Close \/ c = Del -> is_closing c = true.
Proof. intros [-> | ->]; reflexivity. Qed.

(* the unrestricted durability statement, and why it is false while StreamWriter.close does not flush *)
Definition durable_full (sh : shapes) : Prop :=
  forall batch k h, has_close h = true ->
    readable (w_file (fst (run sh batch k (w_init k) h))) = Some (expected k (snd (run sh batch k (w_init k) h))).

Lemma durable_full_false sh : shapes_ok sh = true -> sh_stream_close_flushes sh = false -> ~ durable_full sh.
Proof.
  intros SH Hf H. specialize (H 0 AStream [Close] eq_refl).
  destruct (stream_bare_close_fails sh 0 [Close] SH Hf eq_refl) as (_ & _ & Hn). rewrite Hn in H. discriminate.
Qed.

(* every adapter but the stream adapter: no exclusion at all *)
Lemma closed_means_durable_nonstream sh batch k h : shapes_ok sh = true -> k <> AStream -> has_close h = true ->
  w_open (fst (run sh batch k (w_init k) h)) = false /\
  readable (w_file (fst (run sh batch k (w_init k) h))) = Some (expected k (snd (run sh batch k (w_init k) h))).
Proof.
  intros SH Hk Hc. apply closed_means_durable; [exact SH | exact Hc|]. destruct k; try reflexivity. congruence.
Qed.

(* the generated facts with one repair undone (for the witnesses of what each repair prevents) *)
Definition with_avro_unfixed (sh : shapes) : shapes :=
  mkShapes (sh_exit sh) (sh_del sh) true false (sh_avro_close_flushes sh) (sh_stream_close_flushes sh)
           (sh_split_ge sh) (sh_split_roll sh) (sh_rotate_counter sh) (sh_split_stdout_netloc sh) (sh_split_stdout_path sh)
           (sh_exit_exc sh).
Definition with_rotation_unfixed (sh : shapes) : shapes :=
  mkShapes (sh_exit sh) (sh_del sh) (sh_avro_flush_placeholder sh) (sh_avro_close_placeholder sh)
           (sh_avro_close_flushes sh) (sh_stream_close_flushes sh) (sh_split_ge sh) (sh_split_roll sh) false
           (sh_split_stdout_netloc sh) (sh_split_stdout_path sh) (sh_exit_exc sh).

(* the split theorem for a target given as urlparse(self.path) = (netloc, path): a file target is not taken for stdout *)
Definition split_concl (sh : shapes) (batch : nat) (k : adapter) (limit : nat) (stdout : bool) (rs : list rec) (c : op) : Prop :=
  let res := split_run sh batch k limit stdout (split_init k) (map Write rs ++ [c]) in
  let files := map snd (split_files (fst res)) in
  let parts := chunks limit [] rs in
  snd res = rs /\
  map fst (split_files (fst res)) = seq 0 (List.length parts) /\
  Forall2 (fun f cs => readable f = Some (expected k cs)) files parts /\
  List.concat parts = rs /\
  Forall (fun cs => List.length cs <= limit) parts /\
  Forall (fun cs => List.length cs = limit) (removelast parts) /\
  List.length parts = List.length rs / limit + 1 /\
  (last parts [] = [] <-> List.length rs mod limit = 0) /\
  (k = AStream -> read_stream (raw_concat files) = Some rs).

Theorem split_theorem_target sh batch k limit netloc path rs c :
  shapes_ok sh = true -> split_shapes_ok sh = true -> always_accepts k = true -> 0 < limit ->
  file_target netloc path = true -> is_closing c = true -> last_part_ok k limit rs c ->
  split_concl sh batch k limit (split_is_stdout sh netloc path) rs c.
Proof.
  intros SH SSH ACC LIM Hft Hc Hok. rewrite (file_target_not_stdout sh netloc path SSH Hft).
  exact (split_theorem sh batch k limit rs c SH SSH ACC LIM Hc Hok).
Qed.

Lemma closing_of_exit c : is_exit c = true -> is_closing c = true.
Proof. destruct c; try discriminate; reflexivity. Qed.

(* the generated facts with an __exit__ that only closes when the block is left by an exception *)
Definition with_exit_exc_close_only (sh : shapes) : shapes :=
  mkShapes (sh_exit sh) (sh_del sh) (sh_avro_flush_placeholder sh) (sh_avro_close_placeholder sh)
           (sh_avro_close_flushes sh) (sh_stream_close_flushes sh) (sh_split_ge sh) (sh_split_roll sh) (sh_rotate_counter sh)
           (sh_split_stdout_netloc sh) (sh_split_stdout_path sh) [MClose].

(* ------------------------------------------------------------------------------------------------ *)
(* flush / close / with-exit / del never raise (whatever the state); only write() may                 *)

Section NeverRaise.
Variable sh : shapes.
Variable batch : nat.
Hypothesis SH : shapes_ok sh = true.

Lemma do_flush_ok k st : snd (do_flush sh k st) = Ok.
Proof.
  destruct (shapes_ok_inv2 sh SH) as (Hfp & _ & _). unfold do_flush, avro_flush. rewrite Hfp.
  destruct k; cbn; try reflexivity. destruct (w_open st); [destruct (w_awr st)|]; reflexivity.
Qed.
Lemma do_calls_ok k cs : forall st, snd (do_calls sh k st cs) = Ok.
Proof.
  induction cs as [|c cs IH]; intros st; cbn; [reflexivity|]. destruct c; cbn [do_call].
  - pose proof (do_flush_ok k st) as H. destruct (do_flush sh k st) as [s1 o1]. cbn in H. subst o1. apply IH.
  - pose proof (do_close_closed sh k st) as [_ H]. destruct (do_close sh k st) as [s1 o1]. cbn in H. subst o1. apply IH.
Qed.
Lemma step_not_write_ok k st o : (forall r, o <> Write r) -> snd (step sh batch k st o) = Ok.
Proof.
  intros H. destruct o; cbn [step].
  - exfalso. eapply H. reflexivity.
  - apply do_flush_ok.
  - apply (do_close_closed sh k st).
  - apply do_calls_ok.
  - apply do_calls_ok.
  - apply do_calls_ok.
Qed.

Definition outcome_allowed (p : op * outcome) : Prop :=
  match fst p with Write _ => True | _ => snd p = Ok end.

Theorem close_flush_never_raise k h : forall st,
  Forall outcome_allowed (combine h (outcomes sh batch k st h)).
Proof.
  induction h as [|o h IH]; intros st; cbn; [constructor|].
  pose proof (step_not_write_ok k st o) as Hs. destruct (step sh batch k st o) as [st' out]. cbn.
  constructor; [|apply IH]. unfold outcome_allowed. cbn. destruct o; auto; apply Hs; intros r; discriminate.
Qed.
End NeverRaise.

(* ------------------------------------------------------------------------------------------------ *)
(* the stdout target                                                                                  *)

(* the first closing operation of the history is leaving a with-block (the writer is still open then) *)
Fixpoint first_close_is_exit (h : list op) : bool :=
  match h with
  | Write _ :: t | Flush :: t => first_close_is_exit t
  | WithExit :: _ | WithExitExc :: _ => true
  | _ => false
  end.

Section StdoutProofs.
Variable sh : shapes.
Hypothesis SH : shapes_ok sh = true.
Variable os : oshape.

Notation o_step := (Writers.o_step sh os).
Notation o_run := (Writers.o_run sh os).
Notation o_calls := (Writers.o_calls os).

Definition o_all (st : ostate) : list rec := o_delivered st ++ o_pending st.

Lemma o_deliver_all st : o_all (o_deliver st) = o_all st.
Proof. unfold o_all, o_deliver. cbn. rewrite app_nil_r. reflexivity. Qed.

Lemma o_flush_all st : o_all (fst (o_flush os st)) = o_all st /\ snd (o_flush os st) = Ok.
Proof. unfold o_flush. cbn. split; [|reflexivity]. destruct (o_open st && o_flush_delivers os); [apply o_deliver_all | reflexivity]. Qed.
Lemma o_close_all st : o_all (fst (o_close os st)) = o_all st /\ snd (o_close os st) = Ok.
Proof.
  unfold o_close. destruct (o_open st); cbn; [|auto]. split; [|reflexivity].
  destruct (o_close_delivers os); [rewrite <- (o_deliver_all st)|]; reflexivity.
Qed.
Lemma o_calls_all cs : forall st, o_all (fst (o_calls st cs)) = o_all st /\ snd (o_calls st cs) = Ok.
Proof.
  induction cs as [|c cs IH]; intros st; cbn; [auto|]. destruct c.
  - destruct (o_flush_all st) as [A O]. destruct (o_flush os st) as [s1 o1]. cbn in *. subst o1.
    destruct (IH s1) as [A1 O1]. rewrite A1, A. auto.
  - destruct (o_close_all st) as [A O]. destruct (o_close os st) as [s1 o1]. cbn in *. subst o1.
    destruct (IH s1) as [A1 O1]. rewrite A1, A. auto.
Qed.

Lemma o_step_all st o : o_all (fst (o_step st o)) = o_all st ++ newly o (snd (o_step st o)).
Proof.
  destruct o; cbn [Writers.o_step].
  - unfold o_write. destruct (o_open st); cbn.
    + destruct (o_write_delivers os); [rewrite o_deliver_all|]; unfold o_all; cbn; rewrite app_assoc; reflexivity.
    + destruct (o_write_after_close os && negb match o_delivered st ++ o_pending st with [] => true | _ :: _ => false end);
        cbn; [unfold o_all; cbn; rewrite app_assoc; reflexivity | rewrite app_nil_r; reflexivity].
  - destruct (o_flush_all st) as [A O]. rewrite O, A. cbn. rewrite app_nil_r. reflexivity.
  - destruct (o_close_all st) as [A O]. rewrite O, A. cbn. rewrite app_nil_r. reflexivity.
  - destruct (o_calls_all (sh_exit sh) st) as [A O]. rewrite O, A. cbn. rewrite app_nil_r. reflexivity.
  - destruct (o_calls_all (sh_exit_exc sh) st) as [A O]. rewrite O, A. cbn. rewrite app_nil_r. reflexivity.
  - destruct (o_calls_all (sh_del sh) st) as [A O]. rewrite O, A. cbn. rewrite app_nil_r. reflexivity.
Qed.

Lemma o_run_cons st o h :
  o_run st (o :: h) = let (st', out) := o_step st o in let (st'', acc) := o_run st' h in (st'', newly o out ++ acc).
Proof. cbn. destruct (o_step st o) as [st' out]. destruct (o_run st' h). destruct o, out; reflexivity. Qed.

(* nothing is lost or invented: delivered ++ pending = the records accepted *)
Lemma o_run_all h : forall st, o_all (fst (o_run st h)) = o_all st ++ snd (o_run st h).
Proof.
  induction h as [|o h IH]; intros st; [cbn; rewrite app_nil_r; reflexivity|].
  rewrite o_run_cons. pose proof (o_step_all st o) as A. destruct (o_step st o) as [st' out]. cbn [fst snd] in A.
  specialize (IH st'). destruct (o_run st' h) as [s2 a2]. cbn [fst snd] in *. rewrite IH, A, app_assoc. reflexivity.
Qed.

(* a closed writer changes nothing any more *)
Lemma o_closed_calls cs : forall st, o_open st = false -> fst (o_calls st cs) = st.
Proof.
  induction cs as [|c cs IH]; intros st H; cbn; [reflexivity|]. destruct c.
  - unfold o_flush. rewrite H. cbn. apply IH. exact H.
  - unfold o_close. rewrite H. apply IH. exact H.
Qed.
Definition is_write (o : op) : bool := match o with Write _ => true | _ => false end.
Definition no_writes (h : list op) : bool := negb (existsb is_write h).
(* no write() after the first closing operation *)
Fixpoint no_write_after_close (h : list op) : bool :=
  match h with
  | [] => true
  | o :: t => if is_closing o then no_writes t else no_write_after_close t
  end.

Lemma o_closed_step st o : o_open st = false -> o_write_after_close os = false \/ is_write o = false ->
  fst (o_step st o) = st.
Proof.
  intros H Hw. destruct o; cbn [Writers.o_step]; try (apply o_closed_calls; exact H).
  - unfold o_write. rewrite H. destruct Hw as [Hw|Hw]; [rewrite Hw; reflexivity | discriminate].
  - unfold o_flush. rewrite H. reflexivity.
  - unfold o_close. rewrite H. reflexivity.
Qed.
Lemma o_closed_run h : forall st, o_open st = false -> o_write_after_close os = false \/ no_writes h = true ->
  fst (o_run st h) = st.
Proof.
  induction h as [|o h IH]; intros st H Hw; [reflexivity|]. rewrite o_run_cons.
  assert (Hw1 : o_write_after_close os = false \/ is_write o = false).
  { destruct Hw as [Hw|Hw]; [left; exact Hw | right]. unfold no_writes in Hw. cbn in Hw. apply negb_true_iff in Hw.
    apply orb_false_elim in Hw. tauto. }
  assert (Hw2 : o_write_after_close os = false \/ no_writes h = true).
  { destruct Hw as [Hw|Hw]; [left; exact Hw | right]. unfold no_writes in *. cbn in Hw. apply negb_true_iff in Hw.
    apply orb_false_elim in Hw. apply negb_true_iff. tauto. }
  pose proof (o_closed_step st o H Hw1) as E. destruct (o_step st o) as [st' out]. cbn [fst] in E. subst st'.
  specialize (IH st H Hw2). destruct (o_run st h) as [s2 a2]. exact IH.
Qed.

(* leaving the with-block of a writer that is still open empties the buffer *)
Lemma o_exit_calls st : o_flush_delivers os = true -> o_open st = true ->
  o_pending (fst (o_calls st [MFlush; MClose])) = [] /\ o_open (fst (o_calls st [MFlush; MClose])) = false.
Proof.
  intros Hf Ho. cbn. unfold o_flush. rewrite Ho, Hf. cbn. unfold o_close. cbn. rewrite Ho.
  destruct (o_close_delivers os); cbn; auto.
Qed.

Theorem o_exit_delivers h : o_flush_delivers os = true -> forall st, o_open st = true ->
  first_close_is_exit h = true -> o_write_after_close os = false \/ no_write_after_close h = true ->
  o_pending (fst (o_run st h)) = [].
Proof.
  intros Hf. destruct (shapes_ok_inv sh SH) as (He & _ & _). pose proof (shapes_ok_exc sh SH) as Hx.
  induction h as [|o h IH]; intros st Ho Hc Hn; [discriminate|]. rewrite o_run_cons.
  destruct o; cbn [first_close_is_exit] in Hc; try discriminate; cbn [Writers.o_step]; cbn [no_write_after_close is_closing] in Hn.
  - assert (Ho1 : o_open (fst (o_write os st r)) = true).
    { unfold o_write. rewrite Ho. cbn. destruct (o_write_delivers os); reflexivity. }
    destruct (o_write os st r) as [s1 o1]. cbn [fst] in Ho1. specialize (IH s1 Ho1 Hc Hn). destruct (o_run s1 h). exact IH.
  - assert (Ho1 : o_open (fst (o_flush os st)) = true).
    { unfold o_flush. cbn. destruct (o_open st && o_flush_delivers os); exact Ho. }
    destruct (o_flush os st) as [s1 o1]. cbn [fst] in Ho1. specialize (IH s1 Ho1 Hc Hn). destruct (o_run s1 h). exact IH.
  - rewrite He. destruct (o_exit_calls st Hf Ho) as [P C]. destruct (o_calls st [MFlush; MClose]) as [s1 o1]. cbn [fst] in *.
    pose proof (o_closed_run h s1 C Hn) as E. destruct (o_run s1 h) as [s2 a2]. cbn [fst] in *. subst s2. exact P.
  - rewrite Hx. destruct (o_exit_calls st Hf Ho) as [P C]. destruct (o_calls st [MFlush; MClose]) as [s1 o1]. cbn [fst] in *.
    pose proof (o_closed_run h s1 C Hn) as E. destruct (o_run s1 h) as [s2 a2]. cbn [fst] in *. subst s2. exact P.
Qed.

(* a writer that flushes after every record never leaves anything in the buffer *)
Lemma o_calls_pending_nil cs : forall st, o_pending st = [] -> o_pending (fst (o_calls st cs)) = [].
Proof.
  induction cs as [|c cs IH]; intros st H; cbn; [exact H|]. destruct c.
  - unfold o_flush. cbn. apply IH. destruct (o_open st && o_flush_delivers os); [reflexivity | exact H].
  - unfold o_close. destruct (o_open st); cbn; apply IH; [|exact H]. destruct (o_close_delivers os); [reflexivity | exact H].
Qed.
Theorem o_autoflush_delivers h : o_write_delivers os = true -> o_write_after_close os = false ->
  forall st, o_pending st = [] -> o_pending (fst (o_run st h)) = [].
Proof.
  intros Hw Hac. induction h as [|o h IH]; intros st H; [exact H|]. rewrite o_run_cons.
  assert (H1 : o_pending (fst (o_step st o)) = []).
  { destruct o; cbn [Writers.o_step]; try (apply o_calls_pending_nil; exact H).
    - unfold o_write. destruct (o_open st); cbn; [rewrite Hw; reflexivity | rewrite Hac; exact H].
    - unfold o_flush. cbn. destruct (o_open st && o_flush_delivers os); [reflexivity | exact H].
    - unfold o_close. destruct (o_open st); cbn; [|exact H]. destruct (o_close_delivers os); [reflexivity | exact H]. }
  destruct (o_step st o) as [s1 o1]. cbn [fst] in H1. specialize (IH s1 H1). destruct (o_run s1 h). exact IH.
Qed.

(* with nothing pending, everything accepted has been delivered *)
Lemma o_delivered_all h : o_pending (fst (o_run o_init h)) = [] -> o_delivered (fst (o_run o_init h)) = snd (o_run o_init h).
Proof.
  intros H. pose proof (o_run_all h o_init) as A. unfold o_all in A. rewrite H, app_nil_r in A. exact A.
Qed.

End StdoutProofs.

(* packaged for props/C17.v *)
Definition all_okinds : list okind := [OStream; OPrinter; OJson; OCsv; OLine; OText; OAvro].
Lemma all_okinds_complete k : In k all_okinds.
Proof. destruct k; cbn; tauto. Qed.

Theorem stdout_exit_delivers sh (oshapes : okind -> oshape) :
  shapes_ok sh = true -> forallb (fun k => o_flush_delivers (oshapes k)) all_okinds = true ->
  forall kind h, first_close_is_exit h = true ->
  o_write_after_close (oshapes kind) = false \/ no_write_after_close h = true ->
  o_pending (fst (o_run sh (oshapes kind) o_init h)) = [] /\
  o_delivered (fst (o_run sh (oshapes kind) o_init h)) = snd (o_run sh (oshapes kind) o_init h).
Proof.
  intros SH Hall kind h Hc Hn. rewrite forallb_forall in Hall. specialize (Hall kind (all_okinds_complete kind)).
  assert (P : o_pending (fst (o_run sh (oshapes kind) o_init h)) = [])
    by (apply (o_exit_delivers sh SH (oshapes kind) h Hall o_init eq_refl Hc Hn)).
  split; [exact P | apply o_delivered_all; exact P].
Qed.

Theorem stdout_autoflush_delivers sh os : o_write_delivers os = true -> o_write_after_close os = false -> forall h,
  o_pending (fst (o_run sh os o_init h)) = [] /\ o_delivered (fst (o_run sh os o_init h)) = snd (o_run sh os o_init h).
Proof.
  intros Hw Hac h. assert (P : o_pending (fst (o_run sh os o_init h)) = []) by (apply (o_autoflush_delivers sh os h Hw Hac o_init eq_refl)).
  split; [exact P | apply o_delivered_all; exact P].
Qed.
