(* C04 for streams the writer produced: any cut yields a prefix of the written items, then a clean end or an error *)
From Coq Require Import List Bool NArith ZArith Lia.
From Coq Require Import Init.Byte.
From FR Require Import Bytes Msgpack Msgpack_proofs Packer Stream Packer_proofs Values_proofs Stream_proofs Roundtrip_proofs.
Import ListNotations.
Open Scope Z_scope.

Section CutWritten.
Variable c : cfg.
Variable HASH : desc -> Z.
Variable depth : nat.

Lemma body_is_encoding x : body_ok c depth x = true -> is_encoding (body_of c x).
Proof.
  intros H. exists (lower c x). split; [reflexivity|]. unfold body_ok in H.
  apply andb_prop in H. destruct H as [H _]. apply andb_prop in H. destruct H as [H Hs]. apply andb_prop in H. destruct H as [_ Hw].
  split; [exact Hw|]. apply N.ltb_lt in Hs. exact Hs.
Qed.

Lemma written_bodies_are_encodings : forall items reg, stream_okb c HASH depth reg items = true ->
  Forall is_encoding (write_all_bodies c HASH (st_of reg) items).
Proof.
  induction items as [|it t IH]; intros reg Hok; [constructor|].
  cbn [stream_okb] in Hok. apply andb_prop in Hok. destruct Hok as [Hok Ht]. apply andb_prop in Hok. destruct Hok as [Hok Hit].
  apply andb_prop in Hok. destruct Hok as [Hds Hb].
  cbn [write_all_bodies]. rewrite write_bodies_hdr. apply Forall_app. split; [apply Forall_app; split|].
  - unfold descs_ok in Hds. rewrite forallb_forall in Hds. apply Forall_forall. intros b Hin.
    apply in_map_iff in Hin. destruct Hin as (d & <- & Hd). apply body_is_encoding. apply Hds. exact Hd.
  - constructor; [apply body_is_encoding; exact Hb|constructor].
  - apply IH. exact Ht.
Qed.

Lemma prefix_of_map_RItem (items : list item) (out rest : list robj) :
  map RItem items = out ++ rest -> out = map RItem (firstn (List.length out) items).
Proof.
  revert out. induction items as [|it t IH]; intros out E.
  - destruct out; [reflexivity|discriminate].
  - destruct out as [|o out]; [reflexivity|]. cbn [map app List.length firstn] in *.
    injection E as <- E. f_equal. apply IH. exact E.
Qed.

(* cut anywhere after the header frame *)
Theorem cut_written items k : cfg_good c = true -> stream_okb c HASH depth [] items = true -> items <> [] ->
  (List.length (frame (header_body c)) <= k)%nat ->
  exists j oc, read_stream c HASH depth (firstn k (write_stream c HASH items)) = Read (map RItem (firstn j items)) oc.
Proof.
  intros G Hok Hne Hk. destruct items as [|it t]; [contradiction|].
  unfold write_stream. rewrite write_all_first, frames_cons.
  rewrite firstn_app. rewrite firstn_all2 by exact Hk.
  unfold read_stream. rewrite (read_header_frame c _ G).
  set (bodies := write_all_bodies c HASH (st_of []) (it :: t)).
  set (k' := (k - List.length (frame (header_body c)))%nat).
  pose proof (written_bodies_are_encodings (it :: t) [] Hok) as Henc. fold bodies in Henc.
  destruct (cut_stream c HASH depth bodies [] k' (S (List.length (firstn k' (frames bodies)))) Henc ltac:(lia)) as (j & oc & E).
  rewrite E.
  destruct (run_bodies_prefix c HASH depth bodies [] j oc) as (rest & Hp).
  assert (Hfst : fst (run_bodies c HASH depth [] bodies (fun _ => ([], CleanEOF))) =
                 fst (run_bodies c HASH depth [] (firstn j bodies) (fun _ => ([], oc))) ++ rest)
    by (destruct Hp as [Hp|[_ Hp]]; exact Hp).
  unfold bodies in Hfst at 1. rewrite (run_written c HASH depth G (it :: t) [] Hok) in Hfst. cbn [fst] in Hfst.
  destruct (run_bodies c HASH depth [] (firstn j bodies) (fun _ => ([], oc))) as [out oc'] eqn:R. cbn [fst] in Hfst.
  exists (List.length out), oc'. rewrite (prefix_of_map_RItem _ _ _ Hfst) at 1. reflexivity.
Qed.

End CutWritten.

Lemma failed_write_prefix_gen {A} : forall (chunks : list (list A)) i j,
  exists k, concat (firstn i chunks) ++ firstn j (nth i chunks []) = firstn k (concat chunks).
Proof.
  induction chunks as [|ch t IH]; intros i j.
  - exists O. destruct i; destruct j; reflexivity.
  - destruct i as [|i].
    + cbn [firstn concat nth app]. exists (Nat.min j (List.length ch)).
      rewrite firstn_app. 
      destruct (Nat.le_gt_cases j (List.length ch)) as [H|H].
      * rewrite Nat.min_l by exact H. assert (E : (j - List.length ch = 0)%nat) by lia. rewrite E, firstn_O, app_nil_r. reflexivity.
      * rewrite Nat.min_r by lia. rewrite Nat.sub_diag, firstn_O, app_nil_r. rewrite firstn_all. apply firstn_all2. lia.
    + cbn [firstn concat nth]. destruct (IH i j) as [k E]. exists (List.length ch + k)%nat.
      rewrite <- app_assoc, E. rewrite firstn_app. rewrite (firstn_all2 ch) by lia.
      replace (List.length ch + k - List.length ch)%nat with k by lia. reflexivity.
Qed.

Lemma failed_write_prefix : forall (chunks : list bytes) i j,
  exists k, concat (firstn i chunks) ++ firstn j (nth i chunks []) = firstn k (concat chunks).
Proof. exact failed_write_prefix_gen. Qed.

(* ---------------------------------------------------------------------------------------------------------------
   A frame that is LOST as a whole (its two write calls failed, the application carried on): the reader's run over the
   remaining frames.  [run_pre] is the run over a list of bodies made explicit: the objects yielded and the registry
   reached, or None when a body raised. *)
Section Dropped.
Variable c : cfg.
Variable HASH : desc -> Z.
Variable depth : nat.

Fixpoint run_pre (reg : registry) (bodies : list bytes) : list robj * option registry :=
  match bodies with
  | [] => ([], Some reg)
  | b :: t =>
      match decode_body c depth reg b with
      | OHeader => run_pre reg t
      | ODesc d => run_pre (reg_add HASH reg d) t
      | OItem it => let '(out, r) := run_pre reg t in (RItem it :: out, r)
      | OForeign => let '(out, r) := run_pre reg t in (RForeign :: out, r)
      | OError => ([], None)
      end
  end.

Lemma run_bodies_pre : forall bodies reg k,
  run_bodies c HASH depth reg bodies k =
  match run_pre reg bodies with
  | (out, Some r) => let '(o, oc) := k r in (out ++ o, oc)
  | (out, None) => (out, Raised)
  end.
Proof.
  induction bodies as [|b t IH]; intros reg k; cbn [run_bodies run_pre].
  - destruct (k reg) as [o oc]. reflexivity.
  - destruct (decode_body c depth reg b) as [|d|it| |].
    + apply IH.
    + apply IH.
    + rewrite IH. destruct (run_pre reg t) as [out [r|]]; [destruct (k r) as [o oc]|]; reflexivity.
    + rewrite IH. destruct (run_pre reg t) as [out [r|]]; [destruct (k r) as [o oc]|]; reflexivity.
    + reflexivity.
Qed.

Lemma run_bodies_app : forall l1 l2 reg k,
  run_bodies c HASH depth reg (l1 ++ l2) k = run_bodies c HASH depth reg l1 (fun r => run_bodies c HASH depth r l2 k).
Proof.
  induction l1 as [|b t IH]; intros l2 reg k; cbn [app run_bodies]; [reflexivity|].
  destruct (decode_body c depth reg b); try reflexivity; rewrite IH; reflexivity.
Qed.

(* The lost frame held a record (or the header, or a foreign object): the reader yields exactly what it yields on the
   complete stream WITHOUT that one object -- every other record unaltered, in order, none skipped, none invented --
   and ends the same way.  If a frame BEFORE the lost one already raised, nothing changes. *)
Theorem dropped_item_frame : forall pre b post reg k,
  match run_pre reg pre with
  | (out, None) =>
      run_bodies c HASH depth reg (pre ++ b :: post) k = (out, Raised) /\
      run_bodies c HASH depth reg (pre ++ post) k = (out, Raised)
  | (out, Some r) =>
      let '(o, oc) := run_bodies c HASH depth r post k in
      match decode_body c depth r b with
      | OItem it =>
          run_bodies c HASH depth reg (pre ++ b :: post) k = (out ++ RItem it :: o, oc) /\
          run_bodies c HASH depth reg (pre ++ post) k = (out ++ o, oc)
      | OForeign =>
          run_bodies c HASH depth reg (pre ++ b :: post) k = (out ++ RForeign :: o, oc) /\
          run_bodies c HASH depth reg (pre ++ post) k = (out ++ o, oc)
      | OHeader =>
          run_bodies c HASH depth reg (pre ++ b :: post) k = run_bodies c HASH depth reg (pre ++ post) k
      | _ => True
      end
  end.
Proof.
  intros pre b post reg k.
  rewrite !run_bodies_app. rewrite !(run_bodies_pre pre).
  destruct (run_pre reg pre) as [out [r|]]; [|split; reflexivity].
  cbn [run_bodies].
  destruct (decode_body c depth r b) as [|d|it| |];
    destruct (run_bodies c HASH depth r post k) as [o oc]; try exact I; try (split; reflexivity); reflexivity.
Qed.

End Dropped.
