(* Proofs about model/Csv.v (property C20). *)
From Coq Require Import List Bool NArith Lia.
From FR Require Import Csv.
Import ListNotations.
Open Scope N_scope.
Open Scope list_scope.

(* ------------------------------------------------------------------------------------------ *)
(* 1. csv_parse (csv_write rows) = rows *)

Section RoundTrip.
Variable d : N.
Hypothesis Hd : delim_ok d = true.

Lemma d_facts : d <> QUOTE /\ d <> CR /\ d <> LF.
Proof.
  unfold delim_ok in Hd. apply andb_prop in Hd. destruct Hd as [H12 H3]. apply andb_prop in H12.
  destruct H12 as [H1 H2].
  rewrite negb_true_iff in H1, H2, H3. rewrite N.eqb_neq in H1, H2, H3. auto.
Qed.

Lemma classify_cr : classify d CR = KCR.
Proof. reflexivity. Qed.
Lemma classify_lf : classify d LF = KLF.
Proof. reflexivity. Qed.
Lemma classify_quote : classify d QUOTE = KQuote.
Proof. reflexivity. Qed.
Lemma classify_delim : classify d d = KDelim.
Proof.
  destruct d_facts as [H1 [H2 H3]]. unfold classify.
  destruct (d =? CR) eqn:E1. { apply N.eqb_eq in E1. contradiction. }
  destruct (d =? LF) eqn:E2. { apply N.eqb_eq in E2. contradiction. }
  destruct (d =? QUOTE) eqn:E3. { apply N.eqb_eq in E3. contradiction. }
  rewrite N.eqb_refl. reflexivity.
Qed.

Definition plainc (c : N) : bool := match classify d c with KOther => true | _ => false end.

Lemma classify_plain : forall c, plainc c = true -> classify d c = KOther.
Proof. intros c H. unfold plainc in H. destruct (classify d c); try discriminate. reflexivity. Qed.

Lemma classify_not_quote : forall c, (c =? QUOTE) = false -> classify d c <> KQuote.
Proof.
  intros c H. unfold classify.
  destruct (c =? CR); [discriminate|]. destruct (c =? LF); [discriminate|]. rewrite H.
  destruct (c =? d); discriminate.
Qed.

Lemma classify_is_quote : forall c, (c =? QUOTE) = true -> classify d c = KQuote.
Proof. intros c H. apply N.eqb_eq in H. subst c. reflexivity. Qed.

(* an unquoted cell that passes cell_ok consists of plain characters *)
Lemma unquoted_plain : forall term s,
  existsb (needs_quote d term) s = false -> cell_ok term s = true -> forallb plainc s = true.
Proof.
  intros term s. induction s as [|c s IH]; intros Hq Hok; [reflexivity|].
  simpl in Hq, Hok |- *. apply orb_false_iff in Hq. destruct Hq as [Hc Hq].
  apply andb_prop in Hok. destruct Hok as [Hokc Hok].
  rewrite (IH Hq Hok), andb_true_r.
  unfold needs_quote in Hc. apply orb_false_iff in Hc. destruct Hc as [Hc Ht].
  apply orb_false_iff in Hc. destruct Hc as [Hcd Hcq].
  rewrite Ht, orb_false_r, negb_true_iff in Hokc. apply orb_false_iff in Hokc. destruct Hokc as [Hcr Hlf].
  unfold plainc, classify. rewrite Hcr, Hlf, Hcq, Hcd. reflexivity.
Qed.

Arguments classify : simpl never.

(* state IF consumes a run of plain characters *)
Lemma parse_IF_plain : forall s, forallb plainc s = true -> forall fld rw rest,
  parse d IF fld rw (s ++ rest) = parse d IF (rev s ++ fld) rw rest.
Proof.
  induction s as [|c s IH]; intros Hp fld rw rest; [reflexivity|].
  simpl in Hp. apply andb_prop in Hp. destruct Hp as [Hc Hp].
  simpl. rewrite (classify_plain c Hc). rewrite (IH Hp). rewrite <- app_assoc. reflexivity.
Qed.

(* state IQ consumes an escaped run of arbitrary characters *)
Lemma parse_IQ_escaped : forall s fld rw rest,
  parse d IQ fld rw (flat_map esc s ++ rest) = parse d IQ (rev s ++ fld) rw rest.
Proof.
  induction s as [|c s IH]; intros fld rw rest; [reflexivity|].
  simpl. unfold esc at 1. destruct (c =? QUOTE) eqn:Eq.
  - apply N.eqb_eq in Eq. subst c. simpl. rewrite ?classify_quote. simpl. rewrite ?classify_quote.
    rewrite IH. rewrite <- app_assoc. reflexivity.
  - simpl. pose proof (classify_not_quote c Eq) as Hn.
    destruct (classify d c) eqn:Ec; try contradiction; rewrite IH, <- app_assoc; reflexivity.
Qed.

(* start states: a field starts in SF, or in SR with an empty row *)
Definition startst (st : pstate) (rw : list cell) : Prop := st = SF \/ (st = SR /\ rw = []).

Lemma rev_rev_cons : forall (s : text) (c : N), rev (rev s ++ [c]) = c :: s.
Proof. intros. rewrite rev_app_distr, rev_involutive. reflexivity. Qed.

(* a written cell followed by the delimiter *)
Lemma cell_then_delim : forall term s st rw rest,
  cell_ok term s = true -> startst st rw ->
  parse d st [] rw (write_cell d term s ++ d :: rest) = parse d SF [] (s :: rw) rest.
Proof.
  intros term s st rw rest Hok Hst. unfold write_cell.
  destruct (existsb (needs_quote d term) s) eqn:Eq.
  - (* quoted *)
    assert (H1 : parse d st [] rw ((QUOTE :: flat_map esc s ++ [QUOTE]) ++ d :: rest)
                 = parse d IQ [] rw (flat_map esc s ++ QUOTE :: d :: rest)).
    { destruct Hst as [-> | [-> ->]]; simpl; rewrite ?classify_quote, <- app_assoc; reflexivity. }
    rewrite H1, parse_IQ_escaped. simpl. rewrite ?classify_quote, classify_delim.
    rewrite app_nil_r, rev_involutive. reflexivity.
  - (* unquoted *)
    pose proof (unquoted_plain term s Eq Hok) as Hp.
    destruct s as [|c s].
    + destruct Hst as [-> | [-> ->]]; simpl; rewrite classify_delim; reflexivity.
    + simpl in Hp. apply andb_prop in Hp. destruct Hp as [Hc Hp].
      assert (H1 : parse d st [] rw ((c :: s) ++ d :: rest) = parse d IF [c] rw (s ++ d :: rest)).
      { destruct Hst as [-> | [-> ->]]; simpl; rewrite (classify_plain c Hc); reflexivity. }
      rewrite H1, (parse_IF_plain s Hp). simpl. rewrite classify_delim, rev_rev_cons. reflexivity.
Qed.

Definition term_ok (term : text) : Prop := term = CRLF \/ term = [LF].

(* reading the terminator in a state that ends the current field *)
Lemma term_ends_row : forall term st fld rw rest, term_ok term -> (st = IF \/ st = QQ) ->
  parse d st fld rw (term ++ rest) = finish fld rw :: parse d SR [] [] rest.
Proof.
  intros term st fld rw rest [-> | ->] [-> | ->]; simpl;
    rewrite ?classify_cr, ?classify_lf; simpl; rewrite ?classify_lf; reflexivity.
Qed.
Lemma term_ends_row_SF : forall term rw rest, term_ok term ->
  parse d SF [] rw (term ++ rest) = finish [] rw :: parse d SR [] [] rest.
Proof.
  intros term rw rest [-> | ->]; simpl; rewrite ?classify_cr, ?classify_lf; simpl; rewrite ?classify_lf; reflexivity.
Qed.
Lemma term_ends_row_SR : forall term rest, term_ok term ->
  parse d SR [] [] (term ++ rest) = [] :: parse d SR [] [] rest.
Proof.
  intros term rest [-> | ->]; simpl; rewrite ?classify_cr, ?classify_lf; simpl; rewrite ?classify_lf; reflexivity.
Qed.

(* a written cell followed by the terminator; from SR the cell must not be the unquoted empty cell *)
Lemma cell_then_term : forall term s st rw rest,
  term_ok term -> cell_ok term s = true ->
  (st = SF \/ (st = SR /\ rw = [] /\ s <> [])) ->
  parse d st [] rw (write_cell d term s ++ term ++ rest) = rev (s :: rw) :: parse d SR [] [] rest.
Proof.
  intros term s st rw rest Ht Hok Hst. unfold write_cell.
  destruct (existsb (needs_quote d term) s) eqn:Eq.
  - assert (H1 : parse d st [] rw ((QUOTE :: flat_map esc s ++ [QUOTE]) ++ term ++ rest)
                 = parse d IQ [] rw (flat_map esc s ++ QUOTE :: term ++ rest)).
    { destruct Hst as [-> | [-> [-> _]]]; simpl; rewrite ?classify_quote, <- app_assoc; reflexivity. }
    rewrite H1, parse_IQ_escaped. simpl. rewrite ?classify_quote.
    rewrite (term_ends_row term QQ _ rw rest Ht (or_intror eq_refl)).
    unfold finish. rewrite app_nil_r, rev_involutive. reflexivity.
  - pose proof (unquoted_plain term s Eq Hok) as Hp.
    destruct s as [|c s].
    + destruct Hst as [-> | [_ [_ Hne]]]; [|contradiction].
      simpl. rewrite (term_ends_row_SF term rw rest Ht). reflexivity.
    + simpl in Hp. apply andb_prop in Hp. destruct Hp as [Hc Hp].
      assert (H1 : parse d st [] rw ((c :: s) ++ term ++ rest) = parse d IF [c] rw (s ++ term ++ rest)).
      { destruct Hst as [-> | [-> [-> _]]]; simpl; rewrite (classify_plain c Hc); reflexivity. }
      rewrite H1, (parse_IF_plain s Hp).
      rewrite (term_ends_row term IF _ rw rest Ht (or_introl eq_refl)).
      unfold finish. rewrite rev_rev_cons. reflexivity.
Qed.

Lemma app_single : forall (x : N) (l : text), [x] ++ l = x :: l.
Proof. reflexivity. Qed.

Lemma join_cons2 : forall sep (x y : text) l, join sep (x :: y :: l) = x ++ sep ++ join sep (y :: l).
Proof. reflexivity. Qed.

(* the cells after the first one *)
Lemma cells_from_SF : forall term cs rw rest,
  term_ok term -> forallb (cell_ok term) cs = true -> cs <> [] ->
  parse d SF [] rw (join [d] (map (write_cell d term) cs) ++ term ++ rest)
  = (rev rw ++ cs) :: parse d SR [] [] rest.
Proof.
  intros term cs. induction cs as [|s cs IH]; intros rw rest Ht Hok Hne; [contradiction|].
  simpl in Hok. apply andb_prop in Hok. destruct Hok as [Hs Hcs].
  destruct cs as [|s2 cs].
  - simpl. rewrite (cell_then_term term s SF rw rest Ht Hs (or_introl eq_refl)). reflexivity.
  - change (map (write_cell d term) (s :: s2 :: cs))
      with (write_cell d term s :: write_cell d term s2 :: map (write_cell d term) cs).
    rewrite join_cons2. rewrite <- !app_assoc. rewrite app_single.
    rewrite (cell_then_delim term s SF rw _ Hs (or_introl eq_refl)).
    change (write_cell d term s2 :: map (write_cell d term) cs) with (map (write_cell d term) (s2 :: cs)).
    rewrite (IH (s :: rw) rest Ht Hcs ltac:(discriminate)).
    simpl. rewrite <- app_assoc. reflexivity.
Qed.

Lemma write_row_multi : forall term (s s2 : cell) r,
  write_row d term (s :: s2 :: r) = join [d] (map (write_cell d term) (s :: s2 :: r)) ++ term.
Proof. intros. destruct s; reflexivity. Qed.

(* one written row *)
Lemma row_round_trip : forall term r rest,
  term_ok term -> forallb (cell_ok term) r = true ->
  parse d SR [] [] (write_row d term r ++ rest) = r :: parse d SR [] [] rest.
Proof.
  intros term r rest Ht Hok. destruct r as [|s r].
  - (* the empty row *) simpl. apply term_ends_row_SR. exact Ht.
  - simpl in Hok. apply andb_prop in Hok. destruct Hok as [Hs Hr].
    destruct r as [|s2 r].
    + destruct s as [|c s].
      * (* the row with one empty cell is written as two quotes *)
        simpl. rewrite ?classify_quote. simpl. rewrite ?classify_quote.
        rewrite (term_ends_row term QQ [] [] rest Ht (or_intror eq_refl)). reflexivity.
      * unfold write_row. simpl join. rewrite <- app_assoc.
        rewrite (cell_then_term term (c :: s) SR [] rest Ht Hs).
        { reflexivity. }
        right. repeat split. discriminate.
    + rewrite write_row_multi.
      change (map (write_cell d term) (s :: s2 :: r))
        with (write_cell d term s :: write_cell d term s2 :: map (write_cell d term) r).
      rewrite join_cons2. rewrite <- !app_assoc. rewrite app_single.
      rewrite (cell_then_delim term s SR [] _ Hs (or_intror (conj eq_refl eq_refl))).
      change (write_cell d term s2 :: map (write_cell d term) r) with (map (write_cell d term) (s2 :: r)).
      rewrite (cells_from_SF term (s2 :: r) [s] rest Ht Hr ltac:(discriminate)). reflexivity.
Qed.

Theorem csv_round_trip : forall term rows,
  term_ok term -> rows_ok term rows = true -> csv_parse d (csv_write d term rows) = rows.
Proof.
  intros term rows Ht. unfold csv_parse, csv_write, rows_ok.
  induction rows as [|r rows IH]; intros Hok; [reflexivity|].
  simpl in Hok. apply andb_prop in Hok. destruct Hok as [Hr Hrows].
  simpl. rewrite (row_round_trip term r _ Ht Hr). rewrite (IH Hrows). reflexivity.
Qed.

End RoundTrip.

Lemma rows_ok_crlf : forall rows, rows_ok CRLF rows = true.
Proof.
  intros rows. unfold rows_ok. apply forallb_forall. intros r _. apply forallb_forall. intros s _.
  unfold cell_ok. apply forallb_forall. intros c _. unfold CRLF. simpl.
  destruct (c =? CR); [reflexivity|]. destruct (c =? LF); reflexivity.
Qed.

Theorem csv_round_trip_crlf : forall d rows, delim_ok d = true -> csv_parse d (csv_write d CRLF rows) = rows.
Proof.
  intros d rows Hd. apply csv_round_trip; [exact Hd|left; reflexivity|apply rows_ok_crlf].
Qed.

(* with the terminator LF the cells must not hold CR *)
Lemma rows_ok_lf : forall rows,
  Forall (Forall (fun s : cell => ~ In CR s)) rows -> rows_ok [LF] rows = true.
Proof.
  intros rows H. unfold rows_ok. apply forallb_forall. intros r Hr. apply forallb_forall. intros s Hs.
  rewrite Forall_forall in H. specialize (H r Hr). rewrite Forall_forall in H. specialize (H s Hs).
  unfold cell_ok. apply forallb_forall. intros c Hc. simpl.
  destruct (c =? CR) eqn:E1.
  - apply N.eqb_eq in E1. subst c. contradiction.
  - simpl. destruct (c =? LF); reflexivity.
Qed.

Theorem csv_round_trip_lf : forall d rows, delim_ok d = true ->
  Forall (Forall (fun s : cell => ~ In CR s)) rows -> csv_parse d (csv_write d [LF] rows) = rows.
Proof.
  intros d rows Hd H. apply csv_round_trip; [exact Hd|right; reflexivity|apply rows_ok_lf; exact H].
Qed.
