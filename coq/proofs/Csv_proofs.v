(* Proofs about model/Csv.v (property C20). *)
From Coq Require Import List Bool NArith Lia.
From FR Require Import Csv.
Import ListNotations.
Open Scope N_scope.
Open Scope list_scope.

(* ------------------------------------------------------------------------------------------ *)
(* 1. csv_parse (csv_write rows) = rows *)

Section RoundTrip.
Variable d : N.
Hypothesis Hd : delim_ok d = true.

Lemma d_facts : d <> QUOTE /\ d <> CR /\ d <> LF.
Proof.
  unfold delim_ok in Hd. apply andb_prop in Hd. destruct Hd as [H12 H3]. apply andb_prop in H12.
  destruct H12 as [H1 H2].
  rewrite negb_true_iff in H1, H2, H3. rewrite N.eqb_neq in H1, H2, H3. auto.
Qed.

Lemma classify_cr : classify d CR = KCR.
Proof. reflexivity. Qed.
Lemma classify_lf : classify d LF = KLF.
Proof. reflexivity. Qed.
Lemma classify_quote : classify d QUOTE = KQuote.
Proof. reflexivity. Qed.
Lemma classify_delim : classify d d = KDelim.
Proof.
  destruct d_facts as [H1 [H2 H3]]. unfold classify.
  destruct (d =? CR) eqn:E1. { apply N.eqb_eq in E1. contradiction. }
  destruct (d =? LF) eqn:E2. { apply N.eqb_eq in E2. contradiction. }
  destruct (d =? QUOTE) eqn:E3. { apply N.eqb_eq in E3. contradiction. }
  rewrite N.eqb_refl. reflexivity.
Qed.

Definition plainc (c : N) : bool := match classify d c with KOther => true | _ => false end.

Lemma classify_plain : forall c, plainc c = true -> classify d c = KOther.
Proof. intros c H. unfold plainc in H. destruct (classify d c); try discriminate. reflexivity. Qed.

Lemma classify_not_quote : forall c, (c =? QUOTE) = false -> classify d c <> KQuote.
Proof.
  intros c H. unfold classify.
  destruct (c =? CR); [discriminate|]. destruct (c =? LF); [discriminate|]. rewrite H.
  destruct (c =? d); discriminate.
Qed.

Lemma classify_is_quote : forall c, (c =? QUOTE) = true -> classify d c = KQuote.
Proof. intros c H. apply N.eqb_eq in H. subst c. reflexivity. Qed.

(* an unquoted cell that passes cell_ok consists of plain characters *)
Lemma unquoted_plain : forall term s,
  existsb (needs_quote d term) s = false -> cell_ok term s = true -> forallb plainc s = true.
Proof.
  intros term s. induction s as [|c s IH]; intros Hq Hok; [reflexivity|].
  simpl in Hq, Hok |- *. apply orb_false_iff in Hq. destruct Hq as [Hc Hq].
  apply andb_prop in Hok. destruct Hok as [Hokc Hok].
  rewrite (IH Hq Hok), andb_true_r.
  unfold needs_quote in Hc. apply orb_false_iff in Hc. destruct Hc as [Hc Ht].
  apply orb_false_iff in Hc. destruct Hc as [Hcd Hcq].
  rewrite Ht, orb_false_r, negb_true_iff in Hokc. apply orb_false_iff in Hokc. destruct Hokc as [Hcr Hlf].
  unfold plainc, classify. rewrite Hcr, Hlf, Hcq, Hcd. reflexivity.
Qed.

Arguments classify : simpl never.

(* state IF consumes a run of plain characters *)
Lemma parse_IF_plain : forall s, forallb plainc s = true -> forall fld rw rest,
  parse d IF fld rw (s ++ rest) = parse d IF (rev s ++ fld) rw rest.
Proof.
  induction s as [|c s IH]; intros Hp fld rw rest; [reflexivity|].
  simpl in Hp. apply andb_prop in Hp. destruct Hp as [Hc Hp].
  simpl. rewrite (classify_plain c Hc). rewrite (IH Hp). rewrite <- app_assoc. reflexivity.
Qed.

(* state IQ consumes an escaped run of arbitrary characters *)
Lemma parse_IQ_escaped : forall s fld rw rest,
  parse d IQ fld rw (flat_map esc s ++ rest) = parse d IQ (rev s ++ fld) rw rest.
Proof.
  induction s as [|c s IH]; intros fld rw rest; [reflexivity|].
  simpl. unfold esc at 1. destruct (c =? QUOTE) eqn:Eq.
  - apply N.eqb_eq in Eq. subst c. simpl. rewrite ?classify_quote. simpl. rewrite ?classify_quote.
    rewrite IH. rewrite <- app_assoc. reflexivity.
  - simpl. pose proof (classify_not_quote c Eq) as Hn.
    destruct (classify d c) eqn:Ec; try contradiction; rewrite IH, <- app_assoc; reflexivity.
Qed.

(* start states: a field starts in SF, or in SR with an empty row *)
Definition startst (st : pstate) (rw : list cell) : Prop := st = SF \/ (st = SR /\ rw = []).

Lemma rev_rev_cons : forall (s : text) (c : N), rev (rev s ++ [c]) = c :: s.
Proof. intros. rewrite rev_app_distr, rev_involutive. reflexivity. Qed.

(* a written cell followed by the delimiter *)
Lemma cell_then_delim : forall term s st rw rest,
  cell_ok term s = true -> startst st rw ->
  parse d st [] rw (write_cell d term s ++ d :: rest) = parse d SF [] (s :: rw) rest.
Proof.
  intros term s st rw rest Hok Hst. unfold write_cell.
  destruct (existsb (needs_quote d term) s) eqn:Eq.
  - (* quoted *)
    assert (H1 : parse d st [] rw ((QUOTE :: flat_map esc s ++ [QUOTE]) ++ d :: rest)
                 = parse d IQ [] rw (flat_map esc s ++ QUOTE :: d :: rest)).
    { destruct Hst as [-> | [-> ->]]; simpl; rewrite ?classify_quote, <- app_assoc; reflexivity. }
    rewrite H1, parse_IQ_escaped. simpl. rewrite ?classify_quote, classify_delim.
    rewrite app_nil_r, rev_involutive. reflexivity.
  - (* unquoted *)
    pose proof (unquoted_plain term s Eq Hok) as Hp.
    destruct s as [|c s].
    + destruct Hst as [-> | [-> ->]]; simpl; rewrite classify_delim; reflexivity.
    + simpl in Hp. apply andb_prop in Hp. destruct Hp as [Hc Hp].
      assert (H1 : parse d st [] rw ((c :: s) ++ d :: rest) = parse d IF [c] rw (s ++ d :: rest)).
      { destruct Hst as [-> | [-> ->]]; simpl; rewrite (classify_plain c Hc); reflexivity. }
      rewrite H1, (parse_IF_plain s Hp). simpl. rewrite classify_delim, rev_rev_cons. reflexivity.
Qed.

Definition term_ok (term : text) : Prop := term = CRLF \/ term = [LF].

(* reading the terminator in a state that ends the current field *)
Lemma term_ends_row : forall term st fld rw rest, term_ok term -> (st = IF \/ st = QQ) ->
  parse d st fld rw (term ++ rest) = finish fld rw :: parse d SR [] [] rest.
Proof.
  intros term st fld rw rest [-> | ->] [-> | ->]; simpl;
    rewrite ?classify_cr, ?classify_lf; simpl; rewrite ?classify_lf; reflexivity.
Qed.
Lemma term_ends_row_SF : forall term rw rest, term_ok term ->
  parse d SF [] rw (term ++ rest) = finish [] rw :: parse d SR [] [] rest.
Proof.
  intros term rw rest [-> | ->]; simpl; rewrite ?classify_cr, ?classify_lf; simpl; rewrite ?classify_lf; reflexivity.
Qed.
Lemma term_ends_row_SR : forall term rest, term_ok term ->
  parse d SR [] [] (term ++ rest) = [] :: parse d SR [] [] rest.
Proof.
  intros term rest [-> | ->]; simpl; rewrite ?classify_cr, ?classify_lf; simpl; rewrite ?classify_lf; reflexivity.
Qed.

(* a written cell followed by the terminator; from SR the cell must not be the unquoted empty cell *)
Lemma cell_then_term : forall term s st rw rest,
  term_ok term -> cell_ok term s = true ->
  (st = SF \/ (st = SR /\ rw = [] /\ s <> [])) ->
  parse d st [] rw (write_cell d term s ++ term ++ rest) = rev (s :: rw) :: parse d SR [] [] rest.
Proof.
  intros term s st rw rest Ht Hok Hst. unfold write_cell.
  destruct (existsb (needs_quote d term) s) eqn:Eq.
  - assert (H1 : parse d st [] rw ((QUOTE :: flat_map esc s ++ [QUOTE]) ++ term ++ rest)
                 = parse d IQ [] rw (flat_map esc s ++ QUOTE :: term ++ rest)).
    { destruct Hst as [-> | [-> [-> _]]]; simpl; rewrite ?classify_quote, <- app_assoc; reflexivity. }
    rewrite H1, parse_IQ_escaped. simpl. rewrite ?classify_quote.
    rewrite (term_ends_row term QQ _ rw rest Ht (or_intror eq_refl)).
    unfold finish. rewrite app_nil_r, rev_involutive. reflexivity.
  - pose proof (unquoted_plain term s Eq Hok) as Hp.
    destruct s as [|c s].
    + destruct Hst as [-> | [_ [_ Hne]]]; [|contradiction].
      simpl. rewrite (term_ends_row_SF term rw rest Ht). reflexivity.
    + simpl in Hp. apply andb_prop in Hp. destruct Hp as [Hc Hp].
      assert (H1 : parse d st [] rw ((c :: s) ++ term ++ rest) = parse d IF [c] rw (s ++ term ++ rest)).
      { destruct Hst as [-> | [-> [-> _]]]; simpl; rewrite (classify_plain c Hc); reflexivity. }
      rewrite H1, (parse_IF_plain s Hp).
      rewrite (term_ends_row term IF _ rw rest Ht (or_introl eq_refl)).
      unfold finish. rewrite rev_rev_cons. reflexivity.
Qed.

Lemma app_single : forall (x : N) (l : text), [x] ++ l = x :: l.
Proof. reflexivity. Qed.

Lemma join_cons2 : forall sep (x y : text) l, join sep (x :: y :: l) = x ++ sep ++ join sep (y :: l).
Proof. reflexivity. Qed.

(* the cells after the first one *)
Lemma cells_from_SF : forall term cs rw rest,
  term_ok term -> forallb (cell_ok term) cs = true -> cs <> [] ->
  parse d SF [] rw (join [d] (map (write_cell d term) cs) ++ term ++ rest)
  = (rev rw ++ cs) :: parse d SR [] [] rest.
Proof.
  intros term cs. induction cs as [|s cs IH]; intros rw rest Ht Hok Hne; [contradiction|].
  simpl in Hok. apply andb_prop in Hok. destruct Hok as [Hs Hcs].
  destruct cs as [|s2 cs].
  - simpl. rewrite (cell_then_term term s SF rw rest Ht Hs (or_introl eq_refl)). reflexivity.
  - change (map (write_cell d term) (s :: s2 :: cs))
      with (write_cell d term s :: write_cell d term s2 :: map (write_cell d term) cs).
    rewrite join_cons2. rewrite <- !app_assoc. rewrite app_single.
    rewrite (cell_then_delim term s SF rw _ Hs (or_introl eq_refl)).
    change (write_cell d term s2 :: map (write_cell d term) cs) with (map (write_cell d term) (s2 :: cs)).
    rewrite (IH (s :: rw) rest Ht Hcs ltac:(discriminate)).
    simpl. rewrite <- app_assoc. reflexivity.
Qed.

Lemma write_row_multi : forall term (s s2 : cell) r,
  write_row d term (s :: s2 :: r) = join [d] (map (write_cell d term) (s :: s2 :: r)) ++ term.
Proof. intros. destruct s; reflexivity. Qed.

(* one written row *)
Lemma row_round_trip : forall term r rest,
  term_ok term -> forallb (cell_ok term) r = true ->
  parse d SR [] [] (write_row d term r ++ rest) = r :: parse d SR [] [] rest.
Proof.
  intros term r rest Ht Hok. destruct r as [|s r].
  - (* the empty row *) simpl. apply term_ends_row_SR. exact Ht.
  - simpl in Hok. apply andb_prop in Hok. destruct Hok as [Hs Hr].
    destruct r as [|s2 r].
    + destruct s as [|c s].
      * (* the row with one empty cell is written as two quotes *)
        simpl. rewrite ?classify_quote. simpl. rewrite ?classify_quote.
        rewrite (term_ends_row term QQ [] [] rest Ht (or_intror eq_refl)). reflexivity.
      * unfold write_row. simpl join. rewrite <- app_assoc.
        rewrite (cell_then_term term (c :: s) SR [] rest Ht Hs).
        { reflexivity. }
        right. repeat split. discriminate.
    + rewrite write_row_multi.
      change (map (write_cell d term) (s :: s2 :: r))
        with (write_cell d term s :: write_cell d term s2 :: map (write_cell d term) r).
      rewrite join_cons2. rewrite <- !app_assoc. rewrite app_single.
      rewrite (cell_then_delim term s SR [] _ Hs (or_intror (conj eq_refl eq_refl))).
      change (write_cell d term s2 :: map (write_cell d term) r) with (map (write_cell d term) (s2 :: r)).
      rewrite (cells_from_SF term (s2 :: r) [s] rest Ht Hr ltac:(discriminate)). reflexivity.
Qed.

Theorem csv_round_trip : forall term rows,
  term_ok term -> rows_ok term rows = true -> csv_parse d (csv_write d term rows) = rows.
Proof.
  intros term rows Ht. unfold csv_parse, csv_write, rows_ok.
  induction rows as [|r rows IH]; intros Hok; [reflexivity|].
  simpl in Hok. apply andb_prop in Hok. destruct Hok as [Hr Hrows].
  simpl. rewrite (row_round_trip term r _ Ht Hr). rewrite (IH Hrows). reflexivity.
Qed.

End RoundTrip.

Lemma rows_ok_crlf : forall rows, rows_ok CRLF rows = true.
Proof.
  intros rows. unfold rows_ok. apply forallb_forall. intros r _. apply forallb_forall. intros s _.
  unfold cell_ok. apply forallb_forall. intros c _. unfold CRLF. simpl.
  destruct (c =? CR); [reflexivity|]. destruct (c =? LF); reflexivity.
Qed.

Theorem csv_round_trip_crlf : forall d rows, delim_ok d = true -> csv_parse d (csv_write d CRLF rows) = rows.
Proof.
  intros d rows Hd. apply csv_round_trip; [exact Hd|left; reflexivity|apply rows_ok_crlf].
Qed.

(* with the terminator LF the cells must not hold CR *)
Lemma rows_ok_lf : forall rows,
  Forall (Forall (fun s : cell => ~ In CR s)) rows -> rows_ok [LF] rows = true.
Proof.
  intros rows H. unfold rows_ok. apply forallb_forall. intros r Hr. apply forallb_forall. intros s Hs.
  rewrite Forall_forall in H. specialize (H r Hr). rewrite Forall_forall in H. specialize (H s Hs).
  unfold cell_ok. apply forallb_forall. intros c Hc. simpl.
  destruct (c =? CR) eqn:E1.
  - apply N.eqb_eq in E1. subst c. contradiction.
  - simpl. destruct (c =? LF); reflexivity.
Qed.

Theorem csv_round_trip_lf : forall d rows, delim_ok d = true ->
  Forall (Forall (fun s : cell => ~ In CR s)) rows -> csv_parse d (csv_write d [LF] rows) = rows.
Proof.
  intros d rows Hd H. apply csv_round_trip; [exact Hd|right; reflexivity|apply rows_ok_lf; exact H].
Qed.

(* ------------------------------------------------------------------------------------------ *)
(* 2. CsvfileWriter: layout *)

Lemma text_eqb_eq : forall a b, text_eqb a b = true -> a = b.
Proof.
  induction a as [|x a IH]; destruct b as [|y b]; simpl; intros H; try discriminate; [reflexivity|].
  apply andb_prop in H. destruct H as [H1 H2]. apply N.eqb_eq in H1. subst y. f_equal. apply IH. exact H2.
Qed.
Lemma text_eqb_refl : forall a, text_eqb a a = true.
Proof. induction a as [|x a IH]; simpl; [reflexivity|]. rewrite N.eqb_refl, IH. reflexivity. Qed.
Lemma text_eqb_neq : forall a b, text_eqb a b = false -> a <> b.
Proof. intros a b H E. subst b. rewrite text_eqb_refl in H. discriminate. Qed.
Lemma text_eqb_sym : forall a b, text_eqb a b = text_eqb b a.
Proof.
  intros a b. destruct (text_eqb a b) eqn:E1.
  - apply text_eqb_eq in E1. subst b. symmetry. apply text_eqb_refl.
  - destruct (text_eqb b a) eqn:E2; [|reflexivity]. apply text_eqb_eq in E2. subst b.
    rewrite text_eqb_refl in E1. discriminate.
Qed.

Lemma pairs_eqb_eq : forall a b, pairs_eqb a b = true -> a = b.
Proof.
  induction a as [|[x1 x2] a IH]; destruct b as [|[y1 y2] b]; simpl; intros H; try discriminate; [reflexivity|].
  apply andb_prop in H. destruct H as [H12 H3]. apply andb_prop in H12. destruct H12 as [H1 H2].
  apply text_eqb_eq in H1. apply text_eqb_eq in H2. subst. f_equal. apply IH. exact H3.
Qed.
Lemma pairs_eqb_refl : forall a, pairs_eqb a a = true.
Proof. induction a as [|[x1 x2] a IH]; simpl; [reflexivity|]. rewrite !text_eqb_refl, IH. reflexivity. Qed.
Lemma desc_eqb_eq : forall a b : desc, desc_eqb a b = true -> a = b.
Proof.
  intros [a1 a2] [b1 b2] H. unfold desc_eqb in H. simpl in H. apply andb_prop in H. destruct H as [H1 H2].
  apply text_eqb_eq in H1. apply pairs_eqb_eq in H2. subst. reflexivity.
Qed.
Lemma desc_eqb_refl : forall a : desc, desc_eqb a a = true.
Proof. intros [a1 a2]. unfold desc_eqb. simpl. rewrite text_eqb_refl, pairs_eqb_refl. reflexivity. Qed.

Lemma mem_In : forall k l, mem k l = true <-> In k l.
Proof.
  intros k l. unfold mem. rewrite existsb_exists. split.
  - intros [x [Hin He]]. apply text_eqb_eq in He. subst x. exact Hin.
  - intros H. exists k. split; [exact H|apply text_eqb_refl].
Qed.
Lemma mem_false : forall k l, mem k l = false <-> ~ In k l.
Proof.
  intros k l. split.
  - intros H Hin. apply mem_In in Hin. rewrite Hin in H. discriminate.
  - intros H. destruct (mem k l) eqn:E; [|reflexivity]. apply mem_In in E. contradiction.
Qed.

(* the dictionary built from (key, value) pairs has distinct keys, all taken from the pairs *)
Lemma dedup_aux_spec : forall l seen,
  NoDup (map i_key (dedup_aux seen l))
  /\ (forall it, In it (dedup_aux seen l) -> In it l /\ ~ In (i_key it) seen).
Proof.
  induction l as [|it l IH]; intros seen; simpl.
  - split; [constructor|intros it []].
  - destruct (mem (i_key it) seen) eqn:E.
    + destruct (IH seen) as [H1 H2]. split; [exact H1|]. intros x Hx. destruct (H2 x Hx) as [Ha Hb]. auto.
    + destruct (IH (i_key it :: seen)) as [H1 H2]. split.
      * simpl. constructor; [|exact H1]. intros Hin. apply in_map_iff in Hin. destruct Hin as [x [Hk Hx]].
        destruct (H2 x Hx) as [_ Hb]. apply Hb. left. symmetry. exact Hk.
      * intros x [Hx | Hx].
        -- subst x. split; [left; reflexivity|]. apply mem_false. exact E.
        -- destruct (H2 x Hx) as [Ha Hb]. split; [right; exact Ha|]. intros Hc. apply Hb. right. exact Hc.
Qed.
Lemma dedup_NoDup : forall l, NoDup (map i_key (dedup l)).
Proof. intros l. apply (dedup_aux_spec l []). Qed.
Lemma dedup_incl : forall l it, In it (dedup l) -> In it l.
Proof. intros l it H. apply (dedup_aux_spec l []). exact H. Qed.

Lemma find_item_In : forall k l it, find_item k l = Some it -> In it l /\ i_key it = k.
Proof.
  intros k l it H. unfold find_item in H. apply find_some in H. destruct H as [H1 H2].
  split; [exact H1|apply text_eqb_eq; exact H2].
Qed.

Lemma asdict_NoDup : forall f e items, NoDup (map i_key (asdict f e items)).
Proof. intros f e items. unfold asdict. destruct f as [[|k ks]|]; apply dedup_NoDup. Qed.
Lemma asdict_incl : forall f e items it, In it (asdict f e items) -> In it items.
Proof.
  intros f e items it H. unfold asdict in H.
  assert (Hfilter : In it (dedup (filter (fun it0 => negb (mem (i_key it0)
            match e with Some l => l | None => [] end)) items)) -> In it items).
  { intros H0. apply dedup_incl in H0. apply filter_In in H0. tauto. }
  destruct f as [[|k ks]|]; try (apply Hfilter; exact H).
  apply dedup_incl in H. apply in_flat_map in H. destruct H as [k' [_ Hk]].
  destruct (find_item k' items) as [x|] eqn:Ef; [|destruct Hk].
  destruct (mem k' match e with Some l => l | None => [] end); [destruct Hk|].
  destruct Hk as [Hk|[]]. subst x. apply find_item_In in Ef. tauto.
Qed.
Lemma selected_NoDup : forall o r, NoDup (map i_key (selected o r)).
Proof. intros. apply asdict_NoDup. Qed.
Lemma selected_incl : forall o r it, In it (selected o r) -> In it (rec_items r).
Proof. intros o r it. apply asdict_incl. Qed.

Lemma find_item_NoDup : forall d it, NoDup (map i_key d) -> In it d -> find_item (i_key it) d = Some it.
Proof.
  induction d as [|x d IH]; intros it Hnd Hin; [destruct Hin|].
  simpl in Hnd. inversion Hnd as [|k ks Hnotin Hnd']. subst.
  unfold find_item. simpl. destruct Hin as [-> | Hin].
  - rewrite text_eqb_refl. reflexivity.
  - destruct (text_eqb (i_key x) (i_key it)) eqn:E.
    + apply text_eqb_eq in E. exfalso. apply Hnotin. rewrite E. apply in_map. exact Hin.
    + apply (IH it Hnd' Hin).
Qed.

(* DictWriter.writerow with the writer's own field names = the values in dictionary order *)
Lemma dict_row_own_keys : forall d, NoDup (map i_key d) -> dict_row (map i_key d) d = Some (map cell_of d).
Proof.
  intros d Hnd. unfold dict_row.
  assert (H1 : forallb (fun it => mem (i_key it) (map i_key d)) d = true).
  { apply forallb_forall. intros it Hin. apply mem_In. apply in_map. exact Hin. }
  rewrite H1. f_equal. rewrite map_map. apply map_ext_in. intros it Hin.
  rewrite (find_item_NoDup d it Hnd Hin). reflexivity.
Qed.

Section Layout.
Variable c : cfg.
Variable o : opts.

Definition st_inv (st : cstate) (rs : list rec) : Prop :=
  match c_desc st with
  | None => True
  | Some d0 => forall r, In r rs -> desc_eqb d0 (rec_desc c r) = true -> c_names st = map i_key (selected o r)
  end.

Lemma keys_agree_tail : forall r rs, keys_agree c o (r :: rs) -> keys_agree c o rs.
Proof. intros r rs H a b Ha Hb. apply H; right; assumption. Qed.

Lemma csvw_run_layout : forall rs st, keys_agree c o rs -> st_inv st rs ->
  csvw_run c o st rs = Some (layout_prev c o (c_desc st) rs).
Proof.
  induction rs as [|r rs IH]; intros st Hka Hinv; [reflexivity|].
  pose proof (keys_agree_tail r rs Hka) as Hka'.
  assert (Hnew : csvw_run c o {| c_desc := Some (rec_desc c r); c_names := map i_key (selected o r) |} rs
                 = Some (layout_prev c o (Some (rec_desc c r)) rs)).
  { rewrite (IH {| c_desc := Some (rec_desc c r); c_names := map i_key (selected o r) |} Hka'); [reflexivity|].
    unfold st_inv. simpl. intros r' Hin He. apply Hka; [left; reflexivity|right; exact Hin|exact He]. }
  simpl. unfold csvw_step.
  destruct (c_desc st) as [d0|] eqn:Ed.
  - destruct (desc_eqb d0 (rec_desc c r)) eqn:Ee; simpl.
    + (* same descriptor: no header *)
      assert (Hn : c_names st = map i_key (selected o r)).
      { unfold st_inv in Hinv. rewrite Ed in Hinv. apply Hinv; [left; reflexivity|exact Ee]. }
      rewrite Hn, (dict_row_own_keys _ (selected_NoDup o r)).
      assert (Hst : csvw_run c o st rs = Some (layout_prev c o (Some (rec_desc c r)) rs)).
      { rewrite (IH st Hka'); [rewrite Ed; apply desc_eqb_eq in Ee; subst d0; reflexivity|].
        unfold st_inv in *. rewrite Ed in *. intros r' Hin He. apply Hinv; [right; exact Hin|exact He]. }
      rewrite Hst. reflexivity.
    + rewrite (dict_row_own_keys _ (selected_NoDup o r)). rewrite Hnew. reflexivity.
  - simpl. rewrite (dict_row_own_keys _ (selected_NoDup o r)). rewrite Hnew. reflexivity.
Qed.

Theorem csv_layout : forall rs, keys_agree c o rs -> csvw_run c o cstate0 rs = Some (layout_prev c o None rs).
Proof. intros rs H. apply (csvw_run_layout rs cstate0 H). exact I. Qed.

Lemma group_runs_cons : forall r t, exists run more, group_runs c (r :: t) = (r :: run) :: more.
Proof.
  intros r t. simpl. destruct (group_runs c t) as [|[|r' run] more].
  - exists [], []. reflexivity.
  - exists [], []. reflexivity.
  - destruct (desc_eqb (rec_desc c r) (rec_desc c r')).
    + exists (r' :: run), more. reflexivity.
    + exists [], ((r' :: run) :: more). reflexivity.
Qed.

Lemma group_runs_step : forall r t,
  group_runs c (r :: t) =
  match group_runs c t with
  | (r' :: run) :: more =>
      if desc_eqb (rec_desc c r) (rec_desc c r') then (r :: r' :: run) :: more else [r] :: (r' :: run) :: more
  | _ => [[r]]
  end.
Proof. reflexivity. Qed.

Lemma layout_runs_cons : forall t r,
  layout_runs c o (r :: t) = header_of o r :: layout_prev c o (Some (rec_desc c r)) (r :: t).
Proof.
  induction t as [|r' t IH]; intros r.
  - unfold layout_runs. simpl. rewrite desc_eqb_refl. reflexivity.
  - specialize (IH r'). destruct (group_runs_cons r' t) as [run [more Hg]].
    unfold layout_runs in *. rewrite (group_runs_step r (r' :: t)), Hg. rewrite Hg in IH.
    simpl in IH. rewrite desc_eqb_refl in IH. simpl in IH. injection IH as IH.
    simpl layout_prev. rewrite desc_eqb_refl.
    destruct (desc_eqb (rec_desc c r) (rec_desc c r')) eqn:Ee.
    + simpl. rewrite IH. reflexivity.
    + simpl. rewrite IH. reflexivity.
Qed.

Theorem layout_prev_runs : forall rs, layout_prev c o None rs = layout_runs c o rs.
Proof.
  intros [|r t]; [reflexivity|]. rewrite layout_runs_cons. simpl. rewrite desc_eqb_refl. reflexivity.
Qed.

Theorem group_runs_spec : forall rs,
  concat (group_runs c rs) = rs /\ Forall (run_uniform c) (group_runs c rs) /\ adjacent_differ c (group_runs c rs).
Proof.
  induction rs as [|r t IH]; [simpl; split; [reflexivity|split; [constructor|exact I]]|].
  destruct IH as [Hc [Hu Ha]].
  destruct t as [|r' t'].
  - simpl. split; [reflexivity|]. split; [|split; exact I]. constructor; [simpl; constructor|constructor].
  - destruct (group_runs_cons r' t') as [run [more Hg]].
    rewrite (group_runs_step r (r' :: t')). rewrite Hg in *.
    destruct (desc_eqb (rec_desc c r) (rec_desc c r')) eqn:Ee.
    + inversion Hu as [|x xs Hu1 Hu2]. subst. simpl in Hc. injection Hc as Hc.
      split; [|split].
      * simpl. rewrite Hc. reflexivity.
      * constructor; [|exact Hu2]. simpl. constructor; [exact Ee|].
        simpl in Hu1. apply desc_eqb_eq in Ee. rewrite Ee. exact Hu1.
      * apply desc_eqb_eq in Ee.
        destruct more as [|[|r2 run2] more'].
        -- simpl. auto.
        -- simpl in Ha |- *. destruct Ha as [Ha1 Ha2]. split; [exact I|exact Ha2].
        -- simpl in Ha |- *. destruct Ha as [Ha1 Ha2]. split; [rewrite Ee; exact Ha1|exact Ha2].
    + split; [|split].
      * simpl. simpl in Hc. rewrite Hc. reflexivity.
      * constructor; [simpl; constructor|exact Hu].
      * simpl. split; [exact Ee|]. exact Ha.
Qed.

End Layout.

Theorem csv_parses_back : forall c o rs t term,
  keys_agree c o rs -> resolve_term c (o_term o) = term -> term_ok term ->
  rows_ok term (layout_runs c o rs) = true ->
  csv_text c o rs = Some t -> csv_parse 44 t = layout_runs c o rs.
Proof.
  intros c o rs t term Hka Hterm Htok Hrows Ht. unfold csv_text in Ht.
  rewrite (csv_layout c o rs Hka) in Ht. injection Ht as Ht. subst t. rewrite Hterm.
  rewrite layout_prev_runs. apply csv_round_trip; [reflexivity|exact Htok|exact Hrows].
Qed.

(* ------------------------------------------------------------------------------------------ *)
(* 3. LineWriter *)

Lemma line_run_blocks : forall c o rs k,
  line_run c o k rs = flat_map (fun p => line_block c o (fst p) (snd p)) (number_from (k + 1) rs).
Proof.
  intros c o. induction rs as [|r rs IH]; intros k; [reflexivity|].
  simpl. rewrite IH. reflexivity.
Qed.

Lemma number_from_fst : forall rs k,
  map fst (number_from (N.of_nat k) rs) = map N.of_nat (seq k (List.length rs)).
Proof.
  induction rs as [|r rs IH]; intros k; [reflexivity|].
  simpl. f_equal. replace (N.of_nat k + 1) with (N.of_nat (S k)) by lia. apply IH.
Qed.
Lemma number_from_snd : forall rs k, map snd (number_from k rs) = rs.
Proof. induction rs as [|r rs IH]; intros k; [reflexivity|]. simpl. rewrite IH. reflexivity. Qed.

Lemma lf_count_app : forall a b, lf_count (a ++ b) = (lf_count a + lf_count b)%nat.
Proof.
  unfold lf_count. induction a as [|x a IH]; intros b; [reflexivity|].
  simpl. destruct (x =? LF); rewrite IH; reflexivity.
Qed.
Lemma lf_count_repeat32 : forall n, lf_count (repeat 32 n) = O.
Proof. induction n as [|n IH]; [reflexivity|]. simpl. exact IH. Qed.
Lemma lf_count_digits : forall u, lf_count (uint_digits u) = O.
Proof. induction u; simpl; try reflexivity; exact IHu. Qed.
Lemma lf_count_dec : forall n, lf_count (dec n) = O.
Proof. intros n. apply lf_count_digits. Qed.

Lemma list_max_ge : forall l x, In x l -> (x <= list_max l)%nat.
Proof.
  induction l as [|y l IH]; intros x Hin; [destruct Hin|].
  simpl. destruct Hin as [-> | Hin]; [lia|]. specialize (IH x Hin). lia.
Qed.

Lemma rjust_length : forall w s, (List.length s <= w)%nat -> List.length (rjust w s) = w.
Proof. intros w s H. unfold rjust. rewrite app_length, repeat_length. lia. Qed.

Section Line.
Variable c : cfg.
Hypothesis Hpre : lf_count (g_hdr_pre c) = O.
Hypothesis Hsuf : lf_count (g_hdr_suf c) = 1%nat.
Hypothesis Hsep : lf_count (g_line_sep c) = O.
Hypothesis Hend : lf_count (g_line_end c) = 1%nat.
Hypothesis Hmid : lf_count (g_vkey_mid c) = O.
Hypothesis Hvend : lf_count (g_vkey_end c) = O.
Hypothesis Hextra : (List.length (g_vkey_mid c) + List.length (g_vkey_end c) <= g_vwidth_extra c)%nat.

Definition names_lf_free (d : list item) : Prop :=
  Forall (fun it => lf_count (i_key it) = O /\ lf_count (i_type it) = O) d.

Lemma line_of_count : forall v w it, lf_count (i_key it) = O -> lf_count (i_type it) = O ->
  lf_count (line_of c v w it) = S (lf_count (value_text it)).
Proof.
  intros v w it Hk Ht. unfold line_of, rjust, vkey. rewrite !lf_count_app, lf_count_repeat32, Hsep, Hend.
  destruct v; rewrite ?lf_count_app, ?Hk, ?Ht, ?Hmid, ?Hvend; lia.
Qed.

Lemma lines_count : forall v w d, names_lf_free d ->
  lf_count (flat_map (line_of c v w) d)
  = (List.length d + sum_nat (map (fun it => lf_count (value_text it)) d))%nat.
Proof.
  intros v w d H. induction H as [|it d [Hk Ht] Hd IH]; [reflexivity|].
  simpl. rewrite lf_count_app, IH, (line_of_count v w it Hk Ht). lia.
Qed.

Theorem line_block_count : forall o n r, names_lf_free (selected o r) ->
  lf_count (line_block c o n r)
  = S (List.length (selected o r) + sum_nat (map (fun it => lf_count (value_text it)) (selected o r))).
Proof.
  intros o n r H. unfold line_block, block_header.
  rewrite !lf_count_app, Hpre, Hsuf, lf_count_dec, (lines_count _ _ _ H). lia.
Qed.

Theorem line_block_one_line_per_field : forall o n r, names_lf_free (selected o r) ->
  Forall (fun it => lf_count (value_text it) = O) (selected o r) ->
  lf_count (line_block c o n r) = S (List.length (selected o r)).
Proof.
  intros o n r H Hv. rewrite (line_block_count o n r H).
  assert (Hs : sum_nat (map (fun it => lf_count (value_text it)) (selected o r)) = O).
  { induction Hv as [|it d Hit Hd IH]; [reflexivity|]. simpl. rewrite Hit. apply IH. inversion H; assumption. }
  rewrite Hs. lia.
Qed.

Theorem line_alignment : forall v d it, In it d ->
  List.length (rjust (line_width c v d) (vkey c v it)) = line_width c v d.
Proof.
  intros v d it Hin. apply rjust_length. unfold line_width, vkey. destruct v.
  - assert (H : (List.length (i_key it ++ i_type it) <= list_max (map (fun it0 => List.length (i_key it0 ++ i_type it0)) d))%nat).
    { apply list_max_ge. apply (in_map (fun it0 => List.length (i_key it0 ++ i_type it0))). exact Hin. }
    rewrite !app_length in *. lia.
  - apply list_max_ge. apply (in_map (fun it0 => List.length (i_key it0))). exact Hin.
Qed.

End Line.

(* ------------------------------------------------------------------------------------------ *)
(* 4. totality: every writer produces bytes when the record's text is encodable *)

Lemma utf8_total : forall se s, forallb (cp_ok se) s = true -> exists b, utf8 se s = Some b.
Proof.
  intros se. induction s as [|x s IH]; intros H; [exists []; reflexivity|].
  simpl in H. apply andb_prop in H. destruct H as [Hx Hs]. destruct (IH Hs) as [b Hb].
  simpl. rewrite Hb.
  assert (Hc : exists bx, utf8_cp se x = Some bx).
  { unfold cp_ok in Hx. apply andb_prop in Hx. destruct Hx as [Hlt Hsur]. unfold utf8_cp.
    destruct (x <? 128); [eexists; reflexivity|]. destruct (x <? 2048); [eexists; reflexivity|].
    destruct (x <? 65536).
    - destruct ((55296 <=? x) && (x <=? 57343)) eqn:Es; [|eexists; reflexivity].
      simpl in Hsur. rewrite Hsur. eexists; reflexivity.
    - rewrite Hlt. eexists; reflexivity. }
  destruct Hc as [bx Hbx]. rewrite Hbx. eexists; reflexivity.
Qed.

Lemma forallb_app_intro : forall (f : N -> bool) a b, forallb f a = true -> forallb f b = true -> forallb f (a ++ b) = true.
Proof. intros f a b Ha Hb. rewrite forallb_app, Ha, Hb. reflexivity. Qed.

Lemma forallb_flat_map : forall (A : Type) (f : N -> bool) (g : A -> text) l,
  (forall x, In x l -> forallb f (g x) = true) -> forallb f (flat_map g l) = true.
Proof.
  intros A f g. induction l as [|x l IH]; intros H; [reflexivity|].
  simpl. apply forallb_app_intro; [apply H; left; reflexivity|apply IH; intros y Hy; apply H; right; exact Hy].
Qed.

Lemma forallb_join : forall (f : N -> bool) sep l,
  forallb f sep = true -> (forall x, In x l -> forallb f x = true) -> forallb f (join sep l) = true.
Proof.
  intros f sep. induction l as [|x l IH]; intros Hs H; [reflexivity|].
  destruct l as [|y l]; [simpl; apply H; left; reflexivity|].
  change (join sep (x :: y :: l)) with (x ++ sep ++ join sep (y :: l)).
  apply forallb_app_intro; [apply H; left; reflexivity|].
  apply forallb_app_intro; [exact Hs|]. apply IH; [exact Hs|]. intros z Hz. apply H. right. exact Hz.
Qed.

Lemma forallb_cons_intro : forall (f : N -> bool) x l, f x = true -> forallb f l = true -> forallb f (x :: l) = true.
Proof. intros f x l Hx Hl. simpl. rewrite Hx, Hl. reflexivity. Qed.

Lemma cp_ok_ascii : forall se x, x <? 128 = true -> cp_ok se x = true.
Proof.
  intros se x H. apply N.ltb_lt in H. unfold cp_ok.
  assert (H1 : x <? 1114112 = true) by (apply N.ltb_lt; lia).
  assert (H2 : 55296 <=? x = false) by (apply N.leb_gt; lia).
  rewrite H1, H2. reflexivity.
Qed.

Lemma write_cell_ok : forall se d term s, cp_ok se QUOTE = true ->
  forallb (cp_ok se) s = true -> forallb (cp_ok se) (write_cell d term s) = true.
Proof.
  intros se d term s Hq Hs. unfold write_cell. destruct (existsb (needs_quote d term) s); [|exact Hs].
  apply forallb_cons_intro; [exact Hq|]. apply forallb_app_intro; [|apply forallb_cons_intro; [exact Hq|reflexivity]].
  apply forallb_flat_map. intros x Hx. rewrite forallb_forall in Hs. specialize (Hs x Hx).
  unfold esc. destruct (x =? QUOTE).
  - apply forallb_cons_intro; [exact Hq|]. apply forallb_cons_intro; [exact Hq|reflexivity].
  - apply forallb_cons_intro; [exact Hs|reflexivity].
Qed.

Lemma csv_write_ok : forall se d term rows, cp_ok se d = true -> forallb (cp_ok se) term = true ->
  forallb (forallb (forallb (cp_ok se))) rows = true -> forallb (cp_ok se) (csv_write d term rows) = true.
Proof.
  intros se d term rows Hd Ht Hrows. unfold csv_write. apply forallb_flat_map. intros r Hr.
  rewrite forallb_forall in Hrows. specialize (Hrows r Hr).
  assert (Hq : cp_ok se QUOTE = true) by (apply cp_ok_ascii; reflexivity).
  assert (Hgen : forallb (cp_ok se) (join [d] (map (write_cell d term) r) ++ term) = true).
  { apply forallb_app_intro; [|exact Ht]. apply forallb_join; [apply forallb_cons_intro; [exact Hd|reflexivity]|].
    intros x Hx. apply in_map_iff in Hx. destruct Hx as [s [<- Hs]]. apply write_cell_ok; [exact Hq|].
    rewrite forallb_forall in Hrows. apply Hrows. exact Hs. }
  unfold write_row. destruct r as [|s [|s2 r']]; [exact Hgen| |destruct s; exact Hgen]. destruct s; [|exact Hgen].
  apply forallb_app_intro; [|exact Ht]. apply forallb_cons_intro; [exact Hq|]. apply forallb_cons_intro; [exact Hq|reflexivity].
Qed.

Lemma rec_items_ok : forall se r it, rec_ok se r = true -> In it (rec_items r) -> item_ok se it = true.
Proof.
  intros se [p | n ms] it Hok Hin; simpl in *.
  - unfold prec_ok in Hok. apply andb_prop in Hok. destruct Hok as [_ Hi].
    rewrite forallb_forall in Hi. apply Hi. exact Hin.
  - apply andb_prop in Hok. destruct Hok as [_ Hms]. apply dedup_incl in Hin. apply in_flat_map in Hin.
    destruct Hin as [p [Hp Hit]]. rewrite forallb_forall in Hms. specialize (Hms p Hp).
    unfold prec_ok in Hms. apply andb_prop in Hms. destruct Hms as [_ Hi].
    rewrite forallb_forall in Hi. apply Hi. exact Hit.
Qed.

Lemma item_ok_parts : forall se it, item_ok se it = true ->
  forallb (cp_ok se) (i_key it) = true /\ forallb (cp_ok se) (i_type it) = true
  /\ forallb (cp_ok se) (value_text it) = true /\ forallb (cp_ok se) (cell_of it) = true
  /\ forallb (cp_ok se) (i_repr it) = true.
Proof.
  intros se it H. unfold item_ok in H.
  apply andb_prop in H. destruct H as [H H5]. apply andb_prop in H. destruct H as [H H4].
  apply andb_prop in H. destruct H as [H H3]. apply andb_prop in H. destruct H as [H1 H2]. auto.
Qed.

Theorem csv_total : forall c o rs, keys_agree c o rs ->
  forallb (rec_ok (g_csv_se c)) rs = true ->
  forallb (cp_ok (g_csv_se c)) (resolve_term c (o_term o)) = true ->
  exists b, csv_out c o rs = Some b.
Proof.
  intros c o rs Hka Hok Hterm. unfold csv_out, csv_text. rewrite (csv_layout c o rs Hka).
  apply utf8_total. apply csv_write_ok; [apply cp_ok_ascii; reflexivity|exact Hterm|].
  (* every row of the layout is made of keys and cells of selected items *)
  assert (Hsel : forall r, In r rs -> forall it, In it (selected o r) -> item_ok (g_csv_se c) it = true).
  { intros r Hr it Hit. rewrite forallb_forall in Hok. apply (rec_items_ok _ r it (Hok r Hr)).
    apply (selected_incl o r it Hit). }
  clear Hka Hok. generalize (@None desc). induction rs as [|r rs IH]; intros prev; [reflexivity|].
  assert (Hh : forallb (forallb (cp_ok (g_csv_se c))) (header_of o r) = true).
  { unfold header_of. apply forallb_forall. intros k Hk. apply in_map_iff in Hk. destruct Hk as [it [<- Hit]].
    apply (item_ok_parts _ it (Hsel r (or_introl eq_refl) it Hit)). }
  assert (Hv : forallb (forallb (cp_ok (g_csv_se c))) (value_row o r) = true).
  { unfold value_row. apply forallb_forall. intros k Hk. apply in_map_iff in Hk. destruct Hk as [it [<- Hit]].
    apply (item_ok_parts _ it (Hsel r (or_introl eq_refl) it Hit)). }
  simpl. rewrite forallb_app. simpl. rewrite Hv.
  rewrite (IH (fun r' Hr' => Hsel r' (or_intror Hr'))).
  destruct prev as [d0|]; [destruct (desc_eqb d0 (rec_desc c r))|]; simpl; rewrite ?Hh; reflexivity.
Qed.

Lemma digits_ok : forall se u, forallb (cp_ok se) (uint_digits u) = true.
Proof.
  intros se. induction u; try reflexivity;
    (apply forallb_cons_intro; [apply cp_ok_ascii; reflexivity|exact IHu]).
Qed.
Lemma repeat32_ok : forall se n, forallb (cp_ok se) (repeat 32 n) = true.
Proof.
  intros se. induction n as [|n IH]; [reflexivity|].
  apply forallb_cons_intro; [apply cp_ok_ascii; reflexivity|exact IH].
Qed.

Theorem line_total : forall c o rs,
  forallb (rec_ok (g_line_se c)) rs = true ->
  forallb (cp_ok (g_line_se c)) (g_hdr_pre c ++ g_hdr_suf c ++ g_line_sep c ++ g_line_end c ++ g_vkey_mid c ++ g_vkey_end c) = true ->
  exists b, line_out c o rs = Some b.
Proof.
  intros c o rs Hok Hc. unfold line_out, line_text. apply utf8_total.
  rewrite !forallb_app in Hc.
  apply andb_prop in Hc. destruct Hc as [Hpre Hc]. apply andb_prop in Hc. destruct Hc as [Hsuf Hc].
  apply andb_prop in Hc. destruct Hc as [Hsep Hc]. apply andb_prop in Hc. destruct Hc as [Hend Hc].
  apply andb_prop in Hc. destruct Hc as [Hmid Hvend].
  generalize 0. induction rs as [|r rs IH]; intros k; [reflexivity|].
  simpl in Hok. apply andb_prop in Hok. destruct Hok as [Hr Hrs].
  simpl. apply forallb_app_intro; [|apply (IH Hrs)].
  unfold line_block, block_header. repeat apply forallb_app_intro; try assumption; try apply digits_ok.
  apply forallb_flat_map. intros it Hit.
  pose proof (item_ok_parts _ it (rec_items_ok _ r it Hr (selected_incl o r it Hit))) as [Hk [Ht [Hv _]]].
  unfold line_of, rjust, vkey. repeat apply forallb_app_intro; try assumption; try apply repeat32_ok.
  destruct (o_verbose o); repeat apply forallb_app_intro; assumption.
Qed.

Ltac ascii_lit := repeat (apply forallb_cons_intro; [apply cp_ok_ascii; reflexivity|]); reflexivity.

Theorem text_repr_total : forall c r,
  rec_ok (g_text_se c) r = true -> forallb (cp_ok (g_text_se c)) (g_text_end c) = true ->
  exists b, utf8 (g_text_se c) (rec_repr c r ++ g_text_end c) = Some b.
Proof.
  intros c r Hok Hend. apply utf8_total. apply forallb_app_intro; [|exact Hend].
  assert (Hp : forall p, prec_ok (g_text_se c) p = true -> forallb (cp_ok (g_text_se c)) (plain_repr c p) = true).
  { intros p Hp. unfold prec_ok in Hp. apply andb_prop in Hp. destruct Hp as [Hn Hi].
    unfold plain_repr.
    apply forallb_app_intro; [ascii_lit|]. apply forallb_app_intro; [exact Hn|].
    apply forallb_app_intro; [ascii_lit|]. apply forallb_app_intro; [|ascii_lit].
    apply forallb_join; [ascii_lit|].
    intros x Hx. apply in_map_iff in Hx. destruct Hx as [it [<- Hit]].
    unfold user_items in Hit. apply filter_In in Hit. destruct Hit as [Hit _].
    rewrite forallb_forall in Hi. pose proof (item_ok_parts _ it (Hi it Hit)) as [Hk [_ [_ [_ Hr]]]].
    apply forallb_app_intro; [exact Hk|]. apply forallb_app_intro; [ascii_lit|exact Hr]. }
  destruct r as [p | n ms]; simpl in Hok; [apply Hp; exact Hok|].
  apply andb_prop in Hok. destruct Hok as [Hn Hms]. unfold rec_repr.
  apply forallb_app_intro; [ascii_lit|]. apply forallb_app_intro; [exact Hn|].
  apply forallb_app_intro; [ascii_lit|]. apply forallb_app_intro; [|ascii_lit].
  apply forallb_join; [ascii_lit|].
  intros x Hx. apply in_map_iff in Hx. destruct Hx as [p [<- Hpin]]. apply Hp.
  rewrite forallb_forall in Hms. apply Hms. exact Hpin.
Qed.

(* ------------------------------------------------------------------------------------------ *)
(* 5. TextWriter: the template grammar *)

Notation Lst acc items :=
  {| t_mode := MLit; t_acc := acc; t_name := []; t_conv := None; t_items := items |}.

Lemma eqb_false_of_negb_or : forall a b : bool, negb (a || b) = true -> a = false /\ b = false.
Proof. intros [|] [|]; simpl; intros H; try discriminate; auto. Qed.

(* a literal run (braces doubled) *)
Lemma trun_literal : forall s acc items rest,
  trun (Lst acc items) (flat_map esc_brace s ++ rest) = trun (Lst (rev s ++ acc) items) rest.
Proof.
  induction s as [|c s IH]; intros acc items rest; [reflexivity|].
  simpl flat_map. unfold esc_brace at 1.
  destruct (c =? LB) eqn:E1.
  - apply N.eqb_eq in E1. subst c. simpl. unfold with_mode. simpl. rewrite IH, <- app_assoc. reflexivity.
  - destruct (c =? RB) eqn:E2.
    + apply N.eqb_eq in E2. subst c. simpl. unfold with_mode. simpl. rewrite IH, <- app_assoc. reflexivity.
    + simpl. unfold tstep at 1. simpl. rewrite E1, E2. unfold with_mode. simpl.
      change {| t_mode := MLit; t_acc := c :: acc; t_name := []; t_conv := None; t_items := items |}
        with (Lst (c :: acc) items).
      rewrite IH, <- app_assoc. reflexivity.
Qed.

Notation Nst acc items :=
  {| t_mode := MName; t_acc := acc; t_name := []; t_conv := None; t_items := items |}.

Lemma name_char_parts : forall c, name_char c = true ->
  (c =? RB) = false /\ (c =? 58) = false /\ (c =? 33) = false /\ (c =? LB) = false /\ (c =? 91) = false /\ (c =? 46) = false.
Proof.
  intros c H. unfold name_char in H. rewrite negb_true_iff in H.
  repeat (apply orb_false_iff in H; destruct H as [H ?]). auto 10.
Qed.

Lemma trun_name : forall s acc items rest, forallb name_char s = true ->
  trun (Nst acc items) (s ++ rest) = trun (Nst (rev s ++ acc) items) rest.
Proof.
  induction s as [|c s IH]; intros acc items rest H; [reflexivity|].
  simpl in H. apply andb_prop in H. destruct H as [Hc Hs].
  destruct (name_char_parts c Hc) as [E1 [E2 [E3 [E4 [E5 E6]]]]].
  simpl. unfold tstep at 1. simpl. unfold name_step. simpl. rewrite E1, E2, E3, E4, E5, E6. simpl.
  unfold with_mode. simpl.
  change {| t_mode := MName; t_acc := c :: acc; t_name := []; t_conv := None; t_items := items |}
    with (Nst (c :: acc) items).
  rewrite (IH _ _ _ Hs), <- app_assoc. reflexivity.
Qed.

Notation Sst acc name cv items :=
  {| t_mode := MSpec; t_acc := acc; t_name := name; t_conv := cv; t_items := items |}.

Lemma trun_spec : forall s acc name cv items rest, forallb spec_char s = true ->
  trun (Sst acc name cv items) (s ++ rest) = trun (Sst (rev s ++ acc) name cv items) rest.
Proof.
  induction s as [|c s IH]; intros acc name cv items rest H; [reflexivity|].
  simpl in H. apply andb_prop in H. destruct H as [Hc Hs].
  unfold spec_char in Hc. rewrite negb_true_iff in Hc. apply orb_false_iff in Hc. destruct Hc as [E1 E2].
  simpl. unfold tstep at 1. simpl. rewrite E1, E2. unfold with_mode. simpl.
  change {| t_mode := MSpec; t_acc := c :: acc; t_name := name; t_conv := cv; t_items := items |}
    with (Sst (c :: acc) name cv items).
  rewrite (IH _ _ _ _ _ Hs), <- app_assoc. reflexivity.
Qed.

Lemma trun_cons : forall st c t, trun st (c :: t) = match tstep st c with Some st' => trun st' t | None => None end.
Proof. reflexivity. Qed.

Notation Ost acc items := {| t_mode := MOpen; t_acc := acc; t_name := []; t_conv := None; t_items := items |}.
Notation Cst name items := {| t_mode := MConv; t_acc := []; t_name := name; t_conv := None; t_items := items |}.
Notation Dst name cc items := {| t_mode := MConvDone; t_acc := []; t_name := name; t_conv := Some cc; t_items := items |}.

Lemma tstep_L_lb : forall acc items, tstep (Lst acc items) LB = Some (Ost acc items).
Proof. reflexivity. Qed.
Lemma tstep_open_name : forall acc items c, name_char c = true ->
  tstep (Ost acc items) c = Some (Nst [c] (push_lit acc items)).
Proof.
  intros acc items c H. destruct (name_char_parts c H) as [E1 [E2 [E3 [E4 [E5 E6]]]]].
  unfold tstep, name_step, with_mode. simpl. rewrite E4, E1, E2, E3, E5, E6. reflexivity.
Qed.
Lemma tstep_name_rb : forall acc items, name_ok (rev acc) = true ->
  tstep (Nst acc items) RB = Some (Lst [] (TField (rev acc) None [] :: items)).
Proof. intros acc items H. unfold tstep, name_step, emit_field. simpl. rewrite H. reflexivity. Qed.
Lemma tstep_name_colon : forall acc items, tstep (Nst acc items) 58 = Some (Sst [] (rev acc) None items).
Proof. reflexivity. Qed.
Lemma tstep_name_bang : forall acc items, tstep (Nst acc items) 33 = Some (Cst (rev acc) items).
Proof. reflexivity. Qed.
Lemma tstep_conv : forall name items cc, conv_ok (Some cc) = true ->
  tstep (Cst name items) cc = Some (Dst name cc items).
Proof. intros name items cc H. unfold tstep. simpl. simpl in H. rewrite H. reflexivity. Qed.
Lemma tstep_convdone_rb : forall name cc items, name_ok name = true ->
  tstep (Dst name cc items) RB = Some (Lst [] (TField name (Some cc) [] :: items)).
Proof. intros name cc items H. unfold tstep, emit_field. simpl. rewrite H. reflexivity. Qed.
Lemma tstep_convdone_colon : forall name cc items,
  tstep (Dst name cc items) 58 = Some (Sst [] name (Some cc) items).
Proof. reflexivity. Qed.
Lemma tstep_spec_rb : forall acc name cv items, name_ok name = true ->
  tstep (Sst acc name cv items) RB = Some (Lst [] (TField name cv (rev acc) :: items)).
Proof. intros acc name cv items H. unfold tstep, emit_field. simpl. rewrite H. reflexivity. Qed.

(* one replacement field, read in literal mode with a pending literal [acc] *)
Lemma trun_field : forall n cv sp acc items rest, item_canon (TField n cv sp) = true ->
  trun (Lst acc items) (unparse_item (TField n cv sp) ++ rest)
  = trun (Lst [] (TField n cv sp :: push_lit acc items)) rest.
Proof.
  intros n cv sp acc items rest H. simpl in H.
  apply andb_prop in H. destruct H as [H Hsp]. apply andb_prop in H. destruct H as [H Hcv].
  apply andb_prop in H. destruct H as [Hok Hn].
  destruct n as [|c n]; [discriminate|].
  simpl in Hn. apply andb_prop in Hn. destruct Hn as [Hc Hn].
  assert (Hname : rev (rev n ++ [c]) = c :: n) by (rewrite rev_app_distr, rev_involutive; reflexivity).
  unfold unparse_item. rewrite <- !app_assoc. rewrite app_single, <- app_comm_cons.
  rewrite trun_cons, tstep_L_lb, trun_cons, (tstep_open_name _ _ c Hc).
  rewrite (trun_name n [c] _ _ Hn).
  destruct cv as [cc|]; destruct sp as [|s0 sp].
  - (* {n!c} *)
    change ([33; cc] ++ [] ++ [RB] ++ rest) with (33 :: cc :: RB :: rest).
    rewrite trun_cons, tstep_name_bang, Hname, trun_cons, (tstep_conv _ _ cc Hcv).
    rewrite trun_cons, (tstep_convdone_rb _ _ _ Hok). reflexivity.
  - (* {n!c:spec} *)
    change ([33; cc] ++ (58 :: s0 :: sp) ++ [RB] ++ rest) with (33 :: cc :: 58 :: (s0 :: sp) ++ RB :: rest).
    rewrite trun_cons, tstep_name_bang, Hname, trun_cons, (tstep_conv _ _ cc Hcv).
    rewrite trun_cons, tstep_convdone_colon.
    rewrite (trun_spec (s0 :: sp) [] _ _ _ _ Hsp).
    rewrite trun_cons, (tstep_spec_rb _ _ _ _ Hok). rewrite app_nil_r, rev_involutive. reflexivity.
  - (* {n} *)
    change ([] ++ [] ++ [RB] ++ rest) with (RB :: rest).
    rewrite trun_cons, tstep_name_rb; rewrite Hname; [reflexivity|exact Hok].
  - (* {n:spec} *)
    change ([] ++ (58 :: s0 :: sp) ++ [RB] ++ rest) with (58 :: (s0 :: sp) ++ RB :: rest).
    rewrite trun_cons, tstep_name_colon, Hname.
    rewrite (trun_spec (s0 :: sp) [] _ _ _ _ Hsp).
    rewrite trun_cons, (tstep_spec_rb _ _ _ _ Hok). rewrite app_nil_r, rev_involutive. reflexivity.
Qed.

Lemma push_lit_rev_nonempty : forall (s : text) items, s <> [] -> push_lit (rev s) items = TLit s :: items.
Proof.
  intros s items H. unfold push_lit. destruct (rev s) eqn:Er.
  - exfalso. apply H. apply (f_equal (@rev N)) in Er. rewrite rev_involutive in Er. exact Er.
  - rewrite <- Er, rev_involutive. reflexivity.
Qed.

Lemma trun_items : forall l acc items, tpl_canon l = true ->
  (acc <> [] -> match l with TLit _ :: _ => False | _ => True end) ->
  exists acc' items', trun (Lst acc items) (flat_map unparse_item l) = Some (Lst acc' items')
                      /\ rev (push_lit acc' items') = rev (push_lit acc items) ++ l.
Proof.
  induction l as [|it l IH]; intros acc items Hc Hacc.
  - exists acc, items. split; [reflexivity|rewrite app_nil_r; reflexivity].
  - simpl in Hc. apply andb_prop in Hc. destruct Hc as [Hc Hadj]. apply andb_prop in Hc. destruct Hc as [Hit Hl].
    simpl flat_map. destruct it as [s | n cv sp].
    + (* literal: no literal is pending *)
      assert (Ha : acc = []). { destruct acc; [reflexivity|]. exfalso. apply Hacc. discriminate. }
      subst acc. change (unparse_item (TLit s)) with (flat_map esc_brace s). rewrite trun_literal, app_nil_r.
      destruct (IH (rev s) items Hl) as [acc' [items' [H1 H2]]].
      { intros _. destruct l as [|[s2|] l']; try exact I. discriminate. }
      exists acc', items'. split; [exact H1|]. rewrite H2.
      simpl in Hit. destruct s as [|c s]; [discriminate|].
      rewrite (push_lit_rev_nonempty (c :: s) items ltac:(discriminate)).
      simpl. rewrite <- app_assoc. reflexivity.
    + rewrite (trun_field n cv sp acc items _ Hit).
      destruct (IH [] (TField n cv sp :: push_lit acc items) Hl) as [acc' [items' [H1 H2]]].
      { intros H. exfalso. apply H. reflexivity. }
      exists acc', items'. split; [exact H1|]. rewrite H2. simpl. rewrite <- app_assoc. reflexivity.
Qed.

Theorem parse_unparse : forall l, tpl_canon l = true -> parse_template (flat_map unparse_item l) = Some l.
Proof.
  intros l H. unfold parse_template.
  destruct (trun_items l [] [] H) as [acc' [items' [H1 H2]]]; [intros Hn; exfalso; apply Hn; reflexivity|].
  change tstate0 with (Lst [] []). rewrite H1. simpl. rewrite H2. reflexivity.
Qed.

(* rendering is the concatenation of the per-item renderings *)
Lemma render_all_ok : forall items tbl l outs,
  Forall2 (fun it out => render_item items tbl it = Ok out) l outs -> render items tbl l = Ok (concat outs).
Proof.
  intros items tbl l outs H. induction H as [|it out l outs Hit Hl IH]; [reflexivity|].
  simpl. rewrite Hit, IH. reflexivity.
Qed.

(* ------------------------------------------------------------------------------------------ *)
(* 6. normalize_fieldname *)

Lemma In_N_range : forall len lo x, lo <= x -> x < lo + N.of_nat len -> In x (N_range lo len).
Proof.
  induction len as [|len IH]; intros lo x H1 H2; [simpl in H2; lia|].
  simpl. destruct (N.eq_dec lo x) as [->|Hne]; [left; reflexivity|].
  right. apply IH; lia.
Qed.

Section Normalize.
Variable R : list text.
Variable nc : ncfg.
Variable isdec : N -> bool.
Hypothesis HR : forallb starts_with_underscore R = true.
Hypothesis Hsub : n_sub nc = [95].
Hypothesis Hu : existsb (N.eqb 95) (n_chars nc) = false.
Hypothesis Hpre : n_prefix nc = [120; 95].
Hypothesis Hx : existsb (N.eqb 120) (n_chars nc) = false.
Hypothesis Hdx : isdec 120 = false.

Definition in_class (ch : N) : bool := existsb (N.eqb ch) (n_chars nc).
Definition subst (s : text) : text := flat_map (fun ch => if in_class ch then n_sub nc else [ch]) s.
Definition clean (s : text) : bool := forallb (fun ch => negb (in_class ch)) s.

Lemma normalize_unfold : forall name,
  normalize R nc isdec name =
  if mem name R then name
  else match subst name with
       | [] => n_prefix nc ++ subst name
       | ch :: _ => if (ch =? 95) || isdec ch then n_prefix nc ++ subst name else subst name
       end.
Proof. reflexivity. Qed.

Lemma subst_clean : forall s, clean (subst s) = true.
Proof.
  induction s as [|ch s IH]; [reflexivity|].
  unfold subst, clean in *. simpl. rewrite forallb_app, IH, andb_true_r.
  destruct (in_class ch) eqn:E.
  - rewrite Hsub. simpl. unfold in_class. rewrite Hu. reflexivity.
  - simpl. rewrite E. reflexivity.
Qed.
Lemma subst_id : forall s, clean s = true -> subst s = s.
Proof.
  induction s as [|ch s IH]; intros H; [reflexivity|].
  unfold clean in H. simpl in H. apply andb_prop in H. destruct H as [Hc Hs].
  unfold subst. simpl. rewrite negb_true_iff in Hc. rewrite Hc. simpl. f_equal. apply IH. exact Hs.
Qed.
Lemma reserved_head : forall s, mem s R = true -> starts_with_underscore s = true.
Proof. intros s H. apply mem_In in H. rewrite forallb_forall in HR. apply HR. exact H. Qed.
Lemma not_reserved : forall ch s, ch <> 95 -> mem (ch :: s) R = false.
Proof.
  intros ch s H. destruct (mem (ch :: s) R) eqn:E; [|reflexivity].
  apply reserved_head in E. simpl in E.
  destruct ch as [|p]; [discriminate|]. exfalso. apply H.
  repeat (destruct p as [p|p|]; try discriminate). reflexivity.
Qed.

Lemma prefixed_fixed : forall s, clean s = true -> normalize R nc isdec ([120; 95] ++ s) = [120; 95] ++ s.
Proof.
  intros s Hs. change ([120; 95] ++ s) with (120 :: 95 :: s). rewrite normalize_unfold. rewrite (not_reserved 120 (95 :: s)) by discriminate.
  assert (Hc : clean (120 :: 95 :: s) = true).
  { unfold clean. simpl. unfold in_class. rewrite Hx, Hu. exact Hs. }
  rewrite (subst_id _ Hc). simpl. rewrite Hdx. reflexivity.
Qed.

Theorem normalize_idempotent : forall name,
  normalize R nc isdec (normalize R nc isdec name) = normalize R nc isdec name.
Proof.
  intros name. rewrite (normalize_unfold name). destruct (mem name R) eqn:Em.
  - rewrite normalize_unfold, Em. reflexivity.
  - pose proof (subst_clean name) as Hc. rewrite Hpre.
    destruct (subst name) as [|ch s] eqn:Es.
    + apply (prefixed_fixed [] eq_refl).
    + destruct ((ch =? 95) || isdec ch) eqn:Eh.
      * apply (prefixed_fixed (ch :: s) Hc).
      * apply orb_false_iff in Eh. destruct Eh as [E1 E2]. apply N.eqb_neq in E1.
        rewrite normalize_unfold, (not_reserved ch s E1), (subst_id _ Hc).
        apply N.eqb_neq in E1. rewrite E1, E2. reflexivity.
Qed.

Theorem normalize_first_char : forall name, mem name R = false ->
  exists ch s, normalize R nc isdec name = ch :: s /\ ch <> 95 /\ isdec ch = false /\ clean (ch :: s) = true.
Proof.
  intros name Em. rewrite normalize_unfold, Em, Hpre. pose proof (subst_clean name) as Hc.
  assert (Hp : forall s, clean s = true -> clean ([120; 95] ++ s) = true).
  { intros s Hs. unfold clean. simpl. unfold in_class. rewrite Hx, Hu. exact Hs. }
  destruct (subst name) as [|ch s] eqn:Es.
  - exists 120, [95]. repeat split; [discriminate|exact Hdx|apply (Hp [] eq_refl)].
  - destruct ((ch =? 95) || isdec ch) eqn:Eh.
    + exists 120, (95 :: ch :: s). repeat split; [discriminate|exact Hdx|apply (Hp _ Hc)].
    + apply orb_false_iff in Eh. destruct Eh as [E1 E2]. apply N.eqb_neq in E1.
      exists ch, s. repeat split; assumption.
Qed.

Hypothesis Hdigits : forallb isdec (N_range 48 10) = true.

Lemma digit_isdec : forall ch, is_digit ch = true -> isdec ch = true.
Proof.
  intros ch H. unfold is_digit in H. apply andb_prop in H. destruct H as [H1 H2].
  apply N.leb_le in H1, H2. rewrite forallb_forall in Hdigits. apply Hdigits.
  apply In_N_range; simpl; lia.
Qed.

Theorem normalize_valid_on_simple_names : forall name,
  forallb (simple_name_char nc) name = true -> mem name R = false ->
  valid_field_name (normalize R nc isdec name) = true.
Proof.
  intros name Hs Em. rewrite normalize_unfold, Em, Hpre.
  assert (Hw : forallb is_word (subst name) = true).
  { clear Em. induction name as [|ch s IH]; [reflexivity|].
    simpl in Hs. apply andb_prop in Hs. destruct Hs as [Hc Hs].
    unfold subst in *. simpl. rewrite forallb_app, (IH Hs), andb_true_r.
    unfold simple_name_char in Hc. fold (in_class ch) in Hc. destruct (in_class ch).
    - rewrite Hsub. reflexivity.
    - rewrite orb_false_r in Hc. simpl. rewrite Hc. reflexivity. }
  destruct (subst name) as [|ch s] eqn:Es; [reflexivity|].
  destruct ((ch =? 95) || isdec ch) eqn:Eh.
  - change (valid_field_name ([120; 95] ++ ch :: s)) with (is_alpha 120 && (is_word 95 && forallb is_word (ch :: s))).
    rewrite Hw. reflexivity.
  - apply orb_false_iff in Eh. destruct Eh as [E1 E2].
    simpl in Hw. apply andb_prop in Hw. destruct Hw as [Hch Hrest].
    unfold valid_field_name. rewrite E1. unfold valid_body. rewrite Hrest, andb_true_r.
    unfold is_word in Hch. rewrite E1, orb_false_r in Hch. apply orb_prop in Hch.
    destruct Hch as [Ha | Hd]; [exact Ha|]. rewrite (digit_isdec ch Hd) in E2. discriminate.
Qed.

(* ---- reading back *)
Hypothesis Hclass : forallb (fun ch => negb (is_word ch)) (n_chars nc) = true.
Hypothesis Hletters : forallb (fun ch => negb (isdec ch)) (N_range 65 26 ++ N_range 97 26) = true.

Lemma alpha_not_dec : forall ch, is_alpha ch = true -> isdec ch = false.
Proof.
  intros ch H. rewrite forallb_forall in Hletters. apply negb_true_iff. apply Hletters.
  apply in_or_app. unfold is_alpha in H. apply orb_prop in H. destruct H as [H | H];
    apply andb_prop in H; destruct H as [H1 H2]; apply N.leb_le in H1, H2;
    [left|right]; apply In_N_range; simpl; lia.
Qed.
Lemma word_not_in_class : forall ch, is_word ch = true -> in_class ch = false.
Proof.
  intros ch H. unfold in_class. destruct (existsb (N.eqb ch) (n_chars nc)) eqn:E; [|reflexivity].
  apply existsb_exists in E. destruct E as [y [Hy Hey]]. apply N.eqb_eq in Hey. subst y.
  rewrite forallb_forall in Hclass. specialize (Hclass ch Hy). rewrite H in Hclass. discriminate.
Qed.

Lemma normalize_valid_id : forall n, valid_body n = true -> normalize R nc isdec n = n.
Proof.
  intros n H. destruct n as [|ch s]; [discriminate|].
  simpl in H. apply andb_prop in H. destruct H as [Ha Hs].
  assert (Hne : ch <> 95). { intros ->. discriminate. }
  assert (Hc : clean (ch :: s) = true).
  { unfold clean. simpl. rewrite (word_not_in_class ch) by (unfold is_word; rewrite Ha; reflexivity). simpl.
    apply forallb_forall. intros y Hy. rewrite forallb_forall in Hs. rewrite (word_not_in_class y (Hs y Hy)). reflexivity. }
  rewrite normalize_unfold, (not_reserved ch s Hne), (subst_id _ Hc).
  apply N.eqb_neq in Hne. rewrite Hne, (alpha_not_dec ch Ha). reflexivity.
Qed.

Lemma zip_lookup_absent : forall names cells k acc, ~ In k names -> zip_lookup k names cells acc = acc.
Proof.
  induction names as [|n ns IH]; intros cells k acc H; [reflexivity|].
  destruct cells as [|v vs]; [reflexivity|]. simpl.
  destruct (text_eqb n k) eqn:E.
  - apply text_eqb_eq in E. exfalso. apply H. left. exact E.
  - apply IH. intros Hin. apply H. right. exact Hin.
Qed.

Lemma zip_rows : forall names cells, NoDup names -> List.length cells = List.length names ->
  map (fun k => (k, zip_lookup k names cells None)) names = combine names (map Some cells).
Proof.
  induction names as [|n ns IH]; intros cells Hnd Hlen; [reflexivity|].
  destruct cells as [|v vs]; [discriminate|]. inversion Hnd as [|x xs Hnotin Hnd']. subst.
  simpl. rewrite text_eqb_refl. rewrite (zip_lookup_absent ns vs n (Some v) Hnotin). f_equal.
  rewrite <- (IH vs Hnd' ltac:(simpl in Hlen; lia)).
  apply map_ext_in. intros k Hk.
  destruct (text_eqb n k) eqn:E; [|reflexivity].
  apply text_eqb_eq in E. subst k. contradiction.
Qed.

Theorem csv_read_back : forall d hdr rows, delim_ok d = true ->
  Forall (fun n => valid_body n = true) hdr -> NoDup hdr ->
  Forall (fun rw : row => List.length rw = List.length hdr) rows ->
  csv_read R nc isdec d None (csv_write d CRLF (hdr :: rows))
  = Some (hdr, map (fun rw => combine hdr (map Some rw)) rows).
Proof.
  intros d hdr rows Hd Hv Hnd Hlen. unfold csv_read. rewrite (csv_round_trip_crlf d (hdr :: rows) Hd).
  assert (Hn : map (normalize R nc isdec) hdr = hdr).
  { clear Hnd Hlen. induction Hv as [|n ns Hn Hns IH]; [reflexivity|]. simpl. rewrite (normalize_valid_id n Hn), IH. reflexivity. }
  rewrite Hn.
  assert (Hf : filter (fun n => match n with 95 :: _ => false | _ => true end) hdr = hdr).
  { clear Hn Hnd Hlen. induction Hv as [|n ns Hn Hns IH]; [reflexivity|]. simpl.
    destruct n as [|ch s]; [discriminate|]. simpl in Hn. apply andb_prop in Hn. destruct Hn as [Ha _].
    assert (Hne : ch <> 95) by (intros ->; discriminate).
    assert (Hm : match ch :: s with 95 :: _ => false | _ => true end = true).
    { destruct ch as [|p]; [reflexivity|]. repeat (destruct p as [p|p|]; try reflexivity). exfalso. apply Hne. reflexivity. }
    rewrite Hm, IH. reflexivity. }
  rewrite Hf. f_equal. f_equal. apply map_ext_in. intros rw Hrw.
  rewrite Forall_forall in Hlen. apply zip_rows; [exact Hnd|apply Hlen; exact Hrw].
Qed.

Lemma valid_body_valid_name : forall n, valid_body n = true -> valid_field_name n = true.
Proof.
  intros [|ch s] H; [discriminate|]. unfold valid_field_name.
  destruct (ch =? 95) eqn:E; [|exact H].
  apply N.eqb_eq in E. subst ch. simpl in H. discriminate.
Qed.

Lemma valid_header_is_field_names : forall hdr, hdr <> [] ->
  Forall (fun n => valid_body n = true) hdr -> header_is_field_names R nc isdec hdr = true.
Proof.
  intros [|h t] Hne Hv; [contradiction|]. unfold header_is_field_names. apply forallb_forall. intros c Hc.
  rewrite Forall_forall in Hv. rewrite (normalize_valid_id c (Hv c Hc)). apply valid_body_valid_name. apply Hv. exact Hc.
Qed.

End Normalize.

(* ------------------------------------------------------------------------------------------ *)
(* 7. the end anchor of RE_VALID_FIELD_NAME ($ or \Z) does not matter for text without a line feed *)

Lemma word_not_lf : forall ch, is_word ch = true -> ch <> LF.
Proof. intros ch H E. subst ch. discriminate. Qed.

Lemma valid_body_no_lf : forall s, valid_body s = true -> ~ In LF s.
Proof.
  intros [|ch s] H; [discriminate|]. simpl in H. apply andb_prop in H. destruct H as [Ha Hs].
  intros [E | Hin].
  - subst ch. discriminate.
  - rewrite forallb_forall in Hs. apply (word_not_lf LF (Hs LF Hin)). reflexivity.
Qed.

Theorem valid_field_name_no_lf : forall s, valid_field_name s = true -> ~ In LF s.
Proof.
  intros [|ch s] H; [discriminate|]. unfold valid_field_name in H.
  destruct (ch =? 95) eqn:E.
  - apply N.eqb_eq in E. subst ch. intros [E2 | Hin]; [discriminate|]. apply (valid_body_no_lf s H Hin).
  - apply (valid_body_no_lf (ch :: s) H).
Qed.

Theorem valid_field_name_dollar_same : forall s, ~ In LF s -> valid_field_name_dollar s = valid_field_name s.
Proof.
  intros s H. unfold valid_field_name_dollar.
  destruct (rev s) as [|x r] eqn:Er; [rewrite orb_false_r; reflexivity|].
  destruct (N.eq_dec x 10) as [->|Hne].
  - exfalso. apply H. apply in_rev. rewrite Er. left. reflexivity.
  - destruct x as [|p]; [rewrite orb_false_r; reflexivity|].
    assert (Hm : match N.pos p with 10 => valid_field_name (rev r) | _ => false end = false).
    { repeat (destruct p as [p|p|]; try reflexivity). exfalso. apply Hne. reflexivity. }
    rewrite Hm, orb_false_r. reflexivity.
Qed.

(* ------------------------------------------------------------------------------------------ *)
(* 8. the reader takes the writer's dialect when the first row consists of field names *)

Theorem reader_delimiter_excel : forall R nc isdec sample sniff term hdr rest,
  term_ok term -> forallb (cell_ok term) hdr = true ->
  header_is_field_names R nc isdec hdr = true ->
  (List.length (write_row 44 term hdr) <= N.to_nat sample)%nat ->
  reader_delimiter true R nc isdec sample sniff (write_row 44 term hdr ++ rest) = 44.
Proof.
  intros R nc isdec sample sniff term hdr rest Ht Hok Hn Hlen. unfold reader_delimiter.
  rewrite firstn_app, (firstn_all2 _ Hlen).
  unfold csv_parse. rewrite (row_round_trip 44 eq_refl term hdr _ Ht Hok). simpl first_row. rewrite Hn. reflexivity.
Qed.

Lemma cells_ok_crlf : forall r : row, forallb (cell_ok CRLF) r = true.
Proof.
  intros r. pose proof (rows_ok_crlf [r]) as H. unfold rows_ok in H. simpl in H. rewrite andb_true_r in H. exact H.
Qed.

